// Package build is a faithful, deterministic, synchronous transcription of the miner's block
// builder (miner/worker.go: commitNewWork / commitTransactions / commitTransaction / commit /
// postSeal). It drives the REAL processor, engine and BlockChain of a node; the only things that
// are replaced are the sources of nondeterminism of the worker: wall-clock time (a logical
// timestamp is passed in), the tx pool (an ordered list with the Peek/Shift/Pop semantics of
// types.TransactionsByPriceAndNonce), goroutines/channels (Build and Commit are two synchronous
// steps) and the interrupt flag (never set).
//
// Line references are to miner/worker.go.
package build

import (
	"crypto/sha256"
	"fmt"
	"math/big"
	"os"
	"path/filepath"
	"reflect"
	"runtime"

	"github.com/youchainhq/go-youchain/common"
	"github.com/youchainhq/go-youchain/consensus"
	"github.com/youchainhq/go-youchain/core"
	"github.com/youchainhq/go-youchain/core/state"
	"github.com/youchainhq/go-youchain/core/types"
	"github.com/youchainhq/go-youchain/local"
	"github.com/youchainhq/go-youchain/params"
)

// TxSet is what commitTransactions needs from types.TransactionsByPriceAndNonce.
type TxSet interface {
	Peek() *types.Transaction
	Shift() // done with the head; the next tx of the same account becomes eligible
	Pop()   // drop the head and every later tx of the same account
}

// OrderedTxs is a deterministic TxSet: list order is priority order (the real heap breaks price
// ties by Go map iteration order, which would make a run irreproducible). Txs of one account must
// appear in nonce order, as the pool guarantees.
type OrderedTxs struct {
	signer types.Signer
	txs    []*types.Transaction
}

func NewOrderedTxs(signer types.Signer, txs []*types.Transaction) *OrderedTxs {
	return &OrderedTxs{signer: signer, txs: append([]*types.Transaction{}, txs...)}
}

func (o *OrderedTxs) Peek() *types.Transaction {
	if len(o.txs) == 0 {
		return nil
	}
	return o.txs[0]
}

func (o *OrderedTxs) Shift() {
	if len(o.txs) > 0 {
		o.txs = o.txs[1:]
	}
}

func (o *OrderedTxs) Pop() {
	if len(o.txs) == 0 {
		return
	}
	from, _ := types.Sender(o.signer, o.txs[0])
	var rest []*types.Transaction
	for _, tx := range o.txs[1:] {
		if f, _ := types.Sender(o.signer, tx); f != from {
			rest = append(rest, tx)
		}
	}
	o.txs = rest
}

// Skipped is a transaction the builder did not include, with the error of ApplyTransaction and
// what the dispatch of commitTransactions did with the account's queue.
type Skipped struct {
	Tx     *types.Transaction
	Err    error
	Action string // "pop" (account dropped) | "shift" (next tx of the account tried)
}

// Hooks let a monitor observe the builder's live state between the steps (observation only).
type Hooks struct {
	// BeforeTx is called after state.Prepare and before the snapshot/ApplyTransaction.
	BeforeTx func(idx int, tx *types.Transaction, st *state.StateDB)
	// AfterTx is called after ApplyTransaction (and after RevertToSnapshot on error). gasCharged is
	// what the block gas pool lost to this tx (0 on error).
	AfterTx func(idx int, tx *types.Transaction, st *state.StateDB, receipt *types.Receipt, err error, gasCharged uint64)
	// AfterEndBlock is called after processor.EndBlock and before engine.FinalizeAndAssemble.
	AfterEndBlock func(st *state.StateDB, header *types.Header)
}

// Result is one built (not yet committed) block: the worker's `task` plus bookkeeping.
type Result struct {
	Block    *types.Block
	Receipts []*types.Receipt // the deep copies the worker hands to WriteBlockWithState
	State    *state.StateDB   // post state (already IntermediateRoot'ed by the engine)
	Txs      []*types.Transaction
	Skipped  []Skipped
	// TxReceipts are the receipts of the included txs (without the module receipts).
	TxReceipts []*types.Receipt
	// ModuleReceipts are the non-nil receipts returned by the end-block hooks.
	ModuleReceipts []*types.Receipt
	// GasCharged[i] is the gas the block gas pool lost to Txs[i].
	GasCharged []uint64
	// StoppedForGas is true when the loop ended on "gasPool.Gas() < params.TxGas".
	StoppedForGas bool
}

// Builder is the worker minus goroutines.
type Builder struct {
	Chain  *core.BlockChain
	Engine consensus.Engine
	Extra  []byte
	Hooks  *Hooks
}

func New(chain *core.BlockChain, engine consensus.Engine) *Builder {
	return &Builder{Chain: chain, Engine: engine}
}

// environment mirrors miner.environment.
type environment struct {
	signer   types.Signer
	state    *state.StateDB
	gasPool  *core.GasPool
	tcount   int
	header   *types.Header
	txs      []*types.Transaction
	receipts []*types.Receipt
}

// Build = commitNewWork (worker.go:268) up to and including commit() (worker.go:426), on top of
// the chain's current block. timestamp replaces time.Now().Unix().
func (b *Builder) Build(timestamp uint64, txs TxSet) (*Result, error) {
	processor := b.Chain.Processor()

	// worker.go:279 copy from engine.getValMainAddress
	coinbase := common.Address{}
	coinbase.SetBytes(b.Engine.GetValMainAddress().Bytes())

	parent := b.Chain.CurrentBlock()
	if timestamp <= parent.Time() {
		timestamp = parent.Time() + 1
	}

	num := parent.Number()
	header := &types.Header{
		ParentHash: parent.Hash(),
		Number:     num.Add(num, common.Big1()),
		Time:       timestamp,
		Coinbase:   coinbase,
		GasLimit:   core.CalcGasLimit(parent),
		GasRewards: big.NewInt(0),
		Subsidy:    big.NewInt(0),
		Extra:      b.Extra}

	// processing protocol version state (the worker log.Crit's here)
	if err := core.ProcessYouVersionState(parent.Header(), header); err != nil {
		return nil, fmt.Errorf("ProcessYouVersionState: %v", err)
	}
	if err := b.Engine.Prepare(b.Chain, header); err != nil {
		return nil, fmt.Errorf("engine.Prepare: %v", err)
	}

	// makeCurrent (worker.go:455)
	yp, err := b.Chain.VersionForRound(header.Number.Uint64())
	if err != nil {
		return nil, fmt.Errorf("VersionForRound: %v", err)
	}
	stakingRoot := core.StakingRootForNewBlock(yp.StakingTrieFrequency, parent.Header())
	statedb, err := b.Chain.StateAt(parent.Root(), parent.ValRoot(), stakingRoot)
	if err != nil {
		return nil, fmt.Errorf("StateAt: %v", err)
	}
	cur := &environment{
		signer: types.MakeSigner(header.Number),
		state:  statedb,
		header: header}
	cur.tcount = 0

	cur.state.IntermediateRoot(true)

	res := &Result{}
	if err := b.commitTransactions(cur, txs, &coinbase, res); err != nil {
		return nil, err
	}

	// worker.go:331 — including the way the worker appends the hook receipts (the whole slice once
	// per non-nil entry)
	hookRecs, _, _ := processor.EndBlock(b.Chain, cur.header, cur.txs, cur.state, true, local.FakeRecorder())
	res.TxReceipts = append([]*types.Receipt{}, cur.receipts...)
	for _, receipt := range hookRecs {
		if receipt != nil {
			cur.receipts = append(cur.receipts, hookRecs...)
			res.ModuleReceipts = append(res.ModuleReceipts, receipt)
		}
	}
	if b.Hooks != nil && b.Hooks.AfterEndBlock != nil {
		b.Hooks.AfterEndBlock(cur.state, cur.header)
	}

	// commit() (worker.go:426): deep copy receipts, FinalizeAndAssemble
	receipts := make([]*types.Receipt, len(cur.receipts))
	for i, l := range cur.receipts {
		receipts[i] = new(types.Receipt)
		*receipts[i] = *l
	}
	s := cur.state
	block, err := b.Engine.FinalizeAndAssemble(b.Chain, cur.header, s, cur.txs, cur.receipts)
	if err != nil {
		return nil, fmt.Errorf("FinalizeAndAssemble: %v", err)
	}
	res.Block = block
	res.Receipts = receipts
	res.State = s
	res.Txs = cur.txs
	return res, nil
}

// commitTransactions = worker.go:344 (without interrupt) + commitTransaction (worker.go:413).
func (b *Builder) commitTransactions(cur *environment, txs TxSet, coinbase *common.Address, res *Result) error {
	processor := b.Chain.Processor()
	if cur.gasPool == nil {
		cur.gasPool = new(core.GasPool).AddGas(cur.header.GasLimit)
	}
	vmCfg, err := core.PrepareVMConfig(b.Chain, cur.header.Number.Uint64(), *b.Chain.GetVMConfig())
	if err != nil {
		// the worker logs and returns false, i.e. goes on with an empty block
		return nil
	}
	for {
		// If we don't have enough gas for any further transactions then we're done
		if cur.gasPool.Gas() < params.TxGas {
			res.StoppedForGas = true
			break
		}
		tx := txs.Peek()
		if tx == nil {
			break
		}
		cur.state.Prepare(tx.Hash(), common.Hash{}, cur.tcount)
		if b.Hooks != nil && b.Hooks.BeforeTx != nil {
			b.Hooks.BeforeTx(cur.tcount, tx, cur.state)
		}
		gpBefore := cur.gasPool.Gas()

		// commitTransaction
		snap := cur.state.Snapshot()
		receipt, _, err := processor.ApplyTransaction(tx, cur.signer, cur.state, b.Chain, cur.header, coinbase, &cur.header.GasUsed, cur.header.GasRewards, cur.gasPool, vmCfg, local.FakeRecorder())
		if err != nil {
			cur.state.RevertToSnapshot(snap)
		} else {
			cur.txs = append(cur.txs, tx)
			cur.receipts = append(cur.receipts, receipt)
			res.GasCharged = append(res.GasCharged, gpBefore-cur.gasPool.Gas())
		}
		if b.Hooks != nil && b.Hooks.AfterTx != nil {
			var charged uint64
			if err == nil {
				charged = gpBefore - cur.gasPool.Gas()
			}
			b.Hooks.AfterTx(cur.tcount, tx, cur.state, receipt, err, charged)
		}

		switch err {
		case core.ErrGasLimitReached:
			// Pop the current out-of-gas transaction without shifting in the next from the account
			res.Skipped = append(res.Skipped, Skipped{tx, err, "pop"})
			txs.Pop()
		case core.ErrNonceTooLow:
			res.Skipped = append(res.Skipped, Skipped{tx, err, "shift"})
			txs.Shift()
		case core.ErrNonceTooHigh:
			res.Skipped = append(res.Skipped, Skipped{tx, err, "pop"})
			txs.Pop()
		case nil:
			cur.tcount++
			txs.Shift()
		default:
			res.Skipped = append(res.Skipped, Skipped{tx, err, "shift"})
			txs.Shift()
		}
	}
	return nil
}

// Commit = postSeal (worker.go:227) with the neutral engine's Seal being the identity: fills the
// block-dependent receipt fields and writes block + state. The chain/mux events the worker posts
// afterwards are consumed by the tx pool, the protocol manager and the consensus engine only; none
// of them exists on a harness node, so they are not posted.
func (b *Builder) Commit(res *Result) error {
	block := res.Block
	if b.Chain.HasBlock(block.Hash(), block.NumberU64()) {
		return fmt.Errorf("postSeal: exist block %d", block.NumberU64())
	}
	hash := block.Hash()
	for i, receipt := range res.Receipts {
		receipt.BlockHash = hash
		receipt.BlockNumber = block.Number()
		receipt.TransactionIndex = uint(i)
		for _, l := range receipt.Logs {
			l.BlockHash = hash
		}
	}
	return b.Chain.WriteBlockWithState(block, res.State, res.Receipts)
}

// WorkerSourceDigest is the SHA-256 of miner/worker.go in the repository tree this binary was
// built from (located through the recorded source path of a function of package core). Package
// miner cannot be linked here (its dependency chain panics at init under this Go version), so
// Builder is a transcription of it; the digest lets the C06 check notice when the original moved
// on and the transcription has to be compared again.
func WorkerSourceDigest() (string, error) {
	f := runtime.FuncForPC(reflect.ValueOf(core.NewBlockChain).Pointer())
	if f == nil {
		return "", fmt.Errorf("no function info")
	}
	file, _ := f.FileLine(f.Entry())
	root := filepath.Dir(filepath.Dir(file))
	b, err := os.ReadFile(filepath.Join(root, "miner", "worker.go"))
	if err != nil {
		return "", err
	}
	return fmt.Sprintf("%x", sha256.Sum256(b)), nil
}

// WorkerSourceDigestTranscribed is the digest of the miner/worker.go that Build/Commit transcribe.
const WorkerSourceDigestTranscribed = "32abbe876f5e3f19fa8f6267bccbb61587fcaab86b820a6d927d4c613abf1373"
