// Package stategen generates operation sequences on a real state.StateDB, using the calling
// patterns of the production code (staking take-effect handlers, reward settlement, EVM account
// operations). Shared by C08, C09 and C10.
package stategen

import (
	"crypto/ecdsa"
	"encoding/binary"
	"fmt"
	"math/big"
	"math/rand"

	"verif/mon"

	"github.com/youchainhq/go-youchain/common"
	"github.com/youchainhq/go-youchain/core/state"
	"github.com/youchainhq/go-youchain/core/types"
	"github.com/youchainhq/go-youchain/crypto"
	"github.com/youchainhq/go-youchain/params"
	"github.com/youchainhq/go-youchain/youdb"
)

// Families of operations, independently switchable so that a finding in one family cannot mask
// the others.
type Families struct {
	Account    bool // balance, nonce, code, storage, suicide, create, log, refund, preimage, touch
	Validator  bool // create / update (copy-modify) / status / deposit / withdraw / rewards
	Delegation bool // UpdateDelegation +/-
	WithdrawQ  bool // AddWithdrawRecord
	WithdrawRm bool // RemoveWithdrawRecords
	RemoveVal  bool // RemoveValidator (exported, on vm.StateDB, but never called by the node)
	StakingRec bool // AddStakingRecord / AddPendingRelationship (never journaled by design)
	// HotStorage: most ops hit the same few storage slots of one contract with values from a
	// three-element set (a contract toggling a flag across the transactions of a block), so that a
	// slot is written back to an earlier / its committed value again and again
	HotStorage bool
}

func AllProduction() Families {
	return Families{Account: true, Validator: true, Delegation: true, WithdrawQ: true, WithdrawRm: true}
}

type World struct {
	R      *rand.Rand
	U      *mon.Universe
	Disk   youdb.Database
	DB     state.Database
	St     *state.StateDB
	Fam    Families
	Height uint64

	ValKeys  []*ecdsa.PrivateKey
	ValPubs  [][]byte
	ValAddrs []common.Address
	Users    []common.Address
	Extras   []common.Address // contract-like / fresh addresses (never transaction senders or delegators)
	Ops      []string
	wnonce   uint64
	txn      uint64
}

func keyFrom(seed int64, i int) *ecdsa.PrivateKey {
	var b [16]byte
	binary.BigEndian.PutUint64(b[:8], uint64(seed))
	binary.BigEndian.PutUint64(b[8:], uint64(i))
	k, err := crypto.ToECDSA(crypto.Keccak256(b[:]))
	if err != nil {
		panic(err)
	}
	return k
}

// NewWorld builds an empty state over a memory database with nVals potential validators and
// nUsers funded user accounts (nonce 1, as every account that ever sent a transaction has).
func NewWorld(r *rand.Rand, nVals, nUsers int, fam Families) *World {
	w := &World{R: r, U: &mon.Universe{}, Fam: fam, Height: 100}
	w.Disk = youdb.NewMemDatabase()
	w.DB = state.NewDatabase(w.Disk)
	st, err := state.New(common.Hash{}, common.Hash{}, common.Hash{}, w.DB)
	if err != nil {
		panic(err)
	}
	w.St = st
	ks := r.Int63()
	for i := 0; i < nVals; i++ {
		k := keyFrom(ks, i)
		pub := crypto.CompressPubkey(&k.PublicKey)
		w.ValKeys = append(w.ValKeys, k)
		w.ValPubs = append(w.ValPubs, pub)
		a := state.PubToAddress(pub)
		w.ValAddrs = append(w.ValAddrs, a)
		w.U.Vals = append(w.U.Vals, a)
	}
	for i := 0; i < nUsers; i++ {
		a := crypto.PubkeyToAddress(keyFrom(ks, 1000+i).PublicKey)
		w.Users = append(w.Users, a)
		w.U.Addrs = append(w.U.Addrs, a)
		st.AddBalance(a, new(big.Int).Mul(big.NewInt(int64(1+r.Intn(1000))), params.StakeUint))
		st.SetNonce(a, 1)
	}
	// a few extra addresses: fresh (non-existent) accounts and contract-like ones
	for i := 0; i < 3; i++ {
		a := crypto.PubkeyToAddress(keyFrom(ks, 2000+i).PublicKey)
		w.U.Addrs = append(w.U.Addrs, a)
		w.Extras = append(w.Extras, a)
	}
	for i := 0; i < 4; i++ {
		w.U.Slots = append(w.U.Slots, common.BigToHash(big.NewInt(int64(i))))
	}
	for i := 0; i < 8; i++ {
		w.U.Txs = append(w.U.Txs, common.BigToHash(big.NewInt(int64(0x7000+i))))
	}
	return w
}

func (w *World) log(f string, a ...interface{}) {
	w.Ops = append(w.Ops, fmt.Sprintf(f, a...))
}

func (w *World) addr() common.Address { return w.U.Addrs[w.R.Intn(len(w.U.Addrs))] }

// extra picks a contract-like address: code, self-destruct and (re)creation only ever happen to
// those (an externally owned account with nonce >= 1 cannot be the target of CREATE or SELFDESTRUCT).
var codePool = [][]byte{{0x60, 0x00, 0x60, 0x00, 0xf3}, {0x60, 0x01, 0x60, 0x00, 0x55, 0x00, 0xfe, 0x5b, 0x33, 0xff}}

func (w *World) extra() common.Address { return w.Extras[w.R.Intn(len(w.Extras))] }

func (w *World) amount() *big.Int {
	switch w.R.Intn(4) {
	case 0:
		return big.NewInt(int64(w.R.Intn(3)))
	case 1:
		return new(big.Int).Mul(big.NewInt(int64(1+w.R.Intn(50))), params.StakeUint)
	case 2:
		x := new(big.Int).Mul(big.NewInt(int64(w.R.Intn(50))), params.StakeUint)
		return x.Add(x, big.NewInt(int64(w.R.Intn(1000000))))
	default:
		return big.NewInt(int64(w.R.Intn(1 << 30)))
	}
}

// NextTx prepares the state for the next "transaction".
func (w *World) NextTx() {
	w.txn++
	th := w.U.Txs[int(w.txn)%len(w.U.Txs)]
	w.St.Prepare(th, common.BigToHash(big.NewInt(int64(w.Height))), int(w.txn))
	w.log("prepare tx %d", w.txn)
}

// AccountOp applies one random account-family operation.
func (w *World) AccountOp() {
	st, r := w.St, w.R
	a := w.addr()
	switch r.Intn(13) {
	case 0, 1:
		v := w.amount()
		w.log("AddBalance %x %v", a[:4], v)
		st.AddBalance(a, v)
	case 2:
		bal := st.GetBalance(a)
		if bal.Sign() > 0 {
			v := new(big.Int).Rand(r, new(big.Int).Add(bal, big.NewInt(1)))
			w.log("SubBalance %x %v", a[:4], v)
			st.SubBalance(a, v)
		}
	case 3:
		if !st.Exist(a) {
			return // only existing accounts send transactions / create contracts
		}
		n := st.GetNonce(a) + uint64(r.Intn(3))
		w.log("SetNonce %x %d", a[:4], n)
		st.SetNonce(a, n)
	case 4:
		a = w.extra()
		if !st.Exist(a) {
			return // code is only ever set right after CreateAccount+SetNonce(1)
		}
		code := make([]byte, r.Intn(40))
		r.Read(code)
		if r.Intn(2) == 0 {
			// the same byte code is deployed again and again (factories, proxies, tokens)
			code = codePool[r.Intn(len(codePool))]
		}
		w.log("SetCode %x len%d", a[:4], len(code))
		st.SetCode(a, code)
	case 5, 6, 7:
		if !st.Exist(a) {
			return // SSTORE only runs in the context of an existing (executing) account
		}
		k := w.U.Slots[r.Intn(len(w.U.Slots))]
		var v common.Hash
		if r.Intn(4) > 0 {
			v = common.BigToHash(big.NewInt(int64(1 + r.Intn(5))))
		}
		w.log("SetState %x %x=%x", a[:4], k[31:], v[31:])
		st.SetState(a, k, v)
	case 8:
		a = w.extra()
		if st.Exist(a) && r.Intn(3) == 0 {
			w.log("Suicide %x", a[:4])
			st.Suicide(a)
		}
	case 9:
		a = w.extra()
		if !st.Exist(a) || r.Intn(6) == 0 {
			// as evm.create does: CreateAccount is always followed by SetNonce(1) (EIP-158)
			w.log("CreateAccount+SetNonce(1) %x", a[:4])
			st.CreateAccount(a)
			st.SetNonce(a, 1)
		}
	case 10:
		l := &types.Log{Address: a, Topics: []common.Hash{common.BigToHash(big.NewInt(int64(r.Intn(4))))}, Data: []byte{byte(r.Intn(256))}}
		w.log("AddLog %x", a[:4])
		st.AddLog(l)
	case 11:
		if r.Intn(2) == 0 {
			g := uint64(r.Intn(20000))
			w.log("AddRefund %d", g)
			st.AddRefund(g)
		} else if st.GetRefund() > 0 {
			g := uint64(r.Int63n(int64(st.GetRefund()) + 1))
			w.log("SubRefund %d", g)
			st.SubRefund(g)
		}
	case 12:
		if r.Intn(2) == 0 {
			p := []byte{byte(r.Intn(8)), 1, 2}
			w.log("AddPreimage %x", p)
			st.AddPreimage(crypto.Keccak256Hash(p), p)
		} else {
			w.log("touch %x", a[:4])
			st.AddBalance(a, new(big.Int))
		}
	}
}

func (w *World) existingVals() []*state.Validator {
	var out []*state.Validator
	for _, a := range w.ValAddrs {
		if v := w.St.GetValidatorByMainAddr(a); v != nil {
			out = append(out, v)
		}
	}
	return out
}

var roles = []params.ValidatorRole{params.RoleChancellor, params.RoleSenator, params.RoleHouse}

// ValidatorOp applies one random operation of the enabled validator-side families, written the
// way staking/take_effect_handler.go and staking/endblock.go call the state.
func (w *World) ValidatorOp() {
	st, r := w.St, w.R
	vals := w.existingVals()
	var choices []int
	if w.Fam.Validator {
		choices = append(choices, 0, 0, 1, 2, 3, 4, 5, 6)
	}
	if w.Fam.Delegation {
		choices = append(choices, 7, 7, 7, 8, 8)
	}
	if w.Fam.WithdrawQ {
		choices = append(choices, 9)
	}
	if w.Fam.WithdrawRm {
		choices = append(choices, 10)
	}
	if w.Fam.RemoveVal {
		choices = append(choices, 11)
	}
	if w.Fam.StakingRec {
		choices = append(choices, 12, 12)
	}
	if len(choices) == 0 {
		return
	}
	c := choices[r.Intn(len(choices))]
	if len(vals) == 0 && c != 0 && c != 12 {
		c = 0
		if !w.Fam.Validator {
			return
		}
	}
	pick := func() *state.Validator { return vals[r.Intn(len(vals))] }
	switch c {
	case 0: // teCreate / genesis
		i := r.Intn(len(w.ValAddrs))
		if st.GetValidatorByMainAddr(w.ValAddrs[i]) != nil {
			return
		}
		token := new(big.Int).Mul(big.NewInt(int64(1+r.Intn(2000))), params.StakeUint)
		if r.Intn(3) == 0 {
			token.Add(token, big.NewInt(int64(r.Intn(1000000))))
		}
		status := uint8(params.ValidatorOffline)
		if r.Intn(2) == 0 {
			status = params.ValidatorOnline
		}
		role := roles[r.Intn(3)]
		op := w.Users[r.Intn(len(w.Users))]
		w.log("CreateValidator %x role%d status%d token %v", w.ValAddrs[i][:4], role, status, token)
		nv := st.CreateValidator(fmt.Sprintf("v%d", i), op, op, role, w.ValPubs[i], []byte{1, 2, 3, byte(i)}, token, params.YOUToStake(token),
			uint16(r.Intn(2)), uint16(r.Intn(10001)), uint16(r.Intn(10001)), status)
		if nv == nil {
			w.log("  -> nil")
		}
	case 1: // teUpdate
		old := pick()
		nv := old.PartialCopy()
		nv.Name = fmt.Sprintf("n%d", r.Intn(100))
		nv.Coinbase = w.addr()
		nv.AcceptDelegation = uint16(r.Intn(2))
		nv.CommissionRate = uint16(r.Intn(10001))
		m := old.MainAddress()
		w.log("update meta %x", m[:4])
		st.UpdateValidator(nv, old)
	case 2: // teDeposit
		old := pick()
		v := w.amount()
		nv := old.PartialCopy()
		nv.SelfToken.Add(nv.SelfToken, v)
		ns := params.YOUToStake(nv.SelfToken)
		delta := new(big.Int).Sub(ns, nv.SelfStake)
		nv.SelfStake.Set(ns)
		nv.Token.Add(nv.Token, v)
		nv.Stake.Add(nv.Stake, delta)
		m := old.MainAddress()
		w.log("deposit %x %v", m[:4], v)
		st.UpdateValidator(nv, old)
	case 3: // teWithdraw (+ withdraw record)
		old := pick()
		nv := old.PartialCopy()
		wd := w.amount()
		if wd.Cmp(nv.SelfToken) > 0 || r.Intn(4) == 0 {
			wd = new(big.Int).Set(nv.SelfToken)
		}
		nv.SelfToken.Sub(nv.SelfToken, wd)
		ns := params.YOUToStake(nv.SelfToken)
		delta := new(big.Int).Sub(nv.SelfStake, ns)
		nv.SelfStake.Set(ns)
		if r.Intn(2) == 0 {
			nv.Status = params.ValidatorOffline
		}
		nv.Token.Sub(nv.Token, wd)
		nv.Stake.Sub(nv.Stake, delta)
		m := old.MainAddress()
		w.log("withdraw %x %v", m[:4], wd)
		st.UpdateValidator(nv, old)
		if w.Fam.WithdrawQ && wd.Sign() > 0 {
			w.addWithdraw(m, common.Address{}, old.OperatorAddress, wd)
		}
	case 4: // teChangeStatus
		old := pick()
		nv := old.PartialCopy()
		if old.IsOnline() {
			nv.Status = params.ValidatorOffline
		} else {
			nv.Status = params.ValidatorOnline
		}
		// the round varies (same and different byte lengths of its compact encoding: 100..399)
		la := w.Height + uint64(r.Intn(300))
		nv.UpdateLastActive(la)
		m := old.MainAddress()
		w.log("status %x -> %d lastActive %d", m[:4], nv.Status, la)
		st.UpdateValidator(nv, old)
	case 5: // distributeRewards
		old := pick()
		nv := old.PartialCopy()
		rw := big.NewInt(int64(r.Intn(1 << 40)))
		nv.AddTotalRewards(rw)
		if r.Intn(2) == 0 {
			// rewardsToPool: the proposer of the block is also marked active at this round
			la := w.Height + uint64(r.Intn(300))
			nv.UpdateLastActive(la)
			w.Ops = append(w.Ops, fmt.Sprintf("  (proposer: lastActive %d)", la))
		}
		m := old.MainAddress()
		w.log("reward %x %v", m[:4], rw)
		st.UpdateValidator(nv, old)
	case 6: // settleValidatorRewards / expel / recover
		old := pick()
		nv := old.PartialCopy()
		m := old.MainAddress()
		switch r.Intn(3) {
		case 0:
			st.AddBalance(old.Coinbase, old.RewardsDistributable)
			nv.RewardsDistributable.SetUint64(0)
			nv.RewardsLastSettled = w.Height
			w.log("settle %x", m[:4])
		case 1:
			nv.Status = params.ValidatorOffline
			nv.Expelled = true
			nv.ExpelExpired = w.Height + 64
			w.log("expel %x", m[:4])
		default:
			nv.Expelled = false
			nv.ExpelExpired = 0
			w.log("recover %x", m[:4])
		}
		st.UpdateValidator(nv, old)
	case 7: // teDelegationAdd
		val := pick()
		d := w.Users[r.Intn(len(w.Users))]
		v := w.amount()
		if v.Sign() == 0 {
			v = big.NewInt(1)
		}
		m := val.MainAddress()
		w.log("delegate+ %x -> %x %v", d[:4], m[:4], v)
		st.UpdateDelegation(d, val, v)
	case 8: // teDelegationSub
		val := pick()
		if val.Delegations.Len() == 0 {
			return
		}
		df := val.Delegations[r.Intn(val.Delegations.Len())]
		wd := w.amount()
		if wd.Cmp(df.Token) > 0 || r.Intn(3) == 0 {
			wd = new(big.Int).Set(df.Token)
		}
		if wd.Sign() == 0 {
			return
		}
		m := val.MainAddress()
		w.log("delegate- %x -> %x %v", df.Delegator[:4], m[:4], wd)
		dl := df.Delegator
		nv, _, _, _ := st.UpdateDelegation(dl, val, new(big.Int).Neg(wd))
		if nv.IsOnline() && r.Intn(3) == 0 {
			// forced offline. NOTE: staking/take_effect_handler.go mutates nv in place here and
			// journals a copy as the old value; an object already handed to UpdateValidator is
			// owned by the journal, so the harness uses the clean copy-modify form (DESIGN.md C09).
			n2 := nv.PartialCopy()
			n2.Status = params.ValidatorOffline
			st.UpdateValidator(n2, nv)
		}
		if w.Fam.WithdrawQ {
			w.addWithdraw(m, dl, dl, wd)
		}
	case 9:
		val := pick()
		w.addWithdraw(val.MainAddress(), common.Address{}, val.OperatorAddress, w.amount())
	case 10: // processWithdrawQueue discard
		q := st.GetWithdrawQueue()
		if q.Len() == 0 {
			return
		}
		var idx []int
		for i := 0; i < q.Len(); i++ {
			if r.Intn(3) == 0 {
				idx = append(idx, i)
			}
		}
		if len(idx) == 0 {
			idx = []int{r.Intn(q.Len())}
		}
		w.log("RemoveWithdrawRecords %v", idx)
		st.RemoveWithdrawRecords(idx)
	case 11:
		val := pick()
		m := val.MainAddress()
		w.log("RemoveValidator %x", m[:4])
		st.RemoveValidator(m)
	case 12:
		d := w.Users[r.Intn(len(w.Users))]
		v := w.ValAddrs[r.Intn(len(w.ValAddrs))]
		fv := w.amount()
		w.log("AddStakingRecord %x>%x %v", d[:4], v[:4], fv)
		st.AddStakingRecord(d, v, w.U.Txs[r.Intn(len(w.U.Txs))], fv)
		if r.Intn(2) == 0 {
			st.AddPendingRelationship(d, v)
		}
	}
}

func (w *World) addWithdraw(val, delegator, operator common.Address, amt *big.Int) {
	w.wnonce++
	rec := &state.WithdrawRecord{
		Operator: operator, Delegator: delegator, Validator: val, Recipient: operator,
		Nonce: w.wnonce, CreationHeight: w.Height, CompletionHeight: w.Height + 64,
		InitialBalance: new(big.Int).Set(amt), FinalBalance: new(big.Int).Set(amt),
		TxHash: w.U.Txs[w.R.Intn(len(w.U.Txs))],
	}
	w.log("AddWithdrawRecord val %x nonce %d %v", val[:4], rec.Nonce, amt)
	w.St.AddWithdrawRecord(rec)
}

// Op applies one random operation of any enabled family.
// HotStorageOp writes (or reads) one of two slots of one contract; values 0,1,2.
func (w *World) HotStorageOp() {
	st, r := w.St, w.R
	a := w.Extras[0]
	if !st.Exist(a) {
		w.log("CreateAccount %x (+nonce 1)", a[:4])
		st.CreateAccount(a)
		st.SetNonce(a, 1)
		return
	}
	k := w.U.Slots[r.Intn(2)]
	switch r.Intn(12) {
	case 0, 1:
		w.log("GetState/GetCommittedState %x %x", a[:4], k[31:])
		st.GetState(a, k)
		st.GetCommittedState(a, k)
		return
	case 2:
		// the contract self-destructs (it stays callable until the end of the transaction, may
		// receive value again and self-destruct once more)
		w.log("Suicide %x", a[:4])
		st.Suicide(a)
		return
	case 3:
		v := w.amount()
		w.log("AddBalance %x %v", a[:4], v)
		st.AddBalance(a, v)
		return
	}
	v := common.BigToHash(big.NewInt(int64(r.Intn(3))))
	w.log("SetState %x %x=%x", a[:4], k[31:], v[31:])
	st.SetState(a, k, v)
}

func (w *World) Op() {
	if w.Fam.HotStorage && w.R.Intn(10) < 7 {
		w.HotStorageOp()
		return
	}
	valSide := w.Fam.Validator || w.Fam.Delegation || w.Fam.WithdrawQ || w.Fam.WithdrawRm || w.Fam.RemoveVal || w.Fam.StakingRec
	if w.Fam.Account && (!valSide || w.R.Intn(2) == 0) {
		w.AccountOp()
	} else if valSide {
		w.ValidatorOp()
	}
}

// Reopen commits the state and reopens it through a fresh state.Database over the same disk
// store (no warm caches).
func (w *World) Reopen() error {
	root, vroot, sroot, err := w.St.Commit(true)
	if err != nil {
		return err
	}
	if err := w.DB.TrieDB().Commit(root, false); err != nil {
		return err
	}
	if err := w.DB.TrieDB().Commit(vroot, false); err != nil {
		return err
	}
	if err := w.DB.TrieDB().Commit(sroot, false); err != nil {
		return err
	}
	w.DB = state.NewDatabase(w.Disk)
	st, err := state.New(root, vroot, sroot, w.DB)
	if err != nil {
		return err
	}
	w.St = st
	w.log("commit+reopen")
	return nil
}

// TailOps returns the last n ops for witnesses.
func (w *World) TailOps(n int) []string {
	if len(w.Ops) > n {
		return w.Ops[len(w.Ops)-n:]
	}
	return w.Ops
}

// CloneFor returns a world that drives st (typically a Copy of w.St) with its own PRNG and op
// log; the name universe and keys are shared read-only.
func (w *World) CloneFor(st *state.StateDB, r *rand.Rand) *World {
	c := *w
	c.St = st
	c.R = r
	c.Ops = nil
	return &c
}
