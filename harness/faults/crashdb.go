// Package faults: fault-injection helpers.
package faults

import (
	"sync"

	"github.com/youchainhq/go-youchain/youdb"
)

// Op is one atomic database operation as the node issued it.
type Op struct {
	Puts [][2][]byte // key, value
	Dels [][]byte
}

// CrashDB wraps a MemDatabase and records every Put, Delete and Batch.Write as one numbered atomic
// operation (a batch is atomic, as in LevelDB). Any prefix of the log, applied to the base content,
// is "the database as found after a kill at that point".
type CrashDB struct {
	*youdb.MemDatabase
	mu   sync.Mutex
	Log  []Op
	base map[string][]byte
}

func NewCrashDB() *CrashDB {
	return &CrashDB{MemDatabase: youdb.NewMemDatabase()}
}

// Mark takes the current content as the base of the log (call after genesis setup).
func (c *CrashDB) Mark() {
	c.mu.Lock()
	defer c.mu.Unlock()
	c.base = map[string][]byte{}
	for _, k := range c.MemDatabase.Keys() {
		v, _ := c.MemDatabase.Get(k)
		c.base[string(k)] = append([]byte{}, v...)
	}
	c.Log = nil
}

func cp(b []byte) []byte { return append([]byte{}, b...) }

func (c *CrashDB) Put(k, v []byte) error {
	c.mu.Lock()
	c.Log = append(c.Log, Op{Puts: [][2][]byte{{cp(k), cp(v)}}})
	c.mu.Unlock()
	return c.MemDatabase.Put(k, v)
}

func (c *CrashDB) Delete(k []byte) error {
	c.mu.Lock()
	c.Log = append(c.Log, Op{Dels: [][]byte{cp(k)}})
	c.mu.Unlock()
	return c.MemDatabase.Delete(k)
}

// Len is the number of operations logged so far.
func (c *CrashDB) Len() int {
	c.mu.Lock()
	defer c.mu.Unlock()
	return len(c.Log)
}

type crashBatch struct {
	db   *CrashDB
	op   Op
	size int
}

func (c *CrashDB) NewBatch() youdb.Batch { return &crashBatch{db: c} }

func (b *crashBatch) Put(k, v []byte) error {
	b.op.Puts = append(b.op.Puts, [2][]byte{cp(k), cp(v)})
	b.size += len(v)
	return nil
}

func (b *crashBatch) Delete(k []byte) error {
	b.op.Dels = append(b.op.Dels, cp(k))
	b.size++
	return nil
}

func (b *crashBatch) ValueSize() int { return b.size }

func (b *crashBatch) Write() error {
	if len(b.op.Puts)+len(b.op.Dels) == 0 {
		return nil
	}
	b.db.mu.Lock()
	b.db.Log = append(b.db.Log, b.op)
	b.db.mu.Unlock()
	for _, p := range b.op.Puts {
		b.db.MemDatabase.Put(p[0], p[1])
	}
	for _, k := range b.op.Dels {
		b.db.MemDatabase.Delete(k)
	}
	return nil
}

func (b *crashBatch) Reset() {
	b.op = Op{}
	b.size = 0
}

// Prefix materialises the database as found after the first n operations.
func (c *CrashDB) Prefix(n int) *youdb.MemDatabase {
	c.mu.Lock()
	defer c.mu.Unlock()
	db := youdb.NewMemDatabase()
	for k, v := range c.base {
		db.Put([]byte(k), v)
	}
	for i := 0; i < n && i < len(c.Log); i++ {
		for _, p := range c.Log[i].Puts {
			db.Put(p[0], p[1])
		}
		for _, k := range c.Log[i].Dels {
			db.Delete(k)
		}
	}
	return db
}
