package c16

import (
	"math/big"
	"testing"

	"github.com/youchainhq/go-youchain/common"
	"github.com/youchainhq/go-youchain/core"
	"github.com/youchainhq/go-youchain/core/state"
	"github.com/youchainhq/go-youchain/core/vm"
	"github.com/youchainhq/go-youchain/params"
	"github.com/youchainhq/go-youchain/youdb"
)

func TestProbeResurrect(t *testing.T) {
	params.InitNetworkId(params.NetworkIdForTestCase)
	db := state.NewDatabase(youdb.NewMemDatabase())
	st, _ := state.New(common.Hash{}, common.Hash{}, common.Hash{}, db)
	origin := common.HexToAddress("0xaaaa")
	A := common.HexToAddress("0xa1") // driver: CALL B (B selfdestructs), then CALL B with value 7
	B := common.HexToAddress("0xb1") // SELFDESTRUCT(origin) when calldata empty? always selfdestructs
	st.AddBalance(origin, big.NewInt(1000))
	st.AddBalance(A, big.NewInt(100))
	// B: PUSH20 origin SELFDESTRUCT
	codeB := append(append([]byte{0x73}, origin[:]...), 0xff)
	st.SetCode(B, codeB)
	st.SetNonce(B, 1)
	// A: CALL(gas, B, 0, 0,0,0,0) POP ; CALL(gas, B, 7, 0,0,0,0) POP ; STOP
	call := func(v byte) []byte {
		c := []byte{0x60, 0, 0x60, 0, 0x60, 0, 0x60, 0, 0x60, v, 0x73}
		c = append(c, B[:]...)
		c = append(c, 0x5a, 0xf1, 0x50)
		return c
	}
	codeA := append(append(call(0), call(7)...), 0x00)
	st.SetCode(A, codeA)
	st.SetNonce(A, 1)
	st.Commit(true)
	yp := params.Versions[params.YouCurrentVersion]
	total := func() *big.Int {
		s := new(big.Int)
		for _, a := range []common.Address{origin, A, B} {
			s.Add(s, st.GetBalance(a))
		}
		return s
	}
	run := func(to common.Address, val int64) {
		cfg := core.CombineVMConfig(&yp, vm.LocalConfig{})
		ctx := vm.Context{CanTransfer: core.CanTransfer, Transfer: core.Transfer, GetHash: func(uint64) common.Hash { return common.Hash{} }, Origin: origin, GasPrice: new(big.Int), BlockNumber: big.NewInt(1), Time: big.NewInt(1), GasLimit: 1000000}
		evm := vm.NewEVM(ctx, st, cfg)
		_, _, err := evm.Call(vm.AccountRef(origin), to, nil, 1000000, big.NewInt(val))
		t.Logf("call %x value %d err=%v", to[18:], val, err)
	}
	t.Logf("total before tx0: %v", total())
	run(A, 0)
	t.Logf("after tx0 exec: total %v, B balance %v suicided %v", total(), st.GetBalance(B), st.HasSuicided(B))
	st.Finalise(true)
	t.Logf("after tx0 finalise: total %v, B exists %v balance %v", total(), st.Exist(B), st.GetBalance(B))
	run(B, 0)
	t.Logf("after tx1 exec (plain zero-value call to B): total %v, B exists %v balance %v", total(), st.Exist(B), st.GetBalance(B))
	st.Finalise(true)
	root, _, _, _ := st.Commit(true)
	st2, _ := state.New(root, common.Hash{}, common.Hash{}, db)
	_ = st2
	t.Logf("after commit: total %v, B exists %v balance %v", total(), st.Exist(B), st.GetBalance(B))
}
