// Package c16 holds the workloads and monitors of property C16.
package c16
