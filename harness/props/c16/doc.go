// Package c16: failed EVM call frames leave no trace; a static call changes nothing; value is
// conserved (minus what self-destructed accounts burn); gas returned never exceeds gas supplied.
//
// Programs come from a frame-tree DSL (verif/model/c16_*.go), are compiled to bytecode by the
// harness and executed by the REAL core/vm interpreter on a REAL core/state.StateDB. The oracle is
// the DSL's reference semantics (deep-copy snapshots, no journal, no gas) plus model-free
// invariants observed through the vm.Tracer hook.
package c16
