// Package c16: failed EVM call frames leave no trace; a static call changes nothing; value is
// conserved (minus what self-destructed accounts burn); gas returned never exceeds gas supplied.
//
// Programs come from a frame-tree DSL (verif/model/c16_*.go), are compiled to bytecode by the
// harness and executed by the REAL core/vm interpreter on a REAL core/state.StateDB. The oracle is
// the DSL's reference semantics (deep-copy snapshots, no journal, no gas) plus model-free
// invariants observed through the vm.Tracer hook.
//
// Call targets of every kind (precompile.go, gen.go): native contracts 0x01..0x08 with valid and
// rejected inputs and gas around their price, absent / code-less / externally owned accounts, the
// executing account itself, hosts entered without selector - by CALL, CALLCODE, DELEGATECALL,
// STATICCALL and directly by a transaction. Creation frames at the code-deposit boundary
// (calib.go): the gas knob is sized by dry runs of the implementation, the verdict "deposit not
// paid = failed frame, everything undone" is the reference's and is re-confirmed per execution.
package c16
