package c16

import (
	"math/rand"

	"verif/model"
)

// ---- program generator -----------------------------------------------------------------------------

const (
	maxDepth    = 5
	maxFan      = 3
	maxNodesTx  = 28
	dataSlots   = 4
	recSlotBase = 0x10
	recSlots    = 8
)

var (
	originAddr = mkAddr(0xc1, 0x6a, 0x01)
	eoaFunded  = mkAddr(0xc1, 0x6e, 0x01)
	eoaAbsentA = mkAddr(0xc1, 0x6e, 0x02)
	eoaAbsentB = mkAddr(0xc1, 0x6e, 0x03)
	zeroAddr   = model.C16Addr{}
)

func mkAddr(a, b, n byte) (x model.C16Addr) {
	x[0], x[1], x[19] = a, b, n
	return
}

func hostAddr(i int) model.C16Addr { return mkAddr(0xc1, 0x60, byte(i+1)) }

var constGas = []uint64{0, 1, 100, 699, 700, 2300, 2301, 5000, 9000, 9700, 21000, 32000, 34000, 53000, 100000, 300000}

type c2ref struct {
	node    *model.C16Frame
	creator model.C16Addr
	salt    uint64
}

type gen struct {
	r        *rand.Rand
	p        *model.C16Program
	nextID   int
	nodes    int // in the current transaction
	plains   []model.C16Addr
	create2s []c2ref
	plainInv []*model.C16Inv // plain invocations placed in host sections (may be retargeted to CREATE2 addresses)
}

func pick(r *rand.Rand, w ...int) int {
	t := 0
	for _, x := range w {
		t += x
	}
	n := r.Intn(t)
	for i, x := range w {
		if n < x {
			return i
		}
		n -= x
	}
	return len(w) - 1
}

func (g *gen) anyAddr(self *model.C16Addr) model.C16Addr {
	r := g.r
	switch pick(r, 4, 3, 1, 2) {
	case 0:
		return g.plains[r.Intn(3)] // funded EOA or one of two absent accounts
	case 1:
		return g.p.Hosts[r.Intn(len(g.p.Hosts))]
	case 2:
		return g.p.Origin
	default:
		if self != nil {
			return *self
		}
		return g.plains[r.Intn(3)]
	}
}

func (g *gen) value() uint64 {
	switch pick(g.r, 58, 38, 4) {
	case 0:
		return 0
	case 1:
		return 1 + uint64(g.r.Intn(60))
	}
	return 1000000000 // more than any contract ever holds
}

func (g *gen) gasFor(inv *model.C16Inv, starvable, costly bool) {
	r := g.r
	if starvable {
		switch pick(r, 8, 37, 55) {
		case 0:
			inv.GasMode = model.C16GAll
		case 1:
			inv.GasMode, inv.Shift = model.C16GShift, uint(1+r.Intn(4))
		default:
			inv.GasMode = model.C16GConst
			if r.Intn(3) == 0 {
				inv.GasConst = uint64(r.Intn(200000))
			} else {
				inv.GasConst = constGas[r.Intn(len(constGas))]
			}
		}
		return
	}
	if costly || r.Intn(2) == 0 {
		inv.GasMode, inv.Shift = model.C16GShift, uint(1+r.Intn(3))
	} else {
		inv.GasMode = model.C16GAll
	}
}

func (g *gen) policy(inv *model.C16Inv, static bool) {
	if static {
		inv.Policy = pick(g.r, 50, 12, 28, 10)
	} else {
		inv.Policy = pick(g.r, 28, 42, 20, 10)
	}
	inv.RecSlot = recSlotBase + uint64(g.r.Intn(recSlots))
}

func (g *gen) effects(f *model.C16Frame, n int, seq *int) {
	r := g.r
	for i := 0; i < n; i++ {
		*seq++
		if r.Intn(5) < 3 {
			a := model.C16Action{Kind: model.C16ASstore, Slot: uint64(r.Intn(dataSlots))}
			if r.Intn(2) == 0 {
				a.Val = uint64(r.Intn(4))
			} else {
				a.Val = 0x1000 + uint64(f.ID)*32 + uint64(*seq)
			}
			f.Actions = append(f.Actions, a)
		} else {
			f.Actions = append(f.Actions, model.C16Action{Kind: model.C16ALog, NTopics: r.Intn(3), DataLen: []int{0, 1, 8, 32}[r.Intn(4)],
				Tag: 0xA0000000 + uint64(f.ID)*256 + uint64(*seq)*4})
		}
	}
}

// frame generates a node. ctx: the account the frame runs on when that is known before execution
// (nil below a create). doomed: an ancestor's terminator fails. noSelfDoom: the terminator must not
// fail (children invoked by CREATE from a frame whose outcome the reference predicts: a creator that
// forwards all its gas would be left with nothing).
func (g *gen) frame(depth int, host int, ctx *model.C16Addr, static, doomed, isCreate, noSelfDoom, root bool) *model.C16Frame {
	r := g.r
	f := &model.C16Frame{ID: g.nextID, Host: host}
	g.nextID++
	g.nodes++
	// terminator
	sd := 20
	if static {
		sd = 3
	}
	switch {
	case noSelfDoom:
		f.Term = []int{model.C16TStop, model.C16TReturn, model.C16TSelfdestruct}[pick(r, 30, 40, sd)]
	case root:
		f.Term = pick(r, 40, 25, 8, 3, 2, 1, 1, 20)
	default:
		f.Term = pick(r, 30, 22, 14, 6, 4, 2, 2, sd)
	}
	if f.Term == model.C16TSelfdestruct {
		f.Benef = g.anyAddr(ctx)
	}
	if isCreate && f.Term == model.C16TReturn && r.Intn(5) > 0 {
		f.Stub = &model.C16Stub{Kind: pick(r, 35, 35, 15, 15), Slot: uint64(r.Intn(dataSlots)), Val: 0x900000 + uint64(f.ID), Benef: g.anyAddr(nil)}
	}
	f.Doomed = doomed || model.C16TermFails(f.Term)

	nkids := 0
	if depth < maxDepth && g.nodes < maxNodesTx {
		nkids = pick(r, 25, 30, 28, 17)
		if root && nkids == 0 {
			nkids = 1 + r.Intn(maxFan)
		}
	}
	seq := 0
	ncreate := 0
	nfx := func() int {
		if static {
			return pick(r, 85, 15)
		}
		return pick(r, 35, 40, 25)
	}
	g.effects(f, nfx(), &seq)
	for k := 0; k < nkids; k++ {
		inv := &model.C16Inv{}
		tk := pick(r, 66, 20, 14)
		if tk == 2 && ncreate == 0 {
			tk = 0
		}
		if tk == 0 && g.nodes >= maxNodesTx {
			tk = 1
		}
		switch tk {
		case 0: // a frame node
			inv.Tgt = model.C16TgtNode
			if static {
				inv.Kind = pick(r, 40, 15, 12, 27, 3, 3)
			} else {
				inv.Kind = pick(r, 34, 12, 10, 16, 14, 14)
			}
			if inv.Kind >= model.C16KCreate && ncreate >= model.C16MaxCreates {
				inv.Kind = model.C16KCall
			}
			inv.Value = g.value()
			var cctx *model.C16Addr
			cstatic := static
			chost := r.Intn(len(g.p.Hosts))
			switch inv.Kind {
			case model.C16KCall:
				h := g.p.Hosts[chost]
				cctx = &h
			case model.C16KStatic:
				h := g.p.Hosts[chost]
				cctx = &h
				cstatic = true
			case model.C16KCallCode, model.C16KDelegate:
				cctx = ctx
			}
			isC := inv.Kind >= model.C16KCreate
			nsd := inv.Kind == model.C16KCreate && !f.Doomed
			child := g.frame(depth+1, chost, cctx, cstatic, f.Doomed, isC, nsd, false)
			inv.Node = child
			if isC {
				ncreate++
				inv.Salt = uint64(r.Intn(3))
				if inv.Kind == model.C16KCreate2 && ctx != nil {
					g.create2s = append(g.create2s, c2ref{child, *ctx, inv.Salt})
				}
			}
			g.gasFor(inv, child.Doomed, false)
			if isC {
				inv.GasMode = model.C16GAll // CREATE takes no gas operand
			}
		case 1: // a literal address without code of ours: plain value transfer / account creation / precompile
			inv.Tgt = model.C16TgtPlain
			inv.Kind = pick(r, 70, 10, 10, 10)
			inv.Addr = g.plains[r.Intn(len(g.plains))]
			inv.Value = g.value()
			if inv.Kind == model.C16KCall && r.Intn(2) == 0 && inv.Value == 0 {
				inv.Value = 1 + uint64(r.Intn(40))
			}
			// a code-less callee succeeds with any gas; the identity precompile needs some
			g.gasFor(inv, f.Doomed || (inv.Addr != model.C16Identity && r.Intn(2) == 0), false)
			if inv.Addr == model.C16Identity && !f.Doomed && r.Intn(3) == 0 {
				// a precompile "frame" that fails for lack of gas (15 needed): with value 0 the callee gets
				// exactly this, with value the 2300 stipend on top
				inv.GasMode, inv.GasConst = model.C16GConst, []uint64{1, 7, 14}[r.Intn(3)]
			}
			if !isCreate {
				g.plainInv = append(g.plainInv, inv)
			}
		case 2: // the contract a previous create of this frame returned
			inv.Tgt = model.C16TgtCreated
			inv.Ref = r.Intn(ncreate)
			inv.Kind = pick(r, 60, 10, 15, 15)
			inv.Value = g.value()
			g.gasFor(inv, f.Doomed, false)
		}
		g.policy(inv, static)
		f.Actions = append(f.Actions, model.C16Action{Kind: model.C16AInvoke, Inv: inv})
		g.effects(f, nfx(), &seq)
	}
	return f
}

type preAcct struct {
	Addr    model.C16Addr
	Nonce   uint64
	Bal     uint64
	Host    int // -1: no code
	Storage map[uint64]uint64
}

// genProgram builds hosts, pre-state and 1-4 transactions.
func genProgram(r *rand.Rand) (*model.C16Program, []preAcct) {
	g := &gen{r: r}
	p := &model.C16Program{Origin: originAddr}
	g.p = p
	nh := 2 + r.Intn(5)
	for i := 0; i < nh; i++ {
		p.Hosts = append(p.Hosts, hostAddr(i))
	}
	g.plains = []model.C16Addr{eoaFunded, eoaAbsentA, eoaAbsentB, model.C16Identity, zeroAddr}
	ntx := 1 + pick(r, 35, 30, 22, 13)
	for i := 0; i < ntx; i++ {
		tx := &model.C16Tx{}
		if i > 0 && r.Intn(6) == 0 {
			j := r.Intn(i)
			tx.Root, tx.Create, tx.Repeat = p.Txs[j].Root, p.Txs[j].Create, j+1
		} else {
			g.nodes = 0
			tx.Create = r.Intn(10) == 0
			var ctx *model.C16Addr
			host := r.Intn(len(p.Hosts))
			if !tx.Create {
				h := p.Hosts[host]
				ctx = &h
			}
			tx.Root = g.frame(1, host, ctx, false, false, tx.Create, false, true)
		}
		if r.Intn(3) == 0 {
			tx.Value = uint64(1 + r.Intn(100))
		}
		if tx.Root.Doomed && r.Intn(2) == 0 {
			if r.Intn(2) == 0 {
				tx.Gas = uint64(r.Intn(400000))
			} else {
				tx.Gas = constGas[r.Intn(len(constGas))] * uint64(1+r.Intn(4))
			}
		} else {
			tx.Gas = uint64(1) << uint(44+6*r.Intn(4)) // 2^44 .. 2^62
		}
		p.Txs = append(p.Txs, tx)
	}
	// retarget some plain calls to addresses at which a CREATE2 of the program deploys (before or after
	// this call runs): pre-funding, calling deployed stubs, calling destroyed stubs
	for _, inv := range g.plainInv {
		if len(g.create2s) > 0 && r.Intn(2) == 0 {
			c := g.create2s[r.Intn(len(g.create2s))]
			inv.Tgt, inv.Of, inv.OfID, inv.Creator, inv.Salt = model.C16TgtCreate2Of, c.node, c.node.ID, c.creator, c.salt
			if inv.GasMode == model.C16GConst {
				// a stub may live there: its outcome must not depend on a starved allotment
				inv.GasMode, inv.Shift = model.C16GShift, uint(1+r.Intn(3))
			}
		}
	}
	var pre []preAcct
	pre = append(pre, preAcct{Addr: originAddr, Nonce: uint64(r.Intn(3)), Bal: 1000000000000, Host: -1})
	pre = append(pre, preAcct{Addr: eoaFunded, Nonce: 1, Bal: 500, Host: -1})
	for i := range p.Hosts {
		a := preAcct{Addr: p.Hosts[i], Nonce: uint64(r.Intn(2)), Host: i, Storage: map[uint64]uint64{}}
		if r.Intn(3) > 0 {
			a.Bal = uint64(r.Intn(2000))
		}
		for s := 0; s < dataSlots; s++ {
			if r.Intn(2) == 0 {
				a.Storage[uint64(s)] = uint64(1 + r.Intn(3))
			}
		}
		pre = append(pre, a)
	}
	return p, pre
}
