package c16

import (
	"math/rand"

	"verif/model"
)

// ---- program generator -----------------------------------------------------------------------------

const (
	maxDepth    = 5
	maxFan      = 3
	maxNodesTx  = 28
	dataSlots   = 4
	recSlotBase = 0x10
	recSlots    = 8
	outSlotBase = 0x20 // pairs (first output word, RETURNDATASIZE+1) of literal calls with an output record
	outPairs    = 2
)

var (
	originAddr = mkAddr(0xc1, 0x6a, 0x01)
	eoaFunded  = mkAddr(0xc1, 0x6e, 0x01)
	eoaAbsentA = mkAddr(0xc1, 0x6e, 0x02)
	eoaAbsentB = mkAddr(0xc1, 0x6e, 0x03)
	eoaBalOnly = mkAddr(0xc1, 0x6e, 0x04) // code-less, nonce 0, holds value
	zeroAddr   = model.C16Addr{}
)

func mkAddr(a, b, n byte) (x model.C16Addr) {
	x[0], x[1], x[19] = a, b, n
	return
}

func hostAddr(i int) model.C16Addr { return mkAddr(0xc1, 0x60, byte(i+1)) }

var constGas = []uint64{0, 1, 100, 699, 700, 2300, 2301, 5000, 9000, 9700, 21000, 32000, 34000, 53000, 100000, 300000}

type c2ref struct {
	node    *model.C16Frame
	creator model.C16Addr
	salt    uint64
}

type sdRef struct {
	host   int
	doomed bool // the node lies in a subtree that fails
}

type gen struct {
	r        *rand.Rand
	p        *model.C16Program
	nextID   int
	nodes    int // in the current transaction
	plains   []model.C16Addr
	create2s []c2ref
	plainInv []*model.C16Inv // plain invocations placed in host sections (may be retargeted to CREATE2 addresses)
	sdHosts  []sdRef         // hosts on whose account a node of the current transaction ends in SELFDESTRUCT
	forceSD  bool            // the next node ends in SELFDESTRUCT
	forceOK  bool            // the next node ends in STOP
}

func pick(r *rand.Rand, w ...int) int {
	t := 0
	for _, x := range w {
		t += x
	}
	n := r.Intn(t)
	for i, x := range w {
		if n < x {
			return i
		}
		n -= x
	}
	return len(w) - 1
}

func (g *gen) anyAddr(self *model.C16Addr) model.C16Addr {
	r := g.r
	switch pick(r, 8, 6, 2, 4, 1, 1) {
	case 0:
		return g.plains[r.Intn(3)] // funded EOA or one of two absent accounts
	case 1:
		return g.p.Hosts[r.Intn(len(g.p.Hosts))]
	case 2:
		return g.p.Origin
	case 4:
		return model.C16PrecompileAddr(1 + r.Intn(8))
	case 5:
		return eoaBalOnly
	default:
		if self != nil {
			return *self
		}
		return g.plains[r.Intn(3)]
	}
}

func (g *gen) value() uint64 {
	switch pick(g.r, 58, 38, 4) {
	case 0:
		return 0
	case 1:
		return 1 + uint64(g.r.Intn(60))
	}
	return 1000000000 // more than any contract ever holds
}

func (g *gen) gasFor(inv *model.C16Inv, starvable, costly bool) {
	r := g.r
	if starvable {
		switch pick(r, 8, 37, 55) {
		case 0:
			inv.GasMode = model.C16GAll
		case 1:
			inv.GasMode, inv.Shift = model.C16GShift, uint(1+r.Intn(4))
		default:
			inv.GasMode = model.C16GConst
			if r.Intn(3) == 0 {
				inv.GasConst = uint64(r.Intn(200000))
			} else {
				inv.GasConst = constGas[r.Intn(len(constGas))]
			}
		}
		return
	}
	if costly || r.Intn(2) == 0 {
		inv.GasMode, inv.Shift = model.C16GShift, uint(1+r.Intn(3))
	} else {
		inv.GasMode = model.C16GAll
	}
}

func (g *gen) policy(inv *model.C16Inv, static bool) {
	if static {
		inv.Policy = pick(g.r, 50, 12, 28, 10)
	} else {
		inv.Policy = pick(g.r, 28, 42, 20, 10)
	}
	inv.RecSlot = recSlotBase + uint64(g.r.Intn(recSlots))
}

func (g *gen) effects(f *model.C16Frame, n int, seq *int) {
	r := g.r
	for i := 0; i < n; i++ {
		*seq++
		if r.Intn(5) < 3 {
			a := model.C16Action{Kind: model.C16ASstore, Slot: uint64(r.Intn(dataSlots))}
			if r.Intn(2) == 0 {
				a.Val = uint64(r.Intn(4))
			} else {
				a.Val = 0x1000 + uint64(f.ID)*32 + uint64(*seq)
			}
			f.Actions = append(f.Actions, a)
		} else {
			f.Actions = append(f.Actions, model.C16Action{Kind: model.C16ALog, NTopics: r.Intn(3), DataLen: []int{0, 1, 8, 32}[r.Intn(4)],
				Tag: 0xA0000000 + uint64(f.ID)*256 + uint64(*seq)*4})
		}
	}
}

// frame generates a node. ctx: the account the frame runs on when that is known before execution
// (nil below a create). doomed: an ancestor's terminator fails. noSelfDoom: the terminator must not
// fail (children invoked by CREATE from a frame whose outcome the reference predicts: a creator that
// forwards all its gas would be left with nothing).
func (g *gen) frame(depth int, host int, ctx *model.C16Addr, static, doomed, isCreate, noSelfDoom, root bool) *model.C16Frame {
	r := g.r
	f := &model.C16Frame{ID: g.nextID, Host: host}
	sdBefore := len(g.sdHosts) // nodes generated earlier: ancestors and what ran before this frame
	g.nextID++
	g.nodes++
	// terminator
	sd := 20
	if static {
		sd = 3
	}
	switch {
	case noSelfDoom:
		f.Term = []int{model.C16TStop, model.C16TReturn, model.C16TSelfdestruct}[pick(r, 30, 40, sd)]
	case root:
		f.Term = pick(r, 40, 25, 8, 3, 2, 1, 1, 20)
	default:
		f.Term = pick(r, 30, 22, 14, 6, 4, 2, 2, sd)
	}
	if g.forceSD && !static {
		f.Term = model.C16TSelfdestruct
	}
	if g.forceOK {
		f.Term = model.C16TStop
	}
	g.forceSD, g.forceOK = false, false
	if f.Term == model.C16TSelfdestruct {
		f.Benef = g.anyAddr(ctx)
		if len(g.sdHosts) > 0 && r.Intn(5) == 0 {
			// the heir is an account that (probably) self-destructed earlier in the transaction: it takes
			// the value along when it is removed
			f.Benef = g.p.Hosts[g.sdHosts[r.Intn(len(g.sdHosts))].host]
		}
		if ctx != nil && !static {
			for i, h := range g.p.Hosts {
				if h == *ctx {
					g.sdHosts = append(g.sdHosts, sdRef{i, doomed})
				}
			}
		}
	}
	if isCreate && f.Term == model.C16TReturn && r.Intn(5) > 0 {
		f.Stub = &model.C16Stub{Kind: pick(r, 35, 35, 15, 15), Slot: uint64(r.Intn(dataSlots)), Val: 0x900000 + uint64(f.ID), Benef: g.anyAddr(nil)}
		if r.Intn(15) == 0 {
			// returned code at / beyond the EIP-170 limit. (Too large = the frame fails with all its gas:
			// not below a CREATE of a frame whose outcome the reference predicts, see noSelfDoom)
			f.Stub.Kind, f.Stub.Size = model.C16StubZeros, model.C16MaxCodeSize
			if !noSelfDoom && r.Intn(3) > 0 {
				f.Stub.Size += []int{1, 2, 1000}[r.Intn(3)]
			}
		}
	}
	f.Doomed = doomed || model.C16TermFails(f.Term)

	nkids := 0
	if depth < maxDepth && g.nodes < maxNodesTx {
		nkids = pick(r, 25, 30, 28, 17)
		if root && nkids == 0 {
			nkids = 1 + r.Intn(maxFan)
		}
	}
	seq := 0
	ncreate := 0
	nfx := func() int {
		if static {
			return pick(r, 85, 15)
		}
		return pick(r, 35, 40, 25)
	}
	g.effects(f, nfx(), &seq)
	for k := 0; k < nkids; k++ {
		inv := &model.C16Inv{}
		reSD := 0 // 1: repeated SELFDESTRUCT inside a failing subtree, 2: undone by this frame's require-fail
		tk := pick(r, 60, 26, 14)
		if tk == 2 && ncreate == 0 {
			tk = 0
		}
		if tk == 0 && g.nodes >= maxNodesTx {
			tk = 1
		}
		switch tk {
		case 0: // a frame node
			inv.Tgt = model.C16TgtNode
			if static {
				inv.Kind = pick(r, 40, 15, 12, 27, 3, 3)
			} else {
				inv.Kind = pick(r, 34, 12, 10, 16, 14, 14)
			}
			if inv.Kind >= model.C16KCreate && ncreate >= model.C16MaxCreates {
				inv.Kind = model.C16KCall
			}
			inv.Value = g.value()
			var cctx *model.C16Addr
			cstatic := static
			chost := r.Intn(len(g.p.Hosts))
			switch inv.Kind {
			case model.C16KCall:
				if len(g.sdHosts) > 0 && !static {
					// an account that self-destructs (again) after a node of this transaction already did. The
					// later SELFDESTRUCT is preferably undone - inside a failing subtree, or by a parent that
					// reverts BECAUSE the child succeeded - while the earlier one lies outside what is undone:
					// its mark must be left alone
					var cand []int
					for _, sd := range g.sdHosts[:sdBefore] {
						if !sd.doomed {
							cand = append(cand, sd.host)
						}
					}
					switch {
					case len(cand) > 0 && f.Doomed && r.Intn(2) == 0:
						chost, g.forceSD, reSD = cand[r.Intn(len(cand))], true, 1
					case len(cand) > 0 && !f.Doomed && r.Intn(5) == 0:
						chost, g.forceSD, reSD = cand[r.Intn(len(cand))], true, 2
					case r.Intn(5) == 0:
						chost, g.forceSD = g.sdHosts[r.Intn(len(g.sdHosts))].host, r.Intn(2) == 0
						if !g.forceSD {
							// value sent to an account that (probably) has self-destructed already: burnt with it
							g.forceOK = r.Intn(3) > 0
							if inv.Value == 0 {
								inv.Value = 1 + uint64(r.Intn(40))
							}
						}
					}
				}
				h := g.p.Hosts[chost]
				cctx = &h
			case model.C16KStatic:
				h := g.p.Hosts[chost]
				cctx = &h
				cstatic = true
			case model.C16KCallCode, model.C16KDelegate:
				cctx = ctx
			}
			isC := inv.Kind >= model.C16KCreate
			nsd := inv.Kind == model.C16KCreate && !f.Doomed
			child := g.frame(depth+1, chost, cctx, cstatic, f.Doomed, isC, nsd, false)
			inv.Node = child
			if isC {
				ncreate++
				inv.Salt = uint64(r.Intn(3))
				if inv.Kind == model.C16KCreate2 && ctx != nil {
					g.create2s = append(g.create2s, c2ref{child, *ctx, inv.Salt})
				}
			}
			g.gasFor(inv, child.Doomed && reSD == 0, false)
			if isC {
				inv.GasMode = model.C16GAll // CREATE takes no gas operand
			}
		case 1: // a literal target: native contract / code-less account of every kind / a host without selector / self
			inv.Tgt = model.C16TgtPlain
			inv.Kind = pick(r, 52, 16, 16, 16)
			inv.Value = g.value()
			if inv.Kind <= model.C16KCallCode && r.Intn(2) == 0 && inv.Value == 0 {
				inv.Value = 1 + uint64(r.Intn(40))
			}
			outRec := 0
			switch pick(r, 36, 50, 6, 8) {
			case 0: // native contract: succeeds iff the gas covers the price and the input is accepted
				n := 1 + r.Intn(8)
				inv.Addr = model.C16PrecompileAddr(n)
				inv.Input, inv.InSize = precompileInput(r, n)
				switch {
				case f.Doomed:
					g.gasFor(inv, true, false)
				case r.Intn(5) < 2:
					g.gasFor(inv, false, false)
				default:
					// an explicit allotment is handed on as it is (plus the stipend of a value-bearing call)
					inv.GasMode, inv.GasConst = model.C16GConst, precompileGasMenu(r, n, inv.Input, inv.InSize)
				}
				outRec = 2
			case 1: // funded EOA, absent accounts, the zero address, a code-less account holding value: succeeds with any gas
				inv.Addr = g.plains[r.Intn(len(g.plains))]
				g.gasFor(inv, f.Doomed || r.Intn(2) == 0, false)
				outRec = 10
				if !isCreate && r.Intn(10) > 0 {
					g.plainInv = append(g.plainInv, inv)
					outRec = 0
				}
			case 2: // a host entered without a selector: its dispatcher jumps to 0 and fails with any gas
				inv.Addr = g.p.Hosts[r.Intn(len(g.p.Hosts))]
				g.gasFor(inv, true, false)
				outRec = 10
			case 3: // the executing account itself: a dispatcher (fails) or, inside init code, no code yet (succeeds)
				inv.Tgt = model.C16TgtSelf
				g.gasFor(inv, true, false)
				outRec = 10
			}
			if static {
				outRec *= 4
			}
			if outRec > 0 && r.Intn(outRec) == 0 {
				inv.OutRec, inv.OutSlot = true, outSlotBase+2*uint64(r.Intn(outPairs))
			}
		case 2: // the contract a previous create of this frame returned
			inv.Tgt = model.C16TgtCreated
			inv.Ref = r.Intn(ncreate)
			inv.Kind = pick(r, 60, 10, 15, 15)
			inv.Value = g.value()
			g.gasFor(inv, f.Doomed, false)
		}
		g.policy(inv, static)
		if reSD == 2 {
			inv.Policy = model.C16PRequireFail
		}
		f.Actions = append(f.Actions, model.C16Action{Kind: model.C16AInvoke, Inv: inv})
		g.effects(f, nfx(), &seq)
	}
	return f
}

// leafCreate: a creation frame without children (its cost does not depend on the gas it gets) that
// deploys a runtime stub.
func (g *gen) leafCreate(doomed bool) *model.C16Frame {
	r := g.r
	f := &model.C16Frame{ID: g.nextID, Term: model.C16TReturn, Doomed: doomed, Tight: true}
	g.nextID++
	g.nodes++
	seq := 0
	g.effects(f, pick(r, 20, 40, 30, 10), &seq)
	f.Stub = &model.C16Stub{Kind: pick(r, 35, 35, 15, 15), Slot: uint64(r.Intn(dataSlots)), Val: 0x900000 + uint64(f.ID), Benef: g.anyAddr(nil)}
	return f
}

// calibratedTx: a transaction with ONE creation frame whose gas the harness places at the boundary
// "code deposit just (not) paid" (see calib.go). Three shapes: the transaction is the creation; the
// root P creates by CREATE/CREATE2 and the transaction's gas is the knob (the child gets all but 1/64
// of what P has left); a root X with ample gas enters P by CALL/CALLCODE/DELEGATECALL with an
// explicit gas constant, which is the knob.
func (g *gen) calibratedTx(tx *model.C16Tx) {
	r := g.r
	g.nodes = 0
	g.sdHosts = nil
	tx.Calib = &model.C16Calib{Choice: pick(r, 10, 6, 24, 12, 20, 18, 10)}
	tx.Gas = calibHi
	if r.Intn(3) == 0 {
		tx.Value = uint64(1 + r.Intn(100))
	}
	shape := pick(r, 30, 40, 30)
	if shape == 0 {
		tx.Create = true
		tx.Root = g.leafCreate(false)
		tx.Boundary = tx.Root
		return
	}
	mkP := func(doomed bool) *model.C16Frame {
		P := &model.C16Frame{ID: g.nextID, Host: r.Intn(len(g.p.Hosts)), Term: []int{model.C16TStop, model.C16TReturn}[r.Intn(2)], Doomed: doomed, Tight: true}
		g.nextID++
		g.nodes++
		seq := 0
		g.effects(P, pick(r, 40, 40, 20), &seq)
		child := g.leafCreate(doomed)
		inv := &model.C16Inv{Kind: model.C16KCreate + r.Intn(2), Tgt: model.C16TgtNode, Node: child, GasMode: model.C16GAll, Policy: model.C16PIgnore, Salt: uint64(r.Intn(3))}
		if r.Intn(3) == 0 {
			inv.Value = 1 + uint64(r.Intn(30))
		}
		P.Actions = append(P.Actions, model.C16Action{Kind: model.C16AInvoke, Inv: inv})
		tx.Boundary = child
		return P
	}
	if shape == 1 {
		tx.Root = mkP(false)
		return
	}
	X := &model.C16Frame{ID: g.nextID, Host: r.Intn(len(g.p.Hosts))}
	g.nextID++
	g.nodes++
	X.Term = pick(r, 60, 25, 15) // STOP, RETURN, REVERT
	X.Doomed = model.C16TermFails(X.Term)
	seq := 0
	g.effects(X, pick(r, 40, 40, 20), &seq)
	inv := &model.C16Inv{Kind: pick(r, 60, 20, 20), Tgt: model.C16TgtNode, GasMode: model.C16GConst, GasConst: calibHi}
	inv.Node = mkP(X.Doomed)
	if inv.Kind <= model.C16KCallCode && r.Intn(3) == 0 {
		inv.Value = 1 + uint64(r.Intn(30))
	}
	inv.Policy = pick(r, 30, 50, 20) // ignore, record, require-ok
	inv.RecSlot = recSlotBase + uint64(r.Intn(recSlots))
	X.Actions = append(X.Actions, model.C16Action{Kind: model.C16AInvoke, Inv: inv})
	g.effects(X, pick(r, 50, 35, 15), &seq)
	tx.Root = X
	tx.Calib.Knob = inv
	tx.Gas = uint64(1) << uint(44+6*r.Intn(4))
}

type preAcct struct {
	Addr    model.C16Addr
	Nonce   uint64
	Bal     uint64
	Host    int // -1: no code
	Storage map[uint64]uint64
}

// genProgram builds hosts, pre-state and 1-4 transactions.
func genProgram(r *rand.Rand) (*model.C16Program, []preAcct) {
	g := &gen{r: r}
	p := &model.C16Program{Origin: originAddr}
	g.p = p
	nh := 2 + r.Intn(5)
	for i := 0; i < nh; i++ {
		p.Hosts = append(p.Hosts, hostAddr(i))
	}
	g.plains = []model.C16Addr{eoaFunded, eoaAbsentA, eoaAbsentB, zeroAddr, eoaBalOnly}
	ntx := 1 + pick(r, 35, 30, 22, 13)
	for i := 0; i < ntx; i++ {
		tx := &model.C16Tx{}
		if j := r.Intn(i + 1); i > 0 && r.Intn(6) == 0 && p.Txs[j%i].Calib == nil {
			// (a transaction with calibrated gas is not run again: its knob may sit in the code)
			j %= i
			tx.Root, tx.Direct, tx.Create, tx.Repeat = p.Txs[j].Root, p.Txs[j].Direct, p.Txs[j].Create, j+1
		} else if r.Intn(9) == 0 {
			g.calibratedTx(tx)
			p.Txs = append(p.Txs, tx)
			continue
		} else if r.Intn(12) == 0 {
			// the transaction itself goes to a literal address: the top-level frame has no code of ours
			inv := &model.C16Inv{Tgt: model.C16TgtPlain, Kind: model.C16KCall}
			tx.Direct = inv
			tx.Gas = constGas[r.Intn(len(constGas))] * uint64(1+r.Intn(4))
			switch pick(r, 70, 24, 6) {
			case 0:
				n := 1 + r.Intn(8)
				inv.Addr = model.C16PrecompileAddr(n)
				inv.Input, inv.InSize = precompileInput(r, n)
				if r.Intn(4) == 0 {
					tx.Gas = uint64(1) << uint(44+6*r.Intn(4))
				} else {
					tx.Gas = precompileGasMenu(r, n, inv.Input, inv.InSize)
				}
			case 1:
				inv.Addr = g.plains[r.Intn(len(g.plains))]
			case 2:
				inv.Addr = p.Hosts[r.Intn(len(p.Hosts))]
			}
			if r.Intn(5) < 3 {
				tx.Value = uint64(1 + r.Intn(100))
			}
			p.Txs = append(p.Txs, tx)
			continue
		} else {
			g.nodes = 0
			g.sdHosts = nil
			tx.Create = r.Intn(10) == 0
			var ctx *model.C16Addr
			host := r.Intn(len(p.Hosts))
			if !tx.Create {
				h := p.Hosts[host]
				ctx = &h
			}
			tx.Root = g.frame(1, host, ctx, false, false, tx.Create, false, true)
		}
		if r.Intn(3) == 0 {
			tx.Value = uint64(1 + r.Intn(100))
		}
		if tx.Direct != nil {
			// a direct call run again: with the same gas or with another constant
			tx.Gas = p.Txs[tx.Repeat-1].Gas
			if r.Intn(2) == 0 {
				tx.Gas = constGas[r.Intn(len(constGas))] * uint64(1+r.Intn(4))
			}
			p.Txs = append(p.Txs, tx)
			continue
		}
		if tx.Root.Doomed && r.Intn(2) == 0 {
			if r.Intn(2) == 0 {
				tx.Gas = uint64(r.Intn(400000))
			} else {
				tx.Gas = constGas[r.Intn(len(constGas))] * uint64(1+r.Intn(4))
			}
		} else {
			tx.Gas = uint64(1) << uint(44+6*r.Intn(4)) // 2^44 .. 2^62
		}
		p.Txs = append(p.Txs, tx)
	}
	// retarget some plain calls to addresses at which a CREATE2 of the program deploys (before or after
	// this call runs): pre-funding, calling deployed stubs, calling destroyed stubs
	for _, inv := range g.plainInv {
		if len(g.create2s) > 0 && r.Intn(4) > 0 {
			c := g.create2s[r.Intn(len(g.create2s))]
			inv.Tgt, inv.Of, inv.OfID, inv.Creator, inv.Salt = model.C16TgtCreate2Of, c.node, c.node.ID, c.creator, c.salt
			if inv.GasMode == model.C16GConst {
				// a stub may live there: its outcome must not depend on a starved allotment
				inv.GasMode, inv.Shift = model.C16GShift, uint(1+r.Intn(3))
			}
		}
	}
	var pre []preAcct
	pre = append(pre, preAcct{Addr: originAddr, Nonce: uint64(r.Intn(3)), Bal: 1000000000000, Host: -1})
	pre = append(pre, preAcct{Addr: eoaFunded, Nonce: 1, Bal: 500, Host: -1})
	pre = append(pre, preAcct{Addr: eoaBalOnly, Nonce: 0, Bal: 77, Host: -1})
	// some native-contract addresses hold value already (sent there by earlier blocks)
	for n := 1; n <= 8; n++ {
		if r.Intn(5) == 0 {
			pre = append(pre, preAcct{Addr: model.C16PrecompileAddr(n), Bal: uint64(1 + r.Intn(50)), Host: -1})
		}
	}
	for i := range p.Hosts {
		a := preAcct{Addr: p.Hosts[i], Nonce: uint64(r.Intn(2)), Host: i, Storage: map[uint64]uint64{}}
		if r.Intn(3) > 0 {
			a.Bal = uint64(r.Intn(2000))
		}
		for s := 0; s < dataSlots; s++ {
			if r.Intn(2) == 0 {
				a.Storage[uint64(s)] = uint64(1 + r.Intn(3))
			}
		}
		pre = append(pre, a)
	}
	return p, pre
}
