//go:build !VERIFY_EVM_INTEGER_POOL
// +build !VERIFY_EVM_INTEGER_POOL

package c16

const poolSanitizer = false
