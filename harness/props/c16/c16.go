package c16

import (
	"bytes"
	"encoding/hex"
	"fmt"
	"math/big"
	"sort"
	"strings"

	"verif/kit"
	"verif/model"
	"verif/mon"

	"github.com/youchainhq/go-youchain/common"
	"github.com/youchainhq/go-youchain/core"
	"github.com/youchainhq/go-youchain/core/state"
	"github.com/youchainhq/go-youchain/core/types"
	"github.com/youchainhq/go-youchain/core/vm"
	"github.com/youchainhq/go-youchain/params"
	"github.com/youchainhq/go-youchain/rlp"
	"github.com/youchainhq/go-youchain/trie"
	"github.com/youchainhq/go-youchain/youdb"
)

func init() { kit.Register("C16.frames", run) }

func ca(a model.C16Addr) common.Address { return common.Address(a) }
func ma(a common.Address) model.C16Addr { return model.C16Addr(a) }

func slotHash(s uint64) common.Hash { return common.Hash(model.C16WordOf(s)) }

var allSlots []uint64

func init() {
	for s := 0; s < dataSlots; s++ {
		allSlots = append(allSlots, uint64(s))
	}
	for s := 0; s < recSlots; s++ {
		allSlots = append(allSlots, recSlotBase+uint64(s))
	}
	for s := 0; s < 2*outPairs; s++ {
		allSlots = append(allSlots, outSlotBase+uint64(s))
	}
}

func run(c *kit.Ctx) {
	params.InitNetworkId(params.NetworkIdForTestCase)
	c.Begin("selfcheck", nil)
	if why := selfCheck(); why != "" {
		c.Note("C16 reference self-check failed: " + why)
		c.EndInconclusive("reference self-check failed: " + why)
		return
	}
	if c.Mode == "intpool" && !poolSanitizer {
		c.EndInconclusive("intpool job was built without the VERIFY_EVM_INTEGER_POOL tag")
		return
	}
	if c.Mode != "intpool" && poolSanitizer {
		c.EndInconclusive("non-intpool job was built with the VERIFY_EVM_INTEGER_POOL tag")
		return
	}
	c.End("")
	n := c.N(9000, 400000)
	for i := 0; i < n; i++ {
		id := fmt.Sprintf("p%d", i)
		if !c.Mine(i, id) {
			continue
		}
		runProgram(c, id)
	}
	nd := c.N(160, 8000)
	for i := 0; i < nd; i++ {
		id := fmt.Sprintf("d%d", i)
		if !c.Mine(n+i, id) {
			continue
		}
		runDeep(c, id)
	}
}

// selfCheck validates the address derivations of the reference against published vectors and the
// compiler/simulator pair against a hand-written scenario.
func selfCheck() string {
	// EIP-1014 example 0: address 0x0, salt 0, init_code 0x00
	if got := model.C16Create2Addr(model.C16Addr{}, 0, []byte{0}); !strings.EqualFold(got.Hex(), "4D1A2e2bB4F88F0250f26Ffff098B0b30B26BF38") {
		return "CREATE2 vector: " + got.Hex()
	}
	// well-known CREATE vector (sender 0x6ac7ea33f8831ea9dcc53393aaa88b25a785dbf0, nonces 0 and 1)
	var s model.C16Addr
	b, _ := hex.DecodeString("6ac7ea33f8831ea9dcc53393aaa88b25a785dbf0")
	copy(s[:], b)
	if got := model.C16CreateAddr(s, 0); got.Hex() != "cd234a471b72ba2f1ccf0a70fcaba648a5eecd8d" {
		return "CREATE vector nonce 0: " + got.Hex()
	}
	if got := model.C16CreateAddr(s, 1); got.Hex() != "343c43a37d37dff08ae8c4a11544c718abb4fcf8" {
		return "CREATE vector nonce 1: " + got.Hex()
	}
	if why := precompileSelfCheck(); why != "" {
		return "native contract functions: " + why
	}
	return ""
}

// ---- one program -----------------------------------------------------------------------------------

type prepared struct {
	p     *model.C16Program
	pre   []preAcct
	modes []int                      // how each transaction is finalised (0 Finalise, 1 IntermediateRoot, 2 Commit, 3 Commit + reopen)
	resD  []*model.C16TxResult       // the reference with the known defect "removed account's balance resurrected" emulated
	ghost []map[model.C16Addr]uint64 // before each transaction: value that removed accounts held at their removal
	res   []*model.C16TxResult
	sim   *model.C16Sim
	init  *model.C16State
	tries int
	pan   interface{} // the implementation panicked while gas was being sized by dry runs
}

// prepare generates a program whose predicted outcome is provably independent of gas.
func prepare(c *kit.Ctx, id string) *prepared {
	r := c.Rand(id)
	for try := 0; try < 40; try++ {
		p, pre := genProgram(r)
		if err := model.C16Compile(p); err != nil {
			c.Count("gen_rejected_size", 1)
			continue
		}
		var modes []int
		for i := range p.Txs {
			mode := r.Intn(4)
			if i == len(p.Txs)-1 && r.Intn(2) == 0 {
				mode = 3
			}
			modes = append(modes, mode)
		}
		// creation frames at the code-deposit boundary: the gas is sized by dry runs of the implementation
		if pan := calibrate(c, p, pre, modes); pan != nil {
			return &prepared{p: p, pre: pre, modes: modes, pan: pan}
		}
		if err := model.C16Compile(p); err != nil {
			c.Count("gen_rejected_size", 1)
			continue
		}
		init := model.NewC16State()
		for _, a := range pre {
			ac := &model.C16Acct{Nonce: a.Nonce, Bal: a.Bal, CodeHost: a.Host, Storage: map[uint64]model.C16Word{}}
			if a.Host >= 0 {
				ac.Code = p.HostCode[a.Host]
			}
			for k, v := range a.Storage {
				ac.Storage[k] = model.C16WordOf(v)
			}
			init.Accts[a.Addr] = ac
		}
		sim := model.NewC16Sim(p, init)
		var res []*model.C16TxResult
		ok := true
		for i := range p.Txs {
			rs := sim.Tx(i)
			if rs.Uncertain {
				ok = false
				break
			}
			res = append(res, rs)
		}
		if !ok {
			c.Count("gen_rejected_gas_not_provably_ample", 1)
			continue
		}
		pp := &prepared{p: p, pre: pre, res: res, sim: sim, init: init, tries: try + 1, modes: modes}
		// second run of the reference with the known defect emulated; used only to put the right name on a
		// deviation from the first one
		simD := model.NewC16Sim(p, init)
		simD.Emulate()
		for i := range p.Txs {
			pp.ghost = append(pp.ghost, simD.Ghost())
			rs := simD.Tx(i)
			if rs.Uncertain {
				rs = nil
			}
			pp.resD = append(pp.resD, rs)
			if pp.modes[i] == 3 {
				simD.Reopened()
			}
		}
		return pp
	}
	return nil
}

type witness struct {
	Tx       int      `json:"tx"`
	Phase    string   `json:"phase,omitempty"`
	Diffs    []string `json:"diffs,omitempty"`
	Program  []string `json:"program"`
	PreState []string `json:"pre_state"`
	Between  []string `json:"between_txs"`
	HostCode []string `json:"host_code_hex"`
	Note     string   `json:"note,omitempty"`
}

func (pp *prepared) witness(tx int, phase string, diffs []string, between []string) witness {
	w := witness{Tx: tx, Phase: phase, Diffs: diffs, Between: between}
	for i := range pp.p.Txs {
		if i <= tx {
			w.Program = append(w.Program, strings.Split(strings.TrimRight(pp.p.RenderTx(i), "\n"), "\n")...)
		}
	}
	for _, a := range pp.pre {
		var st []string
		for k, v := range a.Storage {
			st = append(st, fmt.Sprintf("%#x=%#x", k, v))
		}
		sort.Strings(st)
		name := "0x" + a.Addr.Hex()
		if a.Host >= 0 {
			name = fmt.Sprintf("H%d=0x%s", a.Host, a.Addr.Hex())
		}
		w.PreState = append(w.PreState, fmt.Sprintf("%s nonce=%d balance=%d storage=%v", name, a.Nonce, a.Bal, st))
	}
	for _, code := range pp.p.HostCode {
		h := hex.EncodeToString(code)
		if len(h) > 1600 {
			h = h[:1600] + "…"
		}
		w.HostCode = append(w.HostCode, h)
	}
	w.Note = "host code: PUSH1 0 CALLDATALOAD JUMP + one JUMPDEST section per node; the transaction's calldata is the 32-byte section offset of its root node; the program is a function of (VERIF_SEED, case id)"
	return w
}

func runProgram(c *kit.Ctx, id string) {
	// (the preparation executes the implementation too: dry runs that size gas)
	c.Begin(id, map[string]interface{}{"generator": "C16 frame-tree DSL, PRNG of (seed, case id)"})
	pp := prepare(c, id)
	if pp == nil {
		c.Count("gen_gave_up", 1)
		c.End("")
		return
	}
	if pp.pan != nil {
		c.Violation("evm-panic", fmt.Sprintf("the EVM panicked in a dry run that sizes gas: %v", pp.pan), pp.witness(len(pp.p.Txs)-1, "dry run", nil, nil))
		c.End("")
		return
	}
	c.Count("programs", 1)
	c.Count("transactions", len(pp.p.Txs))
	p := pp.p
	r := c.Rand(id + "/drive")
	observe := r.Intn(2) == 0 // intrusive observation (state reads from inside the tracer) on half of the programs
	// a quarter of the programs run "hands off": between the transactions the live object is not read at
	// all (reads populate its caches and could mask a fault); only a Copy of it is flushed and enumerated
	handsOff := r.Intn(4) == 0
	if handsOff {
		observe = false
		c.Count("programs_run_hands_off", 1)
	}

	db := state.NewDatabase(youdb.NewMemDatabase())
	st, err := state.New(common.Hash{}, common.Hash{}, common.Hash{}, db)
	if err != nil {
		c.EndInconclusive("state.New: " + err.Error())
		return
	}
	for _, a := range pp.pre {
		ad := ca(a.Addr)
		st.AddBalance(ad, new(big.Int).SetUint64(a.Bal))
		st.SetNonce(ad, a.Nonce)
		if a.Host >= 0 {
			st.SetCode(ad, p.HostCode[a.Host])
		}
		for k, v := range a.Storage {
			st.SetState(ad, slotHash(k), common.Hash(model.C16WordOf(v)))
		}
	}
	var between []string
	// the pre-state is committed; half of the programs continue on a StateDB re-opened from the tries
	root, vroot, sroot, err := st.Commit(true)
	if err != nil {
		c.EndInconclusive("commit of pre-state: " + err.Error())
		return
	}
	if r.Intn(2) == 0 {
		if st, err = state.New(root, vroot, sroot, db); err != nil {
			c.EndInconclusive("reopen of pre-state: " + err.Error())
			return
		}
		between = append(between, "pre-state: Commit + reopen")
	} else {
		between = append(between, "pre-state: Commit")
	}

	uni := map[common.Address]bool{}
	for _, a := range pp.pre {
		uni[ca(a.Addr)] = true
	}
	for _, a := range []model.C16Addr{eoaAbsentA, eoaAbsentB, zeroAddr, eoaBalOnly} {
		uni[ca(a)] = true
	}
	for n := 1; n <= 8; n++ {
		uni[ca(model.C16PrecompileAddr(n))] = true
	}
	for a := range pp.sim.Addrs() {
		uni[ca(a)] = true
	}
	yp := params.Versions[params.YouCurrentVersion]
	feats := map[string]bool{}
	prevPost := pp.init
	bhash := common.BytesToHash([]byte("c16-block"))
	bad := false
	for ti, tx := range p.Txs {
		res := pp.res[ti]
		thash := common.BytesToHash([]byte(fmt.Sprintf("c16-tx-%d", ti)))
		st.Prepare(thash, bhash, ti)
		univ := sortedAddrs(uni)
		mu := &mon.Universe{Addrs: univ, Txs: []common.Hash{thash}}
		for _, s := range allSlots {
			mu.Slots = append(mu.Slots, slotHash(s))
		}
		// observation before
		var before, beforeFlushed mon.Digest
		quiet := handsOff && ti < len(p.Txs)-1 // no reads of the live object around this transaction
		if quiet {
			c.Count("transactions_run_hands_off", 1)
		}
		needFull := !res.OK || ti%3 == 0
		before = mon.Digest{}
		if needFull {
			if !quiet {
				before = mon.Live(st, mu, mon.Opts{})
			}
			beforeFlushed = mon.Flushed(st)
		}
		sumBefore := new(big.Int)
		if !quiet {
			sumBefore = sumBalances(st, univ)
		}
		trieBefore, terr := trieDump(st)
		if terr != nil {
			c.Violation("state-unreadable", "trie dump before tx: "+terr.Error(), pp.witness(ti, "before", nil, between))
			bad = true
			break
		}

		tr := newTracer(st, univ, observe)
		topBoundary := tx.Boundary != nil && tx.Create && tx.Root == tx.Boundary
		if tx.Boundary != nil && !topBoundary {
			tr.watchInit = tx.Boundary.InitCode
		}
		cfg := core.CombineVMConfig(&yp, vm.LocalConfig{Debug: true, Tracer: tr})
		ctx := vm.Context{
			CanTransfer: core.CanTransfer, Transfer: core.Transfer,
			GetHash:  func(n uint64) common.Hash { return common.BytesToHash([]byte{byte(n)}) },
			Origin:   ca(p.Origin),
			GasPrice: new(big.Int), TxHash: thash,
			Coinbase: common.HexToAddress("0xc16c000000000000000000000000000000000001"), GasLimit: tx.Gas,
			BlockNumber: big.NewInt(int64(10 + ti)), Time: big.NewInt(1600000000),
		}
		evm := vm.NewEVM(ctx, st, cfg)
		var (
			left    uint64
			cerr    error
			created common.Address
		)
		pan := kit.Guard(func() {
			if tx.Direct != nil {
				_, left, cerr = evm.Call(vm.AccountRef(ca(p.Origin)), ca(tx.Direct.Addr), tx.Direct.CallData(), tx.Gas, new(big.Int).SetUint64(tx.Value))
			} else if tx.Create {
				_, created, left, cerr = evm.Create(vm.AccountRef(ca(p.Origin)), tx.Root.InitCode, tx.Gas, new(big.Int).SetUint64(tx.Value))
			} else {
				var input [32]byte
				input[30], input[31] = byte(tx.Root.Dest>>8), byte(tx.Root.Dest)
				_, left, cerr = evm.Call(vm.AccountRef(ca(p.Origin)), ca(p.Hosts[tx.Root.Host]), input[:], tx.Gas, new(big.Int).SetUint64(tx.Value))
			}
		})
		c.Evals(1)
		if pan != nil {
			c.Violation("evm-panic", fmt.Sprintf("tx%d: the EVM panicked: %v", ti, pan), pp.witness(ti, "execution", nil, between))
			bad = true
			break
		}
		tr.finish(cerr == nil)
		for a := range tr.extra {
			uni[a] = true
		}
		univ = sortedAddrs(uni)
		for k, v := range tr.cnt {
			c.Count(k, v)
		}
		c.Max("max_depth_observed", int64(tr.maxDepth))
		for f := range tr.feats {
			feats[f] = true
		}
		if tx.Create {
			feats["top-create"] = true
		}
		if tx.Direct != nil {
			feats["top-direct"] = true
			c.Count("transactions_calling_a_literal_address_directly", 1)
		}
		if tx.Repeat > 0 {
			feats["tree-run-again"] = true
			c.Count("transactions_rerunning_an_earlier_tree", 1)
		}

		// attrib puts the name of the known defect on a deviation iff the emulating reference predicts
		// something else than the specified one for this transaction AND the real state equals that
		// prediction field by field (so nothing else can hide behind the known defect)
		attrib := func(class string, final bool, flushed map[string]*trieAcct) (string, string) {
			rd := pp.resD[ti]
			if rd == nil || (rd.OK == res.OK && statesEqual(rd.Pre, res.Pre)) || (cerr == nil) != rd.OK {
				return class, ""
			}
			if !final {
				if len(compareLive(st, rd.Pre, univ, true)) > 0 || len(compareLogs(st.GetLogs(thash), rd.Pre.Logs, thash, pp)) > 0 {
					return class, ""
				}
			} else if len(compareLive(st, rd.Post, univ, false)) > 0 || len(compareTrie(flushed, rd.Post)) > 0 {
				return class, ""
			}
			return "burnt-balance-resurrected", " [ATTRIBUTION: the real state equals, field by field, the reference run in which StateDB.CreateAccount hands the value that a REMOVED (self-destructed, finalised) account held at its removal to the account re-created at the same address later in the block; class without this attribution: " + class + "]"
		}

		// (1) gas: never more back than supplied, at any depth
		if left > tx.Gas {
			c.Violation("leftover-gas-exceeds-supplied", fmt.Sprintf("tx%d: supplied %d, left over %d", ti, tx.Gas, left), pp.witness(ti, "execution", nil, between))
			bad = true
		}
		if len(tr.viol) > 0 {
			v := tr.viol[0]
			cl, note := v.class, ""
			if v.class == "static-call-changed-state" {
				if cl, note = attrib(v.class, false, nil); cl == v.class && staticDiffIsResurrection(v.diffs, pp.ghost[ti]) {
					cl, note = "burnt-balance-resurrected", " [ATTRIBUTION: the only change below the STATICCALL is that an address removed (self-destructed, finalised) earlier in the block exists again and holds exactly the value it held at its removal: a zero-value CALL re-created it through StateDB.CreateAccount; class without this attribution: "+v.class+"]"
				}
			}
			c.Violation(cl, fmt.Sprintf("tx%d: %s%s", ti, v.msg, note), pp.witness(ti, "execution", v.diffs, between))
			bad = true
		}
		if bad {
			break
		}
		c.Evals(tr.checks)
		if tx.Boundary != nil {
			// the verdict at the code-deposit boundary that the reference works with came from dry runs: it is
			// confirmed against what the tracer saw, and a disagreement abandons the program
			created, seen := cerr == nil, topBoundary
			if !topBoundary && len(tr.watch) == 1 {
				created, seen = tr.watch[0].ok, true
			}
			if !seen || created == tx.BoundaryFails {
				c.Count("calibration_verdict_not_confirmed_program_abandoned", 1)
				bad = true
				break
			}
			c.Count("calibrated_creations_executed", 1)
			if tx.CreatorDies {
				c.Count("calibrated_creations_whose_creator_is_out_of_gas_right_after", 1)
			}
			if tx.BoundaryFails {
				c.Count("calibrated_creations_failing_at_code_deposit", 1)
				feats["calibrated-deposit-failure"] = true
			} else {
				c.Count("calibrated_creations_with_code_deposit_just_paid", 1)
			}
		}

		// (2) outcome of the top-level frame as the reference predicts
		if (cerr == nil) != res.OK {
			cl, note := attrib("frame-outcome-mismatch", false, nil)
			c.Violation(cl, fmt.Sprintf("tx%d: top-level frame: real err=%v, reference predicts success=%v%s", ti, cerr, res.OK, note), pp.witness(ti, "execution", nil, between))
			bad = true
			break
		}
		if tx.Create && res.OK && ma(created) != res.Created {
			c.Violation("created-address-mismatch", fmt.Sprintf("tx%d: created %x, reference %x", ti, created, res.Created), pp.witness(ti, "execution", nil, between))
			bad = true
			break
		}

		// (3) a failed top-level frame leaves the state exactly as before (full digest: live getters + flushed tries)
		if cerr != nil {
			c.Count("toplevel_failed", 1)
			feats["top-failed"] = true
			after := mon.Digest{}
			if !quiet {
				after = mon.Live(st, mu, mon.Opts{})
			}
			afterFlushed := mon.Flushed(st)
			if tx.Create {
				// the creator's nonce bump is the creator's own effect (it precedes the frame)
				k := "acct/" + hex.EncodeToString(p.Origin[:4]) + "/nonce"
				delete(before, k)
				delete(after, k)
				for _, d := range []mon.Digest{beforeFlushed, afterFlushed} {
					delete(d, "root")
					delete(d, "t/acct/"+hex.EncodeToString(model.Keccak256(p.Origin[:])[:6]))
				}
			}
			diffs := append(mon.Diff(before, after), mon.Diff(beforeFlushed, afterFlushed)...)
			c.Evals(1)
			if len(diffs) > 0 {
				c.Violation("failed-toplevel-frame-left-trace", fmt.Sprintf("tx%d: top-level frame failed (%v) but the state digest changed: %s", ti, cerr, firstN(diffs, 4)), pp.witness(ti, "after failed top-level frame", diffs, between))
				bad = true
				break
			}
			c.Count("toplevel_failed_digest_identical", 1)
		} else {
			c.Count("toplevel_succeeded", 1)
		}

		// (4) model-free value conservation, live view before finalisation
		sumAfter := new(big.Int)
		if !quiet {
			sumAfter = sumBalances(st, univ)
		}
		want := new(big.Int).Sub(sumBefore, tr.selfBurn)
		c.Evals(1)
		if !quiet && sumAfter.Cmp(want) != 0 {
			cl, note := attrib("total-balance-changed", false, nil)
			c.Violation(cl, fmt.Sprintf("tx%d: sum of balances before %v, after execution %v, burnt by SELFDESTRUCT-to-self in surviving frames %v%s", ti, sumBefore, sumAfter, tr.selfBurn, note), pp.witness(ti, "after execution", nil, between))
			bad = true
			break
		}
		dying := new(big.Int)
		for _, a := range univ {
			if !quiet && st.HasSuicided(a) {
				dying.Add(dying, st.GetBalance(a))
				c.Count("accounts_selfdestructed_at_finalisation", 1)
				if st.GetBalance(a).Sign() > 0 {
					c.Count("selfdestructed_accounts_holding_value_at_finalisation", 1)
					feats["value-to-dead-account"] = true
				}
			}
		}

		// (5) state after execution == reference (live getters, before finalisation)
		if quiet {
			// nothing
		} else if diffs := compareLive(st, res.Pre, univ, true); len(diffs) > 0 {
			cl, note := attrib(classifyTx(diffs, pp, res, tr), false, nil)
			c.Violation(cl, fmt.Sprintf("tx%d after execution: real state differs from the DSL reference: %s%s", ti, firstN(diffs, 4), note), pp.witness(ti, "after execution (before finalisation)", diffs, between))
			bad = true
			break
		}
		if diffs := compareLogs(st.GetLogs(thash), res.Pre.Logs, thash, pp); len(diffs) > 0 {
			cl := "state-mismatch:logs"
			for _, d := range diffs {
				if strings.HasPrefix(d, "SURVIVED") {
					cl = "failed-frame-effect-survived:log"
				}
			}
			cl, note := attrib(cl, false, nil)
			c.Violation(cl, fmt.Sprintf("tx%d: logs differ from the reference: %s%s", ti, firstN(diffs, 4), note), pp.witness(ti, "after execution", diffs, between))
			bad = true
			break
		}
		c.Evals(2)
		c.Count("logs_surviving", len(res.Pre.Logs))

		// finalisation as between the transactions of a block, in one of four flavours
		mode := pp.modes[ti]
		switch mode {
		case 0:
			st.Finalise(true)
			between = append(between, fmt.Sprintf("after tx%d: Finalise(true)", ti))
		case 1:
			st.IntermediateRoot(true)
			between = append(between, fmt.Sprintf("after tx%d: IntermediateRoot(true)", ti))
		case 2:
			if _, _, _, err := st.Commit(true); err != nil {
				c.Violation("state-commit-error", err.Error(), pp.witness(ti, "commit", nil, between))
				bad = true
			}
			between = append(between, fmt.Sprintf("after tx%d: Commit(true)", ti))
		case 3:
			root, vroot, sroot, err := st.Commit(true)
			if err == nil {
				st, err = state.New(root, vroot, sroot, db)
			}
			if err != nil {
				c.Violation("state-commit-error", err.Error(), pp.witness(ti, "commit+reopen", nil, between))
				bad = true
			}
			between = append(between, fmt.Sprintf("after tx%d: Commit(true) + reopen", ti))
		}
		if bad {
			break
		}
		c.Count(fmt.Sprintf("finalise_mode_%d", mode), 1)

		// (6) state after finalisation == reference: live getters and our own enumeration of the tries
		if quiet {
			// nothing
		} else if diffs := compareLive(st, res.Post, univ, false); len(diffs) > 0 {
			fl, _ := trieDump(st)
			cl, note := attrib(classifyTx(diffs, pp, res, tr), true, fl)
			c.Violation(cl, fmt.Sprintf("tx%d after finalisation: real state differs from the DSL reference: %s%s", ti, firstN(diffs, 4), note), pp.witness(ti, "after finalisation", diffs, between))
			bad = true
			break
		}
		trieAfter, terr := trieDump(st)
		if terr != nil {
			c.Violation("state-unreadable", "trie dump after tx: "+terr.Error(), pp.witness(ti, "after finalisation", nil, between))
			bad = true
			break
		}
		if diffs := compareTrie(trieAfter, res.Post); len(diffs) > 0 {
			cl, note := attrib(classifyTx(diffs, pp, res, tr), true, trieAfter)
			c.Violation(cl, fmt.Sprintf("tx%d: flushed tries differ from the DSL reference: %s%s", ti, firstN(diffs, 4), note), pp.witness(ti, "flushed tries after finalisation", diffs, between))
			bad = true
			break
		}
		c.Evals(2)
		// (7) model-free value conservation over the whole account trie
		tb, ta := trieTotal(trieBefore), trieTotal(trieAfter)
		want = new(big.Int).Sub(tb, tr.selfBurn)
		want.Sub(want, dying)
		c.Evals(1)
		if !quiet && ta.Cmp(want) != 0 {
			cl, note := attrib("total-balance-changed", true, trieAfter)
			c.Violation(cl, fmt.Sprintf("tx%d: sum of all balances in the account trie before %v, after %v; burnt by SELFDESTRUCT-to-self %v, held by self-destructed accounts at finalisation %v%s", ti, tb, ta, tr.selfBurn, dying, note), pp.witness(ti, "flushed tries after finalisation", nil, between))
			bad = true
			break
		}
		if res.Burnt > 0 {
			c.Count("transactions_burning_value", 1)
		}
		_ = prevPost
		prevPost = res.Post
	}
	for k, v := range pp.sim.Stats() {
		c.Count("ref_"+k, v)
	}
	if !bad {
		c.Count("programs_fully_checked", 1)
	}
	var fs []string
	for f := range feats {
		fs = append(fs, f)
	}
	sort.Strings(fs)
	if c.Batch == 0 || len(fs) > 12 {
		c.Sample(map[string]interface{}{"case": id, "transactions": len(p.Txs), "first_tx": strings.Split(p.RenderTx(0), "\n"), "features": fs, "between": between})
	}
	c.End(fmt.Sprintf("ntx%d %v", len(p.Txs), fs))
}

func firstN(d []string, n int) string {
	if len(d) > n {
		return strings.Join(d[:n], "; ") + fmt.Sprintf("; … (%d differences)", len(d))
	}
	return strings.Join(d, "; ")
}

func sortedAddrs(m map[common.Address]bool) []common.Address {
	out := make([]common.Address, 0, len(m))
	for a := range m {
		out = append(out, a)
	}
	sort.Slice(out, func(i, j int) bool { return bytes.Compare(out[i][:], out[j][:]) < 0 })
	return out
}

func sumBalances(st *state.StateDB, addrs []common.Address) *big.Int {
	t := new(big.Int)
	for _, a := range addrs {
		t.Add(t, st.GetBalance(a))
	}
	return t
}

// ---- comparison with the reference -------------------------------------------------------------------

// staticDiffIsResurrection: every difference concerns an address with remembered burnt value g and is
// one of balance 0 -> g, exists, codehash.
func staticDiffIsResurrection(diffs []string, ghost map[model.C16Addr]uint64) bool {
	if len(diffs) == 0 {
		return false
	}
	for _, d := range diffs {
		i := strings.Index(d, "/")
		if i != 40 {
			return false
		}
		b, err := hex.DecodeString(d[:40])
		if err != nil {
			return false
		}
		var a model.C16Addr
		copy(a[:], b)
		g := ghost[a]
		rest := d[41:]
		switch {
		case g > 0 && rest == fmt.Sprintf("balance: 0 -> %d", g):
		case g > 0 && strings.HasPrefix(rest, "exists:"), g > 0 && strings.HasPrefix(rest, "codehash:"):
		default:
			return false
		}
	}
	return true
}

// statesEqual: two reference states predict the same observables.
func statesEqual(a, b *model.C16State) bool {
	if len(a.Accts) != len(b.Accts) || len(a.Logs) != len(b.Logs) {
		return false
	}
	for ad, x := range a.Accts {
		y := b.Accts[ad]
		if y == nil || x.Nonce != y.Nonce || x.Bal != y.Bal || !bytes.Equal(x.Code, y.Code) || x.Suicided != y.Suicided || len(x.Storage) != len(y.Storage) {
			return false
		}
		for k, v := range x.Storage {
			if y.Storage[k] != v {
				return false
			}
		}
	}
	for i := range a.Logs {
		if a.Logs[i].Addr != b.Logs[i].Addr || !bytes.Equal(a.Logs[i].Data, b.Logs[i].Data) || len(a.Logs[i].Topics) != len(b.Logs[i].Topics) {
			return false
		}
	}
	return true
}

func wordHex(w model.C16Word) string {
	s := strings.TrimLeft(hex.EncodeToString(w[:]), "0")
	if s == "" {
		s = "0"
	}
	return "0x" + s
}

// compareLive compares the live getters with the reference state. pre: before finalisation
// (self-destructed accounts still exist and are flagged).
func compareLive(st *state.StateDB, m *model.C16State, addrs []common.Address, pre bool) []string {
	var d []string
	for _, a := range addrs {
		ac := m.Accts[ma(a)]
		name := fmt.Sprintf("%x", a[:])
		var (
			bal, nonce uint64
			code       []byte
			suicided   bool
		)
		if ac != nil {
			bal, nonce, code, suicided = ac.Bal, ac.Nonce, ac.Code, ac.Suicided
		}
		// existence: an account the reference holds as non-empty must exist; one the reference does not
		// hold must not exist. (An EMPTY account is equivalent to an absent one under EIP-161, so the
		// reference's empty accounts are not compared while they may still linger before finalisation.)
		ex := st.Exist(a)
		setDiff := true
		switch {
		case ac != nil && !ac.Empty() && !ex:
			d = append(d, fmt.Sprintf("account(%s): absent, reference has it", name))
		case ac == nil && ex && !(pre && st.Empty(a)):
			d = append(d, fmt.Sprintf("account(%s): exists (empty=%v), reference has none", name, st.Empty(a)))
		case !pre && ac == nil && ex:
			d = append(d, fmt.Sprintf("account(%s): exists after finalisation, reference has none", name))
		default:
			setDiff = false
		}
		if g := st.GetBalance(a); !g.IsUint64() || g.Uint64() != bal {
			d = append(d, fmt.Sprintf("balance(%s): real %v, reference %d", name, g, bal))
		}
		if g := st.GetNonce(a); g != nonce {
			d = append(d, fmt.Sprintf("nonce(%s): real %d, reference %d", name, g, nonce))
		}
		if g := st.GetCode(a); !bytes.Equal(g, code) {
			d = append(d, fmt.Sprintf("code(%s): real %d bytes %x.., reference %d bytes", name, len(g), head(g), len(code)))
		}
		wantHash := common.Hash{}
		if ac != nil {
			wantHash = common.BytesToHash(model.Keccak256(code))
		}
		skipHash := setDiff || (!ex && (ac == nil || ac.Empty())) || (ac == nil && st.Empty(a))
		if g := st.GetCodeHash(a); g != wantHash && !skipHash {
			// (an absent account has hash zero, an empty one keccak(""))
			d = append(d, fmt.Sprintf("codehash(%s): real %x, reference %x", name, g, wantHash))
		}
		if g := st.GetCodeSize(a); g != len(code) {
			d = append(d, fmt.Sprintf("codesize(%s): real %d, reference %d", name, g, len(code)))
		}
		if pre {
			if g := st.HasSuicided(a); g != suicided {
				d = append(d, fmt.Sprintf("selfdestructed(%s): real %v, reference %v", name, g, suicided))
			}
		} else if st.HasSuicided(a) {
			d = append(d, fmt.Sprintf("selfdestructed(%s): still flagged after finalisation", name))
		}
		if ac == nil && !ex && model.C16PrecompileIndex(ma(a)) > 0 {
			// an absent native-contract address (they are in every universe): no storage to read
			continue
		}
		for _, s := range allSlots {
			var w model.C16Word
			if ac != nil {
				w = ac.Storage[s]
			}
			if g := st.GetState(a, slotHash(s)); model.C16Word(g) != w {
				d = append(d, fmt.Sprintf("storage(%s)[%#x]: real %s, reference %s", name, s, wordHex(model.C16Word(g)), wordHex(w)))
			}
			if !pre {
				if g := st.GetCommittedState(a, slotHash(s)); model.C16Word(g) != w {
					d = append(d, fmt.Sprintf("committed-storage(%s)[%#x]: real %s, reference %s", name, s, wordHex(model.C16Word(g)), wordHex(w)))
				}
			}
		}
	}
	return d
}

func head(b []byte) []byte {
	if len(b) > 8 {
		return b[:8]
	}
	return b
}

func compareLogs(real []*types.Log, want []model.C16Log, thash common.Hash, pp *prepared) []string {
	var d []string
	doomedTags := pp.doomedTags()
	for i, l := range real {
		if len(l.Topics) > 0 {
			t := new(big.Int).SetBytes(l.Topics[0][:])
			if t.IsUint64() && doomedTags[t.Uint64()] {
				d = append(d, fmt.Sprintf("SURVIVED log #%d of a frame that failed (tag %#x) at %x", i, t.Uint64(), l.Address[:]))
			}
		}
		if l.TxHash != thash {
			d = append(d, fmt.Sprintf("log #%d carries tx hash %x", i, l.TxHash[:4]))
		}
		if i > 0 && l.Index != real[i-1].Index+1 {
			d = append(d, fmt.Sprintf("log #%d has index %d after %d", i, l.Index, real[i-1].Index))
		}
	}
	if len(real) != len(want) {
		d = append(d, fmt.Sprintf("%d logs, reference has %d", len(real), len(want)))
		return d
	}
	for i, l := range real {
		w := want[i]
		same := ma(l.Address) == w.Addr && len(l.Topics) == len(w.Topics) && bytes.Equal(l.Data, w.Data)
		if same {
			for j := range w.Topics {
				if model.C16Word(l.Topics[j]) != w.Topics[j] {
					same = false
				}
			}
		}
		if !same {
			d = append(d, fmt.Sprintf("log #%d: real (%x, %d topics %v, data %x), reference (%x, %d topics, data %x)", i, l.Address[:], len(l.Topics), l.Topics, l.Data, w.Addr[:], len(w.Topics), w.Data))
		}
	}
	return d
}

// doomedTags: the unique values/tags that only frames with a failing terminator (or below one) emit.
func (pp *prepared) doomedTags() map[uint64]bool {
	out := map[uint64]bool{}
	seen := map[*model.C16Frame]bool{}
	var walk func(f *model.C16Frame)
	walk = func(f *model.C16Frame) {
		if seen[f] {
			return
		}
		seen[f] = true
		for i := range f.Actions {
			a := &f.Actions[i]
			switch a.Kind {
			case model.C16ASstore:
				if f.Doomed && a.Val >= 0x1000 {
					out[a.Val] = true
				}
			case model.C16ALog:
				if f.Doomed {
					out[a.Tag] = true
				}
			case model.C16AInvoke:
				if a.Inv.Tgt == model.C16TgtNode {
					walk(a.Inv.Node)
				}
			}
		}
	}
	for _, tx := range pp.p.Txs {
		if tx.Root != nil {
			walk(tx.Root)
		}
	}
	return out
}

// classifyTx: a difference at the callee of a value-bearing CALL whose frame failed (per the reference,
// and the real instruction pushed 0 as well), with MORE value there than the reference has, or with an
// account where the reference has none, is an effect of a failed frame that survived; everything else
// is classified by classify.
func classifyTx(diffs []string, pp *prepared, res *model.C16TxResult, tr *tracer) string {
	for a := range res.FailedValueCalls {
		if tr.failedValueCalls[ca(a)] == 0 {
			// the real call did not push 0: a different outcome, not a surviving effect
			continue
		}
		hx := fmt.Sprintf("%x", a[:])
		th := fmt.Sprintf("trie-account(hash %x)", model.Keccak256(a[:])[:6])
		for _, d := range diffs {
			switch {
			case strings.HasPrefix(d, "balance("+hx+")") || strings.HasPrefix(d, "trie-balance("+hx+")"):
				var real, ref uint64
				if i := strings.Index(d, "real "); i >= 0 {
					if _, err := fmt.Sscanf(d[i:], "real %d, reference %d", &real, &ref); err == nil && real > ref {
						return "failed-frame-effect-survived:value-transfer"
					}
				}
			case strings.HasPrefix(d, "account("+hx+"): exists") || strings.HasPrefix(d, th):
				return "failed-frame-effect-survived:created-account"
			}
		}
	}
	for a := range res.FailedCreates {
		if acc := res.Pre.Accts[a]; acc != nil && !acc.Empty() {
			continue
		}
		hx := fmt.Sprintf("%x", a[:])
		th := fmt.Sprintf("trie-account(hash %x)", model.Keccak256(a[:])[:6])
		for _, d := range diffs {
			if strings.HasPrefix(d, "account("+hx+"): exists") || strings.HasPrefix(d, th) {
				// the address of a creation frame that failed (per the reference) carries an account
				return "failed-frame-effect-survived:created-account"
			}
		}
	}
	return classify(diffs, pp)
}

// classify picks the violation class from a list of differences.
func classify(diffs []string, pp *prepared) string {
	doomed := pp.doomedTags()
	kind := ""
	for _, d := range diffs {
		var k string
		switch {
		case strings.HasPrefix(d, "storage(") || strings.HasPrefix(d, "committed-storage(") || strings.HasPrefix(d, "trie-storage("):
			k = "storage"
			// real value written only by a frame that cannot succeed?
			if i := strings.Index(d, "real 0x"); i >= 0 {
				var v uint64
				fmt.Sscanf(d[i+5:], "0x%x", &v)
				if doomed[v] {
					return "failed-frame-effect-survived:storage"
				}
			}
		case strings.HasPrefix(d, "balance(") || strings.HasPrefix(d, "trie-balance("):
			k = "balance"
		case strings.HasPrefix(d, "nonce(") || strings.HasPrefix(d, "trie-nonce("):
			k = "nonce"
		case strings.HasPrefix(d, "code"):
			k = "code"
		case strings.HasPrefix(d, "selfdestructed("):
			k = "selfdestruct-flag"
		case strings.HasPrefix(d, "account(") || strings.HasPrefix(d, "trie-account("):
			k = "account-set"
		default:
			k = "other"
		}
		if kind == "" {
			kind = k
		}
	}
	return "state-mismatch:" + kind
}

// ---- own enumeration of the flushed tries -------------------------------------------------------------

type trieAcct struct {
	nonce    uint64
	bal      *big.Int
	codeHash []byte
	code     []byte
	storage  map[string][]byte // keccak(slot) -> value bytes (left zeroes trimmed)
}

var emptyCodeHash = model.Keccak256(nil)
var emptyRoot = common.HexToHash("56e81f171bcc55a6ff8345e692c0f86e5b48e01b996cadc001622fb5e363b421")

// trieDump commits a Copy of st and walks the account trie and every storage trie.
func trieDump(st *state.StateDB) (map[string]*trieAcct, error) {
	cp := st.Copy()
	root, _, _, err := cp.Commit(true)
	if err != nil {
		return nil, err
	}
	db := cp.Database()
	tr, err := db.OpenTrie(root)
	if err != nil {
		return nil, err
	}
	out := map[string]*trieAcct{}
	it := trie.NewIterator(tr.NodeIterator(nil))
	for it.Next() {
		var acc state.Account
		if err := rlp.DecodeBytes(it.Value, &acc); err != nil {
			return nil, fmt.Errorf("account %x undecodable: %v", it.Key, err)
		}
		ta := &trieAcct{nonce: acc.Nonce, bal: acc.Balance, codeHash: acc.CodeHash, storage: map[string][]byte{}}
		if !bytes.Equal(acc.CodeHash, emptyCodeHash) {
			code, err := db.ContractCode(common.BytesToHash(it.Key), common.BytesToHash(acc.CodeHash))
			if err != nil {
				return nil, fmt.Errorf("code of account %x missing: %v", it.Key, err)
			}
			ta.code = code
		}
		if acc.Root != emptyRoot && acc.Root != (common.Hash{}) {
			stt, err := db.OpenStorageTrie(common.BytesToHash(it.Key), acc.Root)
			if err != nil {
				return nil, fmt.Errorf("storage trie of account %x missing: %v", it.Key, err)
			}
			sit := trie.NewIterator(stt.NodeIterator(nil))
			for sit.Next() {
				_, content, _, err := rlp.Split(sit.Value)
				if err != nil {
					return nil, fmt.Errorf("storage value undecodable: %v", err)
				}
				ta.storage[string(sit.Key)] = common.CopyBytes(content)
			}
			if sit.Err != nil {
				return nil, sit.Err
			}
		}
		out[string(it.Key)] = ta
	}
	return out, it.Err
}

func trieTotal(t map[string]*trieAcct) *big.Int {
	s := new(big.Int)
	for _, a := range t {
		s.Add(s, a.bal)
	}
	return s
}

func compareTrie(t map[string]*trieAcct, m *model.C16State) []string {
	var d []string
	want := map[string]model.C16Addr{}
	for a := range m.Accts {
		want[string(model.Keccak256(a[:]))] = a
	}
	for k := range t {
		if _, ok := want[k]; !ok {
			d = append(d, fmt.Sprintf("trie-account(hash %x): in the account trie (nonce %d balance %v, %d slots), reference has none", []byte(k)[:6], t[k].nonce, t[k].bal, len(t[k].storage)))
		}
	}
	for k, a := range want {
		ac := m.Accts[a]
		ta := t[k]
		if ta == nil {
			d = append(d, fmt.Sprintf("trie-account(%x): missing from the account trie, reference has nonce %d balance %d", a[:], ac.Nonce, ac.Bal))
			continue
		}
		if ta.nonce != ac.Nonce {
			d = append(d, fmt.Sprintf("trie-nonce(%x): real %d, reference %d", a[:], ta.nonce, ac.Nonce))
		}
		if !ta.bal.IsUint64() || ta.bal.Uint64() != ac.Bal {
			d = append(d, fmt.Sprintf("trie-balance(%x): real %v, reference %d", a[:], ta.bal, ac.Bal))
		}
		if !bytes.Equal(ta.codeHash, model.Keccak256(ac.Code)) || !bytes.Equal(ta.code, ac.Code) {
			d = append(d, fmt.Sprintf("code(%x): trie has hash %x (%d bytes), reference %d bytes", a[:], ta.codeHash, len(ta.code), len(ac.Code)))
		}
		ws := map[string]model.C16Word{}
		for s, w := range ac.Storage {
			sw := model.C16WordOf(s)
			ws[string(model.Keccak256(sw[:]))] = w
		}
		for sk, v := range ta.storage {
			w, ok := ws[sk]
			var got model.C16Word
			copy(got[32-len(v):], v)
			if !ok || got != w {
				d = append(d, fmt.Sprintf("trie-storage(%x)[hash %x]: real %s, reference %s", a[:], []byte(sk)[:4], wordHex(got), wordHex(w)))
			}
		}
		for sk, w := range ws {
			if _, ok := ta.storage[sk]; !ok {
				d = append(d, fmt.Sprintf("trie-storage(%x)[hash %x]: real 0x0, reference %s", a[:], []byte(sk)[:4], wordHex(w)))
			}
		}
	}
	sort.Strings(d)
	return d
}
