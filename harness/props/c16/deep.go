package c16

import (
	"fmt"
	"math/big"

	"verif/kit"
	"verif/mon"

	"github.com/youchainhq/go-youchain/common"
	"github.com/youchainhq/go-youchain/core"
	"github.com/youchainhq/go-youchain/core/state"
	"github.com/youchainhq/go-youchain/core/vm"
	"github.com/youchainhq/go-youchain/params"
	"github.com/youchainhq/go-youchain/youdb"
)

// Deep recursion: one contract that increments slot 0, calls ITSELF with all available gas, then
// increments slot 1. The recursion ends at the call-depth limit (Yellow Paper: 1024 nested calls
// below the transaction's frame, i.e. 1025 frames) or at level K where the frame reverts / halts
// exceptionally. The expected outcome has a closed form:
//
//	ignore-result:  frames 1..F-1 survive, F = first failing level  ->  slot0 = slot1 = F-1
//	                (no failing level: all 1025 frames survive, the 1026th is refused: 1025/1025)
//	require-ok:     every failure propagates to the top: the top-level frame fails, state untouched
//	STATICCALL:     level 2 runs read-only and halts at its SSTORE: F = 2
//
// The tracer's gas monitors run over the whole 1025-deep stack ("at any depth").
const depthFrames = 1025

func deepCode(op byte, value byte, k int, require bool, failInvalid bool) []byte {
	var b []byte
	emit := func(x ...byte) { b = append(b, x...) }
	emit(0x60, 0, 0x54, 0x60, 1, 0x01, 0x80, 0x60, 0, 0x55) // c = SLOAD(0)+1; SSTORE(0,c); stack: c
	emit(0x61, byte(k>>8), byte(k), 0x14)                   // c == K
	failFix := len(b) + 1
	emit(0x61, 0, 0, 0x57)                   // JUMPI fail
	emit(0x60, 0, 0x60, 0, 0x60, 0, 0x60, 0) // retSize retOff inSize inOff
	if op == 0xf1 || op == 0xf2 {
		emit(0x60, value)
	}
	emit(0x30, 0x5a, op) // ADDRESS GAS <call>
	if require {
		okFix := len(b) + 1
		emit(0x61, 0, 0, 0x57, 0x60, 0, 0x60, 0, 0xfd)
		b[okFix], b[okFix+1] = byte(len(b)>>8), byte(len(b))
		emit(0x5b)
	} else {
		emit(0x50)
	}
	emit(0x60, 1, 0x54, 0x60, 1, 0x01, 0x60, 1, 0x55, 0x00) // slot1++ ; STOP
	b[failFix], b[failFix+1] = byte(len(b)>>8), byte(len(b))
	emit(0x5b)
	if failInvalid {
		emit(0xfe)
	} else {
		emit(0x60, 0, 0x60, 0, 0xfd)
	}
	return b
}

func runDeep(c *kit.Ctx, id string) {
	r := c.Rand(id)
	ops := []byte{0xf1, 0xf2, 0xf4, 0xfa}
	opNames := []string{"CALL", "CALLCODE", "DELEGATECALL", "STATICCALL"}
	oi := pick(r, 40, 20, 20, 20)
	ks := []int{0, 2, 3, 64, 512, 1023, 1024, 1025, 1026, 2 + r.Intn(1023)}
	k := ks[r.Intn(len(ks))]
	require := r.Intn(3) == 0
	failInvalid := r.Intn(2) == 0
	value := byte(0)
	if oi < 2 && r.Intn(2) == 0 {
		value = 1
	}
	gas := uint64(1) << uint(58+r.Intn(5))
	in := map[string]interface{}{"op": opNames[oi], "fail_at_level": k, "require_ok": require, "fail_with_invalid": failInvalid, "value": value, "gas": gas}
	c.Begin(id, in)
	code := deepCode(ops[oi], value, k, require, failInvalid)
	in["code"] = fmt.Sprintf("%x", code)

	db := state.NewDatabase(youdb.NewMemDatabase())
	st, err := state.New(common.Hash{}, common.Hash{}, common.Hash{}, db)
	if err != nil {
		c.EndInconclusive(err.Error())
		return
	}
	self := ca(hostAddr(0))
	origin := ca(originAddr)
	st.SetCode(self, code)
	st.SetNonce(self, 1)
	st.AddBalance(self, big.NewInt(5000))
	st.AddBalance(origin, big.NewInt(1000000))
	st.Commit(true)

	// closed-form expectation
	first := depthFrames + 1 // first level that does not survive
	if k >= 1 && k <= depthFrames {
		first = k
	}
	if ops[oi] == 0xfa && first > 2 {
		first = 2
	}
	wantOK := true
	want := uint64(first - 1)
	if require {
		// a failure anywhere (a failing level, or the refused 1026th frame) unwinds everything
		wantOK = false
		want = 0
	}
	if first == 1 {
		wantOK = false
		want = 0
	}

	univ := []common.Address{self, origin}
	mu := &mon.Universe{Addrs: univ, Slots: []common.Hash{slotHash(0), slotHash(1)}}
	before := mon.Merge(mon.Live(st, mu, mon.Opts{}), mon.Flushed(st))
	sumBefore := sumBalances(st, univ)
	tr := newTracer(st, univ, false)
	yp := params.Versions[params.YouCurrentVersion]
	cfg := core.CombineVMConfig(&yp, vm.LocalConfig{Debug: true, Tracer: tr})
	ctx := vm.Context{CanTransfer: core.CanTransfer, Transfer: core.Transfer, GetHash: func(uint64) common.Hash { return common.Hash{} },
		Origin: origin, GasPrice: new(big.Int), GasLimit: gas, BlockNumber: big.NewInt(7), Time: big.NewInt(1600000000)}
	evm := vm.NewEVM(ctx, st, cfg)
	var left uint64
	var cerr error
	if pan := kit.Guard(func() { _, left, cerr = evm.Call(vm.AccountRef(origin), self, nil, gas, new(big.Int)) }); pan != nil {
		c.Violation("evm-panic", fmt.Sprintf("deep recursion: %v", pan), in)
		c.End("")
		return
	}
	tr.finish(cerr == nil)
	c.Evals(tr.checks + 3)
	c.Count("deep_recursion_runs", 1)
	c.Count("deep_frames_entered", tr.cnt["frames_entered"])
	c.Max("max_deep_recursion_depth_observed", int64(tr.maxDepth))
	// the depth limit itself is not this property's subject: the refused frame is the one after the
	// deepest frame the tracer saw
	if dobs := tr.maxDepth; !(k >= 1 && k <= dobs) && ops[oi] != 0xfa && dobs >= 2 {
		first = dobs + 1
		want = uint64(first - 1)
		if require {
			want = 0
		}
		if dobs == depthFrames {
			c.Count("deep_depth_limit_1025_frames_observed", 1)
		}
	}
	switch {
	case left > gas:
		c.Violation("leftover-gas-exceeds-supplied", fmt.Sprintf("deep recursion: supplied %d, left %d", gas, left), in)
	case len(tr.viol) > 0:
		c.Violation(tr.viol[0].class, "deep recursion: "+tr.viol[0].msg, in)
	case (cerr == nil) != wantOK:
		c.Violation("frame-outcome-mismatch", fmt.Sprintf("deep recursion: err=%v, expected success=%v", cerr, wantOK), in)
	case cerr != nil:
		after := mon.Merge(mon.Live(st, mu, mon.Opts{}), mon.Flushed(st))
		if d := mon.Diff(before, after); len(d) > 0 {
			c.Violation("failed-toplevel-frame-left-trace", fmt.Sprintf("deep recursion: top-level frame failed (%v) but the digest changed: %s", cerr, firstN(d, 4)), in)
		}
		c.Count("deep_unwound_completely", 1)
	default:
		s0 := new(big.Int).SetBytes(st.GetState(self, slotHash(0)).Bytes())
		s1 := new(big.Int).SetBytes(st.GetState(self, slotHash(1)).Bytes())
		if !s0.IsUint64() || !s1.IsUint64() || s0.Uint64() != want || s1.Uint64() != want {
			cl := "failed-frame-effect-survived:storage"
			if s0.IsUint64() && s0.Uint64() < want {
				cl = "state-mismatch:storage"
			}
			c.Violation(cl, fmt.Sprintf("deep recursion: frames counted %v (before the call) / %v (after it), expected %d/%d: the first level that must not survive is %d", s0, s1, want, want, first), in)
		} else if sumBalances(st, univ).Cmp(sumBefore) != 0 {
			c.Violation("total-balance-changed", "deep recursion", in)
		}
		if first > tr.maxDepth {
			c.Count("deep_depth_limit_reached_all_frames_survive", 1)
		}
	}
	c.End(fmt.Sprintf("deep %s k%d req%v inv%v v%d", opNames[oi], bucket(k), require, failInvalid, value))
}

func bucket(k int) int {
	switch {
	case k <= 3 || k >= 1023:
		return k
	case k < 100:
		return 50
	}
	return 500
}
