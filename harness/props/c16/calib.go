package c16

import (
	"fmt"
	"math/big"

	"verif/kit"
	"verif/model"

	"github.com/youchainhq/go-youchain/common"
	"github.com/youchainhq/go-youchain/core"
	"github.com/youchainhq/go-youchain/core/state"
	"github.com/youchainhq/go-youchain/core/vm"
	"github.com/youchainhq/go-youchain/params"
	"github.com/youchainhq/go-youchain/youdb"
)

// Sizing gas to the code-deposit boundary.
//
// The reference does not model gas, and a creation frame fails at its code deposit only inside a
// window of 200*len(code) gas. The generator therefore marks one creation frame of a transaction
// (model.C16Calib) and the harness sizes the knob - the transaction's gas, or the explicit gas
// constant of the CALL entering the creator - by DRY RUNS of the implementation on a scratch copy
// of the state: binary search for the least knob value at which the creation succeeds, then knob =
// threshold - delta. Only the choice of the INPUT comes from the implementation; the verdict the
// reference works with (delta > 0: the frame fails, everything undone) is confirmed against the
// tracer's observation when the transaction is really executed, and a disagreement abandons the
// program instead of judging it.

var bhashC16 = common.BytesToHash([]byte("c16-block"))

func txHash(ti int) common.Hash { return common.BytesToHash([]byte(fmt.Sprintf("c16-tx-%d", ti))) }

// execTx runs transaction ti of p on st (st.Prepare included).
func execTx(st *state.StateDB, p *model.C16Program, tx *model.C16Tx, ti int, tr vm.Tracer) (left uint64, created common.Address, err error) {
	thash := txHash(ti)
	st.Prepare(thash, bhashC16, ti)
	yp := params.Versions[params.YouCurrentVersion]
	lc := vm.LocalConfig{}
	if tr != nil {
		lc = vm.LocalConfig{Debug: true, Tracer: tr}
	}
	cfg := core.CombineVMConfig(&yp, lc)
	ctx := vm.Context{
		CanTransfer: core.CanTransfer, Transfer: core.Transfer,
		GetHash:  func(n uint64) common.Hash { return common.BytesToHash([]byte{byte(n)}) },
		Origin:   ca(p.Origin),
		GasPrice: new(big.Int), TxHash: thash,
		Coinbase: common.HexToAddress("0xc16c000000000000000000000000000000000001"), GasLimit: tx.Gas,
		BlockNumber: big.NewInt(int64(10 + ti)), Time: big.NewInt(1600000000),
	}
	evm := vm.NewEVM(ctx, st, cfg)
	value := new(big.Int).SetUint64(tx.Value)
	switch {
	case tx.Direct != nil:
		_, left, err = evm.Call(vm.AccountRef(ca(p.Origin)), ca(tx.Direct.Addr), tx.Direct.CallData(), tx.Gas, value)
	case tx.Create:
		_, created, left, err = evm.Create(vm.AccountRef(ca(p.Origin)), tx.Root.InitCode, tx.Gas, value)
	default:
		var input [32]byte
		input[30], input[31] = byte(tx.Root.Dest>>8), byte(tx.Root.Dest)
		_, left, err = evm.Call(vm.AccountRef(ca(p.Origin)), ca(p.Hosts[tx.Root.Host]), input[:], tx.Gas, value)
	}
	return
}

func applyPre(st *state.StateDB, p *model.C16Program, pre []preAcct) {
	for _, a := range pre {
		ad := ca(a.Addr)
		st.AddBalance(ad, new(big.Int).SetUint64(a.Bal))
		st.SetNonce(ad, a.Nonce)
		if a.Host >= 0 {
			st.SetCode(ad, p.HostCode[a.Host])
		}
		for k, v := range a.Storage {
			st.SetState(ad, slotHash(k), common.Hash(model.C16WordOf(v)))
		}
	}
}

const calibHi = 4000000

type calibProbe struct {
	created, ctorReturned, creatorOK, valid bool
}

// calibrate sizes the knobs of the calibrated transactions of p. It returns the value of a panic of
// the implementation, if any.
func calibrate(c *kit.Ctx, p *model.C16Program, pre []preAcct, modes []int) (pan interface{}) {
	any := false
	for _, tx := range p.Txs {
		if tx.Calib != nil {
			any = true
		}
	}
	if !any {
		return nil
	}
	db := state.NewDatabase(youdb.NewMemDatabase())
	st, err := state.New(common.Hash{}, common.Hash{}, common.Hash{}, db)
	if err != nil {
		return nil
	}
	giveUp := func(tx *model.C16Tx, why string) {
		tx.Calib.GaveUp = why
		tx.Boundary, tx.BoundaryFails, tx.CreatorDies = nil, false, false
		if k := tx.Calib.Knob; k != nil {
			// (same operand width: the layout of the host code stays as it is)
			k.GasMode, k.GasConst = model.C16GConst, calibHi
		} else {
			tx.Gas = uint64(1) << 50
		}
		c.Count("calibration_gave_up_"+why, 1)
	}
	pan = kit.Guard(func() {
		applyPre(st, p, pre)
		if _, _, _, err := st.Commit(true); err != nil {
			return
		}
		dead := false
		for ti, tx := range p.Txs {
			if tx.Calib != nil {
				if dead {
					giveUp(tx, "state_commit_error")
				} else if why := tune(st, p, tx, ti); why != "" {
					giveUp(tx, why)
				} else {
					c.Count("calibration_done", 1)
				}
				if tx.Calib.Knob != nil {
					// the knob is an operand in a host's code
					if err := model.C16Compile(p); err != nil {
						dead = true
					}
					syncHostCode(st, p)
				}
			}
			if dead {
				continue
			}
			execTx(st, p, tx, ti, nil)
			// the same finalisation as in the real run (it decides what the next transaction's SSTOREs cost)
			switch modes[ti] {
			case 0:
				st.Finalise(true)
			case 1:
				st.IntermediateRoot(true)
			case 2:
				if _, _, _, err := st.Commit(true); err != nil {
					dead = true
				}
			case 3:
				root, vroot, sroot, err := st.Commit(true)
				if err == nil {
					st, err = state.New(root, vroot, sroot, db)
				}
				if err != nil {
					dead = true
				}
			}
		}
	})
	return pan
}

// syncHostCode installs recompiled host code on accounts that still carry host code.
func syncHostCode(st *state.StateDB, p *model.C16Program) {
	for i, h := range p.Hosts {
		if cur := st.GetCode(ca(h)); len(cur) > 0 && len(cur) == len(p.HostCode[i]) && string(cur) != string(p.HostCode[i]) {
			st.SetCode(ca(h), p.HostCode[i])
		}
	}
}

// tune finds the threshold of tx's knob by dry runs on copies of st and sets the knob. It returns the
// reason when it cannot.
func tune(st *state.StateDB, p *model.C16Program, tx *model.C16Tx, ti int) string {
	cal := tx.Calib
	b := tx.Boundary
	if b == nil || b.Stub == nil || b.Term != model.C16TReturn {
		return "no_boundary_frame"
	}
	top := tx.Create && tx.Root == b
	set := func(g uint64) bool {
		if cal.Knob != nil {
			cal.Knob.GasMode, cal.Knob.GasConst = model.C16GConst, g
			return model.C16Compile(p) == nil
		}
		tx.Gas = g
		return true
	}
	probes := 0
	probe := func(g uint64) (r calibProbe) {
		probes++
		if !set(g) {
			return
		}
		cp := st.Copy()
		if cal.Knob != nil {
			syncHostCode(cp, p)
		}
		tr := newTracer(cp, nil, false)
		if !top {
			tr.watchInit = b.InitCode
		}
		_, _, err := execTx(cp, p, tx, ti, tr)
		tr.finish(err == nil)
		if top {
			return calibProbe{created: err == nil, ctorReturned: tr.topCtorReturned, creatorOK: true, valid: true}
		}
		if len(tr.watch) != 1 {
			return
		}
		ev := tr.watch[0]
		return calibProbe{created: ev.ok, ctorReturned: ev.ctorReturned, creatorOK: ev.creatorOK, valid: true}
	}
	if r := probe(calibHi); !r.valid || !r.created {
		return "creation_never_succeeds"
	}
	lo, hi := uint64(0), uint64(calibHi) // created(hi), not created(lo)
	if r := probe(1); r.valid && r.created {
		return "creation_succeeds_without_gas"
	}
	lo = 1
	for hi-lo > 1 {
		mid := lo + (hi-lo)/2
		if r := probe(mid); r.valid && r.created {
			hi = mid
		} else {
			lo = mid
		}
	}
	cal.Threshold = hi
	d := int64(200 * len(model.C16StubCode(b.Stub)))
	for _, choice := range []int{cal.Choice, 2, 0} {
		delta := model.C16DeltaOf(choice, d)
		if int64(hi)-delta < 1 {
			continue
		}
		g := uint64(int64(hi) - delta)
		r := probe(g)
		// the targeted situation: the creation succeeds (delta <= 0) or fails AFTER its constructor ended
		// normally (delta > 0). Whether the frame that issued it can go on with what it has left (all but
		// nothing after a CREATE, which forwards all gas here; 1/64 after a CREATE2) is taken from the dry
		// run as well
		if r.valid && r.created == (delta <= 0) && (r.created || r.ctorReturned) {
			cal.Delta, cal.Done = delta, true
			tx.BoundaryFails, tx.CreatorDies = !r.created, !r.creatorOK
			return ""
		}
	}
	return "boundary_not_reproducible"
}
