//go:build VERIFY_EVM_INTEGER_POOL
// +build VERIFY_EVM_INTEGER_POOL

package c16

// poolSanitizer: build tags are global to a build, so when this package sees the tag, core/vm was
// compiled with verifyPool = true (int_pool_verifier.go).
const poolSanitizer = true
