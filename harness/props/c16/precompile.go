package c16

import (
	"bytes"
	"encoding/hex"
	"fmt"
	"math/rand"
	"sync"

	"verif/model"

	"github.com/youchainhq/go-youchain/common"
	"github.com/youchainhq/go-youchain/core/vm"
)

// Native contracts 0x01..0x08 as call targets.
//
// The property is about frame atomicity, value conservation and gas, not about the cryptography:
// the reference semantics (model/c16_sim.go) takes the PRICE of a native contract for an input and
// its FUNCTION VALUE (output, or "input rejected") from the repository's exported pure functions
// vm.PrecompiledContractsByzantium[a].RequiredGas / .Run, installed here. Everything that makes a
// call to such an address a FRAME - stipend, success iff the gas covers the price and the input is
// accepted, value stays on success, value transfer and account creation undone and all gas gone on
// failure, output visible to the caller only on success - is the reference's own.

var (
	pcMu    sync.Mutex
	pcCache = map[string]pcResult{}
)

type pcResult struct {
	out []byte
	ok  bool
}

func pcContract(n int) vm.PrecompiledContract {
	return vm.PrecompiledContractsByzantium[common.BytesToAddress([]byte{byte(n)})]
}

func init() {
	model.C16PrecompileGas = func(n int, input []byte) uint64 {
		return pcContract(n).RequiredGas(append([]byte(nil), input...))
	}
	model.C16PrecompileRun = func(n int, input []byte) ([]byte, bool) {
		// the curve operations cost up to milliseconds and the same inputs recur (two reference runs per
		// program, retried generations): memoise them
		key := ""
		if n == 1 || n >= 5 {
			key = string([]byte{byte(n)}) + string(input)
			pcMu.Lock()
			r, hit := pcCache[key]
			pcMu.Unlock()
			if hit {
				return append([]byte(nil), r.out...), r.ok
			}
		}
		out, err := pcContract(n).Run(append([]byte(nil), input...))
		out = append([]byte(nil), out...)
		if key != "" {
			pcMu.Lock()
			if len(pcCache) > 4096 {
				pcCache = map[string]pcResult{}
			}
			pcCache[key] = pcResult{out, err == nil}
			pcMu.Unlock()
		}
		return out, err == nil
	}
}

func unhex(s string) []byte {
	b, err := hex.DecodeString(s)
	if err != nil {
		panic(err)
	}
	return b
}

func word(v uint64) []byte {
	w := model.C16WordOf(v)
	return w[:]
}

func cat(parts ...[]byte) []byte {
	var out []byte
	for _, p := range parts {
		out = append(out, p...)
	}
	return out
}

var (
	// a valid ecrecover input (hash, v=27, r, s)
	ecrecValid = unhex("38d18acb67d25c8bb9942764b62f18e17054f66a817bd4295423adf9ed98873e000000000000000000000000000000000000000000000000000000000000001b38d18acb67d25c8bb9942764b62f18e17054f66a817bd4295423adf9ed98873e789d1dd423d25f0772d2748d60f7e4b81bb14d086eba8e8e8efb6dcff8a4ae02")
	// alt_bn128: generator of G1, its negative, the point at infinity, the generator of G2 (EIP-197 encoding)
	bnG1    = cat(word(1), word(2))
	bnG1neg = cat(word(1), unhex("30644e72e131a029b85045b68181585d97816a916871ca8d3c208c16d87cfd45"))
	bnInf   = make([]byte, 64)
	bnG2    = unhex("198e9393920d483a7260bfb731fb5d25f1aa493335a9e71297e485b7aef312c21800deef121f1e76426a00665e5c4479674322d4f75edadd46debd5cd992f6ed090689d0585ff075ec9e99ad690c3395bc4b313370b38ef355acdadcd122975b12c85ea5db8c6deb4aab71808dcb408fe3d1e7690c43d37b4ce6cc0166fa7daa")
	// not on the curve / not in the field
	bnOff1  = cat(word(1), word(1))
	bnOff2  = cat(word(1), word(3))
	bnOffFF = bytes.Repeat([]byte{0xff}, 64)
	bnBadG2 = bytes.Repeat([]byte{0x01}, 128)
	ff32    = bytes.Repeat([]byte{0xff}, 32)
)

func randBytes(r *rand.Rand, n int) []byte {
	b := make([]byte, n)
	r.Read(b)
	return b
}

// precompileInput picks call data for native contract n: the bytes to copy into the staging area
// and the number of bytes of that area to pass (longer: padded with what the area holds, i.e. zeroes
// or the tail of an earlier, longer input of the same frame; shorter: truncated).
func precompileInput(r *rand.Rand, n int) (data []byte, insize int) {
	type in struct {
		d    []byte
		size int // -1: len(d)
	}
	var menu []in
	add := func(d []byte, size int) { menu = append(menu, in{d, size}) }
	switch n {
	case 1:
		add(ecrecValid, -1)
		add(ecrecValid, -1)
		bad := append([]byte(nil), ecrecValid...)
		bad[63] = 29 // no such recovery id: accepted, empty output
		add(bad, -1)
		add(nil, 0)
		add(randBytes(r, 128), -1)
		add(ecrecValid[:100], -1)
		add(ecrecValid, 160)
	case 2, 3, 4:
		add(nil, 0)
		add([]byte("abc"), -1)
		add(randBytes(r, 1+r.Intn(100)), -1)
		add(randBytes(r, 32), 64)
		add(randBytes(r, 64), 31)
		// zero-filled inputs so long that the price exceeds the 2300 stipend: 12, 120, 3 gas per word on top of 60, 600, 15
		big := map[int]int{2: 187 * 32, 3: 15 * 32, 4: 762 * 32}[n]
		add(nil, big-31)
		add(nil, big-32) // one word less: the stipend alone just pays for it
		add(randBytes(r, 8), big+r.Intn(512))
	case 5:
		me := func(bl, el, ml uint64, rest ...[]byte) []byte {
			return cat(append([][]byte{word(bl), word(el), word(ml)}, rest...)...)
		}
		add(me(1, 1, 1, []byte{3}, []byte{5}, []byte{7}), -1)                        // 3^5 mod 7, price 0
		add(me(32, 32, 32, randBytes(r, 32), ff32, append(randBytes(r, 31), 1)), -1) // price 13056
		add(me(64, 64, 64, randBytes(r, 64), cat(ff32, ff32), randBytes(r, 64)), -1) // price 104652
		add(me(0, 0, 0), -1)
		add(me(1, 0, 1, []byte{5}, []byte{3}), -1)
		add(me(2, 2, 2, []byte{1, 0}, []byte{1, 1}, []byte{0, 0}), -1) // modulus zero
		add(me(32, 32, 32, randBytes(r, 32), ff32), -1)                // modulus missing: read as zero
		add(me(32, 32, 32)[:40], -1)
		add(nil, 0)
	case 6:
		add(nil, 0) // infinity + infinity
		add(cat(bnG1, bnG1), -1)
		add(cat(bnG1, bnInf), -1)
		add(cat(bnG1, bnG1neg), -1)
		add(bnG1, -1) // second operand missing: read as infinity
		add(cat(bnG1, bnG1), 200)
		add(cat(bnOff1, bnG1), -1)
		add(cat(bnG1, bnOff2), -1)
		add(cat(bnOffFF, bnOffFF), -1)
		add(cat(bnG1, bnG1)[:100], -1) // truncated second operand: not on the curve
		add(randBytes(r, 128), -1)
	case 7:
		add(cat(bnG1, word(2)), -1)
		add(cat(bnG1, word(0)), -1)
		add(cat(bnG1, ff32), -1)
		add(cat(bnInf, word(5)), -1)
		add(bnG1, -1) // scalar missing: zero
		add(nil, 0)
		add(cat(bnOff2, word(2)), -1)
		add(cat(bnOffFF, word(1)), -1)
		add(randBytes(r, 96), -1)
	case 8:
		add(nil, 0) // the empty product is one
		add(nil, 0)
		add(cat(bnG1, bnG2), -1)                // one pair: not one
		add(cat(bnG1, bnG2, bnG1neg, bnG2), -1) // e(P,Q)e(-P,Q) = 1
		add(cat(bnInf, bnG2), -1)
		add(cat(bnG1, bnG2)[:191], -1) // malformed length
		add(cat(bnG1, bnG2), 193)
		add([]byte{1}, -1)
		add(bnG1, -1)
		add(cat(bnOff1, bnG2), -1)
		add(cat(bnG1, bnBadG2), -1)
		add(cat(bnG1, bnG2, bnOffFF, bnG2), -1)
		add(randBytes(r, 192), -1)
	}
	c := menu[r.Intn(len(menu))]
	if c.size < 0 {
		c.size = len(c.d)
	}
	return c.d, c.size
}

// precompileGasMenu: explicit allotments around the price of the call (exactly the price, one less,
// the price less the 2300 stipend and one below that), next to the generic constants.
func precompileGasMenu(r *rand.Rand, n int, data []byte, insize int) uint64 {
	in := make([]byte, insize)
	copy(in, data)
	need := model.C16PrecompileGas(n, in)
	if need > 400000 {
		need = 400000
	}
	sub := func(a, b uint64) uint64 {
		if a < b {
			return 0
		}
		return a - b
	}
	menu := []uint64{1, 2, sub(need, 1), need, need + 1, sub(need, 2300), sub(need, 2301), sub(need, 2299), need / 2, 2 * need, 100, 699, 700, 2299, 2300, need + 2300, 50000}
	g := menu[r.Intn(len(menu))]
	if g == 0 {
		// what a zero gas operand is served with is the implementation's business (go-youchain: 2300)
		g = 1
	}
	return g
}

// precompileSelfCheck: the installed functions behave like native contracts at all (published vectors),
// and the inputs the generator means to be acceptable / unacceptable are.
func precompileSelfCheck() string {
	type tc struct {
		n    int
		in   []byte
		gas  uint64
		ok   bool
		out  string // hex; "-" = do not compare
		what string
	}
	e := ""
	for _, t := range []tc{
		{1, ecrecValid, 3000, true, "000000000000000000000000ceaccac640adf55b2028469bd36ba501f28b699d", "ecrecover vector"},
		{2, nil, 60, true, "e3b0c44298fc1c149afbf4c8996fb92427ae41e4649b934ca495991b7852b855", "sha256 of the empty string"},
		{3, nil, 600, true, "0000000000000000000000009c1185a5c5e9fc54612808977ee8f548b2258d31", "ripemd160 of the empty string"},
		{4, []byte("abc"), 18, true, "616263", "identity"},
		{5, cat(word(1), word(1), word(1), []byte{3, 5, 7}), 0, true, "05", "3^5 mod 7"},
		{6, cat(bnG1, bnInf), 500, true, hex.EncodeToString(bnG1), "G + 0"},
		{6, cat(bnG1, bnG1neg), 500, true, hex.EncodeToString(bnInf), "G - G"},
		{6, cat(bnOff1, bnG1), 500, false, "-", "bn256Add off-curve point"},
		{7, cat(bnG1, word(1)), 40000, true, hex.EncodeToString(bnG1), "1 * G"},
		{7, cat(bnOff2, word(1)), 40000, false, "-", "bn256ScalarMul off-curve point"},
		{8, nil, 100000, true, hex.EncodeToString(word(1)), "empty pairing"},
		{8, cat(bnG1, bnG2, bnG1neg, bnG2), 260000, true, hex.EncodeToString(word(1)), "e(G1,G2)e(-G1,G2)"},
		{8, cat(bnG1, bnG2), 180000, true, hex.EncodeToString(word(0)), "e(G1,G2)"},
		{8, cat(bnG1, bnG2)[:191], 100000, false, "-", "pairing input of 191 bytes"},
		{8, cat(bnG1, bnBadG2), 180000, false, "-", "pairing with a G2 point off the curve"},
	} {
		if g := model.C16PrecompileGas(t.n, t.in); g != t.gas {
			e = fmt.Sprintf("%s: price %d, expected %d", t.what, g, t.gas)
			break
		}
		out, ok := model.C16PrecompileRun(t.n, t.in)
		if ok != t.ok || (t.ok && t.out != "-" && hex.EncodeToString(out) != t.out) {
			e = fmt.Sprintf("%s: accepted=%v output %x, expected accepted=%v output %s", t.what, ok, out, t.ok, t.out)
			break
		}
	}
	return e
}
