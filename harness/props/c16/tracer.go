package c16

import (
	"bytes"
	"fmt"
	"math/big"
	"strings"
	"time"

	"verif/model"

	"github.com/youchainhq/go-youchain/common"
	"github.com/youchainhq/go-youchain/core/state"
	"github.com/youchainhq/go-youchain/core/vm"
)

// tracer is the monitor fed by the interpreter's own vm.Tracer hook (one event per executed
// instruction). It checks, without any model:
//   - gas never grows from one step of a frame to the next (other than by what a child returns),
//     a child never returns more than it was last seen to own, a caller never has more gas after
//     a CALL-family instruction than before it;
//   - nothing observable changes between a STATICCALL instruction and the next step of the frame
//     that issued it;
//   - (programs under intrusive observation) a CALL/CALLCODE/DELEGATECALL/STATICCALL that pushes 0
//     leaves the caller's balance and the callee's account (existence, balance, nonce, code size)
//     as they were at the instruction - whatever the callee is: a contract, a native contract that
//     ran out of gas or rejected its input, an absent or code-less account that was never entered;
//   - a call that started no frame the tracer could see (native contract, code-less callee, refused
//     call) never hands back more than the gas operand plus the 2300 stipend of a value-bearing call;
//
// and it reconstructs the frame tree (which frames ended in an error or revert) to count the
// effects that had to be undone and to sum the value burnt by SELFDESTRUCT-to-self in frames
// that survived.
type frameRec struct {
	firstGas, lastGas, lastCost uint64
	lastOp                      vm.OpCode
	seen                        bool
	static                      bool
	entered                     vm.OpCode // instruction of the parent that started this frame (0 at top level)
	// what this frame (and its surviving descendants) did
	sstores, logs, xfers, creates, suicides, writebacks int
	selfBurn                                            *big.Int
	// the child that ran during the last call-family instruction
	child                            *childEnd
	wantCreated                      bool
	kidsReturned, staticKidsReturned int
	// the call-family instruction this frame executed last
	pend *pendingCall
	// the creation instruction this frame executed last
	pendCreate *pendingCreate
	watchIdx   []int // watched creations issued by this frame
	// the creation frame, child of this one, whose constructor ended normally and whose fate (code
	// deposit) is not known yet
	pendMerge *frameRec
	retSize   uint64 // size operand of the RETURN the frame executed last
	// accounts that self-destructed for the first time / once more in this frame or in its surviving
	// descendants
	firstSD, reSD map[common.Address]bool
}

// pendingCall: what was seen at a call-family instruction, to be judged at the next step of the frame.
type pendingCall struct {
	op        vm.OpCode
	caller    common.Address
	target    common.Address
	hasValue  bool
	reqGas    *big.Int // the gas operand
	observed  bool     // the fields below were read from the state
	refused   bool     // value above the caller's balance: no frame is started
	class     string
	callerBal *big.Int
	tgtBal    *big.Int
	tgtExist  bool
	tgtNonce  uint64
	tgtCode   int
}

type childEnd struct {
	firstGas uint64
	ub       uint64 // upper bound of what it can have returned
	failed   bool
	lastOp   vm.OpCode
	retSize  uint64
}

// pendingCreate: what was seen at a CREATE/CREATE2 instruction, to be judged at the next step of the frame.
type pendingCreate struct {
	op       vm.OpCode
	creator  common.Address
	watched  bool
	observed bool // the fields below were read from the state
	addr     common.Address
	creBal   *big.Int
	exist    bool
	bal      *big.Int
	nonce    uint64
	code     int
}

// createEvent: the fate of a creation whose init code is the watched one.
type createEvent struct {
	ok           bool // an address was pushed
	childSeen    bool // the constructor ran
	ctorReturned bool // the constructor ended normally (a failure can then only come from the code deposit)
	creatorOK    bool // the frame that issued the creation ended normally
}

type tviol struct {
	class, msg string
	diffs      []string
}

type tracer struct {
	st      *state.StateDB
	addrs   []common.Address
	observe bool
	stack   []*frameRec
	viol    []tviol
	cnt     map[string]int
	feats   map[string]bool
	extra   map[common.Address]bool
	// callees of value-bearing CALLs that pushed 0 (read off the stack, no state access)
	failedValueCalls map[common.Address]int
	// creations with this init code are reported in watch (used to size gas and to confirm the verdict)
	watchInit []byte
	watch     []createEvent
	// top-level creation: the constructor ended normally (set by finish)
	topCtorReturned bool
	maxDepth        int
	checks          int
	selfBurn        *big.Int

	staticDepth  int
	staticDigest map[string]string
}

func newTracer(st *state.StateDB, addrs []common.Address, observe bool) *tracer {
	return &tracer{st: st, addrs: addrs, observe: observe, cnt: map[string]int{}, feats: map[string]bool{}, extra: map[common.Address]bool{}, failedValueCalls: map[common.Address]int{}, selfBurn: new(big.Int)}
}

func (t *tracer) CaptureStart(from common.Address, to common.Address, call bool, input []byte, gas uint64, value *big.Int) error {
	return nil
}
func (t *tracer) CaptureEnd(output []byte, gasUsed uint64, d time.Duration, err error) error {
	return nil
}

func (t *tracer) violation(class, msg string, diffs []string) {
	if len(t.viol) < 4 {
		t.viol = append(t.viol, tviol{class, msg, diffs})
	}
}

func isCallOp(op vm.OpCode) bool {
	return op == vm.CALL || op == vm.CALLCODE || op == vm.DELEGATECALL || op == vm.STATICCALL
}
func isCreateOp(op vm.OpCode) bool { return op == vm.CREATE || op == vm.CREATE2 }

func errClass(err error) string {
	s := err.Error()
	switch {
	case s == "evm: execution reverted":
		return "revert"
	case s == "evm: write protection":
		return "write-protection"
	case s == "out of gas" || strings.HasPrefix(s, "gas uint64 overflow") || strings.HasPrefix(s, "not enough gas"):
		return "out-of-gas"
	case strings.HasPrefix(s, "invalid opcode"):
		return "invalid-opcode"
	case strings.HasPrefix(s, "stack underflow"):
		return "stack-underflow"
	case strings.HasPrefix(s, "invalid jump"):
		return "bad-jump"
	}
	return "other"
}

// liveDigest: everything a static call must leave alone.
func (t *tracer) liveDigest() map[string]string {
	d := map[string]string{}
	for _, a := range t.addrs {
		k := fmt.Sprintf("%x/", a[:])
		d[k+"balance"] = t.st.GetBalance(a).String()
		d[k+"nonce"] = fmt.Sprint(t.st.GetNonce(a))
		d[k+"selfdestructed"] = fmt.Sprint(t.st.HasSuicided(a))
		// an empty account is equivalent to an absent one (EIP-161): existence and the code hash (zero for
		// an absent account, keccak("") for an empty one) are compared for non-empty accounts only; the
		// raw existence bit is kept under a "~" key that is reported as information, not judged
		if !t.st.Empty(a) {
			d[k+"exists"] = fmt.Sprint(t.st.Exist(a))
			d[k+"codehash"] = fmt.Sprintf("%x", t.st.GetCodeHash(a))
		}
		d["~"+k+"exists"] = fmt.Sprint(t.st.Exist(a))
		if model.C16PrecompileIndex(ma(a)) > 0 && !t.st.Exist(a) {
			continue
		}
		for _, s := range allSlots {
			if v := t.st.GetState(a, slotHash(s)); v != (common.Hash{}) {
				d[k+fmt.Sprintf("slot%#x", s)] = fmt.Sprintf("%x", v)
			}
		}
	}
	d["logs"] = fmt.Sprint(len(t.st.Logs()))
	d["refund"] = fmt.Sprint(t.st.GetRefund())
	return d
}

func diffDigest(a, b map[string]string) []string {
	var out []string
	for k, v := range a {
		if k[0] == '~' {
			continue
		}
		if b[k] != v {
			out = append(out, fmt.Sprintf("%s: %s -> %s", k, v, b[k]))
		}
	}
	for k, v := range b {
		if _, ok := a[k]; !ok && k[0] != '~' {
			out = append(out, fmt.Sprintf("%s: <none> -> %s", k, v))
		}
	}
	return out
}

// closeFrame pops the top frame. failed: it ended in an error or revert.
func (t *tracer) closeFrame(failed bool, why string) {
	fr := t.stack[len(t.stack)-1]
	t.stack = t.stack[:len(t.stack)-1]
	if pm := fr.pendMerge; pm != nil {
		// (cannot happen: the creator always sees another step) a creation never resolved counts as survived
		fr.pendMerge = nil
		t.account(pm, false, "")
		fr.absorb(pm)
	}
	// a creation frame whose constructor ended normally can still fail (code deposit, code size): its
	// fate is known at the creator's next step (resolveCreate), at top level when the call has returned
	deferred := !failed && isCreateOp(fr.entered) && len(t.stack) > 0
	if !deferred {
		t.account(fr, failed, why)
	}
	for _, i := range fr.watchIdx {
		t.watch[i].creatorOK = !failed
	}
	ub := fr.lastGas
	if !failed || why == "revert" {
		if fr.lastCost <= fr.lastGas {
			ub = fr.lastGas - fr.lastCost
		}
	}
	if len(t.stack) > 0 {
		p := t.stack[len(t.stack)-1]
		p.child = &childEnd{firstGas: fr.firstGas, ub: ub, failed: failed, lastOp: fr.lastOp, retSize: fr.retSize}
		p.kidsReturned++
		if fr.entered == vm.STATICCALL {
			p.staticKidsReturned++
		}
		if deferred {
			p.pendMerge = fr
		} else if !failed {
			p.absorb(fr)
		}
	} else if !failed {
		t.selfBurn.Add(t.selfBurn, fr.selfBurn)
		t.cnt["surviving_sstores"] += fr.sstores
		t.cnt["surviving_logs_emitted"] += fr.logs
		t.cnt["surviving_value_transfers"] += fr.xfers
		t.cnt["surviving_creates"] += fr.creates
		t.cnt["surviving_selfdestructs"] += fr.suicides
	}
}

// absorb: what a surviving child did is now the parent's.
func (p *frameRec) absorb(fr *frameRec) {
	p.sstores += fr.sstores
	p.logs += fr.logs
	p.xfers += fr.xfers
	p.creates += fr.creates
	p.suicides += fr.suicides
	p.writebacks += fr.writebacks
	p.selfBurn.Add(p.selfBurn, fr.selfBurn)
	for a := range fr.firstSD {
		p.markSD(a, true)
	}
	for a := range fr.reSD {
		p.markSD(a, false)
	}
}

// account counts the end of a frame.
func (t *tracer) account(fr *frameRec, failed bool, why string) {
	kind := "top"
	if fr.entered != 0 {
		kind = fr.entered.String()
	}
	if failed {
		t.cnt["frames_failed"]++
		t.cnt["frames_failed_"+why]++
		t.cnt["frames_failed_entered_by_"+kind]++
		t.cnt["undone_sstores"] += fr.sstores
		t.cnt["undone_logs"] += fr.logs
		t.cnt["undone_value_transfers"] += fr.xfers
		t.cnt["undone_creates"] += fr.creates
		t.cnt["undone_selfdestructs"] += fr.suicides
		t.cnt["undone_writebacks_of_pretx_value"] += fr.writebacks
		if fr.sstores+fr.logs+fr.xfers+fr.creates+fr.suicides > 0 {
			t.cnt["frames_failed_after_effects"]++
			if isCreateOp(fr.entered) {
				t.cnt["create_frames_failed_after_effects"]++
				t.feats["create-failed-after-effects"] = true
			}
		}
		if fr.suicides > 0 {
			t.feats["selfdestruct-undone"] = true
		}
		if fr.xfers > 0 {
			t.feats["transfer-undone"] = true
		}
		if fr.writebacks > 0 {
			t.feats["writeback-undone"] = true
		}
		t.feats["fail:"+why] = true
		if fr.static {
			t.cnt["static_frames_failed"]++
		}
		for a := range fr.reSD {
			if !fr.firstSD[a] {
				// the first SELFDESTRUCT of the account lies outside this failed frame: its mark must survive
				// the undoing of the repeated one
				t.cnt["repeated_selfdestructs_undone_while_the_first_lies_outside_the_failed_frame"]++
				t.feats["repeated-selfdestruct-undone"] = true
			}
		}
	} else {
		t.cnt["frames_ended_normally"]++
		t.cnt["frames_ended_normally_entered_by_"+kind]++
		if fr.static {
			t.cnt["static_frames_ended_normally"]++
		}
	}
}

// finish is called after the top-level call returned.
func (t *tracer) finish(ok bool) {
	for len(t.stack) > 1 {
		t.closeFrame(false, "")
	}
	if len(t.stack) == 1 {
		// a top-level creation can still fail after its last instruction (code deposit)
		top := t.stack[0]
		t.topCtorReturned = true
		if !ok {
			if top.lastOp == vm.RETURN && top.retSize > 24576 {
				t.cnt["creates_failing_code_too_large"]++
			} else {
				t.cnt["creates_failing_at_code_deposit"]++
				t.cnt["toplevel_creates_failing_at_code_deposit"]++
				t.feats["create-failed-at-code-deposit"] = true
			}
		}
		t.closeFrame(!ok, "after-last-step")
	}
}

func (t *tracer) CaptureState(env *vm.EVM, pc uint64, op vm.OpCode, gas, cost uint64, memory *vm.Memory, stack *vm.Stack, contract *vm.Contract, depth int, err error) error {
	t.step(pc, op, gas, cost, memory, stack, contract, depth, err, false)
	return nil
}

func (t *tracer) CaptureFault(env *vm.EVM, pc uint64, op vm.OpCode, gas, cost uint64, memory *vm.Memory, stack *vm.Stack, contract *vm.Contract, depth int, err error) error {
	t.step(pc, op, gas, cost, memory, stack, contract, depth, err, true)
	return nil
}

func (t *tracer) step(pc uint64, op vm.OpCode, gas, cost uint64, memory *vm.Memory, stack *vm.Stack, contract *vm.Contract, depth int, err error, fault bool) {
	t.cnt["steps"]++
	// frames deeper than this event ended without an error event: normal halt
	for len(t.stack) > depth {
		t.closeFrame(false, "")
	}
	if depth > len(t.stack) {
		fr := &frameRec{firstGas: gas, selfBurn: new(big.Int)}
		if len(t.stack) > 0 {
			p := t.stack[len(t.stack)-1]
			fr.entered = p.lastOp
			fr.static = p.static || p.lastOp == vm.STATICCALL
			p.child = nil
		}
		t.stack = append(t.stack, fr)
		t.cnt["frames_entered"]++
		if fr.static {
			t.cnt["frames_entered_in_static_context"]++
		}
		if depth > t.maxDepth {
			t.maxDepth = depth
		}
		if depth >= 4 {
			t.feats["depth>=4"] = true
		}
	}
	fr := t.stack[len(t.stack)-1]
	if fault {
		// the instruction was already seen by CaptureState; this event only reports how it ended
		t.closeFrame(true, errClass(err))
		return
	}
	// ---- gas ----
	if fr.seen {
		prev, pcost := fr.lastGas, fr.lastCost
		t.checks++
		switch {
		case isCallOp(fr.lastOp):
			if gas > prev {
				t.violation("caller-gas-grew-across-call", fmt.Sprintf("depth %d: %d gas before %v, %d at the next step of the same frame", depth, prev, fr.lastOp, gas), nil)
			}
			if fr.child != nil && gas > prev-min(pcost, prev)+fr.child.ub {
				t.violation("gas-returned-exceeds-supplied", fmt.Sprintf("depth %d: %v cost %d of %d, child first seen with %d and last seen owning at most %d, caller continues with %d", depth, fr.lastOp, pcost, prev, fr.child.firstGas, fr.child.ub, gas), nil)
			}
			if pc := fr.pend; pc != nil && fr.child == nil {
				// no frame of the callee was seen: supplied <= gas operand (go-youchain's callGas serves a ZERO
				// operand with 2300, charged to the caller), and the instruction's cost contains what was
				// supplied; the stipend comes on top
				sup := pcost
				if pc.reqGas.IsUint64() && pc.reqGas.Uint64() < sup {
					sup = pc.reqGas.Uint64()
					if sup < 2300 {
						sup = min(2300, pcost)
					}
				}
				if pc.hasValue {
					sup += 2300
				}
				t.checks++
				t.cnt["leaf_call_returns_checked"]++
				if gas > prev-min(pcost, prev)+sup {
					t.violation("gas-returned-exceeds-supplied", fmt.Sprintf("depth %d: %v to %x (no callee frame seen) cost %d of %d, gas operand %v, value-bearing %v, caller continues with %d", depth, fr.lastOp, pc.target[:], pcost, prev, pc.reqGas, pc.hasValue, gas), nil)
				}
			}
		case isCreateOp(fr.lastOp):
			if gas > prev {
				t.violation("caller-gas-grew-across-call", fmt.Sprintf("depth %d: %d gas before %v, %d at the next step of the same frame", depth, prev, fr.lastOp, gas), nil)
			}
			if fr.child != nil {
				// after = prev - cost - passed + returned, passed = child's first gas, returned <= child.ub
				lim := new(big.Int).SetUint64(prev)
				lim.Sub(lim, new(big.Int).SetUint64(pcost))
				lim.Sub(lim, new(big.Int).SetUint64(fr.child.firstGas))
				lim.Add(lim, new(big.Int).SetUint64(fr.child.ub))
				if new(big.Int).SetUint64(gas).Cmp(lim) > 0 {
					t.violation("gas-returned-exceeds-supplied", fmt.Sprintf("depth %d: %v cost %d of %d, child first seen with %d and last seen owning at most %d, creator continues with %d", depth, fr.lastOp, pcost, prev, fr.child.firstGas, fr.child.ub, gas), nil)
				}
			}
		default:
			if gas > prev-min(pcost, prev) {
				t.violation("gas-grew-within-frame", fmt.Sprintf("depth %d: %d gas before %v (cost %d), %d at the next step", depth, prev, fr.lastOp, pcost, gas), nil)
			}
		}
		if fr.child != nil {
			t.cnt["child_returns_checked"]++
		}
	}
	// ---- static region ----
	if t.staticDepth > 0 && depth <= t.staticDepth {
		after := t.liveDigest()
		t.checks++
		t.cnt["static_subtrees_digested"]++
		for k, v := range after {
			if k[0] == '~' && t.staticDigest[k] != v {
				t.cnt["info_empty_account_materialised_below_staticcall"]++
			}
		}
		if d := diffDigest(t.staticDigest, after); len(d) > 0 {
			t.violation("static-call-changed-state", fmt.Sprintf("state differs between a STATICCALL at depth %d and the next step of its frame: %s", t.staticDepth, firstN(d, 4)), d)
		}
		t.staticDepth, t.staticDigest = 0, nil
	}
	if pc := fr.pend; pc != nil && len(stack.Data()) > 0 {
		t.resolveCall(fr, pc, stack.Back(0).Sign() != 0, depth)
	}
	fr.pend = nil
	if pc := fr.pendCreate; pc != nil && len(stack.Data()) > 0 {
		t.resolveCreate(fr, pc, stack.Back(0).Sign() != 0, depth)
	}
	fr.pendCreate = nil
	if fr.wantCreated && err == nil && len(stack.Data()) > 0 {
		t.extra[common.BigToAddress(stack.Back(0))] = true
	}
	fr.wantCreated = false
	fr.seen, fr.lastGas, fr.lastCost, fr.lastOp = true, gas, cost, op
	if err != nil {
		// the instruction could not even start (stack, gas, write protection, invalid)
		if errClass(err) == "write-protection" {
			t.cnt["write_attempts_in_static_context"]++
			t.cnt["write_attempts_in_static_context_"+op.String()]++
			if fr.entered != vm.STATICCALL {
				t.cnt["write_attempts_in_frames_below_the_static_frame"]++
			}
			if fr.kidsReturned > 0 {
				t.cnt["write_attempts_in_static_frame_after_a_child_returned"]++
				t.feats["static-write-after-child"] = true
			}
			if fr.staticKidsReturned > 0 {
				t.cnt["write_attempts_in_static_frame_after_a_nested_staticcall_returned"]++
				t.feats["static-write-after-nested-static"] = true
			}
		}
		t.closeFrame(true, errClass(err))
		return
	}
	fr.child = nil
	ctx := contract.Address()
	switch {
	case op == vm.SSTORE:
		fr.sstores++
		if t.observe {
			slot, val := common.BigToHash(stack.Back(0)), common.BigToHash(stack.Back(1))
			cur, orig := t.st.GetState(ctx, slot), t.st.GetCommittedState(ctx, slot)
			if val == orig && cur != orig {
				fr.writebacks++
				t.cnt["writebacks_of_pretx_value_onto_dirty_slot"]++
			}
		}
	case op >= vm.LOG0 && op <= vm.LOG4:
		fr.logs++
	case op == vm.CALL || op == vm.CALLCODE:
		t.extra[common.BigToAddress(stack.Back(1))] = true
		if stack.Back(2).Sign() != 0 {
			t.cnt["value_bearing_"+op.String()]++
			if op == vm.CALL {
				fr.xfers++
			}
		}
		t.cnt["op_"+op.String()]++
		t.noteCall(fr, op, ctx, stack, stack.Back(2))
	case op == vm.DELEGATECALL:
		t.extra[common.BigToAddress(stack.Back(1))] = true
		t.cnt["op_DELEGATECALL"]++
		t.noteCall(fr, op, ctx, stack, nil)
	case op == vm.STATICCALL:
		t.extra[common.BigToAddress(stack.Back(1))] = true
		t.cnt["op_STATICCALL"]++
		t.noteCall(fr, op, ctx, stack, nil)
		if fr.static {
			t.cnt["staticcall_inside_static_context"]++
			t.feats["static-in-static"] = true
		}
		if t.observe && t.staticDepth == 0 {
			t.staticDigest = t.liveDigest()
			t.staticDepth = depth
		}
	case isCreateOp(op):
		fr.creates++
		fr.wantCreated = true
		t.cnt["op_"+op.String()]++
		t.noteCreate(fr, op, ctx, memory, stack)
	case op == vm.RETURN:
		fr.retSize = ^uint64(0)
		if stack.Back(1).IsUint64() {
			fr.retSize = stack.Back(1).Uint64()
		}
	case op == vm.SELFDESTRUCT:
		fr.suicides++
		b := common.BigToAddress(stack.Back(0))
		t.extra[b] = true
		t.cnt["op_SELFDESTRUCT"]++
		if b == ctx {
			fr.selfBurn.Add(fr.selfBurn, t.st.GetBalance(ctx))
			t.cnt["selfdestruct_to_self"]++
		}
		if t.st.HasSuicided(ctx) {
			t.cnt["selfdestruct_of_already_selfdestructed_account"]++
			fr.markSD(ctx, false)
		} else {
			fr.markSD(ctx, true)
		}
	}
}

func min(a, b uint64) uint64 {
	if a < b {
		return a
	}
	return b
}

func (fr *frameRec) markSD(a common.Address, first bool) {
	if fr.firstSD == nil {
		fr.firstSD, fr.reSD = map[common.Address]bool{}, map[common.Address]bool{}
	}
	if first {
		fr.firstSD[a] = true
	} else {
		fr.reSD[a] = true
	}
}

// noteCall records a call-family instruction; under intrusive observation it also reads what a
// failed call must leave alone.
func (t *tracer) noteCall(fr *frameRec, op vm.OpCode, ctx common.Address, stack *vm.Stack, value *big.Int) {
	pc := &pendingCall{op: op, caller: ctx, target: common.BigToAddress(stack.Back(1)), reqGas: new(big.Int).Set(stack.Back(0))}
	pc.hasValue = value != nil && value.Sign() != 0
	fr.pend = pc
	if model.C16PrecompileIndex(ma(pc.target)) > 0 {
		t.cnt["call_instructions_targeting_a_precompile"]++
	}
	if !t.observe {
		return
	}
	pc.observed = true
	pc.callerBal = new(big.Int).Set(t.st.GetBalance(ctx))
	pc.tgtBal = new(big.Int).Set(t.st.GetBalance(pc.target))
	pc.tgtExist = t.st.Exist(pc.target)
	pc.tgtNonce = t.st.GetNonce(pc.target)
	pc.tgtCode = t.st.GetCodeSize(pc.target)
	pc.refused = pc.hasValue && value.Cmp(pc.callerBal) > 0
	switch {
	case model.C16PrecompileIndex(ma(pc.target)) > 0:
		pc.class = "precompile"
	case pc.target == ctx:
		pc.class = "self"
	case !pc.tgtExist:
		pc.class = "nonexistent"
	case t.st.HasSuicided(pc.target):
		pc.class = "selfdestructed"
	case pc.tgtCode > 0:
		pc.class = "contract"
	case t.st.Empty(pc.target):
		pc.class = "empty"
	case pc.tgtNonce > 0:
		pc.class = "eoa"
	default:
		pc.class = "codeless_funded"
	}
}

var callKinds = map[vm.OpCode]int{vm.CALL: model.C16KCall, vm.CALLCODE: model.C16KCallCode, vm.DELEGATECALL: model.C16KDelegate, vm.STATICCALL: model.C16KStatic}

// resolveCall judges a call-family instruction at the next step of the frame that issued it.
func (t *tracer) resolveCall(fr *frameRec, pc *pendingCall, ok bool, depth int) {
	if !ok && pc.hasValue && pc.op == vm.CALL {
		t.failedValueCalls[pc.target]++
	}
	if !pc.observed {
		return
	}
	outcome := "ok"
	switch {
	case ok:
	case pc.refused:
		outcome = "refused"
	default:
		outcome = "failed"
	}
	key := model.C16CallKey(callKinds[pc.op], pc.class, pc.hasValue, outcome)
	t.cnt[key]++
	if pc.class == "precompile" {
		t.cnt[fmt.Sprintf("precompile_0x%02x_calls_%s", pc.target[19], outcome)]++
		if pc.hasValue && pc.op == vm.CALL && !ok && !pc.refused {
			t.feats["precompile-value-call-failed"] = true
		}
	}
	if ok {
		return
	}
	// a frame that ended in an error or revert (or never started): everything as before
	t.checks++
	t.cnt["failed_calls_checked_caller_and_callee_unchanged"]++
	var d []string
	if g := t.st.GetBalance(pc.caller); g.Cmp(pc.callerBal) != 0 {
		d = append(d, fmt.Sprintf("%x/balance (caller): %v -> %v", pc.caller[:], pc.callerBal, g))
	}
	if g := t.st.GetBalance(pc.target); g.Cmp(pc.tgtBal) != 0 {
		d = append(d, fmt.Sprintf("%x/balance (callee): %v -> %v", pc.target[:], pc.tgtBal, g))
	}
	if g := t.st.Exist(pc.target); g != pc.tgtExist {
		d = append(d, fmt.Sprintf("%x/exists (callee): %v -> %v", pc.target[:], pc.tgtExist, g))
	}
	if g := t.st.GetNonce(pc.target); g != pc.tgtNonce {
		d = append(d, fmt.Sprintf("%x/nonce (callee): %d -> %d", pc.target[:], pc.tgtNonce, g))
	}
	if g := t.st.GetCodeSize(pc.target); g != pc.tgtCode {
		d = append(d, fmt.Sprintf("%x/codesize (callee): %d -> %d", pc.target[:], pc.tgtCode, g))
	}
	if pc.class == "precompile" {
		t.cnt["failed_calls_to_precompile_checked_account_unchanged"]++
		if !pc.tgtExist {
			t.cnt["failed_calls_to_precompile_checked_account_still_nonexistent"]++
		}
	}
	if len(d) > 0 {
		class := "failed-call-left-trace"
		if pc.class == "precompile" {
			class = "failed-call-to-precompile-left-trace"
		}
		how := "failed"
		if pc.refused {
			how = "was refused (value above the caller's balance)"
		}
		val := "without value"
		if pc.hasValue {
			val = "with value"
		}
		t.violation(class, fmt.Sprintf("depth %d: %v %s from %x to %x (%s) %s and pushed 0, yet: %s", depth, pc.op, val, pc.caller[:], pc.target[:], pc.class, how, firstN(d, 5)), d)
	}
}

// noteCreate records a CREATE/CREATE2 instruction; under intrusive observation it also reads what a
// failed creation must leave alone.
func (t *tracer) noteCreate(fr *frameRec, op vm.OpCode, ctx common.Address, memory *vm.Memory, stack *vm.Stack) {
	pc := &pendingCreate{op: op, creator: ctx}
	fr.pendCreate = pc
	if t.watchInit == nil && !t.observe {
		return
	}
	var init []byte
	if off, size := stack.Back(1), stack.Back(2); off.IsInt64() && size.IsInt64() && size.Int64() <= 0x10000 {
		init = memory.Get(off.Int64(), size.Int64())
	} else {
		return
	}
	pc.watched = t.watchInit != nil && bytes.Equal(init, t.watchInit)
	if !t.observe {
		return
	}
	if op == vm.CREATE {
		pc.addr = ca(model.C16CreateAddr(ma(ctx), t.st.GetNonce(ctx)))
	} else {
		salt := stack.Back(3)
		if !salt.IsUint64() {
			return
		}
		pc.addr = ca(model.C16Create2Addr(ma(ctx), salt.Uint64(), init))
	}
	pc.observed = true
	pc.creBal = new(big.Int).Set(t.st.GetBalance(ctx))
	pc.exist = t.st.Exist(pc.addr)
	pc.bal = new(big.Int).Set(t.st.GetBalance(pc.addr))
	pc.nonce = t.st.GetNonce(pc.addr)
	pc.code = t.st.GetCodeSize(pc.addr)
}

// resolveCreate judges a creation at the next step of the frame that issued it.
func (t *tracer) resolveCreate(fr *frameRec, pc *pendingCreate, ok bool, depth int) {
	ch := fr.child
	ctorReturned := ch != nil && !ch.failed
	if pm := fr.pendMerge; pm != nil {
		fr.pendMerge = nil
		if ok {
			t.account(pm, false, "")
			fr.absorb(pm)
		} else {
			// everything the constructor and its descendants did is undone
			t.account(pm, true, "code-deposit")
		}
	}
	if !ok && ctorReturned {
		// the constructor ended normally and yet no address was pushed: the code was not deposited
		if ch.lastOp == vm.RETURN && ch.retSize > 24576 {
			t.cnt["creates_failing_code_too_large"]++
		} else {
			t.cnt["creates_failing_at_code_deposit"]++
			t.cnt["creates_failing_at_code_deposit_by_"+pc.op.String()]++
			t.feats["create-failed-at-code-deposit"] = true
		}
	}
	if pc.watched {
		fr.watchIdx = append(fr.watchIdx, len(t.watch))
		t.watch = append(t.watch, createEvent{ok: ok, childSeen: ch != nil, ctorReturned: ctorReturned})
	}
	if !pc.observed || ok {
		return
	}
	// a creation frame that ended in an error or revert (or never started): the creator's balance and
	// whatever was at the new address are as before (the creator's nonce is the creator's own effect)
	t.checks++
	t.cnt["failed_creates_checked_creator_and_address_unchanged"]++
	if !ok && ctorReturned {
		t.cnt["creates_failing_at_code_deposit_checked_address_unchanged"]++
	}
	var d []string
	if g := t.st.GetBalance(pc.creator); g.Cmp(pc.creBal) != 0 {
		d = append(d, fmt.Sprintf("%x/balance (creator): %v -> %v", pc.creator[:], pc.creBal, g))
	}
	if g := t.st.GetBalance(pc.addr); g.Cmp(pc.bal) != 0 {
		d = append(d, fmt.Sprintf("%x/balance (new address): %v -> %v", pc.addr[:], pc.bal, g))
	}
	if g := t.st.Exist(pc.addr); g != pc.exist {
		d = append(d, fmt.Sprintf("%x/exists (new address): %v -> %v", pc.addr[:], pc.exist, g))
	}
	if g := t.st.GetNonce(pc.addr); g != pc.nonce {
		d = append(d, fmt.Sprintf("%x/nonce (new address): %d -> %d", pc.addr[:], pc.nonce, g))
	}
	if g := t.st.GetCodeSize(pc.addr); g != pc.code {
		d = append(d, fmt.Sprintf("%x/codesize (new address): %d -> %d", pc.addr[:], pc.code, g))
	}
	if pc.nonce == 0 && pc.code == 0 {
		// nothing lived there: whatever the constructor wrote is gone again
		for _, sl := range allSlots {
			if v := t.st.GetState(pc.addr, slotHash(sl)); v != (common.Hash{}) {
				d = append(d, fmt.Sprintf("%x/slot%#x (new address): 0 -> %x", pc.addr[:], sl, v))
			}
		}
	}
	if len(d) > 0 {
		how := "failed"
		if ctorReturned {
			how = "failed after its constructor had ended normally (code deposit)"
		} else if ch == nil {
			how = "was refused or failed before its first instruction"
		}
		t.violation("failed-create-left-trace", fmt.Sprintf("depth %d: %v by %x of address %x %s and pushed 0, yet: %s", depth, pc.op, pc.creator[:], pc.addr[:], how, firstN(d, 5)), d)
	}
}
