package c16

import (
	"fmt"
	"math/big"
	"strings"
	"time"

	"github.com/youchainhq/go-youchain/common"
	"github.com/youchainhq/go-youchain/core/state"
	"github.com/youchainhq/go-youchain/core/vm"
)

// tracer is the monitor fed by the interpreter's own vm.Tracer hook (one event per executed
// instruction). It checks, without any model:
//   - gas never grows from one step of a frame to the next (other than by what a child returns),
//     a child never returns more than it was last seen to own, a caller never has more gas after
//     a CALL-family instruction than before it;
//   - nothing observable changes between a STATICCALL instruction and the next step of the frame
//     that issued it;
//
// and it reconstructs the frame tree (which frames ended in an error or revert) to count the
// effects that had to be undone and to sum the value burnt by SELFDESTRUCT-to-self in frames
// that survived.
type frameRec struct {
	firstGas, lastGas, lastCost uint64
	lastOp                      vm.OpCode
	seen                        bool
	static                      bool
	entered                     vm.OpCode // instruction of the parent that started this frame (0 at top level)
	// what this frame (and its surviving descendants) did
	sstores, logs, xfers, creates, suicides, writebacks int
	selfBurn                                            *big.Int
	// the child that ran during the last call-family instruction
	child                            *childEnd
	wantCreated                      bool
	kidsReturned, staticKidsReturned int
}

type childEnd struct {
	firstGas uint64
	ub       uint64 // upper bound of what it can have returned
	failed   bool
}

type tviol struct {
	class, msg string
	diffs      []string
}

type tracer struct {
	st       *state.StateDB
	addrs    []common.Address
	observe  bool
	stack    []*frameRec
	viol     []tviol
	cnt      map[string]int
	feats    map[string]bool
	extra    map[common.Address]bool
	maxDepth int
	checks   int
	selfBurn *big.Int

	staticDepth  int
	staticDigest map[string]string
}

func newTracer(st *state.StateDB, addrs []common.Address, observe bool) *tracer {
	return &tracer{st: st, addrs: addrs, observe: observe, cnt: map[string]int{}, feats: map[string]bool{}, extra: map[common.Address]bool{}, selfBurn: new(big.Int)}
}

func (t *tracer) CaptureStart(from common.Address, to common.Address, call bool, input []byte, gas uint64, value *big.Int) error {
	return nil
}
func (t *tracer) CaptureEnd(output []byte, gasUsed uint64, d time.Duration, err error) error {
	return nil
}

func (t *tracer) violation(class, msg string, diffs []string) {
	if len(t.viol) < 4 {
		t.viol = append(t.viol, tviol{class, msg, diffs})
	}
}

func isCallOp(op vm.OpCode) bool {
	return op == vm.CALL || op == vm.CALLCODE || op == vm.DELEGATECALL || op == vm.STATICCALL
}
func isCreateOp(op vm.OpCode) bool { return op == vm.CREATE || op == vm.CREATE2 }

func errClass(err error) string {
	s := err.Error()
	switch {
	case s == "evm: execution reverted":
		return "revert"
	case s == "evm: write protection":
		return "write-protection"
	case s == "out of gas" || strings.HasPrefix(s, "gas uint64 overflow") || strings.HasPrefix(s, "not enough gas"):
		return "out-of-gas"
	case strings.HasPrefix(s, "invalid opcode"):
		return "invalid-opcode"
	case strings.HasPrefix(s, "stack underflow"):
		return "stack-underflow"
	case strings.HasPrefix(s, "invalid jump"):
		return "bad-jump"
	}
	return "other"
}

// liveDigest: everything a static call must leave alone.
func (t *tracer) liveDigest() map[string]string {
	d := map[string]string{}
	for _, a := range t.addrs {
		k := fmt.Sprintf("%x/", a[:])
		d[k+"balance"] = t.st.GetBalance(a).String()
		d[k+"nonce"] = fmt.Sprint(t.st.GetNonce(a))
		d[k+"selfdestructed"] = fmt.Sprint(t.st.HasSuicided(a))
		// an empty account is equivalent to an absent one (EIP-161): existence and the code hash (zero for
		// an absent account, keccak("") for an empty one) are compared for non-empty accounts only; the
		// raw existence bit is kept under a "~" key that is reported as information, not judged
		if !t.st.Empty(a) {
			d[k+"exists"] = fmt.Sprint(t.st.Exist(a))
			d[k+"codehash"] = fmt.Sprintf("%x", t.st.GetCodeHash(a))
		}
		d["~"+k+"exists"] = fmt.Sprint(t.st.Exist(a))
		for _, s := range allSlots {
			if v := t.st.GetState(a, slotHash(s)); v != (common.Hash{}) {
				d[k+fmt.Sprintf("slot%#x", s)] = fmt.Sprintf("%x", v)
			}
		}
	}
	d["logs"] = fmt.Sprint(len(t.st.Logs()))
	d["refund"] = fmt.Sprint(t.st.GetRefund())
	return d
}

func diffDigest(a, b map[string]string) []string {
	var out []string
	for k, v := range a {
		if k[0] == '~' {
			continue
		}
		if b[k] != v {
			out = append(out, fmt.Sprintf("%s: %s -> %s", k, v, b[k]))
		}
	}
	for k, v := range b {
		if _, ok := a[k]; !ok && k[0] != '~' {
			out = append(out, fmt.Sprintf("%s: <none> -> %s", k, v))
		}
	}
	return out
}

// closeFrame pops the top frame. failed: it ended in an error or revert.
func (t *tracer) closeFrame(failed bool, why string) {
	fr := t.stack[len(t.stack)-1]
	t.stack = t.stack[:len(t.stack)-1]
	kind := "top"
	if fr.entered != 0 {
		kind = fr.entered.String()
	}
	if failed {
		t.cnt["frames_failed"]++
		t.cnt["frames_failed_"+why]++
		t.cnt["frames_failed_entered_by_"+kind]++
		t.cnt["undone_sstores"] += fr.sstores
		t.cnt["undone_logs"] += fr.logs
		t.cnt["undone_value_transfers"] += fr.xfers
		t.cnt["undone_creates"] += fr.creates
		t.cnt["undone_selfdestructs"] += fr.suicides
		t.cnt["undone_writebacks_of_pretx_value"] += fr.writebacks
		if fr.sstores+fr.logs+fr.xfers+fr.creates+fr.suicides > 0 {
			t.cnt["frames_failed_after_effects"]++
			if isCreateOp(fr.entered) {
				t.cnt["create_frames_failed_after_effects"]++
				t.feats["create-failed-after-effects"] = true
			}
		}
		if fr.suicides > 0 {
			t.feats["selfdestruct-undone"] = true
		}
		if fr.xfers > 0 {
			t.feats["transfer-undone"] = true
		}
		if fr.writebacks > 0 {
			t.feats["writeback-undone"] = true
		}
		t.feats["fail:"+why] = true
		if fr.static {
			t.cnt["static_frames_failed"]++
		}
	} else {
		t.cnt["frames_ended_normally"]++
		t.cnt["frames_ended_normally_entered_by_"+kind]++
		if fr.static {
			t.cnt["static_frames_ended_normally"]++
		}
	}
	ub := fr.lastGas
	if !failed || why == "revert" {
		if fr.lastCost <= fr.lastGas {
			ub = fr.lastGas - fr.lastCost
		}
	}
	if len(t.stack) > 0 {
		p := t.stack[len(t.stack)-1]
		p.child = &childEnd{firstGas: fr.firstGas, ub: ub, failed: failed}
		p.kidsReturned++
		if fr.entered == vm.STATICCALL {
			p.staticKidsReturned++
		}
		if !failed {
			p.sstores += fr.sstores
			p.logs += fr.logs
			p.xfers += fr.xfers
			p.creates += fr.creates
			p.suicides += fr.suicides
			p.writebacks += fr.writebacks
			p.selfBurn.Add(p.selfBurn, fr.selfBurn)
		}
	} else if !failed {
		t.selfBurn.Add(t.selfBurn, fr.selfBurn)
		t.cnt["surviving_sstores"] += fr.sstores
		t.cnt["surviving_logs_emitted"] += fr.logs
		t.cnt["surviving_value_transfers"] += fr.xfers
		t.cnt["surviving_creates"] += fr.creates
		t.cnt["surviving_selfdestructs"] += fr.suicides
	}
}

// finish is called after the top-level call returned.
func (t *tracer) finish(ok bool) {
	for len(t.stack) > 1 {
		t.closeFrame(false, "")
	}
	if len(t.stack) == 1 {
		// a top-level creation can still fail after its last instruction (code deposit)
		t.closeFrame(!ok, "after-last-step")
	}
}

func (t *tracer) CaptureState(env *vm.EVM, pc uint64, op vm.OpCode, gas, cost uint64, memory *vm.Memory, stack *vm.Stack, contract *vm.Contract, depth int, err error) error {
	t.step(pc, op, gas, cost, stack, contract, depth, err, false)
	return nil
}

func (t *tracer) CaptureFault(env *vm.EVM, pc uint64, op vm.OpCode, gas, cost uint64, memory *vm.Memory, stack *vm.Stack, contract *vm.Contract, depth int, err error) error {
	t.step(pc, op, gas, cost, stack, contract, depth, err, true)
	return nil
}

func (t *tracer) step(pc uint64, op vm.OpCode, gas, cost uint64, stack *vm.Stack, contract *vm.Contract, depth int, err error, fault bool) {
	t.cnt["steps"]++
	// frames deeper than this event ended without an error event: normal halt
	for len(t.stack) > depth {
		t.closeFrame(false, "")
	}
	if depth > len(t.stack) {
		fr := &frameRec{firstGas: gas, selfBurn: new(big.Int)}
		if len(t.stack) > 0 {
			p := t.stack[len(t.stack)-1]
			fr.entered = p.lastOp
			fr.static = p.static || p.lastOp == vm.STATICCALL
			p.child = nil
		}
		t.stack = append(t.stack, fr)
		t.cnt["frames_entered"]++
		if fr.static {
			t.cnt["frames_entered_in_static_context"]++
		}
		if depth > t.maxDepth {
			t.maxDepth = depth
		}
		if depth >= 4 {
			t.feats["depth>=4"] = true
		}
	}
	fr := t.stack[len(t.stack)-1]
	if fault {
		// the instruction was already seen by CaptureState; this event only reports how it ended
		t.closeFrame(true, errClass(err))
		return
	}
	// ---- gas ----
	if fr.seen {
		prev, pcost := fr.lastGas, fr.lastCost
		t.checks++
		switch {
		case isCallOp(fr.lastOp):
			if gas > prev {
				t.violation("caller-gas-grew-across-call", fmt.Sprintf("depth %d: %d gas before %v, %d at the next step of the same frame", depth, prev, fr.lastOp, gas), nil)
			}
			if fr.child != nil && gas > prev-min(pcost, prev)+fr.child.ub {
				t.violation("gas-returned-exceeds-supplied", fmt.Sprintf("depth %d: %v cost %d of %d, child first seen with %d and last seen owning at most %d, caller continues with %d", depth, fr.lastOp, pcost, prev, fr.child.firstGas, fr.child.ub, gas), nil)
			}
		case isCreateOp(fr.lastOp):
			if gas > prev {
				t.violation("caller-gas-grew-across-call", fmt.Sprintf("depth %d: %d gas before %v, %d at the next step of the same frame", depth, prev, fr.lastOp, gas), nil)
			}
			if fr.child != nil {
				// after = prev - cost - passed + returned, passed = child's first gas, returned <= child.ub
				lim := new(big.Int).SetUint64(prev)
				lim.Sub(lim, new(big.Int).SetUint64(pcost))
				lim.Sub(lim, new(big.Int).SetUint64(fr.child.firstGas))
				lim.Add(lim, new(big.Int).SetUint64(fr.child.ub))
				if new(big.Int).SetUint64(gas).Cmp(lim) > 0 {
					t.violation("gas-returned-exceeds-supplied", fmt.Sprintf("depth %d: %v cost %d of %d, child first seen with %d and last seen owning at most %d, creator continues with %d", depth, fr.lastOp, pcost, prev, fr.child.firstGas, fr.child.ub, gas), nil)
				}
			}
		default:
			if gas > prev-min(pcost, prev) {
				t.violation("gas-grew-within-frame", fmt.Sprintf("depth %d: %d gas before %v (cost %d), %d at the next step", depth, prev, fr.lastOp, pcost, gas), nil)
			}
		}
		if fr.child != nil {
			t.cnt["child_returns_checked"]++
		}
	}
	// ---- static region ----
	if t.staticDepth > 0 && depth <= t.staticDepth {
		after := t.liveDigest()
		t.checks++
		t.cnt["static_subtrees_digested"]++
		for k, v := range after {
			if k[0] == '~' && t.staticDigest[k] != v {
				t.cnt["info_empty_account_materialised_below_staticcall"]++
			}
		}
		if d := diffDigest(t.staticDigest, after); len(d) > 0 {
			t.violation("static-call-changed-state", fmt.Sprintf("state differs between a STATICCALL at depth %d and the next step of its frame: %s", t.staticDepth, firstN(d, 4)), d)
		}
		t.staticDepth, t.staticDigest = 0, nil
	}
	if fr.wantCreated && err == nil && len(stack.Data()) > 0 {
		t.extra[common.BigToAddress(stack.Back(0))] = true
	}
	fr.wantCreated = false
	fr.seen, fr.lastGas, fr.lastCost, fr.lastOp = true, gas, cost, op
	if err != nil {
		// the instruction could not even start (stack, gas, write protection, invalid)
		if errClass(err) == "write-protection" {
			t.cnt["write_attempts_in_static_context"]++
			t.cnt["write_attempts_in_static_context_"+op.String()]++
			if fr.entered != vm.STATICCALL {
				t.cnt["write_attempts_in_frames_below_the_static_frame"]++
			}
			if fr.kidsReturned > 0 {
				t.cnt["write_attempts_in_static_frame_after_a_child_returned"]++
				t.feats["static-write-after-child"] = true
			}
			if fr.staticKidsReturned > 0 {
				t.cnt["write_attempts_in_static_frame_after_a_nested_staticcall_returned"]++
				t.feats["static-write-after-nested-static"] = true
			}
		}
		t.closeFrame(true, errClass(err))
		return
	}
	fr.child = nil
	ctx := contract.Address()
	switch {
	case op == vm.SSTORE:
		fr.sstores++
		if t.observe {
			slot, val := common.BigToHash(stack.Back(0)), common.BigToHash(stack.Back(1))
			cur, orig := t.st.GetState(ctx, slot), t.st.GetCommittedState(ctx, slot)
			if val == orig && cur != orig {
				fr.writebacks++
				t.cnt["writebacks_of_pretx_value_onto_dirty_slot"]++
			}
		}
	case op >= vm.LOG0 && op <= vm.LOG4:
		fr.logs++
	case op == vm.CALL || op == vm.CALLCODE:
		t.extra[common.BigToAddress(stack.Back(1))] = true
		if stack.Back(2).Sign() != 0 {
			t.cnt["value_bearing_"+op.String()]++
			if op == vm.CALL {
				fr.xfers++
			}
		}
		t.cnt["op_"+op.String()]++
	case op == vm.DELEGATECALL:
		t.extra[common.BigToAddress(stack.Back(1))] = true
		t.cnt["op_DELEGATECALL"]++
	case op == vm.STATICCALL:
		t.extra[common.BigToAddress(stack.Back(1))] = true
		t.cnt["op_STATICCALL"]++
		if fr.static {
			t.cnt["staticcall_inside_static_context"]++
			t.feats["static-in-static"] = true
		}
		if t.observe && t.staticDepth == 0 {
			t.staticDigest = t.liveDigest()
			t.staticDepth = depth
		}
	case isCreateOp(op):
		fr.creates++
		fr.wantCreated = true
		t.cnt["op_"+op.String()]++
	case op == vm.SELFDESTRUCT:
		fr.suicides++
		b := common.BigToAddress(stack.Back(0))
		t.extra[b] = true
		t.cnt["op_SELFDESTRUCT"]++
		if b == ctx {
			fr.selfBurn.Add(fr.selfBurn, t.st.GetBalance(ctx))
			t.cnt["selfdestruct_to_self"]++
		}
		if t.st.HasSuicided(ctx) {
			t.cnt["selfdestruct_of_already_selfdestructed_account"]++
		}
	}
}

func min(a, b uint64) uint64 {
	if a < b {
		return a
	}
	return b
}
