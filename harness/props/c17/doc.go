// Package c17 holds the workloads and monitors of property C17.
package c17
