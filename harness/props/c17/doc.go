// Package c17 holds the workloads and monitors of property C17 (transactions are authentic,
// applied at most once, and charged exactly).
//
//   - C17.sign  (sign.go):  types.Sender / crypto.Ecrecover against an independent math/big
//     secp256k1 + RLP + keccak reference (verif/model/c17_secp.go): honest signatures, every
//     single-field mutation, foreign network ids, high-s twins, exhaustive V windows, malformed
//     r/s/v; also run under -asan in the thorough tier (recovery goes through cgo libsecp256k1).
//   - C17.apply (apply.go): StateProcessor.ApplyTransaction on a real BlockChain with the staking
//     module registered, judged by a reference accounting model plus a frame condition over the
//     complete state digest (verif/mon) and "refused up front => nothing changed".
package c17
