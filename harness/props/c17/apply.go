package c17

// C17.apply — accounting of StateProcessor.ApplyTransaction on a real chain context (real
// BlockChain over a memory database, staking module registered as transaction converter).
//
// Oracle: a reference accounting model (outcome class from state nonce / balance / pool gas /
// hand-typed intrinsic gas; for applied transactions nonce+1, exact balance deltas of every
// account of the universe, gas bounds, pool / header.GasUsed / GasRewards / receipt fields, model
// contract address), a frame condition over the full state digest (mon.Live + mon.Flushed) and
// "refused up front => nothing changed".

import (
	"encoding/hex"
	"fmt"
	"math/big"
	"math/rand"
	"strings"

	"verif/kit"
	"verif/model"
	"verif/mon"

	"github.com/youchainhq/go-youchain/common"
	"github.com/youchainhq/go-youchain/consensus/solo"
	"github.com/youchainhq/go-youchain/core"
	"github.com/youchainhq/go-youchain/core/state"
	"github.com/youchainhq/go-youchain/core/types"
	"github.com/youchainhq/go-youchain/core/vm"
	"github.com/youchainhq/go-youchain/crypto"
	"github.com/youchainhq/go-youchain/event"
	"github.com/youchainhq/go-youchain/local"
	"github.com/youchainhq/go-youchain/params"
	"github.com/youchainhq/go-youchain/rlp"
	"github.com/youchainhq/go-youchain/staking"
	"github.com/youchainhq/go-youchain/youdb"
)

func init() { kit.Register("C17.apply", runApply) }

const netID = 99

var you = new(big.Int).Set(params.StakeUint) // 1 YOU in the base unit

func youN(n int64) *big.Int { return new(big.Int).Mul(big.NewInt(n), you) }

type neutralEngine struct {
	*solo.Solo
	main common.Address
}

func (e *neutralEngine) GetValMainAddress() common.Address { return e.main }

type valInfo struct {
	key  *keyRec // main (consensus) key
	main common.Address
	op   *keyRec
	role params.ValidatorRole
	pub  []byte
}

type world struct {
	chain  *core.BlockChain
	proc   core.Processor
	gen    *types.Block
	users  []*keyRec // plain users 0..5, validator operators 6..8
	gvals  []*valInfo
	ct     map[string]common.Address
	ctKind map[common.Address]string
	sink   common.Address
	benef  common.Address
	fresh  []common.Address
	signer types.Signer
	cfg    *vm.Config
	yp     *params.YouParams
	stk    *staking.Staking
	used   int // cases run on this world
}

var theWorld *world

// The shared trie database only grows (every digest commits a copy into it), so the chain
// context is rebuilt from genesis now and then.
var casesPerWorld = 200

func (w *world) close() {
	kit.Guard(func() { w.stk.Stop() })
	kit.Guard(func() { w.chain.Stop() })
}

func addrN(tag string) common.Address {
	return common.BytesToAddress(model.Keccak256([]byte("c17-addr/" + tag))[12:])
}

func forwardCode(sink common.Address) []byte {
	// CALL(gas, sink, callvalue, 0, 0, 0, 0); POP; STOP
	c := common.FromHex("600060006000600034" + "73")
	c = append(c, sink[:]...)
	return append(c, common.FromHex("5af15000")...)
}

func selfdestructCode(b common.Address) []byte {
	c := []byte{0x73}
	c = append(c, b[:]...)
	return append(c, 0xff)
}

var contractCodes = map[string][]byte{
	"nop":     {0x00},
	"revert":  common.FromHex("60006000fd"),
	"invalid": {0xfe},
	"loop":    common.FromHex("5b600056"),
	"store":   common.FromHex("60003560005500"), // SSTORE(0, CALLDATALOAD(0))
	"log":     common.FromHex("60aa60006000a100"),
}

func buildWorld(seed int64) (*world, error) {
	params.InitNetworkId(netID)
	w := &world{ct: map[string]common.Address{}, ctKind: map[common.Address]string{}, signer: types.NewYouSigner(netID)}
	for i := 0; i < 9; i++ {
		w.users = append(w.users, getKey(seed, 100+i))
	}
	w.sink, w.benef = addrN("sink"), addrN("benef")
	for i := 0; i < 4; i++ {
		w.fresh = append(w.fresh, addrN(fmt.Sprint("fresh", i)))
	}
	g := &core.Genesis{NetworkId: netID, GasLimit: 0x888888, CurrVersion: params.YouV5, Mixhash: types.UConMixHash,
		Alloc: core.GenesisAlloc{}, Validators: core.GenesisValidators{}, Timestamp: 1600000000,
		Consensus: common.FromHex("0xf84e8001a05d93025288dddb431e3f43e07c63d1a96a28bf033457c74ee3f4d8eed88d3cf601a0010000000000000000000000000000000000000000000000000000000000000001801a8207d0820fa0")}
	for _, u := range w.users {
		g.Alloc[u.addr] = core.GenesisAccount{Balance: youN(100000000)}
	}
	codes := map[string][]byte{}
	for k, v := range contractCodes {
		codes[k] = v
	}
	codes["forward"] = forwardCode(w.sink)
	codes["selfdestruct"] = selfdestructCode(w.benef)
	codes["selfdestruct2"] = selfdestructCode(w.benef)
	for name, code := range codes {
		a := addrN("contract/" + name)
		w.ct[name] = a
		kind := name
		if name == "selfdestruct2" {
			kind = "selfdestruct"
		}
		w.ctKind[a] = kind
		acc := core.GenesisAccount{Balance: big.NewInt(1000), Code: code, Nonce: 1}
		if name == "store" {
			acc.Storage = map[common.Hash]common.Hash{{}: common.BigToHash(big.NewInt(7))}
		}
		g.Alloc[a] = acc
	}
	roles := []params.ValidatorRole{params.RoleHouse, params.RoleSenator, params.RoleChancellor}
	tokens := []*big.Int{youN(1000), youN(100000), youN(600000)}
	for i := 0; i < 3; i++ {
		k := getKey(seed, 200+i)
		pub := crypto.CompressPubkey(&k.prv.PublicKey)
		v := &valInfo{key: k, main: state.PubToAddress(pub), op: w.users[6+i], role: roles[i], pub: pub}
		if v.main != k.addr {
			return nil, fmt.Errorf("validator main address: state.PubToAddress=%x model=%x", v.main, k.addr)
		}
		g.Validators[v.main] = core.GenesisValidator{Name: fmt.Sprint("g", i), OperatorAddress: v.op.addr, Coinbase: v.op.addr,
			MainPubKey: pub, BlsPubKey: model.Keccak256([]byte{byte(i)}), Token: tokens[i], Role: roles[i], Status: params.ValidatorOnline}
		w.gvals = append(w.gvals, v)
	}
	db := youdb.NewMemDatabase()
	if _, err := core.SetupGenesisBlock(db, netID, g); err != nil {
		return nil, err
	}
	eng := &neutralEngine{Solo: solo.NewFallbackSolo(true, 0, 1, 0), main: w.gvals[0].main}
	mux := new(event.TypeMux)
	chain, err := core.NewBlockChain(db, eng, mux, params.ArchiveNode, local.FakeDetailDB())
	if err != nil {
		return nil, err
	}
	s := staking.NewStaking(mux)
	s.Register(chain.Processor())
	if err := s.Start(chain, eng); err != nil {
		return nil, err
	}
	w.chain, w.proc, w.gen, w.stk = chain, chain.Processor(), chain.Genesis(), s
	w.cfg, err = core.PrepareVMConfig(chain, 1, vm.LocalConfig{})
	if err != nil {
		return nil, err
	}
	w.yp = w.cfg.CurrYouParams
	if w.yp.Version != params.YouV5 {
		return nil, fmt.Errorf("unexpected protocol version %d", w.yp.Version)
	}
	return w, nil
}

// ---- per-case environment ----

type env struct {
	c      *kit.Ctx
	r      *rand.Rand
	w      *world
	st     *state.StateDB
	header *types.Header
	gp     *core.GasPool
	uni    *mon.Universe
	vals   []*valInfo // genesis validators + validators created in the pre-state of this case
	nextV  int        // index for fresh validator keys
	steps  []stepRec
	// history
	applied        map[common.Hash]string // tx hash -> step id
	appliedTxs     []*plan
	appliedFrom    map[common.Address]uint64
	nonce0         map[common.Address]uint64
	poolLeak       uint64 // gas lost from the pool by post-purchase errors (worker does not restore it)
	refundGap      uint64 // gas credited back to the pool beyond header.GasUsed (refund finding)
	refundReported bool
	dry            int // consecutive steps with a pool too small for any transaction
	txIndex        int
	pendingVals    map[common.Address]bool
}

type stepRec struct {
	Kind    string     `json:"kind"`
	Tags    string     `json:"tags,omitempty"`
	Sender  string     `json:"sender"`
	Fields  fieldsJSON `json:"fields"`
	SetBal  string     `json:"set_balance,omitempty"`
	Outcome string     `json:"outcome,omitempty"`
	Status  string     `json:"status,omitempty"`
	GasUsed uint64     `json:"gas_used,omitempty"`
}

type plan struct {
	kind     string // transfer | precompile | c-<contract> | create-<init> | staking-<action> | sig-<defect>
	tags     []string
	sender   *keyRec
	f        *model.TxFields
	tx       *types.Transaction
	hash     common.Hash
	base     uint64   // base intrinsic gas
	staked   *big.Int // stake moved on success (staking kinds)
	setBal   *big.Int
	sigBad   bool
	replayOf string
	newVal   common.Address
}

func (e *env) addU(a common.Address) { e.uni.AddAddr(a) }

func (e *env) setup() error {
	w, r := e.w, e.r
	st, err := w.chain.StateAt(w.gen.Root(), w.gen.ValRoot(), w.gen.StakingRoot())
	if err != nil {
		return err
	}
	e.st = st
	e.uni = &mon.Universe{}
	for _, u := range w.users {
		e.addU(u.addr)
	}
	for _, a := range w.ct {
		e.addU(a)
	}
	for _, a := range w.fresh {
		e.addU(a)
	}
	for i := 1; i <= 9; i++ {
		e.addU(common.BytesToAddress([]byte{byte(i)}))
	}
	e.addU(w.sink)
	e.addU(w.benef)
	e.addU(params.StakingModuleAddress)
	e.addU(w.yp.RewardsPoolAddress)
	e.addU(common.Address{})
	e.uni.Slots = []common.Hash{{}, common.BigToHash(big.NewInt(1))}
	e.vals = append([]*valInfo{}, w.gvals...)
	for _, v := range w.gvals {
		e.uni.Vals = append(e.uni.Vals, v.main)
		e.addU(v.main)
	}
	// pre-state: two more validators created directly (accepting delegations), one of them with
	// total stake close to the maximum of its role; an existing delegation; user nonces/balances
	mk := func(i int, role params.ValidatorRole, token *big.Int, op *keyRec) *valInfo {
		k := getKey(e.c.Seed, 300+i)
		pub := crypto.CompressPubkey(&k.prv.PublicKey)
		v := &valInfo{key: k, main: k.addr, op: op, role: role, pub: pub}
		nv := st.CreateValidator(fmt.Sprint("p", i), op.addr, op.addr, role, pub, model.Keccak256([]byte{byte(40 + i)}), token, params.YOUToStake(token), params.AcceptDelegation, 1000, 0, params.ValidatorOnline)
		if nv == nil {
			return nil
		}
		e.vals = append(e.vals, v)
		e.uni.Vals = append(e.uni.Vals, v.main)
		e.addU(v.main)
		return v
	}
	maxHouse := int64(w.yp.MaxStakes[params.RoleHouse])
	near := youN(maxHouse - int64(r.Intn(30)))
	near.Sub(near, big.NewInt(int64(r.Intn(2)))) // sometimes 1 base unit below a whole stake
	v3 := mk(0, params.RoleHouse, near, w.users[6])
	v4 := mk(1, params.RoleSenator, youN(int64(600+r.Intn(1000))), w.users[7])
	if v3 == nil || v4 == nil {
		return fmt.Errorf("pre-state validator creation failed")
	}
	if r.Intn(2) == 0 {
		val := st.GetValidatorByMainAddr(v4.main)
		st.UpdateDelegation(w.users[1].addr, val, youN(int64(20+r.Intn(100))))
	}
	for i, u := range w.users {
		switch r.Intn(6) {
		case 0:
			st.SetNonce(u.addr, uint64(1+r.Intn(300)))
		case 1:
			st.SetNonce(u.addr, 1<<32+uint64(r.Intn(3))-1)
		case 2:
			st.SetNonce(u.addr, 1<<64-2-uint64(r.Intn(40)))
		}
		if i < 6 && i != 1 {
			switch r.Intn(6) {
			case 0:
				st.SetBalance(u.addr, new(big.Int).Lsh(big.NewInt(1), uint(64+r.Intn(200))))
			case 1:
				st.SetBalance(u.addr, big.NewInt(int64(r.Intn(3000000))))
			case 2:
				st.SetBalance(u.addr, new(big.Int))
			}
		}
	}
	st.IntermediateRoot(true)

	gls := []uint64{150000, 1200000, 3000000, 8000000, 0x888888, 1 << 40, 1 << 63, 1<<64 - 1}
	gl := gls[r.Intn(len(gls))]
	if r.Intn(6) == 0 {
		gl = 21000 * uint64(1+r.Intn(12))
	}
	e.header = &types.Header{ParentHash: w.gen.Hash(), Number: big.NewInt(1), GasLimit: gl, Coinbase: w.gvals[0].main,
		Time: w.gen.Time() + 1, GasRewards: new(big.Int), Subsidy: new(big.Int), CurrVersion: params.YouV5, MixDigest: types.UConMixHash,
		Root: w.gen.Root(), ValRoot: w.gen.ValRoot(), StakingRoot: w.gen.StakingRoot()}
	e.gp = new(core.GasPool).AddGas(gl)
	e.applied = map[common.Hash]string{}
	e.appliedFrom = map[common.Address]uint64{}
	e.nonce0 = map[common.Address]uint64{}
	e.pendingVals = map[common.Address]bool{}
	for _, u := range w.users {
		e.nonce0[u.addr] = st.GetNonce(u.addr)
	}
	return nil
}

// ---- generation ----

func pickBig(r *rand.Rand, xs ...*big.Int) *big.Int { return new(big.Int).Set(xs[r.Intn(len(xs))]) }

func (e *env) stakingPayload(action staking.ActionType, msg interface{}) []byte {
	bs, err := rlp.EncodeToBytes(msg)
	if err != nil {
		panic(err)
	}
	out, err := rlp.EncodeToBytes(&staking.Message{Action: action, Payload: bs})
	if err != nil {
		panic(err)
	}
	return out
}

// stakeAmount picks a stake around the minimum / maximum of the role.
func (e *env) stakeAround(role params.ValidatorRole) (*big.Int, string) {
	r := e.r
	min := int64(e.w.yp.MinSelfStakes[role])
	max := int64(e.w.yp.MaxStakes[role])
	var v *big.Int
	var tag string
	switch r.Intn(9) {
	case 0:
		v, tag = youN(min), "stake=min"
	case 1:
		v, tag = new(big.Int).Sub(youN(min), big.NewInt(1)), "stake=min-1unit"
	case 2:
		v, tag = youN(min+1), "stake=min+1"
	case 3:
		v, tag = youN(max), "stake=max"
	case 4:
		v, tag = new(big.Int).Add(youN(max), new(big.Int).Sub(you, big.NewInt(1))), "stake=max+0.99"
	case 5:
		v, tag = youN(max+1), "stake=max+1"
	case 6:
		v, tag = youN(max-1), "stake=max-1"
	default:
		v, tag = youN(min+1+int64(r.Intn(1000))), "stake=mid"
	}
	if v.Sign() <= 0 {
		v, tag = big.NewInt(1), "stake=1unit"
	}
	return v, tag
}

func (e *env) genPlan(step int) *plan {
	r, w := e.r, e.w
	p := &plan{}
	// replays and signature defects first
	if len(e.appliedTxs) > 0 && r.Intn(14) == 0 {
		o := e.appliedTxs[r.Intn(len(e.appliedTxs))]
		q := *o
		q.kind, q.replayOf = o.kind, e.applied[o.hash]
		q.tags = []string{"replay"}
		q.setBal = nil
		if r.Intn(2) == 0 { // a re-decoded copy (no cached sender)
			v, rr, ss := o.tx.RawSignatureValues()
			tx := new(types.Transaction)
			if err := rlp.DecodeBytes(model.TxEncode(o.f, v, rr, ss), tx); err == nil {
				q.tx = tx
				q.tags = append(q.tags, "redecoded")
			}
		}
		return &q
	}
	p.sender = w.users[r.Intn(len(w.users))]
	f := &model.TxFields{Value: new(big.Int), Price: new(big.Int)}
	p.f = f
	safeHuge := false // kinds whose execution cannot run away with enormous gas
	extraGas := uint64(0)
	k := r.Intn(100)
	switch {
	case k < 22: // plain transfer
		p.kind, p.base, safeHuge = "transfer", 21000, true
		var to common.Address
		switch r.Intn(7) {
		case 0:
			to = p.sender.addr
			p.tags = append(p.tags, "to=self")
		case 1:
			to = w.fresh[r.Intn(len(w.fresh))]
			p.tags = append(p.tags, "to=new")
		case 2:
			to = e.header.Coinbase
			p.tags = append(p.tags, "to=coinbase")
		case 3:
			to = common.Address{}
			p.tags = append(p.tags, "to=zero")
		default:
			to = w.users[r.Intn(len(w.users))].addr
		}
		t := [20]byte(to)
		f.To = &t
		if r.Intn(3) == 0 {
			f.Payload = genPayload(r)
		}
	case k < 27:
		p.kind, p.base = "precompile", 21000
		t := [20]byte(common.BytesToAddress([]byte{byte(1 + r.Intn(9))}))
		f.To = &t
		f.Payload = make([]byte, r.Intn(80))
		r.Read(f.Payload)
		extraGas = uint64(r.Intn(5000))
	case k < 50: // contract calls
		names := []string{"nop", "revert", "invalid", "loop", "store", "store", "log", "forward", "selfdestruct", "selfdestruct2"}
		name := names[r.Intn(len(names))]
		a := w.ct[name]
		p.kind, p.base = "c-"+w.ctKind[a], 21000
		t := [20]byte(a)
		f.To = &t
		extraGas = uint64(r.Intn(60000))
		if name == "loop" {
			extraGas = uint64(r.Intn(200000))
		}
		if name == "nop" {
			safeHuge = true
		}
		if name == "store" {
			f.Payload = make([]byte, 32)
			switch r.Intn(3) {
			case 0: // clear
				p.tags = append(p.tags, "sstore=0")
			case 1:
				f.Payload[31] = 7
			default:
				f.Payload[31] = byte(1 + r.Intn(200))
			}
		}
	case k < 62: // creations
		inits := []string{"empty", "runtime", "revert", "invalid", "store+runtime", "garbage", "bigcode"}
		in := inits[r.Intn(len(inits))]
		p.kind, p.base = "create-"+in, 53000
		switch in {
		case "runtime": // CODECOPY the trailing runtime and RETURN it
			rt := common.FromHex("60aa60006000a100")
			f.Payload = append(common.FromHex(fmt.Sprintf("60%02x600c60003960%02x6000f3", len(rt), len(rt))), rt...)
		case "revert":
			f.Payload = common.FromHex("60006000fd")
		case "invalid":
			f.Payload = []byte{0xfe}
		case "store+runtime":
			rt := []byte{0x00}
			f.Payload = append(common.FromHex("6001600155"+fmt.Sprintf("60%02x601160003960%02x6000f3", len(rt), len(rt))), rt...)
		case "garbage":
			f.Payload = make([]byte, 1+r.Intn(40))
			r.Read(f.Payload)
		case "bigcode": // returns 24577 zero bytes: above the code size limit
			f.Payload = common.FromHex("6160016000f3")
		}
		extraGas = uint64(r.Intn(120000))
		if in == "bigcode" {
			extraGas += 5000000
		}
	case k < 94: // staking
		p.base, safeHuge = 100000, true
		t := [20]byte(params.StakingModuleAddress)
		f.To = &t
		e.genStaking(p)
	default: // defective signatures (built below)
		p.kind, p.base, p.sigBad = "sig", 21000, true
		t := [20]byte(w.users[r.Intn(len(w.users))].addr)
		f.To = &t
	}
	intr := model.IntrinsicGas(p.base, f.Payload)
	intrU := intr.Uint64()
	pool := e.gp.Gas()
	// gas limit
	ls := r.Intn(100)
	switch {
	case ls < 45:
		f.Limit = intrU + extraGas
		if strings.HasPrefix(p.kind, "staking-create") && r.Intn(4) > 0 {
			f.Limit += 900000 + uint64(r.Intn(3)) - 1
			p.tags = append(p.tags, "limit~creation-gas")
		}
	case ls < 52:
		f.Limit = intrU
		p.tags = append(p.tags, "limit=intrinsic")
	case ls < 58:
		f.Limit = intrU - 1
		p.tags = append(p.tags, "limit=intrinsic-1")
	case ls < 63:
		f.Limit = intrU + 1
		p.tags = append(p.tags, "limit=intrinsic+1")
	case ls < 68:
		f.Limit = pool
		p.tags = append(p.tags, "limit=pool")
	case ls < 73:
		f.Limit = pool + 1
		p.tags = append(p.tags, "limit=pool+1")
	case ls < 77:
		if pool > 0 {
			f.Limit = pool - 1
		}
		p.tags = append(p.tags, "limit=pool-1")
	case ls < 81:
		f.Limit = []uint64{1 << 63, 1<<64 - 1, 1 << 32, 1<<63 - 1}[r.Intn(4)]
		p.tags = append(p.tags, "limit=huge")
	default:
		f.Limit = uint64(r.Intn(2000000))
	}
	if !safeHuge && f.Limit > intrU+6000000 {
		f.Limit = intrU + extraGas // never hand enormous gas to arbitrary code
		for j, t := range p.tags {
			if strings.HasPrefix(t, "limit=") {
				p.tags[j] = "limit-capped"
			}
		}
	}
	// gas price
	lim := u64(f.Limit)
	switch r.Intn(12) {
	case 0:
		p.tags = append(p.tags, "price=0")
	case 1:
		f.Price = big.NewInt(1)
	case 2, 3:
		f.Price = big.NewInt(1000000000 * int64(1+r.Intn(50)))
	case 4:
		if f.Limit > 0 { // limit*price just around 2^64
			f.Price = new(big.Int).Div(two64, lim)
			f.Price.Add(f.Price, big.NewInt(int64(r.Intn(3)-1)))
			if f.Price.Sign() < 0 {
				f.Price.SetInt64(0)
			}
			p.tags = append(p.tags, "cost~2^64")
		}
	case 5:
		f.Price = new(big.Int).Add(two64, big.NewInt(int64(r.Intn(3)-1)))
		p.tags = append(p.tags, "price~2^64")
	case 6:
		f.Price = new(big.Int).Lsh(big.NewInt(1), uint(65+r.Intn(190)))
		p.tags = append(p.tags, "price>2^64")
	case 7:
		f.Price = new(big.Int).Sub(two256, big.NewInt(1))
		p.tags = append(p.tags, "price=2^256-1")
	default:
		f.Price = big.NewInt(int64(r.Intn(1 << 30)))
	}
	cost := new(big.Int).Mul(lim, f.Price)
	// nonce
	sn := e.st.GetNonce(p.sender.addr)
	f.Nonce = sn
	switch r.Intn(32) {
	case 0:
		f.Nonce = sn + 1
		p.tags = append(p.tags, "nonce+1")
	case 1:
		f.Nonce = sn - 1
		p.tags = append(p.tags, "nonce-1")
	case 2:
		f.Nonce = r.Uint64()
		p.tags = append(p.tags, "nonce=rand")
	case 3:
		if sn != 0 {
			f.Nonce = 0
			p.tags = append(p.tags, "nonce=0")
		}
	}
	// value
	if !strings.HasPrefix(p.kind, "staking") || r.Intn(5) == 0 {
		switch r.Intn(6) {
		case 0:
		case 1:
			f.Value = big.NewInt(1)
		case 2:
			f.Value = youN(int64(1 + r.Intn(100)))
		case 3:
			f.Value = new(big.Int).Lsh(big.NewInt(1), uint(r.Intn(256)))
		default:
			f.Value = big.NewInt(int64(r.Intn(1000000)))
		}
	}
	// balance around the exact cost boundary
	bal := e.st.GetBalance(p.sender.addr)
	if r.Intn(100) < 45 {
		need := new(big.Int).Add(cost, f.Value)
		if p.staked != nil {
			need = new(big.Int).Add(cost, p.staked)
		}
		var nb *big.Int
		var tag string
		switch r.Intn(10) {
		case 0:
			nb, tag = new(big.Int).Sub(cost, big.NewInt(1)), "bal=gascost-1"
		case 1:
			nb, tag = new(big.Int).Set(cost), "bal=gascost"
		case 2:
			nb, tag = new(big.Int).Sub(need, big.NewInt(1)), "bal=total-1"
		case 3:
			nb, tag = new(big.Int).Set(need), "bal=total"
		case 4:
			nb, tag = new(big.Int).Add(need, big.NewInt(1)), "bal=total+1"
		case 5:
			nb, tag = new(big.Int).Add(cost, big.NewInt(1)), "bal=gascost+1"
		default:
			nb, tag = new(big.Int).Add(need, youN(int64(1+r.Intn(1000000)))), "bal=ample"
		}
		if nb.Sign() >= 0 && nb.Cmp(bal) != 0 {
			p.setBal = nb
			p.tags = append(p.tags, tag)
		}
	}
	// sign
	e.sign(p)
	return p
}

func (e *env) sign(p *plan) {
	r := e.r
	f := p.f
	net := uint64(netID)
	defect := ""
	if p.sigBad {
		defect = []string{"other-net", "high-s", "v-unprotected", "r=0", "s=n", "v+2", "garbage"}[r.Intn(7)]
		p.kind = "sig-" + defect
		if defect == "other-net" {
			net = []uint64{1, 2, 98, 100, 1000}[r.Intn(5)]
		}
	}
	h := model.TxSigHash(f, u64(net))
	var v, rr, ss *big.Int
	if r.Intn(2) == 0 && !p.sigBad {
		var tx0 *types.Transaction
		if f.To == nil {
			tx0 = types.NewContractCreation(f.Nonce, f.Value, f.Limit, f.Price, f.Payload)
		} else {
			tx0 = types.NewTransaction(f.Nonce, common.Address(*f.To), f.Value, f.Limit, f.Price, f.Payload)
		}
		tx, err := types.SignTx(tx0, e.w.signer, p.sender.prv)
		if err != nil {
			panic(err)
		}
		p.tx, p.hash = tx, tx.Hash()
		return
	}
	for {
		kb := make([]byte, 32)
		r.Read(kb)
		k := new(big.Int).SetBytes(kb)
		k.Mod(k, model.SecpN)
		if k.Sign() == 0 {
			continue
		}
		var rec int
		var ok bool
		rr, ss, rec, ok = model.SecpSign(h, p.sender.d, k)
		if !ok || rec > 1 {
			continue
		}
		if ss.Cmp(model.SecpHalfN) > 0 {
			ss = new(big.Int).Sub(model.SecpN, ss)
			rec ^= 1
		}
		v = new(big.Int).SetUint64(2*net + 35 + uint64(rec))
		switch defect {
		case "high-s":
			ss = new(big.Int).Sub(model.SecpN, ss)
			v = new(big.Int).SetUint64(2*net + 35 + uint64(rec^1))
		case "v-unprotected":
			v = big.NewInt(int64(27 + rec))
		case "r=0":
			rr = new(big.Int)
		case "s=n":
			ss = new(big.Int).Set(model.SecpN)
		case "v+2":
			v.Add(v, big.NewInt(2))
		case "garbage": // random r, s with the top bit of s set (never a valid low-s value)
			r.Read(kb)
			rr = new(big.Int).SetBytes(kb)
			r.Read(kb)
			kb[0] |= 0x80
			ss = new(big.Int).SetBytes(kb)
		}
		break
	}
	tx, err := buildTx(f, v, rr, ss, r.Intn(2))
	if err != nil {
		panic(err)
	}
	p.tx, p.hash = tx, tx.Hash()
}

func (e *env) genStaking(p *plan) {
	r, w := e.r, e.w
	f := p.f
	pickVal := func() *valInfo { return e.vals[r.Intn(len(e.vals))] }
	// most of the time the operator of the validator sends its own management transactions
	own := func(v *valInfo) {
		if r.Intn(6) > 0 {
			p.sender = v.op
		}
	}
	switch r.Intn(12) {
	case 0, 1: // create
		role := []params.ValidatorRole{params.RoleHouse, params.RoleSenator, params.RoleChancellor}[r.Intn(3)]
		val, tag := e.stakeAround(role)
		k := getKey(e.c.Seed, 400+e.nextV%24)
		e.nextV++
		pub := crypto.CompressPubkey(&k.prv.PublicKey)
		if r.Intn(10) == 0 { // an existing validator's key
			pub = pickVal().pub
			tag += ",existing-key"
		}
		op := p.sender.addr
		if r.Intn(12) == 0 {
			op = w.users[0].addr
			tag += ",op?"
		}
		m := &staking.TxCreateValidator{Name: "n", OperatorAddress: op, Coinbase: op, MainPubKey: pub, BlsPubKey: model.Keccak256(pub), Value: val,
			Nonce: f.Nonce, CommissionRate: uint16(r.Intn(10001)), RiskObligation: uint16(r.Intn(10001)), AcceptDelegation: uint16(r.Intn(2)), Role: role}
		f.Payload = e.stakingPayload(staking.ValidatorCreate, m)
		p.kind, p.staked = "staking-create", val
		p.tags = append(p.tags, strings.Split(tag, ",")...)
		p.tags = append(p.tags, fmt.Sprint("role=", role))
		p.newVal = state.PubToAddress(pub)
	case 2: // update
		v := pickVal()
		own(v)
		m := &staking.TxUpdateValidator{Name: fmt.Sprint("u", r.Intn(5)), MainAddress: v.main, Coinbase: w.fresh[0], CommissionRate: uint16(r.Intn(10001)), RiskObligation: 0xffff, AcceptDelegation: uint16(r.Intn(2))}
		f.Payload = e.stakingPayload(staking.ValidatorUpdate, m)
		p.kind = "staking-update"
	case 3, 4: // deposit
		v := pickVal()
		own(v)
		var val *big.Int
		tag := ""
		if cur := e.st.GetValidatorByMainAddr(v.main); cur != nil && r.Intn(3) > 0 {
			// around the room left below the maximum total stake of the role
			room := new(big.Int).Sub(youN(int64(w.yp.MaxStakes[v.role])), cur.Token)
			if pend := e.st.GetStakingRecordValue(common.Address{}, v.main); pend.Sign() > 0 {
				room = new(big.Int).Sub(youN(int64(w.yp.MaxStakes[v.role])), pend)
			}
			switch r.Intn(4) {
			case 0:
				val, tag = room, "deposit=room"
			case 1:
				val, tag = new(big.Int).Add(room, new(big.Int).Sub(you, big.NewInt(1))), "deposit=room+0.99"
			case 2:
				val, tag = new(big.Int).Add(room, you), "deposit=room+1"
			default:
				val, tag = new(big.Int).Sub(room, you), "deposit=room-1"
			}
		}
		if val == nil || val.Sign() <= 0 {
			val, tag = youN(int64(1+r.Intn(50))), "deposit=small"
		}
		m := &staking.TxValidatorDeposit{MainAddress: v.main, Value: val, Nonce: f.Nonce}
		f.Payload = e.stakingPayload(staking.ValidatorDeposit, m)
		p.kind, p.staked = "staking-deposit", val
		p.tags = append(p.tags, tag)
	case 5: // withdraw
		v := pickVal()
		own(v)
		val := youN(int64(1 + r.Intn(2000)))
		if cur := e.st.GetValidatorByMainAddr(v.main); cur != nil && r.Intn(2) == 0 {
			val = new(big.Int).Add(cur.SelfToken, big.NewInt(int64(r.Intn(3)-1)))
			p.tags = append(p.tags, "withdraw~self")
		}
		m := &staking.TxValidatorWithdraw{MainAddress: v.main, Recipient: w.fresh[1], Value: val, Nonce: f.Nonce}
		f.Payload = e.stakingPayload(staking.ValidatorWithDraw, m)
		p.kind = "staking-withdraw"
	case 6: // change status
		v := pickVal()
		own(v)
		m := &staking.TxValidatorChangeStatus{MainAddress: v.main, Status: uint8(r.Intn(3)), Nonce: f.Nonce}
		f.Payload = e.stakingPayload(staking.ValidatorChangeStatus, m)
		p.kind = "staking-status"
	case 7: // settle
		v := pickVal()
		own(v)
		f.Payload = e.stakingPayload(staking.ValidatorSettle, &staking.TxValidatorSettle{MainAddress: v.main})
		p.kind = "staking-settle"
	case 8, 9: // delegation add
		v := pickVal()
		if r.Intn(3) > 0 {
			v = e.vals[3+r.Intn(2)] // the validators accepting delegations
		}
		minD := w.yp.MinDelegationTokens
		var val *big.Int
		tag := ""
		switch r.Intn(6) {
		case 0:
			val, tag = new(big.Int).Set(minD), "dlg=min"
		case 1:
			val, tag = new(big.Int).Sub(minD, big.NewInt(1)), "dlg=min-1unit"
		case 2:
			if cur := e.st.GetValidatorByMainAddr(v.main); cur != nil {
				room := new(big.Int).Sub(youN(int64(w.yp.MaxStakes[v.role])), cur.Token)
				if pend := e.st.GetStakingRecordValue(common.Address{}, v.main); pend.Sign() > 0 {
					room = new(big.Int).Sub(youN(int64(w.yp.MaxStakes[v.role])), pend)
				}
				val, tag = new(big.Int).Add(room, big.NewInt(int64(r.Intn(3)-1))), "dlg~room"
				if r.Intn(2) == 0 {
					val.Add(val, you)
					tag = "dlg=room+1"
				}
			}
		}
		if val == nil || val.Sign() <= 0 {
			val, tag = youN(int64(10+r.Intn(200))), "dlg=mid"
		}
		f.Payload = e.stakingPayload(staking.DelegationAdd, &staking.TxDelegation{Validator: v.main, Value: val})
		p.kind, p.staked = "staking-dlgadd", val
		p.tags = append(p.tags, tag)
	case 10: // delegation sub / settle
		v := pickVal()
		if r.Intn(4) > 0 {
			v = e.vals[4]
			if r.Intn(4) > 0 {
				p.sender = w.users[1] // the pre-state delegator
			}
		}
		if r.Intn(3) == 0 {
			f.Payload = e.stakingPayload(staking.DelegationSettle, &staking.TxDelegationSettle{Validator: v.main})
			p.kind = "staking-dlgsettle"
		} else {
			f.Payload = e.stakingPayload(staking.DelegationSub, &staking.TxDelegation{Validator: v.main, Value: youN(int64(1 + r.Intn(60)))})
			p.kind = "staking-dlgsub"
		}
	default: // malformed
		switch r.Intn(4) {
		case 0:
			f.Payload = nil
			p.kind = "staking-empty"
		case 1:
			f.Payload = make([]byte, 1+r.Intn(60))
			r.Read(f.Payload)
			p.kind = "staking-garbage"
		case 2:
			f.Payload = e.stakingPayload(staking.ActionType([]byte{0, 7, 0x0f, 0x13, 0xff}[r.Intn(5)]), &staking.TxValidatorSettle{MainAddress: pickVal().main})
			p.kind = "staking-unknown-action"
		default: // right action, payload of another action
			f.Payload = e.stakingPayload(staking.ValidatorDeposit, &staking.TxValidatorSettle{MainAddress: pickVal().main})
			p.kind = "staking-wrong-payload"
		}
	}
}

// ---- observation ----

type acct struct {
	bal   *big.Int
	nonce uint64
	code  string
}

func (e *env) observe() map[common.Address]acct {
	m := map[common.Address]acct{}
	for _, a := range e.uni.Addrs {
		m[a] = acct{new(big.Int).Set(e.st.GetBalance(a)), e.st.GetNonce(a), string(e.st.GetCode(a))}
	}
	return m
}

type applyWitness struct {
	Steps  []stepRec `json:"steps"`
	Detail string    `json:"detail"`
	Header string    `json:"header"`
}

func (e *env) wit(detail string) applyWitness {
	return applyWitness{Steps: e.steps, Detail: detail, Header: fmt.Sprintf("number=1 gasLimit=%d", e.header.GasLimit)}
}

const (
	errNonceHigh = "nonce too high"
	errNonceLow  = "nonce too low"
	errBalance   = "insufficient balance to pay for gas"
	errPool      = "gas limit reached"
)

func a4(a common.Address) string { return hex.EncodeToString(a[:4]) }

// step runs one planned transaction and judges it. Returns false after a violation.
func (e *env) step(i int, p *plan) bool {
	c, st := e.c, e.st
	rec := stepRec{Kind: p.kind, Tags: strings.Join(p.tags, ","), Sender: p.sender.addr.Hex(), Fields: showFields(p.f)}
	if p.setBal != nil {
		st.SetBalance(p.sender.addr, p.setBal)
		st.Finalise(true)
		rec.SetBal = p.setBal.String()
	}
	e.steps = append(e.steps, rec)
	cur := &e.steps[len(e.steps)-1]
	f := p.f
	sender := p.sender.addr
	var created common.Address
	if f.To == nil {
		created = common.Address(model.CreateAddress([20]byte(sender), f.Nonce))
		e.addU(created)
	}
	if p.newVal != (common.Address{}) {
		found := false
		for _, v := range e.uni.Vals {
			if v == p.newVal {
				found = true
			}
		}
		if !found {
			e.uni.Vals = append(e.uni.Vals, p.newVal)
		}
	}
	st.Prepare(p.hash, common.Hash{}, e.txIndex)
	pre := e.observe()
	preLive := mon.Live(st, e.uni, mon.Opts{Staking: true})
	preFlushed := mon.Flushed(st)
	prePool, preUsed, preRewards := e.gp.Gas(), e.header.GasUsed, new(big.Int).Set(e.header.GasRewards)
	preCodeTo := 0
	toKind := ""
	if f.To != nil {
		preCodeTo = st.GetCodeSize(common.Address(*f.To))
		if preCodeTo > 0 {
			toKind = e.w.ctKind[common.Address(*f.To)]
		}
	}

	snap := st.Snapshot()
	var receipt *types.Receipt
	var gas uint64
	var err error
	coinbase := e.header.Coinbase
	pv := kit.Guard(func() {
		receipt, gas, err = e.w.proc.ApplyTransaction(p.tx, e.w.signer, st, e.w.chain, e.header, &coinbase, &e.header.GasUsed, e.header.GasRewards, e.gp, e.w.cfg, local.FakeRecorder())
	})
	if pv != nil {
		c.Violation("apply-panic", fmt.Sprintf("step %d (%s): ApplyTransaction panicked: %v", i, p.kind, pv), e.wit(fmt.Sprint(pv)))
		return false
	}
	c.Evals(1)

	// ---- the model's outcome class ----
	lim := u64(f.Limit)
	cost := new(big.Int).Mul(lim, f.Price)
	intr := model.IntrinsicGas(p.base, f.Payload)
	sn, sb := pre[sender].nonce, pre[sender].bal
	reasons := map[string]bool{}
	if f.Nonce > sn {
		reasons[errNonceHigh] = true
	}
	if f.Nonce < sn {
		reasons[errNonceLow] = true
	}
	if sb.Cmp(cost) < 0 {
		reasons[errBalance] = true
	}
	if prePool < f.Limit {
		reasons[errPool] = true
	}
	want := "applied"
	switch {
	case p.sigBad:
		want = "sig-rejected"
	case len(reasons) > 0:
		want = "refused"
	case intr.Cmp(lim) > 0:
		want = "post-purchase-error"
	case !strings.HasPrefix(p.kind, "staking") && new(big.Int).Sub(sb, cost).Cmp(f.Value) < 0:
		want = "post-purchase-error"
	}

	unchanged := func(what string) bool {
		if d := mon.Diff(preLive, mon.Live(st, e.uni, mon.Opts{Staking: true})); len(d) > 0 {
			c.Violation(what+"-changed-state", fmt.Sprintf("step %d (%s): %s, but the live state changed: %s", i, p.kind, what, strings.Join(d, "; ")), e.wit(strings.Join(d, "; ")))
			return false
		}
		if d := mon.Diff(preFlushed, mon.Flushed(st)); len(d) > 0 {
			c.Violation(what+"-changed-state", fmt.Sprintf("step %d (%s): %s, but the flushed state (roots/tries) changed: %s", i, p.kind, what, strings.Join(d, "; ")), e.wit(strings.Join(d, "; ")))
			return false
		}
		if e.gp.Gas() != prePool {
			c.Violation(what+"-changed-gaspool", fmt.Sprintf("step %d (%s): %s, but the gas pool went %d -> %d", i, p.kind, what, prePool, e.gp.Gas()), e.wit(""))
			return false
		}
		if e.header.GasUsed != preUsed || e.header.GasRewards.Cmp(preRewards) != 0 {
			c.Violation(what+"-changed-header", fmt.Sprintf("step %d (%s): %s, but header.GasUsed %d -> %d, GasRewards %v -> %v", i, p.kind, what, preUsed, e.header.GasUsed, preRewards, e.header.GasRewards), e.wit(""))
			return false
		}
		return true
	}

	if err != nil {
		msg := err.Error()
		cur.Outcome = "error: " + msg
		if receipt != nil || gas != 0 {
			c.Violation("error-with-receipt", fmt.Sprintf("step %d: error %q together with receipt/gas %d", i, msg, gas), e.wit(msg))
			return false
		}
		isRefusal := msg == errNonceHigh || msg == errNonceLow || msg == errBalance || msg == errPool
		switch {
		case p.sigBad:
			if isRefusal || !(err == types.ErrInvalidSig || err == types.ErrInvalidNetworkId || err == types.ErrNotProtected || strings.Contains(msg, "recover") || strings.Contains(msg, "public key")) {
				c.Violation("bad-signature-passed-sender-recovery", fmt.Sprintf("step %d (%s): the error is %q, not a signature error", i, p.kind, msg), e.wit(msg))
				return false
			}
			c.Count("out_sig_rejected", 1)
			c.Sig("sig-rejected|" + p.kind)
			return unchanged("signature-rejected")
		case isRefusal:
			if p.replayOf != "" {
				c.Count("replay_refused", 1)
			}
			if len(reasons) == 0 {
				c.Violation("refused-without-reason", fmt.Sprintf("step %d (%s): refused with %q but none of the refusal conditions holds (state nonce %d, tx nonce %d, balance %v, gas cost %v, pool %d, limit %d)", i, p.kind, msg, sn, f.Nonce, sb, cost, prePool, f.Limit), e.wit(msg))
				return false
			}
			if !reasons[msg] {
				c.Count("refusal_label_differs", 1) // another refusal condition holds; the label is not part of the property
			}
			c.Count("out_refused", 1)
			c.Count("refused_"+strings.ReplaceAll(msg, " ", "-"), 1)
			for _, t := range p.tags {
				if strings.HasPrefix(t, "bal=") || strings.HasPrefix(t, "limit=pool") || strings.HasPrefix(t, "nonce") || strings.HasPrefix(t, "cost") {
					c.Count("refused_at_"+t, 1)
				}
			}
			c.Sig("refused|" + msg + "|" + kindClass(p.kind))
			return unchanged("refused-up-front")
		default:
			// after gas purchase: outside the three refusal reasons of the property; recorded, and the
			// state is reverted the way miner/worker.go does it.
			if want != "post-purchase-error" {
				c.Violation("unexpected-apply-error", fmt.Sprintf("step %d (%s): ApplyTransaction failed with %q; the model expected %s (state nonce %d, balance %v, gas cost %v, value %v, intrinsic %v, limit %d, pool %d)", i, p.kind, msg, want, sn, sb, cost, f.Value, intr, f.Limit, prePool), e.wit(msg))
				return false
			}
			c.Count("out_post_purchase_error", 1)
			c.Count("ppe_"+strings.ReplaceAll(msg, " ", "-"), 1)
			c.Sig("ppe|" + msg + "|" + kindClass(p.kind))
			if pv := kit.Guard(func() { st.RevertToSnapshot(snap) }); pv != nil {
				c.Violation("revert-after-error-panic", fmt.Sprintf("step %d: RevertToSnapshot after %q panicked: %v", i, msg, pv), e.wit(msg))
				return false
			}
			if d := mon.Diff(preLive, mon.Live(st, e.uni, mon.Opts{Staking: true})); len(d) > 0 {
				c.Count("ppe_revert_dirty", 1)
			} else {
				c.Count("ppe_revert_restored", 1)
			}
			if lost := prePool - e.gp.Gas(); lost > 0 {
				e.poolLeak += lost
				c.Count("ppe_pool_gas_not_returned", 1)
			}
			return true
		}
	}

	// ---- applied ----
	cur.Outcome = "applied"
	cur.GasUsed = gas
	if receipt == nil {
		c.Violation("applied-without-receipt", fmt.Sprintf("step %d: no error and no receipt", i), e.wit(""))
		return false
	}
	ok := receipt.Status == types.ReceiptStatusSuccessful
	cur.Status = fmt.Sprint(receipt.Status)
	if prev, dup := e.applied[p.hash]; dup {
		c.Violation("same-tx-applied-twice", fmt.Sprintf("step %d: transaction %x was already applied at step %s and is applied again", i, p.hash, prev), e.wit(""))
		return false
	}
	if p.sigBad {
		c.Violation("applied-with-bad-signature", fmt.Sprintf("step %d (%s): applied", i, p.kind), e.wit(""))
		return false
	}
	if len(reasons) > 0 {
		var rs []string
		for k := range reasons {
			rs = append(rs, k)
		}
		c.Violation("applied-despite-"+strings.ReplaceAll(firstReason(reasons), " ", "-"), fmt.Sprintf("step %d (%s): applied although %v (state nonce %d, tx nonce %d, balance %v, gas cost %v, pool %d, limit %d)", i, p.kind, rs, sn, f.Nonce, sb, cost, prePool, f.Limit), e.wit(""))
		return false
	}
	e.applied[p.hash] = fmt.Sprint(i)
	e.appliedTxs = append(e.appliedTxs, p)
	e.appliedFrom[sender]++
	e.txIndex++
	c.Count("out_applied", 1)
	if ok {
		c.Count("applied_success", 1)
	} else {
		c.Count("applied_failed", 1)
	}

	bad := func(class, format string, a ...interface{}) bool {
		m := fmt.Sprintf("step %d (%s %s): ", i, p.kind, strings.Join(p.tags, ",")) + fmt.Sprintf(format, a...)
		c.Violation(class, m, e.wit(m))
		return false
	}
	// gas bounds and receipt / pool / header bookkeeping
	if receipt.GasUsed != gas {
		return bad("receipt-gas-mismatch", "receipt.GasUsed=%d, returned gas=%d", receipt.GasUsed, gas)
	}
	if gas > f.Limit {
		return bad("gas-above-limit", "gasUsed=%d > limit=%d", gas, f.Limit)
	}
	refundCapable := toKind == "store" || toKind == "selfdestruct" || strings.HasPrefix(p.kind, "create-garbage") || strings.HasPrefix(p.kind, "create-store")
	// refund-earning transactions may legitimately net below the intrinsic cost (refund <= half of
	// the gas used), everything else may not
	if lower := u64(gas); (!refundCapable && lower.Cmp(intr) < 0) || (refundCapable && new(big.Int).Lsh(lower, 1).Cmp(intr) < 0) {
		return bad("gas-below-intrinsic", "gasUsed=%d < intrinsic=%v", gas, intr)
	}
	if e.header.GasUsed != preUsed+gas || receipt.CumulativeGasUsed != e.header.GasUsed {
		return bad("cumulative-gas-mismatch", "header.GasUsed %d -> %d, receipt.CumulativeGasUsed=%d, gasUsed=%d", preUsed, e.header.GasUsed, receipt.CumulativeGasUsed, gas)
	}
	wantRewards := new(big.Int).Add(preRewards, new(big.Int).Mul(u64(gas), f.Price))
	if e.header.GasRewards.Cmp(wantRewards) != 0 {
		return bad("gas-rewards-mismatch", "GasRewards %v -> %v, expected +gasUsed*price = %v", preRewards, e.header.GasRewards, wantRewards)
	}
	if receipt.TxHash != p.hash {
		return bad("receipt-txhash-mismatch", "receipt.TxHash=%x tx=%x", receipt.TxHash, p.hash)
	}
	if f.To == nil && receipt.ContractAddress != created || f.To != nil && receipt.ContractAddress != (common.Address{}) {
		return bad("contract-address-mismatch", "receipt.ContractAddress=%x, model keccak(rlp(sender,nonce))=%x", receipt.ContractAddress, created)
	}

	// expected balance deltas over the whole universe
	post := e.observe()
	delta := map[common.Address]*big.Int{}
	addD := func(a common.Address, x *big.Int) {
		if delta[a] == nil {
			delta[a] = new(big.Int)
		}
		delta[a].Add(delta[a], x)
	}
	neg := func(x *big.Int) *big.Int { return new(big.Int).Neg(x) }
	addD(sender, neg(new(big.Int).Mul(u64(gas), f.Price)))
	allowed := map[common.Address]bool{sender: true}
	isStaking := strings.HasPrefix(p.kind, "staking")
	moved := new(big.Int)
	if ok {
		switch {
		case isStaking:
			if p.staked != nil {
				moved = p.staked
				addD(sender, neg(p.staked))
			}
		case f.To == nil:
			moved = f.Value
			addD(sender, neg(f.Value))
			addD(created, f.Value)
			allowed[created] = true
		default:
			to := common.Address(*f.To)
			moved = f.Value
			addD(sender, neg(f.Value))
			allowed[to] = true
			switch toKind {
			case "forward":
				// the inner CALL forwards the value to the sink unless it ran short of gas, in
				// which case the value stays with the contract: exactly one of the two
				allowed[e.w.sink] = true
				if f.Value.Sign() > 0 && new(big.Int).Sub(post[to].bal, pre[to].bal).Cmp(f.Value) == 0 {
					addD(to, f.Value)
					c.Count("forward_kept", 1)
				} else {
					addD(e.w.sink, f.Value)
				}
			case "selfdestruct":
				addD(e.w.benef, new(big.Int).Add(pre[to].bal, f.Value))
				addD(to, neg(pre[to].bal))
				allowed[e.w.benef] = true
			default:
				addD(to, f.Value)
			}
		}
	}
	// the generator's ground truth about success where the EVM leaves no room
	switch {
	case p.kind == "transfer" || (f.To != nil && preCodeTo == 0 && !isStaking && p.kind != "precompile"):
		if !ok {
			return bad("transfer-failed", "a plain value transfer to a code-less account was included as failed")
		}
		if u64(gas).Cmp(intr) != 0 {
			return bad("transfer-gas-not-intrinsic", "plain transfer used %d gas, intrinsic is %v", gas, intr)
		}
		c.Count("exact_gas_checks", 1)
	case toKind == "nop" || p.kind == "create-empty":
		if !ok || u64(gas).Cmp(intr) != 0 {
			return bad("noop-code-gas", "status=%d gas=%d intrinsic=%v for code that executes nothing", receipt.Status, gas, intr)
		}
		c.Count("exact_gas_checks", 1)
	case toKind == "invalid" || toKind == "loop" || p.kind == "create-invalid":
		if ok || gas != f.Limit {
			return bad("exceptional-halt-gas", "status=%d gas=%d limit=%d for code that always halts exceptionally", receipt.Status, gas, f.Limit)
		}
		c.Count("exact_gas_checks", 1)
	case toKind == "revert" || p.kind == "create-revert" || p.kind == "create-bigcode":
		if ok {
			return bad("revert-reported-success", "status=%d for code that always reverts / exceeds the code size limit", receipt.Status)
		}
	}
	if bal := new(big.Int).Add(pre[sender].bal, delta[sender]); bal.Sign() < 0 {
		return bad("applied-without-funds", "sender balance %v cannot cover gasUsed*price + value moved (%v): model balance would be %v", pre[sender].bal, moved, bal)
	}

	// The refund finding, split out under its own class: gas handed back to the pool (and paid back
	// to the sender) beyond what receipt.GasUsed / header.GasUsed / GasRewards account for. The
	// case continues with the observed gap folded into the model so that everything else is
	// still judged.
	var gap uint64
	if refundCapable && e.gp.Gas() > prePool-gas {
		if g := e.gp.Gas() - (prePool - gas); g <= gas/2 {
			gap = g
		}
	}
	if gap > 0 {
		addD(sender, new(big.Int).Mul(u64(gap), f.Price))
		e.refundGap += gap
		c.Count("refund_gap_txs", 1)
		if !e.refundReported {
			e.refundReported = true
			m := fmt.Sprintf("step %d (%s %s): the sender was charged for %d gas (= %d minus an SSTORE/SELFDESTRUCT refund of %d) and the pool got the %d back, but receipt.GasUsed, header.GasUsed and header.GasRewards account the full %d: sender balance delta %v, value moved %v, price %v, GasRewards delta %v", i, p.kind, strings.Join(p.tags, ","), gas-gap, gas, gap, gap, gas, new(big.Int).Sub(post[sender].bal, pre[sender].bal), moved, f.Price, new(big.Int).Sub(e.header.GasRewards, preRewards))
			c.Violation("gas-refund-not-deducted-from-gas-used", m, e.wit(m))
		}
	}
	gotD := new(big.Int).Sub(post[sender].bal, pre[sender].bal)
	wantD := delta[sender]
	if gotD.Cmp(wantD) != 0 {
		return bad("sender-balance-mismatch", "sender balance %v -> %v (delta %v), model: -(gasUsed %d * price %v) - value moved %v = %v [status %d, refund gap %d]", pre[sender].bal, post[sender].bal, gotD, gas, f.Price, moved, wantD, receipt.Status, gap)
	}
	if post[sender].nonce != pre[sender].nonce+1 {
		return bad("nonce-not-incremented", "sender nonce %d -> %d", pre[sender].nonce, post[sender].nonce)
	}
	if e.gp.Gas() != prePool-gas+gap {
		return bad("gaspool-mismatch", "gas pool %d -> %d, gasUsed=%d", prePool, e.gp.Gas(), gas)
	}
	for _, a := range e.uni.Addrs {
		d := delta[a]
		if d == nil {
			d = new(big.Int)
		}
		if strings.HasPrefix(p.kind, "create-garbage") && a != sender {
			// arbitrary init code: it may legitimately move its endowment anywhere (a random byte
			// string that happens to SELFDESTRUCT or CALL towards a monitored address, e.g. 0x0);
			// what other accounts receive from arbitrary code is C16's subject, not this property's
			continue
		}
		if got := new(big.Int).Sub(post[a].bal, pre[a].bal); got.Cmp(d) != 0 {
			return bad("balance-mismatch", "account %x balance %v -> %v (delta %v), model delta %v [status %d, to-kind %q]", a, pre[a].bal, post[a].bal, got, d, receipt.Status, toKind)
		}
		if a != sender && post[a].nonce != pre[a].nonce && !(ok && (a == created && f.To == nil || (toKind == "selfdestruct" && a == common.Address(*f.To)))) {
			return bad("foreign-nonce-changed", "account %x nonce %d -> %d", a, pre[a].nonce, post[a].nonce)
		}
		if post[a].code != pre[a].code && !(ok && (a == created && f.To == nil || (toKind == "selfdestruct" && a == common.Address(*f.To)))) {
			return bad("foreign-code-changed", "account %x code changed", a)
		}
	}
	// frame condition over the complete digest
	postLive := mon.Live(st, e.uni, mon.Opts{Staking: true})
	postFlushed := mon.Flushed(st)
	// A pending staking record with a negative value cannot be RLP-encoded: StateDB.updateStakingTrie
	// then aborts in the middle of its map-ordered loop and the staking root depends on Go's map
	// iteration order. Not a C17 accounting matter, but it makes the digest this monitor relies on
	// ill-defined, so it is reported under its own class and the case stops here.
	for k, v := range postLive {
		if strings.HasPrefix(k, "stakingrec/") && strings.HasPrefix(v, "-") {
			roots := map[common.Hash]bool{}
			for j := 0; j < 16; j++ {
				_, _, sr := st.Copy().IntermediateRoot(true)
				roots[sr] = true
			}
			return bad("negative-staking-record-nondeterministic-staking-root", "after this transaction the pending staking record %s has the negative value %s; rlp cannot encode it, updateStakingTrie aborts mid-loop, and 16 identical copies of the state computed %d distinct staking roots", k, v, len(roots))
		}
	}
	trieKey := map[string]common.Address{}
	for _, a := range e.uni.Addrs {
		trieKey["t/acct/"+hex.EncodeToString(model.Keccak256(a[:])[:6])] = a
	}
	mayLog := ok && (isStaking || toKind == "log" || strings.HasPrefix(p.kind, "create-garbage"))
	for _, d := range append(mon.Diff(preLive, postLive), mon.Diff(preFlushed, postFlushed)...) {
		key := d[:strings.Index(d, ": ")]
		switch {
		case strings.HasPrefix(key, "acct/"):
			okKey := false
			for a := range allowed {
				if strings.HasPrefix(key, "acct/"+a4(a)+"/") {
					okKey = true
				}
			}
			if !okKey {
				return bad("unexpected-state-change", "%s", d)
			}
		case strings.HasPrefix(key, "t/acct/"):
			if a, known := trieKey[key]; !known || !allowed[a] {
				return bad("unexpected-state-change", "%s", d)
			}
		case key == "root" || key == "preimages":
		case key == "logs":
			if !mayLog {
				return bad("unexpected-state-change", "%s", d)
			}
		case key == "stakingroot" || strings.HasPrefix(key, "t/stakingtrie/") || strings.HasPrefix(key, "stakingrec") || key == "pendingrel":
			if !(isStaking && ok) {
				return bad("unexpected-state-change", "%s", d)
			}
		default: // validators, validator index / statistics, withdraw queue, valroot, refund counter
			return bad("unexpected-state-change", "%s", d)
		}
	}
	c.Count("frame_checks", 1)
	// evidence
	st8 := "failed"
	if ok {
		st8 = "success"
	}
	gasB := "mid"
	switch {
	case u64(gas).Cmp(intr) == 0:
		gasB = "intrinsic"
	case gas == f.Limit:
		gasB = "limit"
	}
	c.Sig(fmt.Sprintf("applied|%s|%s|gas=%s|%s", p.kind, st8, gasB, strings.Join(p.tags, ",")))
	c.Count("applied_"+kindClass(p.kind), 1)
	if isStaking {
		c.Count(p.kind+"_"+st8, 1)
		if p.staked != nil && ok {
			c.Count("stake_moved", 1)
		}
	}
	for _, t := range p.tags {
		if strings.HasPrefix(t, "bal=") || strings.HasPrefix(t, "cost") || strings.HasPrefix(t, "price") || strings.HasPrefix(t, "limit=") || strings.HasPrefix(t, "stake=") || strings.HasPrefix(t, "deposit=") || strings.HasPrefix(t, "dlg") {
			c.Count("applied_at_"+t, 1)
		}
	}
	if cost.BitLen() > 64 {
		c.Count("applied_cost_above_2^64", 1)
	}
	c.Max("max_gas_cost_bits", int64(cost.BitLen()))
	if want == "post-purchase-error" {
		// the model expected an error after gas purchase (value not affordable / intrinsic above
		// limit) but the transaction was applied: caught above by gas-below-intrinsic or
		// applied-without-funds unless it was included as failed, which is tolerated.
		c.Count("applied_where_model_expected_error", 1)
		if ok {
			return bad("applied-without-funds", "applied successfully although balance %v < gas cost %v + value %v", sb, cost, f.Value)
		}
	}
	return true
}

func firstReason(m map[string]bool) string {
	for _, k := range []string{errNonceHigh, errNonceLow, errBalance, errPool} {
		if m[k] {
			return k
		}
	}
	return "?"
}

func kindClass(k string) string {
	switch {
	case strings.HasPrefix(k, "staking"):
		return "staking"
	case strings.HasPrefix(k, "create"):
		return "create"
	case strings.HasPrefix(k, "c-"):
		return "contract"
	case strings.HasPrefix(k, "sig"):
		return "sig"
	}
	return k
}

func runApply(c *kit.Ctx) {
	c.Begin("world", nil)
	if theWorld == nil {
		w, err := buildWorld(c.Seed)
		if err != nil {
			c.Note("world: " + err.Error())
			c.EndInconclusive("cannot build the chain context: " + err.Error())
			return
		}
		theWorld = w
	}
	// self-check of the intrinsic gas formula against the published constants
	if model.IntrinsicGas(21000, []byte{0, 1, 0, 2}).Uint64() != 21000+2*4+2*16 || model.IntrinsicGas(53000, nil).Uint64() != 53000 {
		c.EndInconclusive("intrinsic gas model self-check failed")
		return
	}
	c.End("")
	n := c.N(1600, 16000)
	for i := 0; i < n; i++ {
		id := fmt.Sprintf("a%d", i)
		if !c.Mine(i, id) {
			continue
		}
		runApplyCase(c, id)
	}
}

func runApplyCase(c *kit.Ctx, id string) {
	r := c.Rand(id)
	nsteps := 12 + r.Intn(28)
	c.Begin(id, map[string]interface{}{"steps": nsteps})
	if theWorld.used++; theWorld.used > casesPerWorld {
		w, err := buildWorld(c.Seed)
		if err != nil {
			c.EndInconclusive("cannot rebuild the chain context: " + err.Error())
			return
		}
		theWorld.close()
		theWorld = w
	}
	e := &env{c: c, r: r, w: theWorld}
	if err := e.setup(); err != nil {
		c.EndInconclusive("setup: " + err.Error())
		return
	}
	for i := 0; i < nsteps; i++ {
		p := e.genPlan(i)
		if !e.step(i, p) {
			c.End("")
			return
		}
		// like the miner: a block whose pool cannot take any transaction any more is finished
		// (after a few more attempts, which must all be refused)
		if e.gp.Gas() < 21000 {
			if e.dry++; e.dry > 3 {
				break
			}
		}
	}
	// history invariants: every account's nonce advanced by exactly the number of its applied txs;
	// the pool holds what the header did not use (minus gas the worker-style revert cannot return)
	for _, u := range e.w.users {
		got := e.st.GetNonce(u.addr) - e.nonce0[u.addr]
		if got != e.appliedFrom[u.addr] {
			c.Violation("nonce-history-mismatch", fmt.Sprintf("account %x: nonce advanced by %d over the block, %d of its transactions were applied", u.addr, got, e.appliedFrom[u.addr]), e.wit(""))
			c.End("")
			return
		}
	}
	if e.gp.Gas() != e.header.GasLimit-e.header.GasUsed-e.poolLeak+e.refundGap {
		c.Violation("gaspool-history-mismatch", fmt.Sprintf("pool=%d, limit=%d, header.GasUsed=%d, lost by post-purchase errors=%d", e.gp.Gas(), e.header.GasLimit, e.header.GasUsed, e.poolLeak), e.wit(""))
		c.End("")
		return
	}
	if len(c.Only) > 0 || id == "a0" || id == "a1" {
		c.Sample(map[string]interface{}{"case": id, "steps": e.steps})
	}
	c.End(fmt.Sprintf("gl=%d|applied=%d", bitsBucket(e.header.GasLimit), len(e.appliedTxs)/4))
}

func bitsBucket(x uint64) int { return u64(x).BitLen() / 8 }
