package c17

// C17.sign — authenticity: types.Sender against the key that signed.
//
// Oracle: an independent secp256k1/ECDSA/RLP/keccak model (verif/model/c17_secp.go). For every
// honestly signed transaction the recovered sender must be the model address of the signing key;
// every single-field mutation, foreign network id, high-s twin, v-flip, transplanted or malformed
// signature must be rejected or recover a different sender, and whatever sender is returned must
// be the address the model recovers from exactly these fields.

import (
	"crypto/ecdsa"
	"encoding/hex"
	"fmt"
	"math/big"
	"math/rand"
	"strings"

	"verif/kit"
	"verif/model"

	"github.com/youchainhq/go-youchain/common"
	"github.com/youchainhq/go-youchain/core/types"
	"github.com/youchainhq/go-youchain/crypto"
	"github.com/youchainhq/go-youchain/params"
	"github.com/youchainhq/go-youchain/rlp"
)

func init() { kit.Register("C17.sign", runSign) }

// rawSigner lets the harness attach arbitrary (also negative / oversized) V, R, S values through
// the exported Transaction.WithSignature.
type rawSigner struct{ r, s, v *big.Int }

func (rawSigner) Sender(*types.Transaction) (common.Address, error) { return common.Address{}, nil }
func (x rawSigner) SignatureValues(*types.Transaction, []byte) (*big.Int, *big.Int, *big.Int, error) {
	return new(big.Int).Set(x.r), new(big.Int).Set(x.s), new(big.Int).Set(x.v), nil
}
func (rawSigner) Hash(*types.Transaction) common.Hash { return common.Hash{} }
func (rawSigner) Equal(types.Signer) bool             { return false }

type keyRec struct {
	d    *big.Int
	prv  *ecdsa.PrivateKey
	x, y *big.Int
	addr common.Address // model address
}

var keyCache = map[string]*keyRec{}

// getKey derives key i of this run (seed-determined) and its model public key / address.
func getKey(seed int64, i int) *keyRec {
	id := fmt.Sprintf("%d/%d", seed, i)
	if k, ok := keyCache[id]; ok {
		return k
	}
	d := new(big.Int).SetBytes(model.Keccak256([]byte("c17-key/" + id)))
	d.Mod(d, new(big.Int).Sub(model.SecpN, big.NewInt(1)))
	d.Add(d, big.NewInt(1))
	prv, err := crypto.ToECDSA(common.LeftPadBytes(d.Bytes(), 32))
	if err != nil {
		panic(err)
	}
	x, y := model.SecpPub(d)
	k := &keyRec{d: d, prv: prv, x: x, y: y, addr: common.Address(model.SecpAddress(x, y))}
	keyCache[id] = k
	return k
}

func cloneFields(f *model.TxFields) *model.TxFields {
	g := &model.TxFields{Nonce: f.Nonce, Price: new(big.Int).Set(f.Price), Limit: f.Limit, Value: new(big.Int).Set(f.Value), Payload: common.CopyBytes(f.Payload)}
	if f.To != nil {
		t := *f.To
		g.To = &t
	}
	return g
}

type fieldsJSON struct {
	Nonce   uint64 `json:"nonce"`
	Price   string `json:"price"`
	Limit   uint64 `json:"limit"`
	To      string `json:"to"`
	Value   string `json:"value"`
	Payload string `json:"payload"`
}

func showFields(f *model.TxFields) fieldsJSON {
	to := "nil"
	if f.To != nil {
		to = hex.EncodeToString(f.To[:])
	}
	return fieldsJSON{f.Nonce, f.Price.String(), f.Limit, to, f.Value.String(), hex.EncodeToString(f.Payload)}
}

// buildTx constructs the real transaction. path 0: constructor + WithSignature; path 1: the wire
// encoding produced by the model encoder, decoded by the real rlp decoder (only non-negative
// v, r, s can travel that way).
func buildTx(f *model.TxFields, v, r, s *big.Int, path int) (*types.Transaction, error) {
	if path == 1 && v.Sign() >= 0 && r.Sign() >= 0 && s.Sign() >= 0 {
		tx := new(types.Transaction)
		if err := rlp.DecodeBytes(model.TxEncode(f, v, r, s), tx); err != nil {
			return nil, err
		}
		return tx, nil
	}
	var tx *types.Transaction
	if f.To == nil {
		tx = types.NewContractCreation(f.Nonce, f.Value, f.Limit, f.Price, f.Payload)
	} else {
		tx = types.NewTransaction(f.Nonce, common.Address(*f.To), f.Value, f.Limit, f.Price, f.Payload)
	}
	return tx.WithSignature(rawSigner{r, s, v}, nil)
}

var (
	big2   = big.NewInt(2)
	big35  = big.NewInt(35)
	two64  = new(big.Int).Lsh(big.NewInt(1), 64)
	two256 = new(big.Int).Lsh(big.NewInt(1), 256)
)

func u64(x uint64) *big.Int { return new(big.Int).SetUint64(x) }

// modelSender: what the specification says about (fields, v, r, s) under network id net:
// ok=false when no key can have produced it (r/s out of range, V not 35+2*net+{0,1}, no such
// curve point).
func modelSender(f *model.TxFields, v, r, s *big.Int, net uint64) (common.Address, bool) {
	rec := new(big.Int).Sub(v, big35)
	rec.Sub(rec, new(big.Int).Mul(u64(net), big2))
	if rec.Sign() < 0 || rec.Cmp(big.NewInt(1)) > 0 {
		return common.Address{}, false
	}
	// (no low-s rule here: a high-s signature that is accepted with ANOTHER sender does not
	// contradict the statement; the twin that keeps the sender is caught as mutation-keeps-sender)
	x, y, err := model.SecpRecover(model.TxSigHash(f, u64(net)), r, s, int(rec.Int64()))
	if err != nil {
		return common.Address{}, false
	}
	return common.Address(model.SecpAddress(x, y)), true
}

var netIDs = []uint64{1, 2, 10, 99, 1000, 0xffffffff, 1 << 32, 1<<63 - 18, 1<<63 - 17, 1 << 63, 1<<64 - 1}

func genBig(r *rand.Rand) *big.Int {
	switch r.Intn(10) {
	case 0:
		return new(big.Int)
	case 1:
		return big.NewInt(int64(1 + r.Intn(127)))
	case 2:
		return big.NewInt(int64(128 + r.Intn(1000)))
	case 3:
		return new(big.Int).Add(two64, big.NewInt(int64(r.Intn(3)-1)))
	case 4:
		return new(big.Int).Sub(two256, big.NewInt(int64(1+r.Intn(2))))
	case 5:
		return new(big.Int).Lsh(big.NewInt(1), uint(r.Intn(256)))
	default:
		b := make([]byte, 1+r.Intn(32))
		r.Read(b)
		return new(big.Int).SetBytes(b)
	}
}

func genU64(r *rand.Rand) uint64 {
	switch r.Intn(8) {
	case 0:
		return 0
	case 1:
		return uint64(1 + r.Intn(127))
	case 2:
		return uint64(128 + r.Intn(128))
	case 3:
		return 1<<64 - 1
	case 4:
		return 1 << uint(r.Intn(64))
	default:
		return r.Uint64() >> uint(r.Intn(64))
	}
}

func genPayload(r *rand.Rand) []byte {
	switch r.Intn(10) {
	case 0:
		return nil
	case 1:
		return []byte{0}
	case 2:
		return []byte{0x7f}
	case 3:
		return []byte{0x80}
	case 4:
		b := make([]byte, 54+r.Intn(4)) // around the short/long RLP string boundary
		r.Read(b)
		return b
	case 5:
		b := make([]byte, 250+r.Intn(12)) // around the 1-/2-byte length boundary
		r.Read(b)
		return b
	case 6:
		return make([]byte, 1+r.Intn(40)) // zeros
	default:
		b := make([]byte, 1+r.Intn(48))
		r.Read(b)
		return b
	}
}

func genFields(r *rand.Rand) *model.TxFields {
	f := &model.TxFields{Nonce: genU64(r), Price: genBig(r), Limit: genU64(r), Value: genBig(r), Payload: genPayload(r)}
	switch r.Intn(6) {
	case 0: // creation
	case 1:
		a := [20]byte(params.StakingModuleAddress)
		f.To = &a
	case 2:
		f.To = &[20]byte{}
	default:
		var a [20]byte
		r.Read(a[:])
		if r.Intn(4) == 0 {
			a[0] = 0
		}
		f.To = &a
	}
	return f
}

type mutant struct {
	desc    string
	f       *model.TxFields
	v, r, s *big.Int
	net     uint64
	always  bool // always run the model recovery when the real code accepts
}

type signCase struct {
	c           *kit.Ctx
	r           *rand.Rand
	modelBudget int // sampled model recoveries left in this case
	cnt         map[string]int
	evals       int
}

func (sc *signCase) flush() {
	for k, v := range sc.cnt {
		sc.c.Count(k, v)
	}
	sc.c.Evals(sc.evals)
	sc.cnt = map[string]int{}
	sc.evals = 0
}

func errBucket(err error) string {
	s := err.Error()
	switch {
	case err == types.ErrInvalidSig:
		return "invalid-vrs"
	case err == types.ErrInvalidNetworkId:
		return "invalid-network-id"
	case err == types.ErrNotProtected:
		return "not-protected"
	case strings.Contains(s, "recovery failed"), strings.Contains(s, "recover"):
		return "recover-failed"
	case strings.Contains(s, "rlp"):
		return "decode"
	}
	return "other"
}

type sigWitness struct {
	What    string     `json:"what"`
	Orig    fieldsJSON `json:"orig_fields"`
	OrigNet uint64     `json:"orig_net"`
	OrigV   string     `json:"orig_v"`
	Fields  fieldsJSON `json:"fields"`
	Net     uint64     `json:"net"`
	V       string     `json:"v"`
	R       string     `json:"r"`
	S       string     `json:"s"`
	Path    int        `json:"path"`
	Signer  string     `json:"signer_addr"`
	Got     string     `json:"got"`
}

// evalMutant runs one mutant; returns false if a violation was reported.
func (sc *signCase) evalMutant(orig *mutant, signer common.Address, m *mutant, path int) bool {
	c := sc.c
	sc.evals++
	if m.desc == "" {
		m.desc = fmt.Sprintf("V=%s under signer net %d", m.v, m.net)
	}
	wit := func(got string) sigWitness {
		return sigWitness{m.desc, showFields(orig.f), orig.net, orig.v.String(), showFields(m.f), m.net, m.v.String(), m.r.Text(16), m.s.Text(16), path, signer.Hex(), got}
	}
	var got common.Address
	var err error
	p := kit.Guard(func() {
		var tx *types.Transaction
		tx, err = buildTx(m.f, m.v, m.r, m.s, path)
		if err != nil {
			return
		}
		got, err = types.Sender(types.NewYouSigner(m.net), tx)
	})
	if p != nil {
		c.Violation("sender-panic", fmt.Sprintf("%s: panic %v", m.desc, p), wit(""))
		return false
	}
	if err != nil {
		sc.cnt["mut_rejected"]++
		sc.cnt["rej_"+errBucket(err)]++
		return true
	}
	sc.cnt["mut_accepted_other_sender"]++
	if got == signer {
		c.Violation("mutation-keeps-sender", fmt.Sprintf("%s: still recovers the original sender %x", m.desc, signer), wit(got.Hex()))
		return false
	}
	if m.always || sc.modelBudget > 0 {
		if !m.always {
			sc.modelBudget--
		}
		sc.cnt["model_recoveries"]++
		want, ok := modelSender(m.f, m.v, m.r, m.s, m.net)
		if !ok {
			c.Violation("sender-for-unsigned-tx", fmt.Sprintf("%s: Sender returned %x but no key signed these fields for network %d (model rejects)", m.desc, got, m.net), wit(got.Hex()))
			return false
		}
		if want != got {
			c.Violation("sender-not-signer", fmt.Sprintf("%s: Sender returned %x, the key that signed exactly these fields has address %x", m.desc, got, want), wit(got.Hex()))
			return false
		}
	}
	return true
}

func flipBit(b []byte, i int) []byte {
	o := common.CopyBytes(b)
	o[i/8] ^= 1 << uint(i%8)
	return o
}

// fieldMutants enumerates single-field mutations of f.
func fieldMutants(r *rand.Rand, o *mutant) []*mutant {
	var out []*mutant
	add := func(desc string, edit func(g *model.TxFields) bool) {
		g := cloneFields(o.f)
		if !edit(g) {
			return
		}
		out = append(out, &mutant{desc: desc, f: g, v: o.v, r: o.r, s: o.s, net: o.net})
	}
	// nonce
	add("nonce+1", func(g *model.TxFields) bool { g.Nonce++; return true })
	add("nonce-1", func(g *model.TxFields) bool { g.Nonce--; return true })
	add("nonce-bit", func(g *model.TxFields) bool { g.Nonce ^= 1 << uint(r.Intn(64)); return true })
	add("nonce-rand", func(g *model.TxFields) bool { n := r.Uint64(); ok := n != g.Nonce; g.Nonce = n; return ok })
	add("nonce=0", func(g *model.TxFields) bool { ok := g.Nonce != 0; g.Nonce = 0; return ok })
	add("nonce<<8", func(g *model.TxFields) bool { n := g.Nonce << 8; ok := n != g.Nonce; g.Nonce = n; return ok })
	// limit
	add("limit+1", func(g *model.TxFields) bool { g.Limit++; return true })
	add("limit-1", func(g *model.TxFields) bool { g.Limit--; return true })
	add("limit-bit", func(g *model.TxFields) bool { g.Limit ^= 1 << uint(r.Intn(64)); return true })
	add("limit<->nonce", func(g *model.TxFields) bool { g.Limit, g.Nonce = g.Nonce, g.Limit; return g.Limit != g.Nonce })
	// price / value
	bigMut := func(name string, get func(g *model.TxFields) **big.Int) {
		add(name+"+1", func(g *model.TxFields) bool { p := get(g); *p = new(big.Int).Add(*p, big.NewInt(1)); return true })
		add(name+"-1", func(g *model.TxFields) bool {
			p := get(g)
			if (*p).Sign() == 0 {
				return false
			}
			*p = new(big.Int).Sub(*p, big.NewInt(1))
			return true
		})
		add(name+"-bit", func(g *model.TxFields) bool {
			p := get(g)
			i := r.Intn(256)
			x := new(big.Int).Set(*p)
			x.SetBit(x, i, x.Bit(i)^1)
			*p = x
			return true
		})
		add(name+"=0", func(g *model.TxFields) bool { p := get(g); ok := (*p).Sign() != 0; *p = new(big.Int); return ok })
		add(name+"<<8", func(g *model.TxFields) bool {
			p := get(g)
			if (*p).Sign() == 0 || (*p).BitLen() > 248 {
				return false
			}
			*p = new(big.Int).Lsh(*p, 8)
			return true
		})
		add(name+"+2^256", func(g *model.TxFields) bool { p := get(g); *p = new(big.Int).Add(*p, two256); return true })
	}
	bigMut("price", func(g *model.TxFields) **big.Int { return &g.Price })
	bigMut("value", func(g *model.TxFields) **big.Int { return &g.Value })
	add("price<->value", func(g *model.TxFields) bool { g.Price, g.Value = g.Value, g.Price; return g.Price.Cmp(g.Value) != 0 })
	// recipient
	add("to->nil", func(g *model.TxFields) bool { ok := g.To != nil; g.To = nil; return ok })
	add("to->zero-address", func(g *model.TxFields) bool {
		ok := g.To == nil || *g.To != [20]byte{}
		g.To = &[20]byte{}
		return ok
	})
	add("to->staking", func(g *model.TxFields) bool {
		a := [20]byte(params.StakingModuleAddress)
		ok := g.To == nil || *g.To != a
		g.To = &a
		return ok
	})
	add("to->random", func(g *model.TxFields) bool { var a [20]byte; r.Read(a[:]); g.To = &a; return true })
	add("to-bit", func(g *model.TxFields) bool {
		if g.To == nil {
			return false
		}
		var a [20]byte
		copy(a[:], flipBit(g.To[:], r.Intn(160)))
		g.To = &a
		return true
	})
	// payload
	n := len(o.f.Payload)
	pos := map[int]bool{}
	if n <= 64 {
		for i := 0; i < n; i++ {
			pos[i] = true
		}
	} else {
		pos[0], pos[n-1] = true, true
		for len(pos) < 24 {
			pos[r.Intn(n)] = true
		}
	}
	for i := range pos {
		i := i
		add(fmt.Sprintf("payload[%d]-bit", i), func(g *model.TxFields) bool { g.Payload = flipBit(g.Payload, i*8+r.Intn(8)); return true })
	}
	if n > 0 && n <= 64 {
		// every byte to 0x00 / 0x80 (RLP single-byte boundary) when different
		for i := 0; i < n; i++ {
			i := i
			for _, nv := range []byte{0x00, 0x80} {
				nv := nv
				add(fmt.Sprintf("payload[%d]=%02x", i, nv), func(g *model.TxFields) bool {
					if g.Payload[i] == nv {
						return false
					}
					g.Payload[i] = nv
					return true
				})
			}
		}
	}
	add("payload+00", func(g *model.TxFields) bool { g.Payload = append(g.Payload, 0); return true })
	add("00+payload", func(g *model.TxFields) bool { g.Payload = append([]byte{0}, g.Payload...); return true })
	add("payload+rand", func(g *model.TxFields) bool { g.Payload = append(g.Payload, byte(1+r.Intn(255))); return true })
	add("payload-last", func(g *model.TxFields) bool {
		if len(g.Payload) == 0 {
			return false
		}
		g.Payload = g.Payload[:len(g.Payload)-1]
		return true
	})
	add("payload-first", func(g *model.TxFields) bool {
		if len(g.Payload) == 0 {
			return false
		}
		g.Payload = g.Payload[1:]
		return true
	})
	add("payload=nil", func(g *model.TxFields) bool { ok := len(g.Payload) > 0; g.Payload = nil; return ok })
	// boundary moves between adjacent fields (same concatenated bytes, different split)
	add("value-byte->payload", func(g *model.TxFields) bool {
		b := g.Value.Bytes()
		if len(b) == 0 {
			return false
		}
		g.Payload = append([]byte{b[len(b)-1]}, g.Payload...)
		g.Value = new(big.Int).SetBytes(b[:len(b)-1])
		return true
	})
	add("payload-byte->value", func(g *model.TxFields) bool {
		if len(g.Payload) == 0 || g.Value.BitLen() > 248 || (g.Value.Sign() == 0 && g.Payload[0] == 0) {
			return false
		}
		g.Value = new(big.Int).SetBytes(append(g.Value.Bytes(), g.Payload[0]))
		g.Payload = g.Payload[1:]
		return true
	})
	add("to-bytes->payload", func(g *model.TxFields) bool {
		if g.To == nil {
			return false
		}
		g.Payload = append(common.CopyBytes(g.To[:]), g.Payload...)
		g.To = nil
		return true
	})
	return out
}

func specials(r *rand.Rand) []*big.Int {
	rb := make([]byte, 32)
	r.Read(rb)
	rb33 := make([]byte, 33)
	r.Read(rb33)
	rb33[0] |= 1
	small := big.NewInt(int64(1 + r.Intn(5)))
	return []*big.Int{
		new(big.Int), big.NewInt(1), small, big.NewInt(-1), new(big.Int).Neg(small),
		new(big.Int).Sub(model.SecpN, big.NewInt(1)), new(big.Int).Set(model.SecpN), new(big.Int).Add(model.SecpN, big.NewInt(1)),
		new(big.Int).Set(model.SecpHalfN), new(big.Int).Add(model.SecpHalfN, big.NewInt(1)),
		new(big.Int).Sub(model.SecpP, big.NewInt(1)), new(big.Int).Set(model.SecpP),
		new(big.Int).Sub(two256, big.NewInt(1)), new(big.Int).Set(two256),
		new(big.Int).SetBytes(rb), new(big.Int).SetBytes(rb33),
	}
}

// vCenters are the structurally meaningful V values for signer network m and signed network n.
func vCenters(m, n uint64) []*big.Int {
	M := u64(m)
	M2 := new(big.Int).Mul(M, big2)
	N2 := new(big.Int).Mul(u64(n), big2)
	add := func(a *big.Int, k int64) *big.Int { return new(big.Int).Add(a, big.NewInt(k)) }
	cs := []*big.Int{
		big.NewInt(0), big.NewInt(27), big.NewInt(35),
		M2, add(M2, 8), add(M2, 35), add(M2, 35+256), add(M2, 8-27), add(M2, 8+255),
		add(N2, 35),
		new(big.Int).Neg(add(M2, 35)), new(big.Int).Neg(add(M2, 8)), big.NewInt(-35),
		add(two64, 0), add(two64, 35), add(new(big.Int).Add(two64, M2), 35), add(new(big.Int).Sub(M2, two64), 35),
		M, add(M, 35),
	}
	return cs
}

const vWindow = 36

func runSign(c *kit.Ctx) {
	// self-check of the model against published vectors (EIP-155 example, well-known test key)
	c.Begin("vectors", nil)
	{
		d, _ := new(big.Int).SetString("4646464646464646464646464646464646464646464646464646464646464646", 16)
		x, y := model.SecpPub(d)
		to := [20]byte{}
		copy(to[:], common.FromHex("3535353535353535353535353535353535353535"))
		f := &model.TxFields{Nonce: 9, Price: big.NewInt(20000000000), Limit: 21000, To: &to, Value: new(big.Int).Mul(big.NewInt(1e9), big.NewInt(1e9))}
		rr, _ := new(big.Int).SetString("18515461264373351373200002665853028612451056578545711640558177340181847433846", 10)
		ss, _ := new(big.Int).SetString("46948507304638947509940763649030358759909902576025900602547168820602576006531", 10)
		a, ok := modelSender(f, big.NewInt(37), rr, ss, 1)
		d2, _ := new(big.Int).SetString("b71c71a67e1177ad4e901695e1b4b9ee17ae16c6668d313eac2f96dbcda3f291", 16)
		x2, y2 := model.SecpPub(d2)
		a2 := model.SecpAddress(x2, y2)
		if hex.EncodeToString(model.TxSigHash(f, big.NewInt(1))) != "daf5a779ae972f972197303d7b574746c7ef83eadac0f2791ad23db92e4c8e53" ||
			!ok || a.Hex() != common.HexToAddress("0x9d8A62f656a8d1615C1294fd71e9CFb3E4855A4F").Hex() || common.Address(model.SecpAddress(x, y)) != a ||
			hex.EncodeToString(model.TxHash(f, big.NewInt(37), rr, ss)) != "33469b22e9f636356c4160a87eb19df52b7412e8eac32a4a55ffe88ea8350788" ||
			hex.EncodeToString(a2[:]) != "71562b71999873db5b286df957af199ec94617f7" || !model.SecpVerify(model.TxSigHash(f, big.NewInt(1)), rr, ss, x, y) {
			c.EndInconclusive("reference secp256k1/tx-hash model fails the published EIP-155 vector")
			return
		}
	}
	c.End("")

	n := c.N(400, 12000)
	if c.Mode == "asan" {
		n = c.N(200, 2000)
	}
	for i := 0; i < n; i++ {
		id := fmt.Sprintf("g%d", i)
		if !c.Mine(i, id) {
			continue
		}
		runSignCase(c, id, i)
	}
}

const txPerSignCase = 3

func runSignCase(c *kit.Ctx, id string, idx int) {
	r := c.Rand(id)
	c.Begin(id, map[string]interface{}{"txs": txPerSignCase})
	sc := &signCase{c: c, r: r, modelBudget: 8, cnt: map[string]int{}}
	defer sc.flush()
	var prev *mutant
	for t := 0; t < txPerSignCase; t++ {
		key := getKey(c.Seed, r.Intn(8))
		f := genFields(r)
		net := netIDs[r.Intn(len(netIDs))]
		if r.Intn(4) == 0 {
			net = 1 + r.Uint64()>>uint(r.Intn(64))
			if net == 0 {
				net = 7
			}
		}
		h := model.TxSigHash(f, u64(net))
		o := &mutant{desc: "honest", f: f, net: net}
		var highS *mutant
		mode := "real-signer"
		if r.Intn(2) == 0 {
			// the real signer (cgo libsecp256k1 through types.SignTx)
			var tx *types.Transaction
			var err error
			p := kit.Guard(func() {
				tx0, _ := buildTx(f, new(big.Int), new(big.Int), new(big.Int), 0)
				tx, err = types.SignTx(tx0, types.NewYouSigner(net), key.prv)
			})
			if p != nil || err != nil {
				c.Violation("sign-failed", fmt.Sprintf("SignTx failed: panic=%v err=%v", p, err), showFields(f))
				c.End("")
				return
			}
			o.v, o.r, o.s = tx.RawSignatureValues()
			c.Evals(1)
			// the produced signature must be a valid low-s signature of exactly these fields
			if !model.SecpVerify(h, o.r, o.s, key.x, key.y) {
				c.Violation("signature-not-over-fields", "SignTx produced (r,s) that is not a valid signature of the model hash of the fields under the signing key",
					sigWitness{What: "SignTx", Fields: showFields(f), Net: net, V: o.v.String(), R: o.r.Text(16), S: o.s.Text(16), Signer: key.addr.Hex()})
				c.End("")
				return
			}
			// the signer the node itself builds (block import, pool, RPC all go through MakeSigner)
			// follows the process' network id - also when that id is (re)set after a first use
			if net == params.MainNetId || net == params.TestNetId || net == params.NetworkIdForTestCase {
				var got common.Address
				var merr error
				other := uint64(params.TestNetId)
				if net == other {
					other = params.MainNetId
				}
				kit.Guard(func() {
					params.InitNetworkId(other)
					types.MakeSigner(nil) // first use under another id
					params.InitNetworkId(net)
					got, merr = types.Sender(types.MakeSigner(nil), tx)
					params.InitNetworkId(params.NetworkIdForTestCase)
				})
				c.Count("makesigner_network_switches", 1)
				if merr != nil || got != key.addr {
					c.Violation("makesigner-does-not-follow-network-id", fmt.Sprintf("after InitNetworkId(%d), MakeSigner used, InitNetworkId(%d): Sender(MakeSigner(), tx signed for network %d) = %x, err=%v; signing key has address %x", other, net, net, got, merr, key.addr),
						sigWitness{What: "MakeSigner", Fields: showFields(f), Net: net, V: o.v.String(), R: o.r.Text(16), S: o.s.Text(16), Signer: key.addr.Hex()})
					c.End("")
					return
				}
			}
			// sender straight from the signed object
			got, err := types.Sender(types.NewYouSigner(net), tx)
			if err != nil || got != key.addr {
				c.Violation("honest-sender-mismatch", fmt.Sprintf("Sender of a freshly signed tx = %x, err=%v; signing key has address %x", got, err, key.addr),
					sigWitness{What: "SignTx+Sender", Fields: showFields(f), Net: net, V: o.v.String(), R: o.r.Text(16), S: o.s.Text(16), Signer: key.addr.Hex()})
				c.End("")
				return
			}
		} else {
			mode = "model-signer"
			var k *big.Int
			for {
				kb := make([]byte, 32)
				r.Read(kb)
				k = new(big.Int).SetBytes(kb)
				k.Mod(k, model.SecpN)
				if k.Sign() == 0 {
					continue
				}
				rr, ss, rec, ok := model.SecpSign(h, key.d, k)
				if !ok || rec > 1 {
					continue
				}
				if ss.Cmp(model.SecpHalfN) > 0 {
					// keep the mathematically valid high-s twin as a mutant, normalise the honest one
					highS = &mutant{desc: "model-signed-high-s", f: f, r: rr, s: ss, net: net, always: true,
						v: new(big.Int).Add(new(big.Int).Mul(u64(net), big2), big.NewInt(int64(35+rec)))}
					ss = new(big.Int).Sub(model.SecpN, ss)
					rec ^= 1
				}
				o.r, o.s = rr, ss
				o.v = new(big.Int).Add(new(big.Int).Mul(u64(net), big2), big.NewInt(int64(35+rec)))
				break
			}
		}
		c.Count("signed_"+mode, 1)
		// honest: both construction paths, and the model agrees on who signed
		for path := 0; path < 2; path++ {
			c.Evals(1)
			var got common.Address
			var err error
			var got2 common.Address
			var err2 error
			p := kit.Guard(func() {
				var tx *types.Transaction
				tx, err = buildTx(f, o.v, o.r, o.s, path)
				if err != nil {
					return
				}
				got, err = types.Sender(types.NewYouSigner(net), tx)
				// cached sender must not leak to another network's signer
				other := net + 1
				if other == 0 {
					other = 1
				}
				got2, err2 = types.Sender(types.NewYouSigner(other), tx)
			})
			w := sigWitness{What: "honest", Fields: showFields(f), Net: net, V: o.v.String(), R: o.r.Text(16), S: o.s.Text(16), Path: path, Signer: key.addr.Hex(), Got: got.Hex()}
			if p != nil {
				c.Violation("sender-panic", fmt.Sprintf("honest tx: panic %v", p), w)
				c.End("")
				return
			}
			if err != nil || got != key.addr {
				c.Violation("honest-sender-mismatch", fmt.Sprintf("Sender = %x, err=%v; signing key has address %x (%s, path %d)", got, err, key.addr, mode, path), w)
				c.End("")
				return
			}
			if err2 == nil && got2 == key.addr {
				c.Violation("sender-cache-crosses-network", fmt.Sprintf("after Sender under network %d, Sender under another network id returns the same sender", net), w)
				c.End("")
				return
			}
			c.Count("honest_ok", 1)
		}
		if want, ok := modelSender(f, o.v, o.r, o.s, net); !ok || want != key.addr {
			c.Violation("model-self-check", "model does not recover the signing key from the honest signature", showFields(f))
			c.End("")
			return
		}
		c.Count("model_recoveries", 1)

		muts := fieldMutants(r, o)
		c.Count("mut_field", len(muts))
		// signature-level mutants
		sigMut := func(desc string, v, rr, ss *big.Int, net uint64, always bool) {
			muts = append(muts, &mutant{desc: desc, f: f, v: v, r: rr, s: ss, net: net, always: always})
		}
		nMinusS := new(big.Int).Sub(model.SecpN, o.s)
		vFlip := new(big.Int).Add(o.v, big.NewInt(1)) // 2n+35 <-> 2n+36
		if o.v.Bit(0) == 0 {
			vFlip.Sub(o.v, big.NewInt(1))
		}
		sigMut("s->n-s", o.v, o.r, nMinusS, net, true)
		sigMut("s->n-s,v-flip", vFlip, o.r, nMinusS, net, true) // the malleability twin: valid ECDSA, must be refused
		sigMut("v-flip", vFlip, o.r, o.s, net, true)
		sigMut("r<->s", o.v, o.s, o.r, net, true)
		sigMut("r+1", o.v, new(big.Int).Add(o.r, big.NewInt(1)), o.s, net, true)
		sigMut("s+1", o.v, o.r, new(big.Int).Add(o.s, big.NewInt(1)), net, true)
		sigMut("s-1", o.v, o.r, new(big.Int).Sub(o.s, big.NewInt(1)), net, true)
		sigMut("r+n", o.v, new(big.Int).Add(o.r, model.SecpN), o.s, net, true)
		sigMut("s+n", o.v, o.r, new(big.Int).Add(o.s, model.SecpN), net, true)
		sigMut("r+2^256", o.v, new(big.Int).Add(o.r, two256), o.s, net, true)
		sigMut("s+2^256", o.v, o.r, new(big.Int).Add(o.s, two256), net, true)
		sigMut("-r", o.v, new(big.Int).Neg(o.r), o.s, net, true)
		sigMut("-s", o.v, o.r, new(big.Int).Neg(o.s), net, true)
		if highS != nil {
			muts = append(muts, highS)
			c.Count("mut_model_high_s", 1)
		}
		// foreign network id: same bytes under another signer; V re-targeted to another network
		for _, m := range append([]uint64{net + 1, net - 1, net ^ 1, net * 2}, netIDs...) {
			if m == net {
				continue
			}
			sigMut(fmt.Sprintf("signer-net=%d", m), o.v, o.r, o.s, m, false)
			rec := int64(o.v.Bit(0) ^ 1) // 35+2n+rec: rec = parity of (v-35) = parity(v)^1
			v2 := new(big.Int).Add(new(big.Int).Mul(u64(m), big2), big.NewInt(35+rec))
			sigMut(fmt.Sprintf("v-retargeted-to-net=%d", m), v2, o.r, o.s, m, false)
			c.Count("mut_network", 2)
		}
		// malformed r / s
		sp := specials(r)
		for _, x := range sp {
			sigMut("r=special", o.v, x, o.s, net, true)
			sigMut("s=special", o.v, o.r, x, net, true)
			sigMut("r=special,v-flip", vFlip, x, o.s, net, true)
			c.Count("mut_malformed_rs", 3)
		}
		sigMut("r=s=special", o.v, sp[r.Intn(len(sp))], sp[r.Intn(len(sp))], net, true)
		// transplant: the previous transaction's signature on these fields and vice versa
		if prev != nil {
			sigMut("transplanted-signature", new(big.Int).Add(new(big.Int).Mul(u64(net), big2), big.NewInt(35+int64(prev.v.Bit(0)^1))), prev.r, prev.s, net, true)
			c.Count("mut_transplant", 1)
		}
		ok := true
		for i, m := range muts {
			if !sc.evalMutant(o, key.addr, m, (i+t)%2) {
				ok = false
				break
			}
		}
		if !ok {
			c.End("")
			return
		}
		// exhaustive V windows
		if (idx+t)%2 == 0 {
			nets := []uint64{1, 2, 10, 99, 1000, 0, net, net + 1, 1 << 63, 1<<63 - 18}
			cnt := 0
			for mi, m := range nets {
				if (mi >= 6 && m == nets[mi-1]) || (mi > 6 && m == nets[6]) {
					continue
				}
				seen := map[string]bool{}
				for _, ctr := range vCenters(m, net) {
					for d := -vWindow; d <= vWindow; d++ {
						v := new(big.Int).Add(ctr, big.NewInt(int64(d)))
						if m == net && v.Cmp(o.v) == 0 {
							continue // the honest transaction itself
						}
						if k := string(v.Bytes()) + fmt.Sprint(v.Sign()); seen[k] {
							continue
						} else {
							seen[k] = true
						}
						cnt++
						mm := &mutant{f: f, v: v, r: o.r, s: o.s, net: m, always: true}
						if !sc.evalMutant(o, key.addr, mm, cnt%2) {
							c.End("")
							return
						}
					}
				}
			}
			c.Count("mut_v_window", cnt)
		}
		to := "addr"
		if f.To == nil {
			to = "create"
		} else if common.Address(*f.To) == params.StakingModuleAddress {
			to = "staking"
		}
		c.Sig(fmt.Sprintf("%s|to=%s|plen=%d|netbits=%d|pricebits=%d|vpar=%d", mode, to, bucket(len(f.Payload)), u64(net).BitLen()/8, f.Price.BitLen()/64, o.v.Bit(0)))
		if idx < 2 && t == 0 {
			c.Sample(map[string]interface{}{"fields": showFields(f), "net": net, "v": o.v.String(), "signer": key.addr.Hex(), "mutants": len(muts)})
		}
		prev = o
	}
	// hostile inputs straight into the cgo recovery / verification entry points
	if !ecrecoverDirect(c, r) {
		c.End("")
		return
	}
	c.End("")
}

func bucket(n int) int {
	switch {
	case n == 0:
		return 0
	case n == 1:
		return 1
	case n < 56:
		return 2
	case n < 256:
		return 3
	}
	return 4
}

// ecrecoverDirect compares crypto.Ecrecover / VerifySignature with the model on honest and
// hostile (r, s, recid) triples and wrong-length inputs.
func ecrecoverDirect(c *kit.Ctx, r *rand.Rand) bool {
	key := getKey(c.Seed, r.Intn(8))
	hash := make([]byte, 32)
	r.Read(hash)
	kb := make([]byte, 32)
	r.Read(kb)
	k := new(big.Int).SetBytes(kb)
	k.Mod(k, new(big.Int).Sub(model.SecpN, big.NewInt(1)))
	k.Add(k, big.NewInt(1))
	rr, ss, rec, ok := model.SecpSign(hash, key.d, k)
	if !ok {
		return true
	}
	type trip struct {
		r, s *big.Int
		rec  int
		what string
	}
	tr := []trip{{rr, ss, rec, "honest"}, {rr, ss, rec ^ 1, "recid-flip"}, {rr, new(big.Int).Sub(model.SecpN, ss), rec ^ 1, "twin"},
		{rr, ss, 2, "recid2"}, {rr, ss, 3, "recid3"}, {rr, ss, 4, "recid4"}, {rr, ss, 27, "recid27"}, {rr, ss, 255, "recid255"}}
	sp := specials(r)
	for _, x := range sp {
		if x.Sign() < 0 || x.BitLen() > 256 {
			continue
		}
		tr = append(tr, trip{x, ss, r.Intn(2), "r-special"}, trip{rr, x, r.Intn(2), "s-special"})
	}
	// tiny r values make recid 2/3 (x = r + n < p) meaningful
	for i := 0; i < 3; i++ {
		tr = append(tr, trip{big.NewInt(int64(1 + r.Intn(50))), ss, 2 + r.Intn(2), "small-r-recid23"})
	}
	for _, t := range tr {
		sig := make([]byte, 65)
		copy(sig[:32], common.LeftPadBytes(t.r.Bytes(), 32))
		copy(sig[32:64], common.LeftPadBytes(t.s.Bytes(), 32))
		sig[64] = byte(t.rec)
		var pub []byte
		var err error
		c.Evals(1)
		if p := kit.Guard(func() { pub, err = crypto.Ecrecover(hash, sig) }); p != nil {
			c.Violation("ecrecover-panic", fmt.Sprintf("%s: %v", t.what, p), map[string]string{"hash": hex.EncodeToString(hash), "sig": hex.EncodeToString(sig)})
			return false
		}
		mx, my, merr := model.SecpRecover(hash, t.r, t.s, t.rec)
		c.Count("ecrecover_direct", 1)
		if (err == nil) != (merr == nil) {
			c.Violation("ecrecover-acceptance-mismatch", fmt.Sprintf("%s: Ecrecover err=%v, model err=%v", t.what, err, merr), map[string]string{"hash": hex.EncodeToString(hash), "sig": hex.EncodeToString(sig)})
			return false
		}
		if err == nil {
			c.Count("ecrecover_direct_accepted", 1)
			want := append([]byte{4}, append(common.LeftPadBytes(mx.Bytes(), 32), common.LeftPadBytes(my.Bytes(), 32)...)...)
			if hex.EncodeToString(pub) != hex.EncodeToString(want) {
				c.Violation("ecrecover-key-mismatch", fmt.Sprintf("%s: Ecrecover=%x model=%x", t.what, pub, want), map[string]string{"hash": hex.EncodeToString(hash), "sig": hex.EncodeToString(sig)})
				return false
			}
			// VerifySignature: accepts only low-s; must never accept what the model refuses
			var v bool
			if p := kit.Guard(func() { v = crypto.VerifySignature(pub, hash, sig[:64]) }); p != nil {
				c.Violation("verify-panic", fmt.Sprint(p), map[string]string{"hash": hex.EncodeToString(hash), "sig": hex.EncodeToString(sig)})
				return false
			}
			mv := model.SecpVerify(hash, t.r, t.s, mx, my)
			low := t.s.Cmp(model.SecpHalfN) <= 0
			if (v && !mv) || (mv && low && !v) {
				c.Violation("verify-mismatch", fmt.Sprintf("%s: VerifySignature=%v model=%v low-s=%v", t.what, v, mv, low), map[string]string{"hash": hex.EncodeToString(hash), "sig": hex.EncodeToString(sig)})
				return false
			}
		}
	}
	// wrong lengths must be errors, never memory errors
	good := make([]byte, 65)
	copy(good[:32], common.LeftPadBytes(rr.Bytes(), 32))
	copy(good[32:64], common.LeftPadBytes(ss.Bytes(), 32))
	good[64] = byte(rec)
	for _, hl := range []int{0, 1, 31, 33, 64} {
		for _, sl := range []int{0, 1, 64, 66, 130} {
			h2 := make([]byte, hl)
			copy(h2, hash)
			s2 := make([]byte, sl)
			copy(s2, good)
			var err error
			c.Evals(1)
			if p := kit.Guard(func() { _, err = crypto.Ecrecover(h2, s2) }); p != nil || err == nil {
				c.Violation("ecrecover-bad-length-accepted", fmt.Sprintf("hash len %d, sig len %d: panic=%v err=%v", hl, sl, p, err), nil)
				return false
			}
			c.Count("ecrecover_bad_length", 1)
		}
	}
	return true
}
