package c09

import (
	"fmt"
	"strings"

	"verif/kit"
	"verif/mon"
	"verif/stategen"
)

func init() { kit.Register("C09.probe", probes) }

// probes are small deterministic histories for API paths that the randomized alphabet leaves
// out (StateDB.RemoveValidator is exported and on vm.StateDB, but no code of the node calls it).
func probes(c *kit.Ctx) {
	n := c.N(40, 400)
	for i := 0; i < n; i++ {
		id := fmt.Sprintf("removeval%d", i)
		if !c.Mine(i, id) {
			continue
		}
		r := c.Rand(id)
		c.Begin(id, "create validators; flush; snapshot; RemoveValidator; revert; compare")
		w := stategen.NewWorld(r, 4, 4, stategen.Families{Validator: true, Delegation: true})
		for k := 0; k < 12; k++ {
			w.ValidatorOp()
		}
		if r.Intn(2) == 0 {
			w.St.IntermediateRoot(true)
		}
		w.NextTx()
		var target *int
		for vi, a := range w.ValAddrs {
			if w.St.GetValidatorByMainAddr(a) != nil {
				v := vi
				target = &v
				break
			}
		}
		if target == nil {
			c.End("")
			continue
		}
		before := digest(w)
		sid := w.St.Snapshot()
		w.St.RemoveValidator(w.ValAddrs[*target])
		p := kit.Guard(func() { w.St.RevertToSnapshot(sid) })
		c.Evals(1)
		c.Count("removevalidator_reverts", 1)
		if p != nil {
			c.Violation("revert-after-RemoveValidator", fmt.Sprint("panic: ", p), w.TailOps(20))
		} else if diff := mon.Diff(before, digest(w)); len(diff) > 0 {
			c.Violation("revert-after-RemoveValidator", "snapshot; RemoveValidator(v); RevertToSnapshot leaves "+fmt.Sprint(len(diff))+" observables changed: "+strings.Join(first(diff, 3), " || "), w.TailOps(20))
		}
		c.End("removevalidator-revert")
	}
}
