// Package c09: reverting to a snapshot restores exactly the snapshotted state and never fails.
// Oracle: full state digest (live getters over the known universe + roots/trie dump on a Copy)
// recorded at Snapshot time, compared after RevertToSnapshot.
package c09

import (
	"fmt"
	"strings"

	"verif/kit"
	"verif/mon"
	"verif/stategen"
)

func init() { kit.Register("C09.hist", run) }

type famCfg struct {
	name string
	fam  stategen.Families
}

var cfgs = []famCfg{
	{"account", stategen.Families{Account: true}},
	{"validator", stategen.Families{Validator: true}},
	{"delegation", stategen.Families{Validator: true, Delegation: true}},
	{"withdrawq", stategen.Families{Validator: true, WithdrawQ: true}},
	{"withdrawrm", stategen.Families{Validator: true, WithdrawQ: true, WithdrawRm: true}},
	{"acct+val", stategen.Families{Account: true, Validator: true}},
	{"all", stategen.AllProduction()},
	{"all", stategen.AllProduction()},
	{"hotstorage", stategen.Families{Account: true, HotStorage: true}},
}

type snap struct {
	id   int
	dig  mon.Digest
	step int
}

func digest(w *stategen.World) mon.Digest {
	d := mon.Live(w.St, w.U, mon.Opts{})
	return mon.Merge(d, mon.Flushed(w.St))
}

func run(c *kit.Ctx) {
	n := c.N(6000, 300000)
	for i := 0; i < n; i++ {
		id := fmt.Sprintf("h%d", i)
		if !c.Mine(i, id) {
			continue
		}
		hist(c, id, i)
	}
}

func hist(c *kit.Ctx, id string, i int) {
	r := c.Rand(id)
	cfg := cfgs[i%len(cfgs)]
	c.Begin(id, map[string]interface{}{"families": cfg.name})
	w := stategen.NewWorld(r, 4, 4, cfg.fam)
	// pre-population outside any snapshot: committed and uncommitted background state
	pre := stategen.AllProduction()
	w.Fam = pre
	for k := r.Intn(25); k > 0; k-- {
		w.Op()
	}
	switch r.Intn(3) {
	case 0:
		if err := w.Reopen(); err != nil {
			c.Violation("c10-reopen-failed-in-c09-setup", err.Error(), w.TailOps(40))
			c.End("")
			return
		}
	case 1:
		w.St.IntermediateRoot(true)
	}
	w.Fam = cfg.fam
	ntx := 1 + r.Intn(5)
	nsnap, nrev, maxDepth, nontop := 0, 0, 0, 0
	bad := false
	var badMsg string
	p := kit.Guard(func() {
		for tx := 0; tx < ntx && !bad; tx++ {
			w.NextTx()
			var stack []snap
			steps := 4 + r.Intn(30)
			for s := 0; s < steps && !bad; s++ {
				x := r.Intn(100)
				switch {
				case x < 18 && len(stack) < 8:
					d := digest(w)
					sid := w.St.Snapshot()
					w.Ops = append(w.Ops, fmt.Sprintf("snapshot -> %d", sid))
					stack = append(stack, snap{sid, d, len(w.Ops)})
					nsnap++
					if len(stack) > maxDepth {
						maxDepth = len(stack)
					}
				case x < 36 && len(stack) > 0:
					// revert to ANY live id, not only the top
					k := len(stack) - 1
					if r.Intn(3) == 0 {
						k = r.Intn(len(stack))
						if k != len(stack)-1 {
							nontop++
						}
					}
					sn := stack[k]
					w.Ops = append(w.Ops, fmt.Sprintf("revert -> %d", sn.id))
					w.St.RevertToSnapshot(sn.id)
					stack = stack[:k]
					nrev++
					after := digest(w)
					c.Evals(1)
					if diff := mon.Diff(sn.dig, after); len(diff) > 0 {
						// an order-only withdraw-queue difference leaves the state usable: keep
						// going so that this (listed) finding does not shorten the history
						bad = classify(diff, sn.dig, after) != "withdrawq-order-only"
						badMsg = fmt.Sprintf("after RevertToSnapshot(%d) in tx %d: %d observables differ from their value at Snapshot: %s", sn.id, tx, len(diff), strings.Join(first(diff, 6), " || "))
						c.Violation("revert-mismatch:"+classify(diff, sn.dig, after), badMsg, map[string]interface{}{"families": cfg.name, "ops_since_snapshot": w.Ops[sn.step-1:], "diff": first(diff, 20)})
					}
				default:
					w.Op()
				}
			}
			// end of transaction: leftover snapshots simply die with the journal
			if r.Intn(2) == 0 {
				w.St.Finalise(true)
				w.Ops = append(w.Ops, "finalise")
			} else {
				w.St.IntermediateRoot(true)
				w.Ops = append(w.Ops, "intermediateroot")
			}
		}
	})
	if p != nil {
		msg := fmt.Sprint(p)
		cl := "revert-panic"
		if strings.Contains(msg, "cannot be reverted") {
			cl = "revert-panic-valid-id-rejected"
		}
		c.Violation(cl, "panic during a history of valid snapshots/reverts: "+msg, map[string]interface{}{"families": cfg.name, "ops": w.TailOps(60)})
	}
	c.Count("snapshots", nsnap)
	c.Count("reverts", nrev)
	c.Count("reverts_nontop", nontop)
	c.Count("txs", ntx)
	c.Count("ops", len(w.Ops))
	c.Max("max_depth", int64(maxDepth))
	c.Sample(map[string]interface{}{"families": cfg.name, "ops": w.TailOps(25)})
	sig := ""
	if nrev > 0 {
		sig = fmt.Sprintf("%s tx%d depth%d rev%d nontop%v", cfg.name, ntx, maxDepth, bucket(nrev), nontop > 0)
	}
	c.End(sig)
}

func bucket(n int) int {
	switch {
	case n < 3:
		return n
	case n < 6:
		return 3
	case n < 12:
		return 6
	}
	return 12
}

func first(s []string, n int) []string {
	if len(s) > n {
		return s[:n]
	}
	return s
}

// classify names the kinds of observables that differ (stable class suffix).
func classify(diff []string, before, after mon.Digest) string {
	kinds := map[string]bool{}
	if orderOnlyWithdrawQ(diff, before, after) {
		return "withdrawq-order-only"
	}
	for _, d := range diff {
		k := d[:strings.Index(d, ":")]
		switch {
		case strings.HasPrefix(k, "acct/") && strings.Contains(k, "/dlg"):
			kinds["delegator-links"] = true
		case strings.HasPrefix(k, "acct/"):
			kinds["account"] = true
		case strings.HasPrefix(k, "t/valtrie/"):
			// raw validator-trie entries: consequence of val/valstat/valindex/withdrawq
		case strings.HasPrefix(k, "val/"):
			kinds["validator"] = true
		case k == "valstat" || k == "t/valstat":
			kinds["valstat"] = true
		case k == "valindex":
			kinds["valindex"] = true
		case k == "withdrawq" || k == "t/withdrawq":
			kinds["withdrawq"] = true
		case k == "root" || k == "valroot" || k == "stakingroot":
			// consequence of the others
		case strings.HasPrefix(k, "t/acct/"):
			kinds["account-trie"] = true
		default:
			kinds[k] = true
		}
	}
	var ks []string
	for k := range kinds {
		ks = append(ks, k)
	}
	sortStrings(ks)
	if len(ks) == 0 {
		return "roots-only"
	}
	return strings.Join(ks, "+")
}

func sortStrings(s []string) {
	for i := 1; i < len(s); i++ {
		for j := i; j > 0 && s[j] < s[j-1]; j-- {
			s[j], s[j-1] = s[j-1], s[j]
		}
	}
}

// orderOnlyWithdrawQ: the only live observable that differs is the withdraw queue, and it holds
// the same multiset of records in a different order (plus the roots / raw trie entries that follow).
func orderOnlyWithdrawQ(diff []string, before, after mon.Digest) bool {
	found := false
	for _, d := range diff {
		k := d[:strings.Index(d, ":")]
		switch {
		case k == "withdrawq":
			a := strings.Split(before["withdrawq"], ";")
			b := strings.Split(after["withdrawq"], ";")
			sortStrings(a)
			sortStrings(b)
			if strings.Join(a, ";") != strings.Join(b, ";") {
				return false
			}
			found = true
		case k == "valroot" || strings.HasPrefix(k, "t/valtrie/"):
		default:
			return false
		}
	}
	return found
}
