// Package c09 holds the workloads and monitors of property C09.
package c09
