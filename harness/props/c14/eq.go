package c14

// Normalised deep equality of two values of the same type, for the round-trip oracle
// ("decoding its encoding yields an equal value"). Normalisation: nil and empty slices are equal,
// a nil *big.Int equals zero, caches / in-memory flags (skipTypes, skipFields) are ignored,
// sync.Map contents are compared as key sets, interface values by their dynamic values.

import (
	"bytes"
	"fmt"
	"math/big"
	"reflect"
	"sort"
	"sync"
)

func eqNorm(a, b reflect.Value, path string) (bool, string) {
	if a.Type() != b.Type() {
		return false, path + ": types differ " + a.Type().String() + " vs " + b.Type().String()
	}
	t := a.Type()
	if t == bigIntT {
		x, y := a.Addr().Interface().(*big.Int), b.Addr().Interface().(*big.Int)
		if x.Cmp(y) != 0 {
			return false, fmt.Sprintf("%s: %v != %v", path, x, y)
		}
		return true, ""
	}
	if t == syncMapT {
		ka, kb := syncKeys(a), syncKeys(b)
		if len(ka) != len(kb) {
			return false, fmt.Sprintf("%s: sync.Map sizes %d != %d", path, len(ka), len(kb))
		}
		for i := range ka {
			if ka[i] != kb[i] {
				return false, path + ": sync.Map key sets differ"
			}
		}
		return true, ""
	}
	if skipTypes[t] {
		return true, ""
	}
	switch t.Kind() {
	case reflect.Bool:
		if a.Bool() != b.Bool() {
			return false, fmt.Sprintf("%s: %v != %v", path, a.Bool(), b.Bool())
		}
	case reflect.Uint8, reflect.Uint16, reflect.Uint32, reflect.Uint64, reflect.Uint, reflect.Uintptr:
		if a.Uint() != b.Uint() {
			return false, fmt.Sprintf("%s: %d != %d", path, a.Uint(), b.Uint())
		}
	case reflect.String:
		if a.String() != b.String() {
			return false, fmt.Sprintf("%s: %q != %q", path, a.String(), b.String())
		}
	case reflect.Array:
		for i := 0; i < t.Len(); i++ {
			if ok, why := eqNorm(a.Index(i), b.Index(i), fmt.Sprintf("%s[%d]", path, i)); !ok {
				return false, why
			}
		}
	case reflect.Slice:
		if t.Elem().Kind() == reflect.Uint8 {
			if !bytes.Equal(a.Bytes(), b.Bytes()) {
				return false, fmt.Sprintf("%s: %x != %x", path, a.Bytes(), b.Bytes())
			}
			return true, ""
		}
		if a.Len() != b.Len() {
			return false, fmt.Sprintf("%s: len %d != %d", path, a.Len(), b.Len())
		}
		for i := 0; i < a.Len(); i++ {
			if ok, why := eqNorm(a.Index(i), b.Index(i), fmt.Sprintf("%s[%d]", path, i)); !ok {
				return false, why
			}
		}
	case reflect.Map:
		if a.Len() != b.Len() {
			return false, fmt.Sprintf("%s: map len %d != %d", path, a.Len(), b.Len())
		}
		it := a.MapRange()
		for it.Next() {
			bv := b.MapIndex(it.Key())
			if !bv.IsValid() {
				return false, fmt.Sprintf("%s: key %v missing", path, it.Key())
			}
			// map values are not addressable: copy them
			x, y := reflect.New(t.Elem()).Elem(), reflect.New(t.Elem()).Elem()
			x.Set(it.Value())
			y.Set(bv)
			if ok, why := eqNorm(x, y, fmt.Sprintf("%s[%v]", path, it.Key())); !ok {
				return false, why
			}
		}
	case reflect.Ptr:
		if t.Elem() == bigIntT {
			x, y := new(big.Int), new(big.Int)
			if !a.IsNil() {
				x = a.Interface().(*big.Int)
			}
			if !b.IsNil() {
				y = b.Interface().(*big.Int)
			}
			if x.Cmp(y) != 0 {
				return false, fmt.Sprintf("%s: %v != %v", path, x, y)
			}
			return true, ""
		}
		if a.IsNil() || b.IsNil() {
			if a.IsNil() != b.IsNil() {
				return false, fmt.Sprintf("%s: nil=%v vs nil=%v", path, a.IsNil(), b.IsNil())
			}
			return true, ""
		}
		return eqNorm(a.Elem(), b.Elem(), path)
	case reflect.Interface:
		if a.IsNil() || b.IsNil() {
			if a.IsNil() != b.IsNil() {
				return false, path + ": interface nil-ness differs"
			}
			return true, ""
		}
		x, y := a.Elem(), b.Elem()
		if x.Type() != y.Type() {
			return false, path + ": dynamic types differ " + x.Type().String() + " vs " + y.Type().String()
		}
		if x.Kind() == reflect.Ptr {
			return eqNorm(x, y, path)
		}
		xc, yc := reflect.New(x.Type()).Elem(), reflect.New(y.Type()).Elem()
		xc.Set(x)
		yc.Set(y)
		return eqNorm(xc, yc, path)
	case reflect.Struct:
		for i := 0; i < t.NumField(); i++ {
			sf := t.Field(i)
			if skipFields[t.Name()+"."+sf.Name] || (skipTypes[sf.Type] && sf.Type != syncMapT) {
				continue
			}
			if !a.CanAddr() || !b.CanAddr() {
				if sf.PkgPath != "" {
					continue
				}
			}
			if ok, why := eqNorm(access(a.Field(i)), access(b.Field(i)), path+"."+sf.Name); !ok {
				return false, why
			}
		}
	default:
		return false, path + ": unsupported kind " + t.Kind().String()
	}
	return true, ""
}

func syncKeys(v reflect.Value) []string {
	m := v.Addr().Interface().(*sync.Map)
	var ks []string
	m.Range(func(k, _ interface{}) bool {
		ks = append(ks, fmt.Sprintf("%v", k))
		return true
	})
	sort.Strings(ks)
	return ks
}
