package c14

// Reflection-driven value generator for the node's wire / disk types. Values are "wire-normal":
// only fields that are part of the encoding are populated (caches, derived fields and
// in-memory-only flags stay zero), pointers that the node never leaves nil are non-nil, big
// integers are non-negative. Unexported fields of the few types that keep their wire content
// private (Transaction.data, Block.header, ValKindStat.*) are written through unsafe.

import (
	"math/big"
	"math/rand"
	"reflect"
	"sync"
	"sync/atomic"
	"time"
	"unsafe"
)

var (
	bigIntT   = reflect.TypeOf(big.Int{})
	atomicT   = reflect.TypeOf(atomic.Value{})
	timeT     = reflect.TypeOf(time.Time{})
	syncMapT  = reflect.TypeOf(sync.Map{})
	skipTypes = map[reflect.Type]bool{atomicT: true, timeT: true, syncMapT: true}
)

// fields never generated / compared: in-memory flags and caches that are not on the wire.
var skipFields = map[string]bool{
	"Validator.deleted":  true,
	"Validator.consAddr": true,
	"Extension.extV1":    true,
	"txdata.Hash":        true, // rlp:"-", JSON only
	"Block.ReceivedFrom": true,
	"Block.ReceivedAt":   true,
}

// custom generators by type (set in reg.go)
var customGen = map[reflect.Type]func(g *gen) reflect.Value{}

type gen struct {
	r *rand.Rand
}

var byteLens = []int{0, 0, 1, 1, 2, 3, 8, 20, 31, 32, 33, 55, 56, 57, 64, 65, 96, 128, 255, 256, 300, 1024}

func (g *gen) bytes() []byte {
	n := byteLens[g.r.Intn(len(byteLens))]
	if g.r.Intn(4) == 0 {
		n = g.r.Intn(70)
	}
	b := make([]byte, n)
	g.r.Read(b)
	if n == 1 {
		switch g.r.Intn(4) {
		case 0:
			b[0] = 0
		case 1:
			b[0] = 0x7f
		case 2:
			b[0] = 0x80
		}
	} else if n > 1 && g.r.Intn(6) == 0 {
		b[0] = 0 // leading zero is legal inside a byte string
	}
	return b
}

func (g *gen) uintBits(bits int) uint64 {
	var v uint64
	switch g.r.Intn(10) {
	case 0:
		v = 0
	case 1:
		v = 1
	case 2:
		v = 0x7f
	case 3:
		v = 0x80
	case 4:
		v = 0xff
	case 5:
		v = 0x100
	case 6:
		v = ^uint64(0)
	default:
		w := uint(1 + g.r.Intn(8))
		v = g.r.Uint64() >> (64 - 8*w)
	}
	if bits < 64 {
		v &= (uint64(1) << uint(bits)) - 1
	}
	return v
}

func (g *gen) big() *big.Int {
	switch g.r.Intn(8) {
	case 0:
		return new(big.Int)
	case 1:
		return big.NewInt(int64(g.r.Intn(256)))
	case 2:
		return new(big.Int).SetUint64(g.r.Uint64())
	case 3:
		b := make([]byte, 32)
		g.r.Read(b)
		return new(big.Int).SetBytes(b)
	case 4:
		b := make([]byte, 1+g.r.Intn(80))
		g.r.Read(b)
		return new(big.Int).SetBytes(b)
	case 5:
		return new(big.Int).Lsh(big.NewInt(1), uint(g.r.Intn(300)))
	default:
		return big.NewInt(g.r.Int63())
	}
}

// access makes a (possibly unexported) struct field readable and settable.
func access(f reflect.Value) reflect.Value {
	if f.CanSet() || !f.CanAddr() {
		return f
	}
	return reflect.NewAt(f.Type(), unsafe.Pointer(f.UnsafeAddr())).Elem()
}

func hasTag(sf reflect.StructField, what string) bool {
	tag := sf.Tag.Get("rlp")
	for len(tag) > 0 {
		i := 0
		for i < len(tag) && tag[i] != ',' {
			i++
		}
		if tag[:i] == what {
			return true
		}
		if i == len(tag) {
			break
		}
		tag = tag[i+1:]
	}
	return false
}

func hasCustomCodec(t reflect.Type) bool {
	_, ok := reflect.PtrTo(t).MethodByName("EncodeRLP")
	return ok
}

// fill generates a value into v (which must be settable).
func (g *gen) fill(v reflect.Value, depth int) {
	t := v.Type()
	if f, ok := customGen[t]; ok {
		v.Set(f(g))
		return
	}
	if t == bigIntT {
		v.Set(reflect.ValueOf(*g.big()))
		return
	}
	switch t.Kind() {
	case reflect.Bool:
		v.SetBool(g.r.Intn(2) == 0)
	case reflect.Uint8, reflect.Uint16, reflect.Uint32, reflect.Uint64, reflect.Uint, reflect.Uintptr:
		v.SetUint(g.uintBits(t.Bits()))
	case reflect.String:
		b := g.bytes()
		if len(b) > 80 {
			b = b[:80]
		}
		v.SetString(string(b))
	case reflect.Array:
		if t.Elem().Kind() == reflect.Uint8 {
			b := make([]byte, t.Len())
			switch g.r.Intn(6) {
			case 0: // all zero
			case 1:
				g.r.Read(b)
				b[0] = 0
			case 2:
				b[t.Len()-1] = byte(g.r.Intn(256))
			default:
				g.r.Read(b)
			}
			reflect.Copy(v, reflect.ValueOf(b))
			return
		}
		for i := 0; i < t.Len(); i++ {
			g.fill(v.Index(i), depth+1)
		}
	case reflect.Slice:
		if t.Elem().Kind() == reflect.Uint8 {
			v.SetBytes(g.bytes())
			return
		}
		n := g.r.Intn(4)
		if depth > 3 {
			n = g.r.Intn(2)
		}
		if g.r.Intn(12) == 0 {
			n = 5 + g.r.Intn(12)
		}
		s := reflect.MakeSlice(t, n, n)
		for i := 0; i < n; i++ {
			g.fill(s.Index(i), depth+1)
		}
		v.Set(s)
	case reflect.Map:
		m := reflect.MakeMap(t)
		n := g.r.Intn(4)
		for i := 0; i < n; i++ {
			k := reflect.New(t.Key()).Elem()
			g.fill(k, depth+1)
			e := reflect.New(t.Elem()).Elem()
			g.fill(e, depth+1)
			m.SetMapIndex(k, e)
		}
		v.Set(m)
	case reflect.Ptr:
		p := reflect.New(t.Elem())
		g.fill(p.Elem(), depth+1)
		v.Set(p)
	case reflect.Struct:
		custom := hasCustomCodec(t)
		for i := 0; i < t.NumField(); i++ {
			sf := t.Field(i)
			if skipTypes[sf.Type] || skipFields[t.Name()+"."+sf.Name] || sf.Type.Kind() == reflect.Interface {
				continue
			}
			if !custom && sf.PkgPath != "" {
				continue // unexported field of a plain struct: not on the wire
			}
			if !custom && hasTag(sf, "-") {
				continue
			}
			f := access(v.Field(i))
			if sf.Type.Kind() == reflect.Ptr && hasTag(sf, "nil") && g.r.Intn(3) == 0 {
				f.Set(reflect.Zero(sf.Type))
				continue
			}
			g.fill(f, depth+1)
		}
		if t.Name() == "txdata" && g.r.Intn(2) == 0 {
			// a V that the network-99 signer accepts, so that sender recovery is exercised
			access(v.FieldByName("V")).Set(reflect.ValueOf(big.NewInt(int64(35 + 2*99 + g.r.Intn(2)))))
		}
	default:
		panic("c14 gen: unsupported kind " + t.String())
	}
}

// newValue generates a fresh *T.
func (g *gen) newValue(t reflect.Type) reflect.Value {
	p := reflect.New(t)
	g.fill(p.Elem(), 0)
	return p
}
