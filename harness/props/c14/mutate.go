package c14

// Structure-aware hostile variants of a valid encoding.

import (
	"math/rand"

	"verif/model"
)

var mutKinds = []string{
	"valid", "bitflip", "truncate", "trailing", "leading-zero-int", "zero-byte", "long-form-short",
	"length-leading-zero", "wrapped-single", "claim-bigger", "claim-huge", "claim-smaller", "kind-swap",
	"empty-swap", "drop-child", "dup-child", "swap-children", "extra-child", "leaf-random",
	"leaf-small-int", "deep-nest", "random", "random-in-list", "splice",
}

// rlpLevelInvalid: mutation kinds whose result is, by construction, not a canonical RLP item
// (whatever the target type) whenever the mutation could be applied.
var rlpLevelInvalid = map[string]bool{
	"truncate": true, "trailing": true, "long-form-short": true, "length-leading-zero": true, "wrapped-single": true,
	"claim-huge": true,
}

func collect(root *model.RNode) (all, leaves, lists []*model.RNode) {
	root.Walk(nil, func(_ []int, n *model.RNode) {
		all = append(all, n)
		if n.List {
			lists = append(lists, n)
		} else {
			leaves = append(leaves, n)
		}
	})
	return
}

func pick(r *rand.Rand, ns []*model.RNode, ok func(*model.RNode) bool) *model.RNode {
	var c []*model.RNode
	for _, n := range ns {
		if ok == nil || ok(n) {
			c = append(c, n)
		}
	}
	if len(c) == 0 {
		return nil
	}
	return c[r.Intn(len(c))]
}

func payloadLen(n *model.RNode) int {
	if !n.List {
		return len(n.Str)
	}
	l := 0
	for _, k := range n.Kids {
		l += len(k.Enc())
	}
	return l
}

func minLenBytes(l int) int {
	n := 0
	for ; l > 0; l >>= 8 {
		n++
	}
	if n == 0 {
		n = 1
	}
	return n
}

func randBytes(r *rand.Rand, n int) []byte {
	b := make([]byte, n)
	r.Read(b)
	return b
}

// mutate returns a hostile variant of the valid encoding. applied=false means the requested
// kind had no applicable node and the input is returned with another simple mutation.
func mutate(r *rand.Rand, valid []byte, kind string) (out []byte, applied bool) {
	raw := func() []byte { return append([]byte{}, valid...) }
	switch kind {
	case "valid":
		return raw(), true
	case "bitflip":
		b := raw()
		if len(b) == 0 {
			return b, false
		}
		for i, n := 0, 1+r.Intn(3); i < n; i++ {
			b[r.Intn(len(b))] ^= 1 << uint(r.Intn(8))
		}
		return b, true
	case "truncate":
		if len(valid) == 0 {
			return raw(), false
		}
		return raw()[:r.Intn(len(valid))], true
	case "trailing":
		b := raw()
		switch r.Intn(3) {
		case 0:
			return append(b, 0x80), true
		case 1:
			return append(b, randBytes(r, 1+r.Intn(4))...), true
		}
		return append(b, valid...), true
	case "random":
		return randBytes(r, r.Intn(100)), true
	case "random-in-list":
		return model.RlpList(randBytes(r, r.Intn(100))), true
	case "splice":
		b := raw()
		if len(b) < 2 {
			return b, false
		}
		i := r.Intn(len(b))
		j := i + 1 + r.Intn(min(16, len(b)-i))
		r.Read(b[i:j])
		return b, true
	}
	root, used, err := model.ParseLenient(valid)
	if err != nil || used != len(valid) {
		return raw(), false
	}
	root = root.Clone()
	all, leaves, lists := collect(root)
	switch kind {
	case "leading-zero-int":
		n := pick(r, leaves, func(n *model.RNode) bool { return len(n.Str) >= 1 && len(n.Str) <= 32 && n.Str[0] != 0 })
		if n == nil {
			return raw(), false
		}
		n.Str = append([]byte{0}, n.Str...)
	case "zero-byte":
		n := pick(r, leaves, func(n *model.RNode) bool { return len(n.Str) <= 1 })
		if n == nil {
			return raw(), false
		}
		n.Str = []byte{0}
	case "long-form-short":
		n := pick(r, all, func(n *model.RNode) bool { return payloadLen(n) < 56 })
		if n == nil {
			return raw(), false
		}
		n.LongLen = 1 + r.Intn(3)
	case "length-leading-zero":
		n := pick(r, all, func(n *model.RNode) bool { return payloadLen(n) >= 56 })
		if n == nil {
			n = pick(r, all, nil)
		}
		n.LongLen = minLenBytes(payloadLen(n)) + 1 + r.Intn(2)
	case "wrapped-single":
		n := pick(r, leaves, func(n *model.RNode) bool { return len(n.Str) == 1 && n.Str[0] < 0x80 })
		if n == nil {
			n = pick(r, leaves, func(n *model.RNode) bool { return len(n.Str) <= 1 })
			if n == nil {
				return raw(), false
			}
			n.Str = []byte{byte(r.Intn(0x80))}
		}
		n.NoSingle = true
	case "claim-bigger":
		n := pick(r, all, nil)
		l := uint64(payloadLen(n))
		n.HasClaim = true
		switch r.Intn(4) {
		case 0:
			n.Claim = l + 1
		case 1:
			n.Claim = l + uint64(1+r.Intn(64))
		case 2:
			n.Claim = l*2 + 56
		default:
			n.Claim = l + uint64(len(valid))
		}
	case "claim-huge":
		n := pick(r, all, nil)
		if r.Intn(3) == 0 {
			n = root
		}
		n.HasClaim = true
		n.Claim = []uint64{1 << 20, 1 << 24, 1 << 26, 1 << 28, 1 << 31, 1 << 32, 1 << 40, 1 << 62, 1 << 63, ^uint64(0), ^uint64(0) - 8}[r.Intn(11)]
	case "claim-smaller":
		n := pick(r, all, func(n *model.RNode) bool { return payloadLen(n) > 0 })
		if n == nil {
			return raw(), false
		}
		l := uint64(payloadLen(n))
		n.HasClaim = true
		n.Claim = l - 1 - uint64(r.Intn(int(min(int(l), 8))))
	case "kind-swap":
		n := pick(r, all, nil)
		e := n.Enc()
		switch {
		case e[0] < 0x80:
			e = []byte{0xc1, e[0]}
		case e[0] < 0xc0:
			e[0] += 0x40
		default:
			e[0] -= 0x40
		}
		n.Raw = e
	case "empty-swap":
		n := pick(r, all, func(n *model.RNode) bool { return n.IsEmpty() })
		if n == nil {
			n = pick(r, leaves, nil)
			if n == nil {
				return raw(), false
			}
			n.Raw = []byte{0xc0}
			break
		}
		if n.List {
			n.Raw = []byte{0x80}
		} else {
			n.Raw = []byte{0xc0}
		}
	case "drop-child":
		n := pick(r, lists, func(n *model.RNode) bool { return len(n.Kids) > 0 })
		if n == nil {
			return raw(), false
		}
		i := r.Intn(len(n.Kids))
		n.Kids = append(n.Kids[:i:i], n.Kids[i+1:]...)
	case "dup-child":
		n := pick(r, lists, func(n *model.RNode) bool { return len(n.Kids) > 0 })
		if n == nil {
			return raw(), false
		}
		i := r.Intn(len(n.Kids))
		k := append([]*model.RNode{}, n.Kids[:i+1]...)
		k = append(k, n.Kids[i].Clone())
		n.Kids = append(k, n.Kids[i+1:]...)
	case "swap-children":
		n := pick(r, lists, func(n *model.RNode) bool { return len(n.Kids) > 1 })
		if n == nil {
			return raw(), false
		}
		i, j := r.Intn(len(n.Kids)), r.Intn(len(n.Kids))
		if i == j {
			j = (i + 1) % len(n.Kids)
		}
		n.Kids[i], n.Kids[j] = n.Kids[j], n.Kids[i]
	case "extra-child":
		n := pick(r, lists, nil)
		if n == nil {
			return raw(), false
		}
		n.Kids = append(n.Kids, model.Str(randBytes(r, r.Intn(4))))
	case "leaf-random":
		n := pick(r, leaves, nil)
		if n == nil {
			return raw(), false
		}
		n.Str = randBytes(r, byteLens[r.Intn(len(byteLens))])
	case "leaf-small-int":
		n := pick(r, leaves, func(n *model.RNode) bool { return len(n.Str) <= 2 })
		if n == nil {
			return raw(), false
		}
		n.Str = []byte{byte(1 + r.Intn(255))}
	case "deep-nest":
		n := pick(r, all, nil)
		depth := []int{2, 10, 100, 1000, 3000}[r.Intn(5)]
		e := n.Enc()
		if r.Intn(2) == 0 {
			e = []byte{0xc0}
		}
		n.Raw = nest(e, depth)
	default:
		panic("c14: unknown mutation kind " + kind)
	}
	return root.Enc(), true
}

// nest wraps e into depth nested single-element lists (built outside-in, linear time).
func nest(e []byte, depth int) []byte {
	sizes := make([]int, depth+1)
	sizes[0] = len(e)
	for i := 1; i <= depth; i++ {
		h := 1
		if sizes[i-1] >= 56 {
			h = 1 + minLenBytes(sizes[i-1])
		}
		sizes[i] = sizes[i-1] + h
	}
	out := make([]byte, 0, sizes[depth])
	for i := depth; i >= 1; i-- {
		l := sizes[i-1]
		if l < 56 {
			out = append(out, 0xc0+byte(l))
		} else {
			nb := minLenBytes(l)
			out = append(out, 0xf7+byte(nb))
			for k := nb - 1; k >= 0; k-- {
				out = append(out, byte(l>>(8*uint(k))))
			}
		}
	}
	return append(out, e...)
}

func min(a, b int) int {
	if a < b {
		return a
	}
	return b
}
