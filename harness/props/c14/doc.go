// Package c14 holds the workloads and monitors of property C14.
package c14
