package c14

// C14.staking: staking.TxConverter.ApplyMessage with hostile transaction Data on a live
// MessageContext (a StateDB holding validators, funded operators and delegators).
//
// Oracles: no panic / process death; REJECT: Data that is undecodable by construction (RLP-level
// invalid outer staking.Message or inner payload, unknown action) must come back failed=true and
// leave the staking state alone (no pending record, no log, no balance moved); only the sender's
// nonce advances by one.

import (
	"crypto/ecdsa"
	"fmt"
	"math/big"
	"math/rand"
	"reflect"
	"sort"

	"verif/kit"

	"github.com/youchainhq/go-youchain/common"
	"github.com/youchainhq/go-youchain/core"
	"github.com/youchainhq/go-youchain/core/state"
	"github.com/youchainhq/go-youchain/core/types"
	"github.com/youchainhq/go-youchain/core/vm"
	"github.com/youchainhq/go-youchain/crypto"
	"github.com/youchainhq/go-youchain/local"
	"github.com/youchainhq/go-youchain/params"
	"github.com/youchainhq/go-youchain/staking"
	"github.com/youchainhq/go-youchain/youdb"
)

func init() { kit.Register("C14.staking", runStaking) }

type stkEnv struct {
	st     *state.StateDB
	vals   []common.Address // main addresses of existing validators
	ops    []common.Address // their operators
	actors []common.Address // operators + plain accounts
	keys   []*ecdsa.PrivateKey
	cfg    *vm.Config
	header *types.Header
}

func buildStkEnv() (*stkEnv, error) {
	params.InitNetworkId(99)
	st, err := state.New(common.Hash{}, common.Hash{}, common.Hash{}, state.NewDatabase(youdb.NewMemDatabase()))
	if err != nil {
		return nil, err
	}
	yp := params.Versions[params.YouV5]
	env := &stkEnv{st: st, cfg: &vm.Config{RuntimeConfig: vm.RuntimeConfig{CurrYouParams: &yp}},
		header: &types.Header{Number: big.NewInt(100), Time: 1600000000, GasLimit: 0x888888, CurrVersion: params.YouV5}}
	for i := 0; i < 4; i++ {
		k := detKey(fmt.Sprint("stk", i))
		op := crypto.PubkeyToAddress(detKey(fmt.Sprint("stkop", i)).PublicKey)
		role := []params.ValidatorRole{params.RoleChancellor, params.RoleSenator, params.RoleHouse, params.RoleHouse}[i]
		token := new(big.Int).Mul(big.NewInt(2000), params.StakeUint)
		v := st.CreateValidator(fmt.Sprint("v", i), op, op, role, crypto.CompressPubkey(&k.PublicKey), []byte{1, 2, 3}, token, params.YOUToStake(token), params.AcceptDelegation, 100, 100, uint8(i%2))
		if v == nil {
			return nil, fmt.Errorf("CreateValidator failed")
		}
		env.vals = append(env.vals, v.MainAddress())
		env.ops = append(env.ops, op)
		env.actors = append(env.actors, op)
		env.keys = append(env.keys, k)
		st.AddBalance(op, new(big.Int).Mul(big.NewInt(100000), params.StakeUint))
	}
	for i := 0; i < 2; i++ {
		a := crypto.PubkeyToAddress(detKey(fmt.Sprint("stkuser", i)).PublicKey)
		st.AddBalance(a, new(big.Int).Mul(big.NewInt(100000), params.StakeUint))
		env.actors = append(env.actors, a)
	}
	st.IntermediateRoot(true)
	return env, nil
}

// digest of everything a staking handler may touch (except the sender's nonce).
func (e *stkEnv) digest() string {
	s := fmt.Sprintf("logs=%d;", len(e.st.Logs()))
	var recs []string
	e.st.ForEachStakingRecord(func(d, v common.Address, r *state.Record) error {
		recs = append(recs, fmt.Sprintf("%x>%x=%v/%d", d[:4], v[:4], r.FinalValue, len(r.TxHashes)))
		return nil
	})
	sort.Strings(recs)
	s += fmt.Sprint(recs, ";")
	for _, a := range e.actors {
		s += fmt.Sprintf("%x=%v,", a[:4], e.st.GetBalance(a))
		for _, v := range e.vals {
			if e.st.PendingRelationshipExist(a, v) {
				s += "p"
			}
		}
	}
	return s
}

func (e *stkEnv) hostileTx(g *gen, a staking.ActionType, from common.Address) interface{} {
	r := g.r
	v := g.newValue(stakingPayloadType(a))
	// aim the message at existing validators / plausible values most of the time
	set := func(name string, val interface{}) {
		f := v.Elem().FieldByName(name)
		if f.IsValid() && r.Intn(4) > 0 {
			f.Set(reflect.ValueOf(val))
		}
	}
	target := e.vals[r.Intn(len(e.vals))]
	set("MainAddress", target)
	set("Validator", target)
	set("OperatorAddress", from)
	set("Recipient", from)
	if r.Intn(2) == 0 {
		set("Value", new(big.Int).Mul(big.NewInt(int64(1+r.Intn(3000))), params.StakeUint))
	} else if r.Intn(3) == 0 {
		set("Value", new(big.Int).Lsh(big.NewInt(1), uint(r.Intn(5000))))
	}
	set("Role", params.ValidatorRole(1+r.Intn(3)))
	set("Status", uint8(r.Intn(3)))
	set("AcceptDelegation", uint16(r.Intn(3)))
	set("CommissionRate", uint16(r.Intn(12000)))
	set("RiskObligation", uint16(r.Intn(12000)))
	if f := v.Elem().FieldByName("MainPubKey"); f.IsValid() {
		switch r.Intn(5) {
		case 0:
			k := detKey(fmt.Sprint("new", r.Intn(50)))
			f.SetBytes(crypto.CompressPubkey(&k.PublicKey))
		case 1:
			k := detKey(fmt.Sprint("new", r.Intn(50)))
			f.SetBytes(crypto.FromECDSAPub(&k.PublicKey))
		case 2:
			f.SetBytes(randBytes(r, []int{33, 65}[r.Intn(2)])) // right length, most likely not a curve point
		}
	}
	if f := v.Elem().FieldByName("Name"); f.IsValid() && r.Intn(8) == 0 {
		f.SetString(string(randBytes(r, 5000)))
	}
	return v.Interface()
}

func runStaking(c *kit.Ctx) {
	chunks := c.N(32, 3200)
	per := 400
	conv := &staking.TxConverter{}
	for i := 0; i < chunks; i++ {
		id := fmt.Sprintf("s%d", i)
		if !c.Mine(i, id) {
			continue
		}
		c.Begin(id, map[string]interface{}{"chunk": i, "messages": per})
		env, err := buildStkEnv()
		if err != nil {
			c.EndInconclusive("environment: " + err.Error())
			return
		}
		r := c.Rand(id)
		g := &gen{r: r}
		for k := 0; k < per; k++ {
			if !stakingOne(c, env, conv, r, g, k) {
				break
			}
		}
		c.End("")
	}
}

func stakingOne(c *kit.Ctx, env *stkEnv, conv *staking.TxConverter, r *rand.Rand, g *gen, k int) bool {
	from := env.actors[r.Intn(len(env.actors))]
	action := stakingActions[r.Intn(len(stakingActions))]
	var data []byte
	inner, outer := "valid", "valid"
	innerApplied, outerApplied := false, false
	unknown := false
	shape := "msg"
	switch r.Intn(10) {
	case 0:
		data, shape = randBytes(r, r.Intn(120)), "random"
	case 1:
		m := staking.Message{Action: staking.ActionType(r.Intn(256)), Payload: mustEnc(env.hostileTx(g, action, from))}
		_, known := map[staking.ActionType]bool{1: true, 2: true, 3: true, 4: true, 5: true, 6: true, 0x10: true, 0x11: true, 0x12: true}[m.Action]
		unknown = !known
		data, shape = mustEnc(&m), "any-action"
	default:
		payload := mustEnc(env.hostileTx(g, action, from))
		switch r.Intn(4) {
		case 0:
			inner = mutKinds[1+r.Intn(len(mutKinds)-1)]
			payload, innerApplied = mutate(r, payload, inner)
		case 1:
			outer = mutKinds[1+r.Intn(len(mutKinds)-1)]
		}
		data = mustEnc(&staking.Message{Action: action, Payload: payload})
		if outer != "valid" {
			data, outerApplied = mutate(r, data, outer)
		}
	}
	why := ""
	switch {
	case outerApplied && rlpLevelInvalid[outer]:
		why = "outer message " + outer
	case innerApplied && rlpLevelInvalid[inner] && outer == "valid":
		why = "payload " + inner
	case unknown:
		why = "unknown action"
	}
	to := params.StakingModuleAddress
	nonce := env.st.GetNonce(from)
	msg := types.NewMessage(from, &to, nonce, new(big.Int), 10000000, big.NewInt(1), data, true)
	gp := new(core.GasPool).AddGas(100000000)
	ctx := core.NewMsgContext(msg, env.st, nil, env.header, env.header.Coinbase, gp, env.cfg, local.FakeRecorder())
	ctx.InitialGas, ctx.AvailableGas = 10000000, 9000000 // as after preCheck/buyGas and the intrinsic gas
	env.st.Prepare(common.BigToHash(big.NewInt(int64(k))), common.Hash{}, k)
	before := env.digest()
	c.Evals(1)
	c.Count("stk_msgs", 1)
	var (
		failed bool
		err    error
	)
	p := guard(func() { _, _, failed, err = conv.ApplyMessage(ctx) })
	wit := map[string]interface{}{"data": hx(data), "from": from.String(), "action": uint8(action), "payload_mutation": inner, "message_mutation": outer}
	if p != nil {
		wit["stack"] = lastStack
		c.Violation("staking-apply-panic", fmt.Sprintf("TxConverter.ApplyMessage panics on hostile Data (action %d, payload mutation %s, message mutation %s): %v", action, inner, outer, p), wit)
		return false
	}
	if err != nil {
		c.Count("stk_hard_error", 1) // the transaction is refused altogether: also a rejection
		return true
	}
	if failed {
		c.Count("stk_failed", 1)
	} else {
		c.Count("stk_succeeded", 1)
		c.Sample(map[string]interface{}{"action": uint8(action), "from": from.String(), "payload_mutation": inner, "message_mutation": outer, "data": hx(data[:min(len(data), 64)]), "outcome": "applied"})
		c.Count(fmt.Sprintf("stk_succeeded_action_%02x", uint8(action)), 1)
	}
	c.Sig(fmt.Sprintf("stk|%s|%02x|%v|%v|%v", shape, uint8(action), inner != "valid", outer != "valid", failed))
	if got := env.st.GetNonce(from); got != nonce+1 {
		c.Violation("staking-nonce", fmt.Sprintf("sender nonce %d -> %d after ApplyMessage", nonce, got), wit)
		return false
	}
	if why != "" {
		c.Count("stk_must_reject", 1)
		if !failed || env.digest() != before {
			c.Violation("staking-accepts-undecodable", fmt.Sprintf("staking Data that cannot be decoded (%s) is not rejected: failed=%v, staking state changed=%v", why, failed, env.digest() != before), wit)
			return false
		}
	}
	return true
}
