package c14

// C14.ucon: the real Server.HandleMsg -> MessageHandler.HandleMsg of a MINING ucon.Server
// (production wiring of judger, Proposal and Voter by StartMining) fed with hostile consensus
// messages. The chain is a real core.BlockChain over a database that holds a genesis with six
// validators whose keys the harness owns, plus K fabricated empty canonical blocks (headers carry
// well-formed consensus data and the genesis state roots) so that old / same / future rounds and
// all look-back headers exist. The timers are parked (consensus timeout and step interval of all
// params.Versions entries are set to hours) so nothing ticks during the run.
//
// Oracles: no panic / process death; and REJECT: a message that is undecodable by construction
// (RLP-level invalid outer message or payload, unknown code, garbage signature) must make
// HandleMsg return an error and must never be re-gossiped (no MessageEvent with its bytes).

import (
	"crypto/ecdsa"
	"fmt"
	"math/big"
	"math/rand"
	"os"
	"reflect"
	"sync"
	"time"

	"verif/kit"

	"github.com/youchainhq/go-youchain/bls"
	"github.com/youchainhq/go-youchain/common"
	"github.com/youchainhq/go-youchain/consensus/ucon"
	"github.com/youchainhq/go-youchain/core"
	"github.com/youchainhq/go-youchain/core/rawdb"
	"github.com/youchainhq/go-youchain/core/types"
	"github.com/youchainhq/go-youchain/crypto"
	secp256k1VRF "github.com/youchainhq/go-youchain/crypto/vrf/secp256k1"
	"github.com/youchainhq/go-youchain/event"
	"github.com/youchainhq/go-youchain/local"
	"github.com/youchainhq/go-youchain/params"
	"github.com/youchainhq/go-youchain/rlp"
	"github.com/youchainhq/go-youchain/youdb"
)

func init() { kit.Register("C14.ucon", runUcon) }

const uconBlocks = 40 // fabricated canonical blocks; the mining server then works on round 41

type uconVal struct {
	sk     *ecdsa.PrivateKey
	addr   common.Address
	blsSk  bls.SecretKey
	blsRaw []byte
	idx    int // index in the sorted look-back validator list (VoterIdx of BLS votes)
	stake  *big.Int
}

type uconEnv struct {
	srv        *ucon.Server
	chain      *core.BlockChain
	mux        *event.TypeMux
	vals       []*uconVal // [0] = the server's own key; 0..3 chamber (chancellor), 4..5 house
	outsider   *ecdsa.PrivateKey
	round      uint64
	seeds      map[uint64]common.Hash
	totalStake *big.Int
	hashes     []common.Hash // canonical block hashes by number

	gmu      sync.Mutex
	gossiped map[string]bool
}

type nopInserter struct{}

func (nopInserter) Insert(*types.Block) error { return nil }

func detKey(tag string) *ecdsa.PrivateKey {
	k, err := crypto.ToECDSA(crypto.Keccak256([]byte("c14-key-" + tag)))
	if err != nil {
		panic(err)
	}
	return k
}

func consensusBytes(round uint64, seed common.Hash) []byte {
	return mustEnc(&ucon.BlockConsensusData{Round: new(big.Int).SetUint64(round), RoundIndex: 1, Seed: seed,
		SortitionProof: []byte{1}, Priority: common.Hash{1}, SubUsers: 1, Signature: []byte{},
		ProposerThreshold: 26, ValidatorThreshold: 2000, CertValThreshold: 4000})
}

func buildUconEnv() (*uconEnv, error) {
	params.InitNetworkId(99)
	for v, yp := range params.Versions { // park the consensus timers
		yp.ConsensusTimeout = 100 * time.Hour
		yp.ConsensusStepInterval = 100 * time.Hour
		params.Versions[v] = yp
	}
	env := &uconEnv{mux: new(event.TypeMux), seeds: map[uint64]common.Hash{}, gossiped: map[string]bool{}, outsider: detKey("outsider")}
	mgr := bls.NewBlsManager()
	g := &core.Genesis{NetworkId: 99, GasLimit: 0x888888, CurrVersion: params.YouV5, Mixhash: types.UConMixHash,
		Alloc: core.GenesisAlloc{}, Validators: core.GenesisValidators{}, Timestamp: 1600000000}
	for i := 0; i < 6; i++ {
		v := &uconVal{sk: detKey(fmt.Sprint("val", i))}
		v.addr = crypto.PubkeyToAddress(v.sk.PublicKey)
		// deterministic BLS secret: retry until the bytes are a valid scalar
		for n := 0; ; n++ {
			raw := crypto.Keccak256([]byte(fmt.Sprintf("c14-bls-%d-%d", i, n)))
			raw[0] &= 0x3f
			if sk, err := mgr.DecSecretKey(raw); err == nil {
				v.blsSk, v.blsRaw = sk, raw
				break
			}
		}
		pk, err := v.blsSk.PubKey()
		if err != nil {
			return nil, err
		}
		role, token := params.RoleChancellor, new(big.Int).Mul(big.NewInt(int64(5000+100*i)), params.StakeUint)
		if i >= 4 {
			role = params.RoleHouse
		}
		v.stake = params.YOUToStake(token)
		g.Validators[v.addr] = core.GenesisValidator{Name: fmt.Sprint("v", i), OperatorAddress: v.addr, Coinbase: v.addr,
			MainPubKey: crypto.CompressPubkey(&v.sk.PublicKey), BlsPubKey: pk.Compress().Bytes(), Token: token, Role: role, Status: params.ValidatorOnline}
		g.Alloc[v.addr] = core.GenesisAccount{Balance: new(big.Int).Mul(big.NewInt(1000), params.StakeUint)}
		env.vals = append(env.vals, v)
	}
	env.seeds[0] = crypto.Keccak256Hash([]byte("c14-seed-0"))
	g.Consensus = consensusBytes(0, env.seeds[0])
	db := youdb.NewMemDatabase()
	gb, err := g.Commit(db)
	if err != nil {
		return nil, err
	}
	env.hashes = append(env.hashes, gb.Hash())
	parent := gb.Header()
	for i := uint64(1); i <= uconBlocks; i++ {
		env.seeds[i] = crypto.Keccak256Hash([]byte(fmt.Sprint("c14-seed-", i)))
		h := &types.Header{ParentHash: parent.Hash(), Coinbase: env.vals[0].addr, Root: parent.Root, ValRoot: parent.ValRoot,
			StakingRoot: parent.StakingRoot, Number: new(big.Int).SetUint64(i), Subsidy: new(big.Int), GasRewards: new(big.Int),
			GasLimit: parent.GasLimit, Time: parent.Time + 1, CurrVersion: params.YouV5, MixDigest: types.UConMixHash,
			Consensus: consensusBytes(i, env.seeds[i])}
		b := types.NewBlock(h, nil, nil)
		rawdb.WriteBlock(db, b)
		rawdb.WriteReceipts(db, b.Hash(), i, nil)
		rawdb.WriteCanonicalHash(db, b.Hash(), i)
		rawdb.WriteHeadBlockHash(db, b.Hash())
		rawdb.WriteHeadHeaderHash(db, b.Hash())
		env.hashes = append(env.hashes, b.Hash())
		parent = b.Header()
	}
	env.round = uconBlocks + 1
	srv, err := ucon.NewVRFServer(db)
	if err != nil {
		return nil, err
	}
	env.srv = srv
	env.chain, err = core.NewBlockChain(db, srv, env.mux, params.ArchiveNode, local.FakeDetailDB())
	if err != nil {
		return nil, err
	}
	if n := env.chain.CurrentHeader().Number.Uint64(); n != uconBlocks {
		return nil, fmt.Errorf("fabricated chain not adopted: head %d", n)
	}
	vld, err := env.chain.GetVldReader(gb.ValRoot())
	if err != nil {
		return nil, err
	}
	stat, err := vld.GetValidatorsStat()
	if err != nil {
		return nil, err
	}
	env.totalStake = stat.GetStakeByKind(params.KindChamber)
	for _, v := range env.vals {
		ix, ok := vld.GetValidators().GetIndex(v.addr)
		if !ok {
			return nil, fmt.Errorf("validator %x not in the genesis set", v.addr)
		}
		v.idx = ix
	}
	// record what the node gossips on
	sub := env.mux.Subscribe(ucon.MessageEvent{})
	go func() {
		for ev := range sub.Chan() {
			if ev == nil {
				return
			}
			if me, ok := ev.Data.(ucon.MessageEvent); ok {
				env.gmu.Lock()
				env.gossiped[string(me.Payload)] = true
				env.gmu.Unlock()
			}
		}
	}()
	if err := srv.SetValKey(env.vals[0].sk, env.vals[0].blsRaw); err != nil {
		return nil, err
	}
	if err := srv.StartMining(env.chain, nopInserter{}, env.mux); err != nil {
		return nil, err
	}
	// StartMining posts the ContextChangeEvent of the first round ASYNCHRONOUSLY and BEFORE the message
	// handler, the proposal manager and the voter subscribe, so any of them may miss it and then
	// keeps a nil round until the next step tick (500 ms in production, never here because the timers
	// are parked). A current-round vote arriving in that window makes Voter.processVoteMsg panic
	// (msg.Round.Cmp(nil)): a start-up race of the node, not a decoding matter, reported separately.
	// The harness re-posts the very same event synchronously; TypeMux.Post is a rendezvous with each
	// subscriber's loop, so after the SECOND Post every component has fully processed the first.
	if os.Getenv("C14_NO_BARRIER") == "" {
		ctx := ucon.ContextChangeEvent{Round: new(big.Int).SetUint64(env.round), RoundIndex: 1, Step: ucon.UConStepStart}
		env.mux.Post(ctx)
		env.mux.Post(ctx)
	}
	return env, nil
}

func (env *uconEnv) seedFor(round uint64) common.Hash {
	lb := uint64(0)
	if round > 8 { // SeedLookBack of the test-case parameters
		lb = round - 8
	}
	if lb > uconBlocks {
		lb = uconBlocks
	}
	return env.seeds[lb]
}

// signers: 0 nobody (garbage signature), 1 non-validator key, 2.. a genuine online validator
func (env *uconEnv) outer(r *rand.Rand, code ucon.MsgType, payload []byte, signer int) (data []byte, who string) {
	m := &ucon.Message{Code: code, Payload: payload}
	body := append(append([]byte{}, payload...), byte(code))
	switch {
	case signer == 0:
		who = "nobody"
		m.Signature = randBytes(r, []int{0, 1, 64, 65, 65, 65, 66, 130}[r.Intn(8)])
		if len(m.Signature) == 65 {
			m.Signature[64] = byte(r.Intn(5))
		}
	case signer == 1:
		who = "outsider"
		m.Signature, _ = ucon.Sign(env.outsider, body)
	default:
		v := env.vals[(signer-2)%len(env.vals)]
		who = "validator"
		if (signer-2)%len(env.vals) >= 4 {
			who = "house-validator"
		}
		m.Signature, _ = ucon.Sign(v.sk, body)
	}
	return mustEnc(m), who
}

func (env *uconEnv) pickRound(r *rand.Rand) (*big.Int, string) {
	switch r.Intn(12) {
	case 0:
		return new(big.Int), "zero"
	case 1:
		return new(big.Int).SetUint64(env.round - 1 - uint64(r.Intn(4))), "old"
	case 2:
		return new(big.Int).SetUint64(env.round - 5 - uint64(r.Intn(30))), "very-old"
	case 3, 4:
		return new(big.Int).SetUint64(env.round + 1 + uint64(r.Intn(7))), "future"
	case 5:
		return new(big.Int).SetUint64(env.round + 9 + uint64(r.Intn(1000))), "far-future"
	case 6:
		return new(big.Int).Lsh(big.NewInt(1), uint(64+r.Intn(200))), "huge"
	case 7:
		return new(big.Int).SetUint64(^uint64(0) - uint64(r.Intn(3))), "max64"
	default:
		return new(big.Int).SetUint64(env.round), "same"
	}
}

func pickIndex(r *rand.Rand) uint32 {
	return []uint32{0, 1, 1, 1, 1, 2, 3, 1000, ^uint32(0)}[r.Intn(9)]
}

func pickTime(r *rand.Rand) uint64 {
	now := uint64(time.Now().Unix())
	return []uint64{0, now - 100, now, now, now, now + 5, now + 1000000, ^uint64(0)}[r.Intn(8)]
}

// votePayload builds a BlockHashWithVotes; honest=true gives a real BLS signature and VRF proof of
// validator v for (round, index, step).
func (env *uconEnv) votePayload(r *rand.Rand, code ucon.MsgType, v *uconVal, honest bool) (*ucon.BlockHashWithVotes, string) {
	round, rc := env.pickRound(r)
	m := &ucon.BlockHashWithVotes{Round: round, RoundIndex: pickIndex(r), Timestamp: pickTime(r), Vote: &ucon.SingleVote{}}
	r.Read(m.Priority[:])
	switch r.Intn(3) {
	case 0:
		r.Read(m.BlockHash[:])
	case 1:
		m.BlockHash = env.hashes[r.Intn(len(env.hashes))]
	}
	m.Vote.VoterIdx = []uint32{0, 1, 2, 3, 4, 5, 6, 7, 1000, ^uint32(0)}[r.Intn(10)]
	m.Vote.Votes = uint32(r.Intn(3000))
	m.Vote.Signature = randBytes(r, []int{0, 1, 47, 48, 48, 96, 97, 200}[r.Intn(8)])
	m.Vote.Proof = randBytes(r, []int{0, 1, 64, 81, 97, 129, 200}[r.Intn(7)])
	if honest && round.IsUint64() && round.Uint64() > 0 {
		step := uint32(ucon.MsgCodeToVoteType(code))
		vrfSk, _ := secp256k1VRF.NewVRFSigner(v.sk)
		_, proof, j := ucon.VrfSortition(vrfSk, env.seedFor(round.Uint64()), m.RoundIndex, step, 2000, v.stake, env.totalStake)
		m.Vote.Proof, m.Vote.Votes, m.Vote.VoterIdx = proof, j, uint32(v.idx)
		idx := make([]byte, 4)
		idx[0], idx[1], idx[2], idx[3] = byte(m.RoundIndex>>24), byte(m.RoundIndex>>16), byte(m.RoundIndex>>8), byte(m.RoundIndex)
		payload := append(m.BlockHash.Bytes(), append(round.Bytes(), idx...)...)
		m.Vote.Signature = v.blsSk.Sign(payload).Compress().Bytes()
		rc += "+honest"
		if r.Intn(4) == 0 { // honest crypto, wrong claimed weight
			m.Vote.Votes += uint32(1 + r.Intn(3))
			rc += "+wrongvotes"
		}
	}
	return m, rc
}

func (env *uconEnv) priorityPayload(r *rand.Rand, v *uconVal, honest bool) (*ucon.ConsensusCommon, string) {
	round, rc := env.pickRound(r)
	m := &ucon.ConsensusCommon{Round: round, RoundIndex: pickIndex(r), Step: uint32(r.Intn(7)), SubUsers: uint32(r.Intn(40)), Timestamp: pickTime(r)}
	r.Read(m.Priority[:])
	r.Read(m.BlockHash[:])
	m.ParentHash = env.hashes[len(env.hashes)-1]
	m.SortitionProof = randBytes(r, []int{0, 1, 64, 81, 97, 129, 200}[r.Intn(7)])
	if honest && round.IsUint64() && round.Uint64() > 0 {
		m.Step = ucon.UConStepProposal
		vrfSk, _ := secp256k1VRF.NewVRFSigner(v.sk)
		hash, proof, j := ucon.VrfSortition(vrfSk, env.seedFor(round.Uint64()), m.RoundIndex, m.Step, 26, v.stake, env.totalStake)
		m.SortitionProof, m.SubUsers = proof, j
		m.Priority = ucon.VrfComputePriority(hash, j)
		rc += "+honest"
	}
	return m, rc
}

func (env *uconEnv) blockPayload(r *rand.Rand, g *gen) (*types.Block, string) {
	round, rc := env.pickRound(r)
	h := g.newValue(reflect.TypeOf(types.Header{})).Interface().(*types.Header)
	h.Number = new(big.Int).Set(round)
	h.Time = pickTime(r)
	h.MixDigest = types.UConMixHash
	h.ParentHash = env.hashes[len(env.hashes)-1]
	h.CurrVersion = params.YouV5
	switch r.Intn(6) {
	case 0:
		h.Consensus = nil
		rc += "+noconsensus"
	case 1:
		h.Consensus = g.bytes()
		rc += "+junkconsensus"
	default:
		cd := g.newValue(reflect.TypeOf(ucon.BlockConsensusData{})).Interface().(*ucon.BlockConsensusData)
		cd.Round, cd.RoundIndex = round, pickIndex(r)
		h.Consensus = mustEnc(cd)
	}
	var txs []*types.Transaction
	for i, n := 0, r.Intn(3); i < n; i++ {
		txs = append(txs, g.newValue(reflect.TypeOf(types.Transaction{})).Interface().(*types.Transaction))
	}
	return types.NewBlock(h, txs, nil), rc
}

func runUcon(c *kit.Ctx) {
	chunks := c.N(16, 1600)
	per := 320
	for i := 0; i < chunks; i++ {
		id := fmt.Sprintf("u%d", i)
		if !c.Mine(i, id) {
			continue
		}
		c.Begin(id, map[string]interface{}{"chunk": i, "messages": per})
		// a fresh node per chunk: every case is independent and replays exactly
		env, err := buildUconEnv()
		if err != nil {
			c.Note("C14.ucon: cannot build the mining server: " + err.Error())
			c.EndInconclusive("environment: " + err.Error())
			return
		}
		r := c.Rand(id)
		g := &gen{r: r}
		mustReject := map[string]string{}
		ok := true
		for k := 0; k < per && ok; k++ {
			ok = uconOne(c, env, r, g, mustReject)
		}
		if ok {
			time.Sleep(150 * time.Millisecond) // let the asynchronous transfer events drain
			env.gmu.Lock()
			for data, why := range mustReject {
				if env.gossiped[data] {
					c.Violation("handler-gossips-undecodable", "a consensus message that cannot be decoded ("+why+") was re-gossiped (MessageEvent) instead of being rejected",
						map[string]interface{}{"data": hx([]byte(data)), "why": why})
					break
				}
			}
			c.Count("ucon_gossiped_total", len(env.gossiped))
			env.gossiped = map[string]bool{}
			env.gmu.Unlock()
		}
		env.srv.Stop()
		env.chain.Stop()
		env.mux.Stop()
		c.End("")
	}
}

var uconCodes = []ucon.MsgType{0, 1, 2, 3, 4, 5, 6, 7}

func uconOne(c *kit.Ctx, env *uconEnv, r *rand.Rand, g *gen, mustReject map[string]string) bool {
	code := uconCodes[r.Intn(len(uconCodes))]
	signer := r.Intn(8) // 0 nobody, 1 outsider, 2..7 validators 0..5
	v := env.vals[0]
	if signer >= 2 {
		v = env.vals[(signer-2)%len(env.vals)]
	}
	honest := signer >= 2 && r.Intn(2) == 0
	var payload []byte
	var rc string
	ptype := code
	if code == 0 || code == 7 {
		ptype = ucon.MsgType(1 + r.Intn(6)) // unknown code around a well-formed payload of some other kind
	}
	switch ptype {
	case 1:
		m, s := env.priorityPayload(r, v, honest)
		payload, rc = mustEnc(m), s
	case 2:
		m, s := env.blockPayload(r, g)
		payload, rc = mustEnc(m), s
	default:
		m, s := env.votePayload(r, ptype, v, honest)
		payload, rc = mustEnc(m), s
	}
	// hostile encodings: of the payload (then signed as it is), or of the whole message
	inner, outerMut := "valid", "valid"
	innerApplied, outerApplied := false, false
	switch r.Intn(4) {
	case 0:
		inner = mutKinds[1+r.Intn(len(mutKinds)-1)]
		payload, innerApplied = mutate(r, payload, inner)
	case 1:
		outerMut = mutKinds[1+r.Intn(len(mutKinds)-1)]
	}
	data, who := env.outer(r, code, payload, signer)
	if outerMut != "valid" {
		data, outerApplied = mutate(r, data, outerMut)
	}
	why := ""
	switch {
	case outerApplied && rlpLevelInvalid[outerMut]:
		why = "outer message " + outerMut
	case innerApplied && rlpLevelInvalid[inner] && outerMut == "valid":
		why = "payload " + inner
	case (code == 0 || code == 7) && outerMut == "valid":
		why = "unknown message code"
	}
	c.Evals(1)
	c.Count("ucon_msgs", 1)
	c.Count(fmt.Sprintf("ucon_code%d", code), 1)
	c.Count("ucon_by_"+who, 1)
	var err error
	p := guard(func() { err = env.srv.HandleMsg(data, time.Now()) })
	if p != nil {
		c.Violation(fmt.Sprintf("handler-panic:code%d", code), fmt.Sprintf("Server.HandleMsg panics on a hostile message (code %d, sender %s, round class %s, payload mutation %s, message mutation %s): %v", code, who, rc, inner, outerMut, p),
			map[string]interface{}{"data": hx(data), "code": code, "sender": who, "round": rc, "payload_mutation": inner, "message_mutation": outerMut, "stack": lastStack})
		return false
	}
	out := "nil"
	if err != nil {
		out = errBucket(err)
		c.Count("ucon_rejected", 1)
	} else {
		c.Count("ucon_returned_nil", 1)
	}
	c.Count("ucon_out:"+out, 1)
	if honest && err == nil {
		c.Sample(map[string]interface{}{"code": code, "sender": who, "round": rc, "payload_mutation": inner, "message_mutation": outerMut, "data_len": len(data), "outcome": "nil"})
	}
	if who == "validator" && inner == "valid" && outerMut == "valid" && err == nil {
		c.Count("ucon_validator_wellformed_nil", 1)
	}
	c.Sig(fmt.Sprintf("ucon|%d|%s|%s|%v|%v|%s", code, who, rc, inner != "valid", outerMut != "valid", out))
	if why != "" {
		c.Count("ucon_must_reject", 1)
		mustReject[string(data)] = why
		if err == nil {
			c.Violation("handler-accepts-undecodable", fmt.Sprintf("Server.HandleMsg returns nil for a message that cannot be decoded (%s; code %d, sender %s)", why, code, who),
				map[string]interface{}{"data": hx(data), "why": why, "code": code, "sender": who})
			return false
		}
	}
	return true
}

var _ = rlp.EncodeToBytes
