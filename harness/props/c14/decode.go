// Package c14: RLP encoding is canonical, round-trips, and decoding hostile bytes is safe.
//
// Workloads:
//
//	C14.rt       generated values of every wire/disk type: encode, decode the way the node does,
//	             compare (normalised deep equality, re-encoding equality, hashes), encoder
//	             determinism, canonical form of the produced bytes (independent RLP model).
//	C14.hostile  random bytes and structure-aware mutations of valid encodings, decoded the way
//	             the node does: no panic, allocation bound, accepted => re-encodes identically
//	             (for the categories the statement lists), post-decode accessors do not panic.
//	C14.staking  staking.TxConverter.ApplyMessage with hostile Data on a live MessageContext.
//	C14.ucon     Server.HandleMsg -> MessageHandler.HandleMsg of a mining ucon.Server with hostile
//	             payloads signed by nobody / a non-validator / a genuine chamber validator.
package c14

import (
	"bytes"
	"encoding/hex"
	"fmt"
	"reflect"
	"regexp"
	"runtime"
	"runtime/debug"
	"strings"

	"verif/kit"
	"verif/model"

	"github.com/youchainhq/go-youchain/common"
	"github.com/youchainhq/go-youchain/consensus/ucon"
	"github.com/youchainhq/go-youchain/params"
	"github.com/youchainhq/go-youchain/rlp"
)

func init() {
	kit.Register("C14.rt", runRT)
	kit.Register("C14.hostile", runHostile)
}

const allocSlack = 1 << 20 // bytes allocated during one decode must stay <= 1024*len(input) + 1 MiB

func hx(b []byte) string {
	if len(b) > 4096 {
		return hex.EncodeToString(b[:4096]) + fmt.Sprintf("...(%d bytes)", len(b))
	}
	return hex.EncodeToString(b)
}

// lastStack holds the stack of the most recent panic recovered by guard (for the witness).
var lastStack string

// guard is kit.Guard plus the stack trace of the panic.
func guard(f func()) (p interface{}) {
	defer func() {
		if r := recover(); r != nil {
			p = r
			st := string(debug.Stack())
			if i := strings.Index(st, "panic("); i >= 0 {
				st = st[i:]
			}
			if len(st) > 3000 {
				st = st[:3000]
			}
			lastStack = st
		}
	}()
	f()
	return nil
}

func encGuard(v interface{}) (b []byte, err error, p interface{}) {
	p = guard(func() { b, err = rlp.EncodeToBytes(v) })
	return
}

var idxRe = regexp.MustCompile(`\[[^\]]*\]`)

// measured decode: returns the error, a recovered panic, and the bytes allocated meanwhile.
func decodeMeasured(e *entry, in []byte, t interface{}) (err error, p interface{}, alloc uint64) {
	var m0, m1 runtime.MemStats
	runtime.ReadMemStats(&m0)
	p = guard(func() { err = e.decode(in, t) })
	runtime.ReadMemStats(&m1)
	return err, p, m1.TotalAlloc - m0.TotalAlloc
}

type hasher interface{ Hash() common.Hash }

// types whose Hash() is a function of the wire content (the staking Tx* Hash() methods hash a
// signing payload or panic "implement me" by design and are not part of this property)
var hashed = map[string]bool{"Header": true, "Transaction": true, "Block": true, "SlashData": true, "you.NewBlockMsg": true}

// ---------------------------------------------------------------------------------------------

func runRT(c *kit.Ctx) {
	params.InitNetworkId(99)
	chunks := c.N(96, 6400)
	reps := 24
	for i := 0; i < chunks; i++ {
		id := fmt.Sprintf("rt%d", i)
		if !c.Mine(i, id) {
			continue
		}
		c.Begin(id, map[string]interface{}{"chunk": i, "types": len(registry), "reps": reps})
		r := c.Rand(id)
		g := &gen{r: r}
		types := 0
		for _, e := range registry {
			types++
			for k := 0; k < reps; k++ {
				if !rtOne(c, g, e) {
					break
				}
			}
		}
		c.Max("max_types_covered", int64(types))
		c.End("")
	}
}

// rtOne evaluates one generated value; false = a violation was reported for this type (stop it).
func rtOne(c *kit.Ctx, g *gen, e *entry) bool {
	v := e.gen(g)
	c.Evals(1)
	c.Count("rt_values", 1)
	b1, err, p := encGuard(v)
	if p != nil || err != nil {
		c.Violation("encode-failed:"+e.name, fmt.Sprintf("encoding a wire-normal generated %s failed: err=%v panic=%v", e.name, err, p), map[string]interface{}{"type": e.name, "value": fmt.Sprintf("%+v", v)})
		return false
	}
	c.Max("max_encoding_bytes", int64(len(b1)))
	b2, _, _ := encGuard(v)
	if !bytes.Equal(b1, b2) {
		c.Violation("nondeterministic-encoding:"+e.name, fmt.Sprintf("the same %s object encoded twice gives two different byte strings (so equal objects have several encodings and hashes)", e.name),
			map[string]interface{}{"type": e.name, "enc1": hx(b1), "enc2": hx(b2)})
		return false
	}
	if cerr := model.CanonicalRLP(b1); cerr != nil {
		c.Violation("encoder-noncanonical-rlp:"+e.name, fmt.Sprintf("encoding of %s is not canonical RLP per the independent model: %v", e.name, cerr), map[string]interface{}{"type": e.name, "enc": hx(b1)})
		return false
	}
	t := e.target()
	derr, p, alloc := decodeMeasured(e, b1, t)
	if p != nil {
		c.Violation("decode-panic:"+e.name, fmt.Sprintf("decoding the node's own encoding of %s panics: %v", e.name, p), map[string]interface{}{"type": e.name, "input": hx(b1)})
		return false
	}
	if derr != nil {
		c.Violation("roundtrip-decode-error:"+e.name, fmt.Sprintf("the node's own encoding of a %s is rejected by its decoder: %v", e.name, derr), map[string]interface{}{"type": e.name, "enc": hx(b1), "value": fmt.Sprintf("%+v", v)})
		return false
	}
	c.Max("max_alloc_vs_bound_permille", int64(alloc*1000/(1024*uint64(len(b1))+allocSlack)))
	if alloc > 1024*uint64(len(b1))+allocSlack {
		c.Violation("decode-alloc:"+e.name, fmt.Sprintf("decoding %d valid bytes as %s allocated %d bytes (> 1024*len+1MiB)", len(b1), e.name, alloc), map[string]interface{}{"type": e.name, "input": hx(b1)})
		return false
	}
	w := e.val(t)
	b3, err, p := encGuard(w)
	if p != nil || err != nil {
		c.Violation("reencode-failed:"+e.name, fmt.Sprintf("re-encoding the decoded %s failed: err=%v panic=%v", e.name, err, p), map[string]interface{}{"type": e.name, "enc": hx(b1)})
		return false
	}
	if !bytes.Equal(b1, b3) {
		where := describeDiff(e, b1, b3)
		c.Violation("roundtrip-reencode-mismatch:"+where, fmt.Sprintf("encode(decode(encode(v))) != encode(v) for %s at %s", e.name, where),
			map[string]interface{}{"type": e.name, "enc": hx(b1), "reenc": hx(b3)})
		return false
	}
	if ok, why := eqNorm(reflect.ValueOf(v), reflect.ValueOf(w), ""); !ok {
		field := idxRe.ReplaceAllString(strings.SplitN(why, ":", 2)[0], "[*]")
		c.Violation("roundtrip-value-mismatch:"+e.name+":"+field, fmt.Sprintf("decode(encode(v)) != v for %s: %s", e.name, why),
			map[string]interface{}{"type": e.name, "enc": hx(b1), "difference": why})
		return false
	}
	c.Count("rt_equal", 1)
	if hv, ok := v.(hasher); ok && hashed[e.name] {
		hw := w.(hasher)
		var h1, h2 common.Hash
		if p := guard(func() { h1, h2 = hv.Hash(), hw.Hash() }); p != nil {
			c.Violation("hash-panic:"+e.name, fmt.Sprintf("Hash() of a %s panics: %v", e.name, p), map[string]interface{}{"type": e.name, "enc": hx(b1)})
			return false
		}
		c.Count("rt_hash_compared", 1)
		if h1 != h2 {
			c.Violation("roundtrip-hash-mismatch:"+e.name, fmt.Sprintf("Hash() changes over an encode/decode round trip of %s: %x vs %x", e.name, h1, h2), map[string]interface{}{"type": e.name, "enc": hx(b1)})
			return false
		}
		if e.name == "Transaction" && !bytes.Equal(h1[:], model.Keccak256(b1)) {
			c.Violation("tx-hash-not-keccak-of-encoding", fmt.Sprintf("tx.Hash()=%x but keccak256(rlp(tx))=%x", h1, model.Keccak256(b1)), map[string]interface{}{"enc": hx(b1)})
			return false
		}
	}
	if e.touch != nil {
		if p := guard(func() { e.touch(w) }); p != nil {
			c.Violation("post-decode-panic:"+e.name, fmt.Sprintf("accessors of a decoded valid %s panic: %v", e.name, p), map[string]interface{}{"type": e.name, "input": hx(b1)})
			return false
		}
	}
	return true
}

// describeDiff names where the re-encoding differs from the input: "<path>:<kind>".
func describeDiff(e *entry, in, re []byte) string {
	a, ua, ea := model.ParseLenient(in)
	b, _, eb := model.ParseLenient(re)
	if ea != nil || eb != nil {
		return e.name + ":(whole):unparseable"
	}
	path, kind, same := model.DiffRLP(a, b)
	if same {
		if ua != len(in) {
			return e.name + ":(whole):trailing-bytes"
		}
		return e.name + ":(whole):length-prefix-form"
	}
	return pathName(e.name, e.shape, path) + ":" + kind
}

var errBucketRe = regexp.MustCompile(` for .*|, decoding into.*|: .*|[0-9]+`)

func errBucket(err error) string {
	s := err.Error()
	if strings.HasPrefix(s, "ucon: ") {
		s = s[6:]
	}
	s = errBucketRe.ReplaceAllString(s, "")
	if len(s) > 48 {
		s = s[:48]
	}
	return s
}

// ---------------------------------------------------------------------------------------------

func runHostile(c *kit.Ctx) {
	params.InitNetworkId(99)
	chunks := c.N(128, 9600)
	if c.Mode == "race" {
		chunks = c.N(8, 320) // the -race/checkptr build is ~10x slower: same generators, fewer chunks
	}
	for i := 0; i < chunks; i++ {
		id := fmt.Sprintf("h%d", i)
		if !c.Mine(i, id) {
			continue
		}
		c.Begin(id, map[string]interface{}{"chunk": i, "types": len(registry), "mutations": len(mutKinds)})
		r := c.Rand(id)
		g := &gen{r: r}
		bad := map[string]bool{}
		for round := 0; round < 3; round++ {
			for _, e := range registry {
				if bad[e.name] {
					continue
				}
				v := e.gen(g)
				valid, err, p := encGuard(v)
				if err != nil || p != nil {
					c.Violation("encode-failed:"+e.name, fmt.Sprintf("encoding a wire-normal generated %s failed: err=%v panic=%v", e.name, err, p), nil)
					bad[e.name] = true
					continue
				}
				for _, kind := range mutKinds {
					in, applied := mutate(r, valid, kind)
					if !applied {
						c.Count("mutation_not_applicable", 1)
						continue
					}
					if !hostileOne(c, e, kind, valid, in) {
						bad[e.name] = true
						break
					}
				}
			}
		}
		c.End("")
	}
}

func hostileOne(c *kit.Ctx, e *entry, kind string, valid, in []byte) bool {
	c.Evals(1)
	c.Count("hostile_inputs", 1)
	c.Count("mut_"+kind, 1)
	c.Max("max_input_bytes", int64(len(in)))
	wit := func(extra map[string]interface{}) map[string]interface{} {
		m := map[string]interface{}{"type": e.name, "mutation": kind, "input": hx(in), "valid_origin": hx(valid)}
		for k, v := range extra {
			m[k] = v
		}
		return m
	}
	t := e.target()
	err, p, alloc := decodeMeasured(e, in, t)
	if p != nil {
		c.Violation("decode-panic:"+e.name, fmt.Sprintf("decoding %d hostile bytes (%s) as %s panics: %v", len(in), kind, e.name, p), wit(map[string]interface{}{"stack": lastStack}))
		return false
	}
	c.Max("max_alloc_vs_bound_permille", int64(alloc*1000/(1024*uint64(len(in))+allocSlack)))
	c.Max("max_alloc_bytes", int64(alloc))
	if alloc > 1024*uint64(len(in))+allocSlack {
		c.Violation("decode-alloc:"+e.name, fmt.Sprintf("decoding %d hostile bytes (%s) as %s allocated %d bytes (> 1024*len+1MiB)", len(in), kind, e.name, alloc), wit(map[string]interface{}{"allocated": alloc}))
		return false
	}
	rawFunctions(c, in, wit)
	if rlpLevelInvalid[kind] && !(e.p2p && kind == "trailing") {
		// by construction not one canonical RLP item, whatever the target type
		if err != nil {
			c.Count("rlp_level_invalid_rejected", 1)
		} else {
			c.Count("rlp_level_invalid_accepted", 1)
		}
	}
	if err != nil {
		if kind == "valid" {
			c.Violation("roundtrip-decode-error:"+e.name, fmt.Sprintf("the node's own encoding of a %s is rejected by its decoder: %v", e.name, err), wit(nil))
			return false
		}
		c.Count("rejected", 1)
		c.Sig(e.name + "|" + kind + "|rej|" + errBucket(err))
		if kind == "claim-huge" {
			c.Sample(map[string]interface{}{"type": e.name, "mutation": kind, "input": hx(in[:min(len(in), 48)]), "input_len": len(in), "outcome": "rejected: " + err.Error(), "allocated_bytes": alloc})
		}
		return true
	}
	c.Count("accepted", 1)
	c.Count("mut_"+kind+"_accepted", 1)
	w := e.val(t)
	if bv, ok := w.(*ucon.BlockHashWithVotes); ok {
		// DESIGN suspicion: processVoteMsg dereferences msg.Vote before its nil check for non-current
		// rounds; only reachable if some accepted payload leaves Vote nil. Observed here.
		if bv.Vote == nil || bv.Round == nil {
			c.Count("vote_container_accepted_with_nil_vote_or_round", 1)
		} else {
			c.Count("vote_container_accepted_vote_nonnil", 1)
		}
	}
	if e.touch != nil {
		if p := guard(func() { e.touch(w) }); p != nil {
			c.Violation("post-decode-panic:"+e.name, fmt.Sprintf("accessors of an accepted hostile %s (%s) panic: %v", e.name, kind, p), wit(map[string]interface{}{"stack": lastStack}))
			return false
		}
	}
	re, eerr, p := encGuard(w)
	if p != nil || eerr != nil {
		c.Violation("reencode-failed:"+e.name, fmt.Sprintf("an accepted %s (%s) cannot be re-encoded: err=%v panic=%v", e.name, kind, eerr, p), wit(nil))
		return false
	}
	if bytes.Equal(re, in) {
		c.Count("accepted_canonical", 1)
		c.Sig(e.name + "|" + kind + "|acc")
		return true
	}
	where := describeDiff(e, in, re)
	if e.p2p && strings.HasSuffix(where, ":(whole):trailing-bytes") {
		// p2p.Msg.Decode reads one value from the frame and ignores the rest of it by design
		c.Count("p2p_frame_trailing_ignored", 1)
		return true
	}
	c.Sig(e.name + "|" + kind + "|acc-noncanon|" + where)
	if !e.canon {
		// the statement's accept=>canonical clause does not list this type: observed, not judged
		c.Count("unlisted_type_noncanonical_accepted", 1)
		c.Count("unlisted:"+e.name+"/"+where, 1)
		return true
	}
	c.Count("noncanonical_accepted", 1)
	c.Violation("noncanonical-accepted:"+where,
		fmt.Sprintf("%d bytes are accepted as %s but re-encode to different bytes (difference at %s; mutation %s): one object, two encodings", len(in), e.name, where, kind),
		wit(map[string]interface{}{"reencoded": hx(re)}))
	return true // keep going: other differences of the same type are separate classes
}

// rawFunctions drives the raw-level helpers of rlp/raw.go with the same hostile bytes: they must
// not panic, and what Split returns must be consistent with the input.
func rawFunctions(c *kit.Ctx, in []byte, wit func(map[string]interface{}) map[string]interface{}) {
	var (
		content, rest []byte
		err           error
		n             int
		cerr          error
	)
	p := guard(func() {
		_, content, rest, err = rlp.Split(in)
		rlp.SplitList(in)
		rlp.SplitString(in)
		n, cerr = rlp.CountValues(in)
	})
	c.Count("raw_calls", 1)
	if p != nil {
		c.Violation("raw-panic", fmt.Sprintf("rlp.Split/SplitList/SplitString/CountValues panics on hostile bytes: %v", p), wit(nil))
		return
	}
	if err == nil {
		c.Count("raw_split_accepted", 1)
		if len(content)+len(rest) > len(in) || !bytes.HasSuffix(in, rest) || !bytes.HasSuffix(in[:len(in)-len(rest)], content) {
			c.Violation("raw-split-inconsistent", "rlp.Split returns content/rest that are not the tail pieces of its input", wit(nil))
		}
	}
	if cerr == nil {
		// independent count
		m, b := 0, in
		for len(b) > 0 {
			_, used, perr := model.ParseLenient(b)
			if perr != nil {
				m = -1
				break
			}
			m++
			b = b[used:]
		}
		if m >= 0 && m != n {
			c.Violation("raw-countvalues-mismatch", fmt.Sprintf("rlp.CountValues=%d, independent model counts %d items", n, m), wit(nil))
		}
	}
}
