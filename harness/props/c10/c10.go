// Package c10: committed state is exactly recoverable; a copy is equal to and independent of
// the original; roots depend only on content.
package c10

import (
	"fmt"
	"math/big"
	"math/rand"
	"strings"

	"verif/kit"
	"verif/mon"
	"verif/stategen"

	"github.com/youchainhq/go-youchain/common"
	"github.com/youchainhq/go-youchain/core/state"
	"github.com/youchainhq/go-youchain/crypto"
	"github.com/youchainhq/go-youchain/params"
	"github.com/youchainhq/go-youchain/youdb"
)

func init() {
	kit.Register("C10.seq", runSeq)
	kit.Register("C10.order", runOrder)
}

// persistent drops the observables that are per-transaction by design (logs, refund, preimages,
// suicide marks, the committed-value view of storage).
func persistent(d mon.Digest) mon.Digest {
	o := mon.Digest{}
	for k, v := range d {
		if k == "logs" || k == "refund" || k == "preimages" || strings.HasSuffix(k, "/suicided") || strings.Contains(k, "/cslot/") {
			continue
		}
		o[k] = v
	}
	return o
}

func first(s []string, n int) []string {
	if len(s) > n {
		return s[:n]
	}
	return s
}

func guardClass(p interface{}, what string) string {
	msg := fmt.Sprint(p)
	if strings.Contains(msg, "load delegations error") {
		return what + "-panic-load-delegations"
	}
	return what + "-panic"
}

func runSeq(c *kit.Ctx) {
	n := c.N(3000, 150000)
	for i := 0; i < n; i++ {
		id := fmt.Sprintf("q%d", i)
		if !c.Mine(i, id) {
			continue
		}
		seq(c, id)
	}
}

func seq(c *kit.Ctx, id string) {
	r := c.Rand(id)
	fam := stategen.AllProduction()
	fam.StakingRec = true
	// one sequence in six concentrates on a few hot storage slots (write-back of committed values)
	fam.HotStorage = r.Intn(6) == 0
	c.Begin(id, nil)
	w := stategen.NewWorld(r, 4, 4, fam)
	w.NextTx()
	nops := 20 + r.Intn(80)
	ncommit, ncopy := 0, 0
	bad := false
	opts := mon.Opts{Staking: true}
	type committed struct {
		roots [3]common.Hash
		dig   mon.Digest
	}
	var inPlace []committed
	var inPlaceDB state.Database
	for s := 0; s < nops && !bad; s++ {
		x := r.Intn(100)
		switch {
		case x < 6:
			// ---- commit + reopen through a fresh database ----
			var before, after mon.Digest
			var tBefore mon.Digest
			p := kit.Guard(func() {
				w.St.IntermediateRoot(true)
				before = persistent(mon.Live(w.St, w.U, opts))
			})
			if p != nil {
				c.Violation(guardClass(p, "flush"), fmt.Sprint("panic while flushing/reading the live state: ", p), w.TailOps(40))
				bad = true
				break
			}
			oldDB := w.DB
			var err error
			p = kit.Guard(func() {
				err = w.Reopen()
				if err == nil {
					after = persistent(mon.Live(w.St, w.U, opts))
				}
			})
			c.Evals(1)
			ncommit++
			if p != nil {
				c.Violation(guardClass(p, "reopen"), fmt.Sprint("panic while committing/reopening/reading the reopened state: ", p), w.TailOps(40))
				bad = true
				break
			}
			if err != nil {
				c.Violation("reopen-error", "commit + state.New(roots) failed: "+err.Error(), w.TailOps(40))
				bad = true
				break
			}
			if diff := mon.Diff(before, after); len(diff) > 0 {
				c.Violation("reopen-mismatch", fmt.Sprintf("reopened state differs from the live object in %d observables: %s", len(diff), strings.Join(first(diff, 5), " || ")), map[string]interface{}{"ops": w.TailOps(60), "diff": first(diff, 20)})
				bad = true
				break
			}
			// the tries below the roots must enumerate identically through the old (warm) and the fresh database
			r1, r2, r3 := w.St.IntermediateRoot(true)
			tBefore = mon.Digest{}
			mon.TrieDumpInto(tBefore, oldDB, r1, r2, r3)
			tAfter := mon.Digest{}
			mon.TrieDumpInto(tAfter, w.DB, r1, r2, r3)
			if diff := mon.Diff(tBefore, tAfter); len(diff) > 0 {
				c.Violation("reopen-trie-mismatch", fmt.Sprintf("trie enumeration through a fresh database differs: %s", strings.Join(first(diff, 5), " || ")), w.TailOps(60))
				bad = true
				break
			}
			for k, v := range tAfter {
				if strings.Contains(v, "MISSING") || strings.Contains(k, "error") {
					c.Violation("commit-loses-data", fmt.Sprintf("after Commit, %s: %s", k, v), w.TailOps(60))
					bad = true
					break
				}
			}
			w.NextTx()
		case x >= 95:
			// ---- commit IN PLACE: the same StateDB goes on after Commit (chain makers, genesis
			// builders); every EARLIER committed root must stay reopenable, with its own content,
			// through the SAME state.Database (warm caches) ----
			var dNow mon.Digest
			var r1, r2, r3 common.Hash
			var cerr error
			p := kit.Guard(func() {
				w.St.IntermediateRoot(true)
				dNow = persistent(mon.Live(w.St, w.U, opts))
				r1, r2, r3, cerr = w.St.Commit(true)
			})
			if p != nil || cerr != nil {
				c.Violation(guardClass(p, "commit"), fmt.Sprint("Commit on the live object failed: ", p, cerr), w.TailOps(40))
				bad = true
				break
			}
			w.Ops = append(w.Ops, "commit in place")
			w.NextTx()
			if inPlaceDB != w.DB {
				inPlace, inPlaceDB = nil, w.DB // a fresh Database (Reopen) starts a new series
			}
			// the trie database is garbage collected the way a pruning node does it: each committed
			// root is referenced, the oldest of more than four is released again (it never reached
			// disk); the younger roots and, later, the flushed state must lose nothing
			tdb := w.DB.TrieDB()
			tdb.Reference(r1, common.Hash{})
			tdb.Reference(r2, common.Hash{})
			tdb.Reference(r3, common.Hash{})
			inPlace = append(inPlace, committed{[3]common.Hash{r1, r2, r3}, dNow})
			if len(inPlace) > 4 {
				old := inPlace[0]
				inPlace = inPlace[1:]
				gone := true
				for _, y := range inPlace {
					if y.roots == old.roots {
						gone = false // the same state committed again: still referenced by the younger entry... release one reference only
					}
				}
				tdb.Dereference(old.roots[0])
				tdb.Dereference(old.roots[1])
				tdb.Dereference(old.roots[2])
				_ = gone
				c.Count("in_place_roots_garbage_collected", 1)
				w.Ops = append(w.Ops, "gc oldest in-place root")
			}
			for k, old := range inPlace {
				var got mon.Digest
				var err error
				p := kit.Guard(func() {
					var st2 *state.StateDB
					st2, err = state.New(old.roots[0], old.roots[1], old.roots[2], w.DB)
					if err == nil {
						got = persistent(mon.Live(st2, w.U, opts))
					}
				})
				c.Evals(1)
				c.Count("earlier_roots_reopened_through_same_database", 1)
				if p != nil || err != nil {
					c.Violation(guardClass(p, "reopen-earlier"), fmt.Sprint("reopening an earlier committed root through the same Database failed: ", p, err), w.TailOps(40))
					bad = true
					break
				}
				if diff := mon.Diff(old.dig, got); len(diff) > 0 {
					c.Violation("earlier-root-reopens-with-other-content", fmt.Sprintf("the root committed %d in-place commits ago, reopened through the same state.Database, differs from what was committed in %d observables: %s", len(inPlace)-1-k, len(diff), strings.Join(first(diff, 5), " || ")), map[string]interface{}{"ops": w.TailOps(60), "diff": first(diff, 20)})
					bad = true
					break
				}
			}
		case x < 14:
			// ---- copy: equal, independent (both directions), committable ----
			ncopy++
			var d0, dc mon.Digest
			var cp *state.StateDB
			// half of the copies are not looked at before the original moves on (a pending-state copy or
			// a look-back copy is typically read later): the copy must then still show the content of
			// the original at copy time
			unread := r.Intn(2) == 0
			p := kit.Guard(func() {
				d0 = mon.Live(w.St, w.U, opts)
				cp = w.St.Copy()
				if unread {
					dc = d0
					c.Count("copies_first_read_after_the_original_moved", 1)
				} else {
					dc = mon.Live(cp, w.U, opts)
				}
			})
			c.Evals(1)
			if p != nil {
				c.Violation(guardClass(p, "copy"), fmt.Sprint("panic while copying / reading the copy: ", p), w.TailOps(40))
				bad = true
				break
			}
			if diff := mon.Diff(d0, dc); len(diff) == 1 && strings.HasPrefix(diff[0], "stakingrecords-iter:") && strings.Count(dc["stakingrecords-iter"], ";") < strings.Count(d0["stakingrecords-iter"]+";", ";") {
				// ForEachStakingRecord on the copy skips records (keyed getters agree): specific class, and the case goes on
				c.Violation("copy-foreach-staking-record-skips", "ForEachStakingRecord on a Copy enumerates fewer records than on the original although GetStakingRecord finds them all: "+diff[0], w.TailOps(30))
				dc = mon.Live(cp, w.U, opts)
			} else if len(diff) > 0 {
				c.Violation("copy-mismatch", fmt.Sprintf("copy differs from the original at copy time in %d observables: %s", len(diff), strings.Join(first(diff, 5), " || ")), map[string]interface{}{"ops": w.TailOps(60), "diff": first(diff, 20)})
				bad = true
				break
			}
			// mutate the original; the copy must not move
			mark := len(w.Ops)
			p = kit.Guard(func() {
				for k := 1 + r.Intn(8); k > 0; k-- {
					w.Op()
				}
				if r.Intn(3) == 0 {
					w.St.IntermediateRoot(true)
				}
			})
			if p != nil {
				c.Violation(guardClass(p, "ops"), fmt.Sprint("panic: ", p), w.TailOps(40))
				bad = true
				break
			}
			var dc2 mon.Digest
			p = kit.Guard(func() { dc2 = mon.Live(cp, w.U, opts) })
			if p != nil {
				c.Violation(guardClass(p, "copy"), fmt.Sprint("panic reading the copy after the original moved: ", p), w.TailOps(40))
				bad = true
				break
			}
			if diff := mon.Diff(dc, dc2); unread && len(diff) == 1 && strings.HasPrefix(diff[0], "stakingrecords-iter:") && strings.Count(dc2["stakingrecords-iter"], ";") < strings.Count(dc["stakingrecords-iter"]+";", ";") {
				c.Violation("copy-foreach-staking-record-skips", "ForEachStakingRecord on a Copy enumerates fewer records than on the original although GetStakingRecord finds them all: "+diff[0], w.TailOps(30))
			} else if len(diff) > 0 {
				c.Violation("copy-not-independent", fmt.Sprintf("mutating the original changed the copy: %s", strings.Join(first(diff, 5), " || ")), map[string]interface{}{"ops_on_original": w.Ops[mark:], "diff": first(diff, 20)})
				bad = true
				break
			}
			// mutate the copy; the original must not move
			dOrig := mon.Live(w.St, w.U, opts)
			w2 := *w
			w2.St = cp
			w2.Ops = nil
			p = kit.Guard(func() {
				for k := 1 + r.Intn(8); k > 0; k-- {
					w2.Op()
				}
			})
			if p != nil {
				c.Violation(guardClass(p, "copy"), fmt.Sprint("panic while operating on the copy: ", p), map[string]interface{}{"ops": w.TailOps(40), "ops_on_copy": w2.Ops})
				bad = true
				break
			}
			if diff := mon.Diff(dOrig, mon.Live(w.St, w.U, opts)); len(diff) > 0 {
				c.Violation("copy-not-independent", fmt.Sprintf("mutating the copy changed the original: %s", strings.Join(first(diff, 5), " || ")), map[string]interface{}{"ops_on_copy": w2.Ops, "diff": first(diff, 20)})
				bad = true
				break
			}
			// the copy can itself be committed and re-read completely
			if r.Intn(2) == 0 {
				var live, td mon.Digest
				p = kit.Guard(func() {
					cp.IntermediateRoot(true)
					live = persistent(mon.Live(cp, w.U, opts))
					td = mon.FlushedInPlace(cp)
				})
				if p != nil {
					c.Violation(guardClass(p, "copy"), fmt.Sprint("panic while committing the copy: ", p), map[string]interface{}{"ops": w.TailOps(40), "ops_on_copy": w2.Ops})
					bad = true
					break
				}
				for k, v := range td {
					if strings.Contains(v, "MISSING") || strings.Contains(k, "error") {
						c.Violation("copy-commit-loses-data", fmt.Sprintf("after Commit on a copy, %s: %s", k, v), map[string]interface{}{"ops": w.TailOps(60), "ops_on_copy": w2.Ops})
						bad = true
						break
					}
				}
				if !bad {
					st2, err := state.New(common.HexToHash(td["root"]), common.HexToHash(td["valroot"]), common.HexToHash(td["stakingroot"]), w.DB)
					if err != nil {
						c.Violation("copy-reopen-error", err.Error(), w.TailOps(40))
						bad = true
					} else {
						var re mon.Digest
						if p := kit.Guard(func() { re = persistent(mon.Live(st2, w.U, opts)) }); p != nil {
							c.Violation(guardClass(p, "copy-reopen"), fmt.Sprint("panic reading the reopened committed copy: ", p), map[string]interface{}{"ops": w.TailOps(40), "ops_on_copy": w2.Ops})
							bad = true
						} else if diff := mon.Diff(live, re); len(diff) > 0 {
							c.Violation("copy-reopen-mismatch", fmt.Sprintf("committed copy reopens differently: %s", strings.Join(first(diff, 5), " || ")), map[string]interface{}{"ops": w.TailOps(60), "ops_on_copy": w2.Ops, "diff": first(diff, 20)})
							bad = true
						}
					}
				}
				c.Count("copies_committed", 1)
			}
		case x < 20:
			if p := kit.Guard(func() {
				if r.Intn(2) == 0 {
					w.St.Finalise(true)
					w.Ops = append(w.Ops, "finalise")
				} else {
					w.St.IntermediateRoot(true)
					w.Ops = append(w.Ops, "intermediateroot")
				}
			}); p != nil {
				c.Violation(guardClass(p, "flush"), fmt.Sprint("panic: ", p), w.TailOps(40))
				bad = true
				break
			}
			w.NextTx()
		default:
			if p := kit.Guard(func() { w.Op() }); p != nil {
				c.Violation(guardClass(p, "ops"), fmt.Sprint("panic: ", p), w.TailOps(40))
				bad = true
			}
		}
	}
	c.Count("commits_reopened", ncommit)
	c.Count("copies", ncopy)
	c.Count("ops", len(w.Ops))
	c.Sample(map[string]interface{}{"ops": w.TailOps(20)})
	sig := ""
	if ncommit+ncopy > 0 {
		sig = fmt.Sprintf("commits%d copies%d vals%d wq%d", min(ncommit, 4), min(ncopy, 4), len(w.St.GetValidatorsForUpdate()), min(w.St.GetWithdrawQueue().Len(), 4))
	}
	c.End(sig)
}

func min(a, b int) int {
	if a < b {
		return a
	}
	return b
}

// ---------------- order independence ----------------

type write struct {
	phase int    // phase -1: account nonces (an account with storage but nonce 0 / balance 0 is "empty" and legitimately deleted at a flush point); phase 0: other account writes; phase 1: staking side (a delegator account must exist before it delegates)
	group string // writes of one group keep their relative order
	desc  string
	do    func(st *state.StateDB)
}

func runOrder(c *kit.Ctx) {
	n := c.N(1500, 50000)
	for i := 0; i < n; i++ {
		id := fmt.Sprintf("o%d", i)
		if !c.Mine(i, id) {
			continue
		}
		order(c, id)
	}
}

func order(c *kit.Ctx, id string) {
	r := c.Rand(id)
	c.Begin(id, nil)
	// the target content, as a list of writes; writes of different groups commute
	ws := genContent(r)
	nsched := 3
	if !c.Quick() {
		nsched = 6
	}
	var roots []string
	var descs [][]string
	for s := 0; s < nsched; s++ {
		sr := rand.New(rand.NewSource(r.Int63()))
		disk := youdb.NewMemDatabase()
		db := state.NewDatabase(disk)
		st, _ := state.New(common.Hash{}, common.Hash{}, common.Hash{}, db)
		sched := schedule(sr, ws, s == 0)
		var log []string
		var rootStr string
		p := kit.Guard(func() {
			for _, wr := range sched {
				wr.do(st)
				log = append(log, wr.desc)
				// regrouping points
				switch x := sr.Intn(40); {
				case s == 0:
				case x == 0:
					st.Finalise(true)
					log = append(log, "finalise")
				case x == 1:
					st.IntermediateRoot(true)
					log = append(log, "intermediateroot")
				case x == 2:
					a, b, cc, err := st.Commit(true)
					if err != nil {
						panic(err)
					}
					db.TrieDB().Commit(a, false)
					db.TrieDB().Commit(b, false)
					db.TrieDB().Commit(cc, false)
					db = state.NewDatabase(disk)
					st, err = state.New(a, b, cc, db)
					if err != nil {
						panic(err)
					}
					log = append(log, "commit+reopen")
				}
			}
			a, b, cc := st.IntermediateRoot(true)
			rootStr = a.Hex() + "/" + b.Hex() + "/" + cc.Hex()
		})
		if p != nil {
			c.Violation(guardClass(p, "order"), fmt.Sprint("panic while building the content: ", p), log)
			c.End("")
			return
		}
		roots = append(roots, rootStr)
		descs = append(descs, log)
		c.Evals(1)
	}
	for s := 1; s < len(roots); s++ {
		if roots[s] != roots[0] {
			ra, rb := strings.Split(roots[0], "/"), strings.Split(roots[s], "/")
			which := []string{}
			for i, nme := range []string{"root", "valroot", "stakingroot"} {
				if ra[i] != rb[i] {
					which = append(which, nme)
				}
			}
			c.Violation("roots-depend-on-order:"+strings.Join(which, "+"), fmt.Sprintf("two write schedules of the same content give different roots (%v differ)", which), map[string]interface{}{"schedule_a": descs[0], "schedule_b": descs[s]})
			break
		}
	}
	c.Count("schedules", len(roots))
	c.Count("writes", len(ws))
	c.Sample(map[string]interface{}{"writes": len(ws), "schedule": first(descs[len(descs)-1], 15)})
	c.End(fmt.Sprintf("writes%d", len(ws)/8))
}

func keyOf(seed int64, i int) []byte {
	k, _ := crypto.ToECDSA(crypto.Keccak256([]byte(fmt.Sprintf("c10-%d-%d", seed, i))))
	return crypto.CompressPubkey(&k.PublicKey)
}

func genContent(r *rand.Rand) (ws []write) {
	seed := r.Int63()
	nacc := 2 + r.Intn(6)
	var accts []common.Address
	for i := 0; i < nacc; i++ {
		a := common.BigToAddress(big.NewInt(int64(0x1000 + r.Intn(1<<20))))
		accts = append(accts, a)
		g := fmt.Sprintf("acct%x", a[16:])
		bal := new(big.Int).Mul(big.NewInt(int64(1+r.Intn(100))), params.StakeUint)
		nonce := uint64(1 + r.Intn(5))
		ws = append(ws, write{0, g + "b", fmt.Sprintf("%s balance=%v", g, bal), func(st *state.StateDB) { st.SetBalance(a, bal) }})
		ws = append(ws, write{-1, g + "n", fmt.Sprintf("%s nonce=%d", g, nonce), func(st *state.StateDB) { st.SetNonce(a, nonce) }})
		if r.Intn(3) == 0 {
			code := make([]byte, 1+r.Intn(30))
			r.Read(code)
			ws = append(ws, write{0, g + "c", fmt.Sprintf("%s code len %d", g, len(code)), func(st *state.StateDB) { st.SetCode(a, code) }})
		}
		for s := r.Intn(5); s > 0; s-- {
			k := common.BigToHash(big.NewInt(int64(r.Intn(6))))
			v := common.BigToHash(big.NewInt(int64(1 + r.Intn(9))))
			gs := fmt.Sprintf("%ss%x", g, k[31:])
			switch r.Intn(3) {
			case 0: // overwrite ending on the same value
				junk := common.BigToHash(big.NewInt(int64(100 + r.Intn(9))))
				ws = append(ws, write{0, gs, fmt.Sprintf("%s slot %x=junk", g, k[31:]), func(st *state.StateDB) { st.SetState(a, k, junk) }})
			case 1: // create-delete-recreate
				ws = append(ws, write{0, gs, fmt.Sprintf("%s slot %x=v", g, k[31:]), func(st *state.StateDB) { st.SetState(a, k, v) }})
				ws = append(ws, write{0, gs, fmt.Sprintf("%s slot %x=0", g, k[31:]), func(st *state.StateDB) { st.SetState(a, k, common.Hash{}) }})
			}
			ws = append(ws, write{0, gs, fmt.Sprintf("%s slot %x=%x", g, k[31:], v[31:]), func(st *state.StateDB) { st.SetState(a, k, v) }})
		}
	}
	nAcctWrites := len(ws)
	defer func() {
		for i := nAcctWrites; i < len(ws); i++ {
			ws[i].phase = 1
		}
	}()
	nval := r.Intn(5)
	var vaddrs []common.Address
	roles := []params.ValidatorRole{params.RoleChancellor, params.RoleSenator, params.RoleHouse}
	for i := 0; i < nval; i++ {
		pub := keyOf(seed, i)
		m := state.PubToAddress(pub)
		vaddrs = append(vaddrs, m)
		token := new(big.Int).Mul(big.NewInt(int64(1+r.Intn(500))), params.StakeUint)
		role := roles[r.Intn(3)]
		status := uint8(r.Intn(2))
		op := accts[r.Intn(len(accts))]
		g := fmt.Sprintf("val%x", m[:3])
		name := fmt.Sprintf("v%d", i)
		ws = append(ws, write{1, g, "create " + g, func(st *state.StateDB) {
			st.CreateValidator(name, op, op, role, pub, []byte{9, byte(i)}, token, params.YOUToStake(token), 1, 100, 200, status)
		}})
		for d := r.Intn(4); d > 0; d-- {
			dl := accts[r.Intn(len(accts))]
			amt := new(big.Int).Mul(big.NewInt(int64(1+r.Intn(20))), params.StakeUint)
			// all writes that touch validator m or delegator dl's delegation list stay ordered
			// relative to each other only where they do not commute: delegation amounts add up, so
			// only the creation of the validator must come first (same group => order kept)
			ws = append(ws, write{1, g, fmt.Sprintf("delegate %x -> %s %v", dl[16:], g, amt), func(st *state.StateDB) {
				st.UpdateDelegation(dl, st.GetValidatorByMainAddr(m), amt)
			}})
		}
	}
	// withdraw queue: order is content, one group
	for i := r.Intn(4); i > 0 && len(vaddrs) > 0; i-- {
		v := vaddrs[r.Intn(len(vaddrs))]
		op := accts[r.Intn(len(accts))]
		rec := state.WithdrawRecord{Operator: op, Validator: v, Recipient: op, Nonce: uint64(i), CreationHeight: 10, CompletionHeight: 74,
			InitialBalance: big.NewInt(int64(1000 + i)), FinalBalance: big.NewInt(int64(1000 + i))}
		ws = append(ws, write{1, "withdrawq", fmt.Sprintf("withdraw record %d", i), func(st *state.StateDB) { cp := rec; st.AddWithdrawRecord(cp.DeepCopy()) }})
	}
	// staking records: tx-hash lists are ordered per (d,v)
	for i := r.Intn(5); i > 0 && len(vaddrs) > 0; i-- {
		d := accts[r.Intn(len(accts))]
		v := vaddrs[r.Intn(len(vaddrs))]
		h := common.BigToHash(big.NewInt(int64(0x9000 + i)))
		fv := big.NewInt(int64(5000 + i))
		ws = append(ws, write{1, fmt.Sprintf("rec%x%x", d[16:], v[:3]), fmt.Sprintf("staking record %x>%x", d[16:], v[:3]), func(st *state.StateDB) {
			st.AddStakingRecord(d, v, h, fv)
			st.AddPendingRelationship(d, v)
		}})
	}
	return ws
}

// schedule returns a permutation of ws that keeps the relative order inside every group.
func schedule(r *rand.Rand, ws []write, identity bool) []write {
	if identity {
		return ws
	}
	var out []write
	for phase := -1; phase < 2; phase++ {
		groups := map[string][]write{}
		var names []string
		for _, w := range ws {
			if w.phase != phase {
				continue
			}
			if _, ok := groups[w.group]; !ok {
				names = append(names, w.group)
			}
			groups[w.group] = append(groups[w.group], w)
		}
		for len(names) > 0 {
			i := r.Intn(len(names))
			g := names[i]
			out = append(out, groups[g][0])
			groups[g] = groups[g][1:]
			if len(groups[g]) == 0 {
				names = append(names[:i], names[i+1:]...)
			}
		}
	}
	return out
}
