package c10

// C10.race: "a copy of a state is … independent of the original" under the production
// concurrency: the miner hands a Copy of its working state to RPC readers (worker.pending) and
// insertChain keeps Copies of intermediate states, while the original keeps being modified. One
// goroutine goes on with the original (ops, Finalise, IntermediateRoot, Commit), another one reads
// the copy through every getter, modifies it and commits it. The Go race detector is the oracle:
// any memory the two objects still share and one of them writes is reported.

import (
	"fmt"
	"math/rand"
	"sync"

	"verif/kit"
	"verif/mon"
	"verif/stategen"
)

func init() { kit.Register("C10.race", runRace) }

func runRace(c *kit.Ctx) {
	n := c.N(160, 4000)
	for i := 0; i < n; i++ {
		id := fmt.Sprintf("cr%d", i)
		if !c.Mine(i, id) {
			continue
		}
		r := c.Rand(id)
		fam := stategen.AllProduction()
		fam.StakingRec = true
		fam.HotStorage = i%5 == 0
		c.Begin(id, nil)
		w := stategen.NewWorld(r, 4, 4, fam)
		w.NextTx()
		for k := 10 + r.Intn(50); k > 0; k-- {
			w.Op()
		}
		// the copy point: mid-transaction (dirty journal), after Finalise, after IntermediateRoot or
		// right after commit+reopen (everything clean, loaded lazily from the shared database)
		point := r.Intn(4)
		switch point {
		case 1:
			w.St.Finalise(true)
		case 2:
			w.St.IntermediateRoot(true)
		case 3:
			if err := w.Reopen(); err != nil {
				c.EndInconclusive("reopen: " + err.Error())
				continue
			}
			// touch a few objects so that some are cached clean, others not loaded at all
			for k := r.Intn(6); k > 0; k-- {
				w.Op()
			}
		}
		cp := w.St.Copy()
		w2 := w.CloneFor(cp, rand.New(rand.NewSource(r.Int63())))
		var wg sync.WaitGroup
		wg.Add(2)
		nA, nB := 10+r.Intn(40), 10+r.Intn(40)
		fin := r.Intn(3)
		go func() {
			defer wg.Done()
			for k := 0; k < nA; k++ {
				w.Op()
				if k%16 == 15 {
					w.St.IntermediateRoot(true)
					w.NextTx()
				}
			}
			switch fin {
			case 0:
				w.St.Finalise(true)
			case 1:
				w.St.IntermediateRoot(true)
			default:
				w.St.Commit(true)
			}
		}()
		go func() {
			defer wg.Done()
			mon.Live(cp, w2.U, mon.Opts{Staking: true}) // the RPC reader
			for k := 0; k < nB; k++ {
				w2.Op()
				if k%16 == 7 {
					mon.Live(cp, w2.U, mon.Opts{})
				}
			}
			cp.Commit(true)
		}()
		wg.Wait()
		c.Evals(nA + nB)
		c.Count("concurrent_copy_runs", 1)
		c.Count(fmt.Sprintf("copy_point_%d", point), 1)
		c.End(fmt.Sprintf("point%d fin%d", point, fin))
	}
}
