// Package c10 holds the workloads and monitors of property C10.
package c10
