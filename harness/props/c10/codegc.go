package c10

// C10.codegc: a tiny alphabet around contract code and garbage collection of the trie database.
// Three contract accounts, two byte codes (the same code is deployed again and again), and the ops
// deploy / self-destruct / commit in place (+reference the roots, as a pruning node does) / release
// the oldest referenced root (it never reached disk) / read code and code size of an older root
// through the shared Database / flush the newest root to disk and reopen it through a FRESH
// Database. Oracle: every referenced root, and the flushed one, yields exactly the code the live
// object had when it was committed.

import (
	"bytes"
	"fmt"

	"verif/kit"
	"verif/stategen"

	"github.com/youchainhq/go-youchain/common"
	"github.com/youchainhq/go-youchain/core/state"
)

func init() { kit.Register("C10.codegc", runCodeGC) }

func runCodeGC(c *kit.Ctx) {
	n := c.N(1200, 60000)
	codes := [][]byte{{0x60, 0x00, 0x60, 0x00, 0xf3}, {0x60, 0x01, 0x60, 0x00, 0x55, 0x00, 0xfe, 0x5b, 0x33, 0xff}}
	for i := 0; i < n; i++ {
		id := fmt.Sprintf("cg%d", i)
		if !c.Mine(i, id) {
			continue
		}
		r := c.Rand(id)
		c.Begin(id, nil)
		w := stategen.NewWorld(r, 1, 2, stategen.Families{Account: true})
		w.NextTx()
		type snap struct {
			roots [3]common.Hash
			code  map[common.Address][]byte
		}
		var refd []snap
		live := map[common.Address][]byte{}
		var ops []string
		bad := false
		check := func(st *state.StateDB, want map[common.Address][]byte, what string) {
			for _, a := range w.Extras {
				got := st.GetCode(a)
				sz := st.GetCodeSize(a)
				c.Evals(1)
				if !bytes.Equal(got, want[a]) || sz != len(want[a]) {
					c.Violation("committed-code-lost", fmt.Sprintf("%s: account %x has code %x (size %d), committed was %x", what, a[:4], got, sz, want[a]), ops)
					bad = true
					return
				}
			}
		}
		for s := 0; s < 14+r.Intn(20) && !bad; s++ {
			a := w.Extras[r.Intn(len(w.Extras))]
			switch x := r.Intn(100); {
			case x < 30:
				if !w.St.Exist(a) {
					w.St.CreateAccount(a)
					w.St.SetNonce(a, 1)
				}
				code := codes[r.Intn(len(codes))]
				w.St.SetCode(a, code)
				live[a] = code
				ops = append(ops, fmt.Sprintf("deploy %x code#%d", a[:4], len(code)))
			case x < 45:
				if w.St.Exist(a) {
					w.St.Suicide(a)
					// the transaction ends here: a self-destructed account is removed at the end of its
					// transaction whatever is done to it afterwards
					w.St.Finalise(true)
					w.NextTx()
					delete(live, a)
					ops = append(ops, fmt.Sprintf("selfdestruct %x", a[:4]))
				}
			case x < 75:
				var r1, r2, r3 common.Hash
				var err error
				if p := kit.Guard(func() { r1, r2, r3, err = w.St.Commit(true) }); p != nil || err != nil {
					c.Violation("commit-panic", fmt.Sprint(p, err), ops)
					bad = true
					break
				}
				w.NextTx()
				tdb := w.DB.TrieDB()
				tdb.Reference(r1, common.Hash{})
				tdb.Reference(r2, common.Hash{})
				tdb.Reference(r3, common.Hash{})
				cp := map[common.Address][]byte{}
				for k, v := range live {
					cp[k] = v
				}
				refd = append(refd, snap{[3]common.Hash{r1, r2, r3}, cp})
				ops = append(ops, fmt.Sprintf("commit in place -> %x", r1[:4]))
				if len(refd) > 2 {
					old := refd[0]
					refd = refd[1:]
					tdb.Dereference(old.roots[0])
					tdb.Dereference(old.roots[1])
					tdb.Dereference(old.roots[2])
					ops = append(ops, fmt.Sprintf("release %x", old.roots[0][:4]))
					c.Count("codegc_roots_released", 1)
				}
			case x < 90:
				// somebody reads an older, still referenced root through the shared Database
				if len(refd) > 0 {
					sn := refd[r.Intn(len(refd))]
					st2, err := state.New(sn.roots[0], sn.roots[1], sn.roots[2], w.DB)
					if err != nil {
						c.Violation("referenced-root-not-reopenable", err.Error(), ops)
						bad = true
						break
					}
					ops = append(ops, fmt.Sprintf("read %x through the shared database", sn.roots[0][:4]))
					check(st2, sn.code, "referenced root read through the shared Database")
				}
			default:
				// flush the newest state to disk and reopen it through a fresh Database
				want := map[common.Address][]byte{}
				for k, v := range live {
					want[k] = v
				}
				var err error
				if p := kit.Guard(func() { err = w.Reopen() }); p != nil || err != nil {
					c.Violation("reopen-panic", fmt.Sprint(p, err), ops)
					bad = true
					break
				}
				refd = nil // (a fresh Database: the old references are gone with the old trie database)
				ops = append(ops, "flush + reopen through a fresh database")
				c.Count("codegc_flushes", 1)
				check(w.St, want, "after flushing to disk and reopening through a fresh Database")
			}
		}
		c.End("")
	}
}
