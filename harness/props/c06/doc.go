// Package c06 holds the workloads and monitors of property C06.
package c06
