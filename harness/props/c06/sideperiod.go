package c06

// C06.sideperiod: scripted mini-chains for the side-chain import path across staking-period ends.
// The same (sender, validator) pair sends a staking transaction shortly before a period end, again
// right after it, and again in the following period (settle / deposit / delegate / withdraw /
// status change, one kind per case); after two more period ends a node sitting on its own branch
// is offered the whole chain in one call: verifyAllSideChainBlocks executes every block on ONE
// StateDB carried across the period ends (ResetStakingTrieOnNewPeriod), the block-by-block importer
// used a fresh StateDB per block. Both must accept the builder's blocks unchanged.

import (
	"fmt"
	"math/big"

	"verif/chaingen"
	"verif/env"
	"verif/kit"

	"github.com/youchainhq/go-youchain/core/state"
	"github.com/youchainhq/go-youchain/params"
	"github.com/youchainhq/go-youchain/staking"
)

func init() { kit.Register("C06.sideperiod", runSidePeriod) }

func runSidePeriod(c *kit.Ctx) {
	kinds := []string{"settle", "deposit", "delegate", "withdraw", "status", "mixed"}
	n := c.N(6, 60)
	for i := 0; i < n; i++ {
		kind := kinds[i%len(kinds)]
		id := fmt.Sprintf("sp-%s%d", kind, i/len(kinds))
		if !c.Mine(i, id) {
			continue
		}
		r := c.Rand(id)
		sc := chaingen.PickScenario(r, 56)
		sc.Evidence, sc.NegRecord, sc.RecklessEvidence = false, false, false
		sc.Pool = env.YOU(1000000)
		c.Begin(id, map[string]interface{}{"scenario": sc.Name, "script": kind})
		run, err := chaingen.NewRun(c, id, r, sc)
		if err != nil {
			c.EndInconclusive("setup: " + err.Error())
			continue
		}
		w := run.W
		freq := run.Freq
		// an online validator operated by a user (the genesis validators are operated by users 0..)
		vi := r.Intn(len(sc.Vals))
		for k := 0; k < len(sc.Vals) && sc.Vals[vi].Status != params.ValidatorOnline; k++ {
			vi = (vi + 1) % len(sc.Vals)
		}
		va := w.VA(vi)
		dlg := len(sc.Vals) + r.Intn(3) // a user that operates nothing
		// the scripted rounds: two before the first period end, right after it, in the middle of the
		// second period, right after the second end
		at := map[uint64]bool{freq - 3: true, freq - 2: true, freq: true, freq + 1: true, freq + 6: true, 2 * freq: true, 2*freq + 1: true}
		run.SideImportAt = map[uint64]bool{3*freq + 2: true}
		run.Script = func(run *chaingen.Run, st *state.StateDB, n uint64) ([]chaingen.TxInfo, bool) {
			w.BeginScript(st)
			if !at[n] {
				return nil, true
			}
			k := kind
			if k == "mixed" {
				k = kinds[int(n)%5]
			}
			var txs []chaingen.TxInfo
			switch k {
			case "settle":
				txs = append(txs, w.StakingTx(vi, staking.ValidatorSettle, &staking.TxValidatorSettle{MainAddress: va}, "stk.settle", nil))
			case "deposit":
				v := env.YOU(int64(1 + r.Intn(5)))
				txs = append(txs, w.StakingTx(vi, staking.ValidatorDeposit, &staking.TxValidatorDeposit{MainAddress: va, Value: v}, "stk.deposit", v))
			case "delegate":
				v := env.YOU(int64(10 + r.Intn(5)))
				txs = append(txs, w.StakingTx(dlg, staking.DelegationAdd, &staking.TxDelegation{Validator: va, Value: v}, "stk.dlgadd", v))
			case "withdraw":
				v := env.YOU(1)
				txs = append(txs, w.StakingTx(vi, staking.ValidatorWithDraw, &staking.TxValidatorWithdraw{MainAddress: va, Recipient: w.UA(vi), Value: v}, "stk.withdraw", nil))
			case "status":
				cur := st.GetValidatorByMainAddr(va)
				ns := uint8(params.ValidatorOffline)
				if cur != nil && !cur.IsOnline() {
					ns = params.ValidatorOnline
				}
				txs = append(txs, w.StakingTx(vi, staking.ValidatorChangeStatus, &staking.TxValidatorChangeStatus{MainAddress: va, Status: ns}, "stk.status", nil))
			}
			c.Count("sideperiod_scripted_txs", len(txs))
			return txs, true
		}
		sig := run.Execute(&Monitor{Reps: 2}, chaingen.InvMonitor{})
		run.Close()
		c.End("sideperiod " + kind + " " + sig)
		_ = big.NewInt
	}
}
