package c06

// C06.sideucon: the side-chain import path under the REAL consensus engine. BlockChain only runs
// verifyAllSideChainBlocks (all side blocks executed on ONE StateDB carried from block to block,
// across staking-period ends) when the engine is ucon; the generated chains of C06.chains run a
// neutral engine and never get there. Here the blocks carry consensus-valid ucon headers forged
// with the genesis validators' keys and verified by the real ucon.Server: a main chain of three
// staking periods in which one (sender, validator) pair sends staking transactions before a period
// end, right after it and in the following period, is built and imported block by block; then a
// node sitting on its own (one block shorter) branch is offered the whole chain in one call.

import (
	"fmt"
	"strings"
	"math/rand"

	"verif/build"
	"verif/chaingen"
	"verif/env"
	"verif/forge"
	"verif/kit"

	"github.com/youchainhq/go-youchain/core"
	"github.com/youchainhq/go-youchain/core/types"
	"github.com/youchainhq/go-youchain/core/vm"
	"github.com/youchainhq/go-youchain/local"
	"github.com/youchainhq/go-youchain/params"
	"github.com/youchainhq/go-youchain/staking"
	"github.com/youchainhq/go-youchain/youdb"
)

func init() { kit.Register("C06.sideucon", runSideUcon) }

type unode struct {
	*env.Node
	eng *forge.Engine
	b   *build.Builder
	// outcome of the transactions of the last block built
	lastOK, lastFailed, lastSkipped int
}

func newUNode(keys env.Keyring, nvals int, g interface{}, r *rand.Rand, mk func(eng *forge.Engine) (*env.Node, error)) (*unode, error) {
	eng, err := forge.NewEngine(keys, nvals, rand.New(rand.NewSource(r.Int63())))
	if err != nil {
		return nil, err
	}
	n, err := mk(eng)
	if err != nil {
		return nil, err
	}
	return &unode{Node: n, eng: eng, b: build.New(n.Chain, eng)}, nil
}

func (n *unode) extend(signer types.Signer, txs []*types.Transaction, extra string) (*types.Block, error) {
	p := n.Chain.CurrentBlock()
	n.b.Extra = []byte(extra)
	res, err := n.b.Build(p.Time()+1, build.NewOrderedTxs(signer, txs))
	if err != nil {
		return nil, err
	}
	sealed, err := n.eng.Finish(res.Block)
	if err != nil {
		return nil, err
	}
	n.lastOK, n.lastFailed, n.lastSkipped = 0, 0, len(res.Skipped)
	for _, rc := range res.TxReceipts {
		if rc.Status == types.ReceiptStatusSuccessful {
			n.lastOK++
		} else {
			n.lastFailed++
		}
	}
	res.Block = sealed
	if err := n.b.Commit(res); err != nil {
		return nil, err
	}
	return sealed, nil
}

func runSideUcon(c *kit.Ctx) {
	kinds := []string{"settle", "deposit", "delegate", "withdraw", "mixed"}
	n := c.N(10, 80)
	for i := 0; i < n; i++ {
		kind := kinds[i%len(kinds)]
		id := fmt.Sprintf("su-%s%d", kind, i/len(kinds))
		if !c.Mine(i, id) {
			continue
		}
		r := c.Rand(id)
		c.Begin(id, map[string]interface{}{"script": kind})
		keys := env.Keyring{Seed: r.Int63()}
		sc := chaingen.PickScenario(r, 56)
		sc.Pool = env.YOU(1000000)
		w := chaingen.NewWorld(r, keys, sc)
		gen := env.MakeGenesis(sc.Config(keys))
		mk := func(eng *forge.Engine) (*env.Node, error) { return env.NewNodeOn(youdb.NewMemDatabase(), gen, eng) }
		M, err := newUNode(keys, len(sc.Vals), gen, r, mk)
		if err != nil {
			c.EndInconclusive("setup: " + err.Error())
			continue
		}
		B, err2 := newUNode(keys, len(sc.Vals), gen, r, mk)
		T, err3 := newUNode(keys, len(sc.Vals), gen, r, mk)
		if err2 != nil || err3 != nil {
			M.Stop()
			c.EndInconclusive("setup")
			continue
		}
		stop := func() { M.Stop(); B.Stop(); T.Stop() }
		freq := w.YP.StakingTrieFrequency
		// an online chamber validator with an operator, and a user that operates nothing
		vi := -1
		for k, v := range sc.Vals {
			if v.Status == params.ValidatorOnline && v.Role != params.RoleHouse {
				vi = k
			}
		}
		if vi < 0 {
			stop()
			c.EndInconclusive("no online chamber validator in the scenario")
			continue
		}
		va := w.VA(vi)
		dlg := len(sc.Vals) + r.Intn(3)
		at := map[uint64]bool{freq - 3: true, freq - 2: true, freq: true, freq + 1: true, freq + 6: true, 2 * freq: true, 2*freq + 1: true}
		L := 3*freq + 2
		var main types.Blocks
		okStakingTx := map[uint64]bool{}
		bad := false
		for num := uint64(1); num <= L && !bad; num++ {
			st, err := M.Chain.State()
			if err != nil {
				c.EndInconclusive("state: " + err.Error())
				bad = true
				break
			}
			w.BeginScript(st)
			var txs []*types.Transaction
			if at[num] {
				k := kind
				if k == "mixed" {
					k = kinds[int(num)%4]
				}
				var ti chaingen.TxInfo
				switch k {
				case "settle":
					ti = w.StakingTx(vi, staking.ValidatorSettle, &staking.TxValidatorSettle{MainAddress: va}, "stk.settle", nil)
				case "deposit":
					v := env.YOU(int64(1 + r.Intn(5)))
					ti = w.StakingTx(vi, staking.ValidatorDeposit, &staking.TxValidatorDeposit{MainAddress: va, Value: v}, "stk.deposit", v)
				case "delegate":
					v := env.YOU(int64(10 + r.Intn(5)))
					ti = w.StakingTx(dlg, staking.DelegationAdd, &staking.TxDelegation{Validator: va, Value: v}, "stk.dlgadd", v)
				default:
					ti = w.StakingTx(vi, staking.ValidatorWithDraw, &staking.TxValidatorWithdraw{MainAddress: va, Recipient: w.UA(vi), Value: env.YOU(1)}, "stk.withdraw", nil)
				}
				txs = append(txs, ti.Tx)
				c.Count("sideucon_scripted_txs", 1)
			}
			blk, err := M.extend(w.Signer, txs, "main")
			if err != nil {
				if strings.Contains(err.Error(), "forge:") {
					c.Count("sideucon_forge_found_no_round", 1) // the scenario's chamber cannot reach the committee quorum: harness limit
					bad = true
					break
				}
				c.Violation("sideucon-builder-failed:"+chaingen.Normalise(err.Error()), fmt.Sprintf("block %d: %v", num, err), nil)
				bad = true
				break
			}
			main = append(main, blk)
			c.Evals(1)
			if M.lastOK > 0 {
				okStakingTx[num] = true
			}
			c.Count("sideucon_scripted_tx_ok", M.lastOK)
			c.Count("sideucon_scripted_tx_failed", M.lastFailed)
			c.Count("sideucon_scripted_tx_skipped", M.lastSkipped)
			// the block-by-block importer (fresh StateDB per block)
			if err := B.Chain.InsertChain(types.Blocks{blk}); err != nil || B.Chain.CurrentBlock().Hash() != blk.Hash() {
				c.Violation("sideucon-import-rejected:"+chaingen.Normalise(fmt.Sprint(err)), fmt.Sprintf("block %d built by the builder is rejected by the block-by-block importer: %v", num, err), nil)
				bad = true
			}
		}
		if !bad {
			// T: shares the first block (a fork directly at genesis is a separate matter: insertSidechain
			// re-imports the fork point itself, and the genesis header does not pass the ucon header
			// checks), then its own branch, one block shorter
			// (one case per kind round probes exactly that: fork at genesis, listed finding)
			genesisFork := i%len(kinds) == 0 && i/len(kinds)%2 == 0
			// shared prefix: one block, or everything up to the block before the first period end (the
			// scripted transactions of the first period are then in canonical blocks of T, their
			// take-effect at the period end is the first thing the side verification executes)
			prefix := uint64(1)
			if i/len(kinds)%2 == 1 || i%2 == 1 {
				prefix = freq - 2
			}
			if genesisFork {
				prefix = 0
			} else if err := T.Chain.InsertChain(main[:prefix]); err != nil {
				c.Note("prefix: " + err.Error())
				bad = true
			}
			for num := prefix + 1; num < L && !bad; num++ {
				if _, err := T.extend(w.Signer, nil, "own branch"); err != nil {
					c.Note("own branch: " + err.Error())
					bad = true
				}
			}
			if !bad {
				var ierr error
				// the call starts AT the fork block: only then insertChain hands the batch to
				// insertSidechain/verifyAllSideChainBlocks (a fork block later in a batch is processed
				// block by block)
				offer := main[prefix:]
				c.Count(fmt.Sprintf("sideucon_prefix_%d", prefix), 1)
				// where (if anywhere) does executing the side blocks on ONE StateDB disagree with the
				// builder? (the loop of verifyAllSideChainBlocks, on T's own processor and validator)
				failAt, failErr := emulateSideVerification(T, main, prefix)
				predicted := false
				if failAt > 0 && (failAt+1)%freq == 0 {
					// period end: the pending transactions are re-read from the tx-lookup index, which does
					// not know transactions of side blocks that are not stored yet
					for _, b := range main[prefix : failAt-1] {
						if b.NumberU64() >= failAt+1-freq && okStakingTx[b.NumberU64()] {
							predicted = true
						}
					}
				}
				if p := kit.Guard(func() { ierr = T.Chain.InsertChain(offer) }); p != nil {
					c.Violation("side-chain-import-panic", fmt.Sprintf("a node on its own branch panics when offered the %d blocks in one call: %v", L, p), nil)
				} else if genesisFork && (ierr != nil || T.Chain.CurrentBlock().Hash() != main[len(main)-1].Hash()) {
					c.Violation("genesis-fork-side-import-rejected", fmt.Sprintf("a node whose own branch forks directly at GENESIS (%d blocks) is offered a longer valid chain (%d blocks, each accepted block by block elsewhere) in one call: InsertChain -> %v, head #%d. insertSidechain re-imports the fork point together with the side blocks; for genesis the ucon header checks reject it (mix digest), and verifyAllSideChainBlocks started at genesis can already disagree with the builder on bloom / validator root", L-1, L, ierr, T.Chain.CurrentBlock().NumberU64()), nil)
					c.Count("sideucon_genesis_fork_probes", 1)
				} else if (ierr != nil || T.Chain.CurrentBlock().Hash() != main[len(main)-1].Hash()) && predicted {
					c.Violation("side-chain-period-end-needs-tx-lookups", fmt.Sprintf("side blocks %d..%d offered in one call to a node on its own branch: InsertChain -> %v. Executing them the way verifyAllSideChainBlocks does first disagrees with the builder at block %d (%v), the END of a staking period whose pending staking transactions sit in earlier SIDE blocks: endStakingPeriod re-reads pending transactions through the tx-lookup index (rawdb.ReadTransaction), which has no entry for blocks that are not stored yet ('tx not exist'), so the period end is processed incompletely", prefix+1, L, ierr, failAt, failErr), nil)
					c.Count("sideucon_period_end_needs_lookups", 1)
				} else if ierr != nil || T.Chain.CurrentBlock().Hash() != main[len(main)-1].Hash() {
					c.Note(fmt.Sprintf("side import rejected: first divergence of the emulated side verification at block %d (period position %d): %v", failAt, (failAt+1)%freq, failErr))
					c.Violation("side-chain-import-rejected:"+chaingen.Normalise(fmt.Sprint(ierr)), fmt.Sprintf("%d blocks with consensus-valid ucon headers, each accepted by the block-by-block importer, are offered in one call to a node on its own branch of %d blocks (verifyAllSideChainBlocks: all blocks on one StateDB across %d staking-period ends, script %s): InsertChain -> %v, head #%d", L, L-1, 3, kind, ierr, T.Chain.CurrentBlock().NumberU64()), nil)
				} else {
					c.Count("sideucon_side_imports_accepted", 1)
				}
				c.Evals(1)
			}
		}
		stop()
		c.End("sideucon " + kind + " " + sc.Name)
	}
}

// emulateSideVerification runs the execution loop of BlockChain.verifyAllSideChainBlocks (one
// StateDB from main[prefix-1]'s roots carried over all side blocks, ResetStakingTrieOnNewPeriod,
// Process, ValidateState) on t's own processor and validator and returns the first block that is
// not accepted (0 if all are).
func emulateSideVerification(t *unode, main types.Blocks, prefix uint64) (uint64, error) {
	bc := t.Chain
	var parent *types.Block
	if prefix == 0 {
		parent = bc.Genesis()
	} else {
		parent = main[prefix-1]
	}
	stateDb, err := bc.StateAt(parent.Root(), parent.ValRoot(), parent.StakingRoot())
	if err != nil {
		return parent.NumberU64(), err
	}
	for _, b := range main[prefix:] {
		yp, err := bc.VersionForRound(b.NumberU64())
		if err != nil {
			return b.NumberU64(), err
		}
		core.ResetStakingTrieOnNewPeriod(yp.StakingTrieFrequency, b.NumberU64(), stateDb)
		var res *types.ProcessResult
		if p := kit.Guard(func() { res, err = bc.Processor().Process(yp, b, stateDb, vm.LocalConfig{}, local.FakeRecorder()) }); p != nil {
			return b.NumberU64(), fmt.Errorf("panic: %v", p)
		}
		if err != nil {
			return b.NumberU64(), err
		}
		if err := bc.Validator().ValidateState(b, parent, stateDb, res.Recs, res.UsedGas); err != nil {
			return b.NumberU64(), err
		}
		parent = b
	}
	return 0, nil
}
