// Package c06: block execution is deterministic; builder and validator always agree.
//
// Workloads
//
//	C06.chains    generated chains (chaingen) built block by block by the transcribed miner on node A.
//	              Every built block is (a) re-executed k times on fresh state objects of the same parent
//	              through the importer's entry point (StateProcessor.Process, isSeal=false) while A's head
//	              is still the parent, and every repetition must reproduce the builder's three roots,
//	              receipts (consensus RLP, including the staking module receipt), receipt root, bloom, gas
//	              used and logs; (b) imported by InsertChain on the independent node B (fresh database):
//	              a rejection, a silently ignored block or a different head is a violation; the three tries
//	              below the head roots are enumerated node by node through both databases and compared;
//	              (c) at the end the whole chain is imported in batches by a third node C.
//	              The C08 validator invariants are attached to every block (classes "c08:…").
//	C06.zeroslash scripted mini-chains for the one anticipated divergence: a double-sign evidence
//	              against a validator whose 2 % penalty rounds to zero.
package c06

import (
	"bytes"
	"fmt"
	"math/big"
	"strings"

	"verif/build"
	"verif/chaingen"
	"verif/env"
	"verif/kit"
	"verif/mon"

	"github.com/youchainhq/go-youchain/common"
	"github.com/youchainhq/go-youchain/core"
	"github.com/youchainhq/go-youchain/core/state"
	"github.com/youchainhq/go-youchain/core/types"
	"github.com/youchainhq/go-youchain/local"
	"github.com/youchainhq/go-youchain/params"
	"github.com/youchainhq/go-youchain/rlp"
	"github.com/youchainhq/go-youchain/staking"
)

func init() {
	kit.Register("C06.chains", runChains)
	kit.Register("C06.zeroslash", runZeroSlash)
}

func runChains(c *kit.Ctx) {
	// assumption check: the builder half of this property is a transcription of miner/worker.go
	if c.Mine(0, "transcription") {
		c.Begin("transcription", nil)
		if d, err := build.WorkerSourceDigest(); err != nil {
			c.EndInconclusive("cannot read miner/worker.go of the tree under test: " + err.Error())
		} else if d != build.WorkerSourceDigestTranscribed {
			c.Note("miner/worker.go of the tree under test (sha256 " + d + ") is not the file the harness builder transcribes (" + build.WorkerSourceDigestTranscribed + "): package miner cannot be linked in this sandbox, so a change in it is invisible to the workloads; the verdict of this check does not cover the changed builder")
			c.EndInconclusive("miner/worker.go changed: builder transcription out of date")
		} else {
			c.Count("builder_transcription_current", 1)
			c.End("")
		}
	}
	n := c.N(32, 400)
	if c.Mode == "race" {
		n = c.N(8, 96)
	}
	for i := 0; i < n; i++ {
		id := fmt.Sprintf("ch%d", i)
		if !c.Mine(i, id) {
			continue
		}
		r := c.Rand(id)
		blocks := 176 + 16*r.Intn(3)
		if !c.Quick() && i%4 == 0 {
			blocks = 400 + 16*r.Intn(13)
		}
		sc := chaingen.PickScenario(r, blocks)
		c.Begin(id, map[string]interface{}{"scenario": sc.Name, "blocks": sc.Blocks, "pool": sc.Pool.String(), "evidence": sc.Evidence, "busy": sc.Busy, "negrecord": sc.NegRecord, "reckless_evidence": sc.RecklessEvidence})
		run, err := chaingen.NewRun(c, id, r, sc)
		if err != nil {
			c.EndInconclusive("setup: " + err.Error())
			continue
		}
		if sc.Evidence {
			run.EvidenceTargets = chaingen.RandomEvidenceTargets
		}
		sig := run.Execute(&Monitor{Reps: c.N(3, 10)}, chaingen.InvMonitor{})
		run.Close()
		c.Sample(map[string]interface{}{"scenario": sc.Name, "blocks": len(run.Blocks) - 1, "signature": sig})
		c.End(sig)
	}
}

// Monitor is the C06 monitor.
type Monitor struct {
	Reps int
}

func (m *Monitor) Start(r *chaingen.Run) bool { return true }
func (m *Monitor) Hooks() *build.Hooks        { return nil }

// fingerprint is everything a validator must reproduce.
type fingerprint struct {
	roots    string
	recRoot  common.Hash
	bloom    types.Bloom
	gas      uint64
	receipts [][]byte
	logs     []string
}

func fpOf(root, val, stk common.Hash, recs []*types.Receipt, gas uint64) (*fingerprint, error) {
	f := &fingerprint{roots: root.Hex() + "/" + val.Hex() + "/" + stk.Hex(), gas: gas}
	f.recRoot = types.DeriveSha(types.Receipts(recs))
	f.bloom = types.CreateBloom(types.Receipts(recs))
	for _, rc := range recs {
		b, err := rlp.EncodeToBytes(rc)
		if err != nil {
			return nil, err
		}
		f.receipts = append(f.receipts, b)
		for _, l := range rc.Logs {
			f.logs = append(f.logs, fmt.Sprintf("%x|%x|%x|tx=%x", l.Address, l.Topics, l.Data, l.TxHash))
		}
	}
	return f, nil
}

func (a *fingerprint) diff(b *fingerprint) string {
	var d []string
	if a.roots != b.roots {
		ra, rb := strings.Split(a.roots, "/"), strings.Split(b.roots, "/")
		for i, n := range []string{"root", "valroot", "stakingroot"} {
			if ra[i] != rb[i] {
				d = append(d, n)
			}
		}
	}
	if a.gas != b.gas {
		d = append(d, "gasused")
	}
	if a.bloom != b.bloom {
		d = append(d, "bloom")
	}
	if a.recRoot != b.recRoot {
		d = append(d, "receiptroot")
	}
	if len(a.receipts) != len(b.receipts) {
		d = append(d, "receiptcount")
	} else {
		for i := range a.receipts {
			if !bytes.Equal(a.receipts[i], b.receipts[i]) {
				d = append(d, "receipts")
				break
			}
		}
	}
	if strings.Join(a.logs, ";") != strings.Join(b.logs, ";") {
		d = append(d, "logs")
	}
	return strings.Join(d, "+")
}

func (m *Monitor) Built(r *chaingen.Run, b *chaingen.BlockCtx) bool {
	h := b.Block.Header()
	built, err := fpOf(h.Root, h.ValRoot, h.StakingRoot, b.Res.Receipts, h.GasUsed)
	if err != nil {
		r.Violation("receipt-not-encodable", err.Error(), r.Witness(b, nil))
		return false
	}
	if built.recRoot != h.ReceiptHash || built.bloom != h.Bloom {
		r.Violation("built-header-inconsistent", fmt.Sprintf("block %d: header receipt root / bloom do not match the builder's own receipts", b.N), r.Witness(b, nil))
		return false
	}
	a := r.A.Chain
	yp, err := a.VersionForRound(b.N)
	if err != nil {
		r.Violation("harness-version", err.Error(), nil)
		return false
	}
	var first *fingerprint
	var firstState *state.StateDB
	// only used to explain a mismatch (the case stops afterwards): getter view of the staking records
	// plus a raw enumeration of the three tries after flushing them into the trie database's memory
	stkOf := func(st *state.StateDB) mon.Digest {
		d := mon.Digest{}
		mon.StakingInto(d, st, r.W.U)
		if ro, v, s, err := st.Commit(true); err == nil {
			mon.TrieDumpInto(d, st.Database(), ro, v, s)
		}
		return d
	}
	for rep := 0; rep < m.Reps; rep++ {
		st, err := a.StateAt(b.Parent.Root(), b.Parent.ValRoot(), core.StakingRootForNewBlock(yp.StakingTrieFrequency, b.Parent.Header()))
		if err != nil {
			r.Violation("harness-stateat", err.Error(), nil)
			return false
		}
		res, err := a.Processor().Process(yp, b.Block, st, *a.GetVMConfig(), local.FakeRecorder())
		r.C.Evals(1)
		r.C.Count("determinism_repetitions", 1)
		if err != nil {
			r.Violation("reexecution-rejected:"+chaingen.Normalise(err.Error()), fmt.Sprintf("block %d: the builder's own processor rejects the block it just built: %v", b.N, err), r.Witness(b, nil))
			return false
		}
		root, val, stk := st.IntermediateRoot(true)
		if dbErr := st.Error(); dbErr != nil {
			r.Violation("reexecution-db-error:"+chaingen.Normalise(dbErr.Error()), fmt.Sprintf("block %d: state database error during re-execution: %v", b.N, dbErr), r.Witness(b, nil))
			return false
		}
		fp, err := fpOf(root, val, stk, res.Recs, res.UsedGas)
		if err != nil {
			r.Violation("receipt-not-encodable", err.Error(), r.Witness(b, nil))
			return false
		}
		if first == nil {
			first = fp
			firstState = st
			if d := built.diff(fp); d != "" {
				extra := map[string]interface{}{"built": built.describe(), "reexecuted": fp.describe()}
				class := "builder-vs-reexecution:" + d
				if c := chaingen.EvidenceClass(r, b, extra); c != "" {
					class = c
				} else {
					extra["state_diff"] = firstN(mon.Diff(stkOf(b.Res.State), stkOf(st)), 12)
				}
				r.Violation(class, fmt.Sprintf("block %d: re-executing the built block on a fresh state of the same parent (importer path, isSeal=false) differs from the builder's result in: %s", b.N, d), r.Witness(b, extra))
				return false
			}
		} else if d := first.diff(fp); d != "" {
			firstStk := stkOf(firstState)
			r.Violation("nondeterministic:"+d, fmt.Sprintf("block %d: repetition %d of the same block on the same parent differs from repetition 0 in: %s", b.N, rep, d), r.Witness(b, map[string]interface{}{"rep0": first.describe(), "rep": fp.describe(), "state_diff": firstN(mon.Diff(firstStk, stkOf(st)), 12)}))
			return false
		}
	}
	return true
}

func (f *fingerprint) describe() map[string]interface{} {
	return map[string]interface{}{"roots": f.roots, "gas": f.gas, "receipt_root": f.recRoot.Hex(), "receipts": len(f.receipts), "logs": f.logs}
}

func trieDigest(db state.Database, h *types.Header) mon.Digest {
	d := mon.Digest{}
	mon.TrieDumpInto(d, db, h.Root, h.ValRoot, h.StakingRoot)
	return d
}

func firstN(s []string, n int) []string {
	if len(s) > n {
		return s[:n]
	}
	return s
}

func (m *Monitor) Imported(r *chaingen.Run, b *chaingen.BlockCtx) bool {
	if b.ImportErr != nil {
		class := "import-rejected:" + chaingen.Normalise(b.ImportErr.Error())
		extra := map[string]interface{}{}
		if c := chaingen.EvidenceClass(r, b, extra); c != "" {
			class = c
		}
		r.Violation(class, fmt.Sprintf("block %d built by the builder path is rejected by InsertChain of an independent node: %v", b.N, b.ImportErr), r.Witness(b, extra))
		return false
	}
	bc := r.B.Chain
	if bc.CurrentBlock().Hash() != b.Block.Hash() {
		r.Violation("import-ignored", fmt.Sprintf("InsertChain returned nil for block %d but the importer's head is block %d (%x)", b.N, bc.CurrentBlock().NumberU64(), bc.CurrentBlock().Hash().Bytes()[:4]), r.Witness(b, nil))
		return false
	}
	// receipts as stored by the importer
	h := b.Block.Header()
	built, _ := fpOf(h.Root, h.ValRoot, h.StakingRoot, b.Res.Receipts, h.GasUsed)
	imp, err := fpOf(h.Root, h.ValRoot, h.StakingRoot, bc.GetReceiptsByHash(b.Block.Hash()), h.GasUsed)
	if err != nil {
		r.Violation("receipt-not-encodable", err.Error(), r.Witness(b, nil))
		return false
	}
	if d := built.diff(imp); d != "" {
		r.Violation("importer-receipts-differ:"+d, fmt.Sprintf("block %d: receipts stored by the importer differ from the builder's in: %s", b.N, d), r.Witness(b, map[string]interface{}{"built": built.describe(), "imported": imp.describe()}))
		return false
	}
	// full tries below the head roots, through both databases
	sa, err1 := r.A.Chain.State()
	sb, err2 := bc.State()
	if err1 != nil || err2 != nil {
		r.Violation("head-state-unavailable", fmt.Sprintf("block %d: builder state: %v, importer state: %v", b.N, err1, err2), r.Witness(b, nil))
		return false
	}
	da, db := trieDigest(sa.Database(), h), trieDigest(sb.Database(), h)
	if diff := mon.Diff(da, db); len(diff) > 0 {
		r.Violation("head-state-differs", fmt.Sprintf("block %d: trie enumeration differs between builder and importer: %s", b.N, strings.Join(firstN(diff, 4), " || ")), r.Witness(b, map[string]interface{}{"diff": firstN(diff, 20)}))
		return false
	}
	for k, v := range da {
		if strings.Contains(v, "MISSING") || strings.Contains(k, "error") {
			r.Violation("committed-state-incomplete", fmt.Sprintf("block %d: %s: %s", b.N, k, v), r.Witness(b, nil))
			return false
		}
	}
	r.C.Evals(1)
	r.C.Count("state_entries_compared", len(da))
	return true
}

// Finish imports the whole chain into a third node in batches (the path a syncing node takes).
func (m *Monitor) Finish(r *chaingen.Run) {
	if len(r.Blocks) < 2 {
		return
	}
	// only chains that were accepted block by block (otherwise the divergence is reported already)
	if r.B.Chain.CurrentBlock().Hash() != r.A.Chain.CurrentBlock().Hash() {
		return
	}
	eng := env.NewNeutralEngine(r.EngA.Coinbase)
	cnode, err := env.NewNode(r.Genesis, eng)
	if err != nil {
		return
	}
	defer cnode.Stop()
	rest := types.Blocks(r.Blocks[1:])
	for len(rest) > 0 {
		k := 1 + r.R.Intn(40)
		if k > len(rest) {
			k = len(rest)
		}
		if err := cnode.Chain.InsertChain(rest[:k]); err != nil {
			r.Violation("batch-import-rejected:"+chaingen.Normalise(err.Error()), fmt.Sprintf("a third node importing blocks %d..%d in one InsertChain call rejects them although they were accepted one by one: %v", rest[0].NumberU64(), rest[k-1].NumberU64(), err), map[string]interface{}{"scenario": r.Sc.Name, "case": r.ID})
			return
		}
		rest = rest[k:]
		r.C.Count("batch_imports", 1)
	}
	head := r.A.Chain.CurrentBlock()
	if cnode.Chain.CurrentBlock().Hash() != head.Hash() {
		r.Violation("batch-import-ignored", fmt.Sprintf("third node head is %d, expected %d", cnode.Chain.CurrentBlock().NumberU64(), head.NumberU64()), map[string]interface{}{"scenario": r.Sc.Name, "case": r.ID})
		return
	}
	sa, _ := r.A.Chain.State()
	sc, err := cnode.Chain.State()
	if err != nil {
		r.Violation("head-state-unavailable", "third node: "+err.Error(), nil)
		return
	}
	if diff := mon.Diff(trieDigest(sa.Database(), head.Header()), trieDigest(sc.Database(), head.Header())); len(diff) > 0 {
		r.Violation("head-state-differs", "third node (batch import): "+strings.Join(firstN(diff, 4), " || "), map[string]interface{}{"scenario": r.Sc.Name, "case": r.ID})
	}
	r.C.Count("third_node_chains", 1)
}

// ---------------------------------------------------------------- scripted mini-chains

// runZeroSlash holds the minimal reproductions of the anticipated divergences (the workload name is
// historical). Every case is a genesis preset, a handful of scripted transactions and empty blocks:
//
//	zs<even>  a House validator is created with a self stake of 1..49 LU (2 % of it rounds to zero); once
//	          it is in the look-back set a double-sign evidence against it is handed to the builder
//	zs<odd>   the same with 50..99 LU: the penalty is 1 LU, the stake is 0
//	ng<i>     a House genesis validator accepts delegations, a user delegates 100 YOU, then in one period
//	          the operator withdraws all but 10 YOU of the self token and the user unbinds 100 YOU
func runZeroSlash(c *kit.Ctx) {
	n := c.N(4, 16)
	for i := 0; i < n; i++ {
		id := fmt.Sprintf("zs%d", i)
		if i >= n/2 {
			id = fmt.Sprintf("ng%d", i-n/2)
		}
		if !c.Mine(i, id) {
			continue
		}
		r := c.Rand(id)
		sc := chaingen.PickScenario(r, 56)
		sc.Evidence = false
		c.Begin(id, map[string]interface{}{"scenario": sc.Name})
		run, err := chaingen.NewRun(c, id, r, sc)
		if err != nil {
			c.EndInconclusive("setup: " + err.Error())
			continue
		}
		if i < n/2 {
			scriptZeroSlash(run, i%2 == 1)
		} else {
			scriptNegativeRecord(run)
		}
		sig := run.Execute(&Monitor{Reps: 3}, chaingen.InvMonitor{})
		run.Close()
		c.End("scripted " + id[:2] + " " + sig)
	}
}

func scriptZeroSlash(run *chaingen.Run, oneLU bool) {
	var tiny common.Address
	r := run.R
	lu := int64(1 + r.Intn(49))
	if oneLU {
		lu = int64(50 + r.Intn(50))
	}
	evAt := uint64(34 + r.Intn(10))
	run.Script = func(run *chaingen.Run, st *state.StateDB, n uint64) ([]chaingen.TxInfo, bool) {
		if n == 1 {
			ti, main := run.W.TinyCreate(st, lu)
			tiny = main
			return []chaingen.TxInfo{ti}, true
		}
		return nil, true
	}
	run.EvidenceTargets = func(run *chaingen.Run, st *state.StateDB, n uint64) []common.Address {
		if n == evAt && st.GetValidatorByMainAddr(tiny) != nil {
			return []common.Address{tiny}
		}
		return nil
	}
}

func scriptNegativeRecord(run *chaingen.Run) {
	w := run.W
	// a House validator of the genesis and its operator
	hv := -1
	for i, v := range run.Sc.Vals {
		if v.Role == params.RoleHouse && v.Status == params.ValidatorOnline {
			hv = i
		}
	}
	main := w.VA(hv)
	delegator := 9
	run.Script = func(run *chaingen.Run, st *state.StateDB, n uint64) ([]chaingen.TxInfo, bool) {
		w.BeginScript(st)
		v := st.GetValidatorByMainAddr(main)
		switch n {
		case 1:
			return []chaingen.TxInfo{w.StakingTx(hv, staking.ValidatorUpdate, &staking.TxUpdateValidator{MainAddress: main, CommissionRate: 0xffff, RiskObligation: 0xffff, AcceptDelegation: 1}, "stk.update", nil)}, true
		case 17:
			val := env.YOU(100)
			return []chaingen.TxInfo{w.StakingTx(delegator, staking.DelegationAdd, &staking.TxDelegation{Validator: main, Value: val}, "stk.dlgadd", val)}, true
		case 33:
			// operator: withdraw all but 10 YOU of the self token -> validator-total pending record = 10 YOU
			keep := env.YOU(10)
			return []chaingen.TxInfo{w.StakingTx(hv, staking.ValidatorWithDraw, &staking.TxValidatorWithdraw{MainAddress: main, Recipient: w.UA(hv), Value: new(big.Int).Sub(v.SelfToken, keep)}, "stk.withdraw", nil)}, true
		case 35:
			// delegator: unbind 100 YOU -> record = 10 - 100 YOU
			return []chaingen.TxInfo{w.StakingTx(delegator, staking.DelegationSub, &staking.TxDelegation{Validator: main, Value: env.YOU(100)}, "stk.dlgsub", nil)}, true
		}
		return nil, true
	}
}
