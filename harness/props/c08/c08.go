// Package c08: validator-set totals, indexes and delegation links always match the records.
// Oracle: recomputation from the current validator records.
package c08

import (
	"fmt"

	"verif/kit"
	"verif/mon"
	"verif/stategen"

	"github.com/youchainhq/go-youchain/core/state"
)

func init() { kit.Register("C08.seq", run) }

func run(c *kit.Ctx) {
	n := c.N(3000, 150000)
	for i := 0; i < n; i++ {
		id := fmt.Sprintf("s%d", i)
		if !c.Mine(i, id) {
			continue
		}
		seq(c, id)
	}
}

func report(c *kit.Ctx, when string, vs []mon.InvViolation, w *stategen.World) bool {
	if len(vs) == 0 {
		return false
	}
	seen := map[string]bool{}
	for _, v := range vs {
		if seen[v.Class] {
			continue
		}
		seen[v.Class] = true
		c.Violation(v.Class, when+": "+v.Msg, w.TailOps(40))
	}
	return true
}

func seq(c *kit.Ctx, id string) {
	r := c.Rand(id)
	c.Begin(id, nil)
	fam := stategen.Families{Account: true, Validator: true, Delegation: true, WithdrawQ: true, WithdrawRm: true}
	w := stategen.NewWorld(r, 5, 4, fam)
	w.NextTx()
	nops := 30 + r.Intn(60)
	bad := false
	var snaps []int
	nrev, nreopen, nreader, nchecks := 0, 0, 0, 0
	p := kit.Guard(func() {
		for s := 0; s < nops && !bad; s++ {
			x := r.Intn(100)
			when := ""
			switch {
			case x < 8:
				snaps = append(snaps, w.St.Snapshot())
				w.Ops = append(w.Ops, "snapshot")
				continue
			case x < 14 && len(snaps) > 0:
				k := r.Intn(len(snaps))
				w.St.RevertToSnapshot(snaps[k])
				snaps = snaps[:k]
				w.Ops = append(w.Ops, "revert")
				nrev++
				when = "after revert"
			case x < 20:
				if r.Intn(2) == 0 {
					w.St.Finalise(true)
					w.Ops = append(w.Ops, "finalise")
				} else {
					w.St.IntermediateRoot(true)
					w.Ops = append(w.Ops, "intermediateroot")
				}
				snaps = nil
				w.NextTx()
				when = "after flush"
			case x < 25:
				_, vroot, _ := w.St.IntermediateRoot(true)
				if err := w.Reopen(); err != nil {
					c.Violation("reopen-error", err.Error(), w.TailOps(40))
					bad = true
					return
				}
				snaps = nil
				nreopen++
				w.NextTx()
				when = "after commit+reopen"
				// the look-back reader consensus uses
				rd, err := state.NewVldReader(vroot, w.DB, true)
				if err != nil {
					c.Violation("vldreader-error", err.Error(), w.TailOps(40))
					bad = true
					return
				}
				nreader++
				if report(c, "look-back reader (NewVldReader)", mon.CheckReader(rd, w.U), w) {
					bad = true
					return
				}
				if report(c, "reopened state (GetValidators)", mon.CheckReader(w.St, w.U), w) {
					bad = true
					return
				}
			case x < 28:
				cp := w.St.Copy()
				nchecks++
				if w.R.Intn(2) == 0 {
					// a copy that nobody looks at before the original moves on (look-back copies of the
					// side-chain verification, the pending state): its aggregates must match ITS records
					for k := 1 + w.R.Intn(6); k > 0; k-- {
						w.Op()
					}
					if report(c, "on a Copy first read after the original moved on", mon.CheckLive(cp, w.U), w) {
						bad = true
						return
					}
					c.Count("copies_checked_after_the_original_moved", 1)
				} else if report(c, "on a Copy", mon.CheckLive(cp, w.U), w) {
					bad = true
					return
				}
				if w.R.Intn(3) == 0 {
					// the copy (taken at any point of a transaction) is committed and reopened from its
					// roots: what was written must again be consistent with itself
					r1, r2, r3, err := cp.Commit(true)
					if err == nil {
						if st2, err := state.New(r1, r2, r3, w.DB); err == nil {
							if report(c, "on a committed Copy reopened from its roots", mon.CheckLive(st2, w.U), w) {
								bad = true
								return
							}
							c.Count("committed_copies_reopened", 1)
						}
					}
				}
				continue
			default:
				w.Op()
				when = "after op"
			}
			nchecks++
			c.Evals(1)
			if report(c, when, mon.CheckLive(w.St, w.U), w) {
				bad = true
			}
		}
	})
	if p != nil {
		c.Violation("panic", fmt.Sprint(p), w.TailOps(40))
	}
	c.Count("checks", nchecks)
	c.Count("reverts", nrev)
	c.Count("reopens", nreopen)
	c.Count("lookback_readers", nreader)
	c.Count("ops", len(w.Ops))
	nv := len(w.St.GetValidatorsForUpdate())
	nd := 0
	for _, v := range w.St.GetValidatorsForUpdate() {
		nd += v.Delegations.Len()
	}
	c.Max("max_validators", int64(nv))
	c.Max("max_delegations", int64(nd))
	c.Sample(map[string]interface{}{"ops": w.TailOps(20), "validators": nv, "delegations": nd})
	c.End(fmt.Sprintf("vals%d dlg%d rev%v reopen%v", nv, min(nd, 6), nrev > 0, nreopen > 0))
}

func min(a, b int) int {
	if a < b {
		return a
	}
	return b
}
