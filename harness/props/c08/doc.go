// Package c08 holds the workloads and monitors of property C08.
package c08
