package c08

import (
	"fmt"
	"strings"

	"verif/chaingen"
	"verif/kit"
)

func init() { kit.Register("C08.chain", runChain) }

// runChain: the same invariant monitor, but the state is driven by the REAL staking module
// (transactions, take-effect handlers at period ends, rewards, inactivity slashing, forced
// offline/expel paths) on generated chains: builder post state, importer head state and the
// look-back reader consensus would use are checked after every block. Evidence and the
// negative-record scenario (subjects of C05/C06) are switched off here.
func runChain(c *kit.Ctx) {
	n := c.N(16, 480)
	for i := 0; i < n; i++ {
		id := fmt.Sprintf("ch%d", i)
		if !c.Mine(i, id) {
			continue
		}
		r := c.Rand(id)
		blocks := 176 + 16*r.Intn(3)
		sc := chaingen.PickScenario(r, blocks)
		sc.Evidence, sc.NegRecord, sc.RecklessEvidence = false, false, false
		c.Begin(id, map[string]interface{}{"scenario": sc.Name, "blocks": sc.Blocks, "busy": sc.Busy})
		run, err := chaingen.NewRun(c, id, r, sc)
		if err != nil {
			c.EndInconclusive("setup: " + err.Error())
			continue
		}
		run.Scope = func(class string) bool { return strings.HasPrefix(class, "c08:") }
		sig := run.Execute(chaingen.InvMonitor{})
		run.Close()
		c.Count("chain_blocks", len(run.Blocks)-1)
		c.End(sc.Name + " " + sig)
	}
}
