// Package c15 holds the workloads and monitors of property C15 (see c15.go).
package c15
