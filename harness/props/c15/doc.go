// Package c15 holds the workloads and monitors of property C15.
package c15
