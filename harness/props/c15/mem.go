package c15

// Phase (d): memory programs. The active memory size (in words, observable through MSIZE) and
// the memory expansion gas (3*words + words^2/512, charged on the delta) are judged for EVERY
// memory-touching opcode of the subset: MLOAD, MSTORE, MSTORE8, CALLDATACOPY, CODECOPY,
// RETURNDATACOPY, SHA3, LOG0..4, RETURN, REVERT (+ MSIZE and GAS as observers).
//
// The standard epilogue of this package stores the final stack BEHIND the used memory, i.e. it
// expands memory itself; since the expansion gas of a program only depends on the highest word
// ever touched, an instruction that activates a word too many is absorbed by it. Therefore every
// body is ALSO completed by the tight epilogue (tightEpilogue: MSIZE + stores into the memory
// that is already active + RETURN of exactly the active memory), under which the gas of the whole
// program is exact, and MSIZE/GAS observations are interleaved with the accesses so that a wrong
// size after one instruction is visible in the observations and prices of the following ones.

import (
	"encoding/hex"
	"fmt"
	"math/big"
	"math/rand"
	"sort"
	"strings"

	"verif/model"
)

var hugeOffsets = []*big.Int{
	fromHex("100000000"), fromHex("100000001"), fromHex("ffffffffe1"), fromHex("10000000000"), fromHex("7fffffffffffffff"), fromHex("8000000000000000"),
	fromHex("ffffffffffffffe0"), fromHex("ffffffffffffffff"), two64, add(two64, 31), add(two64, 32), new(big.Int).Lsh(big.NewInt(1), 128),
	add(two255, -1), two255, add(two256, -33), add(two256, -32), add(two256, -1),
}

type memProg struct {
	body  []byte
	input []byte
	nIns  int
	feats map[string]bool
	halts string // "": needs an epilogue; "return" / "revert": ends by itself; "fail": its last instruction must halt exceptionally
}

type memGen struct {
	r       *rand.Rand
	a       *asm
	cur     int // active bytes by the generator's own bookkeeping; only steers the choice of offsets
	d       int // stack depth by the generator's own bookkeeping
	ins     int
	bigUsed bool
	feats   map[string]bool
	input   []byte
}

func (g *memGen) touch(off, l int) {
	if l == 0 {
		return
	}
	if w := (off + l + 31) / 32 * 32; w > g.cur {
		g.cur = w
	}
}

func (g *memGen) pushBig(v *big.Int) {
	n := 0
	if g.r.Intn(6) == 0 {
		n = len(v.Bytes()) + g.r.Intn(33-len(v.Bytes())) // redundant leading zero bytes
	}
	g.a.pushN(v, n)
	g.ins++
	g.d++
}
func (g *memGen) pushInt(v int) { g.pushBig(big.NewInt(int64(v))) }
func (g *memGen) emit(op byte, pops, pushes int) {
	g.a.op(op)
	g.ins++
	g.d += pushes - pops
}

// offFor picks the offset of an access of l > 0 bytes relative to the end of the active memory.
func (g *memGen) offFor(l int) int {
	r, cur := g.r, g.cur
	if cur > 1<<16 {
		return r.Intn(cur - l + 1)
	}
	for tries := 0; tries < 4; tries++ {
		switch r.Intn(16) {
		case 0: // word aligned, inside
			if cur >= l && cur >= 32 {
				return 32 * r.Intn((cur-l)/32+1)
			}
		case 1: // anywhere inside
			if cur > l {
				return r.Intn(cur - l + 1)
			}
		case 2: // ends exactly at the end of the active memory
			if cur >= l && cur > 0 {
				return cur - l
			}
		case 3: // ends one byte beyond the end
			if cur > 0 && cur-l+1 >= 0 {
				return cur - l + 1
			}
		case 4: // ends inside the last active word
			if cur-l-31 >= 0 {
				return cur - l - r.Intn(32)
			}
		case 5: // starts exactly at the end
			return cur
		case 6: // starts a little beyond the end
			return cur + 1 + r.Intn(64)
		case 7: // one byte before a word boundary
			return 32*r.Intn(cur/32+3) + 31
		case 8: // starts inside the last active word
			if cur >= 32 {
				return cur - 32 + r.Intn(32)
			}
		case 9: // some words beyond
			return cur + 32*r.Intn(40) + r.Intn(32)
		case 10: // far beyond (the quadratic term counts), at most once per program
			if !g.bigUsed && r.Intn(4) == 0 {
				g.bigUsed = true
				return cur + 32*(100+r.Intn(700)) + r.Intn(32)
			}
		case 11:
			return r.Intn(100)
		case 12:
			return 0
		case 13: // ends one byte before the end
			if cur-l-1 >= 0 {
				return cur - l - 1
			}
		case 14: // one byte after a word boundary
			return 32*r.Intn(cur/32+2) + 1
		case 15: // unaligned inside the last active word or the first inactive one
			if cur >= 32 {
				return cur - 32 + 1 + r.Intn(63)
			}
		}
	}
	return cur + r.Intn(40)
}

func (g *memGen) length() int {
	switch g.r.Intn(13) {
	case 0, 1:
		return 0
	case 2:
		return 1
	case 3:
		return 2
	case 4:
		return 31
	case 5:
		return 32
	case 6:
		return 33
	case 7:
		return 64
	case 8:
		return 65
	case 9:
		return g.r.Intn(300)
	}
	return 1 + g.r.Intn(100)
}

// zeroLenOff: where a zero-length access points (it must neither expand nor cost anything).
func (g *memGen) zeroLenOff() *big.Int {
	switch g.r.Intn(10) {
	case 0, 1, 2, 3, 4:
		return hugeOffsets[g.r.Intn(len(hugeOffsets))]
	case 5:
		v := genVal(g.r)
		return v.SetBit(v, 40+g.r.Intn(200), 1)
	case 6:
		return big.NewInt(int64(g.cur))
	case 7:
		return big.NewInt(int64(g.cur + 1 + g.r.Intn(5000)))
	case 8:
		return big.NewInt(int64(g.cur + 32*(1+g.r.Intn(100))))
	}
	return big.NewInt(int64(g.r.Intn(g.cur + 1)))
}

// offLen pushes nothing; it picks (offset, length) of a variable-length access.
func (g *memGen) offLen() (*big.Int, int) {
	l := g.length()
	if l == 0 {
		return g.zeroLenOff(), 0
	}
	off := g.offFor(l)
	g.touch(off, l)
	return big.NewInt(int64(off)), l
}

// srcOff: offset into call data / code of n (guessed) bytes.
func (g *memGen) srcOff(n int) *big.Int {
	switch g.r.Intn(9) {
	case 0, 1:
		return big.NewInt(0)
	case 2:
		return big.NewInt(1)
	case 3:
		return big.NewInt(int64(max(n-1, 0)))
	case 4:
		return big.NewInt(int64(n))
	case 5:
		return big.NewInt(int64(n + 1))
	case 6:
		return hugeOffsets[g.r.Intn(len(hugeOffsets))]
	}
	return big.NewInt(int64(g.r.Intn(n + 40)))
}

func (g *memGen) observe() {
	if g.r.Intn(2) == 0 {
		g.emit(model.C15MSIZE, 0, 1)
		g.feats["msize"] = true
	}
	if g.r.Intn(6) == 0 {
		g.emit(model.C15GAS, 0, 1)
		g.feats["gas"] = true
	}
}

func (g *memGen) step() {
	r := g.r
	x := r.Intn(100)
	switch {
	case x < 18:
		off := g.offFor(32)
		g.pushBig(randWord(r))
		g.pushInt(off)
		g.emit(model.C15MSTORE, 2, 0)
		g.touch(off, 32)
		g.feats["mstore"] = true
	case x < 42:
		off := g.offFor(1)
		g.pushBig(genVal(r))
		g.pushInt(off)
		g.emit(model.C15MSTORE8, 2, 0)
		g.touch(off, 1)
		g.feats["mstore8"] = true
	case x < 55:
		off := g.offFor(32)
		g.pushInt(off)
		g.emit(model.C15MLOAD, 1, 1)
		g.touch(off, 32)
		g.feats["mload"] = true
	case x < 64:
		off, l := g.offLen()
		g.pushInt(l)
		g.pushBig(g.srcOff(len(g.input)))
		g.pushBig(off)
		g.emit(model.C15CALLDATACOPY, 3, 0)
		g.feats["calldatacopy"] = true
	case x < 71:
		off, l := g.offLen()
		g.pushInt(l)
		g.pushBig(g.srcOff(len(g.a.b) + 40))
		g.pushBig(off)
		g.emit(model.C15CODECOPY, 3, 0)
		g.feats["codecopy"] = true
	case x < 74: // the return data buffer is empty: only (anything, 0, 0) is a valid copy
		g.pushInt(0)
		g.pushInt(0)
		g.pushBig(g.zeroLenOff())
		g.emit(model.C15RETURNDATACOPY, 3, 0)
		g.feats["returndatacopy"] = true
	case x < 82:
		off, l := g.offLen()
		g.pushInt(l)
		g.pushBig(off)
		g.emit(model.C15SHA3, 2, 1)
		g.feats["sha3"] = true
	case x < 88:
		n := r.Intn(5)
		for i := 0; i < n; i++ {
			g.pushBig(genVal(r))
		}
		off, l := g.offLen()
		g.pushInt(l)
		g.pushBig(off)
		g.emit(byte(model.C15LOG0+n), 2+n, 0)
		g.feats["log"] = true
	case x < 92:
		g.emit(model.C15MSIZE, 0, 1)
		g.feats["msize"] = true
		return
	case x < 94:
		g.emit(model.C15CALLDATASIZE+byte(2*r.Intn(2)), 0, 1) // CALLDATASIZE or CODESIZE
		return
	case x < 96:
		g.pushBig(g.srcOff(len(g.input)))
		g.emit(model.C15CALLDATALOAD, 1, 1)
		return
	case x < 98 && g.d > 3:
		g.emit(model.C15POP, 1, 0)
		return
	default:
		// arithmetic on what the observers left on the stack (keeps the stack words in use)
		if g.d >= 4 {
			g.emit([]byte{model.C15ADD, model.C15XOR, model.C15SUB, model.C15AND}[r.Intn(4)], 2, 1)
		}
		return
	}
	g.observe()
}

// failing appends an access that cannot be paid for (or, for RETURNDATACOPY, reads beyond the
// empty return data buffer): the program must halt exceptionally there.
func (g *memGen) failing() {
	r := g.r
	huge := hugeOffsets[r.Intn(len(hugeOffsets))]
	small := big.NewInt(int64(r.Intn(g.cur + 64)))
	one := big.NewInt(int64(1 + r.Intn(64)))
	off, l := huge, one
	if r.Intn(3) == 0 {
		off, l = small, huge // affordable offset, unaffordable length
	}
	switch r.Intn(9) {
	case 0:
		g.pushBig(randWord(r))
		g.pushBig(huge)
		g.emit(model.C15MSTORE, 2, 0)
	case 1:
		g.pushBig(randWord(r))
		g.pushBig(huge)
		g.emit(model.C15MSTORE8, 2, 0)
	case 2:
		g.pushBig(huge)
		g.emit(model.C15MLOAD, 1, 1)
	case 3:
		g.pushBig(l)
		g.pushBig(off)
		g.emit(model.C15SHA3, 2, 1)
	case 4:
		g.pushBig(l)
		g.pushBig(g.srcOff(len(g.input)))
		g.pushBig(off)
		g.emit(model.C15CALLDATACOPY+byte(2*r.Intn(2)), 3, 0) // CALLDATACOPY or CODECOPY
	case 5:
		g.pushBig(l)
		g.pushBig(off)
		g.emit(model.C15LOG0, 2, 0)
	case 6:
		g.pushBig(l)
		g.pushBig(off)
		g.emit(model.C15RETURN+byte(10*r.Intn(2)), 2, 0) // RETURN or REVERT
	default: // RETURNDATACOPY beyond the empty buffer: small affordable memory range
		lenv, src := r.Intn(3), r.Intn(3)
		if lenv+src == 0 {
			src = 1
		}
		g.pushInt(lenv)
		g.pushInt(src)
		g.pushInt(r.Intn(g.cur + 64))
		g.emit(model.C15RETURNDATACOPY, 3, 0)
	}
}

var inputLens = []int{0, 0, 1, 4, 31, 32, 33, 36, 64, 68, 100}

func genMemProgram(r *rand.Rand) *memProg {
	g := &memGen{r: r, a: &asm{}, feats: map[string]bool{}}
	g.input = make([]byte, inputLens[r.Intn(len(inputLens))])
	r.Read(g.input)
	for i, n := 0, 1+r.Intn(2); i < n; i++ { // sentinels
		g.a.pushN(randWord(r), 32)
		g.ins++
		g.d++
	}
	// initial state of the memory: fresh (nothing), or already expanded by a first store
	switch r.Intn(5) {
	case 0, 1: // fresh
		g.feats["fresh"] = true
	case 2: // a few words
		off := 32*r.Intn(4) + []int{0, 0, 0, 1, 31}[r.Intn(5)]
		g.pushBig(randWord(r))
		g.pushInt(off)
		g.emit(model.C15MSTORE, 2, 0)
		g.touch(off, 32)
	case 3: // some dozens of words
		off := 32*r.Intn(64) + r.Intn(32)
		g.pushBig(genVal(r))
		g.pushInt(off)
		g.emit(model.C15MSTORE8, 2, 0)
		g.touch(off, 1)
	case 4: // around the point where the quadratic term starts to count (23 words) and beyond
		off := 32 * (18 + r.Intn(12))
		g.pushInt(off)
		g.emit(model.C15MLOAD, 1, 1)
		g.touch(off, 32)
	}
	for i, n := 0, 2+r.Intn(14); i < n; i++ {
		g.step()
	}
	p := &memProg{input: g.input, feats: g.feats}
	switch x := r.Intn(100); {
	case x < 6:
		g.failing()
		p.halts = "fail"
	case x < 30:
		// the program ends by its own RETURN / REVERT with a chosen slice; before that, as much of
		// the stack as fits is spilled into the active memory so that the observations survive
		pre := model.C15ExecIn(g.a.b, g.input, gasPlenty, nil)
		if pre.Err == "" {
			for j := 0; j < len(pre.Stack) && 32*(j+1) <= len(pre.Mem); j++ {
				g.a.pushU(uint64(32 * j)).op(model.C15MSTORE)
				g.ins += 2
			}
			g.cur = len(pre.Mem)
		}
		off, l := g.offLen()
		if l > 0 && r.Intn(3) == 0 { // the whole active memory and a bit
			off, l = big.NewInt(0), g.cur+r.Intn(3)*r.Intn(40)
		}
		g.pushInt(l)
		g.pushBig(off)
		p.halts = "return"
		if r.Intn(3) == 0 {
			p.halts = "revert"
			g.emit(model.C15REVERT, 2, 0)
		} else {
			g.emit(model.C15RETURN, 2, 0)
		}
	}
	p.body, p.nIns = g.a.b, g.ins
	return p
}

// completeIn: body + standard epilogue, with call data.
func completeIn(body, input []byte) ([]byte, *model.C15Out) {
	pre := model.C15ExecIn(body, input, gasPlenty, nil)
	if pre.Err != "" {
		return nil, pre
	}
	return append(append([]byte{}, body...), epilogue(len(pre.Stack), len(pre.Mem))...), pre
}

// minimiseMem finds the shortest prefix of a storage-free body after which the interpreter's
// active memory size (MSIZE appended to the prefix), the exact gas (tight epilogue) or the data
// already differ from the reference, and names the violation after the last instruction of that
// prefix: memory-size:<OP>, memory-gas:<OP>, or <class>:<OP>. orig is returned when no prefix fails.
func (e *env) minimiseMem(body, input []byte, orig verdict) verdict {
	saved := e.input
	e.input = input
	defer func() { e.input = saved }()
	for _, cut := range cuts(body) {
		prefix := body[:cut]
		c := cuts(prefix)
		start := 0
		if len(c) >= 2 {
			start = c[len(c)-2]
		}
		name := model.C15Name(prefix[start])
		pre := model.C15ExecIn(prefix, input, gasPlenty, nil)
		type probe struct {
			code      []byte
			msizeWord int
			how       string
		}
		var probes []probe
		if pre.Err != "" || pre.Reverted || endsInHalt(prefix) {
			probes = append(probes, probe{prefix, -1, "the prefix halts by itself"})
		} else {
			if code, _, ok := completeTight(prefix, input); ok {
				probes = append(probes, probe{code, 0, "prefix + MSIZE + stores into the active memory + RETURN of the active memory (no expansion by the harness: total gas is exact)"})
			}
			withMsize := append(append([]byte{}, prefix...), model.C15MSIZE)
			code := append(withMsize, epilogue(len(pre.Stack)+1, len(pre.Mem))...)
			probes = append(probes, probe{code, len(pre.Mem) / 32, "prefix + MSIZE + stack stored behind the memory + RETURN of everything"})
		}
		for _, p := range probes {
			v, want, diffWord := e.compare(e.freshAddr(), p.code, gasPlenty, nil, true, name)
			if v.class == "" {
				continue
			}
			gasNote := fmt.Sprintf("gas used by the probe %d, specified %d", v.wit.GotGas, v.wit.WantGas)
			switch {
			case strings.HasPrefix(v.class, "result-mismatch:") && diffWord == p.msizeWord:
				v.class = "memory-size:" + name
				v.msg = fmt.Sprintf("active memory size (MSIZE) right after [%s]: %s, specified %s (%d bytes); %s", tailIns(prefix, 3),
					wordAt(e.last.ret, diffWord), wordAt(want.Ret, diffWord), len(pre.Mem), gasNote)
			case strings.HasPrefix(v.class, "gas-mismatch:"):
				v.class = "memory-gas:" + name
				v.msg = fmt.Sprintf("after [%s] the same memory size is observed and the same data is returned, but %s (difference %d)", tailIns(prefix, 3), gasNote, int64(v.wit.GotGas)-int64(v.wit.WantGas))
			}
			v.wit.Note = fmt.Sprintf("shortest failing prefix: %d of %d body bytes; last instruction of the prefix: %s; probe: %s; full body: %s", cut, len(body), lastIns(prefix), p.how, hex.EncodeToString(body))
			return v
		}
	}
	return orig
}

func (e *env) runMemPrograms(r *rand.Rand, n int) {
	c := e.c
	n0 := e.n
	defer func() { e.count(n0); e.input = nil }()
	for k := 0; k < n; k++ {
		p := genMemProgram(r)
		e.input = p.input
		e.cnt["mem_programs"]++
		e.cnt["mem_program_instructions"] += p.nIns
		var fs []string
		for f := range p.feats {
			fs = append(fs, f)
		}
		sort.Strings(fs)
		report := func(v verdict) {
			v = e.minimiseMem(p.body, p.input, v)
			c.Violation(v.class, v.msg, v.wit)
		}
		if p.halts != "" {
			v, want, _ := e.compare(e.freshAddr(), p.body, gasPlenty, nil, true, "mem-program")
			c.Evals(1)
			e.tally(want)
			e.tallyMem(want)
			switch {
			case p.halts == "fail" && want.Err == "", p.halts != "fail" && want.Err != "", p.halts == "revert" && !want.Reverted:
				e.bad, e.why = true, fmt.Sprintf("generated memory program (%s) is judged differently by the reference (%q reverted=%v): %s", p.halts, want.Err, want.Reverted, disasm(p.body))
				return
			}
			if v.class != "" {
				report(v)
				return
			}
			e.cnt["mem_programs_ending_in_"+p.halts]++
			if p.halts != "fail" {
				e.cnt["mem_exact_gas_programs"]++ // no epilogue at all: the gas compared is the program's own
				e.cnt["mem_returned_bytes_compared"] += len(want.Ret)
				if k%4 == 1 {
					if v := e.gasEdges(p.body, want, "mem-program"); v.class != "" {
						report(v)
						return
					}
				}
			}
			c.Sig(fmt.Sprintf("M %s len%d %v", p.halts, p.nIns/8, fs))
			continue
		}
		// (1) memory + whole stack returned
		code, pre := completeIn(p.body, p.input)
		if pre.Err != "" || pre.Reverted {
			e.bad, e.why = true, fmt.Sprintf("generated memory program invalid for the reference (%s at %d): %s", pre.Err, pre.ErrPC, disasm(p.body))
			return
		}
		e.tallyMem(pre)
		v, want, _ := e.compare(e.freshAddr(), code, gasPlenty, nil, true, "mem-program")
		c.Evals(1)
		e.tally(want)
		e.cnt["final_stack_words_compared"] += len(pre.Stack)
		e.cnt["final_memory_bytes_compared"] += len(pre.Mem)
		e.cnt["mem_msize_observations_compared"] += pre.OpCount[model.C15MSIZE]
		e.cnt["mem_gas_observations_compared"] += pre.OpCount[model.C15GAS]
		c.Max("max_mem_program_active_words", int64(len(pre.Mem)/32))
		if v.class != "" {
			report(v)
			return
		}
		// (2) exact gas: nothing the harness appends expands memory
		if tight, _, ok := completeTight(p.body, p.input); ok {
			v, want2, _ := e.compare(e.freshAddr(), tight, gasPlenty, nil, true, "mem-program")
			c.Evals(1)
			e.cnt["mem_exact_gas_programs"]++
			e.cnt["mem_msize_observations_compared"]++
			if v.class != "" {
				report(v)
				return
			}
			if k%4 == 1 {
				if v := e.gasEdges(tight, want2, "mem-program"); v.class != "" {
					report(v)
					return
				}
			}
		} else {
			e.cnt["mem_programs_without_active_memory"]++
		}
		c.Sig(fmt.Sprintf("M len%d words%d %v", p.nIns/8, bucket(len(pre.Mem)/32), fs))
		if k == 0 {
			e.sample(2, map[string]interface{}{"kind": "memory program", "asm": disasm(p.body), "calldata_bytes": len(p.input), "active_words": len(pre.Mem) / 32, "gas_used_with_tight_epilogue": want.GasUsed})
		}
	}
}

// tailIns disassembles the last n instructions of a straight-line body.
func tailIns(body []byte, n int) string {
	c := cuts(body)
	start := 0
	if len(c) > n {
		start = c[len(c)-1-n]
	}
	return disasm(body[start:])
}

func bucket(words int) int {
	b := 0
	for words > 0 {
		words >>= 1
		b++
	}
	return b
}

// runMemOffsets: the variable-length memory opcodes at huge offsets. With a zero length they
// must neither expand memory nor cost more than their base price (the program goes on and MSIZE
// is observed); with a non-zero length, or a huge length, they must halt exceptionally.
func (e *env) runMemOffsets(r *rand.Rand) {
	n0 := e.n
	defer func() { e.count(n0); e.input = nil }()
	e.input = []byte{0xde, 0xad, 0xbe, 0xef, 0x01}
	offs := append([]*big.Int{}, hugeOffsets...)
	for i := 0; i < 8; i++ {
		v := genVal(r)
		offs = append(offs, v.SetBit(v, 33+r.Intn(220), 1))
	}
	ops := []byte{model.C15SHA3, model.C15CALLDATACOPY, model.C15CODECOPY, model.C15RETURNDATACOPY, model.C15LOG0, model.C15LOG0 + 3, model.C15RETURN, model.C15REVERT}
	for _, op := range ops {
		for _, off := range offs {
			for variant := 0; variant < 4; variant++ {
				// 0: zero length, fresh memory; 1: zero length, memory already active; 2: length 1..64 at the
				// huge offset; 3: huge length at a small offset
				if op == model.C15RETURNDATACOPY && variant >= 2 {
					continue // covered by the failing memory programs (different reason to halt)
				}
				a := &asm{}
				a.pushN(randWord(r), 32) // sentinel
				if variant == 1 {
					a.push(randWord(r)).pushU(uint64(r.Intn(200))).op(model.C15MSTORE)
				}
				for i := 0; i < int(op-model.C15LOG0) && op >= model.C15LOG0 && op <= model.C15LOG4; i++ {
					a.push(genVal(r))
				}
				o, l := off, big.NewInt(0)
				switch variant {
				case 2:
					l = big.NewInt(int64(1 + r.Intn(64)))
				case 3:
					o, l = big.NewInt(int64(r.Intn(100))), off
				}
				a.push(l)
				if op == model.C15CALLDATACOPY || op == model.C15CODECOPY {
					a.push([]*big.Int{bi(0), bi(3), off}[r.Intn(3)])
				} else if op == model.C15RETURNDATACOPY {
					a.pushU(0)
				}
				a.push(o).op(op)
				body := a.b
				pre := model.C15ExecIn(body, e.input, 1000000, nil)
				code := body
				switch {
				case variant < 2 && pre.Err != "":
					e.bad, e.why = true, fmt.Sprintf("reference rejects a zero-length access (%s): %s", pre.Err, disasm(body))
					return
				case variant >= 2 && pre.Err == "":
					e.bad, e.why = true, "reference accepts an unaffordable access: "+disasm(body)
					return
				case variant < 2 && !endsInHalt(body):
					code = append(append(append([]byte{}, body...), model.C15MSIZE), epilogue(len(pre.Stack)+1, len(pre.Mem))...)
					if t, _, ok := completeTight(body, e.input); ok && r.Intn(2) == 0 {
						code = t
					}
				}
				if variant < 2 {
					e.cnt["memory_offset_cases_affordable"]++
					e.tallyMem(pre)
				} else {
					e.cnt["memory_offset_cases_unaffordable"]++
				}
				v, want, _ := e.compare(e.freshAddr(), code, 1000000, nil, true, model.C15Name(op))
				e.c.Evals(1)
				e.tally(want)
				if v.class != "" {
					v.wit.Operands = []string{"0x" + o.Text(16), "0x" + l.Text(16)}
					if variant < 2 && (strings.HasPrefix(v.class, "gas-mismatch:") || strings.HasPrefix(v.class, "result-mismatch:") || strings.HasPrefix(v.class, "unexpected-error:")) {
						v.msg = "zero-length access at offset 0x" + o.Text(16) + " must neither expand memory nor cost anything: " + v.msg
					}
					e.c.Violation(v.class, v.msg, v.wit)
					return
				}
			}
		}
	}
}
