// Package c15: every EVM computational opcode computes its specified 256-bit function, never
// disturbs other stack items and charges the specified gas; memory/storage read back what was
// written.
//
// The REAL interpreter is driven through core/vm/runtime (runtime.Call, and runtime.Execute for a
// share of the programs) with the configuration the repository's own tests use
// (params.InitNetworkId(NetworkIdForTestCase), runtime defaults = Istanbul jump table). Every
// generated program ends in an epilogue that stores the WHOLE final stack behind the used memory
// and RETURNs memory+stack, so the observation is the return data and the left-over gas.
// Oracle: model.C15Exec, an independent math/big interpreter with a hand-typed Istanbul gas table.
//
// Memory: the active memory size (MSIZE) and the expansion gas of every memory-touching opcode are
// judged by the memory programs of mem.go; since the epilogue above expands memory itself, bodies
// are also completed by tightEpilogue, under which the gas of the whole program is exact.
package c15

import (
	"bytes"
	"encoding/hex"
	"fmt"
	"math/big"
	"math/rand"
	"sort"
	"strings"

	"verif/kit"
	"verif/model"

	"github.com/youchainhq/go-youchain/common"
	"github.com/youchainhq/go-youchain/core/state"
	"github.com/youchainhq/go-youchain/core/types"
	"github.com/youchainhq/go-youchain/core/vm/runtime"
	"github.com/youchainhq/go-youchain/params"
	"github.com/youchainhq/go-youchain/youdb"
)

func init() { kit.Register("C15.ops", run) }

const (
	gasPlenty  = uint64(10000000) // far above anything a generated program needs
	maxBodyOps = 64
)

var (
	two256 = new(big.Int).Lsh(big.NewInt(1), 256)
	two255 = new(big.Int).Lsh(big.NewInt(1), 255)
	two64  = new(big.Int).Lsh(big.NewInt(1), 64)
	max256 = new(big.Int).Sub(two256, big.NewInt(1))
)

func bi(x int64) *big.Int { return big.NewInt(x) }
func add(a *big.Int, d int64) *big.Int {
	return new(big.Int).Mod(new(big.Int).Add(a, big.NewInt(d)), two256)
}
func fromHex(s string) *big.Int { v, _ := new(big.Int).SetString(s, 16); return v }

// boundary operand set: used exhaustively (every tuple) for every opcode.
var boundary = []*big.Int{
	bi(0), bi(1), bi(2), bi(3), bi(7), bi(8), bi(30), bi(31), bi(32), bi(33), bi(255), bi(256), bi(257),
	two64, add(two64, 1), // 2^64+1: low 64 bits look like a small shift / index
	add(two255, -1), two255, add(two255, 1), // max positive, min negative, min negative + 1
	add(two256, -2), max256, // -2, -1
	fromHex("0102030405060708090a0b0c0d0e0f101112131415161718191a1b1c1d1e1f20"), // all bytes distinct, positive
	fromHex("8182838485868788898a8b8c8d8e8f909192939495969798999a9b9c9d9e9fa0"), // all bytes distinct, negative
	fromHex("00000000000000000000000000000000ffffffffffffffffffffffffffffffff"), // 2^128-1
}

var compOps []byte // the computational opcodes, ascending

var smallFirst = map[byte]bool{model.C15SHL: true, model.C15SHR: true, model.C15SAR: true, model.C15BYTE: true, model.C15SIGNEXTEND: true}

func init() {
	for op := range model.C15OpNames {
		compOps = append(compOps, op)
	}
	sort.Slice(compOps, func(i, j int) bool { return compOps[i] < compOps[j] })
}

// ---- assembling -------------------------------------------------------------------------------

type asm struct{ b []byte }

func (a *asm) op(o byte) *asm { a.b = append(a.b, o); return a }

// pushN emits PUSHn with v left-padded to n bytes (n >= minimal length of v, 1..32).
func (a *asm) pushN(v *big.Int, n int) *asm {
	raw := v.Bytes()
	if n < len(raw) {
		n = len(raw)
	}
	if n == 0 {
		n = 1
	}
	a.b = append(a.b, byte(model.C15PUSH1+n-1))
	a.b = append(a.b, make([]byte, n-len(raw))...)
	a.b = append(a.b, raw...)
	return a
}
func (a *asm) push(v *big.Int) *asm    { return a.pushN(v, 0) }
func (a *asm) pushU(v uint64) *asm     { return a.pushN(new(big.Int).SetUint64(v), 0) }
func (a *asm) append(code []byte) *asm { a.b = append(a.b, code...); return a }

// epilogue stores the whole stack (depth items, top first) behind memLen bytes of memory and
// returns memory + stack.
func epilogue(depth, memLen int) []byte {
	a := &asm{}
	for j := 0; j < depth; j++ {
		a.pushU(uint64(memLen + 32*j)).op(model.C15MSTORE)
	}
	a.pushU(uint64(memLen + 32*depth)).pushU(0).op(model.C15RETURN)
	return a.b
}

func disasm(code []byte) string {
	var sb strings.Builder
	for pc := 0; pc < len(code); pc++ {
		op := code[pc]
		if pc > 0 {
			sb.WriteByte(' ')
		}
		sb.WriteString(model.C15Name(op))
		if op >= model.C15PUSH1 && op <= model.C15PUSH32 {
			n := int(op-model.C15PUSH1) + 1
			end := pc + 1 + n
			if end > len(code) {
				end = len(code)
			}
			sb.WriteString(" 0x" + hex.EncodeToString(code[pc+1:end]))
			pc += n
		}
	}
	return sb.String()
}

// ---- the system under observation ------------------------------------------------------------------

type env struct {
	c     *kit.Ctx
	st    *state.StateDB
	cfg   *runtime.Config
	n     uint64 // programs run on this state
	addrN uint64
	last  outcome // what the real interpreter did in the latest compare()
	input []byte  // call data of the programs run next (nil outside the memory phase)
	logN  int     // LOGn records the state held before the latest call
	bad   bool    // reference/harness problem: case must end inconclusive
	why   string
	ops   [256]int64
	mem   [len(model.C15MemSits)][10]int64 // memory accesses of program bodies by situation and opcode group
	cnt   map[string]int
	nsamp int
}

// sample records a case for the evidence file. The orchestrator shows the first sample of each
// child, so the kind a child records first rotates with its batch index (0 boundary, 1 random
// tuple, 2 random program).
func (e *env) sample(kind int, v map[string]interface{}) {
	if e.nsamp == 0 && kind != e.c.Batch%3 {
		return
	}
	if e.nsamp < 3 {
		e.c.Sample(v)
	}
	e.nsamp++
}

func newEnv(c *kit.Ctx) *env {
	e := &env{c: c, cnt: map[string]int{}}
	e.reset()
	return e
}

func (e *env) reset() {
	st, err := state.New(common.Hash{}, common.Hash{}, common.Hash{}, state.NewDatabase(youdb.NewMemDatabase()))
	if err != nil {
		panic(err)
	}
	e.st = st
	// EVMConfig left nil: runtime.setDefaults installs params.Versions[YouCurrentVersion] and its
	// jump table on the first call, exactly as in the repository's runtime tests.
	e.cfg = &runtime.Config{State: st, Time: big.NewInt(1600000000), BlockNumber: big.NewInt(1), Origin: common.HexToAddress("0x00000000000000000000000000000000000c15aa")}
	e.n = 0
	e.logN = 0
}

func (e *env) freshAddr() common.Address {
	e.addrN++
	var a common.Address
	a[0] = 0xc1
	a[1] = 0x5c
	for i := 0; i < 8; i++ {
		a[common.AddressLength-1-i] = byte(e.addrN >> (8 * uint(i)))
	}
	return a
}

type outcome struct {
	ret  []byte
	left uint64
	err  error
	pan  interface{}
	logs []*types.Log // records added by this call (after its own revert, if any)
}

func (e *env) call(addr common.Address, code []byte, gas uint64) (o outcome) {
	e.n++
	e.st.SetCode(addr, code)
	e.cfg.GasLimit = gas
	o.pan = kit.Guard(func() {
		ret, left, err := runtime.Call(addr, e.input, e.cfg)
		o.ret, o.left, o.err = append([]byte{}, ret...), left, err
	})
	if o.pan == nil {
		all := e.st.GetLogs(common.Hash{})
		if len(all) > e.logN {
			o.logs = all[e.logN:]
		}
		e.logN = len(all)
	} else {
		kit.Guard(func() { e.logN = len(e.st.GetLogs(common.Hash{})) })
	}
	return
}

func (e *env) execute(code []byte, gas uint64) (o outcome) {
	cfg := &runtime.Config{Time: big.NewInt(1600000000), BlockNumber: big.NewInt(1), GasLimit: gas, EVMConfig: e.cfg.EVMConfig}
	o.pan = kit.Guard(func() {
		ret, _, err := runtime.Execute(code, e.input, cfg)
		o.ret, o.err = append([]byte{}, ret...), err
	})
	return
}

type witness struct {
	Kind     string   `json:"kind"`
	Op       string   `json:"op,omitempty"`
	Operands []string `json:"operands_top_first,omitempty"`
	Code     string   `json:"code"`
	Input    string   `json:"calldata,omitempty"`
	Asm      string   `json:"asm"`
	Gas      uint64   `json:"gas_limit"`
	WantRet  string   `json:"want_return"`
	GotRet   string   `json:"got_return"`
	WantGas  uint64   `json:"want_gas_used"`
	GotGas   uint64   `json:"got_gas_used"`
	Err      string   `json:"error,omitempty"`
	Panic    string   `json:"panic,omitempty"`
	Note     string   `json:"note,omitempty"`
}

func panicClass(p interface{}) string {
	s := fmt.Sprint(p)
	if strings.Contains(s, "aggressive pool check") {
		return "intpool-sanitizer-fired"
	}
	return "evm-panic"
}

// verdict of one comparison: "" = agrees.
type verdict struct {
	class string
	msg   string
	wit   witness
}

// compare runs code on the real interpreter and the reference and compares return data, error
// status and (when gasChecked) gas used. tag is appended to violation classes (opcode name or
// "program"). firstDiffWord receives the index of the first differing 32-byte word (-1: none).
func (e *env) compare(addr common.Address, code []byte, gas uint64, storage map[[32]byte][32]byte, gasChecked bool, tag string) (v verdict, want *model.C15Out, diffWord int) {
	want = model.C15ExecIn(code, e.input, gas, storage)
	got := e.call(addr, code, gas)
	e.last = got
	diffWord = -1
	// the witness is only rendered when something is wrong (hex/disassembly of every program is costly)
	w := func() witness {
		w := witness{Kind: tag, Code: hex.EncodeToString(code), Input: hex.EncodeToString(e.input), Asm: disasm(code), Gas: gas, WantRet: hex.EncodeToString(want.Ret), GotRet: hex.EncodeToString(got.ret),
			WantGas: want.GasUsed, GotGas: gas - got.left}
		if got.err != nil {
			w.Err = got.err.Error()
		}
		if got.pan != nil {
			w.Panic = fmt.Sprint(got.pan)
		}
		return w
	}
	if got.pan != nil {
		return verdict{panicClass(got.pan), fmt.Sprintf("interpreter panicked: %v", got.pan), w()}, want, diffWord
	}
	if want.Err != "" {
		// reference says exceptional halt: the real interpreter must fail too and keep no gas
		if got.err == nil {
			return verdict{"exceptional-halt-missed:" + tag, fmt.Sprintf("specification: %s at pc %d; interpreter returned success with %d bytes", want.Err, want.ErrPC, len(got.ret)), w()}, want, diffWord
		}
		if got.left != 0 {
			return verdict{"exceptional-halt-keeps-gas:" + tag, fmt.Sprintf("specification: %s consumes all gas; %d gas left", want.Err, got.left), w()}, want, diffWord
		}
		if len(got.logs) != 0 {
			return verdict{"log-survives-failure:" + tag, fmt.Sprintf("specification: %s discards the frame's effects; %d LOG record(s) remain in the state", want.Err, len(got.logs)), w()}, want, diffWord
		}
		return verdict{}, want, diffWord
	}
	if want.Reverted {
		// REVERT: signalled as such, output = the chosen memory slice, unused gas kept, no effects
		if got.err == nil {
			return verdict{"revert-not-signalled:" + tag, fmt.Sprintf("specification: the program halts by REVERT (%d bytes of output); the interpreter reports a normal halt", len(want.Ret)), w()}, want, diffWord
		}
		if !strings.Contains(got.err.Error(), "reverted") {
			return verdict{"unexpected-error:" + tag, fmt.Sprintf("valid program (reference: REVERT, %d gas of %d) failed: %v", want.GasUsed, gas, got.err), w()}, want, diffWord
		}
		if len(got.logs) != 0 {
			return verdict{"log-survives-failure:" + tag, fmt.Sprintf("specification: REVERT discards the frame's effects; %d LOG record(s) remain in the state", len(got.logs)), w()}, want, diffWord
		}
	} else if got.err != nil {
		return verdict{"unexpected-error:" + tag, fmt.Sprintf("valid program (reference: normal halt, %d gas of %d) failed: %v", want.GasUsed, gas, got.err), w()}, want, diffWord
	}
	if !want.Reverted {
		if d := diffLogs(got.logs, want.Logs); d != "" {
			return verdict{"log-mismatch:" + tag, "LOG records differ from the reference: " + d, w()}, want, diffWord
		}
	}
	if !bytes.Equal(got.ret, want.Ret) {
		n := len(want.Ret)
		if len(got.ret) < n {
			n = len(got.ret)
		}
		diffWord = n / 32
		for i := 0; i < n; i++ {
			if got.ret[i] != want.Ret[i] {
				diffWord = i / 32
				break
			}
		}
		return verdict{"result-mismatch:" + tag, fmt.Sprintf("return data differs from the reference at word %d (of %d): got %s want %s", diffWord, len(want.Ret)/32,
			wordAt(got.ret, diffWord), wordAt(want.Ret, diffWord)), w()}, want, diffWord
	}
	if gasChecked && gas-got.left != want.GasUsed {
		return verdict{"gas-mismatch:" + tag, fmt.Sprintf("gas used %d, specified %d (difference %d)", gas-got.left, want.GasUsed, int64(gas-got.left)-int64(want.GasUsed)), w()}, want, diffWord
	}
	return verdict{}, want, diffWord
}

// diffLogs compares the LOG records the call left in the state with the reference's ("" = equal).
func diffLogs(got []*types.Log, want []model.C15Log) string {
	if len(got) != len(want) {
		return fmt.Sprintf("%d record(s), specified %d", len(got), len(want))
	}
	for i, g := range got {
		w := want[i]
		if len(g.Topics) != len(w.Topics) {
			return fmt.Sprintf("record %d: %d topics, specified %d", i, len(g.Topics), len(w.Topics))
		}
		for j := range g.Topics {
			if g.Topics[j] != common.Hash(w.Topics[j]) {
				return fmt.Sprintf("record %d topic %d: %x, specified %x", i, j, g.Topics[j], w.Topics[j])
			}
		}
		if !bytes.Equal(g.Data, w.Data) {
			return fmt.Sprintf("record %d data: %x, specified %x", i, g.Data, w.Data)
		}
	}
	return ""
}

func wordAt(b []byte, i int) string {
	if i*32 >= len(b) {
		return "(absent)"
	}
	j := i*32 + 32
	if j > len(b) {
		j = len(b)
	}
	return hex.EncodeToString(b[i*32 : j])
}

// gasEdges re-runs a gas-checked program with exactly the specified gas (must halt the same way
// with the same output and nothing left) and with one unit less (must fail). The reference is
// evaluated again for the exact limit because a program may look at its gas (GAS).
func (e *env) gasEdges(code []byte, want *model.C15Out, tag string) verdict {
	if want.GasUsed == 0 {
		return verdict{}
	}
	exact := model.C15ExecIn(code, e.input, want.GasUsed, nil)
	if exact.Err != "" || exact.GasUsed != want.GasUsed || exact.Reverted != want.Reverted {
		e.bad, e.why = true, fmt.Sprintf("reference: gas consumption depends on the gas limit (%d with plenty, %q/%d with exactly that): %s", want.GasUsed, exact.Err, exact.GasUsed, disasm(code))
		return verdict{}
	}
	addr := e.freshAddr()
	limit := want.GasUsed
	got := e.call(addr, code, limit)
	w := func() witness { // rendered only when something is wrong
		w := witness{Kind: tag, Code: hex.EncodeToString(code), Input: hex.EncodeToString(e.input), Asm: disasm(code), Gas: limit, WantRet: hex.EncodeToString(exact.Ret), GotRet: hex.EncodeToString(got.ret), WantGas: want.GasUsed, GotGas: limit - got.left}
		if got.err != nil {
			w.Err = got.err.Error()
		}
		if got.pan != nil {
			w.Panic = fmt.Sprint(got.pan)
		}
		return w
	}
	if got.pan != nil {
		return verdict{panicClass(got.pan), fmt.Sprintf("interpreter panicked: %v", got.pan), w()}
	}
	e.cnt["gas_exact_limit_runs"]++
	sameHalt := got.err == nil
	if want.Reverted {
		sameHalt = got.err != nil && strings.Contains(got.err.Error(), "reverted")
	}
	if !sameHalt || !bytes.Equal(got.ret, exact.Ret) || got.left != 0 {
		return verdict{"gas-exact-limit-fails:" + tag, fmt.Sprintf("with exactly the specified gas (%d) the program must halt as specified with nothing left: err=%v left=%d same-output=%v", want.GasUsed, got.err, got.left, bytes.Equal(got.ret, exact.Ret)), w()}
	}
	limit = want.GasUsed - 1
	got = e.call(addr, code, limit)
	if got.pan != nil {
		return verdict{panicClass(got.pan), fmt.Sprintf("interpreter panicked: %v", got.pan), w()}
	}
	e.cnt["gas_minus_one_runs"]++
	if got.err == nil || strings.Contains(got.err.Error(), "reverted") {
		return verdict{"gas-undercharged:" + tag, fmt.Sprintf("with one gas less than specified (%d) the program still halts normally", want.GasUsed-1), w()}
	}
	return verdict{}
}

func (e *env) tally(o *model.C15Out) {
	for op, n := range o.OpCount {
		e.ops[op] += int64(n)
	}
	e.cnt["ev_div_or_mod_by_zero"] += o.DivByZero
	e.cnt["ev_shift_ge_256"] += o.ShiftGE256
	e.cnt["ev_signed_op_negative_operand"] += o.SignedNeg
	e.cnt["ev_exp_exponent_bytes"] += o.ExpBytes
	e.cnt["memory_readbacks_mload"] += o.MemReads
	e.cnt["storage_readbacks_sload"] += o.SLoads
}

// tallyMem counts the kinds of memory accesses of a program BODY (the reference's view of it,
// without the epilogue the harness appends): mem_<situation> over all opcodes and, for the
// situations in which a wrong access size of one opcode matters, mem_<situation>_<opcode group>
// (e.g. mem_unaligned_mstore8, mem_in_last_active_word_mstore8).
func (e *env) tallyMem(body *model.C15Out) {
	for sit := range body.MemEv {
		for g, n := range body.MemEv[sit] {
			e.mem[sit][g] += int64(n)
		}
	}
}

var perGroupSits = map[int]bool{model.C15SitUnaligned: true, model.C15SitInLastActiveWord: true, model.C15SitStraddlesEnd: true,
	model.C15SitExpandsByOneWord: true, model.C15SitFreshMemory: true, model.C15SitZeroLengthAtHugeOffset: true}

func (e *env) flushMem() {
	for sit := range e.mem {
		var total int64
		for g, n := range e.mem[sit] {
			total += n
			if n != 0 && perGroupSits[sit] {
				e.c.Count("mem_"+model.C15MemSits[sit]+"_"+model.C15MemGroups[g], int(n))
			}
		}
		if total != 0 {
			e.c.Count("mem_"+model.C15MemSits[sit], int(total))
		}
	}
	e.mem = [len(model.C15MemSits)][10]int64{}
}

func (e *env) flush() {
	c := e.c
	var push, dup, swap int64
	for op, n := range e.ops {
		if n == 0 {
			continue
		}
		b := byte(op)
		switch {
		case b >= model.C15PUSH1 && b <= model.C15PUSH32:
			push += n
		case b >= model.C15DUP1 && b <= model.C15DUP16:
			dup += n
		case b >= model.C15SWAP1 && b <= model.C15SWAP16:
			swap += n
		default:
			c.Count("op_"+model.C15Name(b), int(n))
		}
	}
	c.Count("op_PUSHn", int(push))
	c.Count("op_DUPn", int(dup))
	c.Count("op_SWAPn", int(swap))
	for k, v := range e.cnt {
		if v != 0 {
			c.Count(k, v)
		}
	}
	e.ops = [256]int64{}
	e.cnt = map[string]int{}
	e.flushMem()
}

// ---- value generators ---------------------------------------------------------------------------

func randWord(r *rand.Rand) *big.Int {
	b := make([]byte, 32)
	r.Read(b)
	return new(big.Int).SetBytes(b)
}

// genVal: a 256-bit operand from a mixture of shapes.
func genVal(r *rand.Rand) *big.Int {
	switch r.Intn(12) {
	case 0:
		return new(big.Int).Set(boundary[r.Intn(len(boundary))])
	case 1: // few set bits
		v := new(big.Int)
		for i, n := 0, 1+r.Intn(3); i < n; i++ {
			v.SetBit(v, r.Intn(256), 1)
		}
		return v
	case 2: // few cleared bits
		v := new(big.Int).Set(max256)
		for i, n := 0, 1+r.Intn(3); i < n; i++ {
			v.SetBit(v, r.Intn(256), 0)
		}
		return v
	case 3: // 2^k + d
		return add(new(big.Int).Lsh(big.NewInt(1), uint(r.Intn(256))), int64(r.Intn(3)-1))
	case 4: // small
		return big.NewInt(int64(r.Intn(300)))
	case 5: // up to 64 bits
		return new(big.Int).SetUint64(r.Uint64() >> uint(r.Intn(64)))
	case 6: // small negative
		return add(two256, -int64(1+r.Intn(300)))
	case 7: // random byte length
		b := make([]byte, 1+r.Intn(32))
		r.Read(b)
		return new(big.Int).SetBytes(b)
	case 8: // 2^64*k + small: truncation to 64 bits gives a plausible small number
		v := new(big.Int).Lsh(big.NewInt(int64(1+r.Intn(1000))), uint(64*(1+r.Intn(3))))
		return v.Add(v, big.NewInt(int64(r.Intn(300))))
	}
	return randWord(r)
}

// genSmall: shift amounts / byte indexes around the interesting thresholds.
func genSmall(r *rand.Rand) *big.Int {
	switch r.Intn(4) {
	case 0:
		return big.NewInt(int64(r.Intn(34)))
	case 1:
		return big.NewInt(int64(r.Intn(260)))
	case 2:
		return big.NewInt(int64([]int{0, 1, 7, 8, 15, 16, 29, 30, 31, 32, 33, 63, 64, 65, 127, 128, 129, 247, 248, 254, 255, 256, 257, 511, 512, 65535, 65536}[r.Intn(27)]))
	}
	return genVal(r)
}

func genTuple(r *rand.Rand, op byte) []*big.Int {
	n := model.C15Arity[op]
	a := make([]*big.Int, n)
	for i := range a {
		a[i] = genVal(r)
	}
	if smallFirst[op] && r.Intn(8) != 0 {
		a[0] = genSmall(r)
	}
	if n >= 2 {
		switch r.Intn(10) {
		case 0: // equal operands
			a[1] = new(big.Int).Set(a[0])
		case 1: // negation of each other
			a[1] = new(big.Int).Mod(new(big.Int).Neg(a[0]), two256)
		case 2: // neighbours
			a[1] = add(a[0], int64(r.Intn(3)-1))
		}
	}
	if n == 3 {
		switch r.Intn(8) {
		case 0:
			a[2] = new(big.Int).Set(a[r.Intn(2)])
		case 1:
			a[2] = big.NewInt(int64(r.Intn(5)))
		case 2: // a + b overflows 2^256 for sure
			a[0] = add(two256, -int64(1+r.Intn(1000)))
			a[1] = add(two256, -int64(1+r.Intn(1000)))
		}
	}
	if op == model.C15EXP {
		switch r.Intn(4) {
		case 0: // exponent of every byte length (gas), small base
			b := make([]byte, r.Intn(33))
			r.Read(b)
			a[1] = new(big.Int).SetBytes(b)
			a[0] = big.NewInt(int64(r.Intn(5)))
		case 1:
			a[1] = genSmall(r)
		}
	}
	return a
}

func valClass(v *big.Int) string {
	switch {
	case v.Sign() == 0:
		return "0"
	case v.Cmp(big.NewInt(1)) == 0:
		return "1"
	case v.Cmp(big.NewInt(32)) < 0:
		return "<32"
	case v.Cmp(big.NewInt(256)) < 0:
		return "<256"
	case v.Cmp(big.NewInt(256)) == 0:
		return "256"
	case v.Cmp(two64) < 0:
		return "<2^64"
	case v.Cmp(two255) < 0:
		return "pos"
	case v.Cmp(two255) == 0:
		return "min"
	case v.Cmp(max256) == 0:
		return "-1"
	}
	return "neg"
}

// ---- phase (a): single-opcode programs ----------------------------------------------------------

// singleProgram: PUSH32 s1, PUSH32 s2, operands (last operand first), OP, [range probe], epilogue.
// The expected final stack (bottom first) is s1 s2 result [probe1 probe2].
func singleProgram(op byte, args []*big.Int, s1, s2 *big.Int, probe bool, padPush bool) ([]byte, int) {
	a := &asm{}
	a.pushN(s1, 32).pushN(s2, 32)
	for i := len(args) - 1; i >= 0; i-- {
		if padPush {
			a.pushN(args[i], 32)
		} else {
			a.push(args[i])
		}
	}
	a.op(op)
	depth := 3
	if probe {
		// DUP1 ISZERO ; DUP2 PUSH32 max GT  -> [.. r, iszero(r), max > r]: exposes a result that is
		// not held as a canonical word (negative or >= 2^256 inside the implementation)
		a.op(model.C15DUP1).op(model.C15ISZERO).op(model.C15DUP1+1).pushN(max256, 32).op(model.C15GT)
		depth = 5
	}
	a.append(epilogue(depth, 0))
	return a.b, depth
}

// checkSingle evaluates one operand tuple for op. Returns false when the case must stop.
func (e *env) checkSingle(r *rand.Rand, op byte, args []*big.Int, probe, edges, viaExecute bool) bool {
	c := e.c
	name := model.C15OpNames[op]
	// the reference checks itself first
	w1, w2 := model.C15Op(op, args), model.C15OpAlt(op, args)
	e.cnt["reference_crosschecks"]++
	if w1.Cmp(w2) != 0 || w1.Sign() < 0 || w1.Cmp(two256) >= 0 {
		e.bad, e.why = true, fmt.Sprintf("reference formulations disagree on %s%v: %x vs %x", name, hexes(args), w1, w2)
		return false
	}
	s1, s2 := randWord(r), randWord(r)
	code, depth := singleProgram(op, args, s1, s2, probe, r.Intn(2) == 0)
	v, want, diffWord := e.compare(e.freshAddr(), code, gasPlenty, nil, true, name)
	c.Evals(1)
	e.tally(want)
	if want.Err != "" || len(want.Stack) != 0 || len(want.Ret) != 32*depth {
		e.bad, e.why = true, fmt.Sprintf("generated single-op program is not valid for the reference: %s (%s)", want.Err, disasm(code))
		return false
	}
	// the word of the result in the returned stack image (top first): index depth-3
	if res := new(big.Int).SetBytes(want.Ret[32*(depth-3) : 32*(depth-2)]); res.Cmp(w1) != 0 {
		e.bad, e.why = true, fmt.Sprintf("reference interpreter and reference function disagree on %s%v", name, hexes(args))
		return false
	}
	e.cnt["sentinel_words_checked"] += 2
	if v.class != "" {
		v.wit.Op, v.wit.Operands = name, hexes(args)
		if strings.HasPrefix(v.class, "result-mismatch:") {
			// which part of the returned stack image differs? words depth-2 and depth-1 are the sentinels
			if diffWord >= depth-2 || len(v.wit.GotRet) != len(v.wit.WantRet) {
				v.class = "stack-disturbed:" + name
				v.msg = "a stack item below the operands changed (or the stack height is wrong): " + v.msg
			} else {
				v.class = "opcode-result:" + name
				v.msg = fmt.Sprintf("%s%v: %s", name, hexes(args), v.msg)
			}
		}
		c.Violation(v.class, v.msg, v.wit)
		return false
	}
	if edges {
		if v := e.gasEdges(code, want, name); v.class != "" {
			v.wit.Op, v.wit.Operands = name, hexes(args)
			c.Violation(v.class, v.msg, v.wit)
			return false
		}
	}
	if viaExecute {
		got := e.execute(code, gasPlenty)
		e.cnt["runs_via_runtime_Execute"]++
		if got.pan != nil || got.err != nil || !bytes.Equal(got.ret, want.Ret) {
			w := witness{Kind: name, Op: name, Operands: hexes(args), Code: hex.EncodeToString(code), Asm: disasm(code), Gas: gasPlenty, WantRet: hex.EncodeToString(want.Ret), GotRet: hex.EncodeToString(got.ret), Note: "through runtime.Execute"}
			cl := "opcode-result:" + name
			if got.pan != nil {
				cl, w.Panic = panicClass(got.pan), fmt.Sprint(got.pan)
			} else if got.err != nil {
				cl, w.Err = "unexpected-error:"+name, got.err.Error()
			}
			c.Violation(cl, fmt.Sprintf("runtime.Execute: %s%v: err=%v panic=%v got %s", name, hexes(args), got.err, got.pan, wordAt(got.ret, depth-3)), w)
			return false
		}
	}
	sig := name
	for _, a := range args {
		sig += "|" + valClass(a)
	}
	c.Sig(sig + "=>" + valClass(w1))
	return true
}

func hexes(a []*big.Int) []string {
	s := make([]string, len(a))
	for i, v := range a {
		s[i] = "0x" + v.Text(16)
	}
	return s
}

// ---- phase (b): random straight-line programs -----------------------------------------------------

type progInfo struct {
	body     []byte
	nIns     int
	feats    map[string]bool
	storage  bool
	maxDepth int
}

var storageKeys = []*big.Int{bi(0), bi(1), bi(2), max256, two255, fromHex("0102030405060708090a0b0c0d0e0f101112131415161718191a1b1c1d1e1f20")}

func genProgram(r *rand.Rand, withStorage bool) *progInfo {
	p := &progInfo{feats: map[string]bool{}, storage: withStorage}
	a := &asm{}
	d := 0
	ins := 0
	emit := func(op byte) { a.op(op); ins++ }
	pushV := func(v *big.Int) {
		n := 0
		if r.Intn(4) == 0 {
			n = len(v.Bytes()) + r.Intn(33-len(v.Bytes())) // redundant leading zero bytes
		}
		a.pushN(v, n)
		ins++
		d++
	}
	for i, n := 0, 2+r.Intn(3); i < n; i++ { // sentinels
		a.pushN(randWord(r), 32)
		ins++
		d++
	}
	target := 8 + r.Intn(maxBodyOps-8)
	memOff := func() uint64 {
		switch r.Intn(4) {
		case 0:
			return uint64(32 * r.Intn(8))
		case 1:
			return uint64(r.Intn(256))
		case 2:
			return uint64(r.Intn(2048))
		}
		return uint64([]int{0, 1, 31, 32, 33, 63, 64, 65, 1023, 1024}[r.Intn(10)])
	}
	skey := func() *big.Int {
		if r.Intn(5) == 0 {
			return genVal(r)
		}
		return storageKeys[r.Intn(len(storageKeys))]
	}
	for ins < target {
		if d > p.maxDepth {
			p.maxDepth = d
		}
		x := r.Intn(100)
		switch {
		case d < 3 || (x < 20 && d < 30):
			pushV(genVal(r))
		case x < 30 && d < 30:
			n := 1 + r.Intn(min(16, d))
			emit(byte(model.C15DUP1 + n - 1))
			d++
			p.feats["dup"] = true
			if n > 8 {
				p.feats["dup>8"] = true
			}
		case x < 38 && d >= 2:
			n := 1 + r.Intn(min(16, d-1))
			emit(byte(model.C15SWAP1 + n - 1))
			p.feats["swap"] = true
		case x < 41 && d > 4:
			emit(model.C15POP)
			d--
			p.feats["pop"] = true
		case x < 49:
			off := memOff()
			op := byte(model.C15MSTORE)
			if r.Intn(3) == 0 {
				op = model.C15MSTORE8
				p.feats["mstore8"] = true
			}
			a.pushU(off)
			ins++
			emit(op)
			d--
			p.feats["mstore"] = true
			if off%32 != 0 {
				p.feats["unaligned"] = true
			}
		case x < 55 && d < 30:
			a.pushU(memOff())
			ins++
			emit(model.C15MLOAD)
			d++
			p.feats["mload"] = true
		case x < 61 && withStorage:
			a.push(skey())
			ins++
			emit(model.C15SSTORE)
			d--
			p.feats["sstore"] = true
		case x < 66 && withStorage && d < 30:
			a.push(skey())
			ins++
			emit(model.C15SLOAD)
			d++
			p.feats["sload"] = true
		case x >= 66 && x < 69 && d < 30:
			// the active memory size becomes an operand of what follows
			emit(model.C15MSIZE)
			d++
			p.feats["msize"] = true
		default:
			op := compOps[r.Intn(len(compOps))]
			ar := model.C15Arity[op]
			if smallFirst[op] && r.Intn(10) < 7 && d >= ar-1 {
				a.push(genSmall(r))
				ins++
				d++
			}
			if d < ar {
				pushV(genVal(r))
				continue
			}
			if r.Intn(6) == 0 && d < 30 {
				// same value through two stack slots: DUP1 OP (x op x) is where aliasing bugs live
				emit(model.C15DUP1)
				d++
				p.feats["dup-then-op"] = true
			}
			if d < ar {
				continue
			}
			emit(op)
			d -= ar - 1
			p.feats["a"+fmt.Sprint(ar)] = true
		}
	}
	p.body, p.nIns = a.b, ins
	return p
}

// complete appends the epilogue that fits the reference's view of body.
func complete(body []byte, storage map[[32]byte][32]byte) ([]byte, *model.C15Out) {
	pre := model.C15Exec(body, gasPlenty, storage)
	if pre.Err != "" {
		return nil, pre
	}
	return append(append([]byte{}, body...), epilogue(len(pre.Stack), len(pre.Mem))...), pre
}

// tightEpilogue: MSIZE, then as many stack words (top first, so MSIZE lands in word 0) as fit
// are stored INTO the memory that is already active, and exactly the active memory is returned.
// Nothing here expands memory, so the gas of the whole program is the body's plus a constant that
// does not depend on how far memory was expanded: a body instruction that activates more (or
// less) memory than specified shows in the program's total gas and in word 0. Needs memLen >= 32.
func tightEpilogue(depth, memLen int) []byte {
	a := &asm{}
	a.op(model.C15MSIZE)
	depth++
	for j := 0; j < depth && 32*(j+1) <= memLen; j++ {
		a.pushU(uint64(32 * j)).op(model.C15MSTORE)
	}
	a.pushU(uint64(memLen)).pushU(0).op(model.C15RETURN)
	return a.b
}

// completeTight: body + tightEpilogue (ok = false when the reference rejects the body or the body
// leaves no active memory to put the observation in).
func completeTight(body, input []byte) (code []byte, pre *model.C15Out, ok bool) {
	pre = model.C15ExecIn(body, input, gasPlenty, nil)
	if pre.Err != "" || pre.Reverted || pre.Steps == 0 || len(pre.Mem) < 32 || endsInHalt(body) {
		return nil, pre, false
	}
	return append(append([]byte{}, body...), tightEpilogue(len(pre.Stack), len(pre.Mem))...), pre, true
}

// endsInHalt: the last instruction of a straight-line body is RETURN/REVERT/STOP.
func endsInHalt(body []byte) bool {
	c := cuts(body)
	if len(c) == 0 {
		return false
	}
	start := 0
	if len(c) >= 2 {
		start = c[len(c)-2]
	}
	op := body[start]
	return op == model.C15RETURN || op == model.C15REVERT || op == model.C15STOP
}

// instruction boundaries of a straight-line body
func cuts(body []byte) []int {
	var c []int
	for pc := 0; pc < len(body); {
		op := body[pc]
		pc++
		if op >= model.C15PUSH1 && op <= model.C15PUSH32 {
			pc += int(op-model.C15PUSH1) + 1
		}
		c = append(c, pc)
	}
	return c
}

// minimise finds the shortest prefix of body on which the interpreter already disagrees.
func (e *env) minimise(body []byte, storage map[[32]byte][32]byte, gasChecked bool) (verdict, bool) {
	if len(storage) != 0 {
		return verdict{}, false // prefixes would need the earlier program's account
	}
	for _, cut := range cuts(body) {
		code, pre := complete(body[:cut], storage)
		if pre.Err != "" {
			return verdict{}, false
		}
		v, _, _ := e.compare(e.freshAddr(), code, gasPlenty, storage, gasChecked, "program")
		if v.class != "" {
			v.wit.Note = fmt.Sprintf("shortest failing prefix: %d of %d body bytes; last instruction of the prefix: %s", cut, len(body), lastIns(body[:cut]))
			return v, true
		}
	}
	return verdict{}, false
}

func lastIns(body []byte) string {
	c := cuts(body)
	start := 0
	if len(c) >= 2 {
		start = c[len(c)-2]
	}
	return disasm(body[start:])
}

// ---- the workload -----------------------------------------------------------------------------

type caseDef struct {
	id   string
	kind int // 0 boundary, 1 random tuples, 2 random programs, 3 hostile memory offsets, 4 memory programs
	op   byte
	i0   int
}

func run(c *kit.Ctx) {
	params.InitNetworkId(params.NetworkIdForTestCase)

	c.Begin("selfcheck", nil)
	if err := model.C15SelfCheck(); err != nil {
		c.Note("C15 reference evaluator fails its published/hand vectors: " + err.Error())
		c.EndInconclusive("reference evaluator self-check failed: " + err.Error())
		return
	}
	if c.Mode == "intpool" && !poolSanitizer {
		c.EndInconclusive("intpool job was built without the VERIFY_EVM_INTEGER_POOL tag")
		return
	}
	if c.Mode != "intpool" && poolSanitizer {
		c.EndInconclusive("non-intpool job was built with the VERIFY_EVM_INTEGER_POOL tag")
		return
	}
	c.End("")

	var cases []caseDef
	// (a1) boundary tuples, exhaustive in both tiers
	for _, op := range compOps {
		switch model.C15Arity[op] {
		case 1, 2:
			cases = append(cases, caseDef{id: "b/" + model.C15OpNames[op], kind: 0, op: op, i0: -1})
		case 3:
			for i := range boundary {
				cases = append(cases, caseDef{id: fmt.Sprintf("b/%s/%d", model.C15OpNames[op], i), kind: 0, op: op, i0: i})
			}
		}
	}
	// (a2) random tuples
	for k, n := 0, c.N(600, 10000); k < n; k++ {
		cases = append(cases, caseDef{id: fmt.Sprintf("r/%d", k), kind: 1})
	}
	// (b) random programs
	for k, n := 0, c.N(2200, 36000); k < n; k++ {
		cases = append(cases, caseDef{id: fmt.Sprintf("p/%d", k), kind: 2})
	}
	// (c) memory opcodes with unaffordable offsets
	cases = append(cases, caseDef{id: "m/offsets", kind: 3})
	// (d) memory programs: active memory size and expansion gas of every memory-touching opcode
	for k, n := 0, c.N(320, 5400); k < n; k++ {
		cases = append(cases, caseDef{id: fmt.Sprintf("mem/%d", k), kind: 4})
	}

	e := newEnv(c)
	for i, cd := range cases {
		if !c.Mine(i, cd.id) {
			continue
		}
		if e.n > 3000 {
			e.reset()
		}
		e.bad = false
		c.Begin(cd.id, map[string]interface{}{"kind": cd.kind, "op": model.C15OpNames[cd.op], "first_operand_index": cd.i0})
		r := c.Rand(cd.id)
		switch cd.kind {
		case 0:
			e.runBoundary(r, cd)
		case 1:
			e.runTuples(r, c.N(1000, 1000))
		case 2:
			e.runPrograms(r, 200)
		case 3:
			if e.runOffsets(r) && !e.bad {
				e.runMemOffsets(r)
			}
		case 4:
			e.runMemPrograms(r, 150)
		}
		e.flush()
		if e.bad {
			c.Note("harness/reference problem: " + e.why)
			c.EndInconclusive(e.why)
			continue
		}
		c.End("")
	}
}

func (e *env) runBoundary(r *rand.Rand, cd caseDef) {
	n0 := e.n
	defer func() { e.count(n0) }()
	op := cd.op
	k := 0
	try := func(args []*big.Int) bool {
		k++
		e.cnt["single_boundary_tuples"]++
		return e.checkSingle(r, op, args, k%4 == 0, k%8 == 1, k%64 == 2)
	}
	switch model.C15Arity[op] {
	case 1:
		for _, a := range boundary {
			if !try([]*big.Int{a}) {
				return
			}
		}
	case 2:
		for _, a := range boundary {
			for _, b := range boundary {
				if !try([]*big.Int{a, b}) {
					return
				}
			}
		}
	case 3:
		a := boundary[cd.i0]
		for _, b := range boundary {
			for _, m := range boundary {
				if !try([]*big.Int{a, b, m}) {
					return
				}
			}
		}
	}
	if k > 0 {
		e.sample(0, map[string]interface{}{"kind": "boundary tuples, exhaustive", "op": model.C15OpNames[op], "tuples": k, "boundary_words": hexes(boundary)})
	}
}

// count adds the number of programs run since n0 (survives state resets only within one case; a
// case never resets).
func (e *env) count(n0 uint64) {
	e.cnt["programs_run_on_real_interpreter"] += int(e.n - n0)
	if poolSanitizer {
		e.cnt["programs_under_intpool_sanitizer"] += int(e.n - n0)
	}
}

func (e *env) runTuples(r *rand.Rand, n int) {
	n0 := e.n
	defer func() { e.count(n0) }()
	for k := 0; k < n; k++ {
		op := compOps[r.Intn(len(compOps))]
		args := genTuple(r, op)
		e.cnt["single_random_tuples"]++
		if !e.checkSingle(r, op, args, k%4 == 0, k%8 == 1, k%32 == 2) {
			return
		}
		if k == 0 {
			e.sample(1, map[string]interface{}{"kind": "random tuple", "op": model.C15OpNames[op], "operands_top_first": hexes(args), "result": "0x" + model.C15Op(op, args).Text(16)})
		}
	}
}

func (e *env) runPrograms(r *rand.Rand, n int) {
	c := e.c
	n0 := e.n
	defer func() { e.count(n0) }()
	feats := map[string]bool{}
	var prevAddr common.Address
	var prevStorage map[[32]byte][32]byte
	for k := 0; k < n; k++ {
		withStorage := r.Intn(4) == 0
		p := genProgram(r, withStorage)
		addr := e.freshAddr()
		var storage map[[32]byte][32]byte
		if withStorage && prevStorage != nil && r.Intn(2) == 0 {
			// a later call into the same account reads back what an earlier program stored
			addr, storage = prevAddr, prevStorage
			e.cnt["programs_on_account_with_earlier_storage"]++
		}
		code, pre := complete(p.body, storage)
		if pre.Err != "" {
			e.bad, e.why = true, fmt.Sprintf("generated program invalid for the reference (%s at %d): %s", pre.Err, pre.ErrPC, disasm(p.body))
			return
		}
		gasChecked := !pre.Storage0
		v, want, _ := e.compare(addr, code, gasPlenty, storage, gasChecked, "program")
		c.Evals(1)
		e.tally(want)
		e.cnt["random_programs"]++
		e.cnt["random_program_instructions"] += p.nIns
		e.cnt["final_stack_words_compared"] += len(pre.Stack)
		e.cnt["final_memory_bytes_compared"] += len(pre.Mem)
		if gasChecked {
			e.cnt["random_programs_gas_checked"]++
		} else {
			// storage opcodes are judged on read-back only; their EIP-2200 price is observed, not judged
			e.cnt["random_programs_with_storage"]++
			if e.last.err == nil && e.last.pan == nil {
				if gasPlenty-e.last.left == want.GasUsed {
					e.cnt["info_storage_program_gas_equals_eip2200"]++
				} else {
					e.cnt["info_storage_program_gas_differs_eip2200"]++
				}
			}
		}
		c.Max("max_program_stack_depth", int64(p.maxDepth))
		if v.class != "" {
			// a wrong active memory size (the body looks at MSIZE) is named after the instruction that
			// produced it; anything else is cut to the shortest failing prefix as before
			var mv verdict
			if gasChecked && len(storage) == 0 {
				mv = e.minimiseMem(p.body, nil, v)
			}
			if strings.HasPrefix(mv.class, "memory-") {
				v = mv
			} else if mv, ok := e.minimise(p.body, storage, gasChecked); ok {
				mv.wit.Note += "; full program: " + hex.EncodeToString(code)
				v = mv
			}
			c.Violation(v.class, v.msg, v.wit)
			return
		}
		if gasChecked && k%8 == 1 {
			if v := e.gasEdges(code, want, "program"); v.class != "" {
				c.Violation(v.class, v.msg, v.wit)
				return
			}
		}
		e.tallyMem(pre)
		if gasChecked && k%4 == 2 {
			// the same body under the tight epilogue: MSIZE observed, and no expansion by the harness, so
			// the total gas is sensitive to the active memory size the body really produced
			if tight, _, ok := completeTight(p.body, nil); ok {
				v, _, _ := e.compare(e.freshAddr(), tight, gasPlenty, nil, true, "program")
				e.cnt["mem_exact_gas_programs"]++
				e.cnt["random_programs_exact_gas"]++
				if v.class != "" {
					v = e.minimiseMem(p.body, nil, v)
					c.Violation(v.class, v.msg, v.wit)
					return
				}
			}
		}
		if withStorage {
			prevAddr, prevStorage = addr, want.Storage
		}
		for f := range p.feats {
			feats[f] = true
			e.cnt["progfeat_"+f]++
		}
		var fs []string
		for f := range p.feats {
			fs = append(fs, f)
		}
		sort.Strings(fs)
		c.Sig(fmt.Sprintf("P len%d depth%d %v", p.nIns/8, p.maxDepth/4, fs))
		if k == 0 {
			e.sample(2, map[string]interface{}{"kind": "random program", "asm": disasm(p.body), "returned_words": len(want.Ret) / 32, "gas_used": want.GasUsed, "gas_checked": gasChecked})
		}
	}
}

// runOffsets: MLOAD/MSTORE/MSTORE8 at offsets whose memory expansion cannot be paid must end in
// an exceptional halt (all gas gone), never in a result and never in a crash.
func (e *env) runOffsets(r *rand.Rand) bool {
	n0 := e.n
	defer func() { e.count(n0) }()
	offs := []*big.Int{
		fromHex("ffffffff"), fromHex("100000000"), fromHex("ffffffffe0"), fromHex("ffffffffe1"), fromHex("ffffffffff"),
		fromHex("7fffffffffffffff"), fromHex("8000000000000000"), fromHex("ffffffffffffffdf"), fromHex("ffffffffffffffe0"), fromHex("ffffffffffffffe1"),
		fromHex("ffffffffffffffff"), two64, add(two64, 1), add(two64, 32), new(big.Int).Lsh(big.NewInt(1), 128), add(two255, -1), two255, add(two256, -33), add(two256, -32), add(two256, -1),
	}
	for i := 0; i < 20; i++ {
		offs = append(offs, genVal(r))
	}
	for _, op := range []byte{model.C15MLOAD, model.C15MSTORE, model.C15MSTORE8} {
		for _, off := range offs {
			a := &asm{}
			a.pushN(randWord(r), 32) // sentinel
			depth := 1
			if op != model.C15MLOAD {
				a.push(genVal(r))
			}
			a.push(off).op(op)
			if op == model.C15MLOAD {
				depth = 2
			}
			pre := model.C15Exec(a.b, 1000000, nil)
			code := a.b
			if pre.Err == "" { // an affordable random offset: complete into a normal program
				code = append(code, epilogue(depth, len(pre.Mem))...)
				e.cnt["memory_offset_cases_affordable"]++
			} else {
				e.cnt["memory_offset_cases_unaffordable"]++
			}
			v, want, _ := e.compare(e.freshAddr(), code, 1000000, nil, true, model.C15Name(op))
			e.c.Evals(1)
			e.tally(want)
			if v.class != "" {
				v.wit.Operands = []string{"0x" + off.Text(16)}
				e.c.Violation(v.class, v.msg, v.wit)
				return false
			}
		}
	}
	return true
}
