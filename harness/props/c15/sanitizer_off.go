//go:build !VERIFY_EVM_INTEGER_POOL
// +build !VERIFY_EVM_INTEGER_POOL

package c15

const poolSanitizer = false
