// Package props links every property workload into vchild.
package props

import (
	_ "verif/props/c13"
)
