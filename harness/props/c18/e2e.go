package c18

import (
	"errors"
	"fmt"
	"math/big"
	"math/rand"
	"os"
	"runtime/pprof"
	"sort"
	"strconv"
	"sync"
	"sync/atomic"
	"time"

	"verif/kit"

	"github.com/youchainhq/go-youchain/common"
	"github.com/youchainhq/go-youchain/core/types"
	"github.com/youchainhq/go-youchain/event"
	"github.com/youchainhq/go-youchain/logging"
	"github.com/youchainhq/go-youchain/you/downloader"
	"github.com/youchainhq/go-youchain/youdb"
)

// End to end: the real Downloader (New / RegisterPeer / Synchronise / Deliver*) in full-sync mode,
// scripted Peer implementations serving one source chain, and a recording BlockChain on the
// importer side. Wall-clock is involved only through the downloader's own timers (request TTL,
// 100 ms tick); the oracle never reads a clock, and a fired watchdog means inconclusive.

func init() { kit.Register("C18.e2e", runE2E) }

var e2eKnobsOnce sync.Once

// e2eKnobs shrinks the downloader's tunables (plain package vars, as geth's own downloader tests
// do) once per process so that short chains exercise the skeleton fill, throttling, the per-call
// result cap and request expiry. Constant for the whole process: running downloaders read them.
// logRing keeps the downloader's last log messages (diagnostics for notes only, never an oracle).
var logRing struct {
	mu   sync.Mutex
	msgs []string
}

func logTail(n int) []string {
	logRing.mu.Lock()
	defer logRing.mu.Unlock()
	m := logRing.msgs
	if len(m) > n {
		m = m[len(m)-n:]
	}
	return append([]string(nil), m...)
}

func e2eKnobs() {
	e2eKnobsOnce.Do(func() {
		logLevel := logging.LvlDebug
		if os.Getenv("VERIF_C18_LOGTAIL") != "" {
			logLevel = logging.LvlTrace
		}
		logging.Root().SetHandler(logging.FuncHandler(func(r *logging.Record) error {
			if r.Lvl == logging.LvlTrace {
				ledgerObserve(r) // event accounting of the deadlock oracle (deadlock.go)
			}
			if r.Lvl > logLevel || r.Msg == "Peer throughput measurements updated" {
				return nil
			}
			logRing.mu.Lock()
			logRing.msgs = append(logRing.msgs, fmt.Sprintf("%s %s %v", r.Time.Format("05.000"), r.Msg, r.Ctx))
			if len(logRing.msgs) > 800 {
				logRing.msgs = append([]string(nil), logRing.msgs[400:]...)
			}
			logRing.mu.Unlock()
			return nil
		}))
		downloader.MaxHeaderFetch = 24
		downloader.MaxSkeletonSize = 6
		downloader.MaxBlockFetch = 16
		downloader.VerifSetCacheLimits(64, 0)
		downloader.VerifSetMaxResultsProcess(20)
		downloader.VerifSetProcessLimits(40, 0)
		downloader.VerifSetTimings(400*time.Millisecond, 500*time.Millisecond, 1500*time.Millisecond, 20*time.Millisecond)
	})
}

type e2eSpec struct {
	Chain       chainSpec `json:"chain"`
	Peers       int       `json:"peers"`
	Profiles    []int     `json:"body_profiles"`
	HdrProfiles []int     `json:"header_profiles"` // 0 honest 1 empty 2 wrong 3 stall 4 short
	Have        []int     `json:"have"`            // how many blocks of the source chain each peer has
	PreSynced   int       `json:"presynced"`
	FaultSyncs  int       `json:"fault_syncs"`
	MasterFault bool      `json:"master_may_be_faulty"`
	Honest      int       `json:"honest"`
	Seeds       []int64   `json:"seeds"`
}

// ---- recording BlockChain

type recChain struct {
	mu      sync.Mutex
	ch      *chain
	rc      *resultChecker // expects the next block of the CURRENT sync
	top     int            // blocks of the source chain the importer has (ids < top)
	fresh   bool           // no block of the current sync has arrived yet
	overlap int            // blocks handed over again by a later sync whose origin was below the head
	bad     *badResult
	calls   int
	maxCall int
	db      youdb.Database
}

var errRecReject = errors.New("recording chain: block rejected")

func (c *recChain) headLocked() *types.Header {
	if c.top == 0 {
		return c.ch.genesis
	}
	return c.ch.hdrs[c.top-1]
}
func (c *recChain) height() int {
	c.mu.Lock()
	defer c.mu.Unlock()
	return c.top
}
func (c *recChain) CurrentHeader() *types.Header {
	c.mu.Lock()
	defer c.mu.Unlock()
	return c.headLocked()
}
func (c *recChain) CurrentBlock() *types.Block { return types.NewBlockWithHeader(c.CurrentHeader()) }
func (c *recChain) GetHeaderByNumber(n uint64) *types.Header {
	c.mu.Lock()
	defer c.mu.Unlock()
	if n == c.ch.origin {
		return c.ch.genesis
	}
	if n < c.ch.origin || n > c.ch.origin+uint64(c.top) {
		return nil
	}
	return c.ch.hdrs[n-c.ch.origin-1]
}
func (c *recChain) GetHeaderByHash(h common.Hash) *types.Header {
	c.mu.Lock()
	defer c.mu.Unlock()
	if h == c.ch.genesis.Hash() {
		return c.ch.genesis
	}
	if id, ok := c.ch.idOf[h]; ok && id < c.top {
		return c.ch.hdrs[id]
	}
	return nil
}
func (c *recChain) HasBlock(h common.Hash, n uint64) bool { return c.GetHeaderByHash(h) != nil }
func (c *recChain) GetLightStartHeader() *types.Header    { return nil }
func (c *recChain) IsUcon() bool                          { return false }
func (c *recChain) UconLookBackParams() (uint64, uint64)  { return 0, 0 }
func (c *recChain) TrieBackingDb(types.TrieKind) youdb.Database {
	return c.db
}
func (c *recChain) VerifyAcHeader(*types.Header, []*types.Header) error { return nil }
func (c *recChain) UpdateTrustedCht(*types.Header) error                { return nil }
func (c *recChain) UpdateTrustedBlt(*types.Header) error                { return nil }
func (c *recChain) GetHashFromCht(uint64) (common.Hash, error) {
	return common.Hash{}, errors.New("no cht")
}
func (c *recChain) InsertGuaranteedHeaderChain([]*types.Header) (int, error) { return 0, nil }
func (c *recChain) InsertHeaderChain([]*types.Header) (int, error)           { return 0, nil }
func (c *recChain) InsertReceiptChain(types.Blocks, []types.Receipts, bool) (int, error) {
	return 0, errors.New("not a fast-sync chain")
}

// InsertChain is the importer: the observation point of the end-to-end oracle.
func (c *recChain) InsertChain(blocks types.Blocks) error {
	c.mu.Lock()
	defer c.mu.Unlock()
	c.calls++
	if len(blocks) > c.maxCall {
		c.maxCall = len(blocks)
	}
	for _, b := range blocks {
		if c.bad != nil {
			return errRecReject
		}
		if c.fresh {
			// "starting at the sync origin": the origin is whatever common ancestor this sync found,
			// which may lie below the importer's head (findAncestor samples every second header), but
			// never above it.
			c.fresh = false
			n := b.NumberU64()
			if n > c.ch.origin && n <= c.ch.num(c.top) && int(n-c.ch.origin-1) < c.rc.next {
				c.overlap += c.rc.next - int(n-c.ch.origin-1)
				c.rc.next = int(n - c.ch.origin - 1)
			}
		}
		if bad := c.rc.check(b.Header(), b.Transactions(), 0); bad != nil {
			c.bad = bad
			return errRecReject
		}
		if c.rc.next > c.top {
			c.top = c.rc.next
		}
	}
	return nil
}

// newSync tells the recorder that a new Synchronise call starts (its first block defines its origin).
func (c *recChain) newSync() {
	c.mu.Lock()
	c.fresh = true
	c.rc.next = c.top
	c.mu.Unlock()
}

// ---- scripted peers

type e2eHarness struct {
	c       *kit.Ctx
	sp      e2eSpec
	ch      *chain
	d       *downloader.Downloader
	rec     *recChain
	faults  int32 // 1 while the script injects faults
	maxLat  int64 // diagnostics: slowest handler entry -> delivery handed over, in ns (notes only)
	master  atomic.Value
	peers   []*e2ePeer
	mu      sync.Mutex
	dropped map[string]bool
	counts  map[string]int
	// deadlock oracle (deadlock.go)
	led       *ledger
	honestIDs map[string]bool    // peers that answer every body request truthfully (possibly late) in every phase
	dead      *deadState         // set by sync when it returns "deadlock"
	directed  func() interface{} // the directed scenario's spec and trace, if any (witness only)
}

func newE2EHarness(c *kit.Ctx, sp e2eSpec, ch *chain, rec *recChain) *e2eHarness {
	h := &e2eHarness{c: c, sp: sp, ch: ch, rec: rec, dropped: map[string]bool{}, counts: map[string]int{},
		led: newLedger(), honestIDs: map[string]bool{}}
	h.master.Store("")
	setCurLedger(h.led)
	h.d = downloader.New(rec, nil, rec.db, h.drop, new(event.TypeMux))
	return h
}

func (h *e2eHarness) lat(t0 time.Time) {
	d := int64(time.Since(t0))
	for {
		o := atomic.LoadInt64(&h.maxLat)
		if d <= o || atomic.CompareAndSwapInt64(&h.maxLat, o, d) {
			return
		}
	}
}

func (h *e2eHarness) count(k string) {
	h.mu.Lock()
	h.counts[k]++
	h.mu.Unlock()
}

type e2ePeer struct {
	h       *e2eHarness
	idx     int
	id      string
	have    int
	profile int
	hdrProf int
	mu      sync.Mutex
	r       *rand.Rand
	// script (optional) replaces the PRNG-driven body answers (directed scenario, directed.go)
	script func(p *e2ePeer, hashes []common.Hash, ans *answer) error
}

func (p *e2ePeer) Head() (common.Hash, *big.Int) {
	if p.have == 0 {
		return p.h.ch.genesis.Hash(), new(big.Int).SetUint64(p.h.ch.origin)
	}
	return p.h.ch.hashes[p.have-1], new(big.Int).SetUint64(p.h.ch.num(p.have - 1))
}
func (p *e2ePeer) Origin() *big.Int { return new(big.Int) }

func (p *e2ePeer) headerAt(n uint64) *types.Header {
	ch := p.h.ch
	if n == ch.origin {
		return ch.genesis
	}
	if n < ch.origin || n > ch.origin+uint64(p.have) {
		return nil
	}
	return ch.hdrs[n-ch.origin-1]
}

func (p *e2ePeer) RequestHeadersByHash(origin common.Hash, amount int, skip int, reverse, light bool) error {
	ch := p.h.ch
	if origin == ch.genesis.Hash() {
		return p.RequestHeadersByNumber(ch.origin, amount, skip, reverse, light)
	}
	if id, ok := ch.idOf[origin]; ok && id < p.have {
		return p.RequestHeadersByNumber(ch.num(id), amount, skip, reverse, light)
	}
	return p.h.d.DeliverHeaders(p.id, nil)
}

func (p *e2ePeer) RequestHeadersByNumber(origin uint64, amount int, skip int, reverse, light bool) error {
	t0 := time.Now()
	logging.Trace("scripted peer: header request received", "peer", p.id, "origin", origin, "amount", amount, "skip", skip)
	var hdrs []*types.Header
	n := origin
	for len(hdrs) < amount {
		hd := p.headerAt(n)
		if hd == nil {
			break
		}
		hdrs = append(hdrs, hd)
		if reverse {
			if n < uint64(skip+1) {
				break
			}
			n -= uint64(skip + 1)
		} else {
			n += uint64(skip + 1)
		}
	}
	isMaster := p.h.master.Load().(string) == p.id
	if atomic.LoadInt32(&p.h.faults) == 1 && len(hdrs) > 0 {
		p.mu.Lock()
		x := p.r.Intn(100)
		y := p.r.Intn(1 << 20)
		p.mu.Unlock()
		prof := p.hdrProf
		if isMaster {
			// a faulty master ends the whole sync attempt; keep that rare
			prof = 0
			if p.h.sp.MasterFault && x < 4 {
				prof = 1 + y%4
			}
		} else if x >= 50 {
			prof = 0
		}
		switch prof {
		case 1:
			p.h.count("hdr_resp_empty")
			hdrs = nil
		case 2:
			p.h.count("hdr_resp_wrong")
			if len(hdrs) > 1 {
				j := y % len(hdrs)
				hdrs = append(append([]*types.Header(nil), hdrs[:j]...), hdrs[j+1:]...)
			} else {
				// a forged header must not be a well-formed sibling (same number, same parent): the
				// downloader does not judge header content in full sync, it follows what the master
				// serves, so such a block would legitimately reach the importer. Break the linkage.
				fh := types.CopyHeader(hdrs[0])
				fh.ParentHash = common.BytesToHash([]byte{0xde, 0xad, byte(y), byte(y >> 8)})
				hdrs = []*types.Header{fh}
			}
		case 3:
			p.h.count("hdr_resp_stall")
			return nil
		case 4:
			p.h.count("hdr_resp_short")
			hdrs = hdrs[:1+y%len(hdrs)]
		}
	}
	p.h.count("hdr_resp")
	err := p.h.d.DeliverHeaders(p.id, hdrs)
	p.h.lat(t0)
	return err
}

func (p *e2ePeer) RequestBodies(hashes []common.Hash) error {
	ans := p.beginAnswer()
	defer ans.release()
	if p.script != nil {
		return p.script(p, hashes, ans)
	}
	ch := p.h.ch
	var ids []int
	for _, hs := range hashes {
		if id, ok := ch.idOf[hs]; ok && id < p.have {
			ids = append(ids, id) // a real peer answers only for blocks it has
		}
	}
	if len(ids) < len(hashes) {
		p.h.count("body_req_beyond_peer_head")
	}
	kind := rFull
	delay, dup, disconnect := 0, false, false
	if atomic.LoadInt32(&p.h.faults) == 1 {
		p.mu.Lock()
		kind = pick(p.r, profiles[p.profile])
		if p.r.Intn(5) == 0 {
			delay = 1 + p.r.Intn(40)
		}
		dup = p.r.Intn(8) == 0
		disconnect = p.r.Intn(40) == 0
		p.mu.Unlock()
	}
	if disconnect {
		p.h.count("body_peer_disconnects")
		p.h.drop(p.id)
		return nil
	}
	if kind == rStall {
		if p.idx != p.h.sp.Honest {
			p.h.count("body_resp_stall")
			return nil // never answers
		}
		// the honest peer "eventually answers": its stall is an answer that comes after the request expired
		p.h.count("body_resp_late_after_ttl")
		kind = rFull
		delay = 1800
	}
	var bodies [][]*types.Transaction
	if len(ids) > 0 {
		p.mu.Lock()
		bodies, _ = buildResponse(p.r, ch, ids, kind)
		p.mu.Unlock()
	}
	if bodies == nil {
		bodies = [][]*types.Transaction{}
	}
	if delay > 0 {
		time.Sleep(time.Duration(delay) * time.Millisecond)
	}
	p.h.count("body_resp_" + respNames[kind])
	t0 := time.Now()
	err := p.handOver(bodies)
	if delay == 0 {
		p.h.lat(t0)
	}
	if dup {
		p.h.count("body_resp_duplicate")
		ans.hold()
		go func() {
			defer ans.release()
			time.Sleep(time.Duration(1+delay) * time.Millisecond)
			p.handOver(bodies)
		}()
	}
	return err
}

func (p *e2ePeer) RequestReceipts(hashes []common.Hash) error {
	return p.h.d.DeliverReceipts(p.id, nil)
}
func (p *e2ePeer) RequestNodeData(kind types.TrieKind, hashes []common.Hash) error {
	return p.h.d.DeliverNodeData(p.id, nil)
}

// drop is the downloader's dropPeer callback (production: ProtocolManager.removePeer).
func (h *e2eHarness) drop(id string) {
	h.mu.Lock()
	already := h.dropped[id]
	h.dropped[id] = true
	h.counts["peer_drops"]++
	h.mu.Unlock()
	if !already {
		h.d.UnregisterPeer(id)
	}
}

func (h *e2eHarness) register(p *e2ePeer) {
	h.mu.Lock()
	h.dropped[p.id] = false
	h.mu.Unlock()
	h.d.RegisterPeer(p.id, p)
}

func (h *e2eHarness) isDropped(id string) bool {
	h.mu.Lock()
	defer h.mu.Unlock()
	return h.dropped[id]
}

// sync runs one Synchronise under a generous watchdog. ok=false: the watchdog fired. If cut > 0 and
// the call has not returned after that long, the script disconnects the master (production:
// removePeer -> UnregisterPeer -> cancel), which must end the sync. While the call lasts the
// scheduler state is sampled for the dead state of deadlock.go; if it is found unchanged in
// deadSamplesNeed consecutive samples the sync is ended the same way and kind is "deadlock"
// (witness in h.dead).
func (h *e2eHarness) sync(p *e2ePeer, cut time.Duration) (kind string, ok bool) {
	h.master.Store(p.id)
	h.rec.newSync()
	h.dead = nil
	blind := !h.settle()
	if blind {
		h.count("deadlock_oracle_blind_syncs")
	}
	base := h.led.all()
	done := make(chan error, 1)
	_, num := p.Head()
	go func() { done <- h.d.Synchronise(p.id, num, downloader.FullSync) }()
	wait := func() (string, bool) {
		select {
		case err := <-done:
			return downloader.VerifErrKind(err), true
		case <-time.After(e2eWatchdog()):
			if os.Getenv("VERIF_C18_DUMP") != "" {
				pprof.Lookup("goroutine").WriteTo(os.Stderr, 2)
			}
			return "watchdog", false
		}
	}
	tick := time.NewTicker(deadSampleEvery)
	defer tick.Stop()
	start := time.Now()
	limit := e2eWatchdog()
	if cut > 0 {
		limit = cut
	}
	var last *deadState
	streak := 0
	for {
		select {
		case err := <-done:
			return downloader.VerifErrKind(err), true
		case <-tick.C:
		}
		if time.Since(start) >= limit {
			break
		}
		if blind {
			continue
		}
		h.count("deadlock_oracle_samples")
		ds := h.deadSample(base)
		switch {
		case ds == nil:
			last, streak = nil, 0
		case last != nil && last.key == ds.key:
			streak++
		default:
			last, streak = ds, 1
			h.count("deadlock_oracle_candidate_states")
		}
		if streak >= deadSamplesNeed {
			ds.Pools = h.d.VerifPools()
			h.dead = ds
			h.count("deadlock_oracle_dead_states")
			h.drop(p.id) // the master disconnects: ends the sync
			if _, ok := wait(); !ok {
				return "watchdog", false
			}
			return "deadlock", true
		}
	}
	if cut == 0 {
		if os.Getenv("VERIF_C18_DUMP") != "" {
			pprof.Lookup("goroutine").WriteTo(os.Stderr, 2)
		}
		return "watchdog", false
	}
	h.count("fault_attempt_cut_by_master_disconnect")
	if busy := h.d.VerifBusyWithoutRequest(); len(busy) > 0 {
		h.count("cut_with_peer_busy_without_request")
	}
	h.drop(p.id)
	return wait()
}

// reportDead reports the dead state found by sync.
func (h *e2eHarness) reportDead(when string, outcomes []string) {
	ds := h.dead
	var directed interface{}
	if h.directed != nil {
		directed = h.directed()
	}
	h.c.Violation("e2e-deadlock:peers-busy-without-request",
		fmt.Sprintf("%s: the body download can never continue: %d body tasks are queued (blocks %v), no request is in flight, no packet is waiting, every registered peer is flagged busy without owning a request (or lacks every queued block), and nothing is left to arrive - every request the fetcher issued reached its peer, every peer finished answering, every packet handed over was handled. Honest peer(s) %v answered every request truthfully, have the queued blocks and are never asked again. The state was found unchanged in %d consecutive samples; only the end of the Synchronise call can clear the flags.",
			when, ds.Sched.Queued, ds.Sched.QueuedNumbers, ds.Parked, deadSamplesNeed),
		map[string]interface{}{"spec": h.sp, "directed": directed, "sync_outcomes": outcomes, "dead_state": ds, "imported": h.rec.height(), "log_tail": logTail(e2eLogTail())})
}

// stallMon measures how badly this process is being starved (environment health, not an oracle):
// a goroutine sleeps 20 ms at a time and records its worst oversleep. It decides only between
// "violation" and "inconclusive" for the time-dependent completeness check.
type stallMon struct {
	worst int64
	stop  chan struct{}
}

func newStallMon() *stallMon {
	m := &stallMon{stop: make(chan struct{})}
	go func() {
		for {
			t := time.Now()
			select {
			case <-m.stop:
				return
			case <-time.After(20 * time.Millisecond):
			}
			if over := int64(time.Since(t) - 20*time.Millisecond); over > atomic.LoadInt64(&m.worst) {
				atomic.StoreInt64(&m.worst, over)
			}
		}
	}()
	return m
}

func (m *stallMon) worstStall() time.Duration { return time.Duration(atomic.LoadInt64(&m.worst)) }

func e2eLogTail() int {
	if v, err := strconv.Atoi(os.Getenv("VERIF_C18_LOGTAIL")); err == nil && v > 0 {
		return v
	}
	return 40
}

func e2eWatchdog() time.Duration {
	if v, err := strconv.Atoi(os.Getenv("VERIF_C18_WATCHDOG")); err == nil && v > 0 {
		return time.Duration(v) * time.Second
	}
	return 120 * time.Second
}

func genE2ESpec(r *rand.Rand) e2eSpec {
	var sp e2eSpec
	switch r.Intn(4) {
	case 0:
		sp.Chain.N = 1 + r.Intn(12) // no skeleton
	case 1:
		sp.Chain.N = 13 + r.Intn(60)
	default:
		sp.Chain.N = 60 + r.Intn(500)
	}
	sp.Chain.EmptyPct = []int{0, 20, 50, 80, 100}[r.Intn(5)]
	if r.Intn(3) == 0 {
		sp.Chain.EmptyRun = 2 + r.Intn(40)
	}
	sp.Chain.NLists = 1 + r.Intn(8)
	sp.Peers = 1 + r.Intn(5)
	sp.Honest = r.Intn(sp.Peers)
	for p := 0; p < sp.Peers; p++ {
		pr, hp, have := r.Intn(len(profiles)), r.Intn(5), sp.Chain.N
		if r.Intn(4) == 0 {
			have = r.Intn(sp.Chain.N + 1)
		}
		if p == sp.Honest {
			pr, hp, have = 0, 0, sp.Chain.N
		}
		sp.Profiles = append(sp.Profiles, pr)
		sp.HdrProfiles = append(sp.HdrProfiles, hp)
		sp.Have = append(sp.Have, have)
		sp.Seeds = append(sp.Seeds, r.Int63())
	}
	if r.Intn(3) == 0 {
		sp.PreSynced = r.Intn(sp.Chain.N)
	}
	sp.FaultSyncs = r.Intn(3)
	sp.MasterFault = r.Intn(3) == 0
	return sp
}

func runE2E(c *kit.Ctx) {
	e2eKnobs()
	if c.Mine(0, "probe-stale-delivery") {
		runStaleProbe(c)
	}
	nd := c.N(6, 300)
	for i := 0; i < nd; i++ {
		id := fmt.Sprintf("d%d", i)
		if !c.Mine(1+i, id) {
			continue
		}
		runDirectedCase(c, id, i)
	}
	n := c.N(30, 4000)
	for i := 0; i < n; i++ {
		id := fmt.Sprintf("e%d", i)
		if !c.Mine(1+nd+i, id) {
			continue
		}
		runE2ECase(c, id)
	}
}

// probePeer answers its first body request completely, answers the second request with bodies
// that belong to something else (as a late answer to an expired request would), and is silent
// afterwards.
type probePeer struct {
	e2ePeer
	nreq  int32
	first [][]*types.Transaction
}

func (p *probePeer) RequestBodies(hashes []common.Hash) error {
	switch atomic.AddInt32(&p.nreq, 1) {
	case 1:
		var ids []int
		for _, hs := range hashes {
			ids = append(ids, p.h.ch.idOf[hs])
		}
		p.first, _ = buildResponse(p.r, p.h.ch, ids, rFull)
		return p.h.d.DeliverBodies(p.id, p.first)
	case 2:
		// an answer that does not belong to the new request (a late answer to an older request looks
		// like this; a foreign list makes sure it cannot match by coincidence)
		return p.h.d.DeliverBodies(p.id, [][]*types.Transaction{garbageList(p.r)})
	}
	return nil
}

// runStaleProbe is an OBSERVATION, not an oracle: it records whether a stale delivery leaves the
// peer flagged busy with no request in the queue (so that nothing can expire and nothing is
// assigned any more while the peer stays connected). It never reports a violation: the property's
// liveness clause presupposes a peer that answers what it is asked, and this peer does not.
func runStaleProbe(c *kit.Ctx) {
	c.Begin("probe-stale-delivery", nil)
	r := c.Rand("probe-stale-delivery")
	sp := e2eSpec{Chain: chainSpec{N: 10, NLists: 3}, Peers: 1, Profiles: []int{0}, HdrProfiles: []int{0}, Have: []int{10}}
	ch := genChain(r, sp.Chain, 1)
	rec := &recChain{ch: ch, rc: &resultChecker{ch: ch}, db: youdb.NewMemDatabase()}
	h := newE2EHarness(c, sp, ch, rec)
	defer h.d.Terminate()
	pp := &probePeer{e2ePeer: e2ePeer{h: h, id: peerName(0), have: 10, r: r}}
	h.d.RegisterPeer(pp.id, pp)
	h.master.Store(pp.id)
	rec.newSync()
	done := make(chan error, 1)
	_, num := pp.Head()
	go func() { done <- h.d.Synchronise(pp.id, num, downloader.FullSync) }()
	// sample for 3 x the request TTL ceiling (1.5 s): a stalled request would have expired by then
	stuck, returned := 0, false
	for i := 0; i < 45 && !returned; i++ {
		select {
		case <-done:
			returned = true
		case <-time.After(100 * time.Millisecond):
			if len(h.d.VerifBusyWithoutRequest()) > 0 {
				stuck++
			} else {
				stuck = 0
			}
		}
	}
	imported := rec.height()
	if !returned {
		h.drop(pp.id) // the master disconnects: ends the sync
		select {
		case <-done:
		case <-time.After(e2eWatchdog()):
			c.EndInconclusive("watchdog: Synchronise did not return after the master disconnected")
			return
		}
	}
	if os.Getenv("VERIF_C18_DUMP") != "" {
		fmt.Fprintf(os.Stderr, "probe: returned=%v stuck=%d imported=%d nreq=%d\n", returned, stuck, imported, atomic.LoadInt32(&pp.nreq))
	}
	if !returned && stuck >= 30 {
		c.Count("probe_stale_delivery_peer_left_busy_without_request", 1)
		c.Note(fmt.Sprintf("observation (not a violation): after the only peer answered a body request with bodies that match none of the requested headers (stale delivery), it stayed flagged busy with no request in the queue for >3 s (3 request TTLs); Synchronise neither progressed (%d of 10 blocks imported) nor timed out until the peer disconnected", imported))
	} else {
		c.Count("probe_stale_delivery_recovered", 1)
	}
	c.End("")
}

func runE2ECase(c *kit.Ctx, id string) {
	r := c.Rand(id)
	sp := genE2ESpec(r)
	c.Begin(id, sp)
	ch := genChain(r, sp.Chain, sp.Peers)
	rec := &recChain{ch: ch, rc: &resultChecker{ch: ch, next: sp.PreSynced}, top: sp.PreSynced, db: youdb.NewMemDatabase()}
	h := newE2EHarness(c, sp, ch, rec)
	defer h.d.Terminate()
	h.honestIDs[peerName(sp.Honest)] = true
	for p := 0; p < sp.Peers; p++ {
		ep := &e2ePeer{h: h, idx: p, id: peerName(p), have: sp.Have[p], profile: sp.Profiles[p], hdrProf: sp.HdrProfiles[p], r: rand.New(rand.NewSource(sp.Seeds[p]))}
		h.peers = append(h.peers, ep)
		h.register(ep)
	}
	mon := newStallMon()
	defer close(mon.stop)
	var outcomes []string
	finish := func(sig string) {
		c.Max("max_e2e_process_stall_ms", int64(mon.worstStall()/time.Millisecond))
		h.mu.Lock()
		keys := make([]string, 0, len(h.counts))
		for k := range h.counts {
			keys = append(keys, k)
		}
		sort.Strings(keys)
		for _, k := range keys {
			c.Count("e2e_"+k, h.counts[k])
		}
		h.mu.Unlock()
		c.Count("e2e_insert_calls", rec.calls)
		c.Max("max_e2e_insert_batch", int64(rec.maxCall))
		c.Count("e2e_blocks_imported", rec.height()-sp.PreSynced)
		c.Count("e2e_blocks_reimported_by_lower_origin", rec.overlap)
		// what the downloader's trace log said about the honest peer's packets
		pl := h.led.get(peerName(sp.Honest))
		c.Count("e2e_honest_peer_packets_handled", int(pl.Handled))
		c.Count("e2e_honest_peer_stale_deliveries", int(pl.Stale))
		c.Count("e2e_honest_peer_answers_without_pending_request", int(pl.NoPending))
		c.Sample(map[string]interface{}{"spec": sp, "sync_outcomes": outcomes, "imported": rec.height()})
		if sig == "" {
			return
		}
		c.End(sig)
	}
	checkImporter := func(when string) bool {
		rec.mu.Lock()
		bad := rec.bad
		rec.mu.Unlock()
		c.Evals(1)
		if bad != nil {
			c.Violation("e2e-"+bad.class, when+": importer received "+bad.msg, map[string]interface{}{"spec": sp, "sync_outcomes": outcomes})
			return false
		}
		return true
	}
	// ---- attempts with faults
	atomic.StoreInt32(&h.faults, 1)
	for a := 0; a < sp.FaultSyncs; a++ {
		var cand []*e2ePeer
		for _, p := range h.peers {
			if !h.isDropped(p.id) && p.have > rec.height() && (sp.MasterFault || p.idx == sp.Honest) {
				cand = append(cand, p)
			}
		}
		if len(cand) == 0 {
			break
		}
		m := cand[r.Intn(len(cand))]
		kind, ok := h.sync(m, 12*time.Second)
		if !ok {
			finish("")
			c.EndInconclusive("watchdog fired in a faulty sync attempt")
			return
		}
		if kind == "" {
			kind = "ok"
		}
		outcomes = append(outcomes, "faulty:"+kind)
		c.Count("e2e_faulty_sync_"+kind, 1)
		if !checkImporter("after faulty sync attempt") {
			finish("violated")
			return
		}
		if kind == "deadlock" {
			h.reportDead("faulty sync attempt", outcomes)
			finish("violated")
			return
		}
		// dropped peers reconnect now and then
		for _, p := range h.peers {
			if h.isDropped(p.id) && r.Intn(2) == 0 {
				h.register(p)
				c.Count("e2e_reconnects", 1)
			}
		}
	}
	// ---- faults stop: the honest peer is (re)connected and is the master; bounded number of attempts
	atomic.StoreInt32(&h.faults, 0)
	hp := h.peers[sp.Honest]
	sawTimeout := false
	attempts := 0
	for rec.height() < len(ch.hdrs) && attempts < 4 {
		attempts++
		if h.isDropped(hp.id) {
			h.register(hp)
		}
		kind, ok := h.sync(hp, 0)
		if !ok {
			finish("")
			c.EndInconclusive("watchdog fired in an honest sync attempt")
			return
		}
		if kind == "" {
			kind = "ok"
		}
		outcomes = append(outcomes, "honest:"+kind)
		if kind != "ok" {
			c.Note(fmt.Sprintf("%s: honest sync attempt %d ended with %q (spec %+v, outcomes %v); slowest scripted answer (handler entry to hand-over) %v, worst scheduling stall of this process %v; downloader log tail: %q", id, attempts, kind, sp, outcomes, time.Duration(atomic.LoadInt64(&h.maxLat)), mon.worstStall(), logTail(e2eLogTail())))
		}
		c.Count("e2e_honest_sync_"+kind, 1)
		if kind != "ok" {
			sawTimeout = true // every failure kind of an all-honest sync observed so far was a (converted) request timeout
		}
		if !checkImporter("after honest sync attempt") {
			finish("violated")
			return
		}
		if kind == "deadlock" {
			h.reportDead("honest sync attempt", outcomes)
			finish("violated")
			return
		}
	}
	c.Count("e2e_honest_attempts", attempts)
	c.Evals(1)
	if got := rec.height(); got < len(ch.hdrs) {
		if st := mon.worstStall(); sawTimeout && st > 300*time.Millisecond {
			finish("")
			c.EndInconclusive(fmt.Sprintf("honest syncs failed while this process was being starved (worst scheduling stall %v): %v", st, outcomes))
			return
		}
		c.Violation("e2e-incomplete-without-faults", fmt.Sprintf("faults stopped and an honest master with the full chain was synced %d times, yet only %d of %d blocks reached the importer: %v", attempts, got, len(ch.hdrs), outcomes), map[string]interface{}{"spec": sp, "sync_outcomes": outcomes})
		finish("violated")
		return
	}
	c.Count("e2e_completed", 1)
	nb := "short"
	switch {
	case sp.Chain.N > 60:
		nb = "long"
	case sp.Chain.N > 12:
		nb = "skeleton"
	}
	finish(fmt.Sprintf("e2e %s peers%d presynced%v faultsyncs%d masterfault%v %v", nb, sp.Peers, sp.PreSynced > 0, sp.FaultSyncs, sp.MasterFault, outcomes))
}
