package c18

// C18.receipts: the receipt half of the download scheduler (fast-sync mode).
//
// Every other C18 workload builds headers with the EMPTY receipt root, so ReserveReceipts never
// hands out a request and receiptTaskQueue / receiptPendPool / CancelReceipts / ExpireReceipts /
// Revoke-with-receipt-request / DeliverReceipts stay cold. Here every block with transactions has
// one receipt per transaction and a non-empty receipt root.
//
// Self-contained: no reference model; the oracles are
//   A structural task conservation on VerifPools (under q.lock) after EVERY operation, separately
//     for the body bookkeeping and the receipt bookkeeping,
//   B everything Results hands out = the scheduled headers in order, once, with matching
//     transactions AND matching receipts (roots recomputed),
//   C once faults stop a fresh honest peer completes the whole range in a bounded number of rounds.

import (
	"fmt"
	"math/big"
	"math/rand"
	"sort"
	"strings"
	"time"

	"verif/kit"

	"github.com/youchainhq/go-youchain/common"
	"github.com/youchainhq/go-youchain/core/types"
	"github.com/youchainhq/go-youchain/you/downloader"
)

func init() { kit.Register("C18.receipts", runReceipts) }

type rcSpec struct {
	N      int    `json:"n"`
	Origin uint64 `json:"origin"`
	Peers  int    `json:"peers"`
	Steps  int    `json:"steps"`
	Slices int    `json:"slices"`
}

type rcRun struct {
	c  *kit.Ctx
	r  *rand.Rand
	sp rcSpec
	q  *downloader.VerifQueue

	hdrs   []*types.Header
	hashes []common.Hash
	idOf   map[common.Hash]int
	txs    [][]*types.Transaction
	rcpts  [][]*types.Receipt

	scheduled int // headers [0, scheduled) were accepted by Schedule
	released  int // headers [0, released) were handed out by Results

	peers   []*downloader.VerifPeer
	bodyReq []*downloader.VerifRequest
	rcptReq []*downloader.VerifRequest

	ops  []string
	dead bool
	feat map[string]bool
}

func runReceipts(c *kit.Ctx) {
	// the package defaults (another workload of the same process may have changed them): the cache
	// covers every range of this workload, so Reserve is never throttled here
	downloader.VerifSetCacheLimits(8192, 64*1024*1024)
	downloader.VerifSetMaxResultsProcess(2048)
	n := c.N(300, 20000)
	for i := 0; i < n; i++ {
		id := fmt.Sprintf("rc%d", i)
		if !c.Mine(i, id) {
			continue
		}
		runReceiptsCase(c, id)
	}
}

func (s *rcRun) logf(format string, a ...interface{}) {
	s.ops = append(s.ops, fmt.Sprintf(format, a...))
}

func (s *rcRun) fail(class, msg string) {
	if s.dead {
		return
	}
	s.dead = true
	s.c.Violation(class, msg, map[string]interface{}{"spec": s.sp, "ops": s.ops})
}

func genReceiptList(r *rand.Rand, block int, ntx int) []*types.Receipt {
	var rs []*types.Receipt
	for k := 0; k < ntx; k++ {
		// distinct cumulative gas per (block, position): receipt lists differ between blocks
		rs = append(rs, types.NewReceipt(nil, r.Intn(4) == 0, uint64(block+1)*1000000+uint64(k+1)*21000+uint64(r.Intn(1000))))
	}
	return rs
}

func (s *rcRun) build() {
	r := s.r
	gextra := make([]byte, 8)
	r.Read(gextra)
	genesis := &types.Header{Number: new(big.Int).SetUint64(s.sp.Origin), TxHash: types.EmptyRootHash, ReceiptHash: types.EmptyRootHash,
		Subsidy: new(big.Int), GasRewards: new(big.Int), GasLimit: 8000000, Time: 999, Extra: gextra}
	parent := genesis.Hash()
	s.idOf = make(map[common.Hash]int, s.sp.N)
	for i := 0; i < s.sp.N; i++ {
		ntx := r.Intn(4)
		var txs []*types.Transaction
		for k := 0; k < ntx; k++ {
			txs = append(txs, genTx(r))
		}
		rs := genReceiptList(r, i, ntx)
		extra := make([]byte, 4)
		r.Read(extra)
		h := &types.Header{
			ParentHash:  parent,
			Number:      new(big.Int).SetUint64(s.sp.Origin + 1 + uint64(i)),
			TxHash:      types.DeriveSha(types.Transactions(txs)),
			ReceiptHash: types.DeriveSha(types.Receipts(rs)),
			Subsidy:     new(big.Int),
			GasRewards:  new(big.Int),
			GasLimit:    8000000,
			Time:        uint64(1000 + i),
			Extra:       extra,
		}
		hash := h.Hash()
		s.hdrs = append(s.hdrs, h)
		s.hashes = append(s.hashes, hash)
		s.idOf[hash] = i
		s.txs = append(s.txs, txs)
		s.rcpts = append(s.rcpts, rs)
		parent = hash
	}
}

// scheduleNext hands the next slice (or everything that is left) to Schedule.
func (s *rcRun) scheduleNext(all bool) {
	if s.scheduled >= s.sp.N {
		return
	}
	k := s.sp.N - s.scheduled
	if !all {
		per := (s.sp.N + s.sp.Slices - 1) / s.sp.Slices
		if per < k {
			k = per
		}
	}
	from := s.sp.Origin + 1 + uint64(s.scheduled)
	ins := s.q.Schedule(s.hdrs[s.scheduled:s.scheduled+k], from)
	s.logf("schedule [%d,%d) -> %d accepted", s.scheduled, s.scheduled+k, len(ins))
	for j, h := range ins {
		if s.scheduled+j >= s.sp.N || h.Hash() != s.hashes[s.scheduled+j] {
			s.fail("receipts:schedule-foreign-insert", fmt.Sprintf("Schedule reported header %x at position %d as inserted, which is not the header offered there", h.Hash(), s.scheduled+j))
			return
		}
	}
	s.scheduled += len(ins)
}

// ---------------------------------------------------------------- oracle A

type halfView struct {
	name              string
	pool, queue, done []common.Hash
	pending           map[string][]common.Hash
}

func (s *rcRun) where(v halfView, h common.Hash) string {
	var w []string
	for _, x := range v.queue {
		if x == h {
			w = append(w, "task-queue")
		}
	}
	ids := make([]string, 0, len(v.pending))
	for id := range v.pending {
		ids = append(ids, id)
	}
	sort.Strings(ids)
	for _, id := range ids {
		for _, x := range v.pending[id] {
			if x == h {
				w = append(w, "pending("+id+")")
			}
		}
	}
	for _, x := range v.done {
		if x == h {
			w = append(w, "done-pool")
		}
	}
	inPool := false
	for _, x := range v.pool {
		if x == h {
			inPool = true
		}
	}
	if len(w) == 0 {
		w = append(w, "nowhere")
	}
	return fmt.Sprintf("%s; in task pool: %v", strings.Join(w, "+"), inPool)
}

func (s *rcRun) checkHalf(v halfView) bool {
	n := s.sp.N
	cnt := make([]int, n)
	done := make([]bool, n)
	inPool := make([]bool, n)
	foreign := func(h common.Hash, place string) bool {
		s.fail("receipts:pool-foreign-task", fmt.Sprintf("%s-half: hash %x in the %s belongs to no header of the case", v.name, h, place))
		return false
	}
	for _, h := range v.queue {
		i, ok := s.idOf[h]
		if !ok {
			return foreign(h, "task queue")
		}
		cnt[i]++
	}
	ids := make([]string, 0, len(v.pending))
	for id := range v.pending {
		ids = append(ids, id)
	}
	sort.Strings(ids)
	for _, id := range ids {
		hs := v.pending[id]
		if len(hs) == 0 {
			s.fail("receipts:pool-empty-request", fmt.Sprintf("%s-half: peer %s holds a pending request without headers", v.name, id))
			return false
		}
		for _, h := range hs {
			i, ok := s.idOf[h]
			if !ok {
				return foreign(h, "pending request of "+id)
			}
			cnt[i]++
		}
	}
	for _, h := range v.done {
		i, ok := s.idOf[h]
		if !ok {
			return foreign(h, "done pool")
		}
		if done[i] {
			cnt[i]++ // cannot happen for map keys; kept for completeness
		}
		done[i] = true
		cnt[i]++
	}
	for _, h := range v.pool {
		i, ok := s.idOf[h]
		if !ok {
			return foreign(h, "task pool")
		}
		inPool[i] = true
	}
	for i := 0; i < n; i++ {
		live := i >= s.released && i < s.scheduled
		num := s.sp.Origin + 1 + uint64(i)
		switch {
		case !live && (cnt[i] > 0 || inPool[i]):
			state := "released"
			if i >= s.scheduled {
				state = "not scheduled"
			}
			s.fail("receipts:pool-stale-task", fmt.Sprintf("%s-half: block %d is %s but its %s task is still around: %s", v.name, num, state, v.name, s.where(v, s.hashes[i])))
			return false
		case live && cnt[i] == 0:
			s.fail("receipts:task-lost", fmt.Sprintf("%s-half: block %d is scheduled and not released, but its %s task is in no task queue, no request and not done (%s)", v.name, num, v.name, s.where(v, s.hashes[i])))
			return false
		case live && cnt[i] > 1:
			s.fail("receipts:task-duplicated", fmt.Sprintf("%s-half: the %s task of block %d exists %d times: %s", v.name, v.name, num, cnt[i], s.where(v, s.hashes[i])))
			return false
		case live && inPool[i] == done[i]:
			s.fail("receipts:taskpool-inconsistent", fmt.Sprintf("%s-half: block %d: done=%v but in task pool=%v (%s)", v.name, num, done[i], inPool[i], s.where(v, s.hashes[i])))
			return false
		}
	}
	return true
}

// checkPools is oracle A. It returns the snapshot (nil after a violation).
func (s *rcRun) checkPools() *downloader.VerifPoolsSnapshot {
	if s.dead {
		return nil
	}
	p := s.q.VerifPools()
	s.c.Count("pool_snapshots_checked", 1)
	s.c.Evals(1)
	body := halfView{"body", p.TaskPool, p.TaskQueue, p.Done, p.Pending}
	rcpt := halfView{"receipt", p.RTaskPool, p.RTaskQueue, p.RDone, p.RPending}
	if !s.checkHalf(body) || !s.checkHalf(rcpt) {
		return nil
	}
	// Result slots. queue.go: a slot is created (Pending = 2 in fast sync) by the first reservation
	// that pops the header, of either half; each half decrements it exactly when it puts the hash into
	// its done pool (noop in reserveHeaders, accepted item in deliver); done pools are only cleared
	// when Results releases the slot. So for a cached header Pending = #halves not done.
	bd := make(map[common.Hash]bool, len(p.Done))
	for _, h := range p.Done {
		bd[h] = true
	}
	rd := make(map[common.Hash]bool, len(p.RDone))
	for _, h := range p.RDone {
		rd[h] = true
	}
	for _, sl := range p.Cache {
		i, ok := s.idOf[sl.Hash]
		if !ok || i < s.released || i >= s.scheduled {
			s.fail("receipts:slot-stale", fmt.Sprintf("result slot %d holds header %x (block %d) which is not a scheduled, unreleased header", sl.Index, sl.Hash, sl.Number))
			return nil
		}
		want := 0
		if !bd[sl.Hash] {
			want++
		}
		if !rd[sl.Hash] {
			want++
		}
		if sl.Pending != want {
			s.fail("receipts:slot-pending-mismatch", fmt.Sprintf("result slot of block %d says %d parts pending, but body done=%v receipt done=%v", sl.Number, sl.Pending, bd[sl.Hash], rd[sl.Hash]))
			return nil
		}
	}
	return p
}

// ---------------------------------------------------------------- oracle B

func (s *rcRun) results() int {
	rs := s.q.Results(false)
	s.logf("results -> %d", len(rs))
	for _, res := range rs {
		want := s.sp.Origin + 1 + uint64(s.released)
		if res.Header == nil || res.Header.Number == nil {
			s.fail("receipts:result-out-of-order", "result without header")
			return 0
		}
		n := res.Header.Number.Uint64()
		if n != want || s.released >= s.scheduled {
			s.fail("receipts:result-out-of-order", fmt.Sprintf("Results handed out block %d, next expected was %d (scheduled up to %d)", n, want, s.sp.Origin+uint64(s.scheduled)))
			return 0
		}
		if res.Header.Hash() != s.hashes[s.released] {
			s.fail("receipts:result-out-of-order", fmt.Sprintf("Results handed out block %d with header %x, scheduled was %x", n, res.Header.Hash(), s.hashes[s.released]))
			return 0
		}
		if root := types.DeriveSha(res.Transactions); root != res.Header.TxHash {
			s.fail("receipts:result-body-mismatch", fmt.Sprintf("block %d handed out with %d transactions whose root is %x, header says %x", n, len(res.Transactions), root, res.Header.TxHash))
			return 0
		}
		if root := types.DeriveSha(res.Receipts); root != res.Header.ReceiptHash {
			s.fail("receipts:result-receipts-mismatch", fmt.Sprintf("block %d handed out with %d receipts whose root is %x, header says %x", n, len(res.Receipts), root, res.Header.ReceiptHash))
			return 0
		}
		s.released++
		s.c.Count("results_released", 1)
		s.c.Evals(1)
	}
	return len(rs)
}

// ---------------------------------------------------------------- operations

func (s *rcRun) bodiesFor(req *downloader.VerifRequest) [][]*types.Transaction {
	out := make([][]*types.Transaction, 0, len(req.Hashes))
	for _, h := range req.Hashes {
		out = append(out, s.txs[s.idOf[h]])
	}
	return out
}

func (s *rcRun) receiptsFor(req *downloader.VerifRequest) [][]*types.Receipt {
	out := make([][]*types.Receipt, 0, len(req.Hashes))
	for _, h := range req.Hashes {
		out = append(out, s.rcpts[s.idOf[h]])
	}
	return out
}

func (s *rcRun) knownRequest(req *downloader.VerifRequest, kind string) bool {
	for _, h := range req.Hashes {
		if _, ok := s.idOf[h]; !ok {
			s.fail("receipts:pool-foreign-task", fmt.Sprintf("%s-half: a request was handed out for hash %x which belongs to no header of the case", kind, h))
			return false
		}
	}
	return true
}

func (s *rcRun) reserve(pi int, receipts bool, count int) {
	p := s.peers[pi]
	if receipts {
		req, progress, err := s.q.ReserveReceipts(p, count)
		s.logf("p%d ReserveReceipts(%d) -> %s progress=%v err=%v", pi, count, reqStr(req), progress, err)
		if req != nil && s.knownRequest(req, "receipt") {
			s.rcptReq[pi] = req
			s.c.Count("receipt_requests_handed_out", 1)
		}
		if progress {
			s.c.Count("receipt_reserve_progress_empty", 1)
		}
		return
	}
	req, progress, err := s.q.ReserveBodies(p, count)
	s.logf("p%d ReserveBodies(%d) -> %s progress=%v err=%v", pi, count, reqStr(req), progress, err)
	if req != nil && s.knownRequest(req, "body") {
		s.bodyReq[pi] = req
		s.c.Count("body_requests_handed_out", 1)
	}
	_ = progress
}

func reqStr(r *downloader.VerifRequest) string {
	if r == nil {
		return "nil"
	}
	return fmt.Sprintf("%v", r.Numbers)
}

// deliver answers the outstanding request of peer pi (or, without one, sends something unsolicited).
// kind: 0 complete, 1 correct prefix, 2 empty, 3 one wrong element.
func (s *rcRun) deliver(pi int, receipts bool, kind int) {
	id := s.peers[pi].ID()
	if receipts {
		req := s.rcptReq[pi]
		if req == nil {
			j := s.r.Intn(s.sp.N)
			n, err := s.q.DeliverReceipts(id, [][]*types.Receipt{s.rcpts[j]})
			s.logf("p%d DeliverReceipts unsolicited -> %d %s", pi, n, downloader.VerifErrKind(err))
			s.c.Count("receipt_deliveries_unsolicited", 1)
			return
		}
		lists := s.receiptsFor(req)
		label := "receipt_deliveries_ok"
		switch {
		case kind == 1 && len(lists) > 1:
			lists = lists[:1+s.r.Intn(len(lists)-1)]
			label = "receipt_deliveries_partial"
			s.feat["rcpt-partial"] = true
		case kind == 2:
			lists = nil
			label = "receipt_deliveries_empty"
		case kind == 3:
			j := s.r.Intn(len(lists))
			lists = append([][]*types.Receipt(nil), lists...)
			lists[j] = []*types.Receipt{types.NewReceipt(nil, false, 1<<40+uint64(s.r.Intn(1<<20)))}
			label = "receipt_deliveries_wrong"
			s.feat["rcpt-wrong"] = true
		}
		n, err := s.q.DeliverReceipts(id, lists)
		s.logf("p%d DeliverReceipts(%s of %v) -> %d %s", pi, label, req.Numbers, n, downloader.VerifErrKind(err))
		s.c.Count(label, 1)
		s.rcptReq[pi] = nil
		return
	}
	req := s.bodyReq[pi]
	if req == nil {
		j := s.r.Intn(s.sp.N)
		n, err := s.q.DeliverBodies(id, [][]*types.Transaction{s.txs[j]})
		s.logf("p%d DeliverBodies unsolicited -> %d %s", pi, n, downloader.VerifErrKind(err))
		s.c.Count("body_deliveries_unsolicited", 1)
		return
	}
	lists := s.bodiesFor(req)
	label := "body_deliveries_ok"
	switch {
	case kind == 1 && len(lists) > 1:
		lists = lists[:1+s.r.Intn(len(lists)-1)]
		label = "body_deliveries_partial"
	case kind == 2:
		lists = nil
		label = "body_deliveries_empty"
	case kind == 3:
		j := s.r.Intn(len(lists))
		lists = append([][]*types.Transaction(nil), lists...)
		lists[j] = garbageList(s.r)
		label = "body_deliveries_wrong"
	}
	n, err := s.q.DeliverBodies(id, lists)
	s.logf("p%d DeliverBodies(%s of %v) -> %d %s", pi, label, req.Numbers, n, downloader.VerifErrKind(err))
	s.c.Count(label, 1)
	s.bodyReq[pi] = nil
}

func (s *rcRun) cancel(pi int, receipts bool) {
	if receipts {
		if req := s.rcptReq[pi]; req != nil {
			s.q.CancelReceipts(req)
			s.logf("p%d CancelReceipts %v", pi, req.Numbers)
			s.rcptReq[pi] = nil
			s.c.Count("receipt_cancels", 1)
			s.feat["rcpt-cancel"] = true
		}
		return
	}
	if req := s.bodyReq[pi]; req != nil {
		s.q.CancelBodies(req)
		s.logf("p%d CancelBodies %v", pi, req.Numbers)
		s.bodyReq[pi] = nil
		s.c.Count("body_cancels", 1)
	}
}

func (s *rcRun) expire(receipts bool) {
	if receipts {
		ex := s.q.ExpireReceipts(-time.Nanosecond)
		s.logf("ExpireReceipts(all) -> %d requests", len(ex))
		for i := range s.rcptReq {
			s.rcptReq[i] = nil
		}
		if len(ex) > 0 {
			s.c.Count("receipt_expiries", len(ex))
			s.feat["rcpt-expire"] = true
		}
		return
	}
	ex := s.q.ExpireBodies(-time.Nanosecond)
	s.logf("ExpireBodies(all) -> %d requests", len(ex))
	for i := range s.bodyReq {
		s.bodyReq[i] = nil
	}
	if len(ex) > 0 {
		s.c.Count("body_expiries", len(ex))
	}
}

func (s *rcRun) revoke(pi int) {
	id := s.peers[pi].ID()
	hadR, hadB := s.rcptReq[pi] != nil, s.bodyReq[pi] != nil
	s.q.Revoke(id)
	s.logf("Revoke p%d (body request %s, receipt request %s), reconnect", pi, reqStr(s.bodyReq[pi]), reqStr(s.rcptReq[pi]))
	if hadR {
		s.c.Count("revokes_with_receipt_request", 1)
		s.feat["revoke-rcpt"] = true
	}
	if hadB {
		s.c.Count("revokes_with_body_request", 1)
	}
	if hadR && hadB {
		s.c.Count("revokes_with_both_requests", 1)
	}
	s.rcptReq[pi], s.bodyReq[pi] = nil, nil
	s.peers[pi] = downloader.VerifNewPeer(id) // reconnected: nothing known to be lacking
}

// ---------------------------------------------------------------- case

func runReceiptsCase(c *kit.Ctx, id string) {
	r := c.Rand(id)
	sp := rcSpec{N: 12 + r.Intn(37), Origin: uint64(r.Intn(5000)), Peers: 3 + r.Intn(2), Steps: 30 + r.Intn(91), Slices: 1 + r.Intn(3)}
	c.Begin(id, sp)

	s := &rcRun{c: c, r: r, sp: sp, feat: map[string]bool{}}
	s.build()
	s.q = downloader.VerifNewQueue()
	s.q.Prepare(sp.Origin+1, downloader.FastSync)
	for i := 0; i < sp.Peers; i++ {
		s.peers = append(s.peers, downloader.VerifNewPeer(fmt.Sprintf("p%d", i)))
	}
	s.bodyReq = make([]*downloader.VerifRequest, sp.Peers)
	s.rcptReq = make([]*downloader.VerifRequest, sp.Peers)

	s.scheduleNext(false)
	s.checkPools()

	// ---------------- fault phase ----------------
	for step := 0; step < sp.Steps && !s.dead; step++ {
		pi := r.Intn(sp.Peers)
		receipts := r.Intn(100) < 60
		x := r.Intn(100)
		if x >= 34 && x < 70 && r.Intn(100) < 85 {
			// deliver / cancel: mostly for a peer that has such a request outstanding
			reqs := s.bodyReq
			if receipts {
				reqs = s.rcptReq
			}
			var have []int
			for i := 0; i < sp.Peers; i++ {
				if reqs[i] != nil {
					have = append(have, i)
				}
			}
			if len(have) > 0 {
				pi = have[r.Intn(len(have))]
			}
		}
		switch {
		case x < 34:
			s.reserve(pi, receipts, 1+r.Intn(16))
		case x < 62:
			k := 0
			switch y := r.Intn(10); {
			case y < 5:
				k = 0
			case y < 7:
				k = 1
			case y < 8:
				k = 2
			default:
				k = 3
			}
			s.deliver(pi, receipts, k)
		case x < 70:
			s.cancel(pi, receipts)
		case x < 75:
			s.expire(receipts)
		case x < 87:
			s.revoke(pi)
		case x < 92:
			s.scheduleNext(false)
		default:
			s.results()
		}
		s.checkPools()
	}
	if s.dead {
		c.End("")
		return
	}

	// ---------------- faults stop: a fresh honest peer must complete the range ----------------
	s.scheduleNext(true)
	s.checkPools()
	if !s.dead && s.scheduled != sp.N {
		// cannot happen with genuine parent-linked slices offered in order; not part of the statement
		c.EndInconclusive(fmt.Sprintf("Schedule accepted only %d of %d genuine headers", s.scheduled, sp.N))
		return
	}
	s.expire(false)
	s.expire(true)
	s.checkPools()
	honest := downloader.VerifNewPeer("honest")
	s.peers = append(s.peers, honest)
	s.bodyReq = append(s.bodyReq, nil)
	s.rcptReq = append(s.rcptReq, nil)
	hi := len(s.peers) - 1
	bound := 4*sp.N + 16
	rounds := 0
	for ; rounds < bound && !s.dead && s.released < sp.N; rounds++ {
		s.reserve(hi, false, 64)
		s.checkPools()
		if !s.dead && s.bodyReq[hi] != nil {
			s.deliver(hi, false, 0)
			s.checkPools()
		}
		if s.dead {
			break
		}
		s.reserve(hi, true, 64)
		s.checkPools()
		if !s.dead && s.rcptReq[hi] != nil {
			s.deliver(hi, true, 0)
			s.checkPools()
		}
		if s.dead {
			break
		}
		s.results()
		s.checkPools()
	}
	if s.dead {
		c.End("")
		return
	}
	c.Max("max_completion_rounds", int64(rounds))
	if s.released < sp.N {
		p := s.q.VerifPools()
		body := halfView{"body", p.TaskPool, p.TaskQueue, p.Done, p.Pending}
		rcpt := halfView{"receipt", p.RTaskPool, p.RTaskQueue, p.RDone, p.RPending}
		var miss []string
		for i := s.released; i < sp.N && len(miss) < 8; i++ {
			miss = append(miss, fmt.Sprintf("block %d: body task %s | receipt task %s", sp.Origin+1+uint64(i), s.where(body, s.hashes[i]), s.where(rcpt, s.hashes[i])))
		}
		s.fail("receipts:incomplete-without-faults", fmt.Sprintf("a fresh honest peer released only %d of %d blocks within %d rounds (reserve bodies, deliver, reserve receipts, deliver, retrieve); first missing: %s",
			s.released, sp.N, bound, strings.Join(miss, " ;; ")))
		c.End("")
		return
	}
	// after completion nothing may be left anywhere
	if p := s.checkPools(); p != nil && len(p.Cache) != 0 {
		s.fail("receipts:slot-stale", fmt.Sprintf("%d result slots are still occupied after every block was released", len(p.Cache)))
	}
	if s.dead {
		c.End("")
		return
	}
	c.Count("cases_completed", 1)
	var fs []string
	for f := range s.feat {
		fs = append(fs, f)
	}
	sort.Strings(fs)
	if len(fs) > 0 && r.Intn(40) == 0 {
		c.Sample(map[string]interface{}{"spec": sp, "features": fs, "ops": len(s.ops), "completion_rounds": rounds})
	}
	c.End(fmt.Sprintf("receipts n%d peers%d slices%d %v", sp.N/12, sp.Peers, sp.Slices, fs))
}
