package c18

import (
	"fmt"
	"math/rand"
	"runtime"
	"sort"
	"sync"
	"sync/atomic"
	"time"

	"verif/kit"
	"verif/model"

	"github.com/anishathalye/porcupine"
	"github.com/youchainhq/go-youchain/core/types"
	"github.com/youchainhq/go-youchain/you/downloader"
)

func init() { kit.Register("C18.conc", runConc) }

type concSpec struct {
	Chain    chainSpec `json:"chain"`
	Peers    int       `json:"peers"`
	Profiles []int     `json:"profiles"`
	Cache    int       `json:"cache_items"`
	MaxRes   int       `json:"max_results_process"`
	Iter     int       `json:"iterations_per_peer"`
	Cancel   bool      `json:"cancel_mode"` // peers cancel their own live request; nobody else expires/revokes
	Blocking bool      `json:"blocking_consumer"`
	Timer    int       `json:"timer_ops"`
	Consumer int       `json:"consumer_ops"`
	Seeds    []int64   `json:"seeds"`
}

type histOp struct {
	Client int           `json:"client"`
	Call   int64         `json:"call"`
	Ret    int64         `json:"ret"`
	In     *model.C18In  `json:"in"`
	Out    *model.C18Out `json:"out"`
}

type recorder struct {
	clock *int64
	ops   []histOp
	id    int
}

func (rc *recorder) call() int64 { return atomic.AddInt64(rc.clock, 1) }
func (rc *recorder) done(call int64, in *model.C18In, out *model.C18Out) {
	rc.ops = append(rc.ops, histOp{Client: rc.id, Call: call, Ret: atomic.AddInt64(rc.clock, 1), In: in, Out: out})
}

func yield(r *rand.Rand) {
	switch r.Intn(6) {
	case 0:
	case 1, 2:
		runtime.Gosched()
	case 3:
		for k := r.Intn(4); k >= 0; k-- {
			runtime.Gosched()
		}
	case 4:
		x := 0
		for k := r.Intn(2000); k > 0; k-- {
			x += k
		}
		_ = x
	case 5:
		time.Sleep(time.Duration(r.Intn(50)) * time.Microsecond) // scheduling perturbation only
	}
}

func genConcSpec(r *rand.Rand) concSpec {
	var sp concSpec
	sp.Peers = 2 + r.Intn(2)
	sp.Chain.N = 3 + r.Intn(22)
	sp.Chain.NLists = 1 + r.Intn(4)
	sp.Chain.EmptyPct = []int{0, 20, 50, 80}[r.Intn(4)]
	if r.Intn(2) == 0 {
		sp.Chain.Origin = uint64(r.Intn(1000))
	}
	for p := 0; p < sp.Peers; p++ {
		pr := 0
		if r.Intn(2) == 0 {
			pr = r.Intn(len(profiles))
		}
		sp.Profiles = append(sp.Profiles, pr)
	}
	sp.Cache = []int{2, 4, 8, 64}[r.Intn(4)]
	sp.MaxRes = []int{1, 3, 2048}[r.Intn(3)]
	sp.Iter = 6 + r.Intn(7)
	sp.Cancel = r.Intn(4) == 0
	sp.Blocking = r.Intn(3) == 0
	sp.Timer = 4 + r.Intn(7)
	sp.Consumer = 4 + r.Intn(7)
	for i := 0; i < sp.Peers+2; i++ {
		sp.Seeds = append(sp.Seeds, r.Int63())
	}
	return sp
}

func runConc(c *kit.Ctx) {
	n := c.N(900, 45000)
	for i := 0; i < n; i++ {
		id := fmt.Sprintf("h%d", i)
		if !c.Mine(i, id) {
			continue
		}
		runConcCase(c, id)
	}
}

func runConcCase(c *kit.Ctx, id string) {
	r := c.Rand(id)
	sp := genConcSpec(r)
	c.Begin(id, sp)
	oi, om := downloader.VerifSetCacheLimits(sp.Cache, 0)
	omr := downloader.VerifSetMaxResultsProcess(sp.MaxRes)
	defer func() {
		downloader.VerifSetCacheLimits(oi, om)
		downloader.VerifSetMaxResultsProcess(omr)
	}()
	npeers := sp.Peers + 1 // + the honest peer of the final drain
	ch := genChain(r, sp.Chain, npeers)
	a := newRQ(ch, npeers, false)
	counts := []int{1, 2, 3, 5, 128}

	var clock int64
	recs := make([]*recorder, sp.Peers+2)
	for i := range recs {
		recs[i] = &recorder{clock: &clock, id: i}
	}
	start := make(chan struct{})
	var wg, wgConsumer sync.WaitGroup
	var results [][]downloader.VerifResult // consumer's batches in its program order

	// schedule the first chunk before anything runs (processHeaders does that before waking fetchers)
	first := 1 + r.Intn(sp.Chain.N)
	nsch := 0
	{
		var hdrs []*types.Header
		var mh []model.C18Hdr
		for i := 0; i < first; i++ {
			hdrs = append(hdrs, ch.hdrs[i])
			mh = append(mh, ch.mhdr(i))
		}
		rec := recs[sp.Peers]
		t := rec.call()
		in, out := a.schedule(hdrs, mh, ch.num(0))
		rec.done(t, in, out)
		nsch = out.N
	}

	// peers
	for p := 0; p < sp.Peers; p++ {
		p := p
		wg.Add(1)
		go func() {
			defer wg.Done()
			pr := rand.New(rand.NewSource(sp.Seeds[p]))
			rec := recs[p]
			var mine *downloader.VerifRequest
			var old []stashed
			<-start
			for it := 0; it < sp.Iter; it++ {
				yield(pr)
				x := pr.Intn(10)
				switch {
				case x < 5 || (mine == nil && x < 8):
					t := rec.call()
					in, out, req := a.reserve(p, counts[pr.Intn(len(counts))])
					rec.done(t, in, out)
					if req != nil {
						mine = req
					}
				case x < 8:
					if sp.Cancel && pr.Intn(3) == 0 {
						t := rec.call()
						in, out := a.cancel(p, mine)
						rec.done(t, in, out)
						mine = nil
						break
					}
					kind := pick(pr, profiles[sp.Profiles[p]])
					if kind == rStall {
						break
					}
					bodies, bids := buildResponse(pr, ch, a.ids(mine.Hashes), kind)
					t := rec.call()
					in, out := a.deliver(p, bodies, bids)
					rec.done(t, in, out)
					if len(old) < 3 {
						old = append(old, stashed{bodies, bids})
					}
					mine = nil
				case x == 8:
					// duplicate of an older response, or unrequested bodies
					var bodies [][]*types.Transaction
					var bids []int
					if len(old) > 0 && pr.Intn(2) == 0 {
						o := old[pr.Intn(len(old))]
						bodies, bids = o.bodies, o.bids
					} else {
						bodies, bids = buildResponse(pr, ch, []int{pr.Intn(len(ch.hdrs))}, rFull)
					}
					if sp.Cancel && mine != nil {
						break // keep "mine is live" exact in cancel mode
					}
					t := rec.call()
					in, out := a.deliver(p, bodies, bids)
					rec.done(t, in, out)
					mine = nil
				default:
					if sp.Cancel {
						break
					}
					// disconnect: revoke own tasks, come back as a fresh connection
					t := rec.call()
					in, out := a.revoke(p)
					rec.done(t, in, out)
					a.reconnect(p)
					mine = nil
				}
			}
		}()
	}
	// timer / header processor
	wg.Add(1)
	go func() {
		defer wg.Done()
		tr := rand.New(rand.NewSource(sp.Seeds[sp.Peers]))
		rec := recs[sp.Peers]
		<-start
		for it := 0; it < sp.Timer; it++ {
			yield(tr)
			x := tr.Intn(10)
			switch {
			case x < 4 && nsch < len(ch.hdrs):
				k := 1 + tr.Intn(len(ch.hdrs)-nsch)
				var hdrs []*types.Header
				var mh []model.C18Hdr
				for i := nsch; i < nsch+k; i++ {
					hdrs = append(hdrs, ch.hdrs[i])
					mh = append(mh, ch.mhdr(i))
				}
				from := ch.num(nsch)
				switch tr.Intn(6) {
				case 0:
					from++
				case 1:
					if k > 1 {
						j := tr.Intn(k)
						hdrs[j], mh[j] = ch.forged(tr, nsch+j)
					}
				}
				t := rec.call()
				in, out := a.schedule(hdrs, mh, from)
				rec.done(t, in, out)
				nsch += out.N
			case sp.Cancel:
			case x < 7:
				t := rec.call()
				in, out := a.expireAll()
				rec.done(t, in, out)
			default:
				t := rec.call()
				in, out := a.revoke(tr.Intn(sp.Peers))
				rec.done(t, in, out)
			}
		}
	}()
	// consumer
	wgConsumer.Add(1)
	go func() {
		defer wgConsumer.Done()
		cr := rand.New(rand.NewSource(sp.Seeds[sp.Peers+1]))
		rec := recs[sp.Peers+1]
		<-start
		if sp.Blocking {
			for {
				t := rec.call()
				in, out, rs := a.results(true)
				rec.done(t, in, out)
				if len(rs) == 0 {
					return // closed and drained
				}
				results = append(results, rs)
			}
		}
		for it := 0; it < sp.Consumer; it++ {
			yield(cr)
			t := rec.call()
			in, out, rs := a.results(false)
			rec.done(t, in, out)
			if len(rs) > 0 {
				results = append(results, rs)
			}
		}
	}()
	close(start)
	wg.Wait()
	if sp.Blocking {
		a.q.Close()
	}
	wgConsumer.Wait()

	// ---- the history
	var hist []histOp
	for _, rec := range recs {
		hist = append(hist, rec.ops...)
	}
	sort.Slice(hist, func(i, j int) bool { return hist[i].Call < hist[j].Call })
	overlaps := 0
	var maxRet int64
	for _, h := range hist {
		if h.Call < maxRet {
			overlaps++
		}
		if h.Ret > maxRet {
			maxRet = h.Ret
		}
	}
	ops := make([]porcupine.Operation, len(hist))
	for i, h := range hist {
		ops[i] = porcupine.Operation{ClientId: h.Client, Input: h.In, Call: h.Call, Output: h.Out, Return: h.Ret}
		c.Count("op_"+model.C18OpName(h.In.Kind), 1)
	}
	pm := porcupine.Model{
		Init: func() interface{} { s := model.C18Init(ch.mc); s.Key(); return s },
		Step: func(state, input, output interface{}) (bool, interface{}) {
			ok, _, next := model.C18Step(ch.mc, state.(*model.C18State), input.(*model.C18In), output.(*model.C18Out))
			if ok {
				next.Key()
			}
			return ok, next
		},
		Equal: func(x, y interface{}) bool { return x.(*model.C18State).Key() == y.(*model.C18State).Key() },
	}
	c.Evals(1)
	c.Count("histories", 1)
	c.Count("history_ops", len(hist))
	c.Count("overlapping_ops", overlaps)
	c.Max("max_history_ops", int64(len(hist)))
	res := porcupine.CheckOperationsTimeout(pm, ops, 30*time.Second)
	witness := map[string]interface{}{"spec": sp, "history": hist}
	bad := false
	switch res {
	case porcupine.Illegal:
		// explain: replay the history in call order sequentially to name the first refusal (a hint only)
		st := model.C18Init(ch.mc)
		hint := ""
		for _, h := range hist {
			ok, why, next := model.C18Step(ch.mc, st, h.In, h.Out)
			if !ok {
				hint = fmt.Sprintf(" (in call order the first refused op is client %d at t=%d: %s)", h.Client, h.Call, why)
				break
			}
			st = next
		}
		c.Violation("history-not-linearizable", fmt.Sprintf("no sequential order of the %d recorded operations is allowed by the task-state model%s", len(hist), hint), witness)
		bad = true
	case porcupine.Unknown:
		c.EndInconclusive("porcupine checker timeout")
		return
	}
	// ---- the consumer's stream (single consumer: its program order is the hand-out order)
	rc := &resultChecker{ch: ch}
	for _, batch := range results {
		if bad {
			break
		}
		for _, r := range batch {
			c.Evals(1)
			if b := rc.check(r.Header, r.Transactions, r.Pending); b != nil {
				c.Violation(b.class, b.msg, witness)
				bad = true
				break
			}
		}
	}
	c.Count("released_concurrently", rc.next)
	// ---- quiescent point: task conservation
	if !bad {
		c.Evals(1)
		c.Count("pool_snapshots", 1)
		if b := checkPools(ch, a.q.VerifPools(), nsch, rc.next, nil, npeers, false); b != nil {
			c.Violation(b.class, "after the concurrent phase: "+b.msg, witness)
			bad = true
		}
	}
	// ---- faults stop: a fresh honest peer completes the range in bounded scheduler rounds
	rounds, bound := 0, 2*(len(ch.hdrs)+npeers)+8
	hp := sp.Peers
	for !bad && rc.next < len(ch.hdrs) {
		if rounds >= bound {
			c.Violation("no-progress", fmt.Sprintf("after the concurrent phase %d of %d blocks are released after %d honest scheduler rounds (bound %d)", rc.next, len(ch.hdrs), rounds, bound), witness)
			bad = true
			break
		}
		rounds++
		if nsch < len(ch.hdrs) {
			var hdrs []*types.Header
			var mh []model.C18Hdr
			for i := nsch; i < len(ch.hdrs); i++ {
				hdrs = append(hdrs, ch.hdrs[i])
				mh = append(mh, ch.mhdr(i))
			}
			_, out := a.schedule(hdrs, mh, ch.num(nsch))
			if out.N != len(hdrs) {
				c.Violation("schedule-count-mismatch", fmt.Sprintf("the remaining %d genuine headers from %d were offered, %d inserted", len(hdrs), ch.num(nsch), out.N), witness)
				bad = true
				break
			}
			nsch += out.N
		}
		a.expireAll()
		_, rout, req := a.reserve(hp, counts[r.Intn(len(counts))])
		if rout.Err != "" {
			c.Violation("reserve-error", "error "+rout.Err+" on a valid chain (final drain)", witness)
			bad = true
			break
		}
		if req != nil {
			bodies, bids := buildResponse(r, ch, a.ids(req.Hashes), rFull)
			_, dout := a.deliver(hp, bodies, bids)
			if dout.N != len(bodies) {
				c.Violation("deliver-honest-rejected", fmt.Sprintf("honest complete response of %d bodies: accepted %d err=%q (final drain)", len(bodies), dout.N, dout.Err), witness)
				bad = true
				break
			}
		}
		for !bad {
			_, _, rs := a.results(false)
			if len(rs) == 0 {
				break
			}
			for _, x := range rs {
				c.Evals(1)
				if b := rc.check(x.Header, x.Transactions, x.Pending); b != nil {
					c.Violation(b.class, "final drain: "+b.msg, witness)
					bad = true
					break
				}
			}
		}
	}
	if !bad {
		c.Evals(1)
		if b := checkPools(ch, a.q.VerifPools(), nsch, rc.next, nil, npeers, false); b != nil {
			c.Violation(b.class, "end: "+b.msg, witness)
		}
	}
	c.Count("released_blocks", rc.next)
	c.Count("progress_rounds", rounds)
	if sp.Blocking {
		c.Count("blocking_consumer_histories", 1)
	}
	if sp.Cancel {
		c.Count("cancel_mode_histories", 1)
	}
	c.Sample(map[string]interface{}{"spec": sp, "ops": len(hist), "overlapping": overlaps, "first_ops": firstOps(hist, 10)})
	ob := "none"
	switch {
	case overlaps > len(hist)/2:
		ob = "heavy"
	case overlaps > 0:
		ob = "some"
	}
	kinds := map[int]bool{}
	for _, h := range hist {
		kinds[h.In.Kind] = true
	}
	var ks []string
	for k := range kinds {
		ks = append(ks, model.C18OpName(k))
	}
	sort.Strings(ks)
	c.End(fmt.Sprintf("peers%d cancel%v blocking%v cache%d cap%d overlap-%s concurrent-released-%v %v", sp.Peers, sp.Cancel, sp.Blocking, sp.Cache, sp.MaxRes, ob, rc.next > 0, ks))
}

func firstOps(h []histOp, n int) []histOp {
	if len(h) > n {
		return h[:n]
	}
	return h
}
