// Package c18 holds the workloads and monitors of property C18.
package c18
