package c18

import (
	"errors"
	"fmt"
	"sync"
	"time"

	"verif/kit"

	"github.com/youchainhq/go-youchain/common"
	"github.com/youchainhq/go-youchain/core/types"
	"github.com/youchainhq/go-youchain/you/fetcher"
)

// Auxiliary workload: you/fetcher (block announcements / propagated blocks). Only what the property
// says about "once" and "parent first" is asserted on the recorded insertChain callback sequence;
// the strict ordering clause is about the download scheduler and is not demanded here. Timers of
// the fetcher are constants (400 ms announce collation), so this runs in the thorough tier only.

func init() { kit.Register("C18.fetcher", runFetcher) }

type fetcherSpec struct {
	Chain  chainSpec `json:"chain"`
	Peers  int       `json:"peers"`
	Start  int       `json:"local_height"`
	Events int       `json:"events"`
	Forks  int       `json:"sibling_blocks"`
}

type fchain struct {
	mu       sync.Mutex
	known    map[common.Hash]*types.Block
	height   uint64
	inserted int
	calls    int
	bad      *badResult
	seq      []uint64
}

func runFetcher(c *kit.Ctx) {
	n := c.N(6, 640)
	for i := 0; i < n; i++ {
		id := fmt.Sprintf("f%d", i)
		if !c.Mine(i, id) {
			continue
		}
		runFetcherCase(c, id)
	}
}

func runFetcherCase(c *kit.Ctx, id string) {
	r := c.Rand(id)
	sp := fetcherSpec{Peers: 1 + r.Intn(4), Events: 20 + r.Intn(120), Forks: r.Intn(4)}
	sp.Chain = chainSpec{N: 5 + r.Intn(60), EmptyPct: []int{0, 50, 100}[r.Intn(3)], NLists: 3}
	sp.Start = r.Intn(sp.Chain.N)
	c.Begin(id, sp)
	ch := genChain(r, sp.Chain, sp.Peers)
	mk := func(h *types.Header, b int) *types.Block {
		return types.NewBlockWithHeader(h).WithBody(&types.Body{Transactions: ch.lists[b]})
	}
	blocks := make([]*types.Block, len(ch.hdrs))
	for i, h := range ch.hdrs {
		blocks[i] = mk(h, ch.bodyID[i])
	}
	// sibling blocks: same number and parent as a chain block, different content
	var siblings []*types.Block
	for k := 0; k < sp.Forks; k++ {
		i := r.Intn(len(ch.hdrs))
		h := types.CopyHeader(ch.hdrs[i])
		h.Extra = []byte{0xfe, byte(k)}
		siblings = append(siblings, mk(h, ch.bodyID[i]))
	}
	fc := &fchain{known: map[common.Hash]*types.Block{}}
	fc.known[ch.genesis.Hash()] = types.NewBlockWithHeader(ch.genesis)
	for i := 0; i < sp.Start; i++ {
		fc.known[blocks[i].Hash()] = blocks[i]
	}
	fc.height = ch.origin + uint64(sp.Start)
	badHdr := map[common.Hash]bool{}
	if r.Intn(3) == 0 {
		badHdr[blocks[r.Intn(len(blocks))].Hash()] = true
	}
	dropped := map[string]int{}
	getBlock := func(h common.Hash) *types.Block {
		fc.mu.Lock()
		defer fc.mu.Unlock()
		return fc.known[h]
	}
	verify := func(h *types.Header) error {
		if badHdr[h.Hash()] {
			return errors.New("bad header")
		}
		return nil
	}
	height := func() uint64 {
		fc.mu.Lock()
		defer fc.mu.Unlock()
		return fc.height
	}
	insert := func(bs types.Blocks) error {
		fc.mu.Lock()
		defer fc.mu.Unlock()
		fc.calls++
		for _, b := range bs {
			h := b.Hash()
			fc.seq = append(fc.seq, b.NumberU64())
			if fc.bad != nil {
				return errors.New("rejected")
			}
			if _, ok := fc.known[h]; ok {
				fc.bad = &badResult{"fetcher-block-inserted-twice", fmt.Sprintf("block %d (%x) handed to insertChain although the chain already has it", b.NumberU64(), h[:6])}
				return errors.New("rejected")
			}
			if _, ok := fc.known[b.ParentHash()]; !ok {
				fc.bad = &badResult{"fetcher-parent-unknown", fmt.Sprintf("block %d (%x) handed to insertChain before its parent is known", b.NumberU64(), h[:6])}
				return errors.New("rejected")
			}
			if badHdr[h] {
				fc.bad = &badResult{"fetcher-unverified-block-inserted", fmt.Sprintf("block %d whose header failed verification was handed to insertChain", b.NumberU64())}
				return errors.New("rejected")
			}
			fc.known[h] = b
			if b.NumberU64() > fc.height {
				fc.height = b.NumberU64()
			}
			fc.inserted++
		}
		return nil
	}
	var dmu sync.Mutex
	f := fetcher.New(getBlock, verify, func(*types.Block, bool) {}, height, insert, func(id string) {
		dmu.Lock()
		dropped[id]++
		dmu.Unlock()
	})
	f.Start()
	byHash := map[common.Hash]*types.Block{}
	for _, b := range blocks {
		byHash[b.Hash()] = b
	}
	for _, b := range siblings {
		byHash[b.Hash()] = b
	}
	offered := map[common.Hash]bool{}
	var omu sync.Mutex
	announces, enqueues := 0, 0
	for e := 0; e < sp.Events; e++ {
		peer := peerName(r.Intn(sp.Peers))
		// mostly near the local head, sometimes anywhere (old / far ahead)
		var b *types.Block
		hnow := int(height() - ch.origin)
		switch x := r.Intn(10); {
		case x < 6:
			i := hnow + r.Intn(6) - 1
			if i < 0 {
				i = 0
			}
			if i >= len(blocks) {
				i = len(blocks) - 1
			}
			b = blocks[i]
		case x < 9 || len(siblings) == 0:
			b = blocks[r.Intn(len(blocks))]
		default:
			b = siblings[r.Intn(len(siblings))]
		}
		if r.Intn(4) == 0 {
			announces++
			behave := r.Intn(5)
			blk := b
			f.Notify(peer, b.Hash(), b.NumberU64(), time.Now(), func(h common.Hash) error {
				switch behave {
				case 0: // never delivers
				case 1: // delivers a different block
					f.Enqueue(peer, blocks[int(h[0])%len(blocks)])
				default:
					omu.Lock()
					offered[blk.Hash()] = true
					omu.Unlock()
					f.Enqueue(peer, blk)
				}
				return nil
			})
		} else {
			enqueues++
			omu.Lock()
			offered[b.Hash()] = true
			omu.Unlock()
			f.Enqueue(peer, b)
			if r.Intn(6) == 0 {
				f.Enqueue(peerName(r.Intn(sp.Peers)), b) // duplicate from another peer
			}
		}
		if r.Intn(8) == 0 {
			time.Sleep(time.Duration(r.Intn(30)) * time.Millisecond) // pacing only
		}
	}
	// let the fetcher's timers run out (pacing only: the oracle below is time-free)
	last, stable := -1, 0
	for i := 0; i < 100 && stable < 18; i++ {
		time.Sleep(50 * time.Millisecond)
		fc.mu.Lock()
		cur := fc.inserted
		fc.mu.Unlock()
		if cur == last {
			stable++
		} else {
			stable, last = 0, cur
		}
	}
	f.Stop()
	fc.mu.Lock()
	bad, inserted, calls := fc.bad, fc.inserted, fc.calls
	seq := append([]uint64(nil), fc.seq...)
	fc.mu.Unlock()
	c.Evals(calls + 1)
	if bad != nil {
		c.Violation(bad.class, bad.msg, map[string]interface{}{"spec": sp, "insert_sequence": seq})
	}
	dmu.Lock()
	nd := len(dropped)
	dmu.Unlock()
	c.Count("fetcher_cases", 1)
	c.Count("fetcher_announces", announces)
	c.Count("fetcher_enqueues", enqueues)
	c.Count("fetcher_insert_calls", calls)
	c.Count("fetcher_blocks_inserted", inserted)
	c.Count("fetcher_peers_dropped", nd)
	c.Sample(map[string]interface{}{"spec": sp, "inserted": inserted, "insert_sequence_head": firstU64(seq, 16)})
	c.End(fmt.Sprintf("fetcher peers%d forks%v badhdr%v inserted%v dropped%v", sp.Peers, sp.Forks > 0, len(badHdr) > 0, inserted > 0, nd > 0))
}

func firstU64(s []uint64, n int) []uint64 {
	if len(s) > n {
		return s[:n]
	}
	return s
}
