package c18

import (
	"fmt"
	"sort"
	"time"

	"verif/model"

	"github.com/youchainhq/go-youchain/common"
	"github.com/youchainhq/go-youchain/core/types"
	"github.com/youchainhq/go-youchain/you/downloader"
)

// rq drives the real queue and translates every call into the model's (input, output) pair.
// It holds no oracle state of its own.
type rq struct {
	q     *downloader.VerifQueue
	ch    *chain
	peers []*downloader.VerifPeer
	pidx  map[string]int
	fast  bool // fast-sync mode: every block also has a (here always empty) receipt part
}

func peerName(i int) string { return fmt.Sprintf("p%d", i) }

func newRQ(ch *chain, npeers int, fast bool) *rq {
	a := &rq{q: downloader.VerifNewQueue(), ch: ch, pidx: map[string]int{}, fast: fast}
	for i := 0; i < npeers; i++ {
		a.peers = append(a.peers, downloader.VerifNewPeer(peerName(i)))
		a.pidx[peerName(i)] = i
	}
	mode := downloader.FullSync
	if fast {
		mode = downloader.FastSync
	}
	a.q.Prepare(ch.origin+1, mode)
	return a
}

// receipts lets peer p reserve receipt fetches (fast-sync mode). Every generated header has the
// empty receipt root, so the scheduler completes the receipt parts by itself and never hands out
// a request; the returned string is non-empty if it did something else.
func (a *rq) receipts(p, count int) (progress bool, problem string) {
	req, progress, err := a.q.ReserveReceipts(a.peers[p], count)
	if err != nil {
		return progress, "ReserveReceipts error " + downloader.VerifErrKind(err)
	}
	if req != nil {
		return progress, fmt.Sprintf("ReserveReceipts handed out %d headers although every receipt root is the empty root", len(req.Hashes))
	}
	return progress, ""
}

// reconnect replaces peer i by a fresh connection with the same id (empty lacking set).
func (a *rq) reconnect(i int) { a.peers[i] = downloader.VerifNewPeer(peerName(i)) }

func (a *rq) ids(hs []common.Hash) []int {
	out := make([]int, len(hs))
	for i, h := range hs {
		id, ok := a.ch.idOf[h]
		if !ok {
			id = -1
		}
		out[i] = id
	}
	return out
}

func (a *rq) schedule(hdrs []*types.Header, mh []model.C18Hdr, from uint64) (*model.C18In, *model.C18Out) {
	ins := a.q.Schedule(hdrs, from)
	return &model.C18In{Kind: model.C18Schedule, From: from, Headers: mh}, &model.C18Out{N: len(ins)}
}

func (a *rq) reserve(p, count int) (*model.C18In, *model.C18Out, *downloader.VerifRequest) {
	req, progress, err := a.q.ReserveBodies(a.peers[p], count)
	out := &model.C18Out{Progress: progress, Err: downloader.VerifErrKind(err)}
	if req != nil {
		out.IDs = a.ids(req.Hashes)
	}
	return &model.C18In{Kind: model.C18Reserve, Peer: p, Count: count}, out, req
}

func (a *rq) deliver(p int, bodies [][]*types.Transaction, bodyIDs []int) (*model.C18In, *model.C18Out) {
	n, err := a.q.DeliverBodies(peerName(p), bodies)
	kind := downloader.VerifErrKind(err)
	if len(kind) > 6 && kind[:6] == "other:" {
		kind = "partial-failure"
	}
	return &model.C18In{Kind: model.C18Deliver, Peer: p, Bodies: bodyIDs}, &model.C18Out{N: n, Err: kind}
}

func (a *rq) cancel(p int, req *downloader.VerifRequest) (*model.C18In, *model.C18Out) {
	a.q.CancelBodies(req)
	return &model.C18In{Kind: model.C18Cancel, Peer: p}, &model.C18Out{}
}

func (a *rq) revoke(p int) (*model.C18In, *model.C18Out) {
	a.q.Revoke(peerName(p))
	return &model.C18In{Kind: model.C18Revoke, Peer: p}, &model.C18Out{}
}

// expireAll expires every request in flight (negative timeout: time.Since(t) > timeout always).
func (a *rq) expireAll() (*model.C18In, *model.C18Out) {
	m := a.q.ExpireBodies(-time.Nanosecond)
	return &model.C18In{Kind: model.C18Expire}, &model.C18Out{Expired: a.expMap(m)}
}

// expireAged expires with a one-hour allowance; only requests the harness aged by two hours
// (logical clock, VerifQueue.Age) are older than that.
func (a *rq) expireAged(aged []int) (*model.C18In, *model.C18Out) {
	m := a.q.ExpireBodies(time.Hour)
	return &model.C18In{Kind: model.C18Expire, Aged: aged, AgedSel: true}, &model.C18Out{Expired: a.expMap(m)}
}

func (a *rq) expMap(m map[string]int) map[int]int {
	o := map[int]int{}
	for id, n := range m {
		if i, ok := a.pidx[id]; ok {
			o[i] = n
		} else {
			o[-1] = n
		}
	}
	return o
}

func (a *rq) results(block bool) (*model.C18In, *model.C18Out, []downloader.VerifResult) {
	rs := a.q.Results(block)
	out := &model.C18Out{}
	for _, r := range rs {
		id, ok := a.ch.idOf[r.Hash]
		if !ok {
			id = -1
		}
		out.IDs = append(out.IDs, id)
	}
	return &model.C18In{Kind: model.C18Results}, out, rs
}

// checkPools is the task-conservation invariant, evaluated on a VerifPools snapshot taken under
// the queue lock at a quiescent point. It needs only what the harness knows for sure: which
// headers Schedule accepted (ids < nsched) and how many Results handed out (ids < released).
// Every scheduled, unreleased header must be in exactly one of {task queue, some peer's pending
// request, done-awaiting-release}; nothing else may be anywhere. st (optional) is the model
// state: then the place must also be the one the model says.
func checkPools(ch *chain, snap *downloader.VerifPoolsSnapshot, nsched, released int, st *model.C18State, npeers int, fast bool) *badResult {
	// in fast-sync mode a result slot has two parts; the body part is what this check follows
	maxPending := 1
	if fast {
		maxPending = 2
	}
	type place struct {
		queue, pend, done, pool int
		owner                   int
	}
	pl := make([]place, len(ch.hdrs))
	for i := range pl {
		pl[i].owner = -1
	}
	look := func(h common.Hash, where string) (int, *badResult) {
		id, ok := ch.idOf[h]
		if !ok {
			return 0, &badResult{"pool-foreign-task", fmt.Sprintf("%s holds hash %x which is not a scheduled header", where, h)}
		}
		return id, nil
	}
	for _, h := range snap.TaskQueue {
		id, b := look(h, "task queue")
		if b != nil {
			return b
		}
		pl[id].queue++
	}
	for _, h := range snap.TaskPool {
		id, b := look(h, "task pool")
		if b != nil {
			return b
		}
		pl[id].pool++
	}
	for _, h := range snap.Done {
		id, b := look(h, "done pool")
		if b != nil {
			return b
		}
		pl[id].done++
	}
	pids := make([]string, 0, len(snap.Pending))
	for pid := range snap.Pending {
		pids = append(pids, pid)
	}
	sort.Strings(pids)
	for _, pid := range pids {
		hs := snap.Pending[pid]
		if len(hs) == 0 {
			return &badResult{"pool-empty-request", fmt.Sprintf("peer %s owns a request without headers", pid)}
		}
		for _, h := range hs {
			id, b := look(h, "pending pool of "+pid)
			if b != nil {
				return b
			}
			pl[id].pend++
			pl[id].owner = -2
			for i := 0; i < npeers; i++ {
				if peerName(i) == pid {
					pl[id].owner = i
				}
			}
		}
	}
	if !fast && len(snap.RTaskPool)+len(snap.RTaskQueue)+len(snap.RDone)+len(snap.RPending) != 0 {
		return &badResult{"pool-receipt-task-in-full-sync", "receipt bookkeeping is not empty in full-sync mode"}
	}
	if fast {
		if len(snap.RPending) != 0 {
			return &badResult{"pool-receipt-request-for-empty-receipts", "a receipt request is in flight although every receipt root is the empty root"}
		}
		for _, hs := range [][]common.Hash{snap.RTaskPool, snap.RTaskQueue, snap.RDone} {
			for _, h := range hs {
				id, b := look(h, "receipt bookkeeping")
				if b != nil {
					return b
				}
				if id < released || id >= nsched {
					return &badResult{"pool-stale-task", fmt.Sprintf("header %d (block %d) is released/unscheduled but still in the receipt bookkeeping", id, ch.num(id))}
				}
			}
		}
	}
	if want := ch.num(released); snap.ResultOffset != want {
		return &badResult{"result-offset-wrong", fmt.Sprintf("resultOffset=%d after %d released blocks from origin %d (want %d)", snap.ResultOffset, released, ch.origin, want)}
	}
	slot := make(map[int]downloader.VerifSlot, len(snap.Cache))
	for _, s := range snap.Cache {
		if s.Number != snap.ResultOffset+uint64(s.Index) {
			return &badResult{"cache-slot-misplaced", fmt.Sprintf("result cache slot %d holds block %d, offset is %d", s.Index, s.Number, snap.ResultOffset)}
		}
		id, ok := ch.idOf[s.Hash]
		if !ok || ch.num(id) != s.Number {
			return &badResult{"cache-slot-misplaced", fmt.Sprintf("result cache slot %d (block %d) holds foreign hash %x", s.Index, s.Number, s.Hash)}
		}
		slot[id] = s
	}
	for id := range pl {
		p := pl[id]
		places := p.queue + p.pend + p.done
		switch {
		case id < released || id >= nsched:
			if places+p.pool != 0 {
				what := "released"
				if id >= nsched {
					what = "never scheduled"
				}
				return &badResult{"pool-stale-task", fmt.Sprintf("header %d (block %d) is %s but still in queue×%d pending×%d done×%d taskpool×%d", id, ch.num(id), what, p.queue, p.pend, p.done, p.pool)}
			}
			if _, ok := slot[id]; ok {
				return &badResult{"pool-stale-task", fmt.Sprintf("header %d (block %d) is released/unscheduled but still has a result slot", id, ch.num(id))}
			}
			continue
		case places == 0:
			return &badResult{"task-lost", fmt.Sprintf("header %d (block %d) is scheduled and not released but is in none of task queue / pending / done (taskpool×%d)", id, ch.num(id), p.pool)}
		case places > 1:
			return &badResult{"task-duplicated", fmt.Sprintf("header %d (block %d) is in queue×%d pending×%d done×%d", id, ch.num(id), p.queue, p.pend, p.done)}
		}
		if (p.done == 1) == (p.pool == 1) || p.pool > 1 {
			return &badResult{"taskpool-inconsistent", fmt.Sprintf("header %d (block %d): done=%d but taskpool×%d (the task pool must hold exactly the undelivered headers)", id, ch.num(id), p.done, p.pool)}
		}
		s, has := slot[id]
		if p.done == 1 && (!has || s.Pending > maxPending-1) {
			return &badResult{"done-without-result", fmt.Sprintf("header %d (block %d) is marked done but its result slot is missing or incomplete (has=%v pending=%d)", id, ch.num(id), has, s.Pending)}
		}
		if p.pend == 1 && (!has || s.Pending < 1 || s.Pending > maxPending) {
			return &badResult{"pending-without-slot", fmt.Sprintf("header %d (block %d) is in flight but its result slot is missing or not pending (has=%v pending=%d)", id, ch.num(id), has, s.Pending)}
		}
		if p.queue == 1 && has && (s.Pending < 1 || s.Pending > maxPending) {
			return &badResult{"queued-with-complete-slot", fmt.Sprintf("header %d (block %d) is queued but its result slot is complete", id, ch.num(id))}
		}
		if st != nil {
			ok := true
			switch {
			case st.IsQueued(id):
				ok = p.queue == 1 || (ch.mc.Empty[id] && p.done == 1)
			case st.IsDone(id):
				ok = p.done == 1
			case st.Owner(id) >= 0:
				ok = p.pend == 1 && p.owner == st.Owner(id)
			default:
				ok = false
			}
			if !ok {
				return &badResult{"pool-state-mismatch", fmt.Sprintf("header %d (block %d) should be %s but is in queue×%d pending×%d(owner %d) done×%d", id, ch.num(id), st.StatusName(id), p.queue, p.pend, p.owner, p.done)}
			}
		}
	}
	return nil
}
