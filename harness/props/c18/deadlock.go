package c18

import (
	"fmt"
	"sort"
	"sync"
	"sync/atomic"
	"time"

	"github.com/youchainhq/go-youchain/core/types"
	"github.com/youchainhq/go-youchain/logging"
	"github.com/youchainhq/go-youchain/you/downloader"
)

// State-based deadlock oracle of the end-to-end workload.
//
// The body fetcher (Downloader.fetchParts) offers work only to peers whose busy flag is clear, and a
// busy flag is cleared only by (a) a packet of that peer being handled, (b) the expiry of a request
// of that peer, (c) the start of the next Synchronise. (The harness registers peers only between
// Synchronise calls, and everything a scripted peer does happens inside a request handler.) So
// the following state can never be left while the Synchronise call lasts, whatever time passes:
//
//   - the call has not been cancelled (is not winding down) and its body fetcher has issued at
//     least one request to the peer in question,
//   - body tasks are queued,
//   - no body request is in flight (nothing can expire) and no body packet waits in the channel,
//   - every registered peer is either flagged busy without owning a request, or is idle but known
//     to lack every queued task (ReserveBodies hands it nothing),
//   - no registered peer has anything left to send: every request the fetcher issued to it reached
//     its handler, every handler has finished all its deliveries, and every packet it handed over
//     has been handled by the fetcher completely (past the point where the flag is decided).
//
// The last clause is what separates the dead state from the legitimate transient one: on the
// unchanged code a peer is flagged busy without a request after a stale delivery (an answer that
// fits none of the headers of its current request) until its next packet arrives; an honest peer
// always has such a packet outstanding - the answer to the request the stale delivery removed.
// A peer that sends garbage and then nothing parks itself for good even on the unchanged code
// (recorded observation "probe-stale-delivery"); that is not judged. The oracle therefore reports
// only if the peer that is parked is the HONEST one: it answered every request it was given,
// truthfully, has the missing blocks, is not considered lacking them - and is never asked again.
//
// The clause is evaluated with counters, not with time: the harness counts handler entries/exits and
// hand-overs, the downloader's own trace log tells how many requests the fetcher issued per peer
// and how many packets per peer it finished handling (the log line is written after the flag
// decision, in the same goroutine). The state has to be found unchanged, counters included, in
// several consecutive samples before it is reported; the sampling interval is the only place a
// clock is involved, and it only delays the verdict. Any accounting mismatch (a packet lost to an
// unregistered peer, a straggler of an earlier sync) makes the oracle blind for that sync - the
// wall-clock watchdog then ends the case as inconclusive, as before.

const (
	deadSampleEvery = 100 * time.Millisecond
	deadSamplesNeed = 8
)

type ledgerCounts struct {
	ReqIssued int64 `json:"requests_issued_by_fetcher"` // "Requesting new batch of data" type=bodies (downloader log)
	Entered   int64 `json:"handler_entered"`            // RequestBodies handler entries (harness)
	Finished  int64 `json:"handler_finished"`           // handlers with nothing left to deliver (harness)
	Handed    int64 `json:"packets_handed_over"`        // DeliverBodies calls begun and not refused (harness)
	Handled   int64 `json:"packets_handled_by_fetcher"` // body packets the fetcher finished handling (downloader log)
	Stale     int64 `json:"of_which_stale_delivery"`
	NoPending int64 `json:"of_which_no_fetch_pending"`
}

func (a ledgerCounts) sub(b ledgerCounts) ledgerCounts {
	return ledgerCounts{a.ReqIssued - b.ReqIssued, a.Entered - b.Entered, a.Finished - b.Finished, a.Handed - b.Handed,
		a.Handled - b.Handled, a.Stale - b.Stale, a.NoPending - b.NoPending}
}

// quiet: nothing of this peer is under way in any direction.
func (a ledgerCounts) quiet() bool {
	return a.ReqIssued == a.Entered && a.Entered == a.Finished && a.Handed == a.Handled
}

// ledger is the per-case event accounting (by peer id).
type ledger struct {
	mu sync.Mutex
	m  map[string]*ledgerCounts
}

func newLedger() *ledger { return &ledger{m: map[string]*ledgerCounts{}} }

func (l *ledger) add(id string, f func(*ledgerCounts)) {
	l.mu.Lock()
	a := l.m[id]
	if a == nil {
		a = &ledgerCounts{}
		l.m[id] = a
	}
	f(a)
	l.mu.Unlock()
}

func (l *ledger) get(id string) ledgerCounts {
	l.mu.Lock()
	defer l.mu.Unlock()
	if a := l.m[id]; a != nil {
		return *a
	}
	return ledgerCounts{}
}

func (l *ledger) all() map[string]ledgerCounts {
	l.mu.Lock()
	defer l.mu.Unlock()
	o := make(map[string]ledgerCounts, len(l.m))
	for k, v := range l.m {
		o[k] = *v
	}
	return o
}

func (l *ledger) handlersRunning() bool {
	l.mu.Lock()
	defer l.mu.Unlock()
	for _, a := range l.m {
		if a.Entered != a.Finished {
			return true
		}
	}
	return false
}

// curLedger is the ledger of the case that is running in this process (cases run one after the
// other; the downloader of a finished case has been terminated).
var curLedger atomic.Value // *ledger (possibly nil)

func setCurLedger(l *ledger) { curLedger.Store(&l) }

// ledgerObserve is called by the process-wide log handler for every trace record.
func ledgerObserve(r *logging.Record) {
	var kind int
	switch r.Msg {
	case "Requesting new batch of data":
		kind = 1
	case "Delivered new batch of data", "Requested data not delivered", "Failed to deliver retrieved data":
		kind = 2
	default:
		return
	}
	lp, _ := curLedger.Load().(**ledger)
	if lp == nil || *lp == nil {
		return
	}
	var peer, typ, errKind string
	for i := 0; i+1 < len(r.Ctx); i += 2 {
		k, _ := r.Ctx[i].(string)
		switch k {
		case "peer":
			peer, _ = r.Ctx[i+1].(string)
		case "type":
			typ, _ = r.Ctx[i+1].(string)
		case "err":
			if e, ok := r.Ctx[i+1].(error); ok {
				errKind = downloader.VerifErrKind(e)
			}
		}
	}
	if typ != "bodies" || peer == "" {
		return
	}
	(*lp).add(peer, func(a *ledgerCounts) {
		if kind == 1 {
			a.ReqIssued++
			return
		}
		a.Handled++
		switch errKind {
		case "stale-delivery":
			a.Stale++
		case "no-fetches-pending":
			a.NoPending++
		}
	})
}

// answer brackets one RequestBodies handler: the handler counts as finished when every goroutine
// that may still deliver for it has released its hold.
type answer struct {
	p     *e2ePeer
	holds int32
}

func (p *e2ePeer) beginAnswer() *answer {
	p.h.led.add(p.id, func(a *ledgerCounts) { a.Entered++ })
	return &answer{p: p, holds: 1}
}
func (a *answer) hold() { atomic.AddInt32(&a.holds, 1) }
func (a *answer) release() {
	if atomic.AddInt32(&a.holds, -1) == 0 {
		a.p.h.led.add(a.p.id, func(c *ledgerCounts) { c.Finished++ })
	}
}

// handOver is DeliverBodies with the hand-over accounting (counted before the call, taken back if
// the downloader refuses the packet: then handed >= handled at any moment).
func (p *e2ePeer) handOver(bodies [][]*types.Transaction) error {
	p.h.led.add(p.id, func(a *ledgerCounts) { a.Handed++ })
	err := p.h.d.DeliverBodies(p.id, bodies)
	if err != nil {
		p.h.led.add(p.id, func(a *ledgerCounts) { a.Handed-- })
	}
	return err
}

// deadState is the witness of one sample that satisfies every clause.
type deadState struct {
	Sched  *downloader.VerifBodySchedSnapshot `json:"scheduler"`
	Ledger map[string]ledgerCounts            `json:"events_of_this_sync_by_peer"`
	Parked []string                           `json:"honest_peers_parked"`
	Pools  *downloader.VerifPoolsSnapshot     `json:"pools,omitempty"`
	key    string
}

// deadSample evaluates the clauses once. base = ledger at the start of this Synchronise call.
func (h *e2eHarness) deadSample(base map[string]ledgerCounts) *deadState {
	// cheap pre-check first: somebody must be flagged busy without a request
	if len(h.d.VerifBusyWithoutRequest()) == 0 {
		return nil
	}
	ds := h.deadClauses(base)
	if ds == nil {
		// the legitimate transient state (or a parked garbage peer): seen, not judged
		h.count("deadlock_oracle_busy_without_request_seen_not_dead")
	}
	return ds
}

func (h *e2eHarness) deadClauses(base map[string]ledgerCounts) *deadState {
	before := h.led.all()
	s := h.d.VerifBodySched()
	if !s.Synchronising || s.Cancelled || s.Queued == 0 || s.InFlight != 0 || s.ChanLen != 0 || len(s.Peers) == 0 {
		return nil
	}
	ds := &deadState{Sched: s, Ledger: map[string]ledgerCounts{}}
	for _, p := range s.Peers {
		switch {
		case p.HasRequest:
			return nil
		case p.Busy:
		case p.Assignable == 0:
		default:
			return nil // an idle peer that can be given work: the fetcher will use it
		}
		ev := before[p.ID].sub(base[p.ID])
		if !ev.quiet() {
			return nil
		}
		ds.Ledger[p.ID] = ev
		if !p.Busy || !h.honestIDs[p.ID] || p.Assignable == 0 || ev.ReqIssued == 0 {
			continue // (ReqIssued: it was THIS call's body fetcher that flagged the peer busy)
		}
		// ground truth: the honest peer has at least one of the queued blocks
		have := h.haveOf(p.ID)
		for _, n := range s.QueuedNumbers {
			if n > h.ch.origin && int(n-h.ch.origin-1) < have {
				ds.Parked = append(ds.Parked, p.ID)
				break
			}
		}
	}
	if len(ds.Parked) == 0 {
		return nil
	}
	// the counters must not have moved while the snapshot was taken
	after := h.led.all()
	for _, p := range s.Peers {
		if after[p.ID] != before[p.ID] {
			return nil
		}
	}
	ids := make([]string, 0, len(ds.Ledger))
	for id := range ds.Ledger {
		ids = append(ids, id)
	}
	sort.Strings(ids)
	ds.key = fmt.Sprintf("q%v", s.QueuedNumbers)
	for i, id := range ids {
		ds.key += fmt.Sprintf("|%s busy=%v assignable=%d %+v", id, s.Peers[i].Busy, s.Peers[i].Assignable, ds.Ledger[id])
	}
	return ds
}

func (h *e2eHarness) haveOf(id string) int {
	for _, p := range h.peers {
		if p.id == id {
			return p.have
		}
	}
	return 0
}

// settle waits (bounded) until no handler of an earlier sync is still running, so that the event
// accounting of the next sync starts from a clean base. false: blind for the next sync.
func (h *e2eHarness) settle() bool {
	for i := 0; i < 250; i++ {
		if !h.led.handlersRunning() {
			return true
		}
		time.Sleep(10 * time.Millisecond)
	}
	return false
}
