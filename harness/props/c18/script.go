// Package c18: block download delivers every block once, in order, with a matching body.
//
// Workloads:
//
//	C18.script  deterministic scripted multi-peer schedules against the real queue (single goroutine)
//	C18.conc    real goroutines per peer, histories checked with porcupine (race build)
//	C18.e2e     the real Downloader with scripted peers against a recording BlockChain (thorough)
//	C18.fetcher you/fetcher fed announcements/propagations out of order (thorough, auxiliary)
package c18

import (
	"fmt"
	"math/rand"
	"sort"
	"strings"

	"verif/kit"
	"verif/model"

	"github.com/youchainhq/go-youchain/core/types"
	"github.com/youchainhq/go-youchain/you/downloader"
)

func init() { kit.Register("C18.script", runScript) }

type scriptSpec struct {
	Shape    string    `json:"shape"`
	Chain    chainSpec `json:"chain"`
	Peers    int       `json:"peers"`
	Profiles []int     `json:"profiles"`
	Cache    int       `json:"cache_items"`
	Mem      int       `json:"cache_memory"`
	MaxRes   int       `json:"max_results_process"`
	Steps    int       `json:"steps"`
	Honest   int       `json:"honest"` // index of the peer that never lies; -1: a fresh peer joins when faults stop
	Lag      bool      `json:"lag"`    // consumer retrieves only when throttled / at the very end
	ResW     int       `json:"results_weight"`
	Fast     bool      `json:"fast_sync_mode"` // two-part results: bodies + (always empty) receipts
}

// response kinds
const (
	rFull = iota
	rPrefix
	rEmpty
	rCorruptOne
	rOthers
	rShifted
	rReversed
	rExtra
	rNilEntries
	rStall
	nRespKinds
)

var respNames = []string{"full", "prefix", "empty", "corrupt-one", "others-bodies", "shifted", "reversed", "extra", "nil-entries", "stall"}

// peer profiles: weights over response kinds
var profiles [][]int

func init() {
	profiles = [][]int{
		/* honest  */ {rFull: 70, rPrefix: 25, rStall: 5},
		/* flaky   */ {rFull: 35, rPrefix: 20, rEmpty: 20, rStall: 25},
		/* liar    */ {rFull: 15, rCorruptOne: 25, rOthers: 15, rShifted: 10, rReversed: 10, rExtra: 10, rNilEntries: 10, rPrefix: 5},
		/* silent  */ {rFull: 10, rStall: 90},
		/* anything*/ {rFull: 10, rPrefix: 10, rEmpty: 10, rCorruptOne: 10, rOthers: 10, rShifted: 10, rReversed: 10, rExtra: 10, rNilEntries: 10, rStall: 10},
	}
	for i := range profiles {
		for len(profiles[i]) < nRespKinds {
			profiles[i] = append(profiles[i], 0)
		}
	}
}

var profileNames = []string{"honest", "flaky", "liar", "silent", "anything"}

func pick(r *rand.Rand, w []int) int {
	t := 0
	for _, x := range w {
		t += x
	}
	if t == 0 {
		return 0
	}
	x := r.Intn(t)
	for i, v := range w {
		if x < v {
			return i
		}
		x -= v
	}
	return len(w) - 1
}

func genScriptSpec(r *rand.Rand, i int, quick bool) scriptSpec {
	var sp scriptSpec
	x := r.Intn(1000)
	longEvery := 125
	switch {
	case i%longEvery == 7:
		sp.Shape = "long"
	case x < 600:
		sp.Shape = "short"
	default:
		sp.Shape = "medium"
	}
	emptyPcts := []int{0, 10, 30, 50, 80, 95, 100}
	sp.Chain.EmptyPct = emptyPcts[r.Intn(len(emptyPcts))]
	if r.Intn(3) == 0 {
		sp.Chain.EmptyRun = 2 + r.Intn(30)
	}
	switch r.Intn(4) {
	case 0:
		sp.Chain.Origin = 0
	case 1:
		sp.Chain.Origin = uint64(1 + r.Intn(300))
	case 2:
		sp.Chain.Origin = uint64(r.Int63n(1 << 40))
	default:
		sp.Chain.Origin = uint64(8000 + r.Intn(1000))
	}
	sp.Peers = 1 + r.Intn(6)
	sp.Honest = -1
	if r.Intn(2) == 0 {
		sp.Honest = r.Intn(sp.Peers)
	}
	for p := 0; p < sp.Peers; p++ {
		pr := r.Intn(len(profiles))
		if p == sp.Honest {
			pr = 0
		}
		sp.Profiles = append(sp.Profiles, pr)
	}
	sp.ResW = []int{0, 2, 8, 20}[r.Intn(4)]
	switch sp.Shape {
	case "short":
		sp.Chain.N = 1 + r.Intn(40)
		sp.Chain.NLists = 1 + r.Intn(6)
		sp.Cache = []int{1, 2, 3, 4, 8, 16, 64}[r.Intn(7)]
		sp.MaxRes = []int{1, 2, 5, 16, 2048}[r.Intn(5)]
		sp.Steps = 20 + r.Intn(4*sp.Chain.N+40)
	case "medium":
		sp.Chain.N = 50 + r.Intn(350)
		sp.Chain.NLists = 2 + r.Intn(12)
		sp.Cache = []int{8, 32, 128, 500, 8192}[r.Intn(5)]
		sp.MaxRes = []int{3, 16, 100, 2048}[r.Intn(4)]
		sp.Steps = 100 + r.Intn(3*sp.Chain.N)
	case "long":
		sp.Chain.N = 2500 + r.Intn(6500)
		sp.Chain.NLists = 8
		sp.Chain.EmptyPct = []int{50, 80, 90, 95}[r.Intn(4)]
		sp.Cache = 8192
		sp.MaxRes = 2048
		sp.Steps = 200 + r.Intn(600)
		sp.Lag = true
		sp.ResW = 0
		if r.Intn(3) == 0 {
			sp.ResW = 1
		}
	}
	if sp.Shape != "long" {
		sp.Fast = r.Intn(8) == 0
		sp.Lag = r.Intn(4) == 0
		if r.Intn(5) == 0 {
			// memory cap of the result cache becomes the binding limit (a header weighs ~700 bytes)
			sp.Mem = []int{500, 1500, 4000, 20000}[r.Intn(4)]
		}
	}
	return sp
}

type stashed struct {
	bodies [][]*types.Transaction
	bids   []int
}

type scriptRun struct {
	c    *kit.Ctx
	r    *rand.Rand
	sp   scriptSpec
	ch   *chain
	a    *rq
	st   *model.C18State
	rc   *resultChecker
	nsch int // headers accepted by Schedule so far (sum of its return values)
	reqs []*downloader.VerifRequest
	aged []bool
	old  [][]stashed
	log  []opLog
	nops int
	feat map[string]bool
	dead bool

	maxBatch    int
	cappedBatch int
}

type opLog struct {
	Step int           `json:"step"`
	In   *model.C18In  `json:"in"`
	Out  *model.C18Out `json:"out"`
}

func (s *scriptRun) witness() interface{} {
	l := s.log
	if len(l) > 80 {
		l = l[len(l)-80:]
	}
	return map[string]interface{}{"spec": s.sp, "last_ops": l, "ops_total": s.nops}
}

func (s *scriptRun) viol(class, msg string) {
	s.c.Violation(class, msg, s.witness())
	s.dead = true
}

// apply feeds one observed (input, output) pair to the reference model.
func (s *scriptRun) apply(in *model.C18In, out *model.C18Out) bool {
	s.nops++
	li := *in
	if len(li.Headers) > 6 {
		li.Headers = append(append([]model.C18Hdr(nil), li.Headers[:3]...), li.Headers[len(li.Headers)-3:]...)
	}
	lo := *out
	if len(lo.IDs) > 12 {
		lo.IDs = append(append([]int(nil), lo.IDs[:6]...), lo.IDs[len(lo.IDs)-6:]...)
	}
	if len(li.Bodies) > 12 {
		li.Bodies = append(append([]int(nil), li.Bodies[:6]...), li.Bodies[len(li.Bodies)-6:]...)
	}
	s.log = append(s.log, opLog{s.nops, &li, &lo})
	if len(s.log) > 200 {
		s.log = append([]opLog(nil), s.log[100:]...)
	}
	s.c.Evals(1)
	s.c.Count("op_"+model.C18OpName(in.Kind), 1)
	ok, why, next := model.C18Step(s.ch.mc, s.st, in, out)
	if !ok {
		class := why
		if k := strings.Index(why, ": "); k > 0 {
			class = why[:k]
		}
		s.viol(class, why)
		return false
	}
	s.st = next
	return true
}

func (s *scriptRun) snapshot(where string) bool {
	snap := s.a.q.VerifPools()
	s.c.Evals(1)
	s.c.Count("pool_snapshots", 1)
	if b := checkPools(s.ch, snap, s.nsch, s.rc.next, s.st, s.sp.Peers+1, s.sp.Fast); b != nil {
		s.viol(b.class, where+": "+b.msg)
		return false
	}
	return true
}

// buildResponse makes the bodies a peer sends for the headers ids (its view of what it was asked).
func (s *scriptRun) buildResponse(ids []int, kind int) ([][]*types.Transaction, []int) {
	return buildResponse(s.r, s.ch, ids, kind)
}

func buildResponse(r *rand.Rand, ch *chain, ids []int, kind int) ([][]*types.Transaction, []int) {
	var bodies [][]*types.Transaction
	var bids []int
	add := func(b int) {
		bodies = append(bodies, ch.lists[b])
		bids = append(bids, b)
	}
	full := func() {
		for _, id := range ids {
			add(ch.bodyID[id])
		}
	}
	switch kind {
	case rFull:
		full()
	case rPrefix:
		k := 1
		if len(ids) > 1 {
			k = 1 + r.Intn(len(ids)-1)
		}
		for _, id := range ids[:k] {
			add(ch.bodyID[id])
		}
	case rEmpty:
		bodies = [][]*types.Transaction{}
	case rCorruptOne:
		full()
		j := r.Intn(len(ids))
		if r.Intn(2) == 0 || len(ch.lists) < 3 {
			bodies[j] = garbageList(r)
			bids[j] = -1
		} else {
			b := 1 + r.Intn(len(ch.lists)-1)
			bodies[j], bids[j] = ch.lists[b], b // may by chance be the right one: the model knows
		}
	case rOthers:
		for range ids {
			add(ch.bodyID[r.Intn(len(ch.hdrs))])
		}
	case rShifted:
		for i := range ids {
			if i+1 < len(ids) {
				add(ch.bodyID[ids[i+1]])
			} else {
				add(ch.bodyID[ids[0]])
			}
		}
	case rReversed:
		for i := len(ids) - 1; i >= 0; i-- {
			add(ch.bodyID[ids[i]])
		}
	case rExtra:
		full()
		for k := 1 + r.Intn(3); k > 0; k-- {
			add(ch.bodyID[r.Intn(len(ch.hdrs))])
		}
	case rNilEntries:
		full()
		for j := range bodies {
			if r.Intn(2) == 0 {
				bodies[j], bids[j] = nil, 0
			}
		}
	}
	return bodies, bids
}

func (s *scriptRun) deliver(p int, bodies [][]*types.Transaction, bids []int, kind string) bool {
	hadReq := s.st.Pend[p] != nil
	in, out := s.a.deliver(p, bodies, bids)
	if !s.apply(in, out) {
		return false
	}
	s.c.Count("deliver_"+kind, 1)
	switch {
	case !hadReq:
		s.c.Count("deliver_unsolicited_rejected", 1)
		s.feat["unsolicited"] = true
	case out.N == 0:
		s.c.Count("deliver_accepted_none", 1)
	case out.Err == "":
		s.c.Count("deliver_accepted_all", 1)
	default:
		s.c.Count("deliver_accepted_part", 1)
		s.feat["partial-accept"] = true
	}
	if out.Err != "" {
		s.c.Count("deliver_err_"+out.Err, 1)
	}
	if hadReq && len(bodies) == 0 {
		s.feat["lacking"] = true
	}
	s.c.Count("bodies_accepted", out.N)
	return true
}

// doReceipts lets a peer reserve receipts in fast-sync mode (completes the empty receipt parts).
func (s *scriptRun) doReceipts(p, count int) bool {
	progress, problem := s.a.receipts(p, count)
	s.c.Count("op_reserve_receipts", 1)
	if progress {
		s.c.Count("reserve_receipts_progress", 1)
	}
	if problem != "" {
		s.viol("receipt-reserve-misbehaves", problem)
		return false
	}
	return true
}

func (s *scriptRun) doResults() bool {
	in, out, rs := s.a.results(false)
	for _, r := range rs {
		s.c.Evals(1)
		if b := s.rc.check(r.Header, r.Transactions, r.Pending); b != nil {
			s.viol(b.class, b.msg)
			return false
		}
		if len(r.Transactions) == 0 {
			s.c.Count("released_empty_blocks", 1)
		}
	}
	s.c.Count("released_blocks", len(rs))
	if len(rs) > 0 {
		s.c.Count("result_batches", 1)
		if len(rs) > s.maxBatch {
			s.maxBatch = len(rs)
		}
		if len(rs) == s.sp.MaxRes {
			s.cappedBatch++
			s.feat["capped-batch"] = true
		}
		if len(rs) > s.sp.MaxRes {
			s.c.Count("batch_over_cap_observed", 1) // the cap is a tunable, not part of the property
		}
	}
	return s.apply(in, out)
}

// scheduleNext schedules the next chunk of headers; during the fault phase sometimes a malformed one.
func (s *scriptRun) scheduleNext(faulty bool, maxChunk int) bool {
	r, ch := s.r, s.ch
	if s.nsch >= len(ch.hdrs) && !faulty {
		return true
	}
	k := 1 + r.Intn(maxChunk)
	if s.nsch+k > len(ch.hdrs) {
		k = len(ch.hdrs) - s.nsch
	}
	var hdrs []*types.Header
	var mh []model.C18Hdr
	for id := s.nsch; id < s.nsch+k; id++ {
		hdrs = append(hdrs, ch.hdrs[id])
		mh = append(mh, ch.mhdr(id))
	}
	from := ch.num(s.nsch)
	if faulty && s.nsch > 0 { // the very first header has no ancestry check: keep it genuine
		kind := r.Intn(6)
		switch {
		case kind == 0 && k > 2: // gap
			j := 1 + r.Intn(k-1)
			hdrs = append(hdrs[:j:j], hdrs[j+1:]...)
			mh = append(mh[:j:j], mh[j+1:]...)
			s.feat["sched-gap"] = true
		case kind == 1: // wrong from
			from += uint64(1 + r.Intn(3))
			s.feat["sched-wrong-from"] = true
		case kind == 2: // replay of an older chunk
			a := r.Intn(s.nsch)
			b := a + 1 + r.Intn(s.nsch-a)
			hdrs, mh = nil, nil
			for id := a; id < b; id++ {
				hdrs = append(hdrs, ch.hdrs[id])
				mh = append(mh, ch.mhdr(id))
			}
			from = ch.num(a)
			s.feat["sched-replay"] = true
		case kind == 3 && k > 1: // forged parent in the middle
			j := r.Intn(k)
			hdrs[j], mh[j] = ch.forged(r, s.nsch+j)
			s.feat["sched-forged"] = true
		case kind == 4 && k > 2: // swapped pair
			j := r.Intn(k - 1)
			hdrs[j], hdrs[j+1] = hdrs[j+1], hdrs[j]
			mh[j], mh[j+1] = mh[j+1], mh[j]
			s.feat["sched-swap"] = true
		}
	}
	if len(hdrs) == 0 {
		return true
	}
	in, out := s.a.schedule(hdrs, mh, from)
	if !s.apply(in, out) {
		return false
	}
	s.nsch += out.N
	s.c.Count("headers_scheduled", out.N)
	if out.N < len(hdrs) {
		s.c.Count("schedule_truncated", 1)
	}
	return true
}

func (s *scriptRun) sameRequest(p int) bool {
	req := s.reqs[p]
	if req == nil || s.st.Pend[p] == nil {
		return false
	}
	ids := s.a.ids(req.Hashes)
	if len(ids) != len(s.st.Pend[p]) {
		return false
	}
	for i := range ids {
		if ids[i] != s.st.Pend[p][i] {
			return false
		}
	}
	return true
}

func runScript(c *kit.Ctx) {
	c.Begin("selfcheck", nil)
	if types.EmptyRootHash != txRoot(nil) {
		c.EndInconclusive("independent MPT calculator disagrees with types.EmptyRootHash")
		return
	}
	{ // honest bodies must be acceptable at all: independent root == DeriveSha on a sample
		r := c.Rand("selfcheck")
		for i := 0; i < 20; i++ {
			l := garbageList(r)
			if types.DeriveSha(types.Transactions(l)) != txRoot(l) {
				c.EndInconclusive("independent transaction root disagrees with DeriveSha (C13 territory)")
				return
			}
		}
	}
	c.End("")

	n := c.N(3000, 120000)
	for i := 0; i < n; i++ {
		id := fmt.Sprintf("s%d", i)
		if !c.Mine(i, id) {
			continue
		}
		runScriptCase(c, id, i)
	}
}

func runScriptCase(c *kit.Ctx, id string, i int) {
	r := c.Rand(id)
	sp := genScriptSpec(r, i, c.Quick())
	c.Begin(id, sp)

	oi, om := downloader.VerifSetCacheLimits(sp.Cache, sp.Mem)
	omr := downloader.VerifSetMaxResultsProcess(sp.MaxRes)
	defer func() {
		downloader.VerifSetCacheLimits(oi, om)
		downloader.VerifSetMaxResultsProcess(omr)
	}()

	ch := genChain(r, sp.Chain, sp.Peers+1) // +1: the fresh peer that may join when faults stop
	s := &scriptRun{c: c, r: r, sp: sp, ch: ch, a: newRQ(ch, sp.Peers+1, sp.Fast), rc: &resultChecker{ch: ch},
		reqs: make([]*downloader.VerifRequest, sp.Peers+1), aged: make([]bool, sp.Peers+1), old: make([][]stashed, sp.Peers+1), feat: map[string]bool{}}
	s.st = model.C18Init(ch.mc)
	counts := []int{1, 2, 3, 5, 8, 16, 64, 128}
	snapEvery := 1
	if sp.Chain.N > 60 {
		snapEvery = 1 + sp.Chain.N/25
	}
	maxChunk := 1 + sp.Chain.N/3
	if sp.Shape == "long" {
		maxChunk = 2048
	}
	if sp.Mem > 0 {
		s.feat["mem-limit"] = true
	}
	if sp.Fast {
		s.feat["fast-sync-mode"] = true
	}

	// ---------------- fault phase ----------------
	if !s.scheduleNext(false, maxChunk) {
		c.End("")
		return
	}
	for step := 0; step < sp.Steps && !s.dead; step++ {
		w := []int{
			/*0 schedule*/ 6,
			/*1 reserve */ 30,
			/*2 respond */ 30,
			/*3 late/dup/unsolicited*/ 6,
			/*4 cancel  */ 3,
			/*5 expire all*/ 2,
			/*6 expire aged*/ 4,
			/*7 revoke  */ 3,
			/*8 results */ sp.ResW,
		}
		if s.nsch >= len(ch.hdrs) {
			w[0] = 1
		}
		if sp.ResW > 0 && s.a.q.ShouldThrottleBlocks() {
			w[8] = 4*sp.ResW + 10
		}
		switch pick(r, w) {
		case 0:
			s.scheduleNext(r.Intn(4) == 0, maxChunk)
		case 1:
			p := r.Intn(sp.Peers)
			if s.reqs[p] != nil && r.Intn(4) > 0 { // mostly a peer that is not busy (in the harness' view)
				for k := 0; k < sp.Peers; k++ {
					if s.reqs[(p+k)%sp.Peers] == nil {
						p = (p + k) % sp.Peers
						break
					}
				}
			}
			if sp.Fast && r.Intn(2) == 0 {
				if !s.doReceipts(p, counts[r.Intn(len(counts))]) {
					break
				}
			}
			throttled := s.a.q.ShouldThrottleBlocks()
			queued := s.a.q.PendingBlocks()
			in, out, req := s.a.reserve(p, counts[r.Intn(len(counts))])
			if !s.apply(in, out) {
				break
			}
			if req != nil {
				s.reqs[p] = req
				s.aged[p] = false
				s.c.Count("reserve_got", 1)
				s.c.Count("headers_reserved", len(out.IDs))
			} else {
				s.c.Count("reserve_nil", 1)
				if throttled {
					s.c.Count("reserve_throttled", 1)
					s.feat["throttled"] = true
				} else if queued > 0 && s.st.Pend[p] == nil && !out.Progress {
					s.c.Count("reserve_nil_lacking", 1)
				}
			}
			if out.Progress {
				s.c.Count("reserve_progress_empty_blocks", 1)
			}
		case 2:
			var cand []int
			for p := 0; p < sp.Peers; p++ {
				if s.reqs[p] != nil {
					cand = append(cand, p)
				}
			}
			if len(cand) == 0 {
				break
			}
			p := cand[r.Intn(len(cand))]
			kind := pick(r, profiles[sp.Profiles[p]])
			if kind == rStall {
				s.c.Count("stall", 1)
				break
			}
			late := !s.sameRequest(p)
			bodies, bids := s.buildResponse(s.a.ids(s.reqs[p].Hashes), kind)
			if late {
				s.c.Count("deliver_late", 1)
				s.feat["late"] = true
			}
			if !s.deliver(p, bodies, bids, respNames[kind]) {
				break
			}
			s.feat["resp-"+respNames[kind]] = true
			if len(s.old[p]) < 4 {
				s.old[p] = append(s.old[p], stashed{bodies, bids})
			}
			s.reqs[p] = nil
		case 3:
			p := r.Intn(sp.Peers)
			if p == sp.Honest && len(s.old[p]) == 0 {
				break
			}
			if len(s.old[p]) > 0 && (p == sp.Honest || r.Intn(3) > 0) {
				o := s.old[p][r.Intn(len(s.old[p]))]
				s.feat["duplicate"] = true
				s.deliver(p, o.bodies, o.bids, "duplicate")
			} else {
				// unsolicited: bodies of random headers (never an empty list from the honest peer)
				var ids []int
				for k := 1 + r.Intn(4); k > 0; k-- {
					ids = append(ids, r.Intn(len(ch.hdrs)))
				}
				bodies, bids := s.buildResponse(ids, rFull)
				s.deliver(p, bodies, bids, "unrequested")
			}
		case 4:
			p := r.Intn(sp.Peers)
			if !s.sameRequest(p) {
				break // only a request that is still in flight is ever cancelled
			}
			in, out := s.a.cancel(p, s.reqs[p])
			if s.apply(in, out) {
				s.reqs[p] = nil
				s.feat["cancel"] = true
			}
		case 5:
			in, out := s.a.expireAll()
			if s.apply(in, out) {
				s.c.Count("expired_requests", len(out.Expired))
				if len(out.Expired) > 0 {
					s.feat["expire"] = true
				}
			}
		case 6:
			var aged []int
			for p := 0; p < sp.Peers; p++ {
				if s.sameRequest(p) && !s.aged[p] && r.Intn(2) == 0 {
					s.a.q.Age(s.reqs[p], 2*3600*1e9)
					s.aged[p] = true
				}
				if s.aged[p] {
					aged = append(aged, p)
				}
			}
			in, out := s.a.expireAged(aged)
			if s.apply(in, out) {
				s.c.Count("expired_requests", len(out.Expired))
				if len(out.Expired) > 0 {
					s.feat["expire-selective"] = true
				}
				for p := range s.aged {
					s.aged[p] = false // expired ones are gone; the others were not aged
				}
			}
		case 7:
			p := r.Intn(sp.Peers)
			in, out := s.a.revoke(p)
			if s.apply(in, out) {
				s.feat["revoke"] = true
				if r.Intn(2) == 0 {
					s.a.reconnect(p)
					s.reqs[p] = nil
					s.c.Count("reconnects", 1)
				}
			}
		case 8:
			s.doResults()
		}
		if !s.dead && (step%snapEvery == 0) {
			s.snapshot(fmt.Sprintf("fault phase step %d", step))
		}
	}
	if !s.dead {
		s.snapshot("end of fault phase")
	}

	// ---------------- faults stop: bounded progress ----------------
	// One honest peer keeps answering completely; every scheduler round expires what is
	// outstanding (logical clock), lets the honest peer reserve and deliver, and retrieves results.
	hp := sp.Honest
	if hp < 0 {
		hp = sp.Peers // the fresh peer
		s.feat["fresh-honest-peer"] = true
	}
	rounds, bound := 0, 2*(len(ch.hdrs)+sp.Peers)+8
	releasedAtStop := s.rc.next
	for !s.dead && s.rc.next < len(ch.hdrs) {
		if rounds >= bound {
			s.viol("no-progress", fmt.Sprintf("faults stopped with %d of %d blocks released; after %d scheduler rounds with an honest peer only %d are released (bound %d rounds)", releasedAtStop, len(ch.hdrs), rounds, s.rc.next, bound))
			break
		}
		rounds++
		if !s.scheduleNext(false, 2048) {
			break
		}
		in, out := s.a.expireAll()
		if !s.apply(in, out) {
			break
		}
		if sp.Fast && !s.doReceipts(hp, 256) {
			break
		}
		rin, rout, req := s.a.reserve(hp, counts[r.Intn(len(counts))])
		if !s.apply(rin, rout) {
			break
		}
		if req != nil {
			bodies, bids := s.buildResponse(s.a.ids(req.Hashes), rFull)
			if !s.deliver(hp, bodies, bids, "full") {
				break
			}
		}
		if !sp.Lag || s.a.q.ShouldThrottleBlocks() || (s.nsch >= len(ch.hdrs) && s.a.q.PendingBlocks() == 0) {
			if sp.Lag {
				s.feat["lagging-consumer"] = true
			}
			for !s.dead {
				before := s.rc.next
				if !s.doResults() || s.rc.next == before {
					break
				}
			}
		}
		if !s.dead && rounds%snapEvery == 0 {
			s.snapshot(fmt.Sprintf("progress phase round %d", rounds))
		}
	}
	if !s.dead {
		// quiescent end state: everything handed out, nothing left anywhere
		s.snapshot("end")
	}
	if !s.dead {
		if !s.a.q.Idle() || s.a.q.PendingBlocks() != 0 || s.a.q.InFlightBlocks() {
			s.viol("not-idle-after-completion", fmt.Sprintf("all %d blocks released but Idle=%v PendingBlocks=%d InFlight=%v", len(ch.hdrs), s.a.q.Idle(), s.a.q.PendingBlocks(), s.a.q.InFlightBlocks()))
		} else if rs := s.a.q.Results(false); len(rs) != 0 {
			s.viol("result-beyond-range", fmt.Sprintf("Results hands out %d more items after the whole range was released", len(rs)))
		}
	}
	c.Count("cases_"+sp.Shape, 1)
	c.Count("progress_rounds", rounds)
	c.Count("blocks_total", len(ch.hdrs))
	c.Max("max_result_batch", int64(s.maxBatch))
	c.Max("max_chain_len", int64(len(ch.hdrs)))
	if s.cappedBatch > 0 {
		c.Count("capped_batches", s.cappedBatch)
	}
	if sp.MaxRes == 2048 && s.maxBatch == 2048 {
		c.Count("cases_with_batch_at_default_cap_2048", 1)
	}
	if sp.Shape == "long" && s.feat["throttled"] {
		c.Count("long_cases_throttled_by_default_cache_8192", 1)
	}
	if len(ch.hdrs) > 0 {
		c.Max("max_progress_rounds_permille_of_range", int64(1000*rounds/len(ch.hdrs)))
	}
	var fs []string
	for f := range s.feat {
		fs = append(fs, f)
		c.Count("feat_"+f, 1)
	}
	sort.Strings(fs)
	var pn []string
	for _, p := range sp.Profiles {
		pn = append(pn, profileNames[p])
	}
	c.Sample(map[string]interface{}{"spec": sp, "profiles": pn, "ops": s.nops, "features": fs, "progress_rounds": rounds, "released": s.rc.next})
	// abstract shape: coarse buckets only, so that distinct signatures mean distinct situations
	emptyB := "none"
	switch {
	case sp.Chain.EmptyPct == 100:
		emptyB = "all"
	case sp.Chain.EmptyPct >= 80:
		emptyB = "most"
	case sp.Chain.EmptyPct > 0:
		emptyB = "some"
	}
	cacheB := "small"
	if sp.Cache >= len(ch.hdrs) {
		cacheB = "covers-range"
	}
	var core []string
	for _, f := range fs {
		switch f {
		case "fast-sync-mode", "throttled", "late", "lacking", "capped-batch", "revoke", "cancel", "expire", "expire-selective", "mem-limit", "lagging-consumer", "fresh-honest-peer", "partial-accept":
			core = append(core, f)
		}
	}
	c.End(fmt.Sprintf("%s peers%d empty-%s cache-%s %v", sp.Shape, sp.Peers, emptyB, cacheB, core))
}
