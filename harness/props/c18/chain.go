package c18

import (
	"fmt"
	"math/big"
	"math/rand"

	"verif/model"

	"github.com/youchainhq/go-youchain/common"
	"github.com/youchainhq/go-youchain/core/types"
	"github.com/youchainhq/go-youchain/rlp"
)

// chain is a header range with construction-time ground truth: which transaction list belongs to
// which header. Transaction roots are computed with the harness' own MPT calculator
// (model.MPTRoot), not with types.DeriveSha.
type chain struct {
	origin  uint64
	genesis *types.Header // the block at number origin (parent of hdrs[0])
	hdrs    []*types.Header
	hashes  []common.Hash
	idOf    map[common.Hash]int
	bodyID  []int                  // per header: index into lists
	lists   [][]*types.Transaction // distinct transaction lists; lists[0] is the empty list
	listTx  [][]common.Hash        // tx hashes per list
	roots   []common.Hash          // independent root per list
	mc      *model.C18Chain
}

type chainSpec struct {
	N        int    `json:"n"`
	Origin   uint64 `json:"origin"`
	EmptyPct int    `json:"empty_pct"`
	EmptyRun int    `json:"empty_run"` // >1: empties and non-empties come in runs of about this length
	NLists   int    `json:"nlists"`
	Distinct bool   `json:"distinct_bodies,omitempty"` // block i carries list 1+i%NLists (directed e2e scenario)
}

func txRoot(txs []*types.Transaction) common.Hash {
	m := make(map[string][]byte, len(txs))
	for i, tx := range txs {
		b, err := rlp.EncodeToBytes(tx)
		if err != nil {
			panic(err)
		}
		m[string(model.RlpUint(uint64(i)))] = b
	}
	return common.BytesToHash(model.MPTRoot(m))
}

func genTx(r *rand.Rand) *types.Transaction {
	var to common.Address
	r.Read(to[:])
	data := make([]byte, r.Intn(3)*r.Intn(40))
	r.Read(data)
	if r.Intn(8) == 0 {
		return types.NewContractCreation(uint64(r.Intn(1000)), big.NewInt(r.Int63()), uint64(21000+r.Intn(100000)), big.NewInt(int64(r.Intn(1e6))), data)
	}
	return types.NewTransaction(uint64(r.Intn(1000)), to, big.NewInt(r.Int63()), uint64(21000+r.Intn(100000)), big.NewInt(int64(r.Intn(1e6))), data)
}

func genChain(r *rand.Rand, sp chainSpec, peers int) *chain {
	ch := &chain{origin: sp.Origin, idOf: make(map[common.Hash]int, sp.N)}
	ch.lists = append(ch.lists, nil)
	ch.listTx = append(ch.listTx, nil)
	ch.roots = append(ch.roots, common.BytesToHash(model.MPTRoot(nil)))
	for i := 0; i < sp.NLists; i++ {
		var l []*types.Transaction
		for k := 1 + r.Intn(4); k > 0; k-- {
			l = append(l, genTx(r))
		}
		var hs []common.Hash
		for _, tx := range l {
			hs = append(hs, tx.Hash())
		}
		ch.lists = append(ch.lists, l)
		ch.listTx = append(ch.listTx, hs)
		ch.roots = append(ch.roots, txRoot(l))
	}
	gextra := make([]byte, 8)
	r.Read(gextra)
	ch.genesis = &types.Header{Number: new(big.Int).SetUint64(sp.Origin), TxHash: ch.roots[0], ReceiptHash: ch.roots[0],
		Subsidy: new(big.Int), GasRewards: new(big.Int), GasLimit: 8000000, Time: 999, Extra: gextra}
	parent := ch.genesis.Hash()
	empty := r.Intn(100) < sp.EmptyPct
	for i := 0; i < sp.N; i++ {
		if sp.EmptyRun > 1 {
			if r.Intn(sp.EmptyRun) == 0 {
				empty = r.Intn(100) < sp.EmptyPct
			}
		} else {
			empty = r.Intn(100) < sp.EmptyPct
		}
		b := 0
		if !empty && sp.NLists > 0 {
			b = 1 + r.Intn(sp.NLists)
		}
		if sp.Distinct && sp.NLists > 0 {
			b = 1 + i%sp.NLists
		}
		extra := make([]byte, 4)
		r.Read(extra)
		h := &types.Header{
			ParentHash:  parent,
			Number:      new(big.Int).SetUint64(sp.Origin + 1 + uint64(i)),
			TxHash:      ch.roots[b],
			ReceiptHash: ch.roots[0],
			Subsidy:     new(big.Int),
			GasRewards:  new(big.Int),
			GasLimit:    8000000,
			Time:        uint64(1000 + i),
			Extra:       extra,
		}
		hash := h.Hash()
		ch.hdrs = append(ch.hdrs, h)
		ch.hashes = append(ch.hashes, hash)
		ch.idOf[hash] = i
		ch.bodyID = append(ch.bodyID, b)
		parent = hash
	}
	mc := &model.C18Chain{Origin: sp.Origin, Peers: peers, Empty: make([]bool, sp.N), Body: ch.bodyID}
	for i, b := range ch.bodyID {
		mc.Empty[i] = b == 0
	}
	ch.mc = mc
	return ch
}

func (ch *chain) num(id int) uint64 { return ch.origin + 1 + uint64(id) }

// mhdr is the model's view of a genuine header.
func (ch *chain) mhdr(id int) model.C18Hdr {
	return model.C18Hdr{Num: ch.num(id), ID: id, Parent: id - 1}
}

// forged returns a header with the number of id but an unknown parent (and the model's view).
func (ch *chain) forged(r *rand.Rand, id int) (*types.Header, model.C18Hdr) {
	h := types.CopyHeader(ch.hdrs[id])
	r.Read(h.ParentHash[:])
	return h, model.C18Hdr{Num: ch.num(id), ID: -1 - id, Parent: -2}
}

// garbageList returns a transaction list that belongs to no header of the chain.
func garbageList(r *rand.Rand) []*types.Transaction {
	var l []*types.Transaction
	for k := 1 + r.Intn(3); k > 0; k-- {
		l = append(l, genTx(r))
	}
	return l
}

// resultChecker is the model-free oracle on everything Results (or InsertChain) hands out:
// ascending gap-free numbers from the origin, each header once, the scheduled header, and the
// transaction list that was constructed for it.
type resultChecker struct {
	ch   *chain
	next int // chain id expected next
}

type badResult struct {
	class string
	msg   string
}

func (rc *resultChecker) check(hdr *types.Header, txs []*types.Transaction, pending int) *badResult {
	want := rc.ch.num(rc.next)
	if hdr == nil || hdr.Number == nil {
		return &badResult{"result-nil-header", "result without header"}
	}
	n := hdr.Number.Uint64()
	switch {
	case n < want:
		return &badResult{"result-repeated", fmt.Sprintf("block %d handed out again (next expected %d)", n, want)}
	case n > want:
		return &badResult{"result-gap", fmt.Sprintf("block %d handed out but %d was never handed out", n, want)}
	}
	if rc.next >= len(rc.ch.hdrs) {
		return &badResult{"result-beyond-range", fmt.Sprintf("block %d is beyond the scheduled range", n)}
	}
	if hdr.Hash() != rc.ch.hashes[rc.next] {
		return &badResult{"result-foreign-header", fmt.Sprintf("block %d carries header %x, scheduled was %x", n, hdr.Hash(), rc.ch.hashes[rc.next])}
	}
	if pending != 0 {
		return &badResult{"result-incomplete", fmt.Sprintf("block %d handed out with %d parts pending", n, pending)}
	}
	wantTx := rc.ch.listTx[rc.ch.bodyID[rc.next]]
	ok := len(wantTx) == len(txs)
	for i := 0; ok && i < len(txs); i++ {
		ok = txs[i] != nil && txs[i].Hash() == wantTx[i]
	}
	if !ok {
		// the statement speaks of the transaction root: recompute it independently
		if root := txRoot(txs); root != hdr.TxHash {
			return &badResult{"result-body-mismatch", fmt.Sprintf("block %d handed out with %d transactions whose root is %x, header says %x", n, len(txs), root, hdr.TxHash)}
		}
	}
	rc.next++
	return nil
}
