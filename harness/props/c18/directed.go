package c18

import (
	"fmt"
	"math/rand"
	"sort"
	"sync"
	"sync/atomic"
	"time"

	"verif/kit"

	"github.com/youchainhq/go-youchain/common"
	"github.com/youchainhq/go-youchain/core/types"
	"github.com/youchainhq/go-youchain/youdb"
)

// Directed end-to-end scenario "late answer after re-assignment" (real Downloader, two scripted
// peers). The history that is wanted, in the downloader's own terms:
//
//	P (honest, the master, has the whole chain) answers promptly until the fetcher trusts it with
//	a body request R1 of more than 2 items; that answer is held back.     -> R1 expires: P is set
//	idle and throttled (not dropped: >2 items), R1's tasks go back to the queue
//	Q (slow but correct so far, hence small capacity, idle and ranked before the throttled P) is
//	given the LOWEST of them, P is given R2 which therefore starts at another block than R1
//	Q leaves: it disconnects | it never answers again | its chain is too short for the rest
//	P's answer to R1 arrives now, is matched against R2, the first body does not fit
//	                                  -> stale delivery: R2 is dropped, P is left flagged busy
//	P's answer to R2 arrives          -> fits no request ("no fetches pending")
//	from here on P answers every request at once and truthfully.
//
// Nothing in the script reads a clock to decide what to do: P releases the held answer when it SEES
// its next request (which proves the expiry and the re-assignment), Q leaves at that same event.
// The only timer involved is the downloader's own request TTL. (Q's answers are slowed down by
// sleeping so that the fetcher measures a low throughput for it; if the machine distorts that,
// the scenario may not be reached - which the counters show - but no verdict depends on it.)
//
// Oracle = the liveness clause of C18, bounded: with honest P connected as the master and
// answering everything, <=4 Synchronise calls must bring the whole range to the importer (in
// order, once, right bodies - the recording chain checks that as in every e2e case). A Synchronise
// call that can never end is recognised by the state-based deadlock oracle (deadlock.go); a fired
// wall-clock watchdog stays inconclusive.

type directedSpec struct {
	Chain   chainSpec `json:"chain"`
	Variant string    `json:"q_leaves_by"` // disconnect | silence | short-chain
	QHave   int       `json:"q_have"`
	QMsItem int       `json:"q_ms_per_body"` // Q's service time per body
	PExtra  bool      `json:"p_repeats_late_answer"`
	A2Ms    int       `json:"p_ms_before_answer_to_r2"` // P stays flagged busy without a request that long on the unchanged code
	Seeds   []int64   `json:"seeds"`
}

// directedTrace is what the scripted peers saw (witness and counters).
type directedTrace struct {
	PAnswered   int      `json:"p_prompt_answers_before_r1"`
	R1          []int    `json:"r1_block_ids"`
	R2          []int    `json:"r2_block_ids"`
	QTookLowest bool     `json:"q_was_given_r1_first_block"`
	QRequests   [][]int  `json:"q_requests"`
	Events      []string `json:"events"`
}

const (
	dWarm = iota // P answers promptly, waits for a request of >2 items
	dHold        // R1 is held back, waiting for P's next request
	dLate        // R2 seen: Q leaves, late answer to R1 then answer to R2 are sent
	dFree        // P answers everything at once
)

type directedScript struct {
	h     *e2eHarness
	sp    directedSpec
	p, q  *e2ePeer
	mu    sync.Mutex
	phase int
	tr    directedTrace
	r2Ch  chan struct{} // closed when P sees R2
	a1Ch  chan struct{} // closed when the late answer to R1 has been handed over
	stop  chan struct{} // closed when the first Synchronise call is over / the case ends
	stopO sync.Once
	qGone int32
}

func (s *directedScript) event(f string, a ...interface{}) {
	s.tr.Events = append(s.tr.Events, fmt.Sprintf(f, a...))
}

// halt ends the choreography: waiting handlers return, later requests are answered at once.
func (s *directedScript) halt() {
	s.stopO.Do(func() {
		s.mu.Lock()
		s.phase = dFree
		s.mu.Unlock()
		close(s.stop)
	})
}

func (s *directedScript) trace() directedTrace {
	s.mu.Lock()
	defer s.mu.Unlock()
	t := s.tr
	t.Events = append([]string(nil), s.tr.Events...)
	t.QRequests = append([][]int(nil), s.tr.QRequests...)
	return t
}

func idsOf(ch *chain, hashes []common.Hash, have int) []int {
	var ids []int
	for _, hs := range hashes {
		if id, ok := ch.idOf[hs]; ok && id < have {
			ids = append(ids, id)
		}
	}
	return ids
}

func (s *directedScript) full(p *e2ePeer, ids []int) error {
	bodies, _ := buildResponse(nil, s.h.ch, ids, rFull)
	if bodies == nil {
		bodies = [][]*types.Transaction{}
	}
	return p.handOver(bodies)
}

// serveP is the honest peer: every request is answered with exactly the requested bodies; only
// the answer to R1 is late.
func (s *directedScript) serveP(p *e2ePeer, hashes []common.Hash, ans *answer) error {
	ids := idsOf(s.h.ch, hashes, p.have)
	s.mu.Lock()
	switch {
	case s.phase == dWarm && len(ids) > 2:
		s.phase = dHold
		s.tr.R1 = ids
		s.event("P: request for blocks %v held back (R1)", ids)
		s.mu.Unlock()
		s.h.count("directed_r1_held")
		select {
		case <-s.r2Ch:
		case <-s.stop:
			s.h.count("directed_sync_over_before_r2")
			return nil
		case <-time.After(8 * time.Second):
			// never re-assigned (workload shaping only): answer late anyway and go on honestly
			s.mu.Lock()
			s.phase = dFree
			s.event("P: no further request while R1 was held; late answer to R1 sent")
			s.mu.Unlock()
			s.h.count("directed_r2_never_came")
			return s.full(p, ids)
		}
		// P has been given R2: R1 has expired and its tasks were re-assigned. Q leaves now.
		switch s.sp.Variant {
		case "disconnect":
			s.h.count("directed_q_disconnects")
			s.h.drop(s.q.id)
		default:
			atomic.StoreInt32(&s.qGone, 1)
		}
		err := s.full(p, ids)
		if s.sp.PExtra {
			s.full(p, ids) // the same late packet once more (retransmission): fits nothing either
		}
		s.mu.Lock()
		s.event("P: late answer to R1 handed over (%v)", err)
		s.mu.Unlock()
		close(s.a1Ch)
		return err
	case s.phase == dHold:
		s.phase = dLate
		s.tr.R2 = ids
		s.event("P: next request, for blocks %v (R2), arrived while R1 is unanswered", ids)
		s.mu.Unlock()
		close(s.r2Ch)
		select {
		case <-s.a1Ch:
		case <-s.stop:
			return nil
		}
		if s.sp.A2Ms > 0 {
			select {
			case <-time.After(time.Duration(s.sp.A2Ms) * time.Millisecond):
			case <-s.stop:
				return nil
			}
		}
		err := s.full(p, ids)
		s.mu.Lock()
		s.phase = dFree
		s.event("P: answer to R2 handed over (%v); P answers at once from now on", err)
		s.mu.Unlock()
		return err
	}
	if s.phase == dWarm {
		s.tr.PAnswered++
	}
	s.mu.Unlock()
	return s.full(p, ids)
}

// serveQ: correct but slow; after P has seen R2 it is gone (variant).
func (s *directedScript) serveQ(q *e2ePeer, hashes []common.Hash, ans *answer) error {
	all := idsOf(s.h.ch, hashes, len(s.h.ch.hdrs))
	ids := idsOf(s.h.ch, hashes, q.have)
	s.mu.Lock()
	s.tr.QRequests = append(s.tr.QRequests, all)
	if len(s.tr.R1) > 0 && len(all) > 0 && all[0] == s.tr.R1[0] && !s.tr.QTookLowest {
		s.tr.QTookLowest = true
		s.event("Q: given blocks %v, the lowest of the expired R1", all)
	}
	s.mu.Unlock()
	if s.sp.Variant == "silence" && atomic.LoadInt32(&s.qGone) == 1 {
		s.h.count("directed_q_silent")
		return nil
	}
	// service time; cut short when Q is to leave or the sync is over
	d := time.Duration(s.sp.QMsItem*len(all)) * time.Millisecond
	select {
	case <-time.After(d):
	case <-s.stop:
	}
	if s.sp.Variant == "silence" && atomic.LoadInt32(&s.qGone) == 1 {
		s.h.count("directed_q_silent")
		return nil
	}
	if len(ids) < len(all) {
		s.h.count("directed_q_asked_beyond_its_head")
	}
	return s.full(q, ids)
}

func genDirectedSpec(r *rand.Rand, i int) directedSpec {
	var sp directedSpec
	sp.Chain.N = 9 + r.Intn(12) // 9..20: R1 (<=16 items) + the two warm-up requests cover the range
	sp.Chain.NLists = sp.Chain.N
	sp.Chain.Distinct = true // every block its own transaction list: a body fits exactly one header
	sp.Variant = []string{"disconnect", "silence", "short-chain"}[i%3]
	sp.QHave = sp.Chain.N
	if sp.Variant == "short-chain" {
		sp.QHave = 4 + r.Intn(3) // has what it is asked first, lacks the rest
	}
	sp.QMsItem = 120 + r.Intn(80)
	sp.PExtra = r.Intn(4) == 0
	if r.Intn(2) == 0 {
		sp.A2Ms = 150 + r.Intn(400)
	}
	sp.Seeds = []int64{r.Int63(), r.Int63()}
	return sp
}

func runDirectedCase(c *kit.Ctx, id string, i int) {
	r := c.Rand(id)
	sp := genDirectedSpec(r, i)
	c.Begin(id, sp)
	ch := genChain(r, sp.Chain, 2)
	rec := &recChain{ch: ch, rc: &resultChecker{ch: ch}, db: youdb.NewMemDatabase()}
	esp := e2eSpec{Chain: sp.Chain, Peers: 2, Profiles: []int{0, 0}, HdrProfiles: []int{0, 0}, Have: []int{sp.Chain.N, sp.QHave}, Seeds: sp.Seeds}
	h := newE2EHarness(c, esp, ch, rec)
	defer h.d.Terminate()
	s := &directedScript{h: h, sp: sp, r2Ch: make(chan struct{}), a1Ch: make(chan struct{}), stop: make(chan struct{})}
	defer s.halt()
	s.p = &e2ePeer{h: h, idx: 0, id: peerName(0), have: sp.Chain.N, r: rand.New(rand.NewSource(sp.Seeds[0])), script: s.serveP}
	s.q = &e2ePeer{h: h, idx: 1, id: peerName(1), have: sp.QHave, r: rand.New(rand.NewSource(sp.Seeds[1])), script: s.serveQ}
	h.peers = []*e2ePeer{s.p, s.q}
	h.honestIDs[s.p.id] = true
	h.directed = func() interface{} { return map[string]interface{}{"spec": sp, "trace": s.trace()} }
	h.register(s.p)
	h.register(s.q)
	mon := newStallMon()
	defer close(mon.stop)

	var outcomes []string
	reached := false
	finish := func() {
		c.Max("max_e2e_process_stall_ms", int64(mon.worstStall()/time.Millisecond))
		h.mu.Lock()
		keys := make([]string, 0, len(h.counts))
		for k := range h.counts {
			keys = append(keys, k)
		}
		sort.Strings(keys)
		for _, k := range keys {
			if len(k) > 9 && k[:9] == "directed_" {
				c.Count(k, h.counts[k])
			} else {
				c.Count("e2e_"+k, h.counts[k])
			}
		}
		h.mu.Unlock()
		c.Count("directed_cases", 1)
		c.Count("e2e_insert_calls", rec.calls)
		c.Count("e2e_blocks_imported", rec.height())
		tr := s.trace()
		pl := h.led.get(s.p.id)
		if len(tr.R2) > 0 {
			c.Count("directed_p_reassigned_while_r1_unanswered", 1)
			if tr.R2[0] != tr.R1[0] {
				c.Count("directed_r2_starts_at_another_block", 1)
			}
		}
		if tr.QTookLowest {
			c.Count("directed_q_took_lowest_requeued", 1)
		}
		// what the downloader itself said about P's packets (its trace log)
		c.Count("directed_late_answer_hit_stale", int(pl.Stale))
		c.Count("directed_answer_without_pending_request", int(pl.NoPending))
		reached = pl.Stale > 0 && pl.NoPending > 0
		if reached {
			c.Count("directed_history_reached", 1)
		}
		c.Sample(map[string]interface{}{"directed": sp, "trace": tr, "sync_outcomes": outcomes, "imported": rec.height(), "p_events": pl})
	}
	checkImporter := func(when string) bool {
		rec.mu.Lock()
		bad := rec.bad
		rec.mu.Unlock()
		c.Evals(1)
		if bad != nil {
			c.Violation("e2e-"+bad.class, when+": importer received "+bad.msg, map[string]interface{}{"directed": h.directed(), "sync_outcomes": outcomes})
			return false
		}
		return true
	}
	sawTimeout := false
	attempts := 0
	for rec.height() < len(ch.hdrs) && attempts < 4 {
		attempts++
		if h.isDropped(s.p.id) {
			h.register(s.p)
		}
		kind, ok := h.sync(s.p, 0)
		s.halt() // the choreography belongs to the first call; afterwards both peers just answer
		if !ok {
			finish()
			c.EndInconclusive("watchdog fired in a directed sync attempt")
			return
		}
		if kind == "" {
			kind = "ok"
		}
		outcomes = append(outcomes, "directed:"+kind)
		c.Count("directed_sync_"+kind, 1)
		if kind != "ok" && kind != "deadlock" {
			sawTimeout = true
			c.Note(fmt.Sprintf("%s: directed sync attempt %d ended with %q (spec %+v, trace %+v); worst scheduling stall of this process %v; downloader log tail: %q", id, attempts, kind, sp, s.trace(), mon.worstStall(), logTail(e2eLogTail())))
		}
		if !checkImporter("after directed sync attempt") {
			finish()
			c.End("violated")
			return
		}
		if kind == "deadlock" {
			h.reportDead("directed scenario (late answer after re-assignment), sync attempt with the honest peer as master", outcomes)
			finish()
			c.End("violated")
			return
		}
	}
	c.Evals(1)
	if got := rec.height(); got < len(ch.hdrs) {
		finish()
		if st := mon.worstStall(); sawTimeout && st > 300*time.Millisecond {
			c.EndInconclusive(fmt.Sprintf("directed syncs failed while this process was being starved (worst scheduling stall %v): %v", st, outcomes))
			return
		}
		c.Violation("e2e-incomplete-without-faults", fmt.Sprintf("directed scenario: the honest master with the full chain answered every request and was synced %d times, yet only %d of %d blocks reached the importer: %v", attempts, got, len(ch.hdrs), outcomes), map[string]interface{}{"directed": h.directed(), "sync_outcomes": outcomes})
		c.End("violated")
		return
	}
	finish()
	c.Count("directed_completed", 1)
	if reached {
		c.Count("directed_completed_after_history_reached", 1)
	}
	c.End(fmt.Sprintf("directed %s reached%v extra%v r1x%d %v", sp.Variant, reached, sp.PExtra, len(s.trace().R1), outcomes))
}
