// Package c04 holds the workloads and monitors of property C04.
package c04
