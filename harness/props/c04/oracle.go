package c04

import (
	"math"
	"math/big"

	"verif/model"
)

// Tolerance policy of the quantile oracle.
//
// The implementation evaluates the binomial CDF in float64 through gonum's incomplete beta
// function. Its error is *relative to the smaller of the two tail masses* it computes and grows with
// the stake n (cancellation between log-gamma terms of magnitude n·ln n): measured peak relative
// error ≈ 3..6·2^-53·n·ln n (1.8e-8 absolute at n = 10^7 near the mean, so the flat 1e-9 of the
// first plan was unsound). The band inside which the oracle abstains is therefore, at the boundary
// between k and k+1 seats (B(k) = Pr(X<=k)):
//
//   tol(k) = rho(n) · min(Pr(X<=k), Pr(X>k))  +  2^-51 · pmf(k) · (n-k)
//
//   rho(n) = clamp(64 · 2^-53 · n · ln(n+2), 1e-10, 1e-6)      (≥ 10× the measured error)
//
// The second term is the first-order effect on B(k) of perturbing 1-p by one part in 2^51
// (dB(k)/dp = -pmf(k)(n-k)/(1-p)): the code forms 1-p and 1-(1-p) in float64, which moves p by at
// most 2^-54 (half an ulp of 1-p >= 1/2; exact for p >= 1/2), i.e. at most an eighth of this term.
//
// For p < 2^-40 that perturbation is no longer small relative to p itself (for p < 2^-54 the
// code's 1-p is exactly 1 and it answers 0 seats for every output; n·p < 1e-5 for every stake
// <= 10^7 in this regime) and the first-order term is replaced by the exact statement of the same
// allowance: two more tables are built at p-2^-52 and p+2^-52, "too few seats" is judged against
// the former (largest CDF) and "too many seats" against the latter (smallest CDF).
//
// One seat's own mass pmf(k) exceeds tol(k) by orders of magnitude everywhere except in far tails
// of near-degenerate distributions, so off-by-one answers, a wrong mirror, a swapped inequality or
// a wrong branch are refuted while float noise is not. Samples inside the band are counted as
// ambiguous (and their distance is recorded as a fraction of the band), never as violations.

func rho(n int64) float64 {
	r := 64 * math.Ldexp(1, -53) * float64(n) * math.Log(float64(n)+2)
	if r < 1e-10 {
		r = 1e-10
	}
	if r > 1e-6 {
		r = 1e-6
	}
	return r
}

var tinyP = math.Ldexp(1, -40)
var deltaP = math.Ldexp(1, -52)

type oracle struct {
	tb    *model.C04Table
	rho   *big.Float
	eps51 *big.Float
	half  *big.Float
	// exact perturbation tables for p < 2^-40 (perturbed == true):
	perturbed bool
	lo, hi    *model.C04Table // lo == nil with perturbed: p-2^-52 <= 0, i.e. all mass on 0 seats
}

func newOracle(tb *model.C04Table) *oracle {
	o := &oracle{tb: tb, rho: model.C04F(rho(tb.N)), eps51: model.C04F(math.Ldexp(1, -51)), half: model.C04F(0.5)}
	if tb.P < tinyP {
		o.perturbed = true
		if tb.P-deltaP > 0 {
			o.lo = model.C04NewTable(tb.N, tb.P-deltaP, 200000)
		}
		o.hi = model.C04NewTable(tb.N, tb.P+deltaP, 200000)
	}
	return o
}

// tolParts returns the two terms of tol(k) on table tb: the incomplete-beta term and the 1-p
// rounding term (zero when the perturbation is handled by the lo/hi tables).
func (o *oracle) tolParts(tb *model.C04Table, k int64) (beta, round *big.Float) {
	c, s := tb.CdfAt(k), tb.SfAt(k)
	m := c
	if s.Cmp(c) < 0 {
		m = s
	}
	beta = model.C04New().Mul(o.rho, m)
	round = model.C04New()
	if !o.perturbed && k >= tb.Lo && k <= tb.Hi && k < tb.N {
		round.Mul(o.eps51, tb.PmfAt(k))
		round.Mul(round, model.C04New().SetInt64(tb.N-k))
	}
	return
}

func (o *oracle) tolOn(tb *model.C04Table, k int64) *big.Float {
	b, r := o.tolParts(tb, k)
	return b.Add(b, r)
}

// tol(k) on the central table (used to place targeted hashes).
func (o *oracle) tol(k int64) *big.Float { return o.tolOn(o.tb, k) }

// betaDominated: the incomplete-beta term is at least 100× the rounding term of tol(k) (then the
// distance of an inexact answer, as a fraction of the band, measures the headroom left over
// gonum's own error).
func (o *oracle) betaDominated(k int64) bool {
	if o.perturbed {
		return false
	}
	b, r := o.tolParts(o.tb, k)
	return b.Cmp(r.Mul(r, model.C04F(100))) >= 0
}

// margin returns B(k) - t on table tb, computed on the side that keeps relative accuracy.
func (o *oracle) margin(tb *model.C04Table, k int64, t, s *big.Float) *big.Float {
	if t.Cmp(o.half) <= 0 {
		return model.C04New().Sub(tb.CdfAt(k), t)
	}
	// B(k) - t = (1 - Sf(k)) - (1 - s) = s - Sf(k)
	return model.C04New().Sub(s, tb.SfAt(k))
}

type verdict int

const (
	vDecisive  verdict = iota // exact quantile, and both neighbours would be refuted
	vAmbiguous                // inside the tolerance band on at least one side (may or may not be the exact quantile)
	vWrong                    // refuted
)

type judgement struct {
	v       verdict
	exact   bool    // j is the exact quantile for p itself
	side    string  // for vWrong: "low" (cdf(j) < t) or "high" (cdf(j-1) >= t)
	bandPPM float64 // for inexact answers inside the band: distance / tolerance, in ppm
	betaDom bool    // the boundary concerned has a band dominated by the incomplete-beta term
}

// tooFew: Pr(X<=j) stays below t by more than the band (for every admissible p).
func (o *oracle) tooFew(j int64, t, s *big.Float) bool {
	tb := o.tb
	if o.perturbed {
		if o.lo == nil {
			return false // p - 2^-52 <= 0: with p = 0 every j reaches every t
		}
		tb = o.lo
	}
	m := o.margin(tb, j, t, s)
	if m.Sign() >= 0 {
		return false
	}
	return m.Neg(m).Cmp(o.tolOn(tb, j)) > 0
}

// tooMany: j > 0 and already Pr(X<=j-1) reaches t by at least the band (for every admissible p).
func (o *oracle) tooMany(j int64, t, s *big.Float) bool {
	if j <= 0 {
		return false
	}
	tb := o.tb
	if o.perturbed {
		if o.hi == nil {
			return false
		}
		tb = o.hi
	}
	m := o.margin(tb, j-1, t, s)
	if m.Sign() < 0 {
		return false
	}
	return m.Cmp(o.tolOn(tb, j-1)) >= 0
}

// judge decides whether j can be the smallest seat count whose cumulative probability reaches
// t = h/(2^256-1) (s = 1-t), for 0 < t < 1.
func (o *oracle) judge(j int64, t, s *big.Float) judgement {
	res := judgement{exact: true}
	if o.tooFew(j, t, s) {
		return judgement{v: vWrong, side: "low"}
	}
	if o.tooMany(j, t, s) {
		return judgement{v: vWrong, side: "high"}
	}
	// exactness for p itself, and how far inside the band an inexact answer lies
	mLow := o.margin(o.tb, j, t, s) // >= 0 when Pr(X<=j) >= t
	if mLow.Sign() < 0 {
		res.exact = false
		if tolJ := o.tol(j); tolJ.Sign() > 0 {
			f, _ := model.C04New().Quo(model.C04New().Neg(mLow), tolJ).Float64()
			res.bandPPM, res.betaDom = f*1e6, o.betaDominated(j)
		}
	}
	if j > 0 {
		mHigh := o.margin(o.tb, j-1, t, s) // < 0 when Pr(X<=j-1) < t
		if mHigh.Sign() >= 0 {
			res.exact = false
			if tolP := o.tol(j - 1); tolP.Sign() > 0 {
				f, _ := model.C04New().Quo(mHigh, tolP).Float64()
				res.bandPPM, res.betaDom = f*1e6, o.betaDominated(j-1)
			}
		}
	}
	// decisive: exact, and the oracle would have refuted both j-1 (too few) and j+1 (too many)
	if res.exact && (j == 0 || o.tooFew(j-1, t, s)) && (j >= o.tb.N || o.tooMany(j+1, t, s)) {
		res.v = vDecisive
	} else {
		res.v = vAmbiguous
	}
	return res
}
