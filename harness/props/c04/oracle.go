package c04

import (
	"math"
	"math/big"

	"verif/model"
)

// Tolerance policy of the quantile oracle.
//
// The implementation evaluates the binomial CDF in float64 through gonum's incomplete beta
// function. Its error is *relative to the smaller of the two tail masses* it computes and grows with
// the stake n (cancellation between log-gamma terms of magnitude n·ln n): measured peak relative
// error ≈ 3·2^-53·n·ln n (1.8e-8 absolute at n = 10^7 near the mean, so the flat 1e-9 of the first
// plan was unsound). The band inside which the oracle abstains is therefore, at the boundary
// between k and k+1 seats (B(k) = Pr(X<=k)):
//
//   tol(k) = rho(n) · min(Pr(X<=k), Pr(X>k))  +  2^-51 · pmf(k) · (n-k)
//
//   rho(n) = clamp(64 · 2^-53 · n · ln(n+2), 1e-10, 1e-6)      (≥ 10× the measured error)
//
// The second term is the first-order effect on B(k) of perturbing 1-p by one part in 2^51
// (dB(k)/dp = -pmf(k)(n-k)/(1-p)): the code forms 1-p and 1-(1-p) in float64, which moves p by at
// most 2^-54 (half an ulp of 1-p >= 1/2; exact for p >= 1/2), i.e. at most a quarter of this term.
// For p < 2^-54 the code's 1-p is 1 and it answers 0 seats for every output: that too stays
// inside this term (n·p < 6e-10 for every stake <= 10^7).
// One seat's own mass pmf(k) exceeds tol(k) by orders of magnitude everywhere except in far tails
// of near-degenerate distributions, so off-by-one answers, a wrong mirror, a swapped inequality or
// a wrong branch are refuted while float noise is not. Samples inside the band are counted as
// ambiguous (and their distance is recorded as a fraction of the band), never as violations.

func rho(n int64) float64 {
	r := 64 * math.Ldexp(1, -53) * float64(n) * math.Log(float64(n)+2)
	if r < 1e-10 {
		r = 1e-10
	}
	if r > 1e-6 {
		r = 1e-6
	}
	return r
}

type oracle struct {
	tb    *model.C04Table
	rho   *big.Float
	eps51 *big.Float
	half  *big.Float
}

func newOracle(tb *model.C04Table) *oracle {
	return &oracle{tb: tb, rho: model.C04F(rho(tb.N)), eps51: model.C04F(math.Ldexp(1, -51)), half: model.C04F(0.5)}
}

// tolParts returns the two terms of tol(k): the incomplete-beta term and the 1-p rounding term.
func (o *oracle) tolParts(k int64) (beta, round *big.Float) {
	c, s := o.tb.CdfAt(k), o.tb.SfAt(k)
	m := c
	if s.Cmp(c) < 0 {
		m = s
	}
	beta = model.C04New().Mul(o.rho, m)
	round = model.C04New()
	if k >= o.tb.Lo && k <= o.tb.Hi && k < o.tb.N {
		round.Mul(o.eps51, o.tb.PmfAt(k))
		round.Mul(round, model.C04New().SetInt64(o.tb.N-k))
	}
	return
}

// tol(k) as above.
func (o *oracle) tol(k int64) *big.Float {
	b, r := o.tolParts(k)
	return b.Add(b, r)
}

// betaDominated: the incomplete-beta term is at least 100× the rounding term of tol(k) (then the
// distance of an inexact answer, as a fraction of the band, measures the headroom left over
// gonum's own error).
func (o *oracle) betaDominated(k int64) bool {
	b, r := o.tolParts(k)
	return b.Cmp(r.Mul(r, model.C04F(100))) >= 0
}

// margin returns B(k) - t, computed on the side that keeps relative accuracy.
func (o *oracle) margin(k int64, t, s *big.Float) *big.Float {
	if t.Cmp(o.half) <= 0 {
		return model.C04New().Sub(o.tb.CdfAt(k), t)
	}
	// B(k) - t = (1 - Sf(k)) - (1 - s) = s - Sf(k)
	return model.C04New().Sub(s, o.tb.SfAt(k))
}

type verdict int

const (
	vDecisive  verdict = iota // exact quantile, and both neighbours would be refuted
	vAmbiguous                // inside the tolerance band on at least one side (may or may not be the exact quantile)
	vWrong                    // refuted
)

type judgement struct {
	v       verdict
	exact   bool    // j is the exact quantile
	side    string  // for vWrong: "low" (cdf(j) < t) or "high" (cdf(j-1) >= t)
	bandPPM float64 // for inexact answers inside the band: distance / tolerance, in ppm
	betaDom bool    // the boundary concerned has a band dominated by the incomplete-beta term
}

// judge decides whether j can be the smallest seat count whose cumulative probability reaches
// t = h/(2^256-1) (s = 1-t), for 0 < t < 1.
func (o *oracle) judge(j int64, t, s *big.Float) judgement {
	res := judgement{exact: true}
	var zero big.Float
	// lower condition: B(j) >= t
	mLow := o.margin(j, t, s) // >= 0 when satisfied
	tolJ := o.tol(j)
	robustLow := mLow.Cmp(tolJ) >= 0
	if mLow.Sign() < 0 {
		res.exact = false
		neg := model.C04New().Neg(mLow)
		if neg.Cmp(tolJ) > 0 {
			res.v, res.side = vWrong, "low"
			return res
		}
		if tolJ.Cmp(&zero) > 0 {
			f, _ := model.C04New().Quo(neg, tolJ).Float64()
			res.bandPPM, res.betaDom = f*1e6, o.betaDominated(j)
		}
	}
	// upper condition: j == 0 or B(j-1) < t
	robustHigh := true
	if j > 0 {
		mHigh := o.margin(j-1, t, s) // < 0 when satisfied
		tolP := o.tol(j - 1)
		if mHigh.Sign() >= 0 {
			res.exact = false
			if mHigh.Cmp(tolP) >= 0 {
				res.v, res.side = vWrong, "high"
				return res
			}
			if tolP.Cmp(&zero) > 0 {
				f, _ := model.C04New().Quo(mHigh, tolP).Float64()
				res.bandPPM, res.betaDom = f*1e6, o.betaDominated(j-1)
			}
		}
		neg := model.C04New().Neg(mHigh)
		robustHigh = neg.Cmp(tolP) > 0
	}
	if res.exact && robustLow && robustHigh {
		res.v = vDecisive
	} else {
		res.v = vAmbiguous
	}
	return res
}
