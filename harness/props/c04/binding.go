package c04

// Workload C04.binding: real credentials are issued with ucon.VrfSortition and every input of the
// two verifiers (VrfVerifySortition, VrfVerifyPriority) is perturbed, one field at a time.
//
// Oracles (none of them uses the code under test):
//  * VRF value: model.C04VrfValue — affine secp256k1 arithmetic on math/big + SHA-512/SHA-256.
//  * seat count: exact binomial table (model.C04Table) with the tolerance of oracle.go.
//  * priority: model.C04Priority — max Keccak256(value || i), i = 0..j, with x/crypto's Keccak.
//  * perturbations of key, seed, round index, step, seat count, proof bytes: rejection is certain
//    (a collision has probability < 2^-120); perturbations of threshold / stake / total stake are
//    judged by the seat-count oracle (acceptance is right iff the claimed count is still the
//    quantile and >= 1; inputs inside the tolerance band are skipped).

import (
	"bytes"
	"crypto/ecdsa"
	"encoding/hex"
	"fmt"
	"math/big"
	"math/rand"

	"verif/kit"
	"verif/model"

	"github.com/youchainhq/go-youchain/common"
	"github.com/youchainhq/go-youchain/consensus/ucon"
	"github.com/youchainhq/go-youchain/crypto"
	"github.com/youchainhq/go-youchain/crypto/vrf"
	secp256k1VRF "github.com/youchainhq/go-youchain/crypto/vrf/secp256k1"
)

type credIn struct {
	Key     string `json:"vrf_secret_key"`
	KeyKind string `json:"key_kind"`
	Seed    string `json:"seed"`
	Index   uint32 `json:"round_index"`
	Step    uint32 `json:"step"`
	Tau     uint64 `json:"threshold"`
	Stake   int64  `json:"stake"`
	Total   string `json:"total_stake"`
}

func pad32(x *big.Int) []byte {
	b := x.Bytes()
	out := make([]byte, 32)
	copy(out[32-len(b):], b)
	return out
}

func genKey(r *rand.Rand) (*ecdsa.PrivateKey, *big.Int, string) {
	for {
		var d *big.Int
		kind := "random"
		switch r.Intn(12) {
		case 0:
			d, kind = big.NewInt(int64(1+r.Intn(3))), "tiny"
		case 1:
			d, kind = new(big.Int).Sub(model.C04N, big.NewInt(int64(1+r.Intn(3)))), "n-minus"
		case 2: // leading zero bytes: D.Bytes() is shorter than 32
			b := make([]byte, 1+r.Intn(30))
			r.Read(b)
			d, kind = new(big.Int).SetBytes(b), "short"
		default:
			b := make([]byte, 32)
			r.Read(b)
			d = new(big.Int).SetBytes(b)
		}
		if d.Sign() <= 0 || d.Cmp(model.C04N) >= 0 {
			continue
		}
		key, err := crypto.ToECDSA(pad32(d))
		if err != nil {
			continue
		}
		return key, d, kind
	}
}

type vargs struct {
	pk    vrf.PublicKey
	seed  common.Hash
	idx   uint32
	step  uint32
	proof []byte
	seats uint32
	tau   uint64
	n     *big.Int
	total *big.Int
}

func (a vargs) wit() map[string]interface{} {
	return map[string]interface{}{"seed": a.seed.Hex(), "round_index": a.idx, "step": a.step, "proof": hex.EncodeToString(a.proof),
		"seats": a.seats, "threshold": a.tau, "stake": a.n.String(), "total_stake": a.total.String()}
}

func (a vargs) sortition() (ok bool, err error, pan interface{}) {
	pan = kit.Guard(func() {
		ok, err = ucon.VrfVerifySortition(a.pk, a.seed, a.idx, a.step, a.proof, a.seats, a.tau, a.n, a.total)
	})
	return
}

func (a vargs) priority(prio common.Hash) (ok bool, err error, pan interface{}) {
	pan = kit.Guard(func() {
		ok, err = ucon.VrfVerifyPriority(a.pk, a.seed, a.idx, a.step, a.proof, prio, a.seats, a.tau, a.n, a.total)
	})
	return
}

func flipBit(b []byte, bit int) []byte {
	o := append([]byte{}, b...)
	o[bit/8] ^= 1 << uint(bit%8)
	return o
}

func flipHash(h common.Hash, bit int) common.Hash {
	var o common.Hash
	copy(o[:], flipBit(h[:], bit))
	return o
}

type tcache map[string]*oracle

func (tc tcache) get(n int64, p float64) *oracle {
	k := fmt.Sprintf("%d|%x", n, p)
	if o, ok := tc[k]; ok {
		return o
	}
	var o *oracle
	if tb := model.C04NewTable(n, p, 200000); tb != nil {
		o = newOracle(tb)
	}
	tc[k] = o
	return o
}

// seatVerdict judges whether j is the quantile of value under Binomial(n, p), 0 < p <= 1.
func seatVerdict(tc tcache, value [32]byte, n int64, p float64, j int64) (v verdict, exact int64) {
	h := new(big.Int).SetBytes(value[:])
	if j < 0 || j > n {
		return vWrong, -1
	}
	if h.Sign() == 0 || h.Cmp(model.C04Max) == 0 || !(p > 0) {
		return vAmbiguous, -1 // (probability 2^-255; not judged here, C04.quantile covers it)
	}
	if p >= 1 {
		if j == n {
			return vDecisive, n
		}
		return vWrong, n
	}
	o := tc.get(n, p)
	if o == nil {
		return vAmbiguous, -1
	}
	t, s := model.C04Frac(h)
	return o.judge(j, t, s).v, o.tb.Quantile(t, s)
}

type credential struct {
	in     credIn
	key    *ecdsa.PrivateKey
	d      *big.Int
	sk     vrf.PrivateKey
	pk     vrf.PublicKey
	seed   common.Hash
	idx    uint32
	step   uint32
	tau    uint64
	n      int64
	total  *big.Int
	p      float64
	value  common.Hash
	proof  []byte
	j      uint32
	issued bool
}

func genU32(r *rand.Rand) uint32 {
	switch r.Intn(6) {
	case 0:
		return 0
	case 1:
		return 0xffffffff
	case 2:
		return r.Uint32()
	default:
		return uint32(r.Intn(12))
	}
}

// genCredParams draws keys, message fields and stake parameters. mu is the targeted expected number
// of seats (so that both losers and winners with 1..hundreds of seats occur).
func genCredParams(r *rand.Rand, muLo, muHi float64) *credential {
	cr := &credential{}
	var kind string
	cr.key, cr.d, kind = genKey(r)
	r.Read(cr.seed[:])
	cr.idx, cr.step = genU32(r), genU32(r)
	cr.tau = []uint64{26, 2000, 4000, uint64(1 + r.Intn(10000))}[r.Intn(4)]
	cr.n = genStake(r)
	mu := logU(r, muLo, muHi)
	if mu > float64(cr.tau) {
		mu = float64(cr.tau)
	}
	tf := float64(cr.n) * float64(cr.tau) / mu
	t := int64(tf)
	if tf > 4e18 {
		t = 4e18
	}
	if t < cr.n {
		t = cr.n
	}
	if t < int64(cr.tau) {
		t = int64(cr.tau)
	}
	cr.total = big.NewInt(t)
	cr.p = pOf(cr.tau, cr.total)
	cr.in = credIn{Key: hex.EncodeToString(pad32(cr.d)), KeyKind: kind, Seed: cr.seed.Hex(), Index: cr.idx, Step: cr.step, Tau: cr.tau, Stake: cr.n, Total: cr.total.String()}
	return cr
}

func (cr *credential) args() vargs {
	return vargs{pk: cr.pk, seed: cr.seed, idx: cr.idx, step: cr.step, proof: cr.proof, seats: cr.j, tau: cr.tau, n: big.NewInt(cr.n), total: cr.total}
}

// issue runs the real VrfSortition and checks the VRF value against the reference. It returns
// false when a violation was reported.
func (cr *credential) issue(c *kit.Ctx) bool {
	var err error
	if cr.sk, err = secp256k1VRF.NewVRFSigner(cr.key); err != nil {
		c.Violation("vrf-key-rejected", "NewVRFSigner rejected a valid key: "+err.Error(), cr.in)
		return false
	}
	if cr.pk, err = secp256k1VRF.NewVRFVerifier(&cr.key.PublicKey); err != nil {
		c.Violation("vrf-key-rejected", "NewVRFVerifier rejected a valid key: "+err.Error(), cr.in)
		return false
	}
	rx, ry := model.C04PubKey(cr.d)
	c.Evals(1)
	if rx.Cmp(cr.key.PublicKey.X) != 0 || ry.Cmp(cr.key.PublicKey.Y) != 0 {
		c.Violation("pubkey-mismatch", "public key derived by the node differs from the reference [d]G", cr.in)
		return false
	}
	pan := kit.Guard(func() {
		cr.value, cr.proof, cr.j = ucon.VrfSortition(cr.sk, cr.seed, cr.idx, cr.step, cr.tau, big.NewInt(cr.n), cr.total)
	})
	if pan != nil {
		c.Violation("sortition-panic", fmt.Sprintf("VrfSortition panicked: %v", pan), cr.in)
		return false
	}
	cr.issued = true
	var seed32 [32]byte
	copy(seed32[:], cr.seed[:])
	ref, point, ok := model.C04VrfValue(cr.d, model.C04M(seed32, cr.step, cr.idx))
	c.Evals(1)
	if ok {
		c.Count("vrf_value_checked", 1)
		if ref != [32]byte(cr.value) || len(cr.proof) != 129 || !bytes.Equal(cr.proof[64:], point) {
			c.Violation("vrf-value-mismatch", fmt.Sprintf("VrfSortition returned value %s, reference VRF gives %x", cr.value.Hex(), ref),
				map[string]interface{}{"input": cr.in, "value": cr.value.Hex(), "reference": hex.EncodeToString(ref[:]), "proof": hex.EncodeToString(cr.proof), "reference_point": hex.EncodeToString(point)})
			return false
		}
	}
	return true
}

func seatBucket(j uint32) string {
	switch {
	case j == 0:
		return "0"
	case j == 1:
		return "1"
	case j < 10:
		return "2-9"
	case j < 100:
		return "10-99"
	case j < 1000:
		return "100-999"
	}
	return "1000+"
}

func runCredential(c *kit.Ctx, r *rand.Rand, cr *credential) string {
	if !cr.issue(c) {
		return ""
	}
	tc := tcache{}
	a := cr.args()
	otherKeyHex := ""
	base := func(extra map[string]interface{}) map[string]interface{} {
		m := map[string]interface{}{"issued_for": cr.in, "value": cr.value.Hex(), "proof": hex.EncodeToString(cr.proof), "seats": cr.j}
		if otherKeyHex != "" {
			m["other_secret_key"] = otherKeyHex
		}
		for k, v := range extra {
			m[k] = v
		}
		return m
	}
	// 1. the seat count is the exact quantile of the VRF value
	sv, exact := seatVerdict(tc, cr.value, cr.n, cr.p, int64(cr.j))
	c.Evals(1)
	if sv == vWrong {
		c.Violation("credential-seatcount-mismatch", fmt.Sprintf("VrfSortition issued %d seats, exact quantile is %d (stake %d, p %v)", cr.j, exact, cr.n, cr.p), base(map[string]interface{}{"exact_quantile": exact, "p": cr.p}))
		return ""
	}
	if sv == vDecisive {
		c.Count("issued_seatcount_decisive", 1)
	}
	c.Count("credentials", 1)
	c.Count("credentials_seats_"+seatBucket(cr.j), 1)
	c.Max("max_credential_seats", int64(cr.j))
	sig := fmt.Sprintf("%s|tau%d|n%d|j%s|p1=%v", cr.in.KeyKind, map[uint64]int{26: 26, 2000: 2000, 4000: 4000}[cr.tau], bucket10(float64(cr.n)), seatBucket(cr.j), cr.p >= 1)

	// 2. the proof opens to the same value for the independently built message
	var seed32 [32]byte
	copy(seed32[:], cr.seed[:])
	var got [32]byte
	var perr error
	if pan := kit.Guard(func() { got, perr = cr.pk.ProofToHash(model.C04M(seed32, cr.step, cr.idx), cr.proof) }); pan != nil {
		c.Violation("verify-panic", fmt.Sprintf("ProofToHash panicked on an honest proof: %v", pan), base(nil))
		return ""
	}
	c.Evals(1)
	if perr != nil || got != [32]byte(cr.value) {
		c.Violation("vrf-prooftohash-mismatch", fmt.Sprintf("ProofToHash(honest proof) = %x, err %v; issued value %s", got, perr, cr.value.Hex()), base(nil))
		return ""
	}

	// 3. the honest credential verifies iff it carries at least one seat
	ok, err, pan := a.sortition()
	c.Evals(1)
	if pan != nil {
		c.Violation("verify-panic", fmt.Sprintf("VrfVerifySortition panicked on an honest credential: %v", pan), base(nil))
		return ""
	}
	if cr.j >= 1 && !ok {
		c.Violation("honest-credential-rejected", fmt.Sprintf("VrfVerifySortition rejected the credential it was issued for: %v", err), base(nil))
		return ""
	}
	if cr.j == 0 && ok {
		c.Violation("sortition-zero-seat-accepted", "VrfVerifySortition accepted a credential with zero seats", base(nil))
		return ""
	}
	if cr.j >= 1 {
		c.Count("honest_accepted", 1)
	} else {
		c.Count("zero_seat_sortition_rejected", 1)
	}

	// 4. a second evaluation gives the same value and seat count (the proof itself is randomised)
	v2, p2nd, j2 := ucon.VrfSortition(cr.sk, cr.seed, cr.idx, cr.step, cr.tau, big.NewInt(cr.n), cr.total)
	c.Evals(1)
	if v2 != cr.value || j2 != cr.j {
		c.Violation("vrf-not-deterministic", fmt.Sprintf("second VrfSortition on the same inputs gave value %s seats %d (first %s, %d)", v2.Hex(), j2, cr.value.Hex(), cr.j), base(nil))
		return ""
	}
	if !bytes.Equal(p2nd, cr.proof) {
		c.Count("second_proof_differs", 1)
	}

	other, od, _ := genKey(r)
	for od.Cmp(cr.d) == 0 {
		other, od, _ = genKey(r)
	}
	opk, _ := secp256k1VRF.NewVRFVerifier(&other.PublicKey)
	otherKeyHex = hex.EncodeToString(pad32(od))
	osk, _ := secp256k1VRF.NewVRFSigner(other)

	type pert struct {
		field string
		a     vargs
	}
	var ps []pert
	add := func(field string, f func(x *vargs)) {
		x := a
		f(&x)
		ps = append(ps, pert{field, x})
	}
	add("key", func(x *vargs) { x.pk = opk })
	for _, bit := range []int{0, 255, r.Intn(256), r.Intn(256)} {
		bit := bit
		add("seed", func(x *vargs) { x.seed = flipHash(a.seed, bit) })
	}
	add("round-index", func(x *vargs) { x.idx = a.idx + 1 })
	add("round-index", func(x *vargs) { x.idx = a.idx - 1 })
	add("round-index", func(x *vargs) { x.idx = a.idx ^ (1 << uint(r.Intn(32))) })
	add("step", func(x *vargs) { x.step = a.step + 1 })
	add("step", func(x *vargs) { x.step = a.step - 1 })
	add("step", func(x *vargs) { x.step = a.step ^ (1 << uint(r.Intn(32))) })
	if a.step != a.idx {
		add("step-index-swapped", func(x *vargs) { x.step, x.idx = a.idx, a.step })
	}
	add("seat-count", func(x *vargs) { x.seats = a.seats + 1 })
	add("seat-count", func(x *vargs) { x.seats = a.seats - 1 })
	add("seat-count", func(x *vargs) { x.seats = a.seats ^ (1 << 31) })
	add("seat-count", func(x *vargs) { x.seats = a.seats + 2 + uint32(r.Intn(1000)) })
	if a.seats != 0 {
		add("seat-count", func(x *vargs) { x.seats = 0 })
	}
	for _, rg := range [][2]int{{0, 32}, {0, 32}, {32, 64}, {32, 64}, {64, 65}, {65, 97}, {97, 129}, {0, 129}} {
		bit := (rg[0]+r.Intn(rg[1]-rg[0]))*8 + r.Intn(8)
		add("proof-bit", func(x *vargs) { x.proof = flipBit(a.proof, bit) })
	}
	add("proof-length", func(x *vargs) { x.proof = a.proof[:128] })
	add("proof-length", func(x *vargs) { x.proof = append(append([]byte{}, a.proof...), 0) })
	add("proof-length", func(x *vargs) { x.proof = []byte{} })
	add("proof-length", func(x *vargs) { x.proof = nil })
	add("proof-length", func(x *vargs) { x.proof = a.proof[:64+33] })
	add("proof-point-negated", func(x *vargs) {
		p := append([]byte{}, a.proof...)
		y := new(big.Int).SetBytes(p[97:129])
		pfield, _ := new(big.Int).SetString("FFFFFFFFFFFFFFFFFFFFFFFFFFFFFFFFFFFFFFFFFFFFFFFFFFFFFFFEFFFFFC2F", 16)
		copy(p[97:129], pad32(y.Sub(pfield, y)))
		x.proof = p
	})
	add("proof-of-other-message", func(x *vargs) {
		_, x.proof = cr.sk.Evaluate(model.C04M(seed32, cr.step, cr.idx+1))
	})
	add("proof-of-other-key", func(x *vargs) {
		_, x.proof = osk.Evaluate(model.C04M(seed32, cr.step, cr.idx))
	})
	add("proof-halves-swapped", func(x *vargs) {
		p := append([]byte{}, a.proof...)
		copy(p[0:32], a.proof[32:64])
		copy(p[32:64], a.proof[0:32])
		x.proof = p
	})
	for _, p := range ps {
		ok, _, pan := p.a.sortition()
		c.Evals(1)
		c.Count("perturbations_sortition", 1)
		c.Count("pert_"+p.field, 1)
		if pan != nil {
			w := base(map[string]interface{}{"presented": p.a.wit(), "field": p.field, "panic": fmt.Sprint(pan)})
			if isDegenerate(p.a.proof) {
				c.Violation("vrf-proof-degenerate-scalar-panic", fmt.Sprintf("VrfVerifySortition panicked on a proof whose s or t is 0 or >= N: %v", pan), w)
			} else {
				c.Violation("verify-panic", fmt.Sprintf("VrfVerifySortition panicked after perturbing %s: %v", p.field, pan), w)
			}
			return ""
		}
		if ok {
			c.Violation("binding-sortition-accepted-"+p.field, fmt.Sprintf("VrfVerifySortition accepted a credential after perturbing %s", p.field), base(map[string]interface{}{"presented": p.a.wit(), "field": p.field}))
			return ""
		}
		c.Count("perturbations_rejected", 1)
	}

	// 5. threshold / stake / total perturbed: acceptance must follow the quantile
	type sp struct {
		n     int64
		tau   uint64
		total *big.Int
	}
	var sps []sp
	tot := cr.total
	addT := func(d int64, mul, div int64) {
		t := new(big.Int).Set(tot)
		if mul > 0 {
			t.Mul(t, big.NewInt(mul))
		}
		if div > 0 {
			t.Div(t, big.NewInt(div))
		}
		t.Add(t, big.NewInt(d))
		sps = append(sps, sp{cr.n, cr.tau, t})
	}
	addT(1, 0, 0)
	addT(-1, 0, 0)
	addT(0, 2, 0)
	addT(0, 0, 2)
	addT(0, 101, 100)
	sps = append(sps, sp{cr.n + 1, cr.tau, tot}, sp{cr.n - 1, cr.tau, tot}, sp{cr.n * 2, cr.tau, tot}, sp{cr.n / 2, cr.tau, tot},
		sp{cr.n, cr.tau + 1, tot}, sp{cr.n, cr.tau - 1, tot}, sp{cr.n, cr.tau * 2, tot}, sp{cr.n, cr.tau / 2, tot})
	r.Shuffle(len(sps), func(i, k int) { sps[i], sps[k] = sps[k], sps[i] })
	done := 0
	for _, s := range sps {
		if done >= 6 {
			break
		}
		if s.n < 1 || s.n > maxStake || s.tau < 1 || s.total.Sign() <= 0 || s.total.Cmp(new(big.Int).SetUint64(s.tau)) < 0 {
			continue // p > 1 and p = 0 have their own cases
		}
		p := pOf(s.tau, s.total)
		if float64(s.n)*p > maxMean {
			continue
		}
		done++
		v, ex := seatVerdict(tc, cr.value, s.n, p, int64(cr.j))
		x := a
		x.n, x.tau, x.total = big.NewInt(s.n), s.tau, s.total
		ok, _, pan := x.sortition()
		c.Evals(1)
		c.Count("perturbations_stake_params", 1)
		if pan != nil {
			c.Violation("verify-panic", fmt.Sprintf("VrfVerifySortition panicked with perturbed stake parameters: %v", pan), base(map[string]interface{}{"presented": x.wit()}))
			return ""
		}
		switch {
		case v == vAmbiguous:
			c.Count("stake_params_ambiguous", 1)
		case v == vDecisive && cr.j >= 1:
			c.Count("stake_params_same_quantile", 1)
			if !ok {
				c.Violation("verifier-quantile-disagreement", fmt.Sprintf("verifier rejected %d seats although it is the exact quantile under (stake %d, threshold %d, total %s)", cr.j, s.n, s.tau, s.total), base(map[string]interface{}{"presented": x.wit(), "exact_quantile": ex}))
				return ""
			}
		case v == vWrong || cr.j == 0:
			c.Count("stake_params_other_quantile", 1)
			if ok {
				c.Violation("verifier-quantile-disagreement", fmt.Sprintf("verifier accepted %d seats although the exact quantile under (stake %d, threshold %d, total %s) is %d", cr.j, s.n, s.tau, s.total, ex), base(map[string]interface{}{"presented": x.wit(), "exact_quantile": ex}))
				return ""
			}
		}
	}

	// 6. priority
	if cr.j >= 1 {
		refPrio, arg := model.C04Priority([32]byte(cr.value), uint64(cr.j))
		prio := ucon.VrfComputePriority(cr.value, cr.j)
		c.Evals(1)
		if [32]byte(prio) != refPrio {
			c.Violation("priority-not-max-seat-hash", fmt.Sprintf("VrfComputePriority(%s, %d) = %s, largest seat hash is %x (seat %d)", cr.value.Hex(), cr.j, prio.Hex(), refPrio, arg), base(nil))
			return ""
		}
		ok, err, pan := a.priority(prio)
		c.Evals(1)
		if pan != nil {
			c.Violation("verify-panic", fmt.Sprintf("VrfVerifyPriority panicked on an honest priority: %v", pan), base(nil))
			return ""
		}
		if !ok {
			c.Violation("honest-priority-rejected", fmt.Sprintf("VrfVerifyPriority rejected the largest seat hash: %v", err), base(map[string]interface{}{"priority": prio.Hex()}))
			return ""
		}
		c.Count("honest_priority_accepted", 1)
		// other candidates with everything else honest
		type cand struct {
			what string
			h    common.Hash
		}
		var cs []cand
		seen := map[uint64]bool{arg: true}
		for _, i := range []uint64{0, 1, uint64(cr.j), uint64(cr.j) + 1, uint64(r.Int63n(int64(cr.j) + 1)), uint64(r.Int63n(int64(cr.j) + 1))} {
			if seen[i] {
				continue
			}
			seen[i] = true
			sh := model.C04SeatHash([32]byte(cr.value), i)
			if sh == refPrio {
				continue
			}
			cs = append(cs, cand{fmt.Sprintf("seat-hash-%d-not-largest", i), common.Hash(sh)})
		}
		cs = append(cs, cand{"bit-flip", flipHash(prio, r.Intn(256))}, cand{"bit-flip", flipHash(prio, 0)}, cand{"zero", common.Hash{}}, cand{"vrf-value", cr.value},
			cand{"all-ones", common.HexToHash("0xffffffffffffffffffffffffffffffffffffffffffffffffffffffffffffffff")})
		for _, cd := range cs {
			if cd.h == prio {
				continue
			}
			ok, _, pan := a.priority(cd.h)
			c.Evals(1)
			c.Count("priority_candidates", 1)
			if pan != nil {
				c.Violation("verify-panic", fmt.Sprintf("VrfVerifyPriority panicked: %v", pan), base(map[string]interface{}{"priority": cd.h.Hex()}))
				return ""
			}
			if ok {
				c.Violation("binding-priority-accepted-other-hash", fmt.Sprintf("VrfVerifyPriority accepted %s (%s), which is not the largest hash over seats 0..%d", cd.h.Hex(), cd.what, cr.j), base(map[string]interface{}{"priority": cd.h.Hex(), "what": cd.what, "largest": prio.Hex()}))
				return ""
			}
			c.Count("priority_candidates_rejected", 1)
		}
		// the honest priority with one other field perturbed (a sample of the list above)
		r.Shuffle(len(ps), func(i, k int) { ps[i], ps[k] = ps[k], ps[i] })
		nn := 10
		if len(ps) < nn {
			nn = len(ps)
		}
		for _, p := range ps[:nn] {
			ok, _, pan := p.a.priority(prio)
			c.Evals(1)
			c.Count("perturbations_priority", 1)
			if pan != nil {
				w := base(map[string]interface{}{"presented": p.a.wit(), "field": p.field, "panic": fmt.Sprint(pan)})
				if isDegenerate(p.a.proof) {
					c.Violation("vrf-proof-degenerate-scalar-panic", fmt.Sprintf("VrfVerifyPriority panicked on a proof whose s or t is 0 or >= N: %v", pan), w)
				} else {
					c.Violation("verify-panic", fmt.Sprintf("VrfVerifyPriority panicked after perturbing %s: %v", p.field, pan), w)
				}
				return ""
			}
			if ok {
				c.Violation("binding-priority-accepted-"+p.field, fmt.Sprintf("VrfVerifyPriority accepted the priority after perturbing %s", p.field), base(map[string]interface{}{"presented": p.a.wit(), "field": p.field, "priority": prio.Hex()}))
				return ""
			}
			c.Count("perturbations_rejected", 1)
		}
	}
	return sig
}

// isDegenerate: s or t (proof[0:32], proof[32:64]) is 0 or >= the group order.
func isDegenerate(proof []byte) bool {
	if len(proof) != 129 {
		return false
	}
	for _, part := range [][]byte{proof[0:32], proof[32:64]} {
		x := new(big.Int).SetBytes(part)
		if x.Sign() == 0 || x.Cmp(model.C04N) >= 0 {
			return true
		}
	}
	return false
}

var degenerateVariants = []string{"s=0", "t=0", "s=N", "t=N", "s=2^256-1", "t=2^256-1", "s=N+1", "t=N+5", "s=0,t=0"}

// runDegenerate: an otherwise honest proof whose scalar s or t is 0 or not reduced modulo the group
// order must be rejected (never crash the verifier).
func runDegenerate(c *kit.Ctx, r *rand.Rand, variant string) {
	cr := genCredParams(r, 1, 50)
	if !cr.issue(c) {
		return
	}
	p := append([]byte{}, cr.proof...)
	set := func(off int, v *big.Int) { copy(p[off:off+32], pad32(v)) }
	ones := new(big.Int).Set(model.C04Max)
	switch variant {
	case "s=0":
		set(0, new(big.Int))
	case "t=0":
		set(32, new(big.Int))
	case "s=N":
		set(0, model.C04N)
	case "t=N":
		set(32, model.C04N)
	case "s=2^256-1":
		set(0, ones)
	case "t=2^256-1":
		set(32, ones)
	case "s=N+1":
		set(0, new(big.Int).Add(model.C04N, big.NewInt(1)))
	case "t=N+5":
		set(32, new(big.Int).Add(model.C04N, big.NewInt(5)))
	case "s=0,t=0":
		set(0, new(big.Int))
		set(32, new(big.Int))
	}
	a := cr.args()
	a.proof = p
	if a.seats == 0 {
		a.seats = 1
	}
	wit := map[string]interface{}{"issued_for": cr.in, "honest_proof": hex.EncodeToString(cr.proof), "presented": a.wit(), "variant": variant}
	for _, which := range []string{"VrfVerifySortition", "VrfVerifyPriority", "ProofToHash"} {
		var ok bool
		var pan interface{}
		switch which {
		case "VrfVerifySortition":
			ok, _, pan = a.sortition()
		case "VrfVerifyPriority":
			ok, _, pan = a.priority(ucon.VrfComputePriority(cr.value, a.seats))
		default:
			var seed32 [32]byte
			copy(seed32[:], cr.seed[:])
			pan = kit.Guard(func() {
				_, err := cr.pk.ProofToHash(model.C04M(seed32, cr.step, cr.idx), p)
				ok = err == nil
			})
		}
		c.Evals(1)
		c.Count("degenerate_scalar_probes", 1)
		if pan != nil {
			wit["panic"] = fmt.Sprint(pan)
			wit["entry_point"] = which
			c.Violation("vrf-proof-degenerate-scalar-panic", fmt.Sprintf("%s panicked on a 129-byte proof with %s: %v (ScalarMult returns nil for a zero/overflowing scalar and the result is used unchecked)", which, variant, pan), wit)
			return
		}
		if ok {
			wit["entry_point"] = which
			c.Violation("binding-sortition-accepted-degenerate-proof", fmt.Sprintf("%s accepted a proof with %s", which, variant), wit)
			return
		}
		c.Count("degenerate_scalar_rejected", 1)
	}
}

// runZeroSeat: a validator that won no seat must not be able to present a verifying priority.
func runZeroSeat(c *kit.Ctx, r *rand.Rand) string {
	cr := genCredParams(r, 1e-6, 1e-3)
	if !cr.issue(c) {
		return ""
	}
	if cr.j != 0 {
		c.Count("zero_seat_cases_with_seats", 1)
		return ""
	}
	a := cr.args()
	ok, _, pan := a.sortition()
	c.Evals(1)
	wit := map[string]interface{}{"issued_for": cr.in, "value": cr.value.Hex(), "presented": a.wit()}
	if pan != nil {
		c.Violation("verify-panic", fmt.Sprintf("VrfVerifySortition panicked: %v", pan), wit)
		return ""
	}
	if ok {
		c.Violation("sortition-zero-seat-accepted", "VrfVerifySortition accepted a credential with zero seats", wit)
		return ""
	}
	c.Count("zero_seat_sortition_rejected", 1)
	// arbitrary priorities with seat count 0
	for _, h := range []common.Hash{{}, cr.value, flipHash(cr.value, r.Intn(256))} {
		ok, _, pan := a.priority(h)
		c.Evals(1)
		if pan != nil {
			c.Violation("verify-panic", fmt.Sprintf("VrfVerifyPriority panicked: %v", pan), wit)
			return ""
		}
		if ok && h != ucon.VrfComputePriority(cr.value, 0) {
			wit["priority"] = h.Hex()
			c.Violation("binding-priority-accepted-other-hash", "VrfVerifyPriority accepted an arbitrary hash with zero seats", wit)
			return ""
		}
	}
	p0 := ucon.VrfComputePriority(cr.value, 0)
	ok, _, pan = a.priority(p0)
	c.Evals(1)
	c.Count("zero_seat_priority_probes", 1)
	if pan != nil {
		c.Violation("verify-panic", fmt.Sprintf("VrfVerifyPriority panicked: %v", pan), wit)
		return ""
	}
	if ok {
		wit["priority"] = p0.Hex()
		c.Violation("priority-zero-seat-accepted", fmt.Sprintf("VrfVerifyPriority accepted priority %s = Keccak(value) with seat count 0: a validator that won no seat (exact quantile 0, VrfVerifySortition rejects it) passes the proposer check", p0.Hex()), wit)
		return ""
	}
	c.Count("zero_seat_priority_rejected", 1)
	return "zeroseat"
}

// runPGt1API: committee threshold above the total stake through the exported entry points.
func runPGt1API(c *kit.Ctx, r *rand.Rand, verifySide bool) {
	cr := genCredParams(r, 1, 50)
	big1k := new(big.Int).Add(cr.total, big.NewInt(int64(1+r.Intn(1000))))
	if !big1k.IsUint64() {
		return
	}
	hostileTau := big1k.Uint64()
	if !verifySide {
		var j uint32
		pan := kit.Guard(func() {
			_, _, j = ucon.VrfSortition(secpSigner(cr.key), cr.seed, cr.idx, cr.step, hostileTau, big.NewInt(cr.n), cr.total)
		})
		c.Evals(1)
		c.Count("p_gt_1_probes", 1)
		wit := map[string]interface{}{"input": cr.in, "threshold_used": hostileTau, "entry_point": "VrfSortition"}
		if pan != nil {
			wit["panic"] = fmt.Sprint(pan)
			c.Violation("choose-panic-p-gt-1", fmt.Sprintf("VrfSortition(threshold=%d > totalStake=%s, stake=%d) panicked: %v", hostileTau, cr.total, cr.n, pan), wit)
			return
		}
		if int64(j) > cr.n {
			c.Violation("choose-out-of-range", fmt.Sprintf("VrfSortition returned %d seats for stake %d", j, cr.n), wit)
		}
		return
	}
	if !cr.issue(c) {
		return
	}
	a := cr.args()
	a.tau = hostileTau
	if a.seats == 0 {
		a.seats = 1
	}
	for _, which := range []string{"VrfVerifyPriority", "VrfVerifySortition"} {
		var pan interface{}
		if which == "VrfVerifyPriority" {
			_, _, pan = a.priority(ucon.VrfComputePriority(cr.value, a.seats))
		} else {
			_, _, pan = a.sortition()
		}
		c.Evals(1)
		c.Count("p_gt_1_probes", 1)
		if pan != nil {
			c.Violation("choose-panic-p-gt-1", fmt.Sprintf("%s with a valid proof and threshold=%d > totalStake=%s panicked: %v (VerifyHeader passes the header's own ProposerThreshold here)", which, hostileTau, cr.total, pan),
				map[string]interface{}{"issued_for": cr.in, "presented": a.wit(), "entry_point": which, "panic": fmt.Sprint(pan)})
			return
		}
	}
}

func secpSigner(k *ecdsa.PrivateKey) vrf.PrivateKey {
	s, _ := secp256k1VRF.NewVRFSigner(k)
	return s
}

func runBinding(c *kit.Ctx) {
	idx := 0
	next := func(id string) bool {
		m := c.Mine(idx, id)
		idx++
		return m
	}
	ncred := c.N(4000, 90000)
	if c.Mode == "asan" && !c.Quick() {
		ncred /= 3 // ASan costs ~5x per credential; the sanitizer needs coverage of the cgo paths, not volume
	}
	for i := 0; i < ncred; i++ {
		id := fmt.Sprintf("b/cred/%d", i)
		if !next(id) {
			continue
		}
		r := c.Rand(id)
		cr := genCredParams(r, 0.05, 400)
		c.Begin(id, cr.in)
		sig := runCredential(c, r, cr)
		if sig != "" && cr.j >= 1 {
			c.Sample(map[string]interface{}{"issued_for": cr.in, "value": cr.value.Hex(), "seats": cr.j, "p": cr.p})
		}
		c.End(sig)
	}
	for i := 0; i < c.N(48, 600); i++ {
		id := fmt.Sprintf("b/zeroseat/%d", i)
		if !next(id) {
			continue
		}
		c.Begin(id, map[string]interface{}{"kind": "zero-seat"})
		sig := runZeroSeat(c, c.Rand(id))
		c.End(sig)
	}
	for i := 0; i < c.N(27, 180); i++ {
		id := fmt.Sprintf("b/degenerate/%d", i)
		if !next(id) {
			continue
		}
		v := degenerateVariants[i%len(degenerateVariants)]
		c.Begin(id, map[string]interface{}{"kind": "degenerate-proof-scalar", "variant": v})
		runDegenerate(c, c.Rand(id), v)
		c.End("degenerate|" + v)
	}
	for i := 0; i < c.N(16, 64); i++ {
		id := fmt.Sprintf("b/pgt1/%d", i)
		if !next(id) {
			continue
		}
		c.Begin(id, map[string]interface{}{"kind": "threshold>total", "verify_side": i%2 == 1})
		runPGt1API(c, c.Rand(id), i%2 == 1)
		c.End(fmt.Sprintf("pgt1|%v", i%2 == 1))
	}
}
