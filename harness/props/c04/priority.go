package c04

// C04.priority: the proposer priority as a function of (VRF value, seat count), compared with the
// independent reference (largest Keccak256(value || minimal-big-endian(i)), i = 0..j) for seat
// counts far beyond what the credential workload reaches: around every byte-length boundary of the
// seat number (255/256, 65535/65536), multiples of 256, and *directed* values whose largest seat
// hash sits exactly on a multiple of 256 (found with the reference). Large committees exist in the
// protocol tables (2000 and 4000 seats), and a single large staker wins hundreds of them.

import (
	"fmt"

	"verif/kit"
	"verif/model"

	"github.com/youchainhq/go-youchain/common"
	"github.com/youchainhq/go-youchain/consensus/ucon"
)

func init() { kit.Register("C04.priority", runPriority) }

var prioEdges = []uint64{0, 1, 2, 3, 127, 128, 254, 255, 256, 257, 258, 511, 512, 513, 767, 768, 769, 1023, 1024, 1025, 1279, 1280, 2047, 2048, 2049, 4000, 4095, 4096}

func runPriority(c *kit.Ctx) {
	n := c.N(64, 1600)
	for i := 0; i < n; i++ {
		id := fmt.Sprintf("p%d", i)
		if !c.Mine(i, id) {
			continue
		}
		r := c.Rand(id)
		c.Begin(id, nil)
		bad := false
		check := func(v [32]byte, j uint64, what string) {
			if bad {
				return
			}
			ref, arg := model.C04Priority(v, j)
			got := ucon.VrfComputePriority(common.Hash(v), uint32(j))
			c.Evals(1)
			c.Count("priority_function_compared", 1)
			if arg >= 256 {
				c.Count("priority_argmax_seat_ge_256", 1)
			}
			if arg > 0 && arg%256 == 0 {
				c.Count("priority_argmax_on_multiple_of_256", 1)
			}
			if got != common.Hash(ref) {
				bad = true
				c.Violation("priority-not-max-seat-hash", fmt.Sprintf("VrfComputePriority(%x, %d) = %s, but the largest seat hash over seats 0..%d is %x (seat %d) [%s]", v, j, got.Hex(), j, ref, arg, what),
					map[string]interface{}{"value": fmt.Sprintf("%x", v), "seats": j, "largest_seat": arg, "expected": fmt.Sprintf("%x", ref), "got": got.Hex()})
			}
		}
		// 1. random values at edge seat counts and random seat counts
		for k := 0; k < 6 && !bad; k++ {
			var v [32]byte
			r.Read(v[:])
			check(v, prioEdges[r.Intn(len(prioEdges))], "edge seat count")
			check(v, uint64(r.Intn(3000)), "random seat count")
		}
		// 2. directed: a value whose largest seat hash over 0..1100 is attained on a multiple of 256
		for tries := 0; tries < 4000 && !bad; tries++ {
			var v [32]byte
			r.Read(v[:])
			_, arg := model.C04Priority(v, 1100)
			if arg == 0 || arg%256 != 0 {
				continue
			}
			c.Count("priority_directed_values", 1)
			check(v, arg, "largest hash on the last seat, a multiple of 256")
			check(v, arg+uint64(1+r.Intn(40)), "largest hash on a multiple of 256")
			check(v, arg-1, "one seat short of the multiple of 256")
			break
		}
		// 3. rarely: the two-byte/three-byte boundary of the seat number
		if i%16 == 0 && !bad {
			var v [32]byte
			r.Read(v[:])
			check(v, 65535+uint64(r.Intn(3)), "seat numbers across 65536")
		}
		c.End("")
	}
}
