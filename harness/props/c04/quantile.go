// Package c04: sortition selects exactly the binomial quantile and its proofs bind all inputs.
//
// Workload C04.quantile drives the real `choose` (through the verif-tagged wrapper
// ucon.VerifChoose) over (VRF output, stake, p) triples and judges every answer against an exact
// 384-bit binomial table (model.C04Table). Workload C04.binding (binding.go) issues real
// credentials with VrfSortition and perturbs every input of the verifiers.
package c04

import (
	"fmt"
	"math"
	"math/big"
	"math/rand"
	"sort"

	"verif/kit"
	"verif/model"

	"github.com/youchainhq/go-youchain/common"
	"github.com/youchainhq/go-youchain/consensus/ucon"
)

func init() {
	kit.Register("C04.quantile", runQuantile)
	kit.Register("C04.binding", runBinding)
}

const maxStake = 10000000 // the property quantifies over stakes in [1, 10^7]
const maxMean = 12000.0   // judged domain: expected seats n·p <= 3 × the largest protocol committee (4000)

type qcfg struct {
	Kind  string  `json:"kind"`
	N     int64   `json:"stake"`
	Tau   uint64  `json:"threshold,omitempty"`
	Total string  `json:"total_stake,omitempty"`
	P     float64 `json:"p"`
	PHex  string  `json:"p_hexfloat"`
}

// pOf is the float64 the code under test derives from (threshold, totalStake): the same
// standard-library expression, so that the quantile function is tested and not the rounding of p.
func pOf(tau uint64, total *big.Int) float64 {
	p, _ := new(big.Float).Quo(new(big.Float).SetUint64(tau), new(big.Float).SetInt(total)).Float64()
	return p
}

func logU(r *rand.Rand, lo, hi float64) float64 {
	return math.Exp(math.Log(lo) + r.Float64()*(math.Log(hi)-math.Log(lo)))
}

var stakeEdges = []int64{1, 2, 3, 4, 7, 19, 20, 21, 25, 26, 27, 100, 1999, 2000, 2001, 4000, 4001, 10000, 65536, 1000000, 9999999, 10000000}

func genStake(r *rand.Rand) int64 {
	if r.Intn(8) == 0 {
		return stakeEdges[r.Intn(len(stakeEdges))]
	}
	n := int64(logU(r, 1, maxStake+1))
	if n < 1 {
		n = 1
	}
	if n > maxStake {
		n = maxStake
	}
	return n
}

func mkcfg(kind string, n int64, tau uint64, total *big.Int, p float64) qcfg {
	c := qcfg{Kind: kind, N: n, Tau: tau, P: p, PHex: fmt.Sprintf("%x", p)}
	if total != nil {
		c.Total = total.String()
	}
	return c
}

// genCfg draws one (stake, p) configuration with 0 < p <= 1 and n·p <= maxMean.
func genCfg(r *rand.Rand) qcfg {
	for {
		var cfg qcfg
		k := r.Intn(100)
		switch {
		case k < 55: // protocol or random committee size over an integer total stake >= own stake
			kind := "proto"
			tau := []uint64{26, 2000, 4000}[r.Intn(3)]
			if k >= 35 {
				kind = "randcommittee"
				tau = uint64(logU(r, 1, 10001))
			}
			n := genStake(r)
			var total *big.Int
			switch r.Intn(6) {
			case 0: // one validator owns everything (p up to 1)
				total = big.NewInt(n)
			case 1:
				total = big.NewInt(n + int64(r.Intn(5)))
			case 2: // astronomically large total: p tiny
				total = new(big.Int).Exp(big.NewInt(10), big.NewInt(int64(13+r.Intn(12))), nil)
				total.Add(total, big.NewInt(r.Int63n(1000000)))
			default:
				total = new(big.Int).Mul(big.NewInt(n), big.NewInt(int64(logU(r, 1, 1e6))))
				total.Add(total, big.NewInt(int64(r.Intn(1000))))
			}
			if total.Cmp(new(big.Int).SetUint64(tau)) < 0 { // keep p <= 1 here; p > 1 has its own cases
				total = new(big.Int).SetUint64(tau + uint64(r.Intn(3)))
			}
			cfg = mkcfg(kind, n, tau, total, pOf(tau, total))
		case k < 65: // expected seats right at the forward-scan / binary-search switch (n·p = 20)
			n := genStake(r)
			if n < 21 {
				n = 21 + int64(r.Intn(1000))
			}
			p := 20 / float64(n)
			switch r.Intn(5) {
			case 0:
				p = math.Nextafter(p, 0)
			case 1:
				p = math.Nextafter(p, 1)
			case 2:
				p *= 1 + (r.Float64()-0.5)*1e-3
			case 3:
				p *= 1 + (r.Float64()-0.5)*1e-9
			}
			cfg = mkcfg("mean20", n, 0, nil, p)
		case k < 77: // arbitrary p in (0,1)
			p := r.Float64()
			if p == 0 {
				p = 0.5
			}
			n := int64(logU(r, 1, math.Min(maxStake, maxMean/p)+1))
			if n < 1 {
				n = 1
			}
			cfg = mkcfg("randp", n, 0, nil, p)
		case k < 82: // p close to 1
			p := 1 - math.Pow(10, -(1+r.Float64()*15))
			if r.Intn(6) == 0 {
				p = math.Nextafter(1, 0)
			}
			n := int64(logU(r, 1, maxMean))
			cfg = mkcfg("nearone", n, 0, nil, p)
		case k < 90: // tiny p
			p := math.Pow(10, -(6 + r.Float64()*16))
			cfg = mkcfg("tinyp", genStake(r), 0, nil, p)
		default: // very small stakes, every seat count reachable
			n := int64(1 + r.Intn(30))
			p := r.Float64()
			if r.Intn(3) == 0 {
				p = float64(1+r.Intn(int(n))) / float64(n+int64(r.Intn(3)))
			}
			if p <= 0 || p > 1 {
				p = 0.5
			}
			cfg = mkcfg("smallstake", n, 0, nil, p)
		}
		if !(cfg.P > 0) || cfg.P > 1 || float64(cfg.N)*cfg.P > maxMean {
			continue
		}
		return cfg
	}
}

type hsample struct {
	h    *big.Int
	kind string
}

var (
	big1   = big.NewInt(1)
	f099   = 0.99
	p2     = func(e uint) *big.Int { return new(big.Int).Lsh(big1, e) }
	maxSub = func(x *big.Int) *big.Int { return new(big.Int).Sub(model.C04Max, x) }
)

// switchHashes are VRF outputs whose float64 fraction is 0.99, its two float64 neighbours, and
// values ±1, ±2^200..2^203 around each (ulp(0.99) = 2^-53 ≙ 2^203 in hash units).
func switchHashes() []*big.Int {
	var out []*big.Int
	for _, f := range []float64{math.Nextafter(f099, 0), f099, math.Nextafter(f099, 1)} {
		x := model.C04New().Mul(model.C04F(f), model.C04New().SetInt(model.C04Max))
		base, _ := x.Int(nil)
		out = append(out, base)
		for _, d := range []*big.Int{big1, p2(200), p2(201), p2(202), p2(203)} {
			out = append(out, new(big.Int).Add(base, d), new(big.Int).Sub(base, d))
		}
	}
	return out
}

func edgeHashes() []*big.Int {
	return []*big.Int{new(big.Int), big.NewInt(1), big.NewInt(2), big.NewInt(3), p2(64), p2(128), p2(200),
		new(big.Int).Sub(p2(255), big1), p2(255), new(big.Int).Add(p2(255), big1),
		maxSub(p2(200)), maxSub(p2(128)), maxSub(p2(64)), maxSub(big.NewInt(2)), maxSub(big1), new(big.Int).Set(model.C04Max)}
}

var offsets = []float64{-4, -2, -0.5, -0.2, -0.1, -0.05, -0.01, 0, 0.01, 0.05, 0.1, 0.2, 0.5, 2, 4}

// genHashes: edges, switch-over values, uniform and log-tail values, and hashes *targeted* at the
// exact decision boundaries B(k) = Pr(X<=k): for chosen k, t = B(k) + θ·tol(k), θ ∈ offsets (|θ|>1
// lies outside the abstention band and is decisive; |θ|<1 measures the implementation's float error
// as a fraction of the band).
func genHashes(r *rand.Rand, o *oracle, nUniform int) []hsample {
	tb := o.tb
	var hs []hsample
	for _, h := range edgeHashes() {
		hs = append(hs, hsample{h, "edge"})
	}
	for _, h := range switchHashes() {
		hs = append(hs, hsample{h, "switch"})
	}
	for i := 0; i < nUniform; i++ {
		b := make([]byte, 32)
		r.Read(b)
		hs = append(hs, hsample{new(big.Int).SetBytes(b), "uniform"})
	}
	for i := 0; i < nUniform/4; i++ {
		hs = append(hs, hsample{model.C04HashOf(model.C04F(math.Pow(10, -r.Float64()*77))), "logtail-low"})
		hs = append(hs, hsample{model.C04HashOfTail(model.C04F(math.Pow(10, -r.Float64()*77))), "logtail-high"})
	}
	// boundaries of interest
	ks := map[int64]bool{}
	add := func(k int64) {
		if k >= tb.Lo && k <= tb.Hi && k < tb.N && k >= 0 {
			ks[k] = true
		}
	}
	for _, k := range []int64{0, 1, 2, tb.Mode - 1, tb.Mode, tb.Mode + 1, tb.N - 2, tb.N - 1, 19, 20} {
		add(k)
	}
	one := model.C04F(1)
	for _, lv := range []float64{math.Ldexp(1, -250), 1e-60, 1e-30, 1e-9, 1e-3, 0.01, 0.1, 0.25, 0.5, 0.75, 0.9, 0.98} {
		t := model.C04F(lv)
		q := tb.Quantile(t, model.C04New().Sub(one, t))
		add(q - 1)
		add(q)
	}
	for _, lv := range []float64{0.0100001, 0.01, 0.0099999, 1e-3, 1e-6, 1e-9, 1e-15, 1e-30, 1e-60, math.Ldexp(1, -250)} {
		s := model.C04F(lv)
		q := tb.Quantile(model.C04New().Sub(one, s), s)
		add(q - 1)
		add(q)
	}
	for i := 0; i < 8; i++ {
		add(tb.Lo + r.Int63n(tb.Hi-tb.Lo+1))
	}
	var kl []int64
	for k := range ks {
		kl = append(kl, k)
	}
	sort.Slice(kl, func(a, b int) bool { return kl[a] < kl[b] })
	for _, k := range kl {
		tol := o.tol(k)
		low := tb.CdfAt(k).Cmp(o.half) <= 0
		for _, th := range offsets {
			d := model.C04New().Mul(model.C04F(th), tol)
			var h *big.Int
			if low {
				h = model.C04HashOf(model.C04New().Add(tb.CdfAt(k), d))
			} else {
				h = model.C04HashOfTail(model.C04New().Sub(tb.SfAt(k), d))
			}
			if h.Sign() <= 0 || h.Cmp(model.C04Max) >= 0 {
				continue // boundary not resolvable by a 256-bit output
			}
			kind := "target-band"
			if th <= -1 || th >= 1 {
				kind = "target-decisive"
			}
			hs = append(hs, hsample{h, kind})
		}
	}
	return hs
}

func target64(h *big.Int) float64 {
	f, _ := new(big.Float).Quo(new(big.Float).SetInt(h), new(big.Float).SetInt(model.C04Max)).Float64()
	return f
}

// branchOf names the code path `choose` takes for this input (evidence only, never the verdict).
func branchOf(h *big.Int, n int64, p float64) string {
	if h.Sign() == 0 || h.Cmp(model.C04Max) == 0 {
		return "special"
	}
	if target64(h) > 0.99 {
		return "mirrored"
	}
	if float64(n)*p < 20 {
		return "forward"
	}
	return "bsearch"
}

func hex32(h *big.Int) string { return common.BigToHash(h).Hex() }

func callChoose(h *big.Int, n int64, p float64) (j int64, pan interface{}) {
	hash := common.BigToHash(h)
	w := big.NewInt(n)
	pan = kit.Guard(func() { j = ucon.VerifChoose(hash, w, p) })
	return
}

func bucket10(x float64) int {
	if x <= 0 {
		return -99
	}
	return int(math.Floor(math.Log10(x)))
}

func runCfg(c *kit.Ctx, r *rand.Rand, cfg qcfg, nUniform int) {
	n, p := cfg.N, cfg.P
	sigs := map[string]bool{}
	defer func() {
		for s := range sigs {
			c.Sig(s)
		}
	}()
	if p >= 1 { // p == 1: all mass on n. Exact rule, no tolerance.
		hs := append(edgeHashes(), switchHashes()...)
		for i := 0; i < 20; i++ {
			b := make([]byte, 32)
			r.Read(b)
			hs = append(hs, new(big.Int).SetBytes(b))
		}
		for _, h := range hs {
			j, pan := callChoose(h, n, p)
			c.Evals(1)
			c.Count("corner_p_eq_1", 1)
			want := n
			if h.Sign() == 0 {
				want = 0
			}
			if pan != nil {
				c.Violation("choose-panic", fmt.Sprintf("choose panicked with p=1: %v", pan), map[string]interface{}{"hash": hex32(h), "stake": n, "p": p, "panic": fmt.Sprint(pan)})
				return
			}
			if j != want {
				c.Violation("quantile-mismatch-p-eq-1", fmt.Sprintf("choose(%s, %d, 1) = %d, want %d (all mass on the stake)", hex32(h), n, j, want),
					map[string]interface{}{"hash": hex32(h), "stake": n, "p": p, "j_impl": j, "want": want})
				return
			}
		}
		sigs["p1|"+fmt.Sprint(bucket10(float64(n)))] = true
		return
	}
	tb := model.C04NewTable(n, p, 200000)
	if tb == nil {
		c.Count("table_too_large_skipped", 1)
		return
	}
	c.Max("max_table_terms", int64(len(tb.Pmf)))
	o := newOracle(tb)
	hs := genHashes(r, o, nUniform)
	for _, s := range hs {
		h := s.h
		j, pan := callChoose(h, n, p)
		c.Evals(1)
		br := branchOf(h, n, p)
		c.Count("branch_"+br, 1)
		c.Count("hash_"+s.kind, 1)
		wit := func(extra map[string]interface{}) map[string]interface{} {
			m := map[string]interface{}{"hash": hex32(h), "stake": n, "p": p, "p_hexfloat": cfg.PHex, "j_impl": j, "branch": br, "hash_kind": s.kind, "config": cfg}
			for k, v := range extra {
				m[k] = v
			}
			return m
		}
		if pan != nil {
			c.Violation("choose-panic", fmt.Sprintf("choose(%s, %d, %v) panicked: %v", hex32(h), n, p, pan), wit(map[string]interface{}{"panic": fmt.Sprint(pan)}))
			return
		}
		if j < 0 || j > n {
			c.Violation("choose-out-of-range", fmt.Sprintf("choose(%s, %d, %v) = %d is outside [0, stake]", hex32(h), n, p, j), wit(nil))
			return
		}
		c.Max("max_seats", j)
		jb := "gt"
		switch {
		case j == 0:
			jb = "0"
			c.Count("seats_zero", 1)
		case j == n:
			jb = "n"
			c.Count("seats_eq_stake", 1)
		case j < tb.Mode:
			jb = "lt"
		case j == tb.Mode:
			jb = "eq"
		}
		sigs[fmt.Sprintf("%s|%s|n%d|m%d|%s|%s", cfg.Kind, br, bucket10(float64(n)), bucket10(float64(n)*p), s.kind, jb)] = true
		if h.Sign() == 0 || h.Cmp(model.C04Max) == 0 {
			// t = 0: every cdf reaches it, smallest j = 0. t = 1: only cdf(n) = 1 reaches it (0<p<1).
			want := int64(0)
			if h.Sign() != 0 {
				want = n
			}
			c.Count("decisive", 1)
			if j != want {
				c.Violation("quantile-mismatch-special", fmt.Sprintf("choose(%s, %d, %v) = %d, exact quantile %d", hex32(h), n, p, j, want), wit(map[string]interface{}{"want": want}))
				return
			}
			continue
		}
		t, sv := model.C04Frac(h)
		jd := o.judge(j, t, sv)
		if o.perturbed {
			c.Count("judged_with_p_plus_minus_2^-52_tables", 1)
		}
		if jd.exact {
			c.Count("exact_quantile", 1)
		} else {
			c.Count("inexact_inside_band", 1)
			if o.perturbed {
				c.Count("inexact_inside_band_tiny_p", 1)
			} else if jd.betaDom {
				c.Max("max_inband_error_ppm_of_tolerance_beta_dominated", int64(jd.bandPPM))
				c.Max(fmt.Sprintf("max_inband_beta_ppm_stake_1e%d", bucket10(float64(n))), int64(jd.bandPPM))
			} else {
				c.Max("max_inband_error_ppm_of_tolerance_rounding_dominated", int64(jd.bandPPM))
			}
		}
		switch jd.v {
		case vDecisive:
			c.Count("decisive", 1)
			c.Count("decisive_"+br, 1)
			if s.kind == "target-decisive" {
				c.Count("decisive_targeted_"+br, 1)
			}
		case vAmbiguous:
			c.Count("ambiguous", 1)
		case vWrong:
			ex := tb.Quantile(t, sv)
			msg := fmt.Sprintf("choose(%s, stake=%d, p=%v) = %d but the exact binomial quantile is %d: ", hex32(h), n, p, j, ex)
			if jd.side == "low" {
				msg += fmt.Sprintf("Pr(X<=%d)=%s does not reach t=%s (beyond tolerance %s)", j, tb.CdfAt(j).Text('g', 25), t.Text('g', 25), o.tol(j).Text('g', 6))
			} else {
				msg += fmt.Sprintf("already Pr(X<=%d)=%s reaches t=%s (beyond tolerance %s), so %d is not the smallest", j-1, tb.CdfAt(j-1).Text('g', 25), t.Text('g', 25), o.tol(j-1).Text('g', 6), j)
			}
			c.Violation("quantile-mismatch-"+br, msg, wit(map[string]interface{}{"exact_quantile": ex, "t": t.Text('g', 40), "one_minus_t": sv.Text('g', 40),
				"cdf_j": tb.CdfAt(j).Text('g', 40), "cdf_j_minus_1": tb.CdfAt(j-1).Text('g', 40), "sf_j": tb.SfAt(j).Text('g', 40), "sf_j_minus_1": tb.SfAt(j-1).Text('g', 40), "side": jd.side}))
			return
		}
	}
	c.Sample(map[string]interface{}{"config": cfg, "hashes": len(hs), "window": []int64{tb.Lo, tb.Hi}})
}

// runPGt1 probes p > 1 (committee threshold larger than the total stake). The statement says the
// seat count is "always between 0 and its stake": a panic refutes it.
func runPGt1(c *kit.Ctx, r *rand.Rand) {
	n := genStake(r)
	ps := []float64{math.Nextafter(1, 2), 1.0000001, 1.5, 2, 26, 4000, float64(4000) / float64(1+r.Intn(3999))}
	p := ps[r.Intn(len(ps))]
	b := make([]byte, 32)
	r.Read(b)
	hs := []*big.Int{new(big.Int).SetBytes(b), big.NewInt(1), maxSub(big1), p2(255), new(big.Int), new(big.Int).Set(model.C04Max)}
	for _, h := range hs {
		j, pan := callChoose(h, n, p)
		c.Evals(1)
		c.Count("p_gt_1_probes", 1)
		if pan != nil {
			c.Violation("choose-panic-p-gt-1", fmt.Sprintf("choose(%s, stake=%d, p=%v) panicked: %v (committee threshold > total stake)", hex32(h), n, p, pan),
				map[string]interface{}{"hash": hex32(h), "stake": n, "p": p, "panic": fmt.Sprint(pan)})
			return
		}
		if j < 0 || j > n {
			c.Violation("choose-out-of-range", fmt.Sprintf("choose(%s, %d, %v) = %d is outside [0, stake]", hex32(h), n, p, j), map[string]interface{}{"hash": hex32(h), "stake": n, "p": p, "j_impl": j})
			return
		}
	}
}

// runPZero probes p = 0 (threshold 0): all mass on 0 seats.
func runPZero(c *kit.Ctx, r *rand.Rand) {
	n := genStake(r)
	hs := append(edgeHashes(), switchHashes()...)
	for i := 0; i < 10; i++ {
		b := make([]byte, 32)
		r.Read(b)
		hs = append(hs, new(big.Int).SetBytes(b))
	}
	for _, h := range hs {
		j, pan := callChoose(h, n, 0)
		c.Evals(1)
		c.Count("corner_p_eq_0", 1)
		if pan != nil {
			c.Violation("choose-panic", fmt.Sprintf("choose panicked with p=0: %v", pan), map[string]interface{}{"hash": hex32(h), "stake": n, "p": 0, "panic": fmt.Sprint(pan)})
			return
		}
		if j < 0 || j > n {
			c.Violation("choose-out-of-range", fmt.Sprintf("choose(%s, %d, 0) = %d", hex32(h), n, j), map[string]interface{}{"hash": hex32(h), "stake": n, "p": 0, "j_impl": j})
			return
		}
		if h.Cmp(model.C04Max) == 0 {
			// threshold 0 together with the all-ones VRF output (probability 2^-256) is not a
			// configuration of the protocol; the value is only range-checked.
			c.Count("corner_p0_allones_unjudged", 1)
			continue
		}
		if j != 0 {
			c.Violation("quantile-mismatch-p-eq-0", fmt.Sprintf("choose(%s, %d, 0) = %d, want 0", hex32(h), n, j), map[string]interface{}{"hash": hex32(h), "stake": n, "p": 0, "j_impl": j})
			return
		}
	}
}

func runQuantile(c *kit.Ctx) {
	ncfg := c.N(1920, 100000)
	nUniform := 160
	idx := 0
	for i := 0; i < ncfg; i++ {
		id := fmt.Sprintf("q/cfg/%d", i)
		mine := c.Mine(idx, id)
		idx++
		if !mine {
			continue
		}
		r := c.Rand(id)
		cfg := genCfg(r)
		c.Begin(id, cfg)
		runCfg(c, r, cfg, nUniform)
		c.End("")
	}
	for i := 0; i < c.N(32, 400); i++ {
		id := fmt.Sprintf("q/pzero/%d", i)
		mine := c.Mine(idx, id)
		idx++
		if !mine {
			continue
		}
		c.Begin(id, map[string]interface{}{"kind": "p=0"})
		runPZero(c, c.Rand(id))
		c.End("p0")
	}
	for i := 0; i < c.N(16, 64); i++ {
		id := fmt.Sprintf("q/pgt1/%d", i)
		mine := c.Mine(idx, id)
		idx++
		if !mine {
			continue
		}
		c.Begin(id, map[string]interface{}{"kind": "p>1"})
		runPGt1(c, c.Rand(id))
		c.End("pgt1")
	}
}
