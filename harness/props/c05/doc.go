// Package c05 holds the workloads and monitors of property C05.
package c05
