// Package c05: only real equivocation is slashable, exactly once, bounded.
// Oracles: ground truth of which votes the accused validator really emitted (honest-safety),
// builder/importer agreement + arithmetic bound + conservation (real equivocation).
package c05

import (
	"encoding/binary"
	"fmt"
	"math/big"
	"math/rand"
	"strings"

	"verif/build"
	"verif/chaingen"
	"verif/kit"

	"github.com/youchainhq/go-youchain/common"
	"github.com/youchainhq/go-youchain/core/state"
	"github.com/youchainhq/go-youchain/core/types"
	"github.com/youchainhq/go-youchain/rlp"
	"github.com/youchainhq/go-youchain/staking"
)

func init() { kit.Register("C05.evidence", run) }

// vote kinds of staking/slash_youv5.go
const (
	vtPrevote, vtPrecommit, vtNext, vtCert = uint8(1), uint8(2), uint8(3), uint8(4)
)

type signed struct {
	hash  common.Hash
	round uint64
	idx   uint32
	kind  uint8
	sig   []byte
}

func payload(h common.Hash, round uint64, idx uint32) []byte {
	buf := make([]byte, 4)
	binary.BigEndian.PutUint32(buf, idx)
	return append(append(append([]byte{}, h.Bytes()...), new(big.Int).SetUint64(round).Bytes()...), buf...)
}

type evCase struct {
	name    string
	honest  bool // assembled only from votes an honest validator emits (must never be accepted)
	genuine bool // two different same-kind votes of one validator in one (round,index) (must be accepted, once)
	data    staking.EvidenceDoubleSignV5
	copies  int
	sibling *staking.EvidenceDoubleSignV5 // genuine only: another real equivocation of the same validator in the same round (other vote kind or round index)
	future  bool // the evidence is about the round of the block being built (not yet the parent's): it must wait one block
	due     bool // a then-future evidence that reached its round in this block (already in the pool)
}

func run(c *kit.Ctx) {
	n := c.N(240, 2400)
	for i := 0; i < n; i++ {
		id := fmt.Sprintf("c%d", i)
		if !c.Mine(i, id) {
			continue
		}
		chain(c, id, i)
	}
}

type snapVal struct {
	val      *state.Validator
	wsum     *big.Int // unfinished withdraw FinalBalance of this validator
	wcount   int
	exists   bool
	asString string
}

func snapshot(st *state.StateDB, a common.Address) snapVal {
	s := snapVal{wsum: new(big.Int)}
	if v := st.GetValidatorByMainAddr(a); v != nil {
		s.val, s.exists = v.DeepCopy(), true
		s.asString = fmt.Sprintf("token=%v stake=%v self=%v status=%d expelled=%v expire=%d dlg=%d", v.Token, v.Stake, v.SelfToken, v.Status, v.Expelled, v.ExpelExpired, len(v.Delegations))
	}
	for _, r := range st.GetWithdrawQueue().Records {
		if r.Validator == a && r.Finished == 0 {
			s.wsum.Add(s.wsum, r.FinalBalance)
			s.wcount++
		}
	}
	return s
}

func chain(c *kit.Ctx, id string, i int) {
	r := c.Rand(id)
	blocks := 60 + r.Intn(c.N(100, 200))
	sc := chaingen.PickScenario(r, blocks)
	sc.Evidence, sc.ZeroSlash, sc.NegRecord, sc.RecklessEvidence = false, false, false, false
	c.Begin(id, map[string]interface{}{"scenario": sc.Name, "blocks": blocks})
	run, err := chaingen.NewRun(c, id, r, sc)
	if err != nil {
		c.EndInconclusive("setup: " + err.Error())
		return
	}
	defer run.Close()
	w := run.W
	a, b := run.A.Chain, run.B.Chain
	frac := new(big.Int).SetUint64(w.YP.PenaltyFractionForDoubleSign)
	sigParts := map[string]bool{}
	var carry *evCase
	var carryTarget common.Address
	// validators slashed for a real equivocation: for the next blocks (the evidence is re-posted, other
	// nodes' copies keep arriving) nothing may act on them again - the expulsion deadline is the witness
	type watched struct {
		addr   common.Address
		expire uint64
		until  uint64
		what   string
	}
	var watch []watched
	bad := false
	viol := func(class, msg string, extra map[string]interface{}) {
		c.Violation(class, msg, extra)
		// an accepted honest-vote evidence leaves a consistent chain (the accused is simply slashed):
		// the chain goes on, so that the listed findings of this kind do not shorten the exploration
		if !strings.HasPrefix(class, "honest-validator-slashable:") {
			bad = true
		}
	}
	for n := uint64(1); n <= uint64(blocks) && !bad; n++ {
		parent := a.CurrentBlock()
		st, err := a.State()
		if err != nil {
			c.EndInconclusive("state: " + err.Error())
			return
		}
		offered := w.GenBlock(st, n)
		cb := w.Proposer(st)
		run.EngA.Coinbase, run.EngB.Coinbase = cb, cb
		periodEnd := (n+1)%run.Freq == 0
		var ec *evCase
		var target common.Address
		var before snapVal
		var comps []companion
		var compBefore []snapVal
		var postedDesc []string
		if carry != nil {
			// the evidence about the then-future round has reached its round: THIS block must act on
			// it (it is already in the proposer's pool), exactly like on a fresh one
			ec, target = carry, carryTarget
			carry = nil
			if target == cb || periodEnd {
				c.Count("future_round_evidence_due_not_judged", 1)
				ec = nil
			} else {
				ec.future, ec.due, ec.copies = false, true, 0
				offered = nil
				before = snapshot(st, target)
				c.Count("future_round_evidence_due", 1)
				sigParts["future-round-due"] = true
			}
		} else if n >= 18 && !periodEnd && r.Intn(3) == 0 {
			future := r.Intn(8) == 0 && (n+2)%run.Freq != 0
			round := n - 1
			if future {
				round = n
			}
			ec, target = makeEvidence(run, st, round, cb, r, future)
			if ec != nil && future {
				ec.future = true
				ec.name = "future-round-" + ec.name
				ec.copies = 1 + r.Intn(2)
			}
			if ec != nil {
				// an evidence block carries no transactions: nothing else can touch the accused
				offered = nil
				before = snapshot(st, target)
				comps, compBefore = nil, nil
				if ec.genuine && !ec.future && r.Intn(2) == 0 {
					// further validators equivocated in the same round: several evidences are confirmed
					// in ONE block; they reach the proposer's pool in arbitrary (gossip) order
					comps = companions(run, st, n-1, cb, target, r)
					for _, cp := range comps {
						compBefore = append(compBefore, snapshot(st, cp.target))
					}
				}
				var posts []staking.EvidenceDoubleSignV5
				for k := 0; k < ec.copies; k++ {
					posts = append(posts, ec.data)
				}
				if ec.genuine && ec.sibling != nil && r.Intn(2) == 0 {
					// the same validator equivocated in another vote kind / round index of the same round
					// too (a key run on two machines): several DIFFERENT evidences about one validator in
					// one block - it is still penalised once
					posts = append(posts, *ec.sibling)
					c.Count("blocks_with_differing_evidences_about_one_validator", 1)
					sigParts["differing-evidences-one-validator"] = true
				}
				for _, cp := range comps {
					posts = append(posts, cp.data)
				}
				r.Shuffle(len(posts), func(i, j int) { posts[i], posts[j] = posts[j], posts[i] })
				postedDesc = nil
				for _, d := range posts {
					chaingen.PostEvidence(run.A, staking.NewEvidence(d))
					postedDesc = append(postedDesc, fmt.Sprintf("signer#%d votetype%d round%d/%d signs%d", d.SignerIdx, d.VoteType, d.Round, d.RoundIndex, len(d.Signs)))
				}
				if len(comps) > 0 {
					c.Count("blocks_with_several_equivocators", 1)
					sigParts["several-equivocators"] = true
				}
				c.Count("evidences_posted", ec.copies)
				c.Count("ev_"+ec.name, 1)
				sigParts[ec.name] = true
			}
		}
		txs := make([]*types.Transaction, len(offered))
		for k := range offered {
			txs[k] = offered[k].Tx
		}
		var res *build.Result
		penBefore := st.GetBalance(w.YP.PenaltyTo)
		g := kit.Guard(func() {
			res, err = run.Builder.Build(parent.Time()+1, build.NewOrderedTxs(w.Signer, txs))
		})
		if g != nil {
			if ec == nil {
				on := 0
				for _, v := range st.GetValidatorsForUpdate() {
					if v.IsOnline() {
						on++
					}
				}
				if on == 0 && strings.Contains(fmt.Sprint(g), "division by zero") {
					// nobody is online any more (the generated transactions took the last online
					// validator offline): rewardsToPool divides by zero portions. Under real consensus
					// such a chain has no proposer; the neutral engine lets it go on. End of this chain.
					c.Count("chains_ended_without_online_validator", 1)
					break
				}
				panic(g)
			}
			class := "endblock-panic-on-evidence:" + ec.name
			if strings.Contains(fmt.Sprint(g), "division by zero") && before.exists && before.val.Stake.Sign() == 0 {
				class = "doublesign-evidence-against-zero-stake-validator:division-by-zero"
			}
			viol(class, fmt.Sprintf("block %d: EndBlock panics while processing evidence %s against %s: %v", n, ec.name, before.asString, g), map[string]interface{}{"evidence": ec.data})
			break
		}
		if err != nil {
			viol("builder-failed:"+chaingen.Normalise(err.Error()), err.Error(), nil)
			break
		}
		if dbErr := res.State.Error(); dbErr != nil {
			// the generator avoids the known negative-record sequence; anything else is reported by C06
			c.EndInconclusive("builder state db error: " + dbErr.Error())
			return
		}
		c.Evals(1)
		{
			var keep []watched
			for _, wv := range watch {
				if n > wv.until || (ec != nil && (wv.addr == target)) {
					continue
				}
				skip := false
				for _, cp := range comps {
					if cp.target == wv.addr {
						skip = true
					}
				}
				if skip {
					continue
				}
				cur := snapshot(res.State, wv.addr)
				c.Count("slashed_validators_watched_in_later_blocks", 1)
				if cur.exists && cur.val.Expelled && cur.val.ExpelExpired != wv.expire {
					viol("equivocation-acted-upon-again-in-a-later-block", fmt.Sprintf("block %d: %s was slashed and expelled until %d for %s; without any new evidence against it its expulsion now ends at %d (%s): the same equivocation was applied again", n, wv.addr.Hex()[:10], wv.expire, wv.what, cur.val.ExpelExpired, cur.asString), nil)
					break
				}
				keep = append(keep, wv)
			}
			watch = keep
			if bad {
				break
			}
		}
		if ec != nil {
			after := snapshot(res.State, target)
			penDelta := new(big.Int).Sub(res.State.GetBalance(w.YP.PenaltyTo), penBefore)
			changed := before.exists != after.exists || (before.exists && (before.val.Token.Cmp(after.val.Token) != 0 || before.val.Status != after.val.Status ||
				before.val.Expelled != after.val.Expelled || before.val.ExpelExpired != after.val.ExpelExpired)) || before.wsum.Cmp(after.wsum) != 0 || penDelta.Sign() != 0
			ext := map[string]interface{}{"block": n, "evidence_kind": ec.name, "evidence": ec.data, "accused_before": before.asString, "accused_after": after.asString,
				"penalty_account_delta": penDelta.String(), "slashdata_len": len(res.Block.Header().SlashData)}
			// which evidences did the builder record for importers to replay?
			confirmed := map[uint32]bool{}
			var conf []staking.Evidence
			if rlp.DecodeBytes(res.Block.Header().SlashData, &conf) == nil {
				for _, e := range conf {
					var d staking.EvidenceDoubleSignV5
					if rlp.DecodeBytes(e.Data, &d) == nil {
						confirmed[d.SignerIdx] = true
					}
				}
			}
			if len(comps) > 0 {
				// with several accused the penalty account alone does not tell who was touched
				changed = before.exists != after.exists || (before.exists && (before.val.Token.Cmp(after.val.Token) != 0 || before.val.Status != after.val.Status ||
					before.val.Expelled != after.val.Expelled || before.val.ExpelExpired != after.val.ExpelExpired)) || before.wsum.Cmp(after.wsum) != 0
			}
			ownLoss := new(big.Int)
			if before.exists && after.exists {
				ownLoss.Add(new(big.Int).Sub(before.val.Token, after.val.Token), new(big.Int).Sub(before.wsum, after.wsum))
			}
			dropped := func(b4, af snapVal, idx uint32, who string) bool {
				if !b4.exists || !af.exists || confirmed[idx] {
					return false
				}
				touched := b4.val.Token.Cmp(af.val.Token) != 0 || b4.val.Status != af.val.Status || b4.val.Expelled != af.val.Expelled || b4.val.ExpelExpired != af.val.ExpelExpired || b4.wsum.Cmp(af.wsum) != 0
				if !touched {
					return false
				}
				loss := new(big.Int).Add(new(big.Int).Sub(b4.val.Token, af.val.Token), new(big.Int).Sub(b4.wsum, af.wsum))
				cl := "evidence-applied-by-builder-but-absent-from-slashdata"
				if loss.Sign() != 0 {
					cl = "penalty-applied-by-builder-but-absent-from-slashdata"
				}
				viol(cl, fmt.Sprintf("block %d: the builder changed %s (%s -> %s, taking %v) but its evidence is not among the %d evidences recorded in header.SlashData: importers cannot replay it", n, who, b4.asString, af.asString, loss, len(conf)), ext)
				return true
			}
			compDropped := false
			for ci, cp := range comps {
				if dropped(compBefore[ci], snapshot(res.State, cp.target), cp.data.SignerIdx, "a further equivocator of the round") {
					compDropped = true
					break
				}
			}
			switch {
			case ec.future:
				// evidence.Round is the round of the block being built: it can only be judged one block later
				if changed {
					viol("future-round-evidence-applied-early", fmt.Sprintf("block %d: evidence about round %d (the block being built) already changed the accused: %s -> %s", n, ec.data.Round, before.asString, after.asString), ext)
					break
				}
				c.Count("future_round_evidence_held_back", 1)
				cp := *ec
				carry, carryTarget = &cp, target
			case compDropped:
			case changed && len(res.Block.Header().SlashData) == 0:
				// the builder acted on the evidence but left nothing for importers to replay (the
				// listed zero-penalty divergence of C06): the importer will reject this block
				viol("evidence-applied-by-builder-but-absent-from-slashdata", fmt.Sprintf("block %d: the builder changed the accused (%s -> %s) for evidence %s but header.SlashData is empty", n, before.asString, after.asString, ec.name), ext)
			case len(comps) > 0 && dropped(before, after, ec.data.SignerIdx, "the accused"):
			case ec.honest && changed:
				viol("honest-validator-slashable:"+ec.name, fmt.Sprintf("block %d: evidence assembled only from votes an honest validator emits (%s) was accepted: %s -> %s, penalty account +%v", n, ec.name, before.asString, after.asString, penDelta), ext)
			case !ec.honest && !ec.genuine && changed:
				viol("invalid-evidence-accepted:"+ec.name, fmt.Sprintf("block %d: invalid evidence (%s) was accepted: %s -> %s", n, ec.name, before.asString, after.asString), ext)
			case ec.genuine:
				if !changed {
					if before.exists && before.val.Expelled {
						c.Count("genuine_against_already_expelled", 1)
					}
					viol("real-equivocation-not-slashed", fmt.Sprintf("block %d: a real double %s of an existing validator (%s) was not acted upon by the block builder", n, ec.name, before.asString), ext)
					break
				}
				c.Count("genuine_slashed", 1)
				if after.exists && after.val.Expelled {
					watch = append(watch, watched{target, after.val.ExpelExpired, n + 4, fmt.Sprintf("%s in round %d", ec.name, ec.data.Round)})
				}
				// bounded: at most the configured fraction of token + pending withdrawals
				base := new(big.Int).Add(before.val.Token, before.wsum)
				bound := new(big.Int).Div(new(big.Int).Mul(base, frac), big.NewInt(100))
				// conservation: what arrives in the penalty account is what left stake and withdrawals
				tokDelta := new(big.Int).Sub(before.val.Token, after.val.Token)
				wDelta := new(big.Int).Sub(before.wsum, after.wsum)
				loss := new(big.Int).Add(tokDelta, wDelta)
				lossAll := new(big.Int).Set(loss)
				// the other equivocators of this round: each slashed once, within its own bound, expelled
				for ci, cp := range comps {
					cb4, caf := compBefore[ci], snapshot(res.State, cp.target)
					if !cb4.exists || !caf.exists {
						continue
					}
					cl := new(big.Int).Add(new(big.Int).Sub(cb4.val.Token, caf.val.Token), new(big.Int).Sub(cb4.wsum, caf.wsum))
					cbound := new(big.Int).Div(new(big.Int).Mul(new(big.Int).Add(cb4.val.Token, cb4.wsum), frac), big.NewInt(100))
					ext["companion_"+fmt.Sprint(ci)] = cb4.asString + " -> " + caf.asString
					if cl.Cmp(cbound) > 0 {
						viol("penalty-exceeds-configured-fraction", fmt.Sprintf("block %d: a second equivocator of the round lost %v, more than %v%% of token+pending withdrawals (%v)", n, cl, frac, cbound), ext)
					}
					if !caf.val.Expelled && !cb4.val.Expelled {
						viol("real-equivocation-not-slashed", fmt.Sprintf("block %d: of several equivocators in one round, %s was not acted upon", n, cb4.asString), ext)
					}
					lossAll.Add(lossAll, cl)
					c.Count("companion_equivocators_judged", 1)
				}
				if loss.Cmp(bound) > 0 {
					viol("penalty-exceeds-configured-fraction", fmt.Sprintf("block %d: penalty %v exceeds %v%% of token+pending withdrawals (%v)", n, loss, frac, bound), ext)
				}
				if lossAll.Cmp(penDelta) != 0 {
					viol("penalty-not-conserved", fmt.Sprintf("block %d: penalty account +%v but stake and pending withdrawals of the accused -%v (stake -%v, withdrawals -%v of the first accused)", n, penDelta, lossAll, tokDelta, wDelta), ext)
				}
				if !after.val.Expelled {
					viol("equivocator-not-expelled", fmt.Sprintf("block %d: slashed validator not expelled", n), ext)
				}
				if penDelta.Sign() > 0 && len(res.Block.Header().SlashData) == 0 {
					viol("slash-applied-without-slashdata", fmt.Sprintf("block %d: the builder penalised but wrote no SlashData", n), ext)
				}
				if ec.copies > 1 {
					c.Count("genuine_duplicated_in_one_block", 1)
				}
				if before.wcount > 0 {
					c.Count("genuine_with_pending_withdrawals", 1)
				}
				if len(before.val.Delegations) > 0 {
					c.Count("genuine_with_delegations", 1)
				}
				if before.val.RiskObligation > 0 {
					c.Count("genuine_with_risk_obligation", 1)
				}
			default:
				c.Count("evidence_ignored_as_expected", 1)
			}
			if bad {
				break
			}
		}
		if err := run.Builder.Commit(res); err != nil {
			viol("builder-commit-failed:"+chaingen.Normalise(err.Error()), err.Error(), nil)
			break
		}
		if ierr := b.InsertChain(types.Blocks{res.Block}); ierr != nil || b.CurrentBlock().Hash() != res.Block.Hash() {
			kind := "no-evidence"
			if ec != nil {
				kind = ec.name
			}
			wit := map[string]interface{}{"slashdata_len": len(res.Block.Header().SlashData), "evidences_in_pool_order": postedDesc}
			var conf []staking.Evidence
			if rlp.DecodeBytes(res.Block.Header().SlashData, &conf) == nil {
				var cs []string
				for _, e := range conf {
					var d staking.EvidenceDoubleSignV5
					if rlp.DecodeBytes(e.Data, &d) == nil {
						cs = append(cs, fmt.Sprintf("signer#%d votetype%d round%d/%d signs%d", d.SignerIdx, d.VoteType, d.Round, d.RoundIndex, len(d.Signs)))
					}
				}
				wit["slashdata_confirmed"] = cs
			}
			if ec != nil {
				wit["accused_before"] = before.asString
				wit["accused_after_builder"] = snapshot(res.State, target).asString
				for ci, cp := range comps {
					wit[fmt.Sprintf("companion_%d", ci)] = compBefore[ci].asString + " -> " + snapshot(res.State, cp.target).asString
				}
			}
			viol("builder-block-rejected-by-importer:"+kind, fmt.Sprintf("block %d (evidence: %s) built by the builder is not accepted by the importer: %v", n, kind, ierr), wit)
			break
		}
		if ec != nil {
			// importer state must agree on the accused
			bs, err := b.State()
			if err == nil {
				x, y := snapshot(res.State, target), snapshot(bs, target)
				if x.asString != y.asString || x.wsum.Cmp(y.wsum) != 0 {
					viol("builder-importer-disagree-on-accused:"+ec.name, fmt.Sprintf("block %d: builder %s / importer %s", n, x.asString, y.asString), nil)
				}
			}
			// the same evidence again in the NEXT block must change nothing (round != parent height by then)
			if ec.genuine && r.Intn(2) == 0 {
				chaingen.PostEvidence(run.A, staking.NewEvidence(ec.data))
				c.Count("genuine_reposted_next_block", 1)
			}
		}
	}
	var parts []string
	for k := range sigParts {
		parts = append(parts, k)
	}
	c.Count("blocks", blocks)
	c.Sample(map[string]interface{}{"scenario": sc.Name, "blocks": blocks, "evidence_kinds": parts})
	c.End(fmt.Sprintf("%s %v", sc.Name, len(parts)))
}

type companion struct {
	target common.Address
	data   staking.EvidenceDoubleSignV5
}

// companions builds real double-prevote evidence against up to two further validators of the
// look-back set (not the proposer, not the first accused, positive stake), keeping at least one
// validator online.
func companions(run *chaingen.Run, st *state.StateDB, round uint64, proposer, first common.Address, r *rand.Rand) []companion {
	rd, err := run.A.Chain.LookBackVldReaderForRound(round, false)
	if err != nil {
		return nil
	}
	vs := rd.GetValidators()
	online := 0
	for _, v := range st.GetValidatorsForUpdate() {
		if v.IsOnline() && v.MainAddress() != first {
			online++
		}
	}
	var out []companion
	for _, v := range vs.List() {
		m := v.MainAddress()
		cur := st.GetValidatorByMainAddr(m)
		if m == proposer || m == first || run.W.ValIndex(m) < 0 || cur == nil || cur.Stake.Sign() == 0 || cur.Expelled || len(out) == 2 {
			continue
		}
		if cur.IsOnline() {
			if online <= 2 {
				continue // at least two validators stay online
			}
			online--
		}
		idx, _ := vs.GetIndex(m)
		sk := run.W.Keys.ValBls(run.W.ValIndex(m))
		ri := uint32(1 + r.Intn(3))
		var A, B common.Hash
		r.Read(A[:])
		r.Read(B[:])
		sg := func(h common.Hash) []byte {
			x := sk.Sign(payload(h, round, ri)).Compress()
			return append([]byte{}, x[:]...)
		}
		out = append(out, companion{m, staking.EvidenceDoubleSignV5{Round: round, RoundIndex: ri, SignerIdx: uint32(idx), VoteType: vtPrevote,
			Signs: []*staking.SignInfo{{Hash: A, Sign: sg(A)}, {Hash: B, Sign: sg(B)}}}})
	}
	return out
}

// makeEvidence picks an accused validator of the look-back set (never the proposer) and one
// evidence construction.
func makeEvidence(run *chaingen.Run, st *state.StateDB, round uint64, proposer common.Address, r *rand.Rand, forceGenuine bool) (*evCase, common.Address) {
	rd, err := run.A.Chain.LookBackVldReaderForRound(round, false)
	if err != nil {
		return nil, common.Address{}
	}
	vs := rd.GetValidators()
	var cands []common.Address
	for _, v := range vs.List() {
		m := v.MainAddress()
		cur := st.GetValidatorByMainAddr(m)
		if m == proposer || run.W.ValIndex(m) < 0 || cur == nil {
			continue
		}
		// zero-stake validators are the subject of a dedicated known finding (division by zero)
		if cur.Stake.Sign() == 0 {
			continue
		}
		cands = append(cands, m)
	}
	if len(cands) == 0 {
		return nil, common.Address{}
	}
	target := cands[r.Intn(len(cands))]
	// a real proposer is an online chamber member, so at least one validator stays online after the
	// accused is expelled (with none left online, rewardsToPool divides the block reward by zero
	// portions - the neutral engine lets offline validators propose, real consensus does not)
	online := 0
	for _, v := range st.GetValidatorsForUpdate() {
		if v.IsOnline() && v.MainAddress() != target {
			online++
		}
	}
	if online == 0 {
		return nil, common.Address{}
	}
	k := run.W.ValIndex(target)
	idx, _ := vs.GetIndex(target)
	sk := run.W.Keys.ValBls(k)
	ri := uint32(1 + r.Intn(3))
	sign := func(h common.Hash, rnd uint64, i uint32) []byte {
		s := sk.Sign(payload(h, rnd, i)).Compress()
		return append([]byte{}, s[:]...)
	}
	var A, B, C common.Hash
	r.Read(A[:])
	r.Read(B[:])
	r.Read(C[:])
	// what an honest validator emits in (round, ri): prevote for its best proposal A, precommit and
	// certificate vote for the block with the prevote quorum B (possibly another block), next-index
	// votes for the empty hash and for C
	mk := func(name string, honest, genuine bool, vt uint8, signs ...*staking.SignInfo) *evCase {
		return &evCase{name: name, honest: honest, genuine: genuine, copies: 1,
			data: staking.EvidenceDoubleSignV5{Round: round, RoundIndex: ri, SignerIdx: uint32(idx), VoteType: vt, Signs: signs}}
	}
	si := func(h common.Hash, sig []byte) *staking.SignInfo { return &staking.SignInfo{Hash: h, Sign: sig} }
	var ec *evCase
	kindSel := r.Intn(16)
	if forceGenuine {
		kindSel = 15
	}
	switch kindSel {
	case 0:
		ec = mk("one-honest-vote-duplicated", true, false, vtPrevote, si(A, sign(A, round, ri)), si(A, sign(A, round, ri)))
	case 1:
		ec = mk("honest-prevote-plus-precommit-as-double-prevote", true, false, vtPrevote, si(A, sign(A, round, ri)), si(B, sign(B, round, ri)))
	case 2:
		ec = mk("honest-precommit-plus-certificate-of-other-index-vote", true, false, vtPrecommit, si(B, sign(B, round, ri)), si(A, sign(A, round, ri)))
	case 3:
		ec = mk("honest-two-nextindex-votes", true, false, vtNext, si(common.Hash{}, sign(common.Hash{}, round, ri)), si(C, sign(C, round, ri)))
	case 4:
		// votes of different round indexes offered as one (the second signature is over another index)
		ec = mk("honest-votes-of-different-indexes", true, false, vtPrevote, si(A, sign(A, round, ri)), si(B, sign(B, round, ri+1)))
	case 5:
		ec = mk("honest-votes-of-different-rounds", true, false, vtPrevote, si(A, sign(A, round, ri)), si(B, sign(B, round-1, ri)))
	case 6:
		// wrong signer index: the votes are genuine equivocation of ANOTHER key
		other := (idx + 1) % vs.Len()
		ec = mk("wrong-signer-index", false, false, vtPrevote, si(A, sign(A, round, ri)), si(B, sign(B, round, ri)))
		ec.data.SignerIdx = uint32(other)
		if r.Intn(3) == 0 {
			ec.copies = 2
		}
		ov, _ := vs.GetByIndex(other)
		if ov != nil {
			// the accused by index is `other`, who signed nothing: it must stay untouched
			if ov.MainAddress() == proposer || st.GetValidatorByMainAddr(ov.MainAddress()) == nil {
				return nil, common.Address{}
			}
			return ec, ov.MainAddress()
		}
		return nil, common.Address{}
	case 7:
		g := make([]byte, 96)
		r.Read(g)
		ec = mk("forged-signature", false, false, vtPrevote, si(A, sign(A, round, ri)), si(B, g))
	case 8:
		ec = mk("single-sign", false, false, vtPrevote, si(A, sign(A, round, ri)))
	case 9:
		ec = mk("signer-index-out-of-range", false, false, vtPrevote, si(A, sign(A, round, ri)), si(B, sign(B, round, ri)))
		ec.data.SignerIdx = uint32(vs.Len() + r.Intn(5))
	case 10:
		// expired: a real equivocation of an older round
		ec = mk("real-equivocation-of-an-older-round", false, false, vtPrevote, si(A, sign(A, round-2, ri)), si(B, sign(B, round-2, ri)))
		ec.data.Round = round - 2
	default:
		// genuine: two different hashes, same kind, same (round, index)
		vt := []uint8{vtPrevote, vtPrecommit, vtCert}[r.Intn(3)]
		ec = mk(map[uint8]string{vtPrevote: "prevote", vtPrecommit: "precommit", vtCert: "certificate"}[vt], false, true, vt, si(A, sign(A, round, ri)), si(B, sign(B, round, ri)))
		if r.Intn(3) == 0 {
			ec.copies = 2
		}
		if r.Intn(5) == 0 {
			ec.data.Signs = append(ec.data.Signs, si(C, sign(C, round, ri)))
		}
		// a second, different real equivocation of the same validator in this round
		sv, sri := vt, ri+1+uint32(r.Intn(2))
		if vt != vtCert && r.Intn(2) == 0 {
			// the other of prevote/precommit in the SAME round index (certificate evidence is looked up
			// in another look-back set: kept to its own kind)
			sv, sri = vtPrevote+vtPrecommit-vt, ri
		}
		var D, E common.Hash
		r.Read(D[:])
		r.Read(E[:])
		ec.sibling = &staking.EvidenceDoubleSignV5{Round: round, RoundIndex: sri, SignerIdx: uint32(idx), VoteType: sv, Signs: []*staking.SignInfo{si(D, sign(D, round, sri)), si(E, sign(E, round, sri))}}
	}
	// any evidence may reach the proposer's pool more than once (gossip); a second sighting must be
	// judged like the first
	if ec.copies == 1 && r.Intn(3) == 0 {
		ec.copies = 2 + r.Intn(2)
	}
	return ec, target
}
