// Package c13: the Merkle-Patricia trie is a faithful, canonical, provable map.
// Oracle: Go-map model + independent Yellow-Paper root calculator (model.MPTRoot).
package c13

import (
	"bytes"
	"encoding/hex"
	"fmt"
	"math/rand"
	"sort"

	"verif/kit"
	"verif/model"

	"github.com/youchainhq/go-youchain/common"
	"github.com/youchainhq/go-youchain/core/types"
	"github.com/youchainhq/go-youchain/trie"
	"github.com/youchainhq/go-youchain/youdb"
)

func init() { kit.Register("C13.seq", run) }

type opRec struct {
	Op  string `json:"op"`
	Key string `json:"k,omitempty"`
	Len int    `json:"vlen,omitempty"`
}

type rootRec struct {
	root    common.Hash
	content map[string][]byte
	refd    bool // still referenced in the node cache (or flushed to disk)
	refs    int  // number of outstanding Reference(root, {}) calls (two blocks may share a root)
	ondisk  bool
}

type proofDB map[string][]byte

func (p proofDB) Put(k, v []byte) error { p[string(k)] = common.CopyBytes(v); return nil }
func (p proofDB) Get(k []byte) ([]byte, error) {
	if v, ok := p[string(k)]; ok {
		return v, nil
	}
	return nil, fmt.Errorf("not found")
}
func (p proofDB) Has(k []byte) (bool, error) { _, ok := p[string(k)]; return ok, nil }

var valSizes = []int{1, 1, 2, 5, 20, 31, 32, 33, 40, 100, 600, 4096}

func genKeys(r *rand.Rand, style int) [][]byte {
	var keys [][]byte
	n := 4 + r.Intn(40)
	switch style {
	case 0: // dense small alphabet, fixed length (no key is a prefix of another)
		alpha := []byte{0x00, 0x01, 0x10, 0x11, 0xf0, 0xff, 0x12}[:2+r.Intn(5)]
		l := 1 + r.Intn(4)
		for i := 0; i < n; i++ {
			k := make([]byte, l)
			for j := range k {
				k[j] = alpha[r.Intn(len(alpha))]
			}
			keys = append(keys, k)
		}
	case 1: // variable length with prefixes of each other
		alpha := []byte{0x00, 0x01, 0x10, 0xab, 0xa0}[:2+r.Intn(3)]
		for i := 0; i < n; i++ {
			k := make([]byte, 1+r.Intn(5))
			for j := range k {
				k[j] = alpha[r.Intn(len(alpha))]
			}
			keys = append(keys, k)
			if r.Intn(3) == 0 && len(k) > 1 {
				keys = append(keys, k[:1+r.Intn(len(k)-1)])
			}
		}
	case 2: // 32-byte random keys
		for i := 0; i < n; i++ {
			k := make([]byte, 32)
			r.Read(k)
			if r.Intn(4) == 0 && len(keys) > 0 { // share a long prefix with an earlier key
				copy(k, keys[r.Intn(len(keys))][:1+r.Intn(31)])
			}
			keys = append(keys, k)
		}
	case 3: // rlp(index) keys as DeriveSha uses
		for i := 0; i < n*4; i++ {
			keys = append(keys, model.RlpUint(uint64(i)))
		}
	}
	return keys
}

func genVal(r *rand.Rand) []byte {
	v := make([]byte, valSizes[r.Intn(len(valSizes))])
	r.Read(v)
	if v[0] == 0 && r.Intn(2) == 0 {
		v[0] = 1
	}
	return v
}

func copyMap(m map[string][]byte) map[string][]byte {
	c := make(map[string][]byte, len(m))
	for k, v := range m {
		c[k] = v
	}
	return c
}

func hasPrefixPair(m map[string][]byte) bool {
	ks := make([]string, 0, len(m))
	for k := range m {
		ks = append(ks, k)
	}
	sort.Strings(ks)
	for i := 1; i < len(ks); i++ {
		if len(ks[i-1]) < len(ks[i]) && ks[i][:len(ks[i-1])] == ks[i-1] {
			return true
		}
	}
	return false
}

type getter interface {
	TryGet(key []byte) ([]byte, error)
	NodeIterator(start []byte) trie.NodeIterator
	Hash() common.Hash
}

// checkContent compares lookups + iteration + root of tr with the model content.
func checkContent(c *kit.Ctx, what string, tr getter, content map[string][]byte, universe [][]byte, secure bool, ops []opRec) bool {
	ok := true
	for _, k := range universe {
		want := content[string(k)]
		var got []byte
		var err error
		got, err = tr.TryGet(k)
		c.Evals(1)
		if err != nil {
			c.Violation("trie-get-error", fmt.Sprintf("%s: TryGet(%x): %v", what, k, err), ops)
			return false
		}
		if !bytes.Equal(got, want) {
			c.Violation("trie-get-mismatch", fmt.Sprintf("%s: Get(%x) = %x.. (len %d), model has len %d", what, k, head(got), len(got), len(want)), ops)
			ok = false
		}
	}
	// iteration: exactly the surviving pairs; ascending when no key is a prefix of another
	it := trie.NewIterator(tr.NodeIterator(nil))
	seen := map[string]bool{}
	var prev []byte
	ordered := !hasPrefixPair(content)
	n := 0
	for it.Next() {
		n++
		k := string(it.Key)
		if seen[k] {
			c.Violation("trie-iter-duplicate", fmt.Sprintf("%s: iteration yields key %x twice", what, it.Key), ops)
			ok = false
		}
		seen[k] = true
		if !secure {
			if w, in := content[k]; !in || !bytes.Equal(w, it.Value) {
				c.Violation("trie-iter-mismatch", fmt.Sprintf("%s: iteration yields (%x,len %d), model: present=%v len %d", what, it.Key, len(it.Value), in, len(w)), ops)
				ok = false
			}
		}
		if ordered && prev != nil && bytes.Compare(prev, it.Key) >= 0 {
			c.Violation("trie-iter-order", fmt.Sprintf("%s: iteration not ascending: %x then %x", what, prev, it.Key), ops)
			ok = false
		}
		prev = common.CopyBytes(it.Key)
	}
	c.Evals(1)
	if it.Err != nil {
		c.Violation("trie-iter-error", fmt.Sprintf("%s: iterator error %v", what, it.Err), ops)
		ok = false
	}
	if n != len(content) {
		c.Violation("trie-iter-count", fmt.Sprintf("%s: iteration yields %d pairs, model has %d", what, n, len(content)), ops)
		ok = false
	}
	// iteration from a start key (ranged dumps, resumed walks): exactly the pairs with key >= start
	if ok && ordered && !secure && len(content) > 0 {
		var keys []string
		for k := range content {
			keys = append(keys, k)
		}
		sort.Strings(keys)
		var start []byte
		switch sel := len(keys) + len(content[keys[0]]); sel % 3 {
		case 0:
			start = []byte(keys[sel%len(keys)]) // an existing key
		case 1:
			k := []byte(keys[sel%len(keys)])
			start = append(common.CopyBytes(k[:len(k)-1]), k[len(k)-1]+1) // just above an existing key (may wrap: still a valid start)
		default:
			k := []byte(keys[sel%len(keys)])
			start = k[:len(k)/2] // a proper prefix of an existing key
		}
		var want []string
		for _, k := range keys {
			if bytes.Compare([]byte(k), start) >= 0 {
				want = append(want, k)
			}
		}
		sit := trie.NewIterator(tr.NodeIterator(start))
		i := 0
		for sit.Next() {
			if i >= len(want) || string(sit.Key) != want[i] || !bytes.Equal(sit.Value, content[want[i]]) {
				exp := "<end>"
				if i < len(want) {
					exp = fmt.Sprintf("%x", want[i])
				}
				c.Violation("trie-seek-iter-mismatch", fmt.Sprintf("%s: iteration from start key %x yields %x as element %d, expected %s", what, start, sit.Key, i, exp), ops)
				return false
			}
			i++
		}
		c.Count("seek_iterations", 1)
		if sit.Err != nil || i != len(want) {
			c.Violation("trie-seek-iter-mismatch", fmt.Sprintf("%s: iteration from start key %x ended after %d of %d expected pairs (err %v)", what, start, i, len(want), sit.Err), ops)
			return false
		}
	}
	return ok
}

func head(b []byte) []byte {
	if len(b) > 8 {
		return b[:8]
	}
	return b
}

// hashedContent maps keccak(key) -> value for secure tries.
func hashedContent(m map[string][]byte) map[string][]byte {
	o := make(map[string][]byte, len(m))
	for k, v := range m {
		o[string(model.Keccak256([]byte(k)))] = v
	}
	return o
}

type secureAdapter struct{ t *trie.SecureTrie }

func (s secureAdapter) TryGet(k []byte) ([]byte, error)         { return s.t.TryGet(k) }
func (s secureAdapter) NodeIterator(b []byte) trie.NodeIterator { return s.t.NodeIterator(b) }
func (s secureAdapter) Hash() common.Hash                       { return s.t.Hash() }

type bytesList [][]byte

func (b bytesList) Len() int            { return len(b) }
func (b bytesList) GetRlp(i int) []byte { return b[i] }

func run(c *kit.Ctx) {
	// self-check of the reference calculator against published vectors
	c.Begin("vectors", nil)
	vec := map[string][]byte{"doe": []byte("reindeer"), "dog": []byte("puppy"), "dogglesworth": []byte("cat")}
	if hex.EncodeToString(model.MPTRoot(vec)) != "8aad789dff2f538bca5d8ea56e8abe10f4c7ba3a5dea95fea4cd6e7c3a1168d3" {
		c.Note("reference MPT calculator fails the published doe/dog/dogglesworth vector")
		c.EndInconclusive("reference calculator self-check failed")
		return
	}
	if hex.EncodeToString(model.MPTRoot(nil)) != "56e81f171bcc55a6ff8345e692c0f86e5b48e01b996cadc001622fb5e363b421" {
		c.EndInconclusive("reference calculator self-check failed (empty root)")
		return
	}
	c.End("")

	n := c.N(4000, 400000)
	for i := 0; i < n; i++ {
		id := fmt.Sprintf("s%d", i)
		if !c.Mine(i, id) {
			continue
		}
		runSeq(c, id)
	}
}

func runSeq(c *kit.Ctx, id string) {
	r := c.Rand(id)
	style := r.Intn(4)
	secure := style != 3 && r.Intn(4) == 0
	cachelimit := uint16(0)
	if r.Intn(2) == 0 {
		cachelimit = uint16(1 + r.Intn(3))
	}
	c.Begin(id, map[string]interface{}{"style": style, "secure": secure, "cachelimit": cachelimit})
	universe := genKeys(r, style)
	disk := youdb.NewMemDatabase()
	tdb := trie.NewDatabase(disk)
	var plain *trie.Trie
	var sec *trie.SecureTrie
	var tr getter
	if secure {
		sec, _ = trie.NewSecure(common.Hash{}, tdb, cachelimit)
		tr = secureAdapter{sec}
	} else {
		plain, _ = trie.New(common.Hash{}, tdb)
		plain.SetCacheLimit(cachelimit)
		tr = plain
	}
	content := map[string][]byte{}
	var roots []*rootRec
	nops := 20 + r.Intn(100)
	feat := map[string]bool{}
	refRoot := func(m map[string][]byte) common.Hash {
		if secure {
			m = hashedContent(m)
		}
		return common.BytesToHash(model.MPTRoot(m))
	}
	bad := false
	var ops []opRec
	update := func(k, v []byte) {
		var err error
		if secure {
			err = sec.TryUpdate(k, v)
		} else {
			err = plain.TryUpdate(k, v)
		}
		if err != nil {
			c.Violation("trie-update-error", fmt.Sprintf("TryUpdate(%x): %v", k, err), ops)
			bad = true
		}
	}
	del := func(k []byte) {
		var err error
		if secure {
			err = sec.TryDelete(k)
		} else {
			err = plain.TryDelete(k)
		}
		if err != nil {
			c.Violation("trie-delete-error", fmt.Sprintf("TryDelete(%x): %v", k, err), ops)
			bad = true
		}
	}
	var base common.Hash // root the live trie was last committed to / reopened from: never GC'd, as in production
	commit := func() (common.Hash, error) {
		if secure {
			return sec.Commit(nil)
		}
		return plain.Commit(nil)
	}
	reopen := func(root common.Hash, db *trie.Database) (getter, error) {
		if secure {
			s, err := trie.NewSecure(root, db, cachelimit)
			if err != nil {
				return nil, err
			}
			return secureAdapter{s}, nil
		}
		t, err := trie.New(root, db)
		if err != nil {
			return nil, err
		}
		t.SetCacheLimit(cachelimit)
		return t, nil
	}
	for step := 0; step < nops && !bad; step++ {
		x := r.Intn(100)
		k := universe[r.Intn(len(universe))]
		switch {
		case x < 5 && !secure && style != 3 && len(content) > 0:
			// mirror: everything stored below one first byte is stored again, with the same values, below
			// a sibling first byte that shares the high nibble - the two subtries are IDENTICAL, so one
			// branch node references the same child hash from two slots
			var src []byte
			for kk := range content {
				src = []byte(kk)
				break
			}
			for _, cand := range universe { // deterministic choice (map order must not decide)
				if _, in := content[string(cand)]; in && (src == nil || bytes.Compare(cand, src) < 0 || r.Intn(4) == 0) {
					src = cand
				}
			}
			if len(src) < 2 {
				break
			}
			a := src[0]
			b := a ^ byte(1+r.Intn(15)) // same high nibble, another low nibble
			var ks []string
			for kk := range content {
				if kk[0] == a && len(kk) >= 2 {
					ks = append(ks, kk)
				}
			}
			sort.Strings(ks)
			for _, kk := range ks {
				nk := append([]byte{b}, kk[1:]...)
				v := content[kk]
				ops = append(ops, opRec{"put(mirror)", hex.EncodeToString(nk), len(v)})
				update(nk, v)
				content[string(nk)] = v
			}
			// siblings that existed below b with other suffixes would break the symmetry: remove them
			var extra []string
			for kk := range content {
				if kk[0] == b {
					if _, in := content[string(append([]byte{a}, kk[1:]...))]; !in {
						extra = append(extra, kk)
					}
				}
			}
			sort.Strings(extra)
			for _, kk := range extra {
				ops = append(ops, opRec{Op: "del(mirror)", Key: hex.EncodeToString([]byte(kk))})
				del([]byte(kk))
				delete(content, kk)
			}
			if len(ks) > 0 {
				feat["mirror"] = true
				c.Count("mirrored_subtries", 1)
			}
		case x < 45:
			v := genVal(r)
			if style == 3 && len(content) > 0 && r.Intn(3) > 0 {
				// DeriveSha-like: fill consecutive indexes
				k = model.RlpUint(uint64(len(content)))
			}
			ops = append(ops, opRec{"put", hex.EncodeToString(k), len(v)})
			update(k, v)
			content[string(k)] = v
		case x < 65:
			ops = append(ops, opRec{Op: "del", Key: hex.EncodeToString(k)})
			del(k)
			delete(content, string(k))
		case x < 70:
			// update with empty value == delete
			ops = append(ops, opRec{Op: "put-empty", Key: hex.EncodeToString(k)})
			update(k, nil)
			delete(content, string(k))
		case x < 80:
			ops = append(ops, opRec{Op: "hash"})
			got := tr.Hash()
			want := refRoot(content)
			c.Evals(1)
			if got != want {
				c.Violation("trie-root-mismatch", fmt.Sprintf("Hash()=%x, independent MPT root=%x (%d keys)", got, want, len(content)), ops)
				bad = true
			}
			feat["hash"] = true
		case x < 90:
			ops = append(ops, opRec{Op: "commit"})
			root, err := commit()
			if err != nil {
				c.Violation("trie-commit-error", err.Error(), ops)
				bad = true
				break
			}
			if want := refRoot(content); root != want {
				c.Violation("trie-root-mismatch", fmt.Sprintf("Commit()=%x, independent MPT root=%x (%d keys)", root, want, len(content)), ops)
				bad = true
				break
			}
			base = root
			dup := false
			for _, rr := range roots {
				if rr.root == root && (rr.refd || rr.ondisk) {
					dup = true
					if rr.refd && !rr.ondisk && r.Intn(2) == 0 {
						// the same root referenced once more, as two blocks with equal state roots do
						tdb.Reference(root, common.Hash{})
						rr.refs++
						ops = append(ops, opRec{Op: "reference-again", Key: root.Hex()})
						feat["ref-again"] = true
					}
				}
			}
			if !dup && len(content) > 0 {
				tdb.Reference(root, common.Hash{})
				roots = append(roots, &rootRec{root: root, content: copyMap(content), refd: true, refs: 1})
			}
			feat["commit"] = true
			// after commit, continue on a reopened trie half of the time (drops the in-memory nodes)
			if r.Intn(2) == 0 {
				nt, err := reopen(root, tdb)
				if err != nil {
					c.Violation("trie-reopen-error", fmt.Sprintf("reopen of just committed root %x: %v", root, err), ops)
					bad = true
					break
				}
				tr = nt
				if secure {
					sec = nt.(secureAdapter).t
				} else {
					plain = nt.(*trie.Trie)
				}
				ops = append(ops, opRec{Op: "reopen"})
				feat["reopen"] = true
			}
		case x < 94 && len(roots) > 0:
			// flush one root to disk
			rr := roots[r.Intn(len(roots))]
			if rr.refd {
				ops = append(ops, opRec{Op: "dbcommit", Key: rr.root.Hex()})
				if err := tdb.Commit(rr.root, false); err != nil {
					c.Violation("trie-dbcommit-error", err.Error(), ops)
					bad = true
					break
				}
				rr.ondisk = true
				feat["dbcommit"] = true
			}
		case x < 97 && len(roots) > 1:
			// garbage-collect one (other) root
			rr := roots[r.Intn(len(roots))]
			if rr.refd && !rr.ondisk && (rr.root != base || rr.refs > 1) {
				ops = append(ops, opRec{Op: "deref", Key: rr.root.Hex()})
				tdb.Dereference(rr.root)
				rr.refs--
				if rr.refs == 0 {
					rr.refd = false
				}
				feat["deref"] = true
			}
		case x < 100 && len(roots) > 0:
			lim := common.StorageSize(r.Intn(3) * r.Intn(20000))
			ops = append(ops, opRec{Op: "cap", Len: int(lim)})
			if err := tdb.Cap(lim); err != nil {
				c.Violation("trie-cap-error", err.Error(), ops)
				bad = true
			}
			feat["cap"] = true
		}
		// the current trie must equal the model now and then
		if !bad && (step%16 == 15 || step == nops-1) {
			if !checkContent(c, "live", tr, content, universe, secure, ops) {
				bad = true
			}
		}
	}
	// all surviving roots must still be fully readable, through the same cache database and
	// (for flushed ones) through a fresh database over the same disk store
	if !bad {
		for _, rr := range roots {
			if !rr.refd && !rr.ondisk {
				continue
			}
			t2, err := reopen(rr.root, tdb)
			if err != nil {
				c.Violation("trie-root-lost", fmt.Sprintf("root %x (referenced=%v ondisk=%v) cannot be opened after GC/cap of others: %v", rr.root, rr.refd, rr.ondisk, err), ops)
				bad = true
				break
			}
			if !checkContent(c, "kept-root", t2, rr.content, universe, secure, ops) {
				bad = true
				break
			}
			if rr.ondisk {
				t3, err := reopen(rr.root, trie.NewDatabase(disk))
				if err != nil {
					c.Violation("trie-root-lost", fmt.Sprintf("root %x flushed to disk cannot be opened through a fresh Database: %v", rr.root, err), ops)
					bad = true
					break
				}
				if !checkContent(c, "disk-root", t3, rr.content, universe, secure, ops) {
					bad = true
					break
				}
				if t3.Hash() != rr.root {
					c.Violation("trie-root-mismatch", "reopened trie hashes to a different root", ops)
					bad = true
				}
				feat["diskreopen"] = true
			}
		}
	}
	// proofs
	if !bad && len(content) > 0 {
		root := tr.Hash()
		if root != refRoot(content) {
			c.Violation("trie-root-mismatch", fmt.Sprintf("final Hash()=%x, independent=%x", root, refRoot(content)), ops)
			bad = true
		}
		pcontent := content
		if secure {
			pcontent = hashedContent(content)
		}
		var pkeys [][]byte
		for k := range pcontent {
			pkeys = append(pkeys, []byte(k))
		}
		sort.Slice(pkeys, func(i, j int) bool { return bytes.Compare(pkeys[i], pkeys[j]) < 0 })
		r.Shuffle(len(pkeys), func(i, j int) { pkeys[i], pkeys[j] = pkeys[j], pkeys[i] })
		if len(pkeys) > 8 {
			pkeys = pkeys[:8]
		}
		// absent keys
		for i := 0; i < 4; i++ {
			k := make([]byte, 1+r.Intn(33))
			r.Read(k)
			if r.Intn(2) == 0 && len(pkeys) > 0 {
				k = common.CopyBytes(pkeys[r.Intn(len(pkeys))])
				k[len(k)-1] ^= byte(1 << uint(r.Intn(8)))
			}
			pkeys = append(pkeys, k)
		}
		var lastProof proofDB
		for _, k := range pkeys {
			if bad {
				break
			}
			raw := proofDB{}
			var err error
			if secure {
				err = sec.Prove(k, 0, raw)
			} else {
				err = plain.Prove(k, 0, raw)
			}
			if err != nil {
				c.Violation("trie-prove-error", fmt.Sprintf("Prove(%x): %v", k, err), ops)
				bad = true
				break
			}
			// build the proof database the way a light client does: keyed by the hash of each blob
			pdb := proofDB{}
			var blobs [][]byte
			for _, blob := range raw {
				pdb[string(model.Keccak256(blob))] = blob
				blobs = append(blobs, blob)
			}
			sort.Slice(blobs, func(i, j int) bool { return bytes.Compare(blobs[i], blobs[j]) < 0 })
			want := pcontent[string(k)]
			val, _, err := trie.VerifyProof(root, k, pdb)
			c.Evals(1)
			if err != nil || !bytes.Equal(val, want) {
				c.Violation("proof-honest-rejected", fmt.Sprintf("VerifyProof(root,%x,Prove) = (len %d, %v); model value len %d", k, len(val), err, len(want)), ops)
				bad = true
				break
			}
			feat["proof"] = true
			if want == nil {
				feat["absence-proof"] = true
			}
			// tampered proofs may fail but must never verify to a different answer
			tamper := func(kind string, t proofDB, key []byte) {
				wantK := pcontent[string(key)]
				v, _, err := trie.VerifyProof(root, key, t)
				c.Evals(1)
				c.Count("tampered_proofs", 1)
				if err == nil && !bytes.Equal(v, wantK) {
					c.Violation("proof-tamper-accepted", fmt.Sprintf("tampered proof (%s) for key %x verifies to len-%d value %x.., truth len %d", kind, key, len(v), head(v), len(wantK)), ops)
					bad = true
				} else if err != nil {
					c.Count("tampered_rejected", 1)
				}
			}
			for t := 0; t < 3 && len(blobs) > 0; t++ {
				b := common.CopyBytes(blobs[r.Intn(len(blobs))])
				b[r.Intn(len(b))] ^= byte(1 << uint(r.Intn(8)))
				tp := proofDB{}
				for kk, vv := range pdb {
					tp[kk] = vv
				}
				tp[string(model.Keccak256(b))] = b
				tamper("bitflip-rekeyed", tp, k)
			}
			if len(blobs) > 1 {
				tp := proofDB{}
				drop := r.Intn(len(blobs))
				for i, b := range blobs {
					if i != drop {
						tp[string(model.Keccak256(b))] = b
					}
				}
				tamper("node-removed", tp, k)
			}
			if lastProof != nil {
				tamper("proof-of-other-key", lastProof, k)
			}
			// another key's truth through this key's proof
			other := pkeys[r.Intn(len(pkeys))]
			tamper("other-key-this-proof", pdb, other)
			lastProof = pdb
		}
	}
	// DeriveSha on rlp(index) keys
	if !bad && style == 3 {
		m := 1 + r.Intn(300)
		items := make(bytesList, m)
		want := map[string][]byte{}
		for i := range items {
			items[i] = genVal(r)
			want[string(model.RlpUint(uint64(i)))] = items[i]
		}
		got := types.DeriveSha(items)
		c.Evals(1)
		if !bytes.Equal(got[:], model.MPTRoot(want)) {
			c.Violation("derivesha-mismatch", fmt.Sprintf("DeriveSha of %d items = %x, independent = %x", m, got, model.MPTRoot(want)), nil)
		}
		feat["derivesha"] = true
	}
	var fs []string
	for f := range feat {
		fs = append(fs, f)
		c.Count("feat_"+f, 1)
	}
	sort.Strings(fs)
	c.Count("ops", len(ops))
	c.Sample(map[string]interface{}{"style": style, "secure": secure, "keys": len(universe), "ops": firstN(ops, 12), "features": fs})
	sz := len(content)
	if sz > 8 {
		sz = 8 + sz/8
	}
	c.End(fmt.Sprintf("style%d sec%v cl%d size%d %v prefix%v", style, secure, cachelimit, sz, fs, hasPrefixPair(content)))
}

func firstN(o []opRec, n int) []opRec {
	if len(o) > n {
		return o[:n]
	}
	return o
}
