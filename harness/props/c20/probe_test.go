package c20

import (
	"fmt"
	"math/big"
	"math/rand"
	"testing"

	"verif/kit"

	"github.com/youchainhq/go-youchain/core/types"
	"github.com/youchainhq/go-youchain/logging"
)

func show(h *hist, what string) {
	p, q := h.pool.Content()
	fmt.Printf("%s:\n", what)
	for i, a := range h.addrs {
		if len(p[a])+len(q[a]) > 0 {
			fmt.Printf("  acct %d head-nonce %d: pending %v queued %v poolNonce %d\n", i, h.fc.headInfo().truth[a].nonce, nonces(p[a]), nonces(q[a]), h.pool.Nonce(a))
		}
	}
	fmt.Printf("  internals: %v\n", h.pool.VerifCheckInternals())
}

func TestProbePartialReinject(t *testing.T) {
	logging.Root().SetHandler(logging.DiscardHandler())
	c, _ := kit.New("C20", "quick", 1, 0, 1, "", "plain", "/tmp/c20probe/out.jsonl")
	r := rand.New(rand.NewSource(1))
	cfg := poolCfg{AccountSlots: 64, GlobalSlots: 4096, AccountQueue: 256, GlobalQueue: 1024, PriceLimit: 1, PriceBump: 10, Loose: true}
	h, err := newHist(c, r, 2, cfg)
	if err != nil {
		t.Fatal(err)
	}
	defer h.close()
	for i := range h.addrs {
		_ = i
	}
	g := h.fc.headInfo()
	// make both accounts rich via an adjust block
	_ = g
	mk := func(n uint64, price int64) *types.Transaction {
		return h.mk(&txSpec{From: 0, Nonce: n, Price: price, Gas: 21000, Value: 1, To: 1})
	}
	// ensure account 0 is rich
	rich, _ := h.fc.build(g, nil, nil, 1000000)
	_ = rich
	t0, t1, t2, t3 := mk(0, 10), mk(1, 1), mk(2, 10), mk(3, 10)
	base := h.fc.headInfo()
	fmt.Println("balance acct0:", base.truth[h.addrs[0]].bal)
	a1, err := h.fc.build(base, []*types.Transaction{t0, t1}, nil, 1000000)
	if err != nil {
		t.Fatal(err)
	}
	fmt.Println("A1 txs:", len(a1.block.Transactions()))
	h.fc.setHead(a1)
	h.fc.quiesce(h.pool)
	fmt.Println(h.pool.AddRemotesSync([]*types.Transaction{t2, t3}))
	show(h, "at A1 with t2,t3")
	h.pool.SetGasPrice(big.NewInt(5))
	b1, _ := h.fc.build(base, nil, nil, 1000000)
	h.fc.setHead(b1)
	h.fc.quiesce(h.pool)
	show(h, "after reorg A1->B1 (t1 priced 1 < pool price 5)")
}

func TestProbePricedDup(t *testing.T) {
	logging.Root().SetHandler(logging.DiscardHandler())
	c, _ := kit.New("C20", "quick", 1, 0, 1, "", "plain", "/tmp/c20probe/out2.jsonl")
	r := rand.New(rand.NewSource(3))
	cfg := poolCfg{AccountSlots: 64, GlobalSlots: 4096, AccountQueue: 256, GlobalQueue: 1024, PriceLimit: 1, PriceBump: 10, Loose: true}
	h, err := newHist(c, r, 2, cfg)
	if err != nil {
		t.Fatal(err)
	}
	defer h.close()
	base := h.fc.headInfo()
	fmt.Println("balances:", base.truth[h.addrs[0]].bal, base.truth[h.addrs[1]].bal)
	var txs []*types.Transaction
	for n := uint64(0); n < 10; n++ {
		txs = append(txs, h.mk(&txSpec{From: 0, Nonce: n, Price: 10, Gas: 21000, Value: 1, To: 1}))
	}
	tt := h.mk(&txSpec{From: 1, Nonce: 0, Price: 2, Gas: 21000, Value: 1, To: 0})
	fmt.Println(h.pool.AddRemotesSync(append(txs, tt)))
	show(h, "11 pooled")
	a1, _ := h.fc.build(base, []*types.Transaction{tt}, nil, 1000000)
	h.fc.setHead(a1)
	h.fc.quiesce(h.pool)
	show(h, "tt mined in A1")
	b1, _ := h.fc.build(base, nil, nil, 1000000)
	h.fc.setHead(b1)
	h.fc.quiesce(h.pool)
	show(h, "reorg to empty B1: tt re-injected")
	h.pool.SetGasPrice(big.NewInt(5))
	show(h, "after SetGasPrice(5)")
}

func TestProbeNonceBelow(t *testing.T) {
	logging.Root().SetHandler(logging.DiscardHandler())
	c, _ := kit.New("C20", "quick", 1, 0, 1, "", "plain", "/tmp/c20probe/out3.jsonl")
	for seed := int64(1); seed < 50; seed++ {
		r := rand.New(rand.NewSource(seed))
		cfg := poolCfg{AccountSlots: 4, GlobalSlots: 2, AccountQueue: 4, GlobalQueue: 1, PriceLimit: 1, PriceBump: 10}
		h, err := newHist(c, r, 3, cfg)
		if err != nil {
			t.Fatal(err)
		}
		base := h.fc.headInfo()
		ok := true
		for _, a := range h.addrs {
			if base.truth[a].bal.Int64() < 1000000 {
				ok = false
			}
		}
		if !ok {
			h.close()
			continue
		}
		x := h.mk(&txSpec{From: 2, Nonce: 0, Price: 10, Gas: 21000, Value: 1, To: 1})
		a1, _ := h.fc.build(base, []*types.Transaction{x}, nil, 1000000)
		h.fc.setHead(a1)
		h.fc.quiesce(h.pool)
		a0 := h.mk(&txSpec{From: 0, Nonce: 0, Price: 1, Gas: 21000, Value: 1, To: 1})
		b0 := h.mk(&txSpec{From: 1, Nonce: 0, Price: 10, Gas: 21000, Value: 1, To: 0})
		b1 := h.mk(&txSpec{From: 1, Nonce: 1, Price: 10, Gas: 21000, Value: 1, To: 0})
		fmt.Println(h.pool.AddRemotesSync([]*types.Transaction{a0, b0, b1}))
		show(h, "at A1: 3 pooled (= GlobalSlots 2 + GlobalQueue 1)")
		f := h.mk(&txSpec{From: 0, Nonce: 0, Price: 10, Gas: 21000, Value: 2, To: 1})
		bb, _ := h.fc.build(base, []*types.Transaction{f}, nil, 1000000)
		h.fc.setHead(bb)
		h.fc.quiesce(h.pool)
		show(h, "after reorg to B1 (contains a foreign nonce-0 tx of account 0; x re-injected into the full pool)")
		fmt.Println("Nonce(acct0) =", h.pool.Nonce(h.addrs[0]), " chain nonce =", h.fc.headInfo().truth[h.addrs[0]].nonce)
		h.close()
		break
	}
}
