// Package c20 holds the workloads and monitors of property C20.
package c20
