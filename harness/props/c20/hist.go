// Package c20: the transaction pool's views stay consistent under any operation order.
//
// The real core.TxPool runs over a fork-aware harness chain (forkChain) with real state.StateDB
// states; head events, reorgs (fork switches that lower nonces and balances and make the pool
// re-inject transactions through its production reset path), batched head events, submissions of
// every admission class, price-bump-boundary replacements, SetGasPrice and small limits are driven
// by a PRNG. Oracles: invariants over the exported views (Pending/Content/Stats/Nonce/Get/Status/
// Locals) judged against the harness' own account ground truth, a reference model of the
// admission rules, a construction-time expectation for reorged transactions, and the index walk
// core.(*TxPool).VerifCheckInternals under pool.mu.
package c20

import (
	"crypto/ecdsa"
	"encoding/json"
	"fmt"
	"math/big"
	"math/rand"
	"sort"
	"strings"
	"sync"
	"sync/atomic"
	"time"

	"verif/kit"

	"github.com/youchainhq/go-youchain/common"
	"github.com/youchainhq/go-youchain/core"
	"github.com/youchainhq/go-youchain/core/types"
	"github.com/youchainhq/go-youchain/crypto"
	"github.com/youchainhq/go-youchain/params"
)

const netID = 99

var (
	keyOnce  sync.Once
	allKeys  []*ecdsa.PrivateKey
	allAddrs []common.Address
)

func keys() ([]*ecdsa.PrivateKey, []common.Address) {
	keyOnce.Do(func() {
		for i := 0; i < 12; i++ {
			k, err := crypto.ToECDSA(crypto.Keccak256([]byte(fmt.Sprintf("verif-c20-key-%d", i))))
			if err != nil {
				panic(err)
			}
			allKeys = append(allKeys, k)
			allAddrs = append(allAddrs, crypto.PubkeyToAddress(k.PublicKey))
		}
	})
	return allKeys, allAddrs
}

// txSpec describes a generated transaction completely (replayable by hand).
type txSpec struct {
	From  int    `json:"f"`
	Nonce uint64 `json:"n"`
	Price int64  `json:"p"`
	Gas   uint64 `json:"g"`
	Value int64  `json:"v"`
	To    int    `json:"to"`
	Data  int    `json:"d,omitempty"`   // zero-byte payload length
	Net   uint64 `json:"net,omitempty"` // signed for another network id
	Kind  string `json:"k"`
	Res   string `json:"res,omitempty"` // what the pool answered
	Hash  string `json:"h,omitempty"`
}

type opRec struct {
	Op   string      `json:"op"`
	Arg  interface{} `json:"arg,omitempty"`
	Txs  []*txSpec   `json:"txs,omitempty"`
	Note string      `json:"note,omitempty"`
}

type poolCfg struct {
	AccountSlots, GlobalSlots, AccountQueue, GlobalQueue uint64
	PriceLimit, PriceBump                                uint64
	NoLocals                                             bool
	Locals                                               []int
	Loose                                                bool
	LifetimeMs                                           int `json:",omitempty"` // 0 = default (3h: no eviction)
}

func (p poolCfg) coreCfg(addrs []common.Address) core.TxPoolConfig {
	cfg := core.DefaultTxPoolConfig
	cfg.Journal = ""
	cfg.AccountSlots, cfg.GlobalSlots, cfg.AccountQueue, cfg.GlobalQueue = p.AccountSlots, p.GlobalSlots, p.AccountQueue, p.GlobalQueue
	cfg.PriceLimit, cfg.PriceBump = p.PriceLimit, p.PriceBump
	cfg.NoLocals = p.NoLocals
	if p.LifetimeMs > 0 {
		cfg.Lifetime = time.Duration(p.LifetimeMs) * time.Millisecond
	}
	for _, i := range p.Locals {
		cfg.Locals = append(cfg.Locals, addrs[i])
	}
	return cfg
}

func genCfg(r *rand.Rand, nacc int) poolCfg {
	p := poolCfg{PriceLimit: []uint64{1, 1, 3}[r.Intn(3)], PriceBump: []uint64{10, 10, 1, 25, 100}[r.Intn(5)]}
	if r.Intn(5) == 0 {
		p.Loose = true
		p.AccountSlots, p.GlobalSlots, p.AccountQueue, p.GlobalQueue = 64, 4096, 256, 1024
	} else {
		p.AccountSlots = []uint64{1, 2, 4}[r.Intn(3)]
		p.GlobalSlots = []uint64{3, 6, 16}[r.Intn(3)]
		p.AccountQueue = []uint64{1, 2, 4}[r.Intn(3)]
		p.GlobalQueue = []uint64{2, 5, 16}[r.Intn(3)]
	}
	if r.Intn(8) == 0 {
		p.NoLocals = true
	}
	if r.Intn(8) == 0 {
		p.Locals = []int{r.Intn(nacc)}
	}
	return p
}

// hist is one pool + chain under test and what the harness knows about it.
type hist struct {
	c     *kit.Ctx
	cfg   poolCfg
	fc    *forkChain
	pool  *core.TxPool
	keys  []*ecdsa.PrivateKey
	addrs []common.Address
	idx   map[common.Address]int
	sig   types.Signer

	mu       sync.Mutex // guards the fields below in the concurrent mode
	ops      []opRec
	known    map[common.Hash]*types.Transaction // transactions the harness has created (bounded)
	order    []common.Hash
	feats    map[string]bool
	gasPrice int64 // atomic: the minimum price last set by the harness
	bad      int32 // atomic
}

func (h *hist) gp() int64     { return atomic.LoadInt64(&h.gasPrice) }
func (h *hist) setGP(p int64) { atomic.StoreInt64(&h.gasPrice, p) }
func (h *hist) isBad() bool   { return atomic.LoadInt32(&h.bad) != 0 }

func newHist(c *kit.Ctx, r *rand.Rand, nacc int, cfg poolCfg) (*hist, error) {
	params.InitNetworkId(netID)
	ks, as := keys()
	h := &hist{c: c, cfg: cfg, keys: ks[:nacc], addrs: as[:nacc], idx: map[common.Address]int{},
		sig: types.MakeSigner(big.NewInt(0)), known: map[common.Hash]*types.Transaction{}, feats: map[string]bool{},
		gasPrice: int64(cfg.PriceLimit)}
	genesis := map[common.Address]*big.Int{}
	var bals []int64
	for i, a := range h.addrs {
		h.idx[a] = i
		var b int64
		switch r.Intn(4) {
		case 0: // poor: a handful of cheap transfers
			b = int64(execGas) * int64(1+r.Intn(60))
		case 1:
			b = 5_000_000 + r.Int63n(20_000_000)
		default:
			b = 1_000_000_000_000
		}
		genesis[a] = big.NewInt(b)
		bals = append(bals, b)
	}
	fc, err := newForkChain(genesis, 1_000_000, h.sig)
	if err != nil {
		return nil, err
	}
	h.fc = fc
	h.pool = core.NewTxPool(cfg.coreCfg(h.addrs), fc)
	h.ops = append(h.ops, opRec{Op: "setup", Arg: map[string]interface{}{"cfg": cfg, "balances": bals, "gaslimit": 1000000}})
	return h, nil
}

func (h *hist) close() { h.pool.Stop() }

func (h *hist) log(o opRec) {
	h.mu.Lock()
	h.ops = append(h.ops, o)
	h.mu.Unlock()
}

func (h *hist) feat(f string) {
	h.mu.Lock()
	h.feats[f] = true
	h.mu.Unlock()
}

func (h *hist) remember(tx *types.Transaction) {
	h.mu.Lock()
	defer h.mu.Unlock()
	hash := tx.Hash()
	if _, ok := h.known[hash]; ok {
		return
	}
	h.known[hash] = tx
	h.order = append(h.order, hash)
	if len(h.order) > 160 {
		delete(h.known, h.order[0])
		h.order = h.order[1:]
	}
}

// witness renders the operation log while holding the log's lock (concurrent drivers keep
// appending to it).
func (h *hist) witness() interface{} {
	h.mu.Lock()
	defer h.mu.Unlock()
	ops := h.ops
	if len(ops) > 120 {
		ops = append(append([]opRec{}, ops[:1]...), ops[len(ops)-119:]...)
	}
	b, err := json.Marshal(map[string]interface{}{"accounts": len(h.addrs), "ops_total": len(h.ops), "ops": ops})
	if err != nil {
		return err.Error()
	}
	return json.RawMessage(b)
}

var (
	violMu   sync.Mutex
	violSeen = map[string]int{}
)

func (h *hist) violation(class, msg string) {
	atomic.StoreInt32(&h.bad, 1)
	violMu.Lock()
	violSeen[class]++
	n := violSeen[class]
	violMu.Unlock()
	if n > 10 {
		// the same class many times in one child (a known finding on the thorough tier): keep the
		// verdict and the message, spare the op-list witness
		h.c.Violation(class, msg, nil)
		return
	}
	h.c.Violation(class, msg, h.witness())
}

// mk signs the transaction described by s.
func (h *hist) mk(s *txSpec) *types.Transaction {
	var data []byte
	if s.Data > 0 {
		data = make([]byte, s.Data)
	}
	raw := types.NewTransaction(s.Nonce, h.addrs[s.To], big.NewInt(s.Value), s.Gas, big.NewInt(s.Price), data)
	signer := h.sig
	if s.Net != 0 {
		signer = types.NewYouSigner(s.Net)
	}
	tx, err := types.SignTx(raw, signer, h.keys[s.From])
	if err != nil {
		panic(err)
	}
	s.Hash = fmt.Sprintf("%x", tx.Hash().Bytes()[:4])
	h.remember(tx)
	return tx
}

func errName(err error) string {
	switch err {
	case nil:
		return "ok"
	case core.ErrInvalidSender:
		return "invalid-sender"
	case core.ErrNonceTooLow:
		return "nonce-too-low"
	case core.ErrUnderpriced:
		return "underpriced"
	case core.ErrReplaceUnderpriced:
		return "replace-underpriced"
	case core.ErrInsufficientFunds:
		return "insufficient-funds"
	case core.ErrIntrinsicGas:
		return "intrinsic-gas"
	case core.ErrGasLimit:
		return "gas-limit"
	case core.ErrNegativeValue:
		return "negative-value"
	case core.ErrOversizedData:
		return "oversized"
	}
	if strings.HasPrefix(err.Error(), "know transaction") {
		return "known"
	}
	return "other:" + err.Error()
}

// expectValidate is the reference model of the admission rules, in the order the documentation
// of validateTx gives them, judged on the harness' ground truth at the head. "" = admissible.
func (h *hist) expectValidate(s *txSpec, tx *types.Transaction, local bool, head *blockInfo, gasPrice int64) string {
	if tx.Size() > 32*1024 {
		return "oversized"
	}
	if s.Value < 0 {
		return "negative-value"
	}
	if s.Gas > head.block.GasLimit() {
		return "gas-limit"
	}
	if s.Net != 0 && s.Net != netID {
		return "invalid-sender"
	}
	if !local && s.Price < gasPrice {
		return "underpriced"
	}
	a := head.truth[h.addrs[s.From]]
	if s.Nonce < a.nonce {
		return "nonce-too-low"
	}
	cost := new(big.Int).Mul(big.NewInt(s.Price), new(big.Int).SetUint64(s.Gas))
	cost.Add(cost, big.NewInt(s.Value))
	if a.bal.Cmp(cost) < 0 {
		return "insufficient-funds"
	}
	if s.Gas < params.TxGas+uint64(s.Data)*params.TxDataZeroGas {
		return "intrinsic-gas"
	}
	return ""
}

// view is one observation of the exported views.
type view struct {
	pend, queued map[common.Address]types.Transactions
	where        map[common.Hash]string // "p" | "q"
	np, nq       int
}

func (h *hist) isLocal(locals []common.Address, a common.Address) bool {
	for _, l := range locals {
		if l == a {
			return true
		}
	}
	return false
}

func nonces(txs types.Transactions) []uint64 {
	out := make([]uint64, len(txs))
	for i, tx := range txs {
		out[i] = tx.Nonce()
	}
	return out
}

// gapClass names a nonce gap inside one account's pending list. When the (sender, nonce) slot right
// below the gap has been executed in some block (necessarily of an abandoned branch, the slot being
// open again), the account nonce was lowered by a reorg and the low part of the list stems from a
// re-injection: that is the known partial re-injection defect, kept apart from every other way of
// producing a gap. The slot is used rather than the hash because a concurrent replacement may have
// taken the re-injected transaction's place since.
func (h *hist) gapClass(ptxs types.Transactions) (string, bool) {
	for i := 1; i < len(ptxs); i++ {
		if ptxs[i].Nonce() != ptxs[i-1].Nonce()+1 {
			if from, err := types.Sender(h.sig, ptxs[i-1]); err == nil && h.fc.slotMinedSomewhere(from, ptxs[i-1].Nonce()) {
				return "pending-nonce-gap-after-reinjection", true
			}
			return "pending-nonce-gap", true
		}
	}
	return "", false
}

// internalsClass maps an index-walk error to a violation class.
func (h *hist) internalsClass(err error) string {
	ie, ok := err.(*core.VerifInternalError)
	if !ok {
		return "internals"
	}
	if ie.Class == "pending-nonce-gap" && len(ie.Txs) > 0 {
		if cl, gap := h.gapClass(ie.Txs); gap {
			return "internals:" + cl
		}
	}
	return "internals:" + ie.Class
}

// checkSnapshot judges one atomic Content() snapshot with the conditions that hold whenever the
// pool lock is free (usable from concurrent samplers). Returns the view, or nil after a violation.
func (h *hist) checkSnapshot(pend, queued map[common.Address]types.Transactions, when string) *view {
	v := &view{pend: pend, queued: queued, where: map[common.Hash]string{}}
	for half, m := range map[string]map[common.Address]types.Transactions{"p": pend, "q": queued} {
		for a, txs := range m {
			if len(txs) == 0 {
				h.violation("empty-account-entry", fmt.Sprintf("%s: Content() lists account %d in %s with no transactions", when, h.idx[a], half))
				return nil
			}
			for i, tx := range txs {
				from, err := types.Sender(h.sig, tx)
				if err != nil || from != a {
					h.violation("tx-under-wrong-account", fmt.Sprintf("%s: %s[%d] holds a transaction of %x (err %v)", when, half, h.idx[a], from, err))
					return nil
				}
				if i > 0 && txs[i-1].Nonce() >= tx.Nonce() {
					h.violation("account-list-unsorted", fmt.Sprintf("%s: %s[%d] nonces %v not strictly ascending", when, half, h.idx[a], nonces(txs)))
					return nil
				}
				if prev, dup := v.where[tx.Hash()]; dup {
					h.violation("tx-pending-and-queued", fmt.Sprintf("%s: tx %x (account %d nonce %d) appears in %s and %s", when, tx.Hash().Bytes()[:4], h.idx[a], tx.Nonce(), prev, half))
					return nil
				}
				v.where[tx.Hash()] = half
			}
			if half == "p" {
				v.np += len(txs)
			} else {
				v.nq += len(txs)
			}
		}
	}
	for a, ptxs := range pend {
		if class, gap := h.gapClass(ptxs); gap {
			h.violation(class, fmt.Sprintf("%s: account %d pending nonces %v are not gap-free", when, h.idx[a], nonces(ptxs)))
			return nil
		}
		if q := queued[a]; len(q) > 0 && q[0].Nonce() <= ptxs[len(ptxs)-1].Nonce() {
			h.violation("queued-not-above-pending", fmt.Sprintf("%s: account %d pending nonces %v, queued nonces %v", when, h.idx[a], nonces(ptxs), nonces(q)))
			return nil
		}
	}
	h.c.Evals(1)
	return v
}

func sameTxs(a, b types.Transactions) bool {
	if len(a) != len(b) {
		return false
	}
	for i := range a {
		if a[i].Hash() != b[i].Hash() {
			return false
		}
	}
	return true
}

type checkOpts struct {
	afterRun bool // the last operation ended with a complete reorg run (limits of the queue apply)
}

// checkQuiescent judges all views against each other and against the chain's ground truth. It
// must only be called when nothing is in flight (single-threaded driver, after quiesce()).
func (h *hist) checkQuiescent(when string, o checkOpts) *view {
	pool := h.pool
	pend, queued := pool.Content()
	v := h.checkSnapshot(pend, queued, when)
	if v == nil {
		return nil
	}
	// what the block builder gets is what is reported
	built, err := pool.Pending()
	if err != nil || len(built) != len(pend) {
		h.violation("pending-differs-from-content", fmt.Sprintf("%s: Pending() has %d accounts (err %v), Content() pending %d", when, len(built), err, len(pend)))
		return nil
	}
	for a, txs := range pend {
		if !sameTxs(txs, built[a]) {
			h.violation("pending-differs-from-content", fmt.Sprintf("%s: account %d: Pending() nonces %v, Content() pending nonces %v (or other hashes)", when, h.idx[a], nonces(built[a]), nonces(txs)))
			return nil
		}
	}
	if np, nq := pool.Stats(); np != v.np || nq != v.nq {
		h.violation("stats-mismatch", fmt.Sprintf("%s: Stats() = (%d,%d), Content() has (%d,%d)", when, np, nq, v.np, v.nq))
		return nil
	}
	head := h.fc.headInfo()
	limit := head.block.GasLimit()
	for i, a := range h.addrs {
		t := head.truth[a]
		ptxs, qtxs := pend[a], queued[a]
		want := t.nonce
		if len(ptxs) > 0 {
			if first := ptxs[0].Nonce(); first < t.nonce {
				h.violation("pending-stale-nonce", fmt.Sprintf("%s: account %d has nonce %d at the head, pending nonces %v", when, i, t.nonce, nonces(ptxs)))
				return nil
			} else if first > t.nonce {
				h.violation("pending-not-at-account-nonce", fmt.Sprintf("%s: account %d has nonce %d at the head, pending nonces %v", when, i, t.nonce, nonces(ptxs)))
				return nil
			}
			for _, tx := range ptxs {
				if tx.Cost().Cmp(t.bal) > 0 {
					h.violation("pending-unaffordable", fmt.Sprintf("%s: account %d balance %v, pending nonce %d costs %v", when, i, t.bal, tx.Nonce(), tx.Cost()))
					return nil
				}
				if tx.Gas() > limit {
					h.violation("pending-over-gaslimit", fmt.Sprintf("%s: account %d pending nonce %d gas %d > block gas limit %d", when, i, tx.Nonce(), tx.Gas(), limit))
					return nil
				}
			}
			want = ptxs[len(ptxs)-1].Nonce() + 1
		}
		if len(qtxs) > 0 && qtxs[0].Nonce() < t.nonce {
			h.violation("queued-stale-nonce", fmt.Sprintf("%s: account %d has nonce %d at the head, queued nonces %v", when, i, t.nonce, nonces(qtxs)))
			return nil
		}
		if got := pool.Nonce(a); got != want {
			class := "pool-nonce-mismatch"
			if got < t.nonce {
				class = "pool-nonce-below-account-nonce"
			}
			h.violation(class, fmt.Sprintf("%s: account %d: Nonce() = %d, head nonce %d + %d pending = %d", when, i, got, t.nonce, len(ptxs), want))
			return nil
		}
		if len(qtxs) > 0 && qtxs[0].Nonce() == want {
			h.c.Count("obs_promotable_left_queued", 1)
		}
		for _, tx := range qtxs {
			if tx.Cost().Cmp(t.bal) > 0 {
				h.c.Count("obs_queued_unaffordable", 1)
			}
		}
	}
	// Get / Status agree with the lists, for pooled and for no longer pooled transactions
	var hashes []common.Hash
	var wants []core.TxStatus
	for hash, half := range v.where {
		hashes = append(hashes, hash)
		if half == "p" {
			wants = append(wants, core.TxStatusPending)
		} else {
			wants = append(wants, core.TxStatusQueued)
		}
	}
	h.mu.Lock()
	for hash := range h.known {
		if _, pooled := v.where[hash]; !pooled {
			hashes = append(hashes, hash)
			wants = append(wants, core.TxStatusUnknown)
		}
	}
	h.mu.Unlock()
	got := pool.Status(hashes)
	for i, hash := range hashes {
		if got[i] != wants[i] {
			h.violation("status-mismatch", fmt.Sprintf("%s: tx %x: Status() = %d, lists say %d (0 unknown, 1 queued, 2 pending)", when, hash.Bytes()[:4], got[i], wants[i]))
			return nil
		}
		tx := pool.Get(hash)
		if (tx != nil) != (wants[i] != core.TxStatusUnknown) || (tx != nil && tx.Hash() != hash) {
			h.violation("get-mismatch", fmt.Sprintf("%s: tx %x: Get() found=%v, lists say status %d", when, hash.Bytes()[:4], tx != nil, wants[i]))
			return nil
		}
	}
	if err := pool.VerifCheckInternals(); err != nil {
		h.violation(h.internalsClass(err), fmt.Sprintf("%s: %v", when, err))
		return nil
	}
	// limits
	locals := pool.Locals()
	cfg := h.cfg
	if len(locals) == 0 && uint64(v.np+v.nq) > cfg.GlobalSlots+cfg.GlobalQueue {
		h.violation("pool-size-exceeded", fmt.Sprintf("%s: %d pending + %d queued > GlobalSlots %d + GlobalQueue %d without local accounts", when, v.np, v.nq, cfg.GlobalSlots, cfg.GlobalQueue))
		return nil
	}
	if uint64(v.np) > cfg.GlobalSlots {
		for a, txs := range pend {
			if uint64(len(txs)) > cfg.AccountSlots && !h.isLocal(locals, a) {
				h.violation("global-slots-exceeded", fmt.Sprintf("%s: %d pending > GlobalSlots %d while non-local account %d holds %d > AccountSlots %d", when, v.np, cfg.GlobalSlots, h.idx[a], len(txs), cfg.AccountSlots))
				return nil
			}
		}
	}
	if o.afterRun && uint64(v.nq) > cfg.GlobalQueue {
		for a, txs := range queued {
			if !h.isLocal(locals, a) {
				h.violation("global-queue-exceeded", fmt.Sprintf("%s: %d queued > GlobalQueue %d while non-local account %d still has %d queued", when, v.nq, cfg.GlobalQueue, h.idx[a], len(txs)))
				return nil
			}
		}
	}
	if uint64(v.np) >= cfg.GlobalSlots {
		h.feat("pending-full")
	}
	if uint64(v.nq) >= cfg.GlobalQueue {
		h.feat("queue-full")
	}
	h.c.Evals(4 + len(hashes))
	h.c.Max("max_pending", int64(v.np))
	h.c.Max("max_queued", int64(v.nq))
	return v
}

// settle asks the pool to promote every queued account (what the next submission of each account
// would do) and then applies the strict per-account conditions.
func (h *hist) settle(when string) {
	h.pool.VerifPromoteAll()
	v := h.checkQuiescent(when+"/settled", checkOpts{afterRun: true})
	if v == nil {
		return
	}
	locals := h.pool.Locals()
	for a, q := range v.queued {
		if !h.isLocal(locals, a) && uint64(len(q)) > h.cfg.AccountQueue {
			h.violation("account-queue-exceeded", fmt.Sprintf("%s: after promoteExecutables non-local account %d keeps %d queued > AccountQueue %d", when, h.idx[a], len(q), h.cfg.AccountQueue))
			return
		}
		if q[0].Nonce() == h.pool.Nonce(a) {
			h.violation("executable-left-queued", fmt.Sprintf("%s: after promoteExecutables account %d (pool nonce %d) keeps queued nonces %v", when, h.idx[a], h.pool.Nonce(a), nonces(q)))
			return
		}
	}
	h.c.Evals(1)
}

func sortedFeats(m map[string]bool) []string {
	var fs []string
	for f := range m {
		fs = append(fs, f)
	}
	sort.Strings(fs)
	return fs
}

func bucket(n int) int {
	switch {
	case n <= 4:
		return n
	case n <= 8:
		return 8
	case n <= 16:
		return 16
	case n <= 64:
		return 64
	}
	return 1000
}
