package c20

import (
	"fmt"
	"math/big"
	"runtime"
	"sync"
	"sync/atomic"
	"time"

	"github.com/youchainhq/go-youchain/common"
	"github.com/youchainhq/go-youchain/core"
	"github.com/youchainhq/go-youchain/core/state"
	"github.com/youchainhq/go-youchain/core/types"
	"github.com/youchainhq/go-youchain/event"
	"github.com/youchainhq/go-youchain/youdb"
)

// execGas is what the harness chain charges for an included transaction (plain transfers).
const execGas = 21000

// acct is the harness' own ground truth of an account at a block (independent of StateDB reads).
type acct struct {
	nonce uint64
	bal   *big.Int
}

type blockInfo struct {
	block *types.Block
	truth map[common.Address]acct // every harness account after this block
}

// forkChain is a fork-aware block store implementing the pool's blockChain interface with real
// state.StateDB states in one shared state.Database. It executes only plain value transfers
// (nonce+1, balance -= value + 21000*price, recipient += value) plus explicit balance adjustments
// per block (standing for contract effects / rewards), which is all the pool can observe of a
// chain: head headers, block bodies of both branches of a reorg, and nonce/balance at a root.
type forkChain struct {
	mu     sync.RWMutex
	sdb    state.Database
	blocks map[common.Hash]*blockInfo
	head   *blockInfo
	feed   event.Feed
	sub    chan<- core.ChainHeadEvent // the pool's head channel (to observe its backlog)
	proc   core.Processor
	signer types.Signer
	serial uint64
	mined  map[common.Hash]bool // every transaction included in any block ever built (any branch)
	slots  map[string]bool      // every (sender, nonce) slot executed in any block ever built

	stateAtCalls int64 // atomic: StateAt calls made by the pool (exactly one per executed reset)
	gateMu       sync.Mutex
	gate         chan struct{} // while non-nil the pool's StateAt calls wait until it is closed
	entered      chan struct{} // closed when the first call starts waiting
}

func newForkChain(genesis map[common.Address]*big.Int, gasLimit uint64, signer types.Signer) (*forkChain, error) {
	fc := &forkChain{
		sdb:    state.NewDatabase(youdb.NewMemDatabase()),
		blocks: make(map[common.Hash]*blockInfo),
		mined:  make(map[common.Hash]bool),
		slots:  make(map[string]bool),
		proc:   core.NewStateProcessor(nil, nil),
		signer: signer,
	}
	st, err := state.New(common.Hash{}, common.Hash{}, common.Hash{}, fc.sdb)
	if err != nil {
		return nil, err
	}
	truth := make(map[common.Address]acct)
	for a, b := range genesis {
		st.SetBalance(a, b)
		truth[a] = acct{0, new(big.Int).Set(b)}
	}
	root, valRoot, stakingRoot, err := st.Commit(true)
	if err != nil {
		return nil, err
	}
	h := &types.Header{Number: big.NewInt(0), Root: root, ValRoot: valRoot, StakingRoot: stakingRoot, GasLimit: gasLimit, Extra: []byte("c20-genesis")}
	bi := &blockInfo{block: types.NewBlock(h, nil, nil), truth: truth}
	fc.blocks[bi.block.Hash()] = bi
	fc.head = bi
	return fc, nil
}

// ---- blockChain interface (called by the pool) ----

func (fc *forkChain) CurrentBlock() *types.Block {
	fc.mu.RLock()
	defer fc.mu.RUnlock()
	return fc.head.block
}

func (fc *forkChain) GetBlock(hash common.Hash, number uint64) *types.Block {
	fc.mu.RLock()
	defer fc.mu.RUnlock()
	if bi := fc.blocks[hash]; bi != nil && bi.block.NumberU64() == number {
		return bi.block
	}
	return nil
}

// StateAt is what the pool calls (once per reset, under pool.mu). The harness can hold it up: the
// reset in progress then keeps the reorg scheduler busy, so that every head event posted meanwhile
// has to wait and be merged by the scheduler - deterministically, without any timing assumption.
func (fc *forkChain) StateAt(root, valRoot, stakingRoot common.Hash) (*state.StateDB, error) {
	atomic.AddInt64(&fc.stateAtCalls, 1)
	fc.gateMu.Lock()
	g := fc.gate
	if g != nil && fc.entered != nil {
		close(fc.entered)
		fc.entered = nil
	}
	fc.gateMu.Unlock()
	if g != nil {
		<-g
	}
	return fc.stateAt(root, valRoot, stakingRoot)
}

func (fc *forkChain) stateAt(root, valRoot, stakingRoot common.Hash) (*state.StateDB, error) {
	return state.New(root, valRoot, stakingRoot, fc.sdb)
}

// hold makes the pool's next StateAt calls wait; the returned channel is closed when the first
// one has arrived (the pool is then inside reset(), holding its lock).
func (fc *forkChain) hold() <-chan struct{} {
	fc.gateMu.Lock()
	defer fc.gateMu.Unlock()
	fc.gate = make(chan struct{})
	e := make(chan struct{})
	fc.entered = e
	return e
}

func (fc *forkChain) release() {
	fc.gateMu.Lock()
	defer fc.gateMu.Unlock()
	if fc.gate != nil {
		close(fc.gate)
		fc.gate, fc.entered = nil, nil
	}
}

func (fc *forkChain) poolResets() int64 { return atomic.LoadInt64(&fc.stateAtCalls) }

func (fc *forkChain) Processor() core.Processor { return fc.proc }

func (fc *forkChain) SubscribeChainHeadEvent(ch chan<- core.ChainHeadEvent) event.Subscription {
	fc.mu.Lock()
	fc.sub = ch
	fc.mu.Unlock()
	return fc.feed.Subscribe(ch)
}

// ---- harness side ----

func (fc *forkChain) headInfo() *blockInfo {
	fc.mu.RLock()
	defer fc.mu.RUnlock()
	return fc.head
}

func (fc *forkChain) info(h common.Hash) *blockInfo {
	fc.mu.RLock()
	defer fc.mu.RUnlock()
	return fc.blocks[h]
}

// ancestor returns the ancestor n blocks above bi (stopping at genesis).
func (fc *forkChain) ancestor(bi *blockInfo, n int) *blockInfo {
	for ; n > 0 && bi.block.NumberU64() > 0; n-- {
		bi = fc.info(bi.block.ParentHash())
	}
	return bi
}

// build executes cand in order on top of parent; transactions that are not executable there
// (wrong nonce, unaffordable, gas above the block limit or below the intrinsic gas) are left out,
// as a block builder does. adjust sets balances after the transactions.
func (fc *forkChain) build(parent *blockInfo, cand []*types.Transaction, adjust map[common.Address]*big.Int, gasLimit uint64) (*blockInfo, error) {
	ph := parent.block.Header()
	st, err := state.New(ph.Root, ph.ValRoot, ph.StakingRoot, fc.sdb)
	if err != nil {
		return nil, fmt.Errorf("parent state: %v", err)
	}
	truth := make(map[common.Address]acct, len(parent.truth))
	for a, v := range parent.truth {
		truth[a] = acct{v.nonce, new(big.Int).Set(v.bal)}
	}
	var included []*types.Transaction
	for _, tx := range cand {
		from, err := types.Sender(fc.signer, tx)
		if err != nil {
			continue
		}
		a, known := truth[from]
		if !known || a.nonce != tx.Nonce() || a.bal.Cmp(tx.Cost()) < 0 || tx.Gas() > gasLimit || tx.Gas() < execGas {
			continue
		}
		fee := new(big.Int).Mul(tx.GasPrice(), big.NewInt(execGas))
		a.bal.Sub(a.bal, fee)
		a.bal.Sub(a.bal, tx.Value())
		a.nonce++
		truth[from] = a
		if to := tx.To(); to != nil {
			if r, ok := truth[*to]; ok {
				r.bal.Add(r.bal, tx.Value())
				truth[*to] = r
			}
		}
		included = append(included, tx)
	}
	for a, b := range adjust {
		if _, ok := truth[a]; ok {
			truth[a] = acct{truth[a].nonce, new(big.Int).Set(b)}
		}
	}
	for a, v := range truth {
		if p := parent.truth[a]; p.nonce != v.nonce || p.bal.Cmp(v.bal) != 0 {
			st.SetNonce(a, v.nonce)
			st.SetBalance(a, v.bal)
		}
	}
	root, valRoot, stakingRoot, err := st.Commit(true)
	if err != nil {
		return nil, fmt.Errorf("commit: %v", err)
	}
	fc.mu.Lock()
	fc.serial++
	serial := fc.serial
	fc.mu.Unlock()
	h := &types.Header{
		ParentHash: parent.block.Hash(), Number: new(big.Int).Add(ph.Number, big.NewInt(1)),
		Root: root, ValRoot: valRoot, StakingRoot: stakingRoot, GasLimit: gasLimit,
		Time: ph.Time + 1, Extra: []byte(fmt.Sprintf("c20-%d", serial)),
	}
	bi := &blockInfo{block: types.NewBlock(h, included, nil), truth: truth}
	fc.mu.Lock()
	fc.blocks[bi.block.Hash()] = bi
	for _, tx := range included {
		fc.mined[tx.Hash()] = true
		if from, err := types.Sender(fc.signer, tx); err == nil {
			fc.slots[slotKey(from, tx.Nonce())] = true
		}
	}
	fc.mu.Unlock()
	return bi, nil
}

func slotKey(a common.Address, nonce uint64) string { return fmt.Sprintf("%x/%d", a, nonce) }

// slotMinedSomewhere: some transaction of this sender with this nonce is part of some block of
// some branch.
func (fc *forkChain) slotMinedSomewhere(a common.Address, nonce uint64) bool {
	fc.mu.RLock()
	defer fc.mu.RUnlock()
	return fc.slots[slotKey(a, nonce)]
}

// minedSomewhere: the transaction is part of some block of some branch.
func (fc *forkChain) minedSomewhere(h common.Hash) bool {
	fc.mu.RLock()
	defer fc.mu.RUnlock()
	return fc.mined[h]
}

// selfCheck re-reads the committed state of bi through StateAt and compares it with the ground truth
// (guards the harness against its own mistakes).
func (fc *forkChain) selfCheck(bi *blockInfo) error {
	h := bi.block.Header()
	st, err := fc.stateAt(h.Root, h.ValRoot, h.StakingRoot)
	if err != nil {
		return err
	}
	for a, v := range bi.truth {
		if st.GetNonce(a) != v.nonce || st.GetBalance(a).Cmp(v.bal) != 0 {
			return fmt.Errorf("account %x: state (%d,%v) truth (%d,%v)", a, st.GetNonce(a), st.GetBalance(a), v.nonce, v.bal)
		}
	}
	return nil
}

// setHead makes bi the canonical head and posts the head event the way core.BlockChain does
// (head switched first, event afterwards). It does not wait for the pool.
func (fc *forkChain) setHead(bi *blockInfo) {
	fc.mu.Lock()
	fc.head = bi
	fc.mu.Unlock()
	fc.feed.Send(core.ChainHeadEvent{Block: bi.block})
}

// drainHeadEvents returns once the pool's event loop has taken every head event posted so far AND
// handed the corresponding reset requests to its reorg scheduler: a sentinel event without a block
// (which the loop ignores) is queued behind them, and the loop handles events strictly in order.
func (fc *forkChain) drainHeadEvents() { fc.drainHeadEventsWithin(0) }

// drainHeadEventsWithin is drainHeadEvents with a bound (0 = none): while a reset is held at the
// gate it owns pool.mu, and the pool's event loop also takes pool.mu for its periodic statistics /
// eviction ticks - on a starved machine such a tick can fall into the gated window and the loop
// then cannot take the queued head events until the gate opens. The caller opens the gate when
// this returns false.
func (fc *forkChain) drainHeadEventsWithin(limit time.Duration) bool {
	fc.feed.Send(core.ChainHeadEvent{})
	fc.mu.RLock()
	ch := fc.sub
	fc.mu.RUnlock()
	start := time.Now()
	for i := 0; len(ch) > 0; i++ {
		if i < 200 {
			runtime.Gosched()
		} else {
			time.Sleep(20 * time.Microsecond)
		}
		if limit > 0 && i%1000 == 999 && time.Since(start) > limit {
			return false
		}
	}
	return true
}

// quiesce waits until everything submitted or posted so far has been worked off by the pool.
func (fc *forkChain) quiesce(pool *core.TxPool) {
	fc.drainHeadEvents()
	pool.VerifSync()
}
