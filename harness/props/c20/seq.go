package c20

import (
	"fmt"
	"math/big"
	"math/rand"
	"sort"
	"time"

	"verif/kit"

	"github.com/youchainhq/go-youchain/common"
	"github.com/youchainhq/go-youchain/core/types"
)

func init() { kit.Register("C20.seq", runSeq) }

func runSeq(c *kit.Ctx) {
	n := c.N(2000, 80000)
	for i := 0; i < n; i++ {
		id := fmt.Sprintf("seq-%d", i)
		if !c.Mine(i, id) {
			continue
		}
		r := c.Rand(id)
		nacc := 2 + r.Intn(7)
		cfg := genCfg(r, nacc)
		nops := 40 + r.Intn(81)
		c.Begin(id, map[string]interface{}{"accounts": nacc, "cfg": cfg, "ops": nops})
		h, err := newHist(c, r, nacc, cfg)
		if err != nil {
			c.EndInconclusive("harness chain setup failed: " + err.Error())
			continue
		}
		s := &seqDriver{hist: h, r: r}
		s.run(nops)
		h.close()
		for f := range h.feats {
			c.Count("feat_"+f, 1)
		}
		c.Count("ops", nops)
		c.Sample(map[string]interface{}{"cfg": cfg, "accounts": nacc, "features": sortedFeats(h.feats), "first_ops": firstOps(h.ops, 8)})
		c.End(fmt.Sprintf("seq loose%v nolocals%v presetlocal%v as%d gs%d aq%d gq%d bump%d %v", cfg.Loose, cfg.NoLocals, len(cfg.Locals) > 0,
			cfg.AccountSlots, cfg.GlobalSlots, cfg.AccountQueue, cfg.GlobalQueue, cfg.PriceBump, sortedFeats(h.feats)))
	}
}

func firstOps(o []opRec, n int) []opRec {
	if len(o) > n {
		return o[:n]
	}
	return o
}

type seqDriver struct {
	*hist
	r    *rand.Rand
	ndev int
	conc bool // concurrent mode: fire and forget, no quiescent judgement inside the operations
}

func (s *seqDriver) run(nops int) {
	if s.checkQuiescent("start", checkOpts{afterRun: true}) == nil {
		return
	}
	for step := 0; step < nops && !s.isBad(); step++ {
		x := s.r.Intn(100)
		switch {
		case x < 40:
			s.opSubmit(step)
		case x < 52:
			s.opReplace(step)
		case x < 66:
			s.opMine(step)
		case x < 71:
			s.opForeign(step)
		case x < 83:
			s.opReorg(step)
		case x < 92:
			s.opBatched(step)
		default:
			s.opSetGasPrice(step)
		}
	}
	if !s.isBad() {
		s.fc.quiesce(s.pool)
		s.settle("end")
	}
}

// ---- generators ----

func (s *seqDriver) price() int64 {
	// around the current minimum so that SetGasPrice and the priced heap have something to order
	return s.gp() + int64(s.r.Intn(12))
}

func (s *seqDriver) baseSpec(from int, nonce uint64) *txSpec {
	gas := uint64(execGas)
	if s.r.Intn(6) == 0 {
		gas = []uint64{30000, 60000, 200000}[s.r.Intn(3)]
	}
	return &txSpec{From: from, Nonce: nonce, Price: s.price(), Gas: gas, Value: int64(s.r.Intn(1000)) * int64(s.r.Intn(1000)),
		To: s.r.Intn(len(s.addrs)), Kind: "next"}
}

// genSpec draws a transaction of a random admission class. next maps account -> next nonce to use
// inside the batch under construction.
func (s *seqDriver) genSpec(next map[int]uint64) *txSpec {
	from := s.r.Intn(len(s.addrs))
	if _, ok := next[from]; !ok {
		next[from] = s.pool.Nonce(s.addrs[from])
	}
	head := s.fc.headInfo()
	t := head.truth[s.addrs[from]]
	sp := s.baseSpec(from, next[from])
	switch x := s.r.Intn(100); {
	case x < 52:
		next[from]++
	case x < 64:
		sp.Kind = "gap"
		sp.Nonce += uint64(1 + s.r.Intn(3))
	case x < 68:
		sp.Kind = "far"
		sp.Nonce += uint64(5 + s.r.Intn(60))
	case x < 73:
		sp.Kind = "underpriced"
		if s.gp() > 1 {
			sp.Price = s.gp() - 1 - int64(s.r.Intn(int(s.gp()-1)))
		}
	case x < 79:
		sp.Kind = "unaffordable"
		cost := new(big.Int).Mul(big.NewInt(sp.Price), new(big.Int).SetUint64(sp.Gas))
		if rest := new(big.Int).Sub(t.bal, cost); rest.Sign() >= 0 && rest.IsInt64() && rest.Int64() < 1<<60 {
			sp.Value = rest.Int64() + 1 + int64(s.r.Intn(2))*1000
		} else if rest.Sign() >= 0 {
			sp.Kind = "next"
			next[from]++
		}
	case x < 82:
		sp.Kind = "oversized"
		sp.Data = 32*1024 + s.r.Intn(2000)
		sp.Gas = 900000
	case x < 85:
		sp.Kind = "wrongnet"
		sp.Net = []uint64{1, 98, 100}[s.r.Intn(3)]
	case x < 89:
		sp.Kind = "stale"
		if t.nonce > 0 {
			sp.Nonce = uint64(s.r.Int63n(int64(t.nonce)))
		}
	case x < 92:
		sp.Kind = "overgas"
		sp.Gas = head.block.GasLimit() + 1 + uint64(s.r.Intn(1000))
	case x < 95:
		sp.Kind = "lowgas"
		sp.Gas = execGas - 1 - uint64(s.r.Intn(100))
	case x < 97:
		sp.Kind = "exact-balance"
		cost := new(big.Int).Mul(big.NewInt(sp.Price), new(big.Int).SetUint64(sp.Gas))
		if rest := new(big.Int).Sub(t.bal, cost); rest.Sign() >= 0 && rest.IsInt64() {
			sp.Value = rest.Int64()
		}
		next[from]++
	default:
		sp.Kind = "dup"
	}
	return sp
}

// submit sends the batch through one of the production entry points and checks the verdicts
// against the admission model. It returns the errors.
func (s *seqDriver) submit(step int, how string, specs []*txSpec, txs []*types.Transaction) []error {
	head := s.fc.headInfo()
	localsBefore := s.pool.Locals()
	np, nq := s.pool.Stats()
	full := uint64(np+nq+len(txs)) >= s.cfg.GlobalSlots+s.cfg.GlobalQueue
	var errs []error
	switch how {
	case "local":
		errs = s.pool.AddLocals(txs)
	case "remote-sync":
		errs = s.pool.AddRemotesSync(txs)
	default:
		errs = s.pool.AddRemotes(txs)
		s.fc.quiesce(s.pool)
	}
	asLocal := how == "local" && !s.cfg.NoLocals
	for i, sp := range specs {
		sp.Res = errName(errs[i])
		s.c.Count("tx_submitted", 1)
		if errs[i] == nil {
			s.c.Count("tx_accepted", 1)
		} else {
			s.c.Count("rej_"+sp.Res, 1)
		}
	}
	s.log(opRec{Op: "add-" + how, Txs: specs})
	if full {
		s.feat("pool-full")
	}
	for i, sp := range specs {
		if sp.Kind == "dup-known" {
			if sp.Res != "known" {
				s.deviation(fmt.Sprintf("step %d: resubmitting pooled tx %s answered %q, want the already-known error", step, sp.Hash, sp.Res))
			}
			continue
		}
		if sp.Res == "known" {
			continue
		}
		// account locality can only be relied upon when it cannot change inside the batch
		local := asLocal || s.isLocal(localsBefore, s.addrs[sp.From])
		want := s.expectValidate(sp, txs[i], local, head, s.gp())
		s.c.Evals(1)
		if want != "" {
			s.c.Count("admission_invalid_checked", 1)
			if errs[i] == nil {
				s.violation("invalid-tx-admitted", fmt.Sprintf("step %d: %s tx (account %d nonce %d price %d gas %d value %d data %d net %d) was admitted, admission rules say %q (head nonce %d balance %v gas limit %d, pool price %d, local %v)",
					step, sp.Kind, sp.From, sp.Nonce, sp.Price, sp.Gas, sp.Value, sp.Data, sp.Net, want, head.truth[s.addrs[sp.From]].nonce, head.truth[s.addrs[sp.From]].bal, head.block.GasLimit(), s.gp(), local))
				return errs
			}
			if sp.Res != want {
				s.deviation(fmt.Sprintf("step %d: %s tx (account %d nonce %d price %d gas %d value %d) answered %q, admission rules say %q", step, sp.Kind, sp.From, sp.Nonce, sp.Price, sp.Gas, sp.Value, sp.Res, want))
			}
		} else {
			switch sp.Res {
			case "ok", "replace-underpriced":
			case "underpriced":
				if !full || local {
					s.deviation(fmt.Sprintf("step %d: admissible %s tx (account %d nonce %d price %d) rejected as underpriced although the pool held %d+%d of %d and local=%v",
						step, sp.Kind, sp.From, sp.Nonce, sp.Price, np, nq, s.cfg.GlobalSlots+s.cfg.GlobalQueue, local))
				}
				s.feat("full-underpriced")
			default:
				s.deviation(fmt.Sprintf("step %d: admissible %s tx (account %d nonce %d price %d gas %d value %d) answered %q",
					step, sp.Kind, sp.From, sp.Nonce, sp.Price, sp.Gas, sp.Value, sp.Res))
			}
		}
	}
	return errs
}

// deviation records a verdict that differs from the documented admission / replacement rules
// without contradicting the property statement (which is about the views): reported, not judged.
func (s *seqDriver) deviation(msg string) {
	s.c.Count("obs_verdict_deviation", 1)
	if s.ndev < 3 {
		s.c.Note("verdict deviation (not a violation): " + msg)
	}
	s.ndev++
}

func (s *seqDriver) how() string {
	return []string{"remote", "remote", "remote-sync", "remote-sync", "local"}[s.r.Intn(5)]
}

func (s *seqDriver) opSubmit(step int) {
	n := 1 + s.r.Intn(4)
	if s.r.Intn(8) == 0 {
		n = 6 + s.r.Intn(10) // a burst: fills the small pools
	}
	next := map[int]uint64{}
	var specs []*txSpec
	var txs []*types.Transaction
	for i := 0; i < n; i++ {
		sp := s.genSpec(next)
		if sp.Kind == "dup" {
			// resubmit something the harness created earlier (pooled, mined, dropped or rejected)
			s.mu.Lock()
			var old *types.Transaction
			if len(s.order) > 0 {
				old = s.known[s.order[s.r.Intn(len(s.order))]]
			}
			s.mu.Unlock()
			if old == nil {
				continue
			}
			from, err := types.Sender(s.sig, old)
			if err != nil {
				continue // a wrong-network transaction
			}
			sp = &txSpec{From: s.idx[from], Nonce: old.Nonce(), Price: old.GasPrice().Int64(), Gas: old.Gas(), Value: old.Value().Int64(),
				To: s.idx[*old.To()], Data: len(old.Data()), Kind: "dup", Hash: fmt.Sprintf("%x", old.Hash().Bytes()[:4])}
			if s.pool.Get(old.Hash()) != nil && i == 0 {
				sp.Kind = "dup-known"
			}
			specs = append(specs, sp)
			txs = append(txs, old)
			s.feat("dup")
			continue
		}
		specs = append(specs, sp)
		txs = append(txs, s.mk(sp))
		s.feat("k-" + sp.Kind)
	}
	if len(txs) == 0 {
		return
	}
	how := s.how()
	s.c.Count("op_submit_"+how, 1)
	errs := s.submit(step, how, specs, txs)
	if s.isBad() {
		return
	}
	v := s.checkQuiescent(fmt.Sprintf("step %d after add-%s", step, how), checkOpts{afterRun: true})
	if v == nil {
		return
	}
	for i, sp := range specs {
		_, pooled := v.where[txs[i].Hash()]
		if errs[i] != nil && sp.Res != "known" && pooled && !hashAcceptedElsewhere(txs, errs, i) {
			s.violation("rejected-tx-pooled", fmt.Sprintf("step %d: tx %s was rejected (%s) but is in the pool", step, sp.Hash, sp.Res))
			return
		}
		if errs[i] == nil && !pooled {
			s.c.Count("accepted_then_dropped", 1) // truncation / replacement inside the batch
			s.feat("accepted-then-dropped")
		}
	}
	s.absSig(v)
}

// hashAcceptedElsewhere: the same transaction object may occur twice in a batch (dup).
func hashAcceptedElsewhere(txs []*types.Transaction, errs []error, i int) bool {
	for j := range txs {
		if j != i && errs[j] == nil && txs[j].Hash() == txs[i].Hash() {
			return true
		}
	}
	return false
}

func (s *seqDriver) absSig(v *view) {
	s.c.Sig(fmt.Sprintf("abs p%d q%d ap%d aq%d L%d", bucket(v.np), bucket(v.nq), bucket(len(v.pend)), bucket(len(v.queued)), len(s.pool.Locals())))
}

// opReplace resubmits an occupied (account, nonce) slot with a price at the bump boundary and
// compares every view for the replaced and the replacing hash immediately afterwards.
func (s *seqDriver) opReplace(step int) {
	pend, queued := s.pool.Content()
	type slot struct {
		tx   *types.Transaction
		half string
	}
	var slots []slot
	for _, a := range s.addrs { // deterministic order
		for _, tx := range pend[a] {
			slots = append(slots, slot{tx, "p"})
		}
		for _, tx := range queued[a] {
			slots = append(slots, slot{tx, "q"})
		}
	}
	if len(slots) == 0 {
		s.opSubmit(step)
		return
	}
	sl := slots[s.r.Intn(len(slots))]
	old := sl.tx
	from, _ := types.Sender(s.sig, old)
	oldP := old.GasPrice().Int64()
	thr := oldP * (100 + int64(s.cfg.PriceBump)) / 100 // the documented minimum: old price + PriceBump percent
	var p int64
	switch s.r.Intn(7) {
	case 0:
		p = thr - 1
	case 1, 2:
		p = thr
	case 3:
		p = thr + 1
	case 4:
		p = oldP
	case 5:
		p = oldP + 1
	default:
		p = thr + int64(s.r.Intn(10))
	}
	if p < 1 {
		p = 1
	}
	sp := &txSpec{From: s.idx[from], Nonce: old.Nonce(), Price: p, Gas: old.Gas(), Value: old.Value().Int64() + 1, To: s.r.Intn(len(s.addrs)), Kind: "replace"}
	tx := s.mk(sp)
	how := s.how()
	head := s.fc.headInfo()
	np, nq := s.pool.Stats()
	full := uint64(np+nq) >= s.cfg.GlobalSlots+s.cfg.GlobalQueue
	local := (how == "local" && !s.cfg.NoLocals) || s.isLocal(s.pool.Locals(), from)
	admissible := s.expectValidate(sp, tx, local, head, s.gp()) == ""
	s.c.Count("op_replace", 1)
	errs := s.submit(step, how, []*txSpec{sp}, []*types.Transaction{tx})
	if s.isBad() {
		return
	}
	shouldReplace := p > oldP && p >= thr
	if admissible && !full {
		// the slot is occupied and nothing can be evicted first: the documented verdict is determined
		s.c.Count("replace_verdicts_checked", 1)
		if p == thr || p == thr-1 {
			s.c.Count("replace_at_boundary", 1)
		}
		if (shouldReplace && errs[0] != nil) || (!shouldReplace && sp.Res != "replace-underpriced") {
			s.deviation(fmt.Sprintf("step %d: replacing account %d nonce %d price %d by price %d (bump %d%%, minimum %d) answered %q", step, sp.From, sp.Nonce, oldP, p, s.cfg.PriceBump, thr, sp.Res))
		}
	}
	// immediately afterwards: all views for both hashes. One slot cannot hold two transactions:
	// whatever the verdict, the loser must be gone from every view.
	pend, queued = s.pool.Content()
	built, _ := s.pool.Pending()
	st := s.pool.Status([]common.Hash{old.Hash(), tx.Hash()})
	gotOld, gotNew := s.pool.Get(old.Hash()), s.pool.Get(tx.Hash())
	find := func(m map[common.Address]types.Transactions, hash common.Hash) bool {
		for _, t := range m[from] {
			if t.Hash() == hash {
				return true
			}
		}
		return false
	}
	winner, loser, wi, li := old, tx, 0, 1
	if errs[0] == nil {
		winner, loser, wi, li = tx, old, 1, 0
		s.c.Count("replaced_ok", 1)
		s.feat("replaced-" + sl.half)
	} else {
		s.feat("replace-refused")
	}
	inP, inQ, inB := find(pend, winner.Hash()), find(queued, winner.Hash()), find(built, winner.Hash())
	lp, lq, lb := find(pend, loser.Hash()), find(queued, loser.Hash()), find(built, loser.Hash())
	msg := fmt.Sprintf("step %d: slot account %d nonce %d (%s) old %x price %d, new %x price %d answered %q: winner pending=%v queued=%v built=%v status=%d; loser pending=%v queued=%v built=%v status=%d; get(old,new)=%v",
		step, sp.From, sp.Nonce, sl.half, old.Hash().Bytes()[:4], oldP, tx.Hash().Bytes()[:4], p, sp.Res, inP, inQ, inB, st[wi], lp, lq, lb, st[li], [2]bool{gotOld != nil, gotNew != nil})
	s.c.Evals(1)
	if lp || lq || lb || st[li] != 0 || (li == 0 && gotOld != nil) || (li == 1 && gotNew != nil) {
		s.violation("replaced-tx-still-visible", msg)
		return
	}
	if inP != inB || (inP && inQ) || (inP && st[wi] != 2) || (inQ && st[wi] != 1) || (!inP && !inQ && (st[wi] != 0 || (wi == 0 && gotOld != nil) || (wi == 1 && gotNew != nil))) {
		s.violation("replacing-tx-views-disagree", msg)
		return
	}
	// with nothing to evict or truncate the winner keeps the slot's place
	if admissible && !full && uint64(np) <= s.cfg.GlobalSlots && uint64(nq) <= s.cfg.GlobalQueue {
		if !(inP || inQ) || (sl.half == "p" && !inP) {
			s.violation("replacement-lost-slot", msg)
			return
		}
	}
	s.checkQuiescent(fmt.Sprintf("step %d after replace", step), checkOpts{afterRun: true})
}

// ---- head changes ----

func (s *seqDriver) gasLimit(parent *blockInfo) uint64 {
	if s.r.Intn(10) == 0 {
		s.feat("gaslimit-change")
		return []uint64{1_000_000, 100_000, 40_000, 25_000}[s.r.Intn(4)]
	}
	return parent.block.GasLimit()
}

func (s *seqDriver) adjust(parent *blockInfo) map[common.Address]*big.Int {
	if s.r.Intn(4) != 0 {
		return nil
	}
	a := s.addrs[s.r.Intn(len(s.addrs))]
	var b int64
	switch s.r.Intn(3) {
	case 0:
		b = int64(s.r.Intn(3)) * execGas * s.gp()
	case 1:
		b = int64(execGas) * int64(1+s.r.Intn(80))
	default:
		b = 1_000_000_000_000
	}
	s.feat("balance-adjust")
	return map[common.Address]*big.Int{a: big.NewInt(b)}
}

// pendingPick takes a random prefix of every account's pending list (what a miner could pack).
func (s *seqDriver) pendingPick() []*types.Transaction {
	pend, _ := s.pool.Pending()
	var out []*types.Transaction
	for _, a := range s.addrs {
		txs := pend[a]
		if len(txs) == 0 || s.r.Intn(4) == 0 {
			continue
		}
		k := 1 + s.r.Intn(len(txs))
		out = append(out, txs[:k]...)
	}
	return out
}

// foreignTxs creates transactions at the accounts' chain nonces that never go through the pool.
func (s *seqDriver) foreignTxs(at *blockInfo, max int) []*types.Transaction {
	var out []*types.Transaction
	for i := 0; i < max; i++ {
		from := s.r.Intn(len(s.addrs))
		n := at.truth[s.addrs[from]].nonce
		for _, tx := range out {
			if f, _ := types.Sender(s.sig, tx); f == s.addrs[from] {
				n++
			}
		}
		sp := s.baseSpec(from, n)
		sp.Kind = "foreign"
		out = append(out, s.mk(sp))
	}
	return out
}

func (s *seqDriver) mustBuild(parent *blockInfo, cand []*types.Transaction, adjust map[common.Address]*big.Int, gasLimit uint64) *blockInfo {
	bi, err := s.fc.build(parent, cand, adjust, gasLimit)
	if err == nil {
		err = s.fc.selfCheck(bi)
	}
	if err != nil {
		panic("c20 harness chain: " + err.Error())
	}
	s.c.Count("blocks_built", 1)
	s.c.Count("block_txs", len(bi.block.Transactions()))
	return bi
}

func blockDesc(bi *blockInfo) string {
	return fmt.Sprintf("#%d %x (%d txs, gaslimit %d)", bi.block.NumberU64(), bi.block.Hash().Bytes()[:3], len(bi.block.Transactions()), bi.block.GasLimit())
}

func (s *seqDriver) opMine(step int) {
	head := s.fc.headInfo()
	cand := s.pendingPick()
	bi := s.mustBuild(head, cand, s.adjust(head), s.gasLimit(head))
	if len(bi.block.Transactions()) != len(cand) && len(cand) > 0 {
		s.c.Count("obs_pending_not_executable_in_order", len(cand)-len(bi.block.Transactions())) // cumulative cost: allowed
	}
	s.log(opRec{Op: "mine", Note: blockDesc(bi), Txs: specsOf(s.hist, bi.block.Transactions())})
	s.c.Count("op_mine", 1)
	s.fc.setHead(bi)
	if s.conc {
		return
	}
	s.fc.quiesce(s.pool)
	if v := s.checkQuiescent(fmt.Sprintf("step %d after mine", step), checkOpts{afterRun: true}); v != nil {
		s.absSig(v)
	}
}

func (s *seqDriver) opForeign(step int) {
	head := s.fc.headInfo()
	bi := s.mustBuild(head, s.foreignTxs(head, 1+s.r.Intn(3)), s.adjust(head), s.gasLimit(head))
	s.log(opRec{Op: "foreign-block", Note: blockDesc(bi), Txs: specsOf(s.hist, bi.block.Transactions())})
	s.c.Count("op_foreign", 1)
	s.feat("foreign-block")
	s.fc.setHead(bi)
	if s.conc {
		return
	}
	s.fc.quiesce(s.pool)
	s.checkQuiescent(fmt.Sprintf("step %d after foreign block", step), checkOpts{afterRun: true})
}

func specsOf(h *hist, txs types.Transactions) []*txSpec {
	var out []*txSpec
	for _, tx := range txs {
		from, _ := types.Sender(h.sig, tx)
		out = append(out, &txSpec{From: h.idx[from], Nonce: tx.Nonce(), Price: tx.GasPrice().Int64(), Gas: tx.Gas(), Value: tx.Value().Int64(),
			To: h.idx[*tx.To()], Hash: fmt.Sprintf("%x", tx.Hash().Bytes()[:4]), Kind: "in-block"})
	}
	return out
}

// branchTxs lists the transactions of the blocks from (excluding) base up to tip.
func (s *seqDriver) branchTxs(tip, base *blockInfo) []*types.Transaction {
	var out []*types.Transaction
	for bi := tip; bi.block.Hash() != base.block.Hash(); bi = s.fc.info(bi.block.ParentHash()) {
		out = append(out, bi.block.Transactions()...)
	}
	return out
}

func (s *seqDriver) commonAncestor(a, b *blockInfo) *blockInfo {
	for a.block.NumberU64() > b.block.NumberU64() {
		a = s.fc.info(a.block.ParentHash())
	}
	for b.block.NumberU64() > a.block.NumberU64() {
		b = s.fc.info(b.block.ParentHash())
	}
	for a.block.Hash() != b.block.Hash() {
		a, b = s.fc.info(a.block.ParentHash()), s.fc.info(b.block.ParentHash())
	}
	return a
}

// buildBranch grows a competing branch of the given length on base. Its blocks re-include a random
// part of the abandoned transactions, add foreign ones, or stay empty.
func (s *seqDriver) buildBranch(base *blockInfo, length int, abandoned []*types.Transaction) *blockInfo {
	tip := base
	for i := 0; i < length; i++ {
		var cand []*types.Transaction
		switch s.r.Intn(4) {
		case 0: // empty block
		case 1:
			cand = s.foreignTxs(tip, 1+s.r.Intn(2))
			s.feat("reorg-foreign")
		default:
			// abandoned transactions in their original order, each kept with probability 1/2
			for j := len(abandoned) - 1; j >= 0; j-- {
				if s.r.Intn(2) == 0 {
					cand = append(cand, abandoned[j])
				}
			}
			sort.SliceStable(cand, func(x, y int) bool { return cand[x].Nonce() < cand[y].Nonce() })
			if len(cand) > 0 {
				s.feat("reorg-reinclude")
			}
		}
		tip = s.mustBuild(tip, cand, s.adjust(tip), s.gasLimit(tip))
	}
	return tip
}

type reorgExpect struct {
	tx       *types.Transaction
	from     int
	pending  bool // must be pending again (otherwise: pooled again)
	excuse   string
	reinject bool
}

// reorgExpectations derives, from the two branches alone, which abandoned transactions the pool
// must hold again after switching from old to new.
func (s *seqDriver) reorgExpectations(old, new *blockInfo) []reorgExpect {
	base := s.commonAncestor(old, new)
	included := map[common.Hash]bool{}
	for _, tx := range s.branchTxs(new, base) {
		included[tx.Hash()] = true
	}
	per := map[int][]*types.Transaction{}
	for _, tx := range s.branchTxs(old, base) {
		if !included[tx.Hash()] {
			from, _ := types.Sender(s.sig, tx)
			per[s.idx[from]] = append(per[s.idx[from]], tx)
		}
	}
	locals := s.pool.Locals()
	var out []reorgExpect
	for i := range s.addrs {
		txs := per[i]
		if len(txs) == 0 {
			continue
		}
		sort.Slice(txs, func(x, y int) bool { return txs[x].Nonce() < txs[y].Nonce() })
		t := new.truth[s.addrs[i]]
		chain := true // every nonce from the account nonce up to here is re-injectable
		next := t.nonce
		for _, tx := range txs {
			e := reorgExpect{tx: tx, from: i, reinject: true}
			switch {
			case tx.Nonce() < t.nonce:
				e.excuse = "stale"
			case tx.Cost().Cmp(t.bal) > 0:
				e.excuse = "unaffordable"
			case tx.Gas() > new.block.GasLimit():
				e.excuse = "over-gaslimit"
			case tx.GasPrice().Int64() < s.gp() && !s.isLocal(locals, s.addrs[i]):
				e.excuse = "below-pool-price"
			}
			if e.excuse == "" && chain && tx.Nonce() == next {
				e.pending = true
				next++
			} else if tx.Nonce() >= t.nonce {
				chain = false
			}
			out = append(out, e)
		}
	}
	return out
}

func (s *seqDriver) checkReorgExpectations(step int, exp []reorgExpect, countBefore int, v *view, what string) {
	if v == nil {
		return
	}
	cfg := s.cfg
	n := 0
	for _, e := range exp {
		if e.excuse == "" {
			n++
		}
	}
	// only when no limit can have interfered: nothing evicted at admission, the queue not truncated
	// (truncateQueue and the per-account cap stop exactly at their limits)
	if uint64(countBefore+len(exp)) >= cfg.GlobalSlots+cfg.GlobalQueue || uint64(v.nq) >= cfg.GlobalQueue {
		s.c.Count("reorg_expectations_skipped_limits", n)
		return
	}
	// truncatePending can only have run if more than GlobalSlots transactions were pending at once;
	// it may overshoot below GlobalSlots but never cuts an account below AccountSlots
	mayTruncate := uint64(countBefore+len(exp)) > cfg.GlobalSlots
	locals := s.pool.Locals()
	for _, e := range exp {
		if e.excuse != "" {
			s.c.Count("reorg_excused_"+e.excuse, 1)
			continue
		}
		a := s.addrs[e.from]
		if !s.isLocal(locals, a) && (uint64(len(v.queued[a])) >= cfg.AccountQueue || (mayTruncate && uint64(len(v.pend[a])) >= cfg.AccountSlots)) {
			s.c.Count("reorg_expectations_skipped_limits", 1)
			continue
		}
		half, pooled := v.where[e.tx.Hash()]
		s.c.Evals(1)
		if !pooled {
			s.violation("reorg-tx-not-repooled", fmt.Sprintf("step %d %s: tx %x (account %d nonce %d price %v) was mined only in the abandoned branch, is valid at the new head (nonce %d balance %v) but is not in the pool",
				step, what, e.tx.Hash().Bytes()[:4], e.from, e.tx.Nonce(), e.tx.GasPrice(), s.fc.headInfo().truth[a].nonce, s.fc.headInfo().truth[a].bal))
			return
		}
		s.c.Count("reorg_repooled_checked", 1)
		if e.pending {
			if half != "p" {
				s.violation("reorg-tx-not-pending-again", fmt.Sprintf("step %d %s: tx %x (account %d nonce %d) and all its predecessors from the account nonce %d were re-injected, but it is queued (pending nonces %v, queued %v)",
					step, what, e.tx.Hash().Bytes()[:4], e.from, e.tx.Nonce(), s.fc.headInfo().truth[a].nonce, nonces(v.pend[a]), nonces(v.queued[a])))
				return
			}
			s.c.Count("reorg_pending_again_checked", 1)
		}
	}
}

func (s *seqDriver) opReorg(step int) {
	old := s.fc.headInfo()
	if old.block.NumberU64() == 0 {
		s.opMine(step)
		return
	}
	depth := 1 + s.r.Intn(3)
	base := s.fc.ancestor(old, depth)
	depth = int(old.block.NumberU64() - base.block.NumberU64())
	abandoned := s.branchTxs(old, base)
	tip := s.buildBranch(base, depth+s.r.Intn(2), abandoned)
	exp := s.reorgExpectations(old, tip)
	np, nq := s.pool.Stats()
	s.log(opRec{Op: "reorg", Note: fmt.Sprintf("from %s back to #%d, new head %s", blockDesc(old), base.block.NumberU64(), blockDesc(tip)), Txs: specsOf(s.hist, s.branchTxs(tip, base))})
	s.c.Count("op_reorg", 1)
	s.c.Count("reorg_abandoned_txs", len(exp))
	s.feat(fmt.Sprintf("reorg-depth%d", depth))
	nl, bl := s.fc.headInfo().truth, tip.truth
	for _, a := range s.addrs {
		if bl[a].nonce < nl[a].nonce {
			s.feat("reorg-lowers-nonce")
			s.c.Count("reorg_nonce_lowered", 1)
		}
		if bl[a].bal.Cmp(nl[a].bal) < 0 {
			s.feat("reorg-lowers-balance")
		}
	}
	s.fc.setHead(tip)
	if s.conc {
		return
	}
	s.fc.quiesce(s.pool)
	v := s.checkQuiescent(fmt.Sprintf("step %d after reorg", step), checkOpts{afterRun: true})
	s.checkReorgExpectations(step, exp, np+nq, v, "reorg")
	if v != nil {
		s.absSig(v)
	}
}

// opBatched fires several head events (and asynchronous submissions) back to back without waiting
// for the pool, then waits once. The scheduler may merge waiting resets into one from the oldest
// old head to the newest new head. In the gated variant the first reset is held up inside the
// harness chain's StateAt until the pool's event loop has handed over all later events, so that
// events 2..k are merged for certain.
func (s *seqDriver) opBatched(step int) {
	start := s.fc.headInfo()
	gated := !s.conc && s.r.Intn(2) == 0
	k := 2 + s.r.Intn(3)
	if gated {
		k = 3 + s.r.Intn(2)
	}
	var note []string
	var heads []*blockInfo
	forkAt := map[int]bool{}
	// plan first (needs pool reads), fire afterwards in one burst
	cand := s.pendingPick()
	tip := start
	for i := 0; i < k; i++ {
		x := s.r.Intn(10)
		if gated && i == 0 && s.r.Intn(10) < 7 {
			x = 0 // the held event mines what the pool offers ...
		}
		if gated && i == 1 && s.r.Intn(10) < 7 {
			x = 9 // ... and the first merged event switches away from it
		}
		switch {
		case x < 4: // next block takes a part of what was pending at the start
			cut := 0
			if len(cand) > 0 {
				cut = 1 + s.r.Intn(len(cand))
			}
			tip = s.mustBuild(tip, cand[:cut], s.adjust(tip), s.gasLimit(tip))
			cand = cand[cut:]
			note = append(note, "mine "+blockDesc(tip))
		case x < 6:
			tip = s.mustBuild(tip, s.foreignTxs(tip, 1+s.r.Intn(2)), nil, s.gasLimit(tip))
			note = append(note, "foreign "+blockDesc(tip))
		default: // switch to a sibling branch of the current tip
			if tip.block.NumberU64() == 0 {
				tip = s.mustBuild(tip, nil, nil, s.gasLimit(tip))
				note = append(note, "empty "+blockDesc(tip))
				break
			}
			d := 1 + s.r.Intn(2)
			base := s.fc.ancestor(tip, d)
			d = int(tip.block.NumberU64() - base.block.NumberU64())
			tip = s.buildBranch(base, d+s.r.Intn(2), s.branchTxs(tip, base))
			note = append(note, fmt.Sprintf("fork@#%d %s", base.block.NumberU64(), blockDesc(tip)))
			s.feat("batched-fork")
			forkAt[i] = true
		}
		heads = append(heads, tip)
	}
	var specs []*txSpec
	var txs []*types.Transaction
	if !gated && s.r.Intn(2) == 0 {
		next := map[int]uint64{}
		for i := 0; i < 1+s.r.Intn(3); i++ {
			sp := s.genSpec(next)
			if sp.Kind == "dup" {
				continue
			}
			specs = append(specs, sp)
			txs = append(txs, s.mk(sp))
		}
	}
	s.c.Count("op_batched", 1)
	s.c.Count("batched_head_events", len(heads))
	s.feat("batched")
	var before *view
	var locals []common.Address
	if !s.conc {
		pend, queued := s.pool.Content()
		before = &view{pend: pend, queued: queued}
		for _, t := range pend {
			before.np += len(t)
		}
		for _, t := range queued {
			before.nq += len(t)
		}
		locals = s.pool.Locals()
	}
	resets0 := s.fc.poolResets()
	if gated {
		note = append([]string{"GATED: first reset held until the others were queued"}, note...)
		entered := s.fc.hold()
		s.fc.setHead(heads[0])
		select {
		case <-entered:
		case <-time.After(30 * time.Second):
			s.fc.release()
			panic("c20 harness: the pool did not ask for the state of the first batched head")
		}
		for _, hd := range heads[1:] {
			s.fc.setHead(hd)
		}
		// every later reset request is now waiting in the scheduler - unless one of the pool's own
		// periodic ticks (statistics, eviction: they take pool.mu, which the held reset owns) fell
		// into the window: then the gate is opened and the batch is judged like an ungated one
		if s.fc.drainHeadEventsWithin(3 * time.Second) {
			s.fc.release()
			s.c.Count("batched_gated", 1)
			s.feat("batched-gated")
		} else {
			s.fc.release()
			s.fc.drainHeadEvents()
			gated = false
			note = append(note, "gate abandoned: the pool loop was busy with a periodic tick")
			s.c.Count("batched_gate_abandoned", 1)
		}
	} else {
		at := -1
		if len(txs) > 0 {
			at = s.r.Intn(len(heads))
		}
		for i, hd := range heads {
			s.fc.setHead(hd)
			if i == at {
				errs := s.pool.AddRemotes(txs) // verdict depends on which head the pool has reached: not judged
				for j, sp := range specs {
					sp.Res = errName(errs[j])
				}
				s.feat("batched-with-submission")
			}
		}
	}
	s.log(opRec{Op: "batched-heads", Arg: note, Txs: specs}) // after the verdicts have been filled in
	if s.conc {
		return
	}
	s.fc.quiesce(s.pool)
	resets := int(s.fc.poolResets() - resets0)
	if resets < len(heads) {
		s.c.Count("batched_merged_batches", 1)
		s.c.Count("batched_events_merged_away", len(heads)-resets)
		s.feat("batched-merged")
	}
	if gated {
		if resets != 2 {
			s.c.Count("batched_gated_unexpected_reset_count", 1)
		}
		// the merged segment is heads[1:], running from old head heads[0]
		if forkAt[1] && len(s.branchTxs(heads[0], s.commonAncestor(heads[0], heads[1]))) > 0 {
			s.c.Count("batched_merged_forkswitch_first", 1)
			s.feat("batched-merged-forkswitch-first")
		}
	}
	v := s.checkQuiescent(fmt.Sprintf("step %d after %d batched head events", step, len(heads)), checkOpts{afterRun: true})
	if v != nil {
		s.checkBatchedReinjection(step, start, heads, txs, before, locals, v, gated)
	}
	if v != nil && !s.isBad() {
		s.absSig(v)
	}
}

// checkBatchedReinjection: whatever way the scheduler cut the head events h1..hk into resets
// (each reset runs from the old head of its first event to the new head of its last one), a
// transaction t of the chain that was canonical before the batch which is not in the final chain
// must be pooled at the end, provided that at EVERY head from the first one whose chain lacks t
// onwards t is either in that head's chain or admissible there (nonce, balance, gas limit, price):
// the reset that first loses t re-injects it against that reset's new head, and every later reset
// keeps an admissible transaction. Heads where t would be refused or filtered out (a legitimate
// difference between merged and separate resets: a merged reset never sees that head) excuse t.
// Limits are excluded by a bound on everything that can be in the pool at any moment of the batch.
func (s *seqDriver) checkBatchedReinjection(step int, start *blockInfo, heads []*blockInfo, submitted []*types.Transaction, before *view, locals []common.Address, v *view, gated bool) {
	cfg := s.cfg
	base := start
	for _, hd := range heads {
		base = s.commonAncestor(base, hd)
	}
	sets := make([]map[common.Hash]bool, len(heads))
	union := map[common.Hash]*types.Transaction{}
	for j, hd := range heads {
		sets[j] = map[common.Hash]bool{}
		for _, tx := range s.branchTxs(hd, base) {
			sets[j][tx.Hash()] = true
			union[tx.Hash()] = tx
		}
	}
	startTxs := s.branchTxs(start, base)
	for _, tx := range startTxs {
		union[tx.Hash()] = tx
	}
	// upper bounds on the pool content at any moment of the batch, in total and per account
	total := before.np + before.nq + len(union) + len(submitted)
	per := map[common.Address]int{}
	for a, t := range before.pend {
		per[a] += len(t)
	}
	for a, t := range before.queued {
		per[a] += len(t)
	}
	subSlot := map[string]bool{}
	for _, tx := range submitted {
		if from, err := types.Sender(s.sig, tx); err == nil {
			per[from]++
			subSlot[fmt.Sprintf("%x/%d", from, tx.Nonce())] = true
		}
	}
	for _, tx := range union {
		from, _ := types.Sender(s.sig, tx)
		per[from]++
	}
	last := len(heads) - 1
	gp := s.gp()
	for _, tx := range startTxs {
		if sets[last][tx.Hash()] {
			continue
		}
		from, _ := types.Sender(s.sig, tx)
		first := 0
		for sets[first][tx.Hash()] {
			first++
		}
		excuse := ""
		for j := first; j <= last && excuse == ""; j++ {
			if sets[j][tx.Hash()] {
				continue
			}
			t := heads[j].truth[from]
			switch {
			case tx.Nonce() < t.nonce:
				excuse = "stale"
			case tx.Cost().Cmp(t.bal) > 0:
				excuse = "unaffordable"
			case tx.Gas() > heads[j].block.GasLimit():
				excuse = "over-gaslimit"
			case tx.GasPrice().Int64() < gp && !s.isLocal(locals, from):
				excuse = "below-pool-price"
			}
			if excuse != "" && j < last {
				excuse += "-at-intermediate-head"
			}
		}
		if excuse != "" {
			s.c.Count("batched_excused_"+excuse, 1)
			continue
		}
		if uint64(total) >= cfg.GlobalSlots+cfg.GlobalQueue || uint64(total) > cfg.GlobalSlots || uint64(total) > cfg.GlobalQueue ||
			(!s.isLocal(locals, from) && uint64(per[from]) > cfg.AccountQueue) {
			s.c.Count("batched_expectations_skipped_limits", 1)
			continue
		}
		s.c.Evals(1)
		s.c.Count("batched_repooled_checked", 1)
		if gated && first >= 1 {
			s.c.Count("batched_repooled_checked_merged_segment", 1)
		}
		if _, pooled := v.where[tx.Hash()]; pooled || subSlot[fmt.Sprintf("%x/%d", from, tx.Nonce())] {
			continue
		}
		how := "ungated"
		if gated {
			how = fmt.Sprintf("gated: reset 1 = event 1, reset 2 = events 2..%d merged", len(heads))
		}
		s.violation("batched-reorg-tx-not-repooled", fmt.Sprintf("step %d, %d batched head events (%s): tx %x (account %d nonce %d price %v) was in the chain canonical before the batch, left it with event %d, is in no later canonical chain it could have stayed in, is admissible at every head since (final head: nonce %d balance %v gas limit %d) and no limit can have displaced it (at most %d transactions around), but it is not in the pool",
			step, len(heads), how, tx.Hash().Bytes()[:4], s.idx[from], tx.Nonce(), tx.GasPrice(), first+1, heads[last].truth[from].nonce, heads[last].truth[from].bal, heads[last].block.GasLimit(), total))
		return
	}
}

func (s *seqDriver) opSetGasPrice(step int) {
	p := []int64{1, 1, 2, 3, 5, 8, 13}[s.r.Intn(7)]
	if p < int64(s.cfg.PriceLimit) && s.r.Intn(2) == 0 {
		p = int64(s.cfg.PriceLimit)
	}
	s.log(opRec{Op: "set-gas-price", Arg: p})
	s.c.Count("op_setgasprice", 1)
	s.feat("setgasprice")
	s.pool.SetGasPrice(big.NewInt(p))
	s.setGP(p)
	if got := s.pool.GasPrice(); got.Int64() != p {
		s.violation("gas-price-not-set", fmt.Sprintf("step %d: GasPrice() = %v after SetGasPrice(%d)", step, got, p))
		return
	}
	if s.conc {
		return
	}
	// synchronous: judged as left by the call, without any promotion run in between
	v := s.checkQuiescent(fmt.Sprintf("step %d after SetGasPrice(%d)", step, p), checkOpts{afterRun: false})
	if v == nil {
		return
	}
	s.c.Evals(1)
}
