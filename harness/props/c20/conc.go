package c20

import (
	"fmt"
	"math/rand"
	"runtime"
	"sync"
	"sync/atomic"
	"time"

	"verif/kit"

	"github.com/youchainhq/go-youchain/common"
	"github.com/youchainhq/go-youchain/core"
	"github.com/youchainhq/go-youchain/core/types"
)

func init() { kit.Register("C20.conc", runConc) }

// runConc: adders, one head-changer, readers and samplers hammer one pool concurrently (meant
// for the race build; it also runs plain). While running only conditions that hold whenever the
// pool lock is free are judged (atomic Content() snapshots, the index walk under pool.mu); when
// every driver has finished its fixed amount of work the full quiescent judgement is applied.
func runConc(c *kit.Ctx) {
	// short tickers so that the eviction and stats-report branches of the event loop take part
	core.VerifSetIntervals(3*time.Millisecond, 5*time.Millisecond)
	n := c.N(60, 2400)
	for i := 0; i < n; i++ {
		id := fmt.Sprintf("conc-%d", i)
		if !c.Mine(i, id) {
			continue
		}
		r := c.Rand(id)
		nacc := 3 + r.Intn(6)
		cfg := genCfg(r, nacc)
		if r.Intn(3) == 0 {
			cfg.LifetimeMs = 1 + r.Intn(15)
		}
		nadders := 2 + r.Intn(4)
		nreaders := 1 + r.Intn(3)
		addOps := 120 + r.Intn(120)
		headOps := 50 + r.Intn(70)
		c.Begin(id, map[string]interface{}{"accounts": nacc, "cfg": cfg, "adders": nadders, "readers": nreaders, "add_ops": addOps, "head_ops": headOps})
		h, err := newHist(c, r, nacc, cfg)
		if err != nil {
			c.EndInconclusive("harness chain setup failed: " + err.Error())
			continue
		}
		concCase(c, h, r, nadders, nreaders, addOps, headOps)
		h.close()
		for f := range h.feats {
			c.Count("feat_"+f, 1)
		}
		c.Count("conc_runs", 1)
		c.End(fmt.Sprintf("conc loose%v nolocals%v evict%v adders%d readers%d as%d gs%d aq%d gq%d %v", cfg.Loose, cfg.NoLocals, cfg.LifetimeMs > 0,
			nadders, nreaders, cfg.AccountSlots, cfg.GlobalSlots, cfg.AccountQueue, cfg.GlobalQueue, sortedFeats(h.feats)))
	}
}

func yield(r *rand.Rand) {
	if r.Intn(3) == 0 {
		for k := r.Intn(6); k >= 0; k-- {
			runtime.Gosched()
		}
	}
}

func concCase(c *kit.Ctx, h *hist, r *rand.Rand, nadders, nreaders, addOps, headOps int) {
	pool := h.pool
	var stop int32
	var work, side sync.WaitGroup

	// subscriber of the pool's announcement feed (as the protocol manager and the miner are)
	evCh := make(chan core.NewTxsEvent, 64)
	sub := pool.SubscribeNewTxsEvent(evCh)
	side.Add(1)
	go func() {
		defer side.Done()
		for {
			select {
			case ev := <-evCh:
				c.Count("conc_announced", len(ev.Txs))
			case <-sub.Err():
				return
			}
		}
	}()

	// adders
	for a := 0; a < nadders; a++ {
		rr := rand.New(rand.NewSource(r.Int63()))
		work.Add(1)
		go func(a int) {
			defer work.Done()
			d := &seqDriver{hist: h, r: rr, conc: true}
			for i := 0; i < addOps && !h.isBad(); i++ {
				d.concSubmit()
				yield(rr)
			}
		}(a)
	}
	// head changer
	{
		rr := rand.New(rand.NewSource(r.Int63()))
		work.Add(1)
		go func() {
			defer work.Done()
			d := &seqDriver{hist: h, r: rr, conc: true}
			for i := 0; i < headOps && !h.isBad(); i++ {
				switch x := rr.Intn(100); {
				case x < 40:
					d.opMine(i)
				case x < 50:
					d.opForeign(i)
				case x < 75:
					d.opReorg(i)
				case x < 90:
					d.opBatched(i)
				default:
					d.opSetGasPrice(i)
				}
				c.Count("conc_head_changes", 1)
				yield(rr)
				if rr.Intn(4) == 0 {
					// let the pool catch up now and then, otherwise every reset is a merged one
					h.fc.drainHeadEvents()
				}
			}
		}()
	}
	// readers: every exported view, as RPC / miner / protocol manager goroutines call them
	for a := 0; a < nreaders; a++ {
		rr := rand.New(rand.NewSource(r.Int63()))
		side.Add(1)
		go func() {
			defer side.Done()
			for atomic.LoadInt32(&stop) == 0 && !h.isBad() {
				switch rr.Intn(8) {
				case 0:
					built, _ := pool.Pending()
					for a, txs := range built {
						if class, gap := h.gapClass(txs); gap {
							h.violation(class, fmt.Sprintf("concurrent Pending(): account %d nonces %v are not gap-free", h.idx[a], nonces(txs)))
							return
						}
					}
				case 1:
					pool.Stats()
				case 2:
					pool.Nonce(h.addrs[rr.Intn(len(h.addrs))])
				case 3, 4:
					h.mu.Lock()
					var hs []common.Hash
					for i := 0; i < 4 && len(h.order) > 0; i++ {
						hs = append(hs, h.order[rr.Intn(len(h.order))])
					}
					h.mu.Unlock()
					st := pool.Status(hs)
					for i, hash := range hs {
						if tx := pool.Get(hash); tx != nil && tx.Hash() != hash {
							h.violation("get-mismatch", fmt.Sprintf("concurrent Get(%x) returned tx %x (status %d)", hash.Bytes()[:4], tx.Hash().Bytes()[:4], st[i]))
							return
						}
					}
				case 5:
					pool.Locals()
				case 6:
					pool.GasPrice()
				default:
					pool.Content()
				}
				c.Count("conc_reads", 1)
				yield(rr)
			}
		}()
	}
	// samplers: lock-free-point conditions while everything is running
	for a := 0; a < 2; a++ {
		rr := rand.New(rand.NewSource(r.Int63()))
		side.Add(1)
		go func(a int) {
			defer side.Done()
			for atomic.LoadInt32(&stop) == 0 && !h.isBad() {
				if a == 0 {
					pend, queued := pool.Content()
					if v := h.checkSnapshot(pend, queued, "concurrent snapshot"); v == nil {
						return
					} else if v.np+v.nq > 0 {
						c.Count("conc_snapshots_nonempty", 1)
						c.Sig(fmt.Sprintf("abs p%d q%d ap%d aq%d", bucket(v.np), bucket(v.nq), bucket(len(v.pend)), bucket(len(v.queued))))
					}
					c.Count("conc_snapshots", 1)
				} else {
					if err := pool.VerifCheckInternals(); err != nil {
						h.violation(h.internalsClass(err), "while running: "+err.Error())
						return
					}
					c.Count("conc_internal_walks", 1)
					c.Evals(1)
				}
				yield(rr)
				if rr.Intn(2) == 0 {
					time.Sleep(time.Duration(rr.Intn(200)) * time.Microsecond)
				}
			}
		}(a)
	}

	work.Wait()
	atomic.StoreInt32(&stop, 1)
	if h.isBad() {
		sub.Unsubscribe()
		side.Wait()
		return
	}
	h.fc.quiesce(pool)
	if h.cfg.LifetimeMs > 0 {
		// the eviction ticker keeps removing queued transactions of non-local accounts: wait for its
		// fixpoint so that the multi-call judgement below looks at a pool that no longer changes
		h.feat("eviction")
		if !waitEvicted(h) {
			sub.Unsubscribe()
			side.Wait()
			c.Count("conc_eviction_fixpoint_missed", 1)
			return
		}
	}
	// the readers and samplers have seen the stop flag or see it now; the quiescent judgement does
	// not depend on them (they only read)
	if v := h.checkQuiescent("after the concurrent phase", checkOpts{afterRun: true}); v != nil && h.cfg.LifetimeMs == 0 {
		h.settle("after the concurrent phase")
	}
	sub.Unsubscribe()
	side.Wait()
}

// waitEvicted polls until no non-local account has queued transactions (bounded).
func waitEvicted(h *hist) bool {
	for i := 0; i < 4000; i++ {
		_, queued := h.pool.Content()
		locals := h.pool.Locals()
		left := false
		for a := range queued {
			if !h.isLocal(locals, a) {
				left = true
			}
		}
		if !left {
			return true
		}
		time.Sleep(500 * time.Microsecond)
	}
	return false
}

// concSubmit: one submission batch from an adder goroutine. Nonces come from the pool's own view,
// which other goroutines change at the same time: collisions, replacements and stale nonces are
// part of the workload. Only head-independent verdicts are judged here.
func (s *seqDriver) concSubmit() {
	n := 1 + s.r.Intn(3)
	next := map[int]uint64{}
	var specs []*txSpec
	var txs []*types.Transaction
	for i := 0; i < n; i++ {
		var sp *txSpec
		if s.r.Intn(6) == 0 {
			// replacement attempt at the bump boundary of something currently pooled
			pend, queued := s.pool.Content()
			var cands types.Transactions
			for _, a := range s.addrs {
				cands = append(cands, pend[a]...)
				cands = append(cands, queued[a]...)
			}
			if len(cands) > 0 {
				old := cands[s.r.Intn(len(cands))]
				from, _ := types.Sender(s.sig, old)
				thr := old.GasPrice().Int64() * (100 + int64(s.cfg.PriceBump)) / 100
				sp = &txSpec{From: s.idx[from], Nonce: old.Nonce(), Price: thr - 1 + int64(s.r.Intn(3)), Gas: old.Gas(), Value: old.Value().Int64() + 1,
					To: s.r.Intn(len(s.addrs)), Kind: "replace"}
				if sp.Price < 1 {
					sp.Price = 1
				}
				s.feat("k-replace")
			}
		}
		if sp == nil {
			sp = s.genSpec(next)
			if sp.Kind == "dup" {
				continue
			}
			s.feat("k-" + sp.Kind)
		}
		specs = append(specs, sp)
		txs = append(txs, s.mk(sp))
	}
	if len(txs) == 0 {
		return
	}
	how := s.how()
	var errs []error
	switch how {
	case "local":
		errs = s.pool.AddLocals(txs)
	case "remote-sync":
		errs = s.pool.AddRemotesSync(txs)
	default:
		errs = s.pool.AddRemotes(txs)
	}
	s.c.Count("conc_submitted", len(txs))
	for i, sp := range specs {
		sp.Res = errName(errs[i])
		if errs[i] == nil {
			s.c.Count("conc_accepted", 1)
			if sp.Kind == "oversized" || sp.Kind == "wrongnet" {
				s.violation("invalid-tx-admitted", fmt.Sprintf("concurrent add-%s: %s tx (account %d nonce %d data %d net %d) was admitted", how, sp.Kind, sp.From, sp.Nonce, sp.Data, sp.Net))
				return
			}
		} else {
			s.c.Count("conc_rej_"+sp.Res, 1)
		}
	}
	s.log(opRec{Op: "add-" + how, Txs: specs})
}
