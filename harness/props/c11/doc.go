// Package c11 holds the workloads and monitors of property C11.
package c11
