package c11

// C11.future: the "future block" branch of the insertChain error dispatch. A valid block whose
// timestamp lies beyond now+AllowedFutureBlockTime (but within the 30 s the chain tolerates) is
// parked in bc.futureBlocks together with its child, and imported later by the chain's own 5 s
// timer (procFutureBlocks); a sibling with the same timestamp and a falsified state root is parked
// the same way. Oracle (checked at quiescent points: a "known block" InsertChain call serialises
// behind the timer's import on the chain mutex): the structural invariants hold while the blocks
// are parked and after the timer has fired, and the invalid sibling never becomes canonical.
// Wall-clock only decides WHEN to look (bounded wait, expiry = counted, not a violation).

import (
	"fmt"
	"time"

	"verif/kit"

	"github.com/youchainhq/go-youchain/core/types"
	"github.com/youchainhq/go-youchain/youdb"
)

func init() { kit.Register("C11.future", runFuture) }

func runFuture(c *kit.Ctx) {
	n := c.N(4, 48)
	for i := 0; i < n; i++ {
		id := fmt.Sprintf("f%d", i)
		if !c.Mine(i, id) {
			continue
		}
		futureCase(c, id, i)
	}
}

func futureCase(c *kit.Ctx, id string, i int) {
	r := c.Rand(id)
	c.Begin(id, nil)
	g := newGen(r)
	g.bare = false
	m, err := g.newNodeOn(youdb.NewMemDatabase())
	if err != nil {
		c.EndInconclusive("setup: " + err.Error())
		return
	}
	var main types.Blocks
	for k := 0; k < 3+r.Intn(3); k++ {
		b, err := g.extend(m, r.Intn(3), nil, "", true)
		if err != nil {
			m.Stop()
			c.EndInconclusive("setup: " + err.Error())
			return
		}
		main = append(main, b)
	}
	// the invalid sibling first (built, not committed), then the valid future block and its child
	g.atTime = uint64(time.Now().Unix()) + 21 + uint64(r.Intn(4)) // beyond now+AllowedFutureBlockTime (10 s) with a margin for slow block building, within the 30 s the chain tolerates
	tamper := tampers[[]int{0, 1, 2, 4}[i%4]]
	bad, err1 := g.extend(m, 1+r.Intn(2), tamper.f, tamper.name+"(future)", false)
	f1, err2 := g.extend(m, r.Intn(3), nil, "", true)
	g.atTime = 0
	f2, err3 := g.extend(m, r.Intn(3), nil, "", true)
	m.Stop()
	if err1 != nil || err2 != nil || err3 != nil {
		c.EndInconclusive(fmt.Sprintf("setup: %v %v %v", err1, err2, err3))
		return
	}
	db := youdb.NewMemDatabase()
	t, err := g.newNodeOn(db)
	if err != nil {
		c.EndInconclusive("setup: " + err.Error())
		return
	}
	defer t.Stop()
	var log []string
	ins := func(bs types.Blocks, d string) error {
		var err error
		if p := kit.Guard(func() { err = t.Chain.InsertChain(bs) }); p != nil {
			err = fmt.Errorf("panic: %v", p)
			c.Violation("insertchain-panic:future", fmt.Sprintf("InsertChain(%s) panicked: %v", d, p), log)
		}
		log = append(log, fmt.Sprintf("%s -> %v (head #%d)", d, err, t.Chain.CurrentBlock().NumberU64()))
		return err
	}
	check := func(when string) bool {
		for attempt := 0; ; attempt++ {
			// barrier: a known-block call serialises behind a timer-driven import
			t.Chain.InsertChain(main[len(main)-1:])
			vs := checkChain(t.Chain, db, db, g)
			c.Evals(1)
			if len(vs) == 0 {
				return true
			}
			if attempt == 0 {
				time.Sleep(300 * time.Millisecond) // a timer tick may have started right behind the barrier: look again
				continue
			}
			for _, v := range vs {
				c.Violation("future:"+class(v), when+": "+v, log)
			}
			return false
		}
	}
	ok := ins(main, "main") == nil && check("after main")
	if ok {
		err := ins(types.Blocks{f1, f2}, "future[f1,f2]")
		if err != nil {
			c.Count("future_blocks_refused_at_once", 1) // the clock moved on: not parked
		}
		ins(types.Blocks{bad}, "future-invalid("+g.invalid[bad.Hash()]+")")
		ok = check("with the future blocks parked")
		if t.Chain.CurrentBlock().Hash() == main[len(main)-1].Hash() {
			c.Count("future_blocks_parked", 1)
		}
	}
	// bounded wait for the chain's own timer (wall clock decides only when to look)
	deadline := time.Now().Add(45 * time.Second)
	imported := false
	for ok && time.Now().Before(deadline) {
		time.Sleep(700 * time.Millisecond)
		if t.Chain.CurrentBlock().Hash() == f2.Hash() {
			imported = true
			break
		}
	}
	if ok {
		if imported {
			c.Count("future_blocks_imported_by_timer", 1)
		} else {
			c.Count("future_blocks_not_imported_within_wait", 1)
		}
		// at least one more timer round over the (still parked) invalid sibling
		time.Sleep(5500 * time.Millisecond)
		ok = check("after the future-block timer fired")
	}
	c.Sample(map[string]interface{}{"steps": log, "imported_by_timer": imported})
	c.End(fmt.Sprintf("future imported%v %s", imported, tamper.name))
}
