// Package c11: the canonical chain stays consistent and hash-linked under any import or crash.
// Blocks are consensus-valid ucon blocks forged with the genesis validators' keys; the node
// under test verifies them with the real ucon.Server, so the production insertChain /
// insertSidechain / verifyAllSideChainBlocks / reorg / WriteBlockWithState / loadLastState paths
// run. Crash model: every numbered DB operation (Put, Delete, Batch.Write) is a crash point.
package c11

import (
	"fmt"
	"math/big"
	"math/rand"
	"strings"

	"verif/build"
	"verif/env"
	"verif/faults"
	"verif/forge"
	"verif/kit"

	"github.com/youchainhq/go-youchain/common"
	"github.com/youchainhq/go-youchain/core"
	"github.com/youchainhq/go-youchain/core/rawdb"
	"github.com/youchainhq/go-youchain/core/types"
	"github.com/youchainhq/go-youchain/params"
	"github.com/youchainhq/go-youchain/youdb"
)

func init() {
	kit.Register("C11.crash", run)
	kit.Register("C11.race", runRace)
}

const nVals = 4

type gen struct {
	keys    env.Keyring
	genesis *core.Genesis
	r       *rand.Rand
	signer  types.Signer
	invalid map[common.Hash]string
	idx     int // world number (drives the systematic part of the invalid-block choice)
	bare    bool // every node of this world runs the bare core processor (no staking module registered)
	atTime  uint64 // when set: timestamp of the next blocks built (future-block workload)
	all     map[common.Hash]*types.Block
}

func newGen(r *rand.Rand) *gen {
	env.Init()
	keys := env.Keyring{Seed: r.Int63()}
	var specs []env.ValSpec
	for i := 0; i < nVals; i++ {
		role := params.RoleSenator
		if i == 0 {
			role = params.RoleChancellor
		}
		specs = append(specs, env.ValSpec{Role: role, Status: params.ValidatorOnline, Tokens: env.YOU(int64(900 + 100*i)), Operator: i})
	}
	// a third of the worlds has an empty rewards pool: a block without transactions then pays no
	// subsidy, the staking module emits no log and the block carries NO receipt at all
	pool := env.YOU(100000)
	if r.Intn(3) == 0 {
		pool = nil
	}
	g := env.MakeGenesis(env.Config{Keys: keys, Vals: specs, Users: 4, RewardsPool: pool})
	// one world in four runs the bare core processor: no module receipt, so a block without
	// transactions has no receipt at all
	return &gen{keys: keys, genesis: g, r: r, signer: types.MakeSigner(nil), invalid: map[common.Hash]string{}, all: map[common.Hash]*types.Block{}, bare: r.Intn(4) == 0}
}

// node is a node with its own forging engine (which embeds the real verifier).
type node struct {
	*env.Node
	eng *forge.Engine
	b   *build.Builder
}

func (g *gen) newNodeOn(db youdb.Database) (*node, error) {
	eng, err := forge.NewEngine(g.keys, nVals, rand.New(rand.NewSource(g.r.Int63())))
	if err != nil {
		return nil, err
	}
	n, err := env.NewNodeOnOpt(db, g.genesis, eng, !g.bare)
	if err != nil {
		return nil, err
	}
	return &node{Node: n, eng: eng, b: build.New(n.Chain, eng)}, nil
}

// extend builds one consensus-valid block on the node's current head; tamper (optional) makes it
// invalid in a way consensus does not see (state root, receipt root, gas, tx root, version …).
func (g *gen) extend(n *node, ntx int, tamper func(h *types.Header), why string, commit bool) (*types.Block, error) {
	st, err := n.Chain.State()
	if err != nil {
		return nil, err
	}
	var txs []*types.Transaction
	for i := 0; i < ntx; i++ {
		u := g.r.Intn(4)
		from := g.keys.UserAddr(u)
		nonce := st.GetNonce(from)
		for _, t := range txs {
			if s, _ := types.Sender(g.signer, t); s == from {
				nonce++
			}
		}
		to := g.keys.UserAddr((u + 1 + g.r.Intn(3)) % 4)
		tx, err := types.SignTx(types.NewTransaction(nonce, to, big.NewInt(int64(1+g.r.Intn(1000))), 21000, big.NewInt(1e9), nil), g.signer, g.keys.UserKey(u))
		if err != nil {
			return nil, err
		}
		txs = append(txs, tx)
	}
	parent := n.Chain.CurrentBlock()
	ts := parent.Time() + 1 + uint64(g.r.Intn(3))
	if g.atTime > ts {
		ts = g.atTime
	}
	res, err := n.b.Build(ts, build.NewOrderedTxs(g.signer, txs))
	if err != nil {
		return nil, err
	}
	sealed, err := n.eng.FinishWith(res.Block, tamper)
	if err != nil {
		return nil, err
	}
	g.all[sealed.Hash()] = sealed
	if tamper != nil {
		g.invalid[sealed.Hash()] = why
		return sealed, nil
	}
	if commit {
		res.Block = sealed
		if err := n.b.Commit(res); err != nil {
			return nil, err
		}
	}
	return sealed, nil
}

var tampers = []struct {
	name string
	f    func(h *types.Header)
}{
	{"state-root", func(h *types.Header) { h.Root[3] ^= 1 }},
	{"val-root", func(h *types.Header) { h.ValRoot[3] ^= 1 }},
	{"receipt-root", func(h *types.Header) { h.ReceiptHash[3] ^= 1 }},
	{"tx-root", func(h *types.Header) { h.TxHash[3] ^= 1 }},
	{"gas-used", func(h *types.Header) { h.GasUsed += 1 }},
	{"gas-rewards", func(h *types.Header) { h.GasRewards = new(big.Int).Add(h.GasRewards, big.NewInt(1)) }},
	{"version", func(h *types.Header) { h.CurrVersion++ }},
	{"bloom", func(h *types.Header) { h.Bloom[5] ^= 1 }},
	{"staking-root", func(h *types.Header) { h.StakingRoot[3] ^= 1 }},
	{"subsidy", func(h *types.Header) { h.Subsidy = new(big.Int).Add(h.Subsidy, big.NewInt(1)) }},
	{"next-approvals", func(h *types.Header) { h.NextApprovals++ }},
}

type call struct {
	blocks types.Blocks
	desc   string
}

// world is one block tree plus import schedules.
type world struct {
	g     *gen
	main  types.Blocks
	forks []types.Blocks // each fork: the full branch from block 1 (shares a prefix with main)
	bad   types.Blocks   // invalid blocks (children of some main block)
}

func (g *gen) buildWorld() (*world, error) {
	w := &world{g: g}
	m, err := g.newNodeOn(youdb.NewMemDatabase())
	if err != nil {
		return nil, err
	}
	defer m.Stop()
	L := 6 + g.r.Intn(10)
	for i := 0; i < L; i++ {
		b, err := g.extend(m, g.r.Intn(4), nil, "", true)
		if err != nil {
			return nil, fmt.Errorf("main %d: %v", i+1, err)
		}
		w.main = append(w.main, b)
	}
	nforks := 1 + g.r.Intn(3)
	for f := 0; f < nforks; f++ {
		at := g.r.Intn(L) // fork after main[at-1] (at==0: after genesis)
		fn, err := g.newNodeOn(youdb.NewMemDatabase())
		if err != nil {
			return nil, err
		}
		if at > 0 {
			if err := fn.Chain.InsertChain(w.main[:at]); err != nil {
				fn.Stop()
				return nil, fmt.Errorf("fork generator import: %v", err)
			}
		}
		// branch lengths around the tie / longer boundary
		flen := L - at + g.r.Intn(4) - 2
		if flen < 1 {
			flen = 1
		}
		br := append(types.Blocks{}, w.main[:at]...)
		for i := 0; i < flen; i++ {
			b, err := g.extend(fn, g.r.Intn(4), nil, "", true)
			if err != nil {
				fn.Stop()
				return nil, fmt.Errorf("fork %d block %d: %v", f, i, err)
			}
			br = append(br, b)
		}
		fn.Stop()
		w.forks = append(w.forks, br)
	}
	// invalid children of main blocks
	nbad := 2 + g.r.Intn(3)
	for k := 0; k < nbad; k++ {
		at := 1 + g.r.Intn(L)
		bn, err := g.newNodeOn(youdb.NewMemDatabase())
		if err != nil {
			return nil, err
		}
		if err := bn.Chain.InsertChain(w.main[:at]); err != nil {
			bn.Stop()
			return nil, err
		}
		t := tampers[g.r.Intn(len(tampers))]
		// one in three invalid blocks carries no transaction at all (no receipts to derive anything from)
		ntx := 1 + g.r.Intn(3)
		if g.r.Intn(3) == 0 {
			ntx = 0
		}
		// the first two invalid blocks of a world walk through every (field, empty/non-empty block)
		// combination systematically over consecutive worlds
		switch k {
		case 0:
			t, ntx = tampers[g.idx%len(tampers)], 0
		case 1:
			t, ntx = tampers[(g.idx+len(tampers)/2)%len(tampers)], 1+g.r.Intn(3)
		}
		if g.bare && k < 2 {
			// what distinguishes the bare processor: a block without any receipt - falsify the two
			// header fields that are derived from the receipts
			t, ntx = tampers[map[int]int{0: 7, 1: 2}[k]], 0
		}
		b, err := g.extend(bn, ntx, t.f, fmt.Sprintf("%s(%dtx)", t.name, ntx), false)
		bn.Stop()
		if err != nil {
			return nil, err
		}
		w.bad = append(w.bad, b)
	}
	return w, nil
}

// schedule produces a list of InsertChain calls over the tree.
func (w *world) schedule(r *rand.Rand) []call {
	var cs []call
	add := func(bs types.Blocks, d string) {
		if len(bs) > 0 {
			cs = append(cs, call{bs, d})
		}
	}
	chunks := func(bs types.Blocks, d string) {
		for i := 0; i < len(bs); {
			n := 1 + r.Intn(4)
			if i+n > len(bs) {
				n = len(bs) - i
			}
			add(bs[i:i+n], fmt.Sprintf("%s[%d..%d]", d, bs[i].NumberU64(), bs[i+n-1].NumberU64()))
			i += n
		}
	}
	branches := []struct {
		bs types.Blocks
		d  string
	}{{w.main, "main"}}
	for i, f := range w.forks {
		branches = append(branches, struct {
			bs types.Blocks
			d  string
		}{f, fmt.Sprintf("fork%d", i)})
	}
	switch r.Intn(5) {
	case 0: // main first, then forks
		for _, b := range branches {
			chunks(b.bs, b.d)
		}
	case 1: // side chain first
		for i := len(branches) - 1; i >= 0; i-- {
			chunks(branches[i].bs, branches[i].d)
		}
	case 2: // alternate between branches
		pos := make([]int, len(branches))
		for {
			progressed := false
			for i, b := range branches {
				if pos[i] < len(b.bs) {
					n := 1 + r.Intn(3)
					if pos[i]+n > len(b.bs) {
						n = len(b.bs) - pos[i]
					}
					add(b.bs[pos[i]:pos[i]+n], fmt.Sprintf("%s[%d..]", b.d, b.bs[pos[i]].NumberU64()))
					pos[i] += n
					progressed = true
				}
			}
			if !progressed {
				break
			}
		}
	case 3: // children before parents, then the parents, then again
		b := branches[r.Intn(len(branches))]
		if len(b.bs) > 2 {
			k := 1 + r.Intn(len(b.bs)-1)
			add(b.bs[k:], b.d+"-tail-first")
			add(b.bs[:k], b.d+"-head")
			add(b.bs[k:], b.d+"-tail-again")
		}
		for _, o := range branches {
			chunks(o.bs, o.d)
		}
	default: // whole branches as single calls, duplicates
		for _, b := range branches {
			add(b.bs, b.d+"-whole")
			if r.Intn(2) == 0 {
				add(b.bs, b.d+"-duplicate")
			}
		}
	}
	// interleave invalid blocks and duplicates at random positions
	for _, bad := range w.bad {
		bc := call{types.Blocks{bad}, "invalid(" + w.g.invalid[bad.Hash()] + ")@" + fmt.Sprint(bad.NumberU64())}
		placed := false
		if r.Intn(3) > 0 {
			// targeted: offer it at the moment its parent has just been imported - right before the
			// valid sibling (the call that carries the sibling is split there), so that the invalid
			// block is a candidate for the head and actually gets executed and validated
			for ci := 0; ci < len(cs) && !placed; ci++ {
				for bi, b := range cs[ci].blocks {
					if b.ParentHash() == bad.ParentHash() && b.Hash() != bad.Hash() {
						var repl []call
						if bi > 0 {
							repl = append(repl, call{cs[ci].blocks[:bi], cs[ci].desc + "(split)"})
						}
						repl = append(repl, bc, call{cs[ci].blocks[bi:], cs[ci].desc + "(rest)"})
						cs = append(cs[:ci], append(repl, cs[ci+1:]...)...)
						placed = true
						break
					}
				}
			}
		}
		if !placed {
			at := r.Intn(len(cs) + 1)
			cs = append(cs[:at], append([]call{bc}, cs[at:]...)...)
		}
	}
	if len(cs) > 0 && r.Intn(2) == 0 {
		d := cs[r.Intn(len(cs))]
		at := r.Intn(len(cs) + 1)
		cs = append(cs[:at], append([]call{{d.blocks, d.desc + "-dup"}}, cs[at:]...)...)
	}
	// a call whose blocks are not a contiguous chain (two swapped, or one missing in the middle) is
	// offered right before the well-formed call it was derived from
	if r.Intn(3) == 0 {
		for tries := 0; tries < 6; tries++ {
			ci := r.Intn(len(cs))
			if len(cs[ci].blocks) < 3 {
				continue
			}
			bs := append(types.Blocks{}, cs[ci].blocks...)
			what := "-gap"
			if r.Intn(2) == 0 {
				i := r.Intn(len(bs) - 1)
				bs[i], bs[i+1] = bs[i+1], bs[i]
				what = "-swapped"
			} else {
				i := 1 + r.Intn(len(bs)-2)
				bs = append(bs[:i], bs[i+1:]...)
			}
			cs = append(cs[:ci], append([]call{{bs, cs[ci].desc + what}}, cs[ci:]...)...)
			break
		}
	}
	return cs
}

// ---- invariants ----

func checkChain(c *core.BlockChain, db interface{ Keys() [][]byte }, rdb youdb.Database, g *gen) []string {
	var bad []string
	head := c.CurrentBlock()
	if head == nil {
		return []string{"no-current-block: CurrentBlock() is nil"}
	}
	if ch := c.CurrentHeader(); ch == nil || ch.Number.Uint64() < head.NumberU64() {
		bad = append(bad, fmt.Sprintf("current-header-behind-current-block: header %v block %d", ch, head.NumberU64()))
	}
	var prev *types.Header
	for n := uint64(0); n <= head.NumberU64(); n++ {
		h := c.GetHeaderByNumber(n)
		if h == nil {
			bad = append(bad, fmt.Sprintf("canonical-header-missing: number %d (head %d)", n, head.NumberU64()))
			break
		}
		if prev != nil && h.ParentHash != prev.Hash() {
			bad = append(bad, fmt.Sprintf("canonical-chain-not-linked: #%d parent %x, #%d is %x", n, h.ParentHash[:4], n-1, prev.Hash().Bytes()[:4]))
			break
		}
		if c.GetBlockByNumber(n) == nil {
			bad = append(bad, fmt.Sprintf("canonical-body-missing: number %d", n))
			break
		}
		if why, ok := g.invalid[h.Hash()]; ok {
			bad = append(bad, fmt.Sprintf("invalid-block-canonical:%s: block #%d with a wrong %s is canonical", why, n, why))
			if strings.HasPrefix(why, "subsidy(") {
				// listed finding (the field is not validated); state and chain stay consistent, so it
				// is reported once and the exploration goes on with this block counted as accepted
				delete(g.invalid, h.Hash())
			}
		}
		prev = h
	}
	if hb := c.GetBlockByNumber(head.NumberU64()); hb == nil || hb.Hash() != head.Hash() {
		bad = append(bad, "head-not-canonical: CurrentBlock is not the canonical block of its number")
	}
	if _, err := c.State(); err != nil {
		bad = append(bad, "head-state-unavailable: "+err.Error())
	}
	// every tx-lookup entry must point into a canonical block
	for _, k := range db.Keys() {
		if len(k) == 33 && k[0] == 'l' {
			var th common.Hash
			copy(th[:], k[1:])
			bh, num, _ := rawdb.ReadTxLookupEntry(rdb, th)
			if bh == (common.Hash{}) {
				continue
			}
			if canon := rawdb.ReadCanonicalHash(rdb, num); canon != bh {
				bad = append(bad, fmt.Sprintf("tx-lookup-points-to-non-canonical-block: tx %x -> block %x (#%d), canonical there is %x", th[:4], bh[:4], num, canon[:4]))
				break
			}
		}
	}
	return bad
}

func class(s string) string {
	if i := strings.Index(s, ": "); i > 0 {
		return s[:i]
	}
	return s
}

func run(c *kit.Ctx) {
	n := c.N(12, 128)
	for i := 0; i < n; i++ {
		id := fmt.Sprintf("t%d", i)
		if !c.Mine(i, id) {
			continue
		}
		tree(c, id)
	}
}

func tree(c *kit.Ctx, id string) {
	r := c.Rand(id)
	c.Begin(id, nil)
	g := newGen(r)
	fmt.Sscanf(strings.TrimLeft(id, "abcdefghijklmnopqrstuvwxyz"), "%d", &g.idx)
	w, err := g.buildWorld()
	if err != nil {
		c.EndInconclusive("tree generation failed: " + err.Error())
		return
	}
	c.Count("trees", 1)
	c.Count("blocks_forged", len(g.all))
	nsched := c.N(2, 4)
	crashBudget := c.N(12, 100000)
	sigs := map[string]bool{}
	for s := 0; s < nsched; s++ {
		cs := w.schedule(r)
		if !oneSchedule(c, g, w, cs, r, crashBudget) {
			break
		}
		sigs[fmt.Sprintf("calls%d", len(cs)/3)] = true
	}
	c.Sample(map[string]interface{}{"main": len(w.main), "forks": len(w.forks), "invalid": len(w.bad)})
	c.End(fmt.Sprintf("main%d forks%d %v", len(w.main)/4, len(w.forks), len(sigs)))
}

// oneSchedule runs the schedule on a crash-recording node, then enumerates crash points.
func oneSchedule(c *kit.Ctx, g *gen, w *world, cs []call, r *rand.Rand, crashBudget int) bool {
	cdb := faults.NewCrashDB()
	t, err := g.newNodeOn(cdb)
	if err != nil {
		c.Violation("node-start-failed", err.Error(), nil)
		return false
	}
	cdb.Mark()
	var descs []string
	bounds := make([]int, 0, len(cs)+1) // op index at the start of each call
	heads := make([]common.Hash, 0, len(cs))
	extras := make([]*types.Block, 0, len(cs))
	ok := true
	for _, k := range cs {
		bounds = append(bounds, cdb.Len())
		var err error
		if pv, stack := kit.GuardStack(func() { err = t.Chain.InsertChain(k.blocks) }); pv != nil {
			descs = append(descs, fmt.Sprintf("%s -> PANIC %v", k.desc, pv))
			c.Violation("insertchain-panic:"+panicSite(stack), fmt.Sprintf("InsertChain(%s) panics: %v", k.desc, pv), map[string]interface{}{"schedule": descs, "stack": stack})
			return false // the chain's wait group is poisoned: leave the node alone
		}
		descs = append(descs, fmt.Sprintf("%s -> %v", k.desc, err))
		c.Count("insertchain_calls", 1)
		if err != nil {
			c.Count("insertchain_errors", 1)
		}
		c.Evals(1)
		for _, v := range checkChain(t.Chain, cdb.MemDatabase, cdb, g) {
			c.Violation(class(v), "after InsertChain("+k.desc+"): "+v, map[string]interface{}{"schedule": descs})
			if !strings.HasPrefix(class(v), "invalid-block-canonical:subsidy(") {
				ok = false
			}
		}
		if !ok {
			break
		}
		heads = append(heads, t.Chain.CurrentBlock().Hash())
		// one further valid block on the head the never-crashed node has after THIS call
		x, xerr := g.extend(t, 1, nil, "", false)
		if xerr != nil {
			x = nil
		}
		extras = append(extras, x)
	}
	bounds = append(bounds, cdb.Len())
	finalHead := t.Chain.CurrentBlock()
	// Observation only (the property does not demand it): did the longest valid branch win? A fork
	// delivered in several calls is stored without state while it is shorter, and the call that
	// makes it longer then fails in verifyAllSideChainBlocks ("open trie error ... missing trie
	// node"), so the node stays on the shorter branch.
	best := uint64(len(w.main))
	for _, f := range w.forks {
		if uint64(len(f)) > best {
			best = uint64(len(f))
		}
	}
	if ok && finalHead.NumberU64() != best {
		c.Count("obs_head_not_on_longest_valid_branch", 1)
	}
	if finalHead.NumberU64() > 0 && len(w.forks) > 0 {
		c.Count("schedules_with_forks", 1)
	}
	t.Stop()
	if !ok {
		return false
	}
	// ---- crash enumeration ----
	total := bounds[len(bounds)-1]
	c.Count("db_ops_recorded", total)
	step := 1
	if total > crashBudget {
		step = total/crashBudget + 1
	}
	off := r.Intn(step)
	for p := off; p <= total; p += step {
		// which call was interrupted?
		j := 0
		for j+1 < len(cs) && bounds[j+1] <= p {
			j++
		}
		if j >= len(extras) || extras[j] == nil {
			continue
		}
		if !crashPoint(c, g, cdb, cs, descs, p, j, bounds[j], extras[j]) {
			return false
		}
	}
	return true
}

// crashPoint restarts a node on the database prefix and checks the restart + not-wedged clauses.
var reorgClasses = map[string]bool{"canonical-chain-not-linked": true, "tx-lookup-points-to-non-canonical-block": true, "head-not-canonical": true, "canonical-body-missing": true, "canonical-header-missing": true}

// reorgStarted: among the operations [from, p) of the interrupted call, one re-points an existing
// canonical-hash entry to another block (the call had begun to reorganise the chain).
func reorgStarted(cdb *faults.CrashDB, from, p int) bool {
	canon := map[string]string{}
	isCanon := func(k []byte) bool { return len(k) == 10 && k[0] == 'h' && k[9] == 'n' }
	for i := 0; i < p && i < len(cdb.Log); i++ {
		for _, put := range cdb.Log[i].Puts {
			if isCanon(put[0]) {
				if old, ok := canon[string(put[0])]; ok && old != string(put[1]) && i >= from {
					return true
				}
				canon[string(put[0])] = string(put[1])
			}
		}
		for _, d := range cdb.Log[i].Dels {
			if isCanon(d) {
				if _, ok := canon[string(d)]; ok && i >= from {
					return true
				}
				delete(canon, string(d))
			}
		}
	}
	return false
}

func crashPoint(c *kit.Ctx, g *gen, cdb *faults.CrashDB, cs []call, descs []string, p, j, from int, extra *types.Block) bool {
	db := cdb.Prefix(p)
	c.Count("crash_points", 1)
	c.Evals(1)
	wit := map[string]interface{}{"crash_after_db_op": p, "interrupted_call": cs[j].desc, "schedule": descs}
	var n *node
	var err error
	if g2 := kit.Guard(func() { n, err = g.newNodeOn(db) }); g2 != nil {
		c.Violation("restart-panic", fmt.Sprintf("NewBlockChain panics on the database found after DB op %d (during %s): %v", p, cs[j].desc, g2), wit)
		return false
	}
	if err != nil {
		c.Violation("restart-failed", fmt.Sprintf("restart on the database found after DB op %d (during %s) fails: %v", p, cs[j].desc, err), wit)
		return false
	}
	stop := true
	defer func() {
		if stop {
			n.Stop()
		}
	}()
	danglingWindow, inReorg := false, false
	for _, v := range checkChain(n.Chain, db, db, g) {
		if class(v) == "tx-lookup-points-to-non-canonical-block" && lookupWindow(cdb, db, p) {
			// the listed crash window: lookup batch written, canonical hash not yet
			c.Violation("crash-between-lookup-batch-and-canonical-hash", fmt.Sprintf("after a crash at DB op %d (during %s) and restart: %s", p, cs[j].desc, v), wit)
			danglingWindow = true
			continue
		}
		if reorgStarted(cdb, from, p) && reorgClasses[class(v)] {
			// the listed finding: BlockChain.reorg is not crash-atomic
			c.Violation("crash-inside-reorg:"+class(v), fmt.Sprintf("after a crash at DB op %d (inside a reorg during %s) and restart: %s", p, cs[j].desc, v), wit)
			inReorg = true
			continue
		}
		c.Violation("after-restart:"+class(v), fmt.Sprintf("after a crash at DB op %d (during %s) and restart: %s", p, cs[j].desc, v), wit)
		return false
	}
	// not wedged: re-offer the interrupted blocks, then one further valid block (a child of the head
	// the never-crashed node has after the interrupted call)
	for k := j; k <= j; k++ {
		if pv, stack := kit.GuardStack(func() { n.Chain.InsertChain(cs[k].blocks) }); pv != nil {
			stop = false
			wit["stack"] = stack
			wit["reoffered_call"] = cs[k].desc
			c.Violation("after-restart:insertchain-panic:"+panicSite(stack), fmt.Sprintf("crash at DB op %d (during %s), restart, re-offering %s: InsertChain panics: %v", p, cs[j].desc, cs[k].desc, pv), wit)
			return false
		}
	}
	// ... and one further valid block (a child of the never-crashed node's head): afterwards head
	// and state must be those of the node that never crashed
	var ierr error
	if pv, stack := kit.GuardStack(func() { ierr = n.Chain.InsertChain(types.Blocks{extra}) }); pv != nil {
		stop = false
		wit["stack"] = stack
		c.Violation("after-restart:insertchain-panic:"+panicSite(stack), fmt.Sprintf("crash at DB op %d (during %s), restart, re-import, one further block: InsertChain panics: %v", p, cs[j].desc, pv), wit)
		return false
	}
	if got := n.Chain.CurrentBlock().Hash(); got != extra.Hash() {
		cl := "wedged-after-crash"
		if reorgStarted(cdb, from, p) {
			cl = "crash-inside-reorg:different-head-after-recovery"
		}
		c.Violation(cl, fmt.Sprintf("crash at DB op %d (during %s): after re-offering the interrupted blocks and one further valid block (#%d, InsertChain -> %v) the head is #%d %x; the never-crashed node's head is that further block", p, cs[j].desc, extra.NumberU64(), ierr, n.Chain.CurrentBlock().NumberU64(), got.Bytes()[:4]), wit)
		return false
	}
	for _, v := range checkChain(n.Chain, db, db, g) {
		if (danglingWindow || inReorg) && class(v) == "tx-lookup-points-to-non-canonical-block" {
			continue // same stale entries as found right after the restart (already reported under the listed class)
		}
		if reorgStarted(cdb, from, p) && class(v) == "tx-lookup-points-to-non-canonical-block" {
			c.Violation("crash-inside-reorg:stale-tx-lookup-after-recovery", fmt.Sprintf("crash at DB op %d inside a reorg, restart, re-import: %s", p, v), wit)
			continue
		}
		c.Violation("after-recovery:"+class(v), fmt.Sprintf("after crash at DB op %d, restart and re-import: %s", p, v), wit)
		return false
	}
	c.Count("recoveries_completed", 1)
	return true
}

// runRace: concurrent InsertChain callers and readers on one node under the race detector.
func runRace(c *kit.Ctx) {
	n := c.N(6, 120)
	for i := 0; i < n; i++ {
		id := fmt.Sprintf("r%d", i)
		if !c.Mine(i, id) {
			continue
		}
		r := c.Rand(id)
		c.Begin(id, nil)
		g := newGen(r)
		w, err := g.buildWorld()
		if err != nil {
			c.EndInconclusive("tree generation failed: " + err.Error())
			continue
		}
		mdb := youdb.NewMemDatabase()
		t, err := g.newNodeOn(mdb)
		if err != nil {
			c.EndInconclusive(err.Error())
			continue
		}
		branches := append([]types.Blocks{w.main}, w.forks...)
		done := make(chan struct{})
		fin := make(chan struct{}, len(branches)+2)
		for _, br := range branches {
			br := br
			go func() {
				for i := 0; i < len(br); i += 2 {
					e := i + 2
					if e > len(br) {
						e = len(br)
					}
					t.Chain.InsertChain(br[i:e])
				}
				fin <- struct{}{}
			}()
		}
		reads := 0
		for k := 0; k < 2; k++ {
			go func() {
				for {
					select {
					case <-done:
						fin <- struct{}{}
						return
					default:
					}
					h := t.Chain.CurrentBlock()
					t.Chain.GetBlockByNumber(h.NumberU64())
					t.Chain.GetHeaderByNumber(h.NumberU64() / 2)
					t.Chain.State()
					t.Chain.CurrentHeader()
				}
			}()
		}
		for range branches {
			<-fin
		}
		close(done)
		<-fin
		<-fin
		_ = reads
		for _, v := range checkChain(t.Chain, mdb, mdb, g) {
			c.Violation("concurrent:"+class(v), "after concurrent imports: "+v, nil)
		}
		c.Evals(1)
		c.Count("concurrent_import_runs", 1)
		t.Stop()
		c.End(fmt.Sprintf("branches%d", len(branches)))
	}
}

// lookupWindow reports whether EVERY dangling tx-lookup entry of the prefix database belongs to a
// block whose lookup batch is among the first p operations while the canonical-hash write of
// that block is not: the crash fell between WriteTxLookupEntries' batch and bc.insert.
func lookupWindow(cdb *faults.CrashDB, db *youdb.MemDatabase, p int) bool {
	found := false
	for _, k := range db.Keys() {
		if len(k) != 33 || k[0] != 'l' {
			continue
		}
		var th common.Hash
		copy(th[:], k[1:])
		bh, num, _ := rawdb.ReadTxLookupEntry(db, th)
		if bh == (common.Hash{}) || rawdb.ReadCanonicalHash(db, num) == bh {
			continue
		}
		// dangling: find the op that wrote it and check no later op (< p) made the block canonical
		q := -1
		for i := 0; i < p && i < len(cdb.Log); i++ {
			for _, put := range cdb.Log[i].Puts {
				if string(put[0]) == string(k) {
					q = i
				}
			}
		}
		if q < 0 {
			return false
		}
		for i := q + 1; i < p && i < len(cdb.Log); i++ {
			for _, put := range cdb.Log[i].Puts {
				if len(put[0]) == 10 && put[0][0] == 'h' && put[0][9] == 'n' && common.BytesToHash(put[1]) == bh {
					return false // it was canonical afterwards: a different cause
				}
			}
		}
		found = true
	}
	return found
}

// panicSite names the innermost go-youchain function of a panic stack (stable class part).
func panicSite(stack string) string {
	for _, l := range strings.Split(stack, "\n") {
		if strings.HasPrefix(l, "github.com/youchainhq/go-youchain/") {
			l = strings.TrimPrefix(l, "github.com/youchainhq/go-youchain/")
			if i := strings.Index(l, "("); i > 0 {
				// keep pkg.(*T).method or pkg.func
				j := strings.LastIndex(l, "(0x")
				if j < 0 {
					j = strings.LastIndex(l, "(")
				}
				return strings.TrimSpace(l[:j])
			}
			return l
		}
	}
	return "unknown"
}
