// Package c02: an honest validator never signs two conflicting votes, even across restarts.
// Oracle: the per-key signed-vote ledger (every vote observed at the hook right after it was
// persisted and before it is posted) must never hold two different block hashes for one vote
// kind in one (round, index) (three for next-index).
package c02

import (
	"crypto/sha256"
	"encoding/binary"
	"fmt"
	"math/big"
	"math/rand"
	"sort"
	"strings"

	"verif/env"
	"verif/forge"
	"verif/kit"

	"crypto/ecdsa"
	"github.com/youchainhq/go-youchain/common"
	"github.com/youchainhq/go-youchain/consensus/ucon"
	"github.com/youchainhq/go-youchain/core/state"
	"github.com/youchainhq/go-youchain/core/types"
	"github.com/youchainhq/go-youchain/crypto"
	"github.com/youchainhq/go-youchain/event"
	"github.com/youchainhq/go-youchain/params"
	"github.com/youchainhq/go-youchain/youdb"
)

func init() { kit.Register("C02.restart", run) }

type crashSentinel struct{ when string }

type emitted struct {
	Type  ucon.VoteType
	Round uint64
	Index uint32
	Hash  common.Hash
	Life  int // voter incarnation that emitted it
}

type stubMgr struct {
	yp  *params.YouParams
	set *forge.Set
}

func (m *stubMgr) CurrentCaravelParams() *params.CaravelParams { return &m.yp.CaravelParams }
func (m *stubMgr) CertificateParams(*big.Int) (*params.CaravelParams, error) {
	return &m.yp.CaravelParams, nil
}
func (m *stubMgr) CurrentYouParams() *params.YouParams { return m.yp }
func (m *stubMgr) GetLookBackVldReader(*params.CaravelParams, *big.Int, params.LookBackType) (state.ValidatorReader, error) {
	return m.set.Reader, nil
}

type world struct {
	r      *rand.Rand
	set    *forge.Set
	mgr    *stubMgr
	db     *youdb.MemDatabase
	kdb    *killDB // the voter's view of db: can kill the process right before its n-th write operation
	voter  *ucon.Voter
	me     *forge.Member
	life   int
	ledger []emitted
	log    []string
	blocks []common.Hash
	salt   uint64
	// crash plan for the current driver call
	crashAt   int // crash when the n-th vote of this life reaches the hook (0 = never)
	crashPost bool
	seenVotes int
	T         uint64
}

// killDB passes everything through to the memory database; when armed it "kills the process"
// (panics with the crash sentinel) right BEFORE the n-th write operation issued from now on, so
// every earlier write of the same call is on disk and this one and all later ones are not.
type killDB struct {
	*youdb.MemDatabase
	arm  int
	hits int
	log  *[]string
}

func (k *killDB) tick(what string) {
	if k.arm > 0 {
		k.arm--
		if k.arm == 0 {
			k.hits++
			*k.log = append(*k.log, "  CRASH right before database write: "+what)
			panic(crashSentinel{"db-write"})
		}
	}
}
func (k *killDB) Put(key, val []byte) error { k.tick("put"); return k.MemDatabase.Put(key, val) }
func (k *killDB) Delete(key []byte) error   { k.tick("delete"); return k.MemDatabase.Delete(key) }
func (k *killDB) NewBatch() youdb.Batch      { return &killBatch{Batch: k.MemDatabase.NewBatch(), k: k} }

type killBatch struct {
	youdb.Batch
	k *killDB
}

func (b *killBatch) Write() error { b.k.tick("batch"); return b.Batch.Write() }

func (w *world) coin(parts ...interface{}) uint64 {
	h := sha256.Sum256([]byte(fmt.Sprint(append([]interface{}{w.salt}, parts...)...)))
	return binary.BigEndian.Uint64(h[:8])
}

func (w *world) newVoter() {
	w.life++
	w.seenVotes = 0
	mux := new(event.TypeMux)
	isValidator := func(round *big.Int, idx uint32, step uint32, lb params.LookBackType) (bool, *ucon.StepView) {
		// independent selection per (round, index, step), stable across restarts (it is a VRF outcome)
		if w.coin("sel", round, idx, step)%4 == 0 {
			return false, nil
		}
		return true, &ucon.StepView{SubUsers: 1 + uint32(w.coin("w", round, idx, step)%300), SortitionProof: []byte{1, 2, 3}, ValidatorType: params.KindChamber, Threshold: w.T}
	}
	maxPrio := func(round *big.Int, idx uint32) (common.Hash, common.Hash, bool) {
		// which proposal currently has the max priority changes as proposals arrive
		if w.r.Intn(8) == 0 {
			return common.Hash{}, common.Hash{}, false
		}
		b := w.blocks[w.r.Intn(len(w.blocks))]
		return crypto.Keccak256Hash(b[:]), b, true
	}
	blockInCache := func(h common.Hash, p common.Hash) *types.Block {
		if h == (common.Hash{}) {
			return nil
		}
		return types.NewBlockWithHeader(&types.Header{Number: big.NewInt(1), GasRewards: new(big.Int), Subsidy: new(big.Int), Extra: h[:]})
	}
	getStake := func(round *big.Int, addr common.Address, isProposer bool, lb params.LookBackType) (*big.Int, *big.Int, uint64, params.ValidatorKind, uint8, error) {
		return big.NewInt(1000), w.set.Total, w.T, params.KindChamber, params.ValidatorOnline, nil
	}
	count := func(round *big.Int, kind params.ValidatorKind, lb params.LookBackType) uint64 {
		return uint64(len(w.set.Members))
	}
	verifySort := func(pub *ecdsa.PublicKey, d *ucon.SortitionData, lb params.LookBackType) error { return nil }
	if w.kdb == nil {
		w.kdb = &killDB{MemDatabase: w.db, log: &w.log}
	}
	w.kdb.arm = 0
	w.voter = ucon.NewVoter(w.kdb, w.me.Key, w.me.Bls, mux, verifySort, isValidator, maxPrio, blockInCache, getStake, count, w.mgr)
	w.voter.SetLookBackMgr(w.mgr)
}

func vtName(t ucon.VoteType) string { return ucon.VoteTypeToString(t) }

func run(c *kit.Ctx) {
	n := c.N(960, 40000)
	if c.Mode == "race" {
		// the race build is ~15x slower on these histories; 8 batches x 500 histories fit the watchdog
		// on a loaded machine (40000 did not: ~0.3 histories/s per batch)
		n = c.N(960, 4000)
	}
	for i := 0; i < n; i++ {
		id := fmt.Sprintf("h%d", i)
		if !c.Mine(i, id) {
			continue
		}
		history(c, id, i)
	}
}

var setCache = map[int]*forge.Set{}

func history(c *kit.Ctx, id string, i int) {
	r := c.Rand(id)
	env.Init()
	yp := params.Versions[params.YouV5]
	c.Begin(id, nil)
	on := uint8(params.ValidatorOnline)
	specs := []env.ValSpec{}
	for k := 0; k < 4; k++ {
		specs = append(specs, env.ValSpec{Role: params.RoleSenator, Status: on, Tokens: env.YOU(1000), Operator: k})
	}
	set := setCache[i%8]
	if set == nil {
		var err error
		set, err = forge.NewSet(env.Keyring{Seed: int64(i%8) + 1}, specs)
		if err != nil {
			c.EndInconclusive(err.Error())
			return
		}
		setCache[i%8] = set
	}
	w := &world{r: r, set: set, mgr: &stubMgr{yp: &yp, set: set}, db: youdb.NewMemDatabase(), me: set.Members[0], salt: r.Uint64(), T: 1000}
	for k := 0; k < 3; k++ {
		var h common.Hash
		r.Read(h[:])
		w.blocks = append(w.blocks, h)
	}
	// the hook: record every vote that was persisted; optionally die right before/after recording
	ucon.VerifOnVote = func(v *ucon.Voter, vt ucon.VoteType, msg *ucon.BlockHashWithVotes) {
		if v != w.voter {
			return
		}
		w.seenVotes++
		crash := w.crashAt > 0 && w.seenVotes == w.crashAt
		if crash && !w.crashPost {
			// persisted but never posted: the signature dies with the process
			w.log = append(w.log, fmt.Sprintf("  CRASH after persisting, before posting %s(%v,%d) %x", vtName(vt), msg.Round, msg.RoundIndex, msg.BlockHash[:3]))
			panic(crashSentinel{"before-post"})
		}
		w.ledger = append(w.ledger, emitted{vt, msg.Round.Uint64(), msg.RoundIndex, msg.BlockHash, w.life})
		w.log = append(w.log, fmt.Sprintf("  VOTE life%d %s(%v,%d) %x", w.life, vtName(vt), msg.Round, msg.RoundIndex, msg.BlockHash[:3]))
		if crash {
			w.log = append(w.log, "  CRASH right after posting")
			panic(crashSentinel{"after-post"})
		}
	}
	defer func() { ucon.VerifOnVote = nil }()
	w.newVoter()

	round := uint64(100 + r.Intn(5))
	cert := r.Intn(4) == 0
	if cert {
		round = params.ACoCHTFrequency * uint64(1+r.Intn(3))
	}
	idx := uint32(1)
	steps := []uint32{ucon.UConStepPrevote, ucon.UConStepPrecommit}
	if cert {
		steps = append(steps, ucon.UConStepCertificate)
	}
	si := 0
	nev := 10 + r.Intn(30)
	restarts := 0
	others := set.Members[1:]
	drive := func(desc string, f func()) {
		w.log = append(w.log, desc)
		w.crashAt = 0
		w.kdb.arm = 0
		if r.Intn(6) == 0 && restarts < 3 {
			w.crashAt = 1 + r.Intn(2)
			w.crashPost = r.Intn(2) == 0
		} else if r.Intn(7) == 0 && restarts < 3 {
			// kill at database-write granularity: before the 1st..4th write of this driver call
			w.kdb.arm = 1 + r.Intn(4)
		}
		g := kit.Guard(f)
		w.kdb.arm = 0
		if g != nil {
			if _, ok := g.(crashSentinel); !ok {
				panic(g) // a real panic of the code under test: let the process die on this case
			}
		}
		if g != nil || (r.Intn(9) == 0 && restarts < 3) {
			// restart on the same database; the server comes back at round index 1 of the head's next round
			restarts++
			if g == nil {
				w.log = append(w.log, "  CRASH at event boundary")
			}
			w.newVoter()
			if r.Intn(4) > 0 {
				idx = 1 // StartNewRound(true) after a restart
			}
			si = 0
			w.log = append(w.log, fmt.Sprintf("RESTART -> ctx(%d,%d,prevote)", round, idx))
			kit.Guard(func() {
				w.voter.VerifUpdateContext(ucon.ContextChangeEvent{Round: new(big.Int).SetUint64(round), RoundIndex: idx, Step: steps[0], Certificate: cert})
			})
		}
	}
	ctx := func() {
		st := steps[si]
		drive(fmt.Sprintf("ctx(%d,%d,step%d)", round, idx, st), func() {
			w.voter.VerifUpdateContext(ucon.ContextChangeEvent{Round: new(big.Int).SetUint64(round), RoundIndex: idx, Step: st, Certificate: cert})
		})
	}
	ctx()
	for e := 0; e < nev; e++ {
		switch x := r.Intn(100); {
		case x < 25:
			// time passes: next step, or next round index, or (rarely) next round
			if si+1 < len(steps) {
				si++
			} else if r.Intn(5) == 0 {
				round++
				if cert {
					cert = false
					steps = steps[:2]
				}
				idx, si = 1, 0
			} else {
				idx++
				si = 0
			}
			ctx()
		case x < 35:
			ctx() // the same context is re-announced (step ticks)
		default:
			// a vote from another validator for one of the candidate blocks (they may be Byzantine:
			// quorums for different blocks can form in one round index)
			m := others[r.Intn(len(others))]
			vt := []ucon.VoteType{ucon.Prevote, ucon.Prevote, ucon.Precommit, ucon.Precommit, ucon.NextIndex, ucon.Certificate}[r.Intn(6)]
			if vt == ucon.Certificate && !cert {
				vt = ucon.Precommit
			}
			b := w.blocks[r.Intn(len(w.blocks))]
			rd := new(big.Int).SetUint64(round)
			sig := m.Bls.Sign(forge.VotePayload(b, rd, idx))
			data := &ucon.BlockHashWithVotes{Priority: crypto.Keccak256Hash(b[:]), BlockHash: b, Round: rd, RoundIndex: idx,
				Vote: &ucon.SingleVote{VoterIdx: uint32(m.Idx), Votes: 400, Signature: sig.Compress().Bytes(), Proof: []byte{9}}}
			drive(fmt.Sprintf("recv %s(%d,%d) %x from #%d", vtName(vt), round, idx, b[:3], m.I), func() {
				w.voter.VerifProcessVote(m.Addr, data, vt)
			})
		}
	}
	// ---- judge the ledger ----
	type key struct {
		t ucon.VoteType
		r uint64
		i uint32
	}
	byKey := map[key]map[common.Hash][]int{}
	for _, e := range w.ledger {
		k := key{e.Type, e.Round, e.Index}
		if byKey[k] == nil {
			byKey[k] = map[common.Hash][]int{}
		}
		byKey[k][e.Hash] = append(byKey[k][e.Hash], e.Life)
	}
	c.Evals(1)
	var keys []key
	for k := range byKey {
		keys = append(keys, k)
	}
	sort.Slice(keys, func(a, b int) bool {
		if keys[a].r != keys[b].r {
			return keys[a].r < keys[b].r
		}
		if keys[a].i != keys[b].i {
			return keys[a].i < keys[b].i
		}
		return keys[a].t < keys[b].t
	})
	for _, k := range keys {
		hs := byKey[k]
		limit := 1
		if k.t == ucon.NextIndex {
			limit = 2
		}
		total := 0
		lives := map[int]bool{}
		for _, l := range hs {
			total += len(l)
			for _, x := range l {
				lives[x] = true
			}
		}
		if len(hs) > limit {
			across := "same-incarnation"
			if len(lives) > 1 {
				across = "across-restart"
			}
			c.Violation(fmt.Sprintf("double-%s:%s", strings.ToLower(vtName(k.t)), across),
				fmt.Sprintf("the validator signed and emitted %d different block hashes as %s in round %d index %d (%s)", len(hs), vtName(k.t), k.r, k.i, across),
				map[string]interface{}{"history": w.log})
		} else if total > limit {
			c.Count("identical_vote_reemitted", 1)
		}
	}
	c.Count("votes_emitted", len(w.ledger))
	c.Count("restarts", restarts)
	c.Count("crashes_before_a_database_write", w.kdb.hits)
	c.Count("events", nev)
	if cert {
		c.Count("cert_round_histories", 1)
	}
	kinds := map[string]bool{}
	for _, e := range w.ledger {
		kinds[vtName(e.Type)] = true
		c.Count("emitted_"+strings.ToLower(vtName(e.Type)), 1)
	}
	var ks []string
	for k := range kinds {
		ks = append(ks, k)
	}
	sort.Strings(ks)
	c.Sample(map[string]interface{}{"history": tail(w.log, 25)})
	sig := ""
	if restarts > 0 && len(w.ledger) > 0 {
		sig = fmt.Sprintf("restarts%d cert%v kinds%v votes%d", restarts, cert, ks, len(w.ledger)/3)
	}
	c.End(sig)
}

func tail(s []string, n int) []string {
	if len(s) > n {
		return s[len(s)-n:]
	}
	return s
}
