// Package c02 holds the workloads and monitors of property C02.
package c02
