// Package c12 holds the workloads and monitors of property C12.
package c12
