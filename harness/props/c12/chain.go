package c12

// C12.chain: the upgrade state machine on a REAL BlockChain. Three nodes without networking (solo
// fallback engine; consensus is not the subject): M builds the main branch with the honest block
// builder (transcribed miner.worker), F forks off early and builds a sibling branch on which the
// upgrade is announced / approved LATER (its builder does not know the next version for a while),
// T imports main, then the longer sibling (reorg), then a longer continuation of main (reorg
// back). After every import, on every node:
//
//   - "active version": for every round r up to head+8, VersionForRound(r) must be the version the
//     CANONICAL header 8 rounds back carries (the anchor "VersionForRound reads the version 8
//     rounds back" - on this chain, not on an abandoned one);
//   - the C12 trace checker (model.C12Monitor) runs over the canonical chain from genesis to head;
//   - every block the honest builder derives is accepted by its own node and by T.
//
// The parameters of the real version table are scaled down in-process (vote window, threshold,
// waits of YouV4) so that a whole YouV4 -> YouV5 upgrade fits into a few dozen blocks.

import (
	"fmt"
	"math/rand"

	"verif/build"
	venv "verif/env"
	"verif/kit"
	"verif/model"

	"github.com/youchainhq/go-youchain/core"
	"github.com/youchainhq/go-youchain/core/types"
	"github.com/youchainhq/go-youchain/params"
)

func init() { kit.Register("C12.chain", runChain) }

func runChain(c *kit.Ctx) {
	n := c.N(12, 400)
	for i := 0; i < n; i++ {
		id := fmt.Sprintf("vc%d", i)
		if !c.Mine(i, id) {
			continue
		}
		chainCase(c, id, c.Rand(id))
	}
}

type vnode struct {
	name string
	n    *venv.Node
	b    *build.Builder
}

type chainEnv struct {
	c      *kit.Ctx
	known  params.VersionsMap // every node knows YouV5
	hidden params.VersionsMap // YouV5 and its approval not known locally: this builder neither proposes nor approves
	p4     model.C12Params
	log    []string
	bad    bool
}

func (e *chainEnv) paramsOf(v uint64) (model.C12Params, bool) {
	yp, ok := e.known[params.YouVersion(v)]
	if !ok {
		return model.C12Params{}, false
	}
	return model.C12Params{VoteRounds: yp.UpgradeVoteRounds, Threshold: yp.UpgradeThreshold, MinWait: yp.MinUpgradeWaitRounds, MaxWait: yp.MaxUpgradeWaitRounds}, true
}

func (e *chainEnv) violation(class, msg string) {
	e.bad = true
	e.c.Violation(class, msg, map[string]interface{}{"youv4_upgrade_params": e.p4, "steps": tailS(e.log, 60)})
}

func tailS(s []string, n int) []string {
	if len(s) > n {
		return s[len(s)-n:]
	}
	return s
}

// checkNode: active version and trace checker over the canonical chain of one node.
func (e *chainEnv) checkNode(v *vnode, when string) {
	if e.bad {
		return
	}
	params.Versions = e.known
	ch := v.n.Chain
	head := ch.CurrentBlock().NumberU64()
	canon := make([]*types.Header, head+1)
	for k := uint64(0); k <= head; k++ {
		canon[k] = ch.GetHeaderByNumber(k)
		if canon[k] == nil {
			e.violation("chain:canonical-header-missing", fmt.Sprintf("%s, node %s: no canonical header %d below head %d", when, v.name, k, head))
			return
		}
	}
	for r := uint64(0); r <= head+8; r++ {
		pr := uint64(0)
		if r > 8 {
			pr = r - 8
		}
		yp, err := ch.VersionForRound(r)
		e.c.Evals(1)
		if err != nil {
			e.violation("chain:version-for-round-failed", fmt.Sprintf("%s, node %s: VersionForRound(%d) fails although canonical header %d exists: %v", when, v.name, r, pr, err))
			return
		}
		if yp.Version != canon[pr].CurrVersion {
			e.violation("chain:active-version-not-from-canonical-chain", fmt.Sprintf("%s, node %s (head %d %x): VersionForRound(%d) = version %d, but the canonical header of round %d (%x) carries version %d", when, v.name, head, canon[head].Hash().Bytes()[:4], r, yp.Version, pr, canon[pr].Hash().Bytes()[:4], canon[pr].CurrVersion))
			return
		}
	}
	e.c.Count("chain_active_version_lookups", int(head)+9)
	var m model.C12Monitor
	for k := uint64(1); k <= head; k++ {
		p, h := fromHeader(canon[k-1]), fromHeader(canon[k])
		class, msg := m.Step(p, h, e.paramsOf)
		if class != "" {
			e.violation("chain:"+class, fmt.Sprintf("%s, node %s, canonical chain: %s", when, v.name, msg))
			return
		}
	}
	e.c.Max("max_switches_on_canonical_chain", int64(m.Switches))
	if m.Switches > 0 {
		e.c.Count("canonical_chains_with_switch_checked", 1)
	}
}

// extend lets v's honest builder append k blocks; hide(n) says whether the builder knows YouV5
// while deriving block n.
func (e *chainEnv) extend(v *vnode, k int, hide func(n uint64) bool) []*types.Block {
	var out []*types.Block
	for j := 0; j < k && !e.bad; j++ {
		parent := v.n.Chain.CurrentBlock()
		num := parent.NumberU64() + 1
		// (a builder that does not know the version that is ALREADY active cannot build at all - the real
		// node terminates there; the sibling builder only lacks the next version while YouV4 is active)
		if hide != nil && hide(num) && parent.Header().CurrVersion == params.YouV4 {
			params.Versions = e.hidden
		} else {
			params.Versions = e.known
		}
		var res *build.Result
		var err error
		if g := kit.Guard(func() { res, err = v.b.Build(parent.Time()+1, build.NewOrderedTxs(types.MakeSigner(parent.Number()), nil)) }); g != nil {
			err = fmt.Errorf("panic: %v", g)
		}
		params.Versions = e.known
		if err != nil {
			e.violation("chain:honest-builder-failed", fmt.Sprintf("node %s: the honest builder fails on block %d: %v", v.name, num, err))
			return out
		}
		blk := res.Block
		h := fromHeader(blk.Header())
		e.log = append(e.log, fmt.Sprintf("%s builds #%d %x %v", v.name, num, blk.Hash().Bytes()[:4], h))
		if err := v.n.Chain.InsertChain(types.Blocks{blk}); err != nil {
			e.violation("chain:"+clsHonestRejected, fmt.Sprintf("node %s: the block %v its honest builder derived from the head is rejected by InsertChain: %v", v.name, h, err))
			return out
		}
		if v.n.Chain.CurrentBlock().Hash() != blk.Hash() {
			e.violation("chain:"+clsHonestRejected, fmt.Sprintf("node %s: the block %v built on the head did not become the head", v.name, h))
			return out
		}
		e.c.Count("chain_blocks_built", 1)
		out = append(out, blk)
	}
	return out
}

func (e *chainEnv) offer(v *vnode, blocks []*types.Block, what string, r *rand.Rand) {
	for len(blocks) > 0 && !e.bad {
		k := len(blocks)
		if r.Intn(2) == 0 {
			k = 1 + r.Intn(len(blocks))
		}
		var err error
		if g := kit.Guard(func() { err = v.n.Chain.InsertChain(blocks[:k]) }); g != nil {
			e.violation("chain:insertchain-panic", fmt.Sprintf("node %s panics importing %s[%d..%d]: %v", v.name, what, blocks[0].NumberU64(), blocks[k-1].NumberU64(), g))
			return
		}
		e.log = append(e.log, fmt.Sprintf("%s imports %s[%d..%d] -> %v, head #%d %x", v.name, what, blocks[0].NumberU64(), blocks[k-1].NumberU64(), err, v.n.Chain.CurrentBlock().NumberU64(), v.n.Chain.CurrentBlock().Hash().Bytes()[:4]))
		if err != nil {
			e.violation("chain:honest-branch-rejected", fmt.Sprintf("node %s rejects %s[%d..%d], a branch of blocks each derived by an honest builder: %v", v.name, what, blocks[0].NumberU64(), blocks[k-1].NumberU64(), err))
			return
		}
		e.checkNode(v, "after importing "+what)
		blocks = blocks[k:]
	}
}

func chainCase(c *kit.Ctx, id string, r *rand.Rand) {
	venv.Init()
	saved := params.Versions
	defer func() { params.Versions = saved }()
	// scaled-down upgrade parameters of YouV4 (threshold below the window so that the quorum is
	// reached inside the window, minimum wait >= 1: the two listed C12 findings are not the subject)
	vote := uint64(3 + r.Intn(5))
	thr := uint64(1 + r.Intn(int(vote)-1))
	minW := uint64(1 + r.Intn(3))
	maxW := minW + uint64(r.Intn(4))
	e := &chainEnv{c: c, known: params.VersionsMap{}, hidden: params.VersionsMap{}}
	for v, yp := range saved {
		if v == params.YouV4 {
			yp.UpgradeVoteRounds, yp.UpgradeThreshold, yp.MinUpgradeWaitRounds, yp.MaxUpgradeWaitRounds = vote, thr, minW, maxW
		}
		e.known[v] = yp
		if v == params.YouV4 {
			yp.ApprovedUpgradeVersion = 0 // does not know of an approved upgrade: neither proposes nor approves
		}
		if v != params.YouV5 {
			e.hidden[v] = yp
		}
	}
	e.p4, _ = e.paramsOf(uint64(params.YouV4))
	params.Versions = e.known
	c.Begin(id, map[string]interface{}{"voteRounds": vote, "threshold": thr, "minWait": minW, "maxWait": maxW})
	keys := venv.Keyring{Seed: 7700 + int64(r.Intn(4))}
	on := uint8(params.ValidatorOnline)
	g := venv.MakeGenesis(venv.Config{Keys: keys, Users: 3, Version: params.YouV4, RewardsPool: venv.YOU(1000000), Vals: []venv.ValSpec{
		{Role: params.RoleChancellor, Status: on, Tokens: venv.YOU(3000), Operator: 0},
		{Role: params.RoleSenator, Status: on, Tokens: venv.YOU(800), Operator: 1},
		{Role: params.RoleHouse, Status: on, Tokens: venv.YOU(200), Operator: 2},
	}})
	mk := func(name string) *vnode {
		eng := venv.NewNeutralEngine(keys.ValAddr(0))
		nd, err := venv.NewNode(g, eng)
		if err != nil {
			return nil
		}
		return &vnode{name: name, n: nd, b: build.New(nd.Chain, eng)}
	}
	M, F, T := mk("M"), mk("F"), mk("T")
	if M == nil || F == nil || T == nil {
		c.EndInconclusive("node setup failed")
		return
	}
	defer func() {
		params.Versions = e.known
		M.n.Stop()
		F.n.Stop()
		T.n.Stop()
	}()
	// main branch: proposal in block 1, switch at 1+vote+wait; some blocks beyond the switch + 8
	switchM := 1 + vote + minW
	lm := int(switchM) + 9 + r.Intn(4)
	// the main builder may also miss a few approvals inside the window (still reaching the threshold or not)
	skip := map[uint64]bool{}
	for k := 0; k < r.Intn(3); k++ {
		skip[2+uint64(r.Intn(int(vote)))] = true
	}
	main := e.extend(M, lm, func(n uint64) bool { return n > 1 && skip[n] })
	e.checkNode(M, "after building main")
	// sibling branch: forks at height k, builder does not know YouV5 for the first d blocks
	k := r.Intn(3)
	d := 1 + r.Intn(int(vote)+2)
	if !e.bad && k > 0 {
		e.offer(F, main[:k], "main", r)
	}
	extraF := 1 + r.Intn(3)
	F.b.Extra = []byte("sibling")
	fork := e.extend(F, lm-k+extraF, func(n uint64) bool { return n <= uint64(k+d) })
	e.checkNode(F, "after building the sibling branch")
	// T: main, lookups, sibling (reorg), lookups, longer main (reorg back), lookups
	if !e.bad {
		e.offer(T, main, "main", r)
	}
	differ := 0
	if !e.bad {
		for j, b := range fork {
			n := b.NumberU64()
			if int(n) <= len(main) && main[n-1].Header().CurrVersion != fork[j].Header().CurrVersion {
				differ++
			}
		}
		c.Count("chain_heights_where_branches_differ_in_version", differ)
		if differ > 0 {
			c.Count("chain_cases_with_version_divergent_branches", 1)
		}
		e.offer(T, fork, "sibling", r)
		if !e.bad && T.n.Chain.CurrentBlock().Hash() == fork[len(fork)-1].Hash() {
			c.Count("chain_reorgs_to_sibling", 1)
		}
	}
	var more []*types.Block
	if !e.bad {
		more = e.extend(M, extraF+1+r.Intn(2), nil)
		e.offer(T, more, "main-continuation", r)
		if !e.bad && T.n.Chain.CurrentBlock().Hash() == more[len(more)-1].Hash() {
			c.Count("chain_reorgs_back_to_main", 1)
		}
	}
	// the builder on T (whose caches have seen both branches) must still derive acceptable blocks
	if !e.bad {
		tb := e.extend(T, 2, nil)
		if len(tb) == 2 {
			e.offer(M, tb, "built-on-T", r)
		}
	}
	c.Sample(map[string]interface{}{"params": e.p4, "fork_at": k, "sibling_hides_next_version_for": d, "steps": tailS(e.log, 12)})
	c.End(fmt.Sprintf("vote%d thr%d min%d k%d d%d differ%v", vote, thr, minW, k, bucketN(d), differ > 0))
	_ = core.GenesisAlloc{}
}

func bucketN(n int) int {
	if n > 4 {
		return 5
	}
	return n
}
