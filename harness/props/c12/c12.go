// Package c12: the protocol version changes only by a quorum of block votes, at the announced
// round; every honest child is accepted by the verifier.
//
// Code under test: core.ProcessYouVersionState (builder) and core.VerifyYouVersionState
// (validator) with scaled-down and the real params.Versions tables.
// Oracle: model.C12Monitor, an online trace checker written from the property statement, run over
// every chain the REAL verifier accepted; plus "the real verifier accepts the real builder's child
// of every reachable parent".
package c12

import (
	"fmt"
	"math/big"
	"math/rand"
	"sort"

	"verif/kit"
	"verif/model"

	"github.com/youchainhq/go-youchain/core"
	"github.com/youchainhq/go-youchain/core/types"
	"github.com/youchainhq/go-youchain/params"
)

func init() {
	kit.Register("C12.walk", runWalks)
	kit.Register("C12.sweep", runSweeps)
	kit.Register("C12.probe", runProbes)
}

type hdr = model.C12Hdr

// violation classes owned by this package (the trace-checker classes live in model/c12_fsm.go)
const (
	clsHonestRejected         = "honest-child-rejected"
	clsZeroWaitHonestRejected = "zero-wait-honest-clear-rejected"        // the builder clears a failed proposal whose switch round == window end; the verifier demands the switch
	clsBuilderAtWindowEnd     = "builder-approval-counted-at-window-end" // quorum only with a window-end approval that the BUILDER itself added
)

// classes that are exactly characterised and leave the monitor in a well-defined state: reported
// once per case, and the case goes on (so that a known finding never hides anything else).
var continuing = map[string]bool{
	model.C12ApprovalAtWindowEnd:   true,
	model.C12ZeroWaitWithoutQuorum: true,
	clsZeroWaitHonestRejected:      true,
}

// ---- configuration tables ----

type vcfg struct {
	ID       uint64 `json:"id"`
	Approved uint64 `json:"approvedUpgrade"`
	Wait     uint64 `json:"upgradeWait"`
	model.C12Params
}

type table struct {
	Name     string `json:"name,omitempty"`
	Versions []vcfg `json:"versions"`
	Unknown  uint64 `json:"unknownVersion"`
	Start    uint64 `json:"startRound"`
	StartV   uint64 `json:"startVersion"`
	byID     map[uint64]*vcfg
}

func (t *table) index() {
	t.byID = map[uint64]*vcfg{}
	for i := range t.Versions {
		t.byID[t.Versions[i].ID] = &t.Versions[i]
	}
}

func (t *table) paramsOf(v uint64) (model.C12Params, bool) {
	if c, ok := t.byID[v]; ok {
		return c.C12Params, true
	}
	return model.C12Params{}, false
}

func (t *table) known(v uint64) bool { _, ok := t.byID[v]; return ok }

// install replaces the process-global params.Versions (single goroutine only).
func (t *table) install() {
	m := params.VersionsMap{}
	for _, v := range t.Versions {
		m[params.YouVersion(v.ID)] = params.YouParams{
			Version:                params.YouVersion(v.ID),
			ApprovedUpgradeVersion: params.YouVersion(v.Approved),
			UpgradeWaitRounds:      v.Wait,
			UpgradeVoteRounds:      v.VoteRounds,
			UpgradeThreshold:       v.Threshold,
			MinUpgradeWaitRounds:   v.MinWait,
			MaxUpgradeWaitRounds:   v.MaxWait,
		}
	}
	params.Versions = m
}

// tableFromParams reads the currently installed params.Versions (used for the real tables).
func tableFromParams(name string) *table {
	t := &table{Name: name}
	var maxID uint64
	for id, p := range params.Versions {
		t.Versions = append(t.Versions, vcfg{ID: uint64(id), Approved: uint64(p.ApprovedUpgradeVersion), Wait: p.UpgradeWaitRounds,
			C12Params: model.C12Params{VoteRounds: p.UpgradeVoteRounds, Threshold: p.UpgradeThreshold, MinWait: p.MinUpgradeWaitRounds, MaxWait: p.MaxUpgradeWaitRounds}})
		if uint64(id) > maxID {
			maxID = uint64(id)
		}
	}
	sort.Slice(t.Versions, func(i, j int) bool { return t.Versions[i].ID < t.Versions[j].ID })
	t.Unknown = maxID + 1
	t.StartV = t.Versions[0].ID
	t.index()
	return t
}

func genTable(r *rand.Rand) *table {
	t := &table{}
	nv := 2 + r.Intn(3)
	id := uint64(1)
	var ids []uint64
	sparse := r.Intn(4) == 0
	for i := 0; i < nv; i++ {
		ids = append(ids, id)
		id++
		if sparse {
			id += uint64(r.Intn(3))
		}
	}
	t.Unknown = id + uint64(r.Intn(3))
	if sparse && r.Intn(2) == 0 {
		// an unknown id inside a gap, if there is one
		for i := 1; i < len(ids); i++ {
			if ids[i] > ids[i-1]+1 {
				t.Unknown = ids[i-1] + 1
				break
			}
		}
	}
	for i := 0; i < nv; i++ {
		var v vcfg
		v.ID = ids[i]
		if r.Intn(100) < 15 {
			v.VoteRounds = uint64(1 + r.Intn(2))
		} else {
			v.VoteRounds = uint64(3 + r.Intn(6))
		}
		switch x := r.Intn(100); {
		case x < 6:
			v.Threshold = 0
		case x < 16:
			v.Threshold = v.VoteRounds + 1
		default:
			v.Threshold = uint64(1 + r.Intn(int(v.VoteRounds)))
		}
		v.MinWait = uint64(r.Intn(7))
		if v.MinWait == 0 && r.Intn(2) == 0 {
			v.MinWait = uint64(r.Intn(7))
		}
		v.MaxWait = v.MinWait + uint64(r.Intn(int(7-v.MinWait)))
		v.Wait = uint64(r.Intn(8))
		alt := func() uint64 {
			switch x := r.Intn(100); {
			case x < 50:
				return ids[0]
			case x < 70:
				return 0
			case x < 85:
				return t.Unknown
			case x < 92:
				return v.ID
			default:
				return ids[r.Intn(nv)]
			}
		}
		if i < nv-1 && r.Intn(10) > 0 {
			v.Approved = ids[i+1]
		} else {
			v.Approved = alt()
		}
		t.Versions = append(t.Versions, v)
	}
	t.Start = uint64(r.Intn(40))
	if r.Intn(10) == 0 {
		t.Start = 1<<40 + uint64(r.Intn(1000))
	}
	t.StartV = ids[0]
	if r.Intn(5) == 0 {
		t.StartV = ids[r.Intn(nv)]
	}
	t.index()
	return t
}

func (t *table) horizon() int {
	var m uint64
	for _, v := range t.Versions {
		if x := v.VoteRounds + v.MaxWait; x > m {
			m = x
		}
	}
	return int(m)
}

// ---- driving the real code ----

type env struct {
	c  *kit.Ctx
	t  *table
	ph *types.Header
	ch *types.Header

	reported map[string]bool
	stop     bool
	sigs     map[string]struct{}

	nverify, naccept, ncrit int
}

func newEnv(c *kit.Ctx, t *table, sigs map[string]struct{}) *env {
	return &env{c: c, t: t, ph: &types.Header{Number: new(big.Int)}, ch: &types.Header{Number: new(big.Int)}, reported: map[string]bool{}, sigs: sigs}
}

func setHeader(dst *types.Header, h hdr) {
	dst.Number.SetUint64(h.Round)
	dst.CurrVersion = params.YouVersion(h.Curr)
	dst.NextVersion = params.YouVersion(h.Next)
	dst.NextApprovals = h.Approvals
	dst.NextVoteBefore = h.VoteBefore
	dst.NextSwitchOn = h.SwitchOn
}

func fromHeader(h *types.Header) hdr {
	return hdr{Round: h.Number.Uint64(), Curr: uint64(h.CurrVersion), Next: uint64(h.NextVersion), Approvals: h.NextApprovals, VoteBefore: h.NextVoteBefore, SwitchOn: h.NextSwitchOn}
}

// wouldCrit recognises the two intended fatal exits of the verifier (logging.Crit = os.Exit(1)):
// an unknown active version, and a well-formed switch to a version this client does not know.
func (e *env) wouldCrit(p, c hdr) bool {
	if !e.t.known(p.Curr) {
		return true
	}
	if p.SwitchOn == c.Round && p.Next == c.Curr && c.Next == 0 && c.VoteBefore == 0 && c.SwitchOn == 0 && c.Approvals == 0 {
		return !e.t.known(c.Curr)
	}
	return false
}

func (e *env) setParent(p hdr) { setHeader(e.ph, p) }

// verify runs the real verifier on (parent set by setParent, c).
func (e *env) verify(c hdr) error {
	setHeader(e.ch, c)
	e.nverify++
	return core.VerifyYouVersionState(e.ph, e.ch)
}

// honest runs the real builder.
func (e *env) honest(p hdr) (hdr, error) {
	ph := &types.Header{Number: new(big.Int)}
	setHeader(ph, p)
	ch := &types.Header{Number: new(big.Int).SetUint64(p.Round + 1)}
	if err := core.ProcessYouVersionState(ph, ch); err != nil {
		return hdr{}, err
	}
	return fromHeader(ch), nil
}

type witness struct {
	Table *table `json:"table"`
	Trace []hdr  `json:"trace"`
	Note  string `json:"note,omitempty"`
}

func (e *env) report(class, msg string, trace []hdr, note string) {
	e.c.Count("flag_"+class, 1)
	if !continuing[class] {
		e.stop = true
	}
	if e.reported[class] {
		return
	}
	e.reported[class] = true
	tr := append([]hdr(nil), trace...)
	if len(tr) > 260 {
		// long chains (real tables): keep the head and the tail; the chain is deterministic in the case id
		note += fmt.Sprintf(" [trace of %d headers abridged: first 30 and last 200]", len(tr))
		tr = append(append([]hdr(nil), tr[:30]...), tr[len(tr)-200:]...)
	}
	e.c.Violation(class, msg, witness{Table: e.t, Trace: tr, Note: note})
}

// checkHonest builds the honest child of p and demands that the verifier accepts it.
// Returns (child, usable): usable is false when there is no honest child to continue with.
func (e *env) checkHonest(p hdr, trace []hdr) (hdr, bool) {
	hc, err := e.honest(p)
	if err != nil {
		e.c.Count("honest_builder_errors", 1)
		return hdr{}, false
	}
	if e.wouldCrit(p, hc) {
		// the honest builder switches to a version this client does not know: the verifier's
		// intended fatal exit ("may be you should update the client"), not a verdict
		e.c.Count("skipped_honest_switch_to_unknown", 1)
		return hc, false
	}
	e.setParent(p)
	verr := e.verify(hc)
	e.c.Evals(1)
	e.c.Count("honest_children_checked", 1)
	if verr != nil {
		class := clsHonestRejected
		par, _ := e.t.paramsOf(p.Curr)
		if p.Next != 0 && p.SwitchOn == p.VoteBefore && p.SwitchOn == hc.Round && p.Approvals < par.Threshold && hc.Next == 0 && hc.Curr == p.Curr {
			class = clsZeroWaitHonestRejected
		}
		e.report(class, fmt.Sprintf("VerifyYouVersionState rejects (%v) the header %v that ProcessYouVersionState derived from parent %v", verr, hc, p),
			append(append([]hdr(nil), trace...), hc), "last trace element = rejected honest child")
		return hc, false
	}
	return hc, true
}

func sat(x, d uint64) uint64 {
	if x < d {
		return 0
	}
	return x - d
}

func uniq(dst []uint64, vals ...uint64) []uint64 {
	dst = dst[:0]
outer:
	for _, v := range vals {
		for _, d := range dst {
			if d == v {
				continue outer
			}
		}
		dst = append(dst, v)
	}
	return dst
}

func (t *table) otherKnown(a, b uint64) uint64 {
	for _, v := range t.Versions {
		if v.ID != a && v.ID != b {
			return v.ID
		}
	}
	return t.Versions[0].ID
}

type grid struct{ cv, nv, na, vb, so []uint64 }

// candidates enumerates the full grid of "interesting" values of the five version fields for
// a child of p (hc = honest child when hasH), calls the real verifier on each and returns the
// accepted ones.
func (e *env) candidates(g *grid, p hdr, hc hdr, hasH bool, acc []hdr) []hdr {
	t := e.t
	cfg := t.byID[p.Curr]
	n := p.Round + 1
	if !hasH {
		hc = hdr{Round: n, Curr: p.Curr, Next: p.Next, Approvals: p.Approvals, VoteBefore: p.VoteBefore, SwitchOn: p.SwitchOn}
	}
	T, VR := cfg.Threshold, cfg.VoteRounds
	B := n + VR
	other := t.otherKnown(p.Curr, p.Next)
	g.cv = uniq(g.cv, p.Curr, p.Next, other, t.Unknown, 0, hc.Curr)
	g.nv = uniq(g.nv, 0, p.Next, hc.Next, cfg.Approved, p.Curr, other, t.Unknown)
	g.na = uniq(g.na, 0, 1, p.Approvals, p.Approvals+1, p.Approvals+2, sat(p.Approvals, 1), T, sat(T, 1), T+1, hc.Approvals)
	g.vb = uniq(g.vb, 0, p.VoteBefore, p.VoteBefore+1, sat(p.VoteBefore, 1), n, n+1, B, B-1, B+1, hc.VoteBefore)
	g.so = uniq(g.so, 0, p.SwitchOn, p.SwitchOn+1, sat(p.SwitchOn, 1), n, n+1, B+cfg.MinWait, sat(B+cfg.MinWait, 1), B+cfg.MaxWait, B+cfg.MaxWait+1, B+(cfg.MinWait+cfg.MaxWait)/2, hc.SwitchOn)
	e.setParent(p)
	acc = acc[:0]
	c := hdr{Round: n}
	for _, cv := range g.cv {
		c.Curr = cv
		for _, nv := range g.nv {
			c.Next = nv
			for _, na := range g.na {
				c.Approvals = na
				for _, vb := range g.vb {
					c.VoteBefore = vb
					for _, so := range g.so {
						c.SwitchOn = so
						if e.wouldCrit(p, c) {
							e.ncrit++
							continue
						}
						if e.verify(c) == nil {
							acc = append(acc, c)
						}
					}
				}
			}
		}
	}
	e.naccept += len(acc)
	return acc
}

// edge categories (relative to the parent)
const (
	catSwitch = iota
	catPropose
	catNone
	catClear
	catPlus1
	catPlus0
	catOther
	nCat
)

var catName = [nCat]string{"switch", "propose", "none", "clear", "cont+1", "cont+0", "other"}

func category(p, c hdr) int {
	switch {
	case c.Curr != p.Curr:
		return catSwitch
	case p.Next == 0 && c.Next != 0:
		return catPropose
	case p.Next == 0:
		return catNone
	case c.Next == 0:
		return catClear
	case c.Next == p.Next && c.Approvals == p.Approvals+1:
		return catPlus1
	case c.Next == p.Next && c.Approvals == p.Approvals:
		return catPlus0
	}
	return catOther
}

func clip(x int64, lo, hi int64) int64 {
	if x < lo {
		return lo
	}
	if x > hi {
		return hi
	}
	return x
}

// stepSig is the abstract FSM state after a step: phase, approvals-threshold, rounds to window
// end, rounds to switch, and the kind of edge taken.
func (e *env) stepSig(m *model.C12Monitor, h hdr, cat int) {
	var s string
	if !m.Live {
		s = fmt.Sprintf("idle|%s|%s", catName[cat], m.Event)
	} else {
		phase := "voting"
		if h.Round >= m.WinEnd {
			phase = "waiting"
		}
		s = fmt.Sprintf("%s|%s|%s|a%d|w%d|s%d|vbΔ%d", phase, catName[cat], m.Event,
			clip(int64(m.InWindow)-int64(m.P.Threshold), -3, 2), clip(int64(m.WinEnd)-int64(h.Round), -2, 8),
			clip(int64(m.SwitchOn)-int64(h.Round), -1, 14), clip(int64(h.VoteBefore)-int64(m.VoteEnd), -1, 1))
	}
	if _, ok := e.sigs[s]; !ok {
		e.sigs[s] = struct{}{}
		e.c.Sig(s)
	}
}

// step applies one accepted header to a monitor. byBuilder: the header is the real builder's
// child. The class returned by the trace checker is refined: a window-end approval that the
// BUILDER added is a different failure from one that only an adversary can add.
func (e *env) step(m *model.C12Monitor, p, h hdr, byBuilder bool) (class, msg string) {
	class, msg = m.Step(p, h, e.t.paramsOf)
	if m.Event == "approve-at-end" && byBuilder {
		m.AtEndByBuilder = true
	}
	if class == model.C12ApprovalAtWindowEnd && m.AtEndByBuilder {
		class = clsBuilderAtWindowEnd
	}
	return
}

// observe applies one accepted header to the monitor of the trace and counts what happened.
func (e *env) observe(m *model.C12Monitor, p, h hdr, byBuilder bool) {
	wasLive, inWin, T := m.Live, m.InWindow, m.P.Threshold
	e.step(m, p, h, byBuilder)
	c := e.c
	switch m.Event {
	case "switch":
		c.Count("switches_observed", 1)
		if wasLive && inWin >= T {
			c.Count("switches_with_inwindow_quorum", 1)
		}
	case "announce":
		c.Count("proposals_announced", 1)
		if !e.t.known(h.Next) {
			c.Count("proposals_of_unknown_version", 1)
		}
	case "clear":
		c.Count("proposals_failed", 1)
	case "approve-in":
		c.Count("approvals_in_window", 1)
		if m.InWindow == m.P.Threshold {
			c.Count("threshold_reached_in_window", 1)
		}
	case "approve-at-end":
		c.Count("approvals_at_window_end", 1)
	case "approve-late":
		c.Count("approvals_after_window", 1)
	}
	if m.Live && h.VoteBefore != m.VoteEnd {
		c.Count("steps_with_rewritten_votebefore", 1)
	}
}

// checkAll runs the trace checker on every accepted candidate as a one-step extension of the
// trace (monitor state m is not modified). hc/hok: the builder's child of p, if any.
func (e *env) checkAll(m *model.C12Monitor, p hdr, acc []hdr, trace []hdr, hc hdr, hok bool) {
	for _, a := range acc {
		m2 := *m
		class, msg := e.step(&m2, p, a, hok && a == hc)
		if class != "" {
			e.report(class, msg, append(append([]hdr(nil), trace...), a), "last trace element = accepted header that violates the statement")
			if e.stop {
				break
			}
		}
	}
	e.c.Evals(len(acc))
}

// ---- workload 1: adversarial random walks inside the accepted space ----

func runWalks(c *kit.Ctx) {
	n := c.N(900, 45000)
	sigs := map[string]struct{}{}
	for i := 0; i < n; i++ {
		id := fmt.Sprintf("w%d", i)
		if !c.Mine(i, id) {
			continue
		}
		r := c.Rand(id)
		t := genTable(r)
		c.Begin(id, t)
		t.install()
		e := newEnv(c, t, sigs)
		c.Count("tables", 1)
		zw := false
		for _, v := range t.Versions {
			if v.MinWait == 0 {
				zw = true
			}
		}
		if zw {
			c.Count("tables_with_zero_min_wait", 1)
		}
		totSw := 0
		for w := 0; w < 10 && !e.stop; w++ {
			totSw += e.walk(r, w)
		}
		e.flushCounts()
		c.End(fmt.Sprintf("walk nv%d zw%v sw%d", len(t.Versions), zw, clip(int64(totSw), 0, 6)))
	}
}

func (e *env) flushCounts() {
	e.c.Count("candidates_verified", e.nverify)
	e.c.Count("candidates_accepted", e.naccept)
	e.c.Count("skipped_unknown_version_fatal", e.ncrit)
	e.nverify, e.naccept, e.ncrit = 0, 0, 0
}

func (e *env) walk(r *rand.Rand, w int) int {
	c, t := e.c, e.t
	pHonest := []float64{0, 0.5, 0.85}[r.Intn(3)]
	q := []float64{0.1, 0.5, 0.9}[r.Intn(3)]
	maxLen := 4 * t.horizon()
	if maxLen < 24 {
		maxLen = 24
	}
	maxLen = maxLen/2 + r.Intn(maxLen/2+1)
	p := hdr{Round: t.Start, Curr: t.StartV}
	var mon model.C12Monitor
	trace := []hdr{p}
	var g grid
	var acc []hdr
	var byCat [nCat][]hdr
	steps := 0
	for ; steps < maxLen; steps++ {
		hc, hok := e.checkHonest(p, trace)
		if e.stop {
			break
		}
		acc = e.candidates(&g, p, hc, hok, acc)
		e.checkAll(&mon, p, acc, trace, hc, hok)
		if e.stop {
			break
		}
		if len(acc) == 0 {
			c.Count("dead_ends", 1)
			break
		}
		var next hdr
		if hok && r.Float64() < pHonest {
			next = hc
			c.Count("steps_honest", 1)
		} else {
			for i := range byCat {
				byCat[i] = byCat[i][:0]
			}
			for _, a := range acc {
				k := category(p, a)
				byCat[k] = append(byCat[k], a)
			}
			wts := [nCat]float64{1, 1, 0.3, 0.3, 2 * q, 2 * (1 - q), 0.5}
			tot := 0.0
			for k := range byCat {
				if len(byCat[k]) > 0 {
					tot += wts[k]
				}
			}
			x := r.Float64() * tot
			k := 0
			for k = 0; k < nCat; k++ {
				if len(byCat[k]) == 0 {
					continue
				}
				x -= wts[k]
				if x < 0 {
					break
				}
			}
			if k >= nCat {
				for k = nCat - 1; len(byCat[k]) == 0; k-- {
				}
			}
			pool := byCat[k]
			if k == catPropose && r.Intn(5) > 0 {
				// prefer targets this client knows (an unknown target ends in the fatal exit at the switch)
				var kn []hdr
				for _, a := range pool {
					if t.known(a.Next) {
						kn = append(kn, a)
					}
				}
				if len(kn) > 0 {
					pool = kn
				}
			}
			next = pool[r.Intn(len(pool))]
			c.Count("steps_adversarial", 1)
			if next != hc || !hok {
				c.Count("steps_deviating_from_honest", 1)
			}
		}
		e.observe(&mon, p, next, hok && next == hc)
		e.stepSig(&mon, next, category(p, next))
		trace = append(trace, next)
		p = next
	}
	c.Count("walks", 1)
	c.Count("steps_accepted", steps)
	c.Max("max_walk_len", int64(steps))
	c.Max("max_switches_in_walk", int64(mon.Switches))
	if mon.Switches > 0 && w == 0 {
		k := len(trace)
		if k > 14 {
			k = 14
		}
		c.Sample(map[string]interface{}{"table": t, "trace_head": trace[:k], "switches": mon.Switches, "steps": steps})
	}
	return mon.Switches
}

// ---- workload 2: breadth-first sweep (depth 2) around every state of an honest run ----

func runSweeps(c *kit.Ctx) {
	n := c.N(400, 16000)
	sigs := map[string]struct{}{}
	for i := 0; i < n; i++ {
		id := fmt.Sprintf("b%d", i)
		if !c.Mine(i, id) {
			continue
		}
		r := c.Rand(id)
		t := genTable(r)
		c.Begin(id, t)
		t.install()
		e := newEnv(c, t, sigs)
		c.Count("tables", 1)
		sw := e.sweep(r, 2*t.horizon()+6, 24)
		e.flushCounts()
		c.End(fmt.Sprintf("sweep nv%d sw%d", len(t.Versions), clip(int64(sw), 0, 4)))
	}
}

// honestCont extends a state by the honest builder for up to H rounds, checking acceptance and
// the statement along the way.
func (e *env) honestCont(p hdr, mon model.C12Monitor, H int, trace []hdr) {
	tr := append([]hdr(nil), trace...)
	for k := 0; k < H && !e.stop; k++ {
		hc, ok := e.checkHonest(p, tr)
		if !ok {
			return
		}
		m2 := mon
		if class, msg := e.step(&m2, p, hc, true); class != "" {
			e.report(class, msg, append(tr, hc), "honest continuation after the deviation(s)")
			if e.stop {
				return
			}
		}
		e.c.Evals(1)
		e.observe(&mon, p, hc, true)
		e.stepSig(&mon, hc, category(p, hc))
		e.c.Count("steps_accepted", 1)
		tr = append(tr, hc)
		p = hc
	}
}

func pick(r *rand.Rand, acc []hdr, max int) []hdr {
	if len(acc) <= max {
		return acc
	}
	out := append([]hdr(nil), acc...)
	r.Shuffle(len(out), func(i, j int) { out[i], out[j] = out[j], out[i] })
	return out[:max]
}

func (e *env) sweep(r *rand.Rand, L int, maxBranch int) int {
	c, t := e.c, e.t
	H := t.horizon() + 3
	p := hdr{Round: t.Start, Curr: t.StartV}
	var mon model.C12Monitor
	trace := []hdr{p}
	var g, g2 grid
	for i := 0; i <= L && !e.stop; i++ {
		hc, hok := e.checkHonest(p, trace)
		if e.stop {
			break
		}
		acc := e.candidates(&g, p, hc, hok, nil)
		e.checkAll(&mon, p, acc, trace, hc, hok)
		if e.stop {
			break
		}
		c.Count("sweep_states", 1)
		for _, d1 := range pick(r, acc, maxBranch) {
			if e.stop {
				break
			}
			m1 := mon
			e.observe(&m1, p, d1, hok && d1 == hc)
			t1 := append(append([]hdr(nil), trace...), d1)
			c.Count("sweep_depth1", 1)
			e.honestCont(d1, m1, H, t1)
			if e.stop {
				break
			}
			if !t.known(d1.Curr) {
				continue
			}
			h1, h1err := e.honest(d1)
			acc2 := e.candidates(&g2, d1, h1, h1err == nil, nil)
			e.checkAll(&m1, d1, acc2, t1, h1, h1err == nil)
			for _, d2 := range pick(r, acc2, maxBranch) {
				if e.stop {
					break
				}
				m2 := m1
				e.observe(&m2, d1, d2, h1err == nil && d2 == h1)
				c.Count("sweep_depth2", 1)
				e.honestCont(d2, m2, H, append(append([]hdr(nil), t1...), d2))
			}
		}
		if !hok {
			break
		}
		e.observe(&mon, p, hc, true)
		e.stepSig(&mon, hc, category(p, hc))
		trace = append(trace, hc)
		p = hc
	}
	c.Max("max_switches_in_honest_run", int64(mon.Switches))
	if mon.Switches > 0 {
		k := len(trace)
		if k > 14 {
			k = 14
		}
		c.Sample(map[string]interface{}{"table": t, "honest_run_head": trace[:k], "switches": mon.Switches})
	}
	return mon.Switches
}
