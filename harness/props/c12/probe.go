package c12

import (
	"fmt"

	"verif/kit"
	"verif/model"

	"github.com/youchainhq/go-youchain/params"
)

// Workload C12.probe: deterministic cases.
//  - a self-test of the trace checker on fabricated traces (no code under test involved),
//  - directed adversaries (late approver, abstainer) on hand-made and on the three REAL
//    params.Versions tables (main net, test net, test-case),
//  - honest runs through all upgrades of the real tables with the candidate grid around the
//    interesting rounds, and a few random walks on the real test-case table.

type probeCase struct {
	id  string
	run func(c *kit.Ctx, id string)
}

func runProbes(c *kit.Ctx) {
	cases := []probeCase{{"monitor-selftest", monitorSelfTest}}
	mk := func(name string, vs ...vcfg) *table {
		t := &table{Name: name, Versions: vs, Unknown: 9, Start: 10, StartV: 1}
		t.index()
		return t
	}
	P := func(vr, th, mn, mx uint64) model.C12Params {
		return model.C12Params{VoteRounds: vr, Threshold: th, MinWait: mn, MaxWait: mx}
	}
	hand := []*table{
		mk("tiny", vcfg{ID: 1, Approved: 2, C12Params: P(3, 3, 2, 4)}, vcfg{ID: 2, Wait: 2, C12Params: P(3, 3, 2, 4)}),
		mk("threshold-above-window", vcfg{ID: 1, Approved: 2, C12Params: P(4, 5, 1, 3)}, vcfg{ID: 2, Wait: 0, C12Params: P(4, 5, 1, 3)}),
		mk("zero-wait", vcfg{ID: 1, Approved: 2, C12Params: P(3, 3, 0, 2)}, vcfg{ID: 2, Wait: 0, C12Params: P(3, 3, 0, 2)}),
		mk("one-round-window", vcfg{ID: 1, Approved: 2, C12Params: P(1, 2, 1, 1)}, vcfg{ID: 2, Wait: 1, C12Params: P(1, 2, 1, 1)}),
	}
	for _, t := range hand {
		t := t
		cases = append(cases, probeCase{"directed-" + t.Name, func(c *kit.Ctx, id string) {
			c.Begin(id, t)
			t.install()
			e := newEnv(c, t, map[string]struct{}{})
			e.directed()
			e.flushCounts()
			c.End("directed " + t.Name)
		}})
	}
	for _, net := range []struct {
		name string
		id   uint64
	}{{"mainnet", params.MainNetId}, {"testnet", params.TestNetId}, {"testcase", params.NetworkIdForTestCase}} {
		net := net
		load := func() *table {
			params.InitNetworkId(net.id)
			t := tableFromParams("real-" + net.name)
			t.Start = 0
			return t
		}
		cases = append(cases, probeCase{"directed-real-" + net.name, func(c *kit.Ctx, id string) {
			t := load()
			c.Begin(id, t)
			e := newEnv(c, t, map[string]struct{}{})
			e.directed()
			e.flushCounts()
			c.Count("real_tables_directed", 1)
			c.End("directed real " + net.name)
		}})
		cases = append(cases, probeCase{"honest-real-" + net.name, func(c *kit.Ctx, id string) {
			t := load()
			c.Begin(id, t)
			e := newEnv(c, t, map[string]struct{}{})
			sw := e.realHonestRun(c.Rand(id))
			e.flushCounts()
			c.Count("real_tables_honest_run", 1)
			c.End(fmt.Sprintf("honest real %s sw%d", net.name, sw))
		}})
	}
	cases = append(cases, probeCase{"walks-real-testcase", func(c *kit.Ctx, id string) {
		params.InitNetworkId(params.NetworkIdForTestCase)
		t := tableFromParams("real-testcase")
		c.Begin(id, t)
		e := newEnv(c, t, map[string]struct{}{})
		r := c.Rand(id)
		sw := 0
		for w := 0; w < c.N(3, 40) && !e.stop; w++ {
			sw += e.walk(r, w)
		}
		e.flushCounts()
		c.End(fmt.Sprintf("walks real testcase sw%d", clip(int64(sw), 0, 6)))
	}})
	for i, pc := range cases {
		if !c.Mine(i, pc.id) {
			continue
		}
		pc.run(c, pc.id)
	}
}

// ---- trace-checker self-test ----

func monitorSelfTest(c *kit.Ctx, id string) {
	c.Begin(id, nil)
	type tc struct {
		name string
		par  model.C12Params
		tr   []hdr
		want string
	}
	std := model.C12Params{VoteRounds: 3, Threshold: 2, MinWait: 2, MaxWait: 4}
	zw := model.C12Params{VoteRounds: 3, Threshold: 2, MinWait: 0, MaxWait: 4}
	idle := hdr{Round: 10, Curr: 1}
	ann := hdr{Round: 11, Curr: 1, Next: 2, Approvals: 1, VoteBefore: 14, SwitchOn: 16}
	h := func(n, na uint64) hdr {
		return hdr{Round: n, Curr: 1, Next: 2, Approvals: na, VoteBefore: 14, SwitchOn: 16}
	}
	sw := func(n, v uint64) hdr { return hdr{Round: n, Curr: v} }
	tests := []tc{
		{"good", std, []hdr{idle, ann, h(12, 2), h(13, 2), h(14, 2), h(15, 2), sw(16, 2), {Round: 17, Curr: 2}}, ""},
		{"good-failed-proposal", std, []hdr{idle, ann, h(12, 1), h(13, 1), {Round: 14, Curr: 1}, {Round: 15, Curr: 1, Next: 2, Approvals: 1, VoteBefore: 18, SwitchOn: 20}}, ""},
		{"no-proposal", std, []hdr{idle, sw(11, 2)}, model.C12SwitchWithoutProposal},
		{"wrong-round", std, []hdr{idle, ann, h(12, 2), h(13, 2), h(14, 2), sw(15, 2)}, model.C12SwitchWrongRound},
		{"wrong-round-after-rewrite", std, []hdr{idle, ann, h(12, 2), {Round: 13, Curr: 1, Next: 2, Approvals: 2, VoteBefore: 14, SwitchOn: 17}, h(14, 2), h(15, 2), h(16, 2), sw(17, 2)}, model.C12SwitchWrongRound},
		{"wrong-version", std, []hdr{idle, ann, h(12, 2), h(13, 2), h(14, 2), h(15, 2), sw(16, 3)}, model.C12SwitchWrongVersion},
		{"no-quorum", std, []hdr{idle, ann, h(12, 1), h(13, 1), h(14, 1), h(15, 1), sw(16, 2)}, model.C12SwitchWithoutQuorum},
		{"at-window-end", std, []hdr{idle, ann, h(12, 1), h(13, 1), h(14, 2), h(15, 2), sw(16, 2)}, model.C12ApprovalAtWindowEnd},
		{"after-window", std, []hdr{idle, ann, h(12, 1), h(13, 1), h(14, 1), h(15, 2), sw(16, 2)}, model.C12ApprovalAfterWindow},
		{"after-window-rewritten-votebefore", std, []hdr{idle, ann, h(12, 1), {Round: 13, Curr: 1, Next: 2, Approvals: 1, VoteBefore: 20, SwitchOn: 16}, {Round: 14, Curr: 1, Next: 2, Approvals: 1, VoteBefore: 20, SwitchOn: 16}, {Round: 15, Curr: 1, Next: 2, Approvals: 2, VoteBefore: 20, SwitchOn: 16}, sw(16, 2)}, model.C12ApprovalAfterWindow},
		{"jump", std, []hdr{idle, ann, h(12, 3)}, model.C12ApprovalsJump},
		{"jump-at-announce", std, []hdr{idle, {Round: 11, Curr: 1, Next: 2, Approvals: 2, VoteBefore: 14, SwitchOn: 16}}, model.C12ApprovalsJump},
		{"before-min-wait", std, []hdr{idle, {Round: 11, Curr: 1, Next: 2, Approvals: 1, VoteBefore: 14, SwitchOn: 15}, {Round: 12, Curr: 1, Next: 2, Approvals: 2, VoteBefore: 14, SwitchOn: 15}, {Round: 13, Curr: 1, Next: 2, Approvals: 2, VoteBefore: 14, SwitchOn: 15}, {Round: 14, Curr: 1, Next: 2, Approvals: 2, VoteBefore: 14, SwitchOn: 15}, sw(15, 2)}, model.C12SwitchBeforeMinWait},
		{"zero-wait", zw, []hdr{idle, {Round: 11, Curr: 1, Next: 2, Approvals: 1, VoteBefore: 14, SwitchOn: 14}, {Round: 12, Curr: 1, Next: 2, Approvals: 1, VoteBefore: 14, SwitchOn: 14}, {Round: 13, Curr: 1, Next: 2, Approvals: 1, VoteBefore: 14, SwitchOn: 14}, sw(14, 2)}, model.C12ZeroWaitWithoutQuorum},
		{"retarget-loses-approvals", std, []hdr{idle, ann, h(12, 2), {Round: 13, Curr: 1, Next: 3, Approvals: 2, VoteBefore: 14, SwitchOn: 16}}, model.C12ApprovalsJump},
		{"window-longer-than-vote-rounds", std, []hdr{idle, {Round: 11, Curr: 1, Next: 2, Approvals: 1, VoteBefore: 18, SwitchOn: 20}, {Round: 12, Curr: 1, Next: 2, Approvals: 1, VoteBefore: 18, SwitchOn: 20}, {Round: 13, Curr: 1, Next: 2, Approvals: 1, VoteBefore: 18, SwitchOn: 20}, {Round: 14, Curr: 1, Next: 2, Approvals: 1, VoteBefore: 18, SwitchOn: 20}, {Round: 15, Curr: 1, Next: 2, Approvals: 2, VoteBefore: 18, SwitchOn: 20}, {Round: 16, Curr: 1, Next: 2, Approvals: 2, VoteBefore: 18, SwitchOn: 20}, {Round: 17, Curr: 1, Next: 2, Approvals: 2, VoteBefore: 18, SwitchOn: 20}, {Round: 18, Curr: 1, Next: 2, Approvals: 2, VoteBefore: 18, SwitchOn: 20}, {Round: 19, Curr: 1, Next: 2, Approvals: 2, VoteBefore: 18, SwitchOn: 20}, sw(20, 2)}, model.C12ApprovalAfterWindow},
	}
	var bad []string
	for _, t := range tests {
		par := t.par
		po := func(uint64) (model.C12Params, bool) { return par, true }
		var m model.C12Monitor
		got := ""
		for i := 1; i < len(t.tr); i++ {
			cl, _ := m.Step(t.tr[i-1], t.tr[i], po)
			if cl != "" {
				if i != len(t.tr)-1 {
					got = fmt.Sprintf("%s (early, at step %d)", cl, i)
				} else {
					got = cl
				}
				break
			}
		}
		c.Evals(1)
		c.Count("monitor_selftest_traces", 1)
		if got != t.want {
			bad = append(bad, fmt.Sprintf("%s: want %q got %q", t.name, t.want, got))
		}
	}
	if len(bad) > 0 {
		c.Note(fmt.Sprintf("trace checker self-test failed: %v", bad))
		c.EndInconclusive(fmt.Sprintf("trace checker self-test failed: %v", bad))
		return
	}
	c.End("")
}

// ---- directed adversaries ----

// accept verifies an adversary-made header with the real verifier and, if accepted, feeds the
// trace checker. Returns false when the verifier rejects it.
func (e *env) accept(mon *model.C12Monitor, p, h hdr, trace *[]hdr, byBuilder bool) bool {
	if e.wouldCrit(p, h) {
		e.ncrit++
		return false
	}
	e.setParent(p)
	if e.verify(h) != nil {
		return false
	}
	e.naccept++
	m2 := *mon
	if class, msg := e.step(&m2, p, h, byBuilder); class != "" {
		e.report(class, msg, append(append([]hdr(nil), *trace...), h), "directed adversary; last trace element = accepted header that violates the statement")
	}
	e.c.Evals(1)
	e.observe(mon, p, h, byBuilder)
	e.stepSig(mon, h, category(p, h))
	e.c.Count("steps_accepted", 1)
	*trace = append(*trace, h)
	return true
}

// directed plays, for every version of the table that can honestly propose an upgrade, (1) the
// late approver: abstain so that approvals are threshold-1 at the last round of the window, then
// approve in the block AT the announced window end; (2) the abstainer: never approve after the
// proposal, and at the window end try both the honest child and the switch. The outcome is
// judged only by the trace checker / honest-acceptance oracle.
func (e *env) directed() {
	for _, v := range e.t.Versions {
		if v.Approved == 0 || !e.t.known(v.Approved) {
			continue
		}
		for _, strat := range []string{"late-approver", "abstainer", "honest"} {
			if e.stop {
				return
			}
			e.playDirected(v, strat)
		}
	}
}

func (e *env) playDirected(v vcfg, strat string) {
	c := e.c
	p := hdr{Round: e.t.Start, Curr: v.ID}
	var mon model.C12Monitor
	trace := []hdr{p}
	// the honest proposal
	hc, ok := e.checkHonest(p, trace)
	if !ok || hc.Next == 0 {
		c.Count("directed_no_honest_proposal", 1)
		return
	}
	if !e.accept(&mon, p, hc, &trace, true) {
		return
	}
	p = hc
	vb, so, T := p.VoteBefore, p.SwitchOn, v.Threshold
	c.Count("directed_"+strat, 1)
	limit := so + 3
	for p.Round < limit && !e.stop {
		n := p.Round + 1
		hc, hok := e.checkHonest(p, trace)
		if e.stop {
			return
		}
		var next hdr
		cont := hdr{Round: n, Curr: p.Curr, Next: p.Next, Approvals: p.Approvals, VoteBefore: p.VoteBefore, SwitchOn: p.SwitchOn}
		plus := cont
		plus.Approvals++
		switch {
		case p.Next == 0 || p.Curr != v.ID:
			// proposal gone or switched: follow the honest builder
			if !hok {
				return
			}
			next = hc
		case strat == "honest":
			if !hok {
				return
			}
			next = hc
		case strat == "abstainer":
			if n < vb {
				next = cont
			} else if n == vb && so == vb {
				// zero wait: the switch header, whatever the approvals
				next = hdr{Round: n, Curr: p.Next}
				if !e.accept(&mon, p, next, &trace, false) {
					c.Count("directed_zero_wait_switch_rejected", 1)
					if !hok {
						return
					}
					next = hc
				} else {
					c.Count("directed_zero_wait_switch_accepted", 1)
					p = next
					continue
				}
			} else {
				if !hok {
					return
				}
				next = hc
			}
		case strat == "late-approver":
			switch {
			case n < vb:
				// approve as late as possible so that approvals == T-1 after round vb-1
				if T >= 1 && p.Approvals < T-1 && T-1-p.Approvals >= vb-n {
					next = plus
				} else {
					next = cont
				}
			case n == vb && T >= 2 && p.Approvals == T-1:
				// the block AT the announced window end adds the threshold-reaching approval
				if e.accept(&mon, p, plus, &trace, false) {
					c.Count("directed_window_end_approval_accepted", 1)
					p = plus
					continue
				}
				c.Count("directed_window_end_approval_rejected", 1)
				if !hok {
					return
				}
				next = hc
			default:
				if !hok {
					return
				}
				next = hc
			}
		}
		if !e.accept(&mon, p, next, &trace, hok && next == hc) {
			c.Count("directed_step_rejected", 1)
			return
		}
		p = next
	}
	c.Max("max_directed_trace_len", int64(len(trace)))
	if len(e.t.Versions) <= 2 && strat == "late-approver" {
		c.Sample(map[string]interface{}{"table": e.t, "strategy": strat, "trace": trace})
	}
}

// realHonestRun follows the honest builder through every upgrade of a real table; around the
// interesting rounds of each proposal (announcement, threshold crossing, window end, switch) and
// sparsely elsewhere, the whole candidate grid is tried and a few accepted deviations are
// continued honestly beyond the switch.
func (e *env) realHonestRun(r interface{ Intn(int) int }) int {
	c, t := e.c, e.t
	p := hdr{Round: 0, Curr: t.StartV}
	var mon model.C12Monitor
	trace := []hdr{p} // kept short: only a tail is used in witnesses
	var g grid
	idle := 0
	H := t.horizon() + 3
	near := func(a, b uint64) bool { return a+2 >= b && b+2 >= a }
	for !e.stop && idle < 40 {
		hc, hok := e.checkHonest(p, trace)
		if e.stop || !hok {
			break
		}
		n := hc.Round
		interesting := n%997 == 0
		if mon.Live {
			interesting = interesting || near(n, mon.Announced) || near(n, mon.Announced+mon.P.Threshold-1) || near(n, mon.WinEnd) || near(n, mon.SwitchOn)
		} else {
			interesting = interesting || idle < 3
		}
		if interesting {
			acc := e.candidates(&g, p, hc, true, nil)
			e.checkAll(&mon, p, acc, trace, hc, true)
			c.Count("sweep_states", 1)
			picks := acc
			if len(picks) > 5 {
				picks = append([]hdr(nil), acc...)
				for i := range picks {
					j := i + r.Intn(len(picks)-i)
					picks[i], picks[j] = picks[j], picks[i]
				}
				picks = picks[:5]
			}
			for _, d1 := range picks {
				if e.stop {
					break
				}
				if d1 == hc {
					continue
				}
				m1 := mon
				e.observe(&m1, p, d1, false)
				c.Count("sweep_depth1", 1)
				e.honestCont(d1, m1, H, append(append([]hdr(nil), trace...), d1))
			}
		}
		e.observe(&mon, p, hc, true)
		e.stepSig(&mon, hc, category(p, hc))
		c.Count("steps_accepted", 1)
		if len(trace) > 40 {
			trace = append(trace[:0], trace[len(trace)-20:]...)
		}
		trace = append(trace, hc)
		p = hc
		if !mon.Live && t.byID[p.Curr].Approved == 0 {
			idle++
		}
	}
	c.Max("max_switches_in_honest_run", int64(mon.Switches))
	c.Count("real_table_upgrades_followed", mon.Switches)
	return mon.Switches
}
