package c19

import (
	"os"
	"errors"
	"fmt"
	"math/big"
	"math/rand"
	"runtime"
	"strings"
	"sync"
	"time"

	"verif/kit"

	"github.com/youchainhq/go-youchain/common"
	"github.com/youchainhq/go-youchain/core/types"
	"github.com/youchainhq/go-youchain/event"
	"github.com/youchainhq/go-youchain/you/downloader"
	"github.com/youchainhq/go-youchain/youdb"
)

// ---- driver 2: the production trieSync (you/downloader/triesync.go) -------------------------
//
// downloader.New over a stub chain whose TrieBackingDb is the destination; scripted peers are
// registered with RegisterPeer, their RequestNodeData answers (or mis-answers) by calling
// DeliverNodeData from their own goroutines; the blocking entries are FetchVldTrie (exported) and,
// through the add-only hooks of you/downloader/verif_c19.go, the state / staking variants.
// No verdict depends on the RTT/TTL timers (a minute by default): peers that "never answer"
// leave through UnregisterPeer, whenever no peer is left an honest one joins, and a stalled sync
// gets a fresh honest peer every 1.5 s.

type dlChain struct{ db youdb.Database }

func (c dlChain) CurrentHeader() *types.Header                        { return &types.Header{Number: big.NewInt(0)} }
func (c dlChain) GetHeaderByNumber(uint64) *types.Header              { return nil }
func (c dlChain) GetHeaderByHash(common.Hash) *types.Header           { return nil }
func (c dlChain) GetLightStartHeader() *types.Header                  { return nil }
func (c dlChain) IsUcon() bool                                        { return false }
func (c dlChain) UconLookBackParams() (uint64, uint64)                { return 0, 0 }
func (c dlChain) TrieBackingDb(types.TrieKind) youdb.Database         { return c.db }
func (c dlChain) VerifyAcHeader(*types.Header, []*types.Header) error { return nil }
func (c dlChain) UpdateTrustedCht(*types.Header) error                { return nil }
func (c dlChain) UpdateTrustedBlt(*types.Header) error                { return nil }
func (c dlChain) GetHashFromCht(uint64) (common.Hash, error)          { return common.Hash{}, nil }
func (c dlChain) InsertGuaranteedHeaderChain([]*types.Header) (int, error) {
	return 0, nil
}
func (c dlChain) InsertHeaderChain([]*types.Header) (int, error) { return 0, nil }
func (c dlChain) HasBlock(common.Hash, uint64) bool              { return false }
func (c dlChain) CurrentBlock() *types.Block                     { return nil }
func (c dlChain) InsertChain(types.Blocks) error                 { return nil }
func (c dlChain) InsertReceiptChain(types.Blocks, []types.Receipts, bool) (int, error) {
	return 0, nil
}

// recDB is the destination: a memory database that records the order of all 32-byte-key writes
// (batches are applied in their Put order, as the memory and LevelDB batches do).
type recDB struct {
	*youdb.MemDatabase
	mu          sync.Mutex
	log         []kvw
	batchWrites int
	// fault injection: every batch Write whose ordinal (batchWrites after increment) is >= failFrom
	// (when failFrom > 0) fails like a full disk after having written half of its entries
	failFrom   int
	failedOnce bool
	failStack  string
}

var errInjectedWrite = errors.New("injected: no space left on device")

func (d *recDB) Put(k, v []byte) error {
	if len(k) == 32 {
		d.mu.Lock()
		d.log = append(d.log, kvw{common.BytesToHash(k), common.CopyBytes(v)})
		d.mu.Unlock()
	}
	return d.MemDatabase.Put(k, v)
}
func (d *recDB) NewBatch() youdb.Batch { return &recBatch{db: d} }

type recBatch struct {
	db   *recDB
	ks   [][]byte
	vs   [][]byte
	size int
}

func (b *recBatch) Put(k, v []byte) error {
	b.ks = append(b.ks, common.CopyBytes(k))
	b.vs = append(b.vs, common.CopyBytes(v))
	b.size += len(v)
	return nil
}
func (b *recBatch) Delete(k []byte) error { return nil }
func (b *recBatch) ValueSize() int        { return b.size }
func (b *recBatch) Reset()                { b.ks, b.vs, b.size = nil, nil, 0 }
func (b *recBatch) Write() error {
	b.db.mu.Lock()
	b.db.batchWrites++
	fail := b.db.failFrom > 0 && b.db.batchWrites >= b.db.failFrom
	if fail {
		b.db.failedOnce = true
		buf := make([]byte, 4096)
		b.db.failStack = string(buf[:runtime.Stack(buf, false)])
	}
	b.db.mu.Unlock()
	if fail {
		for i := 0; i < len(b.ks)/2; i++ {
			b.db.Put(b.ks[i], b.vs[i])
		}
		return errInjectedWrite
	}
	for i := range b.ks {
		if err := b.db.Put(b.ks[i], b.vs[i]); err != nil {
			return err
		}
	}
	return nil
}

type peerProfile struct {
	Name     string  `json:"name"`
	Shuffle  bool    `json:"shuffle,omitempty"`
	PPartial float64 `json:"pPartial,omitempty"` // answers only a non-empty subset
	PCorrupt float64 `json:"pCorrupt,omitempty"` // per item
	PDup     float64 `json:"pDup,omitempty"`     // per item
	PExtra   float64 `json:"pExtra,omitempty"`   // unrequested blobs appended
	PStale   float64 `json:"pStale,omitempty"`   // the previous answer is sent again in front
	PEmpty   float64 `json:"pEmpty,omitempty"`   // empty (non-nil) response
	PNil     float64 `json:"pNil,omitempty"`     // nil response: indistinguishable from a timeout
	PDrop    float64 `json:"pDrop,omitempty"`    // never answers: the peer leaves instead
	PDouble  float64 `json:"pDouble,omitempty"`  // the same response is delivered twice
}

func honestProfile(name string) peerProfile { return peerProfile{Name: name} }

func genProfile(r *rand.Rand, i int) peerProfile {
	p := peerProfile{Shuffle: r.Intn(2) == 0}
	pick := func(vals ...float64) float64 {
		if r.Intn(3) > 0 {
			return 0
		}
		return vals[r.Intn(len(vals))]
	}
	p.PPartial = pick(0.2, 0.6)
	p.PCorrupt = pick(0.05, 0.3, 1)
	p.PDup = pick(0.1, 0.5)
	p.PExtra = pick(0.2, 0.6)
	p.PStale = pick(0.2, 0.5)
	p.PEmpty = pick(0.1, 0.5)
	p.PNil = pick(0.1, 0.3)
	p.PDrop = pick(0.05, 0.3)
	p.PDouble = pick(0.1, 0.4)
	var f []string
	for n, v := range map[string]float64{"partial": p.PPartial, "corrupt": p.PCorrupt, "dup": p.PDup, "extra": p.PExtra, "stale": p.PStale, "empty": p.PEmpty, "nil": p.PNil, "drop": p.PDrop, "double": p.PDouble} {
		if v > 0 {
			f = append(f, n)
		}
	}
	sortStrings(f)
	p.Name = fmt.Sprintf("p%d[%s]", i, strings.Join(f, ","))
	return p
}

func sortStrings(s []string) {
	for i := 1; i < len(s); i++ {
		for j := i; j > 0 && s[j] < s[j-1]; j-- {
			s[j], s[j-1] = s[j-1], s[j]
		}
	}
}

type dlEnv struct {
	c *kit.Ctx
	w *world
	d *downloader.Downloader

	mu          sync.Mutex
	live        map[string]bool
	reqs        int
	cancelAfter int
	joinAfter   int // an honest peer joins after this many requests (0 = never)
	honestAfter int // number of requests after which a peer answers honestly
	rescues     int
	seed        *rand.Rand
	counts      map[string]int
}

func (e *dlEnv) count(k string, n int) {
	e.mu.Lock()
	e.counts[k] += n
	e.mu.Unlock()
}

func (e *dlEnv) addPeer(p peerProfile) {
	e.mu.Lock()
	pr := &dlPeer{env: e, prof: p, id: p.Name, r: rand.New(rand.NewSource(e.seed.Int63()))}
	e.live[pr.id] = true
	e.mu.Unlock()
	e.d.RegisterPeer(pr.id, pr)
}

// unregister is both the downloader's dropPeer callback and the way a scripted peer leaves.
func (e *dlEnv) unregister(id string) {
	e.mu.Lock()
	was := e.live[id]
	delete(e.live, id)
	need := len(e.live) == 0
	var name string
	if need {
		e.rescues++
		name = fmt.Sprintf("rescue%d", e.rescues)
	}
	e.mu.Unlock()
	if was {
		e.d.UnregisterPeer(id)
		e.count("peers_left", 1)
	}
	if need {
		e.addPeer(honestProfile(name))
		e.count("rescue_peers", 1)
	}
}

type dlPeer struct {
	env  *dlEnv
	prof peerProfile
	id   string
	mu   sync.Mutex
	r    *rand.Rand
	prev [][]byte
	nreq int
}

func (p *dlPeer) Head() (common.Hash, *big.Int)                                { return common.Hash{}, big.NewInt(0) }
func (p *dlPeer) Origin() *big.Int                                             { return big.NewInt(0) }
func (p *dlPeer) RequestHeadersByHash(common.Hash, int, int, bool, bool) error { return nil }
func (p *dlPeer) RequestHeadersByNumber(uint64, int, int, bool, bool) error    { return nil }
func (p *dlPeer) RequestBodies([]common.Hash) error                            { return nil }
func (p *dlPeer) RequestReceipts([]common.Hash) error                          { return nil }

// RequestNodeData runs on its own goroutine (peerConnection.FetchNodeData starts one per request).
func (p *dlPeer) RequestNodeData(kind types.TrieKind, hashes []common.Hash) error {
	e := p.env
	e.mu.Lock()
	e.reqs++
	n := e.reqs
	cancelNow := e.cancelAfter > 0 && n == e.cancelAfter
	joinNow := e.joinAfter > 0 && n == e.joinAfter
	e.counts["dl_requests"]++
	e.counts["dl_requested_items"] += len(hashes)
	if len(hashes) > e.counts["max_request_items"] {
		e.counts["max_request_items"] = len(hashes)
	}
	e.mu.Unlock()
	if joinNow {
		e.addPeer(honestProfile(fmt.Sprintf("late-joiner%d", n)))
	}
	if cancelNow {
		go e.d.Cancel()
		e.count("dl_cancels", 1)
	}
	p.mu.Lock()
	r, pf := p.r, p.prof
	p.nreq++
	if p.nreq > e.honestAfter {
		// every peer is EVENTUALLY honest (no verdict may depend on luck or on the TTL timers)
		pf = peerProfile{Name: pf.Name, Shuffle: pf.Shuffle}
	}
	x := r.Float64()
	var data [][]byte
	mode := "answer"
	switch {
	case x < pf.PDrop:
		mode = "drop"
	case x < pf.PDrop+pf.PNil:
		mode = "nil"
	case x < pf.PDrop+pf.PNil+pf.PEmpty:
		mode = "empty"
		data = [][]byte{}
	default:
		idx := make([]int, len(hashes))
		for i := range idx {
			idx[i] = i
		}
		if pf.Shuffle {
			r.Shuffle(len(idx), func(i, j int) { idx[i], idx[j] = idx[j], idx[i] })
		}
		if r.Float64() < pf.PPartial && len(idx) > 1 {
			idx = idx[:1+r.Intn(len(idx)-1)]
			e.count("dl_partial_answers", 1)
		}
		if len(p.prev) > 0 && r.Float64() < pf.PStale {
			data = append(data, p.prev...)
			e.count("dl_stale_items", len(p.prev))
		}
		for _, i := range idx {
			good := e.w.Uni[hashes[i]]
			if good == nil {
				e.count("dl_requested_unknown_hash", 1)
				continue
			}
			if r.Float64() < pf.PCorrupt {
				b, _ := corrupt(r, e.w, good)
				data = append(data, b)
				e.count("dl_corrupt_items", 1)
				continue
			}
			data = append(data, common.CopyBytes(good))
			if r.Float64() < pf.PDup {
				data = append(data, common.CopyBytes(good))
				e.count("dl_dup_items", 1)
			}
		}
		if r.Float64() < pf.PExtra {
			for k := 1 + r.Intn(3); k > 0; k-- {
				data = append(data, common.CopyBytes(e.w.Uni[e.w.uniKeys[r.Intn(len(e.w.uniKeys))]]))
				e.count("dl_extra_items", 1)
			}
		}
		if data == nil {
			data = [][]byte{}
		}
		p.prev = data
	}
	double := r.Float64() < pf.PDouble
	yield := r.Intn(3)
	p.mu.Unlock()
	for ; yield > 0; yield-- {
		runtime.Gosched()
	}
	e.count("dl_mode_"+mode, 1)
	if mode == "drop" {
		e.unregister(p.id)
		return nil
	}
	e.d.DeliverNodeData(p.id, data)
	if double {
		e.count("dl_double_deliveries", 1)
		e.d.DeliverNodeData(p.id, data)
	}
	return nil
}

// watchdog bounds one production sync in wall time (normal ones take milliseconds). It never
// produces a verdict: a firing makes the case inconclusive; after three firings in one child the
// remaining cases are not attempted (inconclusive as well) so that a hanging build fails fast.
const watchdog = 90 * time.Second

var watchdogFired int

type dlOutcome struct {
	Err      string `json:"err"`
	TimedOut bool   `json:"timedOut,omitempty"`
	Requests int    `json:"requests"`
}

// runDownload runs one production sync of t into dst.
func runDownload(c *kit.Ctx, r *rand.Rand, w *world, t *target, kind types.TrieKind, dst *recDB, profiles []peerProfile, cancelAfter, joinAfter int) (out dlOutcome, err error) {
	e := &dlEnv{c: c, w: w, live: map[string]bool{}, cancelAfter: cancelAfter, joinAfter: joinAfter, honestAfter: imin(40, 12+len(t.order)/2),
		seed: rand.New(rand.NewSource(r.Int63())), counts: map[string]int{}}
	e.d = downloader.New(dlChain{dst}, nil, dst, e.unregister, new(event.TypeMux))
	e.d.VerifBeginSession()
	for _, p := range profiles {
		e.addPeer(p)
	}
	// The production loop only re-assigns tasks when a response, a peer drop or a NEW peer arrives:
	// when every remaining peer has already failed the queued tasks it waits for peer churn (that
	// is liveness, not this property). The harness supplies the churn: while a sync is running an
	// honest peer joins every 1.5 s (normal syncs finish within milliseconds and never see one).
	stop := make(chan struct{})
	defer close(stop)
	go func() {
		tk := time.NewTicker(1500 * time.Millisecond)
		defer tk.Stop()
		for i := 0; ; i++ {
			select {
			case <-stop:
				return
			case <-tk.C:
				e.addPeer(honestProfile(fmt.Sprintf("churn%d", i)))
				e.count("dl_churn_peers_joined", 1)
			}
		}
	}()
	done := make(chan error, 1)
	go func() {
		switch {
		case t.State:
			done <- e.d.VerifSyncState(t.Root)
		case kind == types.KindValidator:
			done <- e.d.FetchVldTrie(t.Root)
		default:
			done <- e.d.VerifSyncTrie(kind, t.Root)
		}
	}()
	select {
	case err = <-done:
	case <-time.After(watchdog): // watchdog only: a firing makes the case inconclusive
		out.TimedOut = true
		watchdogFired++
		buf := make([]byte, 1<<20)
		buf = buf[:runtime.Stack(buf, true)]
		if len(buf) > 60000 {
			buf = buf[:60000]
		}
		e.mu.Lock()
		nreq := e.reqs
		e.mu.Unlock()
		c.Note(fmt.Sprintf("watchdog: production sync of %s (%d blobs) still running after %v; requests so far %d; goroutines:\n%s", t.Name, len(t.order), watchdog, nreq, buf))
		e.d.Cancel()
		err = <-done
	}
	e.d.Terminate()
	e.mu.Lock()
	out.Requests = e.reqs
	for k, n := range e.counts {
		if strings.HasPrefix(k, "max_") {
			c.Max(k, int64(n))
		} else {
			c.Count(k, n)
		}
	}
	e.mu.Unlock()
	if err != nil {
		out.Err = err.Error()
	}
	return out, err
}

func errBucket(err error) string {
	s := err.Error()
	switch {
	case strings.Contains(s, "failed with all peers"):
		return "failed-with-all-peers"
	case strings.Contains(s, "canceled"):
		return "canceled"
	case strings.Contains(s, "invalid trie node"):
		return "invalid-trie-node"
	}
	return "other"
}

func runDLCase(c *kit.Ctx, id string, kind string, big bool) {
	r := c.Rand(id)
	alias := kind == "alias"
	c.Begin(id, scenInput{Kind: kind, Alias: alias})
	if watchdogFired >= 3 {
		stuckSeen++
		c.EndInconclusive("skipped: the production sync already hung three times in this child")
		return
	}
	var w *world
	var err error
	switch kind {
	case "trie":
		w, err = genTrieWorld(r, big)
	case "state", "alias":
		w, err = genStateWorld(r, alias)
	case "prod":
		w, err = genProdWorld(r)
	}
	if err != nil {
		c.Count("gen_failed_"+kind, 1)
		c.Note(fmt.Sprintf("case %s: generator: %v", id, err))
		c.End("")
		return
	}
	var outcomes []dlOutcome
	var allProfiles [][]peerProfile
	v := &vctx{c: c, w: w}
	v.wit = func() interface{} {
		return map[string]interface{}{"world": describe(w), "profiles": allProfiles, "outcomes": outcomes}
	}
	tc := &truthCache{}
	dst := &recDB{MemDatabase: youdb.NewMemDatabase()}
	type job struct {
		t    *target
		kind types.TrieKind
	}
	main := w.Targets[0]
	var jobs []job
	switch kind {
	case "trie":
		jobs = []job{{main, []types.TrieKind{types.KindValidator, types.KindStaking, types.KindCht}[r.Intn(3)]}}
		if r.Intn(3) == 0 { // first the neighbouring root, then the target over the shared nodes
			jobs = append([]job{{w.Targets[1], types.KindValidator}}, jobs...)
		}
	case "state", "alias":
		jobs = []job{{main, types.KindState}}
		if r.Intn(3) == 0 {
			jobs = append([]job{{w.Targets[1], types.KindState}}, jobs...)
		}
	case "prod":
		jobs = []job{{w.Targets[1], types.KindValidator}, {w.Targets[2], types.KindStaking}, {main, types.KindState}}
		if r.Intn(3) == 0 {
			jobs = append(jobs, job{w.Targets[3], types.KindState}, job{w.Targets[4], types.KindValidator})
		}
	}
	inconclusive := ""
	sigParts := []string{kind, w.Style}
	for ji, jb := range jobs {
		if v.bad || inconclusive != "" {
			break
		}
		t := jb.t
		// phase 1: adversarial peers, possibly cancelled mid-way
		var profiles []peerProfile
		for i, n := 0, 1+r.Intn(4); i < n; i++ {
			if r.Intn(4) == 0 {
				profiles = append(profiles, honestProfile(fmt.Sprintf("p%d[honest]", i)))
			} else {
				profiles = append(profiles, genProfile(r, i))
			}
		}
		cancelAfter, joinAfter := 0, 0
		if r.Intn(4) == 0 {
			cancelAfter = 1 + r.Intn(3+len(t.order)/2)
		}
		if r.Intn(3) == 0 {
			joinAfter = 1 + r.Intn(3+len(t.order)/2)
		}
		allProfiles = append(allProfiles, profiles)
		v.label = fmt.Sprintf("dl job %d %s phase 1", ji, t.Name)
		logStart := len(dst.log)
		bw0 := dst.batchWrites
		initial := dbKeySet(dst.MemDatabase)
		// fault: the destination database starts failing its batch writes (full disk) - from the
		// first flush of this sync on, or from a later one (the final flush included)
		dst.mu.Lock()
		dst.failedOnce = false
		dst.mu.Unlock()
		if r.Intn(4) == 0 {
			dst.mu.Lock()
			dst.failFrom = dst.batchWrites + 1 + r.Intn(2)
			dst.mu.Unlock()
			if r.Intn(2) == 0 {
				// answer everything, so that the sync runs to its end and only the flush fails
				profiles = []peerProfile{honestProfile("h[honest, destination disk full]")}
				cancelAfter = 0
			}
			c.Count("dl_syncs_with_failing_destination", 1)
		}
		out, err := runDownload(c, r, w, t, jb.kind, dst, profiles, cancelAfter, joinAfter)
		dst.mu.Lock()
		if dst.failedOnce {
			c.Count("dl_destination_write_failures_hit", 1)
			if err == nil {
				c.Count("dl_sync_nil_despite_write_failure", 1)
				if os.Getenv("VERIF_C19_DEBUG") != "" {
					c.Note(fmt.Sprintf("nil despite write failure: %s kind=%v state=%v out=%+v failFrom=%d writes=%d bw0=%d profiles=%+v\n%s", t.Name, jb.kind, t.State, out, dst.failFrom, dst.batchWrites, bw0, profiles, dst.failStack))
				}
			}
		}
		dst.failFrom = 0
		dst.mu.Unlock()
		outcomes = append(outcomes, out)
		c.Count("dl_syncs", 1)
		if out.TimedOut {
			inconclusive = "production sync did not finish within the watchdog"
			break
		}
		c.Count("dl_batch_writes", dst.batchWrites-bw0)
		if dst.batchWrites-bw0 >= 2 {
			c.Count("dl_syncs_with_periodic_commit", 1)
		}
		if err == nil {
			c.Count("dl_syncs_nil", 1)
			sigParts = append(sigParts, "ok")
			if !checkComplete(v, tc, t, dst.MemDatabase) {
				break
			}
		} else {
			b := errBucket(err)
			c.Count("dl_syncs_error", 1)
			c.Count("dl_err_"+b, 1)
			sigParts = append(sigParts, b)
			if checkPartial(v, tc, t, dst.MemDatabase) {
				c.Count("interrupted_but_already_complete", 1)
			}
			if v.bad {
				break
			}
			// phase 2: resume over the same database with peers that answer everything
			profiles = []peerProfile{{Name: "h0[shuffle,dup]", Shuffle: true, PDup: 0.2}, honestProfile("h1[honest]")}
			allProfiles = append(allProfiles, profiles)
			v.label = fmt.Sprintf("dl job %d %s phase 2 (resume after %q)", ji, t.Name, b)
			out, err = runDownload(c, r, w, t, jb.kind, dst, profiles, 0, 0)
			outcomes = append(outcomes, out)
			c.Count("dl_syncs", 1)
			c.Count("dl_resumes", 1)
			if out.TimedOut {
				inconclusive = "production resume did not finish within the watchdog"
				break
			}
			if err != nil {
				inconclusive = "production resume with honest peers returned " + err.Error()
				break
			}
			c.Count("dl_syncs_nil", 1)
			if !checkComplete(v, tc, t, dst.MemDatabase) {
				break
			}
		}
		// the order in which the production commits wrote: children before parents
		dst.mu.Lock()
		seg := append([]kvw{}, dst.log[logStart:]...)
		dst.mu.Unlock()
		c.Evals(len(seg))
		c.Count("crash_prefixes_order_checked", len(seg))
		if i, missing := orderBreak(w, initial, seg); i >= 0 {
			c.Count("write_order_breaks_"+w.Kind+aliasTag(w), 1)
			// confirm on the real thing: crash right after that write, resume with an honest scheduler
			pdb := youdb.NewMemDatabase()
			for h := range initial {
				pdb.Put(h[:], w.Uni[h])
			}
			for _, wr := range seg[:i+1] {
				pdb.Put(wr.K[:], wr.V)
			}
			v.label = fmt.Sprintf("dl job %d %s: crash after write %d (%x written before its dependency %x), resumed", ji, t.Name, i, seg[i].K[:4], missing[:4])
			var rlog []kvw
			var trace []string
			res := runSession(v, r, t, pdb, genCfg(r, true), &rlog, &trace)
			if !v.bad && res.Completed {
				checkComplete(v, tc, t, pdb)
			}
		}
	}
	if !v.bad && inconclusive == "" {
		checkHygieneDL(v, dst.MemDatabase)
	}
	c.Count("cases_dl_"+kind, 1)
	c.Count("closure_nodes", len(main.order))
	if main.nShared > 0 {
		c.Count("cases_with_shared_nodes", 1)
	}
	c.Sample(map[string]interface{}{"world": describe(w), "profiles": allProfiles, "outcomes": outcomes})
	if inconclusive != "" && !v.bad {
		stuckSeen++
		c.EndInconclusive(inconclusive)
		return
	}
	c.End(strings.Join(sigParts, " "))
}

// checkHygieneDL: like checkHygiene, but the production state sync also stores its progress
// counter under the key "TrieSync".
func checkHygieneDL(v *vctx, db *youdb.MemDatabase) {
	for _, k := range db.Keys() {
		if len(k) != 32 && string(k) != "TrieSync" {
			v.viol("sync-wrote-foreign-key", fmt.Sprintf("destination holds the unexpected key %q", k))
			return
		}
	}
	checkHygiene(v, db, true)
}
