// Package c19: state/trie sync reproduces the source exactly or reports incompleteness.
//
// Two drivers over the same generated source worlds (see gen.go):
//   - C19.sched: the scheduler trie.NewSync / state.NewStateSync under an adversarial responder
//     (order, batching, duplicates, late and never-answered requests, corrupted bytes offered under
//     the hash of the delivered bytes, unrequested blobs), interruptions, aborted Commits, and a
//     crash after every single Put of the recorded write sequences, each followed by a resume to
//     the same or to a neighbouring root.
//   - C19.dl: the production trieSync of you/downloader driven through downloader.New,
//     RegisterPeer / UnregisterPeer, DeliverNodeData and the blocking entries.
//
// Oracle: the source is the ground truth (model-built worlds: independent Yellow-Paper
// construction; prod worlds: what the StateDB pipeline wrote).
package c19

import (
	"bytes"
	"encoding/hex"
	"fmt"
	"math/big"
	"math/rand"

	"verif/kit"
	"verif/model"

	"github.com/youchainhq/go-youchain/common"
	"github.com/youchainhq/go-youchain/core/state"
	"github.com/youchainhq/go-youchain/rlp"
	"github.com/youchainhq/go-youchain/trie"
	"github.com/youchainhq/go-youchain/youdb"
)

func init() {
	kit.Register("C19.sched", runSched)
	kit.Register("C19.dl", runDL)
}

// selfCheck validates the harness' own reference pieces before they are used as ground truth.
func selfCheck(c *kit.Ctx) bool {
	c.Begin("selfcheck", nil)
	fail := func(why string) bool {
		c.Note("C19 self-check: " + why)
		c.EndInconclusive("reference self-check failed: " + why)
		return false
	}
	vec := map[string][]byte{"doe": []byte("reindeer"), "dog": []byte("puppy"), "dogglesworth": []byte("cat")}
	root, _ := model.MPTBuild(vec)
	if hex.EncodeToString(root) != "8aad789dff2f538bca5d8ea56e8abe10f4c7ba3a5dea95fea4cd6e7c3a1168d3" {
		return fail("MPTBuild root of the published doe/dog/dogglesworth vector")
	}
	if root, nodes := model.MPTBuild(nil); common.BytesToHash(root) != emptyRoot || len(nodes) != 0 {
		return fail("MPTBuild of the empty trie")
	}
	// the model's node set must be exactly what the production trie writer stores for the same content
	r := rand.New(rand.NewSource(12345))
	for i := 0; i < 30; i++ {
		content := genTrieContent(r, trieStyles[i%len(trieStyles)])
		mroot, mnodes := model.MPTBuild(content)
		disk := youdb.NewMemDatabase()
		tdb := trie.NewDatabase(disk)
		tr, _ := trie.New(common.Hash{}, tdb)
		for _, k := range sortedKeys(content) {
			tr.Update([]byte(k), content[k])
		}
		proot, err := tr.Commit(nil)
		if err != nil || tdb.Commit(proot, false) != nil {
			return fail("production trie commit")
		}
		if !bytes.Equal(proot[:], mroot) {
			return fail(fmt.Sprintf("model root %x != production root %x (style %s)", mroot, proot, trieStyles[i%len(trieStyles)]))
		}
		if disk.Len() != len(mnodes) {
			return fail(fmt.Sprintf("model stores %d nodes, production %d", len(mnodes), disk.Len()))
		}
		for h, blob := range mnodes {
			if got, _ := disk.Get([]byte(h)); !bytes.Equal(got, blob) {
				return fail("model node differs from production node")
			}
			if _, _, err := model.MPTNodeRefs(blob); err != nil {
				return fail("MPTNodeRefs: " + err.Error())
			}
		}
	}
	// account encoding
	a := &acct{Nonce: 7, Balance: 123456, DBal: 9, Code: []byte{1, 2, 3}, Dlg: []byte{0xc1, 0x80}}
	sr := common.HexToHash("0102030405060708091011121314151617181920212223242526272829303132")
	want, _ := rlp.EncodeToBytes(state.Account{Nonce: 7, Balance: big.NewInt(123456), Root: sr, CodeHash: model.Keccak256(a.Code),
		DelegationBalance: big.NewInt(9), DelegationsHash: model.Keccak256(a.Dlg)})
	if !bytes.Equal(encAccount(a, sr[:]), want) {
		return fail("account encoding differs from rlp(state.Account)")
	}
	c.End("")
	return true
}

// kindOf spreads the world kinds over the case indexes: 45% plain tries, 37% model-built states,
// 15% states written by the production pipeline, 3% code/node alias worlds.
func kindOf(i int) string {
	switch x := (i*37 + i/100) % 100; {
	case x < 45:
		return "trie"
	case x < 82:
		return "state"
	case x < 97:
		return "prod"
	}
	if i >= 20000 {
		return "state" // the alias family is a fixed-size probe (its finding is order dependent, not rare)
	}
	return "alias"
}

// stuckSeen counts syncs of this child that could not be judged because they never finished
// (scheduler dead end under an eventually honest responder, production sync watchdog). The
// orchestrator ignores inconclusive cases in its verdict, so each child that saw none adds one to
// children_without_stuck_sync and the plan requires all 16 children of a run to do so.
var stuckSeen int

func finishChild(c *kit.Ctx) {
	if c.Only == "" && stuckSeen == 0 {
		c.Count("children_without_stuck_sync", 1)
	}
}

func runSched(c *kit.Ctx) {
	if c.Only == "" && c.Batch == 0 && !selfCheck(c) {
		return
	}
	n := c.N(4000, 600000)
	if c.Mode == "race" {
		n = c.N(600, 30000)
	}
	for i := 0; i < n; i++ {
		kind := kindOf(i)
		id := fmt.Sprintf("s%d-%s", i, kind)
		if !c.Mine(i, id) {
			continue
		}
		runSchedCase(c, id, kind)
	}
	finishChild(c)
}

func runDL(c *kit.Ctx) {
	n := c.N(160, 20000)
	if c.Mode == "race" {
		n = c.N(160, 12000)
	}
	for i := 0; i < n; i++ {
		kind := kindOf(i)
		id := fmt.Sprintf("d%d-%s", i, kind)
		if !c.Mine(i, id) {
			continue
		}
		runDLCase(c, id, kind, kind == "trie" && i%7 == 0) // every 7th: a trie beyond the 100 KB periodic-commit threshold
	}
	finishChild(c)
}
