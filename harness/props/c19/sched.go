package c19

import (
	"errors"
	"fmt"
	"math/rand"
	"strings"
	"sync"

	"verif/kit"
	"verif/model"

	"github.com/youchainhq/go-youchain/common"
	"github.com/youchainhq/go-youchain/core/state"
	"github.com/youchainhq/go-youchain/trie"
	"github.com/youchainhq/go-youchain/youdb"
)

// ---- driver 1: the scheduler (trie.NewSync / state.NewStateSync) under an adversarial responder

var errInjected = errors.New("injected put failure")

// recPutter writes through to the destination, records the order of the writes and can abort
// at the n-th Put (the crash point between two Puts of one Commit).
type recPutter struct {
	db     youdb.Putter
	log    *[]kvw
	failAt int // -1: never
	n      int
}

func (p *recPutter) Put(k, v []byte) error {
	if p.failAt >= 0 && p.n >= p.failAt {
		return errInjected
	}
	p.n++
	*p.log = append(*p.log, kvw{common.BytesToHash(k), common.CopyBytes(v)})
	return p.db.Put(k, v)
}

type advCfg struct {
	MaxMissing  int     `json:"maxMissing"` // argument of Missing (0 = everything)
	BatchMax    int     `json:"batchMax"`   // results per Process call (1 = as the production caller)
	Order       string  `json:"order"`      // random | fifo | lifo
	PCorrupt    float64 `json:"pCorrupt"`
	PNever      float64 `json:"pNever"` // left unanswered this round (answered after a re-request later)
	PDup        float64 `json:"pDup"`
	PLate       float64 `json:"pLate"`  // an old, already delivered answer arrives again
	PUnreq      float64 `json:"pUnreq"` // a blob nobody asked for (or not yet asked for) is offered
	CommitEvery int     `json:"commitEvery"`
	StopAfter   int     `json:"stopAfter"` // interrupt the session after this many Process'ed results (0 = run to completion)
	CrashPut    int     `json:"crashPut"`  // the final Commit aborts before this Put (-1 = no)
	Conc        int     `json:"conc"`      // >0: answers are produced by this many responder goroutines
}

func genCfg(r *rand.Rand, honest bool) advCfg {
	cfg := advCfg{CrashPut: -1, Order: []string{"random", "random", "fifo", "lifo"}[r.Intn(4)]}
	cfg.MaxMissing = []int{0, 1, 2, 3, 8, 64}[r.Intn(6)]
	cfg.BatchMax = []int{1, 1, 2, 5, 1000}[r.Intn(5)]
	if honest {
		return cfg
	}
	p := func() float64 {
		if r.Intn(2) == 0 {
			return 0
		}
		return []float64{0.05, 0.2, 0.4}[r.Intn(3)]
	}
	cfg.PCorrupt, cfg.PNever, cfg.PDup, cfg.PLate, cfg.PUnreq = p(), p(), p(), p(), p()
	if r.Intn(2) == 0 {
		cfg.CommitEvery = 1 + r.Intn(12)
	}
	return cfg
}

func (a advCfg) feats() string {
	var f []string
	add := func(n string, p float64) {
		if p > 0 {
			f = append(f, n)
		}
	}
	add("corrupt", a.PCorrupt)
	add("never", a.PNever)
	add("dup", a.PDup)
	add("late", a.PLate)
	add("unreq", a.PUnreq)
	if a.CommitEvery > 0 {
		f = append(f, "commits")
	}
	if a.Conc > 0 {
		f = append(f, "conc")
	}
	b := "b1"
	if a.BatchMax > 1 {
		b = "bN"
	}
	m := "mAll"
	if a.MaxMissing > 0 {
		m = "mK"
	}
	return fmt.Sprintf("%s %s %s %s", a.Order, b, m, strings.Join(f, "+"))
}

type sessResult struct {
	Completed   bool `json:"completed"`
	Stuck       bool `json:"stuck"`
	Interrupted bool `json:"interrupted"`
	Crashed     bool `json:"crashed"`
	Results     int  `json:"results"`
	Accepted    int  `json:"accepted"`
	Rejected    int  `json:"rejected"`
	Writes      int  `json:"writes"`
}

type offer struct {
	data   []byte
	honest bool        // the genuine bytes of `want`
	want   common.Hash // the outstanding request this answers (zero for dup/late/unrequested extras)
	kind   string
}

func corrupt(r *rand.Rand, w *world, good []byte) ([]byte, string) {
	b := common.CopyBytes(good)
	switch r.Intn(6) {
	case 0:
		if len(b) > 0 {
			b[r.Intn(len(b))] ^= byte(1 << uint(r.Intn(8)))
			return b, "bitflip"
		}
		return []byte{0x80}, "bitflip"
	case 1:
		if len(b) > 1 {
			return b[:r.Intn(len(b))], "truncated"
		}
		return []byte{}, "truncated"
	case 2:
		return append(b, byte(r.Intn(256))), "extended"
	case 3:
		return []byte{}, "empty"
	case 4:
		o := w.Uni[w.uniKeys[r.Intn(len(w.uniKeys))]]
		return common.CopyBytes(o), "other-node"
	default:
		// structurally valid node with one child hash altered
		if len(b) > 40 {
			b[len(b)-1-r.Intn(32)] ^= 0xff
		} else if len(b) > 0 {
			b[0] ^= 0x01
		}
		return b, "child-altered"
	}
}

func newSched(t *target, db trie.DatabaseReader) *trie.Sync {
	if t.State {
		return state.NewStateSync(t.Root, db)
	}
	return trie.NewSync(t.Root, db, nil)
}

// runSession drives one scheduler instance over dst until completion, interruption or a stuck
// state. Every write goes through a recPutter appending to *log.
func runSession(v *vctx, r *rand.Rand, t *target, dst *youdb.MemDatabase, cfg advCfg, log *[]kvw, trace *[]string) (res sessResult) {
	c, w := v.c, v.w
	tr := func(f string, a ...interface{}) {
		if len(*trace) > 600 {
			*trace = append((*trace)[:0], (*trace)[len(*trace)-300:]...)
		}
		*trace = append(*trace, fmt.Sprintf(f, a...))
	}
	var sched *trie.Sync
	if p := kit.Guard(func() { sched = newSched(t, dst) }); p != nil {
		v.viol("sync-panic", fmt.Sprintf("creating the scheduler for %s panicked: %v", t.Name, p))
		return
	}
	tr("new %s %x", t.Name, t.Root[:4])
	var outstanding []common.Hash
	inOut := map[common.Hash]bool{}
	acceptedSet := map[common.Hash]bool{}
	var delivered []common.Hash
	logStart := len(*log)
	commit := func(failAt int) error {
		n, err := sched.Commit(&recPutter{db: dst, log: log, failAt: failAt})
		tr("commit n=%d err=%v", n, err)
		c.Count("commits", 1)
		return err
	}
	// concurrent responders (race build): each goroutine turns request hashes into answers
	var ask []chan common.Hash
	var answers chan offer
	var wg sync.WaitGroup
	if cfg.Conc > 0 {
		answers = make(chan offer, 4096)
		for i := 0; i < cfg.Conc; i++ {
			ch := make(chan common.Hash, 4096)
			ask = append(ask, ch)
			rr := rand.New(rand.NewSource(r.Int63()))
			wg.Add(1)
			go func() {
				defer wg.Done()
				for h := range ch {
					good := w.Uni[h]
					if rr.Float64() < cfg.PCorrupt {
						b, kind := corrupt(rr, w, good)
						answers <- offer{data: b, want: h, kind: kind}
						continue
					}
					answers <- offer{data: common.CopyBytes(good), honest: true, want: h, kind: "honest"}
					if rr.Float64() < cfg.PDup {
						answers <- offer{data: common.CopyBytes(good), kind: "dup"}
					}
				}
			}()
		}
		defer func() {
			for _, ch := range ask {
				close(ch)
			}
			go func() { // drain so that responders can finish
				for range answers {
				}
			}()
			wg.Wait()
			close(answers)
		}()
	}
	process := func(batch []offer) bool {
		// feed the batch; on an error Process stops at the failing index: continue behind it
		results := make([]trie.SyncResult, len(batch))
		for i, o := range batch {
			results[i] = trie.SyncResult{Hash: common.BytesToHash(model.Keccak256(o.data)), Data: o.data}
		}
		verdict := func(i int, err error) bool {
			o := batch[i]
			h := results[i].Hash
			res.Results++
			c.Evals(1)
			c.Count("offer_"+o.kind, 1)
			if err == nil {
				res.Accepted++
				if !t.closure[h] {
					v.viol("sync-accepts-foreign-data", fmt.Sprintf("Process accepted a %s blob hashing to %x which is not part of the trie being synced (%s)", o.kind, h[:6], t.Name))
					return false
				}
				if acceptedSet[h] {
					c.Count("accepted_twice", 1)
				}
				acceptedSet[h] = true
				if !o.honest {
					c.Count("accepted_nonhonest_offer", 1) // e.g. "other-node" that happens to be pending
				}
				tr("ok %s %x", o.kind, h[:4])
			} else {
				res.Rejected++
				switch err {
				case trie.ErrNotRequested:
					c.Count("rej_not_requested", 1)
				case trie.ErrAlreadyProcessed:
					c.Count("rej_already_processed", 1)
				default:
					c.Count("rej_other", 1)
				}
				tr("rej %s %x %v", o.kind, h[:4], err)
				if o.honest && !acceptedSet[h] {
					// the scheduler refused the genuine answer to a hash it handed out itself
					c.Count("honest_first_answer_rejected", 1)
				}
			}
			if o.honest && inOut[o.want] {
				delete(inOut, o.want)
				delivered = append(delivered, o.want)
			}
			if cfg.CommitEvery > 0 && res.Results%cfg.CommitEvery == 0 {
				if err := commit(-1); err != nil {
					v.viol("sync-commit-error", "Commit into a working database failed: "+err.Error())
					return false
				}
			}
			return true
		}
		off := 0
		for off < len(results) {
			var idx int
			var err error
			if p := kit.Guard(func() { _, idx, err = sched.Process(results[off:]) }); p != nil {
				v.viol("sync-panic", fmt.Sprintf("Process panicked: %v", p))
				return false
			}
			c.Count("process_calls", 1)
			if err == nil {
				for i := off; i < len(results); i++ {
					if !verdict(i, nil) {
						return false
					}
				}
				return true
			}
			if idx < 0 || off+idx >= len(results) {
				v.viol("sync-process-bad-index", fmt.Sprintf("Process returned error %v with index %d for a batch of %d", err, idx, len(results)-off))
				return false
			}
			for i := off; i < off+idx; i++ {
				if !verdict(i, nil) {
					return false
				}
			}
			if !verdict(off+idx, err) {
				return false
			}
			off += idx + 1
		}
		return true
	}
	limit := 400 + 60*len(t.order)
	for step := 0; ; step++ {
		if sched.Pending() == 0 {
			res.Completed = true
			break
		}
		if step > limit {
			res.Stuck = true
			break
		}
		if cfg.StopAfter > 0 && res.Results >= cfg.StopAfter {
			res.Interrupted = true
			break
		}
		// re-fill the outstanding set
		if len(inOut) == 0 || r.Intn(3) > 0 {
			max := cfg.MaxMissing
			miss := sched.Missing(max)
			c.Count("missing_calls", 1)
			for _, h := range miss {
				if !t.closure[h] {
					c.Count("requested_outside_closure", 1)
				}
				if !inOut[h] {
					inOut[h] = true
					outstanding = append(outstanding, h)
					if cfg.Conc > 0 {
						ask[r.Intn(len(ask))] <- h
					}
				}
			}
			if len(miss) > 0 {
				tr("missing(%d)=%d", max, len(miss))
			}
		}
		// compact
		o2 := outstanding[:0]
		for _, h := range outstanding {
			if inOut[h] {
				o2 = append(o2, h)
			}
		}
		outstanding = o2
		if len(outstanding) == 0 {
			// Pending()>0 but nothing handed out: is there anything to hand out at all?
			miss := sched.Missing(0)
			if len(miss) == 0 {
				res.Stuck = true
				break
			}
			for _, h := range miss {
				if !inOut[h] {
					inOut[h] = true
					outstanding = append(outstanding, h)
					if cfg.Conc > 0 {
						ask[r.Intn(len(ask))] <- h
					}
				}
			}
		}
		var batch []offer
		if cfg.Conc > 0 {
			// take what the responder goroutines have produced (at least one answer)
			first := <-answers
			batch = append(batch, first)
		drain:
			for len(batch) < cfg.BatchMax {
				select {
				case o := <-answers:
					batch = append(batch, o)
				default:
					break drain
				}
			}
			for _, o := range batch {
				if !o.honest && o.want != (common.Hash{}) {
					ask[r.Intn(len(ask))] <- o.want // corrupted: ask again
					c.Count("rerequests", 1)
				}
			}
		} else {
			n := 1 + r.Intn(imin(cfg.BatchMax, len(outstanding)))
			var picks []common.Hash
			switch cfg.Order {
			case "fifo":
				picks = append(picks, outstanding[:n]...)
			case "lifo":
				for i := 0; i < n; i++ {
					picks = append(picks, outstanding[len(outstanding)-1-i])
				}
			default:
				for _, j := range r.Perm(len(outstanding))[:n] {
					picks = append(picks, outstanding[j])
				}
			}
			adv := cfg
			if step > limit/2 { // the responder is EVENTUALLY honest
				adv.PNever, adv.PCorrupt = 0, 0
			}
			for _, h := range picks {
				x := r.Float64()
				switch {
				case x < adv.PNever:
					c.Count("unanswered_rounds", 1) // stays outstanding: answered after a later re-request
				case x < adv.PNever+adv.PCorrupt:
					b, kind := corrupt(r, w, w.Uni[h])
					batch = append(batch, offer{data: b, want: h, kind: kind})
					c.Count("rerequests", 1)
				default:
					batch = append(batch, offer{data: common.CopyBytes(w.Uni[h]), honest: true, want: h, kind: "honest"})
					if r.Float64() < cfg.PDup {
						batch = append(batch, offer{data: common.CopyBytes(w.Uni[h]), kind: "dup"})
					}
				}
				if len(delivered) > 0 && r.Float64() < cfg.PLate {
					h2 := delivered[r.Intn(len(delivered))]
					batch = append(batch, offer{data: common.CopyBytes(w.Uni[h2]), kind: "late"})
				}
				if r.Float64() < cfg.PUnreq {
					h2 := w.uniKeys[r.Intn(len(w.uniKeys))]
					if !inOut[h2] {
						batch = append(batch, offer{data: common.CopyBytes(w.Uni[h2]), kind: "unrequested"})
					}
				}
			}
			if cfg.Order == "random" {
				r.Shuffle(len(batch), func(i, j int) { batch[i], batch[j] = batch[j], batch[i] })
			}
		}
		if len(batch) == 0 {
			continue
		}
		// the production caller hands over one result per Process call; BatchMax>1 also groups them
		if cfg.BatchMax <= 1 {
			for _, o := range batch {
				if !process([]offer{o}) {
					return
				}
			}
		} else if !process(batch) {
			return
		}
	}
	if res.Stuck {
		tr("stuck pending=%d", sched.Pending())
	}
	// flush the mem-batch (the production loop does so on every exit path)
	if cfg.CrashPut >= 0 {
		// the final Commit aborts before its CrashPut-th Put (no abort if it has fewer items)
		if err := commit(cfg.CrashPut); err != nil {
			if err != errInjected {
				v.viol("sync-commit-error", "Commit returned a foreign error: "+err.Error())
				return
			}
			res.Crashed = true
			if res.Completed {
				res.Completed, res.Interrupted = false, true // completion was never made durable
			}
		}
	} else if err := commit(-1); err != nil {
		v.viol("sync-commit-error", "Commit into a working database failed: "+err.Error())
		return
	}
	res.Writes = len(*log) - logStart
	return
}

func imin(a, b int) int {
	if a < b {
		return a
	}
	return b
}

// ---- scenario: sessions, interruptions, crash prefixes, resumes ------------------------------

type scenInput struct {
	Kind  string `json:"kind"`
	Alias bool   `json:"alias,omitempty"`
}

func runSchedCase(c *kit.Ctx, id string, kind string) {
	r := c.Rand(id)
	alias := kind == "alias"
	c.Begin(id, scenInput{Kind: kind, Alias: alias})
	var w *world
	var err error
	switch kind {
	case "trie":
		w, err = genTrieWorld(r, false)
	case "state", "alias":
		w, err = genStateWorld(r, alias)
	case "prod":
		w, err = genProdWorld(r)
	}
	if err != nil {
		c.Count("gen_failed_"+kind, 1)
		c.Note(fmt.Sprintf("case %s: generator: %v", id, err))
		c.End("")
		return
	}
	var trace []string
	var cfgs []advCfg
	var results []sessResult
	v := &vctx{c: c, w: w}
	v.wit = func() interface{} {
		tl, keep := trace, 120
		if w.Alias {
			keep = 30
		}
		if len(tl) > keep {
			tl = tl[len(tl)-keep:]
		}
		return map[string]interface{}{"world": describe(w), "configs": cfgs, "sessions": results, "trace_tail": tl}
	}
	tc := &truthCache{}
	dst := youdb.NewMemDatabase()
	conc := 0
	if c.Mode == "race" {
		conc = 1 + r.Intn(4)
	}

	// which roots, in which order: main target; sometimes the neighbour first (complete or
	// interrupted) so that the main sync starts over a database sharing most nodes
	main, neigh := w.Targets[0], w.Targets[1]
	if kind == "prod" {
		neigh = w.Targets[3]
	}
	type stage struct {
		t         *target
		interrupt bool
	}
	var plan []stage
	switch r.Intn(6) {
	case 0:
		plan = []stage{{neigh, false}, {main, false}}
	case 1:
		plan = []stage{{neigh, true}, {main, false}}
	case 2:
		plan = []stage{{main, true}, {neigh, true}, {main, false}}
	default:
		plan = []stage{{main, false}}
	}
	if kind == "prod" { // the validator and staking tries go into the same database, as in production
		plan = append(plan, stage{w.Targets[1], false}, stage{w.Targets[2], false})
	}
	nInterrupt := 0
	if r.Intn(3) > 0 {
		nInterrupt = 1 + r.Intn(3)
	}
	// the write logs of all sessions, with the database content each started from
	type seg struct {
		t       *target
		initial map[common.Hash]bool
		base    *youdb.MemDatabase
		log     []kvw
	}
	var segs []seg
	runTo := func(t *target, interruptOnly bool) bool {
		// a series of interrupted sessions followed by one that has to finish
		for k := 0; ; k++ {
			cfg := genCfg(r, false)
			cfg.Conc = conc
			last := k >= nInterrupt
			if !last || interruptOnly {
				cfg.StopAfter = 1 + r.Intn(2+len(t.order))
				if r.Intn(3) == 0 {
					cfg.CrashPut = r.Intn(4)
				}
			}
			cfgs = append(cfgs, cfg)
			sg := seg{t: t, initial: dbKeySet(dst)}
			if c.Quick() || r.Intn(2) == 0 {
				sg.base = cloneDB(dst)
			}
			v.label = fmt.Sprintf("%s session %d", t.Name, k)
			res := runSession(v, r, t, dst, cfg, &sg.log, &trace)
			results = append(results, res)
			segs = append(segs, sg)
			if v.bad {
				return false
			}
			c.Count("sessions", 1)
			c.Sig(kind + " " + cfg.feats())
			switch {
			case res.Completed:
				c.Count("sessions_completed", 1)
				if !checkComplete(v, tc, t, dst) {
					return false
				}
				return true
			case res.Stuck:
				c.Count("sessions_stuck", 1)
				stuckSeen++
				return false
			default:
				c.Count("sessions_interrupted", 1)
				if res.Crashed {
					c.Count("sessions_commit_aborted", 1)
				}
				if checkPartial(v, tc, t, dst) {
					c.Count("interrupted_but_already_complete", 1)
				}
				if v.bad {
					return false
				}
				if interruptOnly {
					return true
				}
			}
		}
	}
	stuck := false
	for _, st := range plan {
		if !runTo(st.t, st.interrupt) {
			if !v.bad {
				stuck = true
			}
			break
		}
	}
	if !v.bad && !stuck {
		checkHygiene(v, dst, false)
	}
	// ---- crash points between the individual Puts: every prefix of every recorded write
	// sequence is a possible on-disk state.
	if !v.bad && !stuck {
		for si := range segs {
			sg := &segs[si]
			c.Evals(len(sg.log))
			c.Count("crash_prefixes_order_checked", len(sg.log))
			c.Max("max_writes_in_session", int64(len(sg.log)))
			var tries []int
			if i, missing := orderBreak(w, sg.initial, sg.log); i >= 0 {
				c.Count("write_order_breaks_"+w.Kind+aliasTag(w), 1)
				trace = append(trace, fmt.Sprintf("write-order: %x written at #%d before its dependency %x", sg.log[i].K[:4], i, missing[:4]))
				if sg.base != nil {
					tries = append(tries, i+1)
				}
			}
			if sg.base != nil && len(sg.log) > 0 {
				for k := c.N(2, 4); k > 0; k-- {
					tries = append(tries, r.Intn(len(sg.log)+1))
				}
			}
			for _, p := range tries {
				pdb := cloneDB(sg.base)
				for _, wr := range sg.log[:p] {
					pdb.Put(wr.K[:], wr.V)
				}
				c.Count("crash_prefixes_resumed", 1)
				v.label = fmt.Sprintf("crash after write %d/%d of the %s sessions", p, len(sg.log), sg.t.Name)
				if checkPartial(v, tc, sg.t, pdb) {
					c.Count("prefix_already_complete", 1)
				}
				if v.bad {
					break
				}
				// resume over the crashed database: same root, or the neighbouring one
				rt := sg.t
				if r.Intn(3) == 0 {
					if rt == main {
						rt = neigh
					} else if rt == neigh {
						rt = main
					}
				}
				cfg := genCfg(r, r.Intn(2) == 0)
				cfg.Conc = conc
				cfgs = append(cfgs, cfg)
				var rlog []kvw
				init := dbKeySet(pdb)
				v.label += fmt.Sprintf(", resumed to %s", rt.Name)
				res := runSession(v, r, rt, pdb, cfg, &rlog, &trace)
				results = append(results, res)
				if v.bad {
					break
				}
				if res.Stuck {
					c.Count("sessions_stuck", 1)
					stuckSeen++
					stuck = true
					break
				}
				c.Count("resumes_completed", 1)
				if !checkComplete(v, tc, rt, pdb) || !checkHygiene(v, pdb, false) {
					break
				}
				if i, _ := orderBreak(w, init, rlog); i >= 0 {
					c.Count("write_order_breaks_"+w.Kind+aliasTag(w), 1)
				}
				c.Evals(len(rlog))
				c.Count("crash_prefixes_order_checked", len(rlog))
			}
			if v.bad || stuck {
				break
			}
		}
	}
	for f := range w.Feat {
		c.Count("feat_"+f, 1)
	}
	c.Count("cases_"+kind, 1)
	c.Count("closure_nodes", len(main.order))
	c.Count("shared_parent_nodes", main.nShared)
	if main.nShared > 0 {
		c.Count("cases_with_shared_nodes", 1)
	}
	c.Count("raw_blobs", main.nRaw)
	c.Count("embedded_nodes", main.nEmbedded)
	if main.nEmbedded > 0 {
		c.Count("cases_with_embedded_nodes", 1)
	}
	c.Count("raw_blobs_shared_by_accounts", main.nSharedRaw)
	c.Count("storage_roots_shared_by_accounts", main.nSharedStorage)
	c.Max("max_closure", int64(len(main.order)))
	c.Sample(map[string]interface{}{"world": describe(w), "first_config": cfgs[0], "sessions": results})
	if stuck && !v.bad {
		c.EndInconclusive("scheduler did not reach Pending()==0 under an eventually honest responder (no completion to judge)")
		return
	}
	sz := len(main.order)
	if sz > 16 {
		sz = 16 + sz/16
	}
	c.End(fmt.Sprintf("%s %s plan%d int%d size%d shared%v", kind, w.Style, len(plan), nInterrupt, sz, main.nShared > 0))
}

func describe(w *world) map[string]interface{} {
	var ts []string
	for _, t := range w.Targets {
		ts = append(ts, fmt.Sprintf("%s root=%x closure=%d shared=%d raw=%d", t.Name, t.Root[:6], len(t.order), t.nShared, t.nRaw))
	}
	return map[string]interface{}{"kind": w.Kind, "style": w.Style, "universe": len(w.Uni), "alias": w.Alias, "targets": ts}
}
