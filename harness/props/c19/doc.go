// Package c19 holds the workloads and monitors of property C19.
package c19
