package c19

import (
	"bytes"
	"fmt"
	"strings"

	"verif/kit"
	"verif/model"
	"verif/mon"

	"github.com/youchainhq/go-youchain/common"
	"github.com/youchainhq/go-youchain/core/state"
	"github.com/youchainhq/go-youchain/trie"
	"github.com/youchainhq/go-youchain/youdb"
)

// kvw is one recorded database write.
type kvw struct {
	K common.Hash
	V []byte
}

func cloneDB(db *youdb.MemDatabase) *youdb.MemDatabase {
	o := youdb.NewMemDatabase()
	for _, k := range db.Keys() {
		v, _ := db.Get(k)
		o.Put(k, v)
	}
	return o
}

func dbKeySet(db *youdb.MemDatabase) map[common.Hash]bool {
	s := map[common.Hash]bool{}
	for _, k := range db.Keys() {
		if len(k) == 32 {
			s[common.BytesToHash(k)] = true
		}
	}
	return s
}

// vctx carries what a violation report needs.
type vctx struct {
	c     *kit.Ctx
	w     *world
	label string // where in the scenario (e.g. "first", "resume", "crash-prefix-resume", "dl")
	wit   func() interface{}
	bad   bool
}

func (v *vctx) viol(class, msg string) {
	if v.w.Alias {
		class = "code-node-alias:" + class
	}
	if v.label != "" {
		msg = "[" + v.label + "] " + msg
	}
	v.c.Violation(class, msg, v.wit())
	v.bad = true
}

// readTrie returns the leaves of the plain trie below root as the production reader sees them in
// db, or an error when the trie cannot be opened / fully traversed.
func readTrie(db youdb.Database, root common.Hash) (m map[string][]byte, nodes int, err error) {
	p := kit.Guard(func() {
		var tr *trie.Trie
		tr, err = trie.New(root, trie.NewDatabase(db))
		if err != nil {
			return
		}
		m = map[string][]byte{}
		nit := tr.NodeIterator(nil)
		it := trie.NewIterator(nit)
		for it.Next() {
			m[string(it.Key)] = common.CopyBytes(it.Value)
		}
		err = it.Err
		if err != nil {
			return
		}
		// integrity walk over every node (hash nodes and embedded ones)
		nit = tr.NodeIterator(nil)
		for nit.Next(true) {
			nodes++
		}
		err = nit.Error()
	})
	if p != nil {
		return nil, 0, fmt.Errorf("panic while reading: %v", p)
	}
	return
}

func diffContent(got, want map[string][]byte) string {
	for k, v := range want {
		g, ok := got[k]
		if !ok {
			return fmt.Sprintf("key %x missing (%d keys read, %d expected)", k, len(got), len(want))
		}
		if !bytes.Equal(g, v) {
			return fmt.Sprintf("key %x has value %x.., expected %x..", k, head(g), head(v))
		}
	}
	for k := range got {
		if _, ok := want[k]; !ok {
			return fmt.Sprintf("extra key %x (%d keys read, %d expected)", k, len(got), len(want))
		}
	}
	return ""
}

func head(b []byte) []byte {
	if len(b) > 8 {
		return b[:8]
	}
	return b
}

// stateDigest enumerates accounts, storage, code and delegation blobs (and the companion tries of
// prod worlds) through the production readers. broken = the enumeration hit a missing node / blob
// or an error, i.e. the database does NOT present this state as complete.
func stateDigest(db youdb.Database, t *target) (d mon.Digest, broken string) {
	vr, sr := emptyRoot, emptyRoot // companion tries are separate sync targets
	d = mon.Digest{}
	p := kit.Guard(func() { mon.TrieDumpInto(d, state.NewDatabase(db), t.Root, vr, sr) })
	if p != nil {
		return d, fmt.Sprintf("panic while reading: %v", p)
	}
	for k, v := range d {
		if strings.Contains(k, "error") || strings.Contains(v, "MISSING(") || strings.Contains(v, "ITER-ERROR(") || strings.HasPrefix(v, "undecodable") {
			return d, k + ": " + short(v, 200)
		}
	}
	return d, ""
}

func short(s string, n int) string {
	if len(s) > n {
		return s[:n] + "…"
	}
	return s
}

type truthCache struct {
	digest map[*target]mon.Digest
}

func (tc *truthCache) stateTruth(w *world, t *target) (mon.Digest, string) {
	if tc.digest == nil {
		tc.digest = map[*target]mon.Digest{}
	}
	if d, ok := tc.digest[t]; ok {
		return d, ""
	}
	d, broken := stateDigest(w.srcDB(), t)
	if broken != "" {
		return nil, broken
	}
	tc.digest[t] = d
	return d, ""
}

// checkComplete is evaluated when a sync of t into db has REPORTED completion (Pending()==0 and
// the mem-batch committed): (1) every blob of the model closure is present byte-identically,
// (2) the production readers return exactly the source content and every node can be walked.
func checkComplete(v *vctx, tc *truthCache, t *target, db *youdb.MemDatabase) bool {
	v.c.Evals(1)
	missing := 0
	var firstMissing common.Hash
	for _, h := range t.order {
		got, err := db.Get(h[:])
		if err != nil || got == nil {
			if missing == 0 {
				firstMissing = h
			}
			missing++
			continue
		}
		if !bytes.Equal(got, v.w.Uni[h]) {
			v.viol("sync-stored-wrong-bytes", fmt.Sprintf("%s: destination holds %d bytes under %x that differ from the source blob", t.Name, len(got), h[:6]))
			return false
		}
	}
	if missing > 0 {
		v.viol("sync-complete-but-nodes-missing", fmt.Sprintf("%s root %x: sync reported completion (Pending()==0) but %d of %d blobs of the source closure are absent from the destination, e.g. %x", t.Name, t.Root[:6], missing, len(t.order), firstMissing[:6]))
		return false
	}
	if t.State {
		want, broken := tc.stateTruth(v.w, t)
		if broken != "" {
			v.c.Count("harness_truth_unreadable", 1)
			return true
		}
		got, broken := stateDigest(db, t)
		if broken != "" {
			v.viol("sync-complete-but-unreadable", fmt.Sprintf("%s: reading the synced state fails: %s", t.Name, broken))
			return false
		}
		if diff := mon.Diff(want, got); len(diff) > 0 {
			v.viol("sync-complete-content-mismatch", fmt.Sprintf("%s: synced state differs from the source in %d entries: %s", t.Name, len(diff), short(diff[0], 300)))
			return false
		}
		return true
	}
	if t.Root == emptyRoot || t.Root == (common.Hash{}) {
		return true
	}
	got, _, err := readTrie(db, t.Root)
	if err != nil {
		v.viol("sync-complete-but-unreadable", fmt.Sprintf("%s: reading the synced trie fails: %v", t.Name, err))
		return false
	}
	want := t.Content
	if want == nil { // prod world: the truth is what the production reader sees in the source
		want, _, err = readTrie(v.w.srcDB(), t.Root)
		if err != nil {
			v.c.Count("harness_truth_unreadable", 1)
			return true
		}
	}
	if d := diffContent(got, want); d != "" {
		v.viol("sync-complete-content-mismatch", fmt.Sprintf("%s: %s", t.Name, d))
		return false
	}
	return true
}

// checkPartial is evaluated on a database state in which the sync of t has NOT reported
// completion (interruption point, crash prefix, aborted download): if the production readers can
// open the root and traverse everything without an error, what they read must be the source
// content. Returns true when the database already presents the complete, correct content.
func checkPartial(v *vctx, tc *truthCache, t *target, db *youdb.MemDatabase) (presentsComplete bool) {
	v.c.Evals(1)
	if t.Root == emptyRoot || t.Root == (common.Hash{}) {
		return true
	}
	if ok, _ := db.Has(t.Root[:]); !ok {
		return false // trie.New(root) fails: nothing is presented
	}
	if t.State {
		got, broken := stateDigest(db, t)
		if broken != "" {
			return false
		}
		want, broken := tc.stateTruth(v.w, t)
		if broken != "" {
			return false
		}
		if diff := mon.Diff(want, got); len(diff) > 0 {
			v.viol("partial-state-presented-as-complete", fmt.Sprintf("%s: interrupted sync left a database whose root opens and traverses without error but differs from the source: %s", t.Name, short(diff[0], 300)))
			return false
		}
		return true
	}
	got, _, err := readTrie(db, t.Root)
	if err != nil {
		return false
	}
	want := t.Content
	if want == nil {
		if want, _, err = readTrie(v.w.srcDB(), t.Root); err != nil {
			return false
		}
	}
	if d := diffContent(got, want); d != "" {
		v.viol("partial-trie-presented-as-complete", fmt.Sprintf("%s: interrupted sync left a database whose root opens and traverses without error but differs from the source: %s", t.Name, d))
		return false
	}
	return true
}

// checkHygiene: whatever a sync wrote must be a blob of the universe stored under its own keccak
// (the harness computes every offered hash from the delivered bytes, so anything else means the
// scheduler stored data that does not hash to what was requested).
func checkHygiene(v *vctx, db *youdb.MemDatabase, allowNonHashKeys bool) bool {
	for _, k := range db.Keys() {
		val, _ := db.Get(k)
		if len(k) != 32 {
			if !allowNonHashKeys {
				v.viol("sync-wrote-foreign-key", fmt.Sprintf("destination holds a %d-byte key %x", len(k), head(k)))
				return false
			}
			continue
		}
		v.c.Evals(1)
		if !bytes.Equal(model.Keccak256(val), k) {
			v.viol("sync-stored-unverified-data", fmt.Sprintf("destination holds %d bytes under key %x that do not hash to the key", len(val), k[:6]))
			return false
		}
		if _, ok := v.w.Uni[common.BytesToHash(k)]; !ok {
			v.viol("sync-stored-unverified-data", fmt.Sprintf("destination holds a blob %x nobody owns", k[:6]))
			return false
		}
	}
	return true
}

// orderBreak scans a recorded write sequence applied on top of `initial` and returns the first
// index at which a blob is written before one of the blobs it depends on (child node, storage
// root, code, delegation blob) is present: the database state right after that write is a state
// in which a present node has an absent dependency. -1 if children always precede parents.
func orderBreak(w *world, initial map[common.Hash]bool, writes []kvw) (int, common.Hash) {
	present := make(map[common.Hash]bool, len(initial)+len(writes))
	for h := range initial {
		present[h] = true
	}
	for i, wr := range writes {
		for _, k := range w.kids[wr.K] {
			if !present[k] {
				return i, k
			}
		}
		present[wr.K] = true
	}
	return -1, common.Hash{}
}

func aliasTag(w *world) string {
	if w.Alias {
		return "_alias"
	}
	return ""
}
