package c19

import (
	"bytes"
	"fmt"
	"math/big"
	"math/rand"
	"sort"

	"verif/kit"
	"verif/model"
	"verif/stategen"

	"github.com/youchainhq/go-youchain/common"
	"github.com/youchainhq/go-youchain/youdb"
)

// ---- source worlds -------------------------------------------------------------------------
//
// A world is a content-addressed universe of blobs (what the responders own) plus a few sync
// targets (roots) in it. Model-built worlds ("trie", "state") are produced by the independent
// Yellow-Paper construction model.MPTBuild from a key/value content map, so the ground truth
// (content, node set, dependency edges) does not come from go-youchain/trie at all. "prod"
// worlds are written by the real StateDB pipeline (verif/stategen) and only parsed by the model.

var (
	emptyRoot = common.HexToHash("56e81f171bcc55a6ff8345e692c0f86e5b48e01b996cadc001622fb5e363b421")
	emptyCode = common.HexToHash("c5d2460186f7233c927e7db2dcc703c0e500b653ca82273b7bfad8045d85a470")
)

type blobs map[common.Hash][]byte

type acct struct {
	Key     []byte // 32-byte account-trie key
	Nonce   uint64
	Balance uint64
	DBal    uint64
	Storage map[string][]byte // 32-byte slot key -> rlp(trimmed value)
	Code    []byte
	Dlg     []byte // delegation blob (rlp list of addresses), nil = none
}

type target struct {
	Name    string
	Root    common.Hash
	State   bool              // synced with state.NewStateSync (leaf callback), else plain trie.NewSync
	Content map[string][]byte // model-built plain tries: key -> value (nil for prod worlds)
	NAcct   int

	closure                               map[common.Hash]bool // every blob a complete destination must hold for this root
	order                                 []common.Hash        // closure in deterministic order
	nShared                               int                  // closure members referenced from >= 2 different parents
	nRaw                                  int
	nEmbedded, nSharedRaw, nSharedStorage int // embedded nodes; code/delegation blobs and storage roots used by >= 2 account leaves
}

type world struct {
	Kind    string // trie | state | prod
	Style   string
	Uni     blobs
	uniKeys []common.Hash // deterministic order
	Targets []*target     // [0] main, [1] neighbour (shares most nodes with [0]) — prod: state,val,staking,state',val',staking'
	Alias   bool          // a contract's code equals the RLP of a storage-trie node of another account
	kids    map[common.Hash][]common.Hash
	Feat    map[string]bool
	src     *youdb.MemDatabase // Uni as a database (lazily built), for reading the truth
}

func (w *world) srcDB() *youdb.MemDatabase {
	if w.src == nil {
		w.src = youdb.NewMemDatabase()
		for h, v := range w.Uni {
			w.src.Put(h[:], v)
		}
	}
	return w.src
}

func (w *world) addNodes(n map[string][]byte) {
	for k, v := range n {
		w.Uni[common.BytesToHash([]byte(k))] = v
	}
}

func (w *world) finish() error {
	w.uniKeys = w.uniKeys[:0]
	for h := range w.Uni {
		w.uniKeys = append(w.uniKeys, h)
	}
	sort.Slice(w.uniKeys, func(i, j int) bool { return bytes.Compare(w.uniKeys[i][:], w.uniKeys[j][:]) < 0 })
	w.kids = map[common.Hash][]common.Hash{}
	for _, t := range w.Targets {
		if err := w.walk(t); err != nil {
			return fmt.Errorf("target %s: %v", t.Name, err)
		}
	}
	return nil
}

// walk computes closure and dependency edges of a target from the universe with the model's node
// parser: hash children of every node and, for account-trie leaves of a state target, the storage
// root, code hash and delegation-blob hash of the account.
func (w *world) walk(t *target) error {
	t.closure = map[common.Hash]bool{}
	t.order = nil
	expanded := map[common.Hash]bool{}
	parents := map[common.Hash]map[common.Hash]bool{}
	rawSeen := map[common.Hash]bool{}
	storageRoots := map[common.Hash]bool{}
	t.nEmbedded = 0
	addParent := func(ch, p common.Hash) {
		if parents[ch] == nil {
			parents[ch] = map[common.Hash]bool{}
		}
		parents[ch][p] = true
	}
	var visit func(h common.Hash, acctLevel bool, depth int) error
	visit = func(h common.Hash, acctLevel bool, depth int) error {
		if expanded[h] {
			return nil
		}
		expanded[h] = true
		blob, ok := w.Uni[h]
		if !ok {
			return fmt.Errorf("node %x not in the universe", h[:6])
		}
		if !t.closure[h] {
			t.closure[h] = true
			t.order = append(t.order, h)
		}
		hashes, leaves, err := model.MPTNodeRefs(blob)
		if err != nil {
			return fmt.Errorf("node %x: %v", h[:6], err)
		}
		t.nEmbedded += model.MPTEmbeddedCount(blob)
		var ks []common.Hash
		for _, ch := range hashes {
			x := common.BytesToHash(ch)
			ks = append(ks, x)
			addParent(x, h)
			if err := visit(x, acctLevel, depth+1); err != nil {
				return err
			}
		}
		if acctLevel {
			for _, leaf := range leaves {
				n, _, err := model.ParseLenient(leaf)
				if err != nil || !n.List || len(n.Kids) != 6 {
					return fmt.Errorf("account leaf in %x does not parse", h[:6])
				}
				if sr := common.BytesToHash(n.Kids[2].Str); sr != emptyRoot {
					ks = append(ks, sr)
					addParent(sr, h)
					storageRoots[sr] = true
					if err := visit(sr, false, 0); err != nil {
						return err
					}
				}
				for _, f := range []int{3, 5} {
					if len(n.Kids[f].Str) != 32 {
						continue
					}
					rh := common.BytesToHash(n.Kids[f].Str)
					if rh == emptyCode {
						continue
					}
					if _, ok := w.Uni[rh]; !ok {
						return fmt.Errorf("raw blob %x not in the universe", rh[:6])
					}
					ks = append(ks, rh)
					addParent(rh, h)
					rawSeen[rh] = true
					if !t.closure[rh] {
						t.closure[rh] = true
						t.order = append(t.order, rh)
					}
				}
			}
		}
		w.kids[h] = ks
		return nil
	}
	if t.Root != emptyRoot {
		if err := visit(t.Root, t.State, 0); err != nil {
			return err
		}
	}
	t.nShared, t.nRaw, t.nSharedRaw, t.nSharedStorage = 0, len(rawSeen), 0, 0
	for ch, ps := range parents {
		if len(ps) >= 2 {
			t.nShared++
			if rawSeen[ch] {
				t.nSharedRaw++
			}
			if storageRoots[ch] {
				t.nSharedStorage++
			}
		}
	}
	return nil
}

// ---- plain tries ---------------------------------------------------------------------------

var valSizes = []int{1, 1, 2, 5, 20, 31, 32, 33, 40, 100, 600}

func genVal(r *rand.Rand) []byte {
	v := make([]byte, valSizes[r.Intn(len(valSizes))])
	r.Read(v)
	if v[0] == 0 {
		v[0] = 1
	}
	return v
}

func bigVal(r *rand.Rand) []byte {
	v := make([]byte, 33+r.Intn(60))
	r.Read(v)
	return v
}

var trieStyles = []string{"dense", "prefix", "hash32", "rlpidx", "shared", "shared-deep"}

func genTrieContent(r *rand.Rand, style string) map[string][]byte {
	m := map[string][]byte{}
	n := 3 + r.Intn(40)
	switch style {
	case "dense": // small alphabet, fixed length: many embedded nodes and branch values
		alpha := []byte{0x00, 0x01, 0x10, 0x11, 0xf0, 0xff, 0x12}[:2+r.Intn(5)]
		l := 1 + r.Intn(4)
		for i := 0; i < n; i++ {
			k := make([]byte, l)
			for j := range k {
				k[j] = alpha[r.Intn(len(alpha))]
			}
			m[string(k)] = genVal(r)
		}
	case "prefix": // keys that are prefixes of each other (values in branch nodes)
		alpha := []byte{0x00, 0x01, 0x10, 0xab, 0xa0}[:2+r.Intn(3)]
		for i := 0; i < n; i++ {
			k := make([]byte, 1+r.Intn(5))
			for j := range k {
				k[j] = alpha[r.Intn(len(alpha))]
			}
			m[string(k)] = genVal(r)
			if r.Intn(3) == 0 && len(k) > 1 {
				m[string(k[:1+r.Intn(len(k)-1)])] = genVal(r)
			}
		}
	case "hash32":
		var keys [][]byte
		for i := 0; i < n; i++ {
			k := make([]byte, 32)
			r.Read(k)
			if r.Intn(4) == 0 && len(keys) > 0 {
				copy(k, keys[r.Intn(len(keys))][:1+r.Intn(31)])
			}
			keys = append(keys, k)
			m[string(k)] = genVal(r)
		}
	case "rlpidx":
		for i := 0; i < n*3; i++ {
			m[string(model.RlpUint(uint64(i)))] = genVal(r)
		}
	case "shared", "shared-deep":
		// identical sub-tries under several different parents: key = prefix ++ suffix, value a
		// function of the suffix only. Prefixes differing in the high nibble put the SAME child
		// hash several times into ONE branch node; prefixes of different shapes put it under
		// different parents at different depths.
		pl := 1
		if style == "shared-deep" {
			pl = 1 + r.Intn(3)
		}
		np := 2 + r.Intn(5)
		var prefixes [][]byte
		palpha := []byte{0x00, 0x10, 0x20, 0x01, 0x11, 0xf0}
		for i := 0; i < np; i++ {
			p := make([]byte, pl)
			for j := range p {
				p[j] = palpha[r.Intn(len(palpha))]
			}
			prefixes = append(prefixes, p)
		}
		ns := 2 + r.Intn(6)
		sl := 1 + r.Intn(3)
		type sv struct{ s, v []byte }
		var sfx []sv
		for i := 0; i < ns; i++ {
			s := make([]byte, sl)
			r.Read(s)
			if r.Intn(2) == 0 {
				s[0] &= 0x11
			}
			v := bigVal(r)
			if r.Intn(6) == 0 {
				v = genVal(r)
			}
			sfx = append(sfx, sv{s, v})
		}
		for _, p := range prefixes {
			for _, x := range sfx {
				m[string(append(append([]byte{}, p...), x.s...))] = x.v
			}
		}
		// partial sharing: one prefix differs in a single entry
		for i := r.Intn(3); i > 0; i-- {
			p := prefixes[r.Intn(len(prefixes))]
			x := sfx[r.Intn(len(sfx))]
			k := string(append(append([]byte{}, p...), x.s...))
			switch r.Intn(3) {
			case 0:
				m[k] = bigVal(r)
			case 1:
				delete(m, k)
			default:
				m[k+string([]byte{byte(r.Intn(256))})] = genVal(r)
			}
		}
		// identical big leaves elsewhere
		if r.Intn(2) == 0 {
			v := bigVal(r)
			for i := 0; i < 3; i++ {
				k := []byte{byte(0x30 + i<<4), 0x77}
				m[string(k)] = v
			}
		}
	}
	return m
}

func copyMap(m map[string][]byte) map[string][]byte {
	c := make(map[string][]byte, len(m))
	for k, v := range m {
		c[k] = v
	}
	return c
}

func sortedKeys(m map[string][]byte) []string {
	ks := make([]string, 0, len(m))
	for k := range m {
		ks = append(ks, k)
	}
	sort.Strings(ks)
	return ks
}

// neighbourContent changes a few entries of m.
func neighbourContent(r *rand.Rand, m map[string][]byte, fresh func() ([]byte, []byte)) map[string][]byte {
	o := copyMap(m)
	ks := sortedKeys(m)
	for i := 1 + r.Intn(3); i > 0; i-- {
		switch x := r.Intn(3); {
		case x == 0 && len(ks) > 0:
			o[ks[r.Intn(len(ks))]] = bigVal(r)
		case x == 1 && len(ks) > 1:
			delete(o, ks[r.Intn(len(ks))])
		default:
			k, v := fresh()
			o[string(k)] = v
		}
	}
	return o
}

// genTrieWorld: big = a trie of 150-350 KB, so that the production sync crosses its 100 KB
// periodic-commit threshold several times.
func genTrieWorld(r *rand.Rand, big bool) (*world, error) {
	style := trieStyles[r.Intn(len(trieStyles))]
	if big {
		style = "big"
	}
	w := &world{Kind: "trie", Style: style, Uni: blobs{}, Feat: map[string]bool{}}
	c0 := genTrieContent(r, style)
	if big {
		c0 = map[string][]byte{}
		for i := 300 + r.Intn(300); i > 0; i-- {
			k := make([]byte, 32)
			r.Read(k)
			v := make([]byte, 400+r.Intn(200))
			r.Read(v)
			c0[string(k)] = v
		}
	}
	if !big && r.Intn(40) == 0 {
		c0 = map[string][]byte{string([]byte{0x12, 0x34}): bigVal(r)} // single-leaf trie
	}
	c1 := neighbourContent(r, c0, func() ([]byte, []byte) {
		ks := sortedKeys(c0)
		if len(ks) == 0 {
			return []byte{byte(r.Intn(256)), byte(r.Intn(256))}, genVal(r)
		}
		k := []byte(ks[r.Intn(len(ks))])
		k = append([]byte{}, k...)
		k[len(k)-1] ^= byte(1 + r.Intn(255))
		return k, genVal(r)
	})
	for i, cm := range []map[string][]byte{c0, c1} {
		root, nodes := model.MPTBuild(cm)
		w.addNodes(nodes)
		w.Targets = append(w.Targets, &target{Name: fmt.Sprintf("trie%d", i), Root: common.BytesToHash(root), Content: cm})
	}
	// foreign nodes the responders may offer although nobody asked
	_, noise := model.MPTBuild(genTrieContent(r, trieStyles[r.Intn(3)]))
	w.addNodes(noise)
	return w, w.finish()
}

// ---- model-built states --------------------------------------------------------------------

func encAccount(a *acct, storageRoot []byte) []byte {
	code := emptyCode[:]
	if len(a.Code) > 0 {
		code = model.Keccak256(a.Code)
	}
	var dlg []byte
	if a.Dlg != nil {
		dlg = model.Keccak256(a.Dlg)
	}
	return model.RlpList(model.RlpUint(a.Nonce), model.RlpBytes(new(big.Int).SetUint64(a.Balance).Bytes()),
		model.RlpBytes(storageRoot), model.RlpBytes(code), model.RlpBytes(new(big.Int).SetUint64(a.DBal).Bytes()), model.RlpBytes(dlg))
}

func genStorage(r *rand.Rand, n int) map[string][]byte {
	m := map[string][]byte{}
	for i := 0; i < n; i++ {
		k := make([]byte, 32)
		r.Read(k)
		v := make([]byte, 1+r.Intn(32))
		r.Read(v)
		if v[0] == 0 {
			v[0] = 1
		}
		m[string(k)] = model.RlpBytes(v)
	}
	return m
}

func genDlg(r *rand.Rand) []byte {
	var items [][]byte
	for i := 1 + r.Intn(4); i > 0; i-- {
		a := make([]byte, 20)
		r.Read(a)
		items = append(items, model.RlpBytes(a))
	}
	return model.RlpList(items...)
}

// buildState assembles account trie + storage tries + blobs into w.Uni and returns the root.
func buildState(w *world, accts []*acct) (common.Hash, map[string][]byte) {
	content := map[string][]byte{}
	for _, a := range accts {
		sr, nodes := model.MPTBuild(a.Storage)
		w.addNodes(nodes)
		if len(a.Code) > 0 {
			w.Uni[common.BytesToHash(model.Keccak256(a.Code))] = a.Code
		}
		if a.Dlg != nil {
			w.Uni[common.BytesToHash(model.Keccak256(a.Dlg))] = a.Dlg
		}
		content[string(a.Key)] = encAccount(a, sr)
	}
	root, nodes := model.MPTBuild(content)
	w.addNodes(nodes)
	return common.BytesToHash(root), content
}

func genStateWorld(r *rand.Rand, alias bool) (*world, error) {
	w := &world{Kind: "state", Style: "model", Uni: blobs{}, Feat: map[string]bool{}, Alias: alias}
	// pools, so that equal storage roots / code / delegation blobs occur under several accounts
	var stor []map[string][]byte
	for i := 1 + r.Intn(3); i > 0; i-- {
		n := r.Intn(7)
		if r.Intn(5) == 0 {
			n = 17 + r.Intn(30)
		}
		s := genStorage(r, n)
		stor = append(stor, s)
		if len(s) > 0 && r.Intn(2) == 0 { // a sibling that differs in one slot: shares inner nodes only
			s2 := copyMap(s)
			ks := sortedKeys(s)
			s2[ks[r.Intn(len(ks))]] = model.RlpBytes([]byte{byte(1 + r.Intn(200))})
			stor = append(stor, s2)
		}
	}
	var codes, dlgs [][]byte
	for i := 1 + r.Intn(3); i > 0; i-- {
		c := make([]byte, 1+r.Intn(200))
		r.Read(c)
		codes = append(codes, c)
		dlgs = append(dlgs, genDlg(r))
	}
	var accts []*acct
	n := 1 + r.Intn(14)
	for i := 0; i < n; i++ {
		a := &acct{Key: make([]byte, 32), Nonce: uint64(r.Intn(5)), Balance: uint64(r.Intn(1000000))}
		r.Read(a.Key)
		switch r.Intn(10) {
		case 0, 1: // empty account
			a.Nonce, a.Balance = 0, 0
		default:
			if r.Intn(3) > 0 {
				a.Storage = stor[r.Intn(len(stor))]
			}
			if r.Intn(2) == 0 {
				a.Code = codes[r.Intn(len(codes))]
			}
			if r.Intn(3) == 0 {
				a.Dlg = dlgs[r.Intn(len(dlgs))]
				a.DBal = uint64(1 + r.Intn(1000))
			}
		}
		if len(accts) > 0 && r.Intn(4) == 0 {
			o := accts[r.Intn(len(accts))]
			switch r.Intn(2) {
			case 0: // twin: same account value, key differs in the first nibble only -> the very same leaf node under two slots
				cp := *o
				cp.Key = append([]byte{}, o.Key...)
				cp.Key[0] ^= byte(0x10 << uint(r.Intn(4)))
				a = &cp
				w.Feat["twin-leaf"] = true
			case 1: // long shared key prefix -> extension nodes in the account trie
				copy(a.Key, o.Key[:1+r.Intn(20)])
			}
		}
		accts = append(accts, a)
	}
	if alias {
		// code of a NEW account == RLP of a storage-trie node (with hash children) of another account
		victim := &acct{Key: make([]byte, 32), Nonce: 1, Balance: 5, Storage: genStorage(r, 2+r.Intn(20))}
		r.Read(victim.Key)
		_, nodes := model.MPTBuild(victim.Storage)
		var cands []string
		for h, blob := range nodes {
			if hs, _, _ := model.MPTNodeRefs(blob); len(hs) > 0 {
				cands = append(cands, h)
			}
		}
		sort.Strings(cands)
		if len(cands) == 0 {
			return nil, fmt.Errorf("no alias candidate")
		}
		att := &acct{Key: make([]byte, 32), Nonce: 1, Code: nodes[cands[r.Intn(len(cands))]]}
		r.Read(att.Key)
		accts = append(accts, victim, att)
	}
	root0, content0 := buildState(w, accts)
	w.Targets = append(w.Targets, &target{Name: "state0", Root: root0, State: true, Content: content0, NAcct: len(accts)})
	// neighbour state
	var acc2 []*acct
	for _, a := range accts {
		cp := *a
		acc2 = append(acc2, &cp)
	}
	for i := 1 + r.Intn(3); i > 0; i-- {
		a := acc2[r.Intn(len(acc2))]
		switch r.Intn(5) {
		case 0:
			a.Balance++
		case 1:
			s := copyMap(a.Storage)
			k := make([]byte, 32)
			r.Read(k)
			s[string(k)] = model.RlpBytes([]byte{byte(1 + r.Intn(200))})
			a.Storage = s
		case 2:
			a.Code = append(append([]byte{}, a.Code...), byte(r.Intn(256)))
		case 3:
			na := &acct{Key: make([]byte, 32), Nonce: 1, Storage: stor[r.Intn(len(stor))]}
			r.Read(na.Key)
			acc2 = append(acc2, na)
		case 4:
			if len(acc2) > 1 && !alias {
				j := r.Intn(len(acc2))
				acc2 = append(acc2[:j:j], acc2[j+1:]...)
			}
		}
	}
	// two accounts must not share a key
	seen := map[string]bool{}
	var uniq []*acct
	for _, a := range acc2 {
		if !seen[string(a.Key)] {
			seen[string(a.Key)] = true
			uniq = append(uniq, a)
		}
	}
	root1, content1 := buildState(w, uniq)
	w.Targets = append(w.Targets, &target{Name: "state1", Root: root1, State: true, Content: content1, NAcct: len(uniq)})
	_, noise := model.MPTBuild(genStorage(r, 5))
	w.addNodes(noise)
	return w, w.finish()
}

// ---- states written by the production pipeline ---------------------------------------------

func genProdWorld(r *rand.Rand) (w *world, err error) {
	w = &world{Kind: "prod", Style: "stategen", Uni: blobs{}, Feat: map[string]bool{}}
	p := kit.Guard(func() {
		fam := stategen.AllProduction()
		fam.StakingRec = true
		sw := stategen.NewWorld(r, 3, 4, fam)
		sw.NextTx()
		for round := 0; round < 2; round++ {
			for i := 15 + r.Intn(60); i > 0; i-- {
				if r.Intn(8) == 0 {
					sw.NextTx()
				}
				sw.Op()
			}
			if err = sw.Reopen(); err != nil {
				return
			}
			r1, r2, r3 := sw.St.IntermediateRoot(true)
			sfx := fmt.Sprint(round)
			w.Targets = append(w.Targets,
				&target{Name: "state" + sfx, Root: r1, State: true},
				&target{Name: "val" + sfx, Root: r2},
				&target{Name: "staking" + sfx, Root: r3})
		}
		md := sw.Disk.(*youdb.MemDatabase)
		for _, k := range md.Keys() {
			if len(k) != 32 {
				continue
			}
			v, _ := md.Get(k)
			w.Uni[common.BytesToHash(k)] = v
		}
	})
	if p != nil {
		return nil, fmt.Errorf("state generator panicked: %v", p)
	}
	if err != nil {
		return nil, err
	}
	return w, w.finish()
}
