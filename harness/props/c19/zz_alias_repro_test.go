package c19

// Stand-alone witness of the finding "code-node-alias": production API only (StateDB writes the
// source, state.NewStateSync copies it, an HONEST responder answers every request with the right
// bytes). The only thing that varies is the order in which the two pending account leaves are
// answered. Run with:
//   cd /verif/harness && go test -tags verif -run TestC19AliasWitness -v ./props/c19

import (
	"testing"

	"github.com/youchainhq/go-youchain/common"
	"github.com/youchainhq/go-youchain/core/state"
	"github.com/youchainhq/go-youchain/crypto"
	"github.com/youchainhq/go-youchain/trie"
	"github.com/youchainhq/go-youchain/youdb"
)

func TestC19AliasWitness(t *testing.T) {
	disk := youdb.NewMemDatabase()
	sdb := state.NewDatabase(disk)
	st, err := state.New(common.Hash{}, common.Hash{}, common.Hash{}, sdb)
	if err != nil {
		t.Fatal(err)
	}
	victim := common.HexToAddress("0x1000000000000000000000000000000000000001")
	attacker := common.HexToAddress("0x2000000000000000000000000000000000000002")
	st.SetNonce(victim, 1)
	st.SetState(victim, common.HexToHash("0x01"), common.HexToHash("0xaa"))
	st.SetState(victim, common.HexToHash("0x02"), common.HexToHash("0xbb"))
	root, _, _, err := st.Commit(false)
	if err != nil {
		t.Fatal(err)
	}
	if err := sdb.TrieDB().Commit(root, false); err != nil {
		t.Fatal(err)
	}
	storageRoot := st.StorageTrie(victim).Hash()
	node, _ := disk.Get(storageRoot[:])
	if len(node) == 0 {
		t.Fatal("victim storage root node not on disk")
	}
	t.Logf("victim storage root %x = %d-byte branch node with two hashed children", storageRoot, len(node))
	// the attacker deploys a contract whose runtime code is byte-for-byte that trie node
	st.SetNonce(attacker, 1)
	st.SetCode(attacker, node)
	root, _, _, err = st.Commit(false)
	if err != nil {
		t.Fatal(err)
	}
	if err := sdb.TrieDB().Commit(root, false); err != nil {
		t.Fatal(err)
	}
	if crypto.Keccak256Hash(node) != storageRoot {
		t.Fatal("code hash != storage root")
	}

	readVictim := func(db youdb.Database) error {
		s2, err := state.New(root, common.Hash{}, common.Hash{}, state.NewDatabase(db))
		if err != nil {
			return err
		}
		tr := s2.StorageTrie(victim)
		if tr == nil {
			return nil
		}
		it := trie.NewIterator(tr.NodeIterator(nil))
		n := 0
		for it.Next() {
			n++
		}
		if it.Err != nil {
			return it.Err
		}
		if n != 2 {
			t.Fatalf("victim has %d slots", n)
		}
		return nil
	}
	if err := readVictim(disk); err != nil {
		t.Fatalf("source unreadable: %v", err)
	}

	outcomes := map[bool]bool{}
	for _, reverse := range []bool{false, true} {
		dst := youdb.NewMemDatabase()
		sched := state.NewStateSync(root, dst)
		for sched.Pending() > 0 {
			reqs := sched.Missing(0)
			if reverse {
				for i, j := 0, len(reqs)-1; i < j; i, j = i+1, j-1 {
					reqs[i], reqs[j] = reqs[j], reqs[i]
				}
			}
			for _, h := range reqs {
				data, _ := disk.Get(h[:])
				// as you/downloader/triesync.go: hash computed from the delivered bytes
				if _, _, err := sched.Process([]trie.SyncResult{{Hash: crypto.Keccak256Hash(data), Data: data}}); err != nil {
					t.Fatalf("honest answer rejected: %v", err)
				}
			}
		}
		if _, err := sched.Commit(dst); err != nil {
			t.Fatal(err)
		}
		err := readVictim(dst)
		t.Logf("answer order reversed=%v: Pending()==0, destination holds %d of %d blobs, reading the victim's storage: %v", reverse, dst.Len(), disk.Len(), err)
		outcomes[err == nil] = true
	}
	if outcomes[false] {
		t.Logf("WITNESS: with an honest responder the sync reported completion but the victim's storage trie is incomplete in at least one answer order")
	} else {
		t.Logf("both orders complete (defect not present)")
	}
}
