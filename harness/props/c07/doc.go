// Package c07 holds the workloads and monitors of property C07.
package c07
