// Package c07: native tokens are conserved by transactions, staking, rewards and slashing.
//
// The monitor rides on the chaingen chains (builder node A, importer node B). After EVERY block it
// enumerates, from the committed tries of A and of B (all accounts of the account trie, all
// validator records of the validator trie, statistics, withdraw queue):
//
//	Σ balances + Σ validator Token + Σ unfinished withdraw FinalBalance + Σ reward pools + residues
//	+ Σ validator RewardsDistributable + in-flight activations  ==  genesis total
//
// In-flight activations are ground truth of the generator: the value carried by the create /
// deposit / delegation-add transactions of the current period whose receipt says success (never the
// staking records' FinalValue). Bucket flows: fees actually paid by senders (balance deltas sampled
// around every transaction on the builder's live state) = header.GasRewards = Σ gasUsed·price;
// Δ rewards pool = −Subsidy (+ donations); Δ PenaltyTo = Σ penalties of the slashing logs; withdraw
// records move monotonically unfinished → finished and pay when they do.
//
// Known leaks are PREDICTED exactly, so that they cannot hide anything else (see predictForced,
// deleted-validator observation, gas-refund measurement); after an exactly explained discrepancy
// the expected total is rebased and the chain goes on.
package c07

import (
	"bytes"
	"fmt"
	"math/big"
	"sort"
	"strings"

	"verif/build"
	"verif/chaingen"
	"verif/kit"

	"github.com/youchainhq/go-youchain/common"
	"github.com/youchainhq/go-youchain/core"
	"github.com/youchainhq/go-youchain/core/state"
	"github.com/youchainhq/go-youchain/core/types"
	"github.com/youchainhq/go-youchain/crypto"
	"github.com/youchainhq/go-youchain/params"
	"github.com/youchainhq/go-youchain/rlp"
	"github.com/youchainhq/go-youchain/staking"
	"github.com/youchainhq/go-youchain/trie"
)

func init() {
	kit.Register("C07.chains", runChains)
	kit.Register("C07.scripted", runScripted)
}

// runScripted: minimal chains for the leaks the generated chains keep finding (crisp witnesses).
//
//	fs<i>  no transaction at all: the genesis House validators are force-settled at block 143
//	gr<i>  three transactions: deploy the storage writer, set a slot, clear the slot (gas refund)
//	dv<i>  one transaction: the operator of an online House validator withdraws its whole self token
func runScripted(c *kit.Ctx) {
	kinds := []string{"fs", "gr", "dv"}
	n := c.N(3, 12)
	for i := 0; i < n; i++ {
		kind := kinds[i%3]
		id := fmt.Sprintf("%s%d", kind, i/3)
		if !c.Mine(i, id) {
			continue
		}
		r := c.Rand(id)
		blocks := 20
		if kind == "fs" {
			blocks = 160
		}
		sc := chaingen.PickScenario(r, blocks)
		sc.Evidence = false
		sc.Pool = new(big.Int).Mul(big.NewInt(1000000), params.StakeUint)
		c.Begin(id, map[string]interface{}{"scenario": sc.Name, "script": kind})
		run, err := chaingen.NewRun(c, id, r, sc)
		if err != nil {
			c.EndInconclusive("setup: " + err.Error())
			continue
		}
		w := run.W
		var store common.Address
		hv := -1
		for j, v := range sc.Vals {
			if v.Role == params.RoleHouse && v.Status == params.ValidatorOnline {
				hv = j
			}
		}
		run.Script = func(run *chaingen.Run, st *state.StateDB, n uint64) ([]chaingen.TxInfo, bool) {
			w.BeginScript(st)
			switch {
			case kind == "gr" && n == 1:
				ti, addr := w.EVMTx(7, nil, nil, 200000, chaingen.StoreContractInit(), "evm.deploy.store")
				store = addr
				return []chaingen.TxInfo{ti}, true
			case kind == "gr" && (n == 2 || n == 3):
				data := make([]byte, 64)
				if n == 2 {
					data[63] = 9
				}
				ti, _ := w.EVMTx(7, &store, nil, 100000, data, "evm.call.store")
				return []chaingen.TxInfo{ti}, true
			case kind == "dv" && n == 1:
				v := st.GetValidatorByMainAddr(w.VA(hv))
				return []chaingen.TxInfo{w.StakingTx(hv, staking.ValidatorWithDraw, &staking.TxValidatorWithdraw{MainAddress: w.VA(hv), Recipient: w.UA(hv), Value: new(big.Int).Set(v.SelfToken)}, "stk.withdraw", nil)}, true
			}
			return nil, true
		}
		m := NewMonitor()
		sig := run.Execute(m, chaingen.InvMonitor{})
		run.Close()
		c.End("scripted " + kind + " " + sig + " " + m.signature())
	}
}

func runChains(c *kit.Ctx) {
	n := c.N(32, 900)
	for i := 0; i < n; i++ {
		id := fmt.Sprintf("cv%d", i)
		if !c.Mine(i, id) {
			continue
		}
		r := c.Rand(id)
		blocks := 176 + 16*r.Intn(3)
		if !c.Quick() && i%4 == 0 {
			blocks = 400 + 16*r.Intn(13)
		}
		sc := chaingen.PickScenario(r, blocks)
		c.Begin(id, map[string]interface{}{"scenario": sc.Name, "blocks": sc.Blocks, "pool": sc.Pool.String(), "evidence": sc.Evidence, "busy": sc.Busy, "negrecord": sc.NegRecord, "reckless_evidence": sc.RecklessEvidence})
		run, err := chaingen.NewRun(c, id, r, sc)
		if err != nil {
			c.EndInconclusive("setup: " + err.Error())
			continue
		}
		if sc.Evidence {
			run.EvidenceTargets = chaingen.RandomEvidenceTargets
		}
		m := NewMonitor()
		sig := run.Execute(m, chaingen.InvMonitor{})
		run.Close()
		c.Sample(map[string]interface{}{"scenario": sc.Name, "blocks": len(run.Blocks) - 1, "genesis_total": m.genesis.String(), "final_expected_total": m.expected.String(), "signature": sig})
		c.End(sig + " " + m.signature())
	}
}

// ---------------------------------------------------------------- holdings

// Holdings is every place a token can be, enumerated from committed tries.
type Holdings struct {
	Accounts   *big.Int
	NAccounts  int
	ValToken   *big.Int
	ValRD      *big.Int
	Unfinished *big.Int
	Pools      *big.Int
	Residue    *big.Int
	Pool       *big.Int // balance of the rewards pool account
	Penalty    *big.Int // balance of the penalty account
	Vals       map[common.Address]*state.Validator
	RolePool   map[params.ValidatorRole]*big.Int
	Queue      []*state.WithdrawRecord
}

func (h *Holdings) Total() *big.Int {
	t := new(big.Int).Add(h.Accounts, h.ValToken)
	t.Add(t, h.ValRD).Add(t, h.Unfinished).Add(t, h.Pools).Add(t, h.Residue)
	return t
}

func (h *Holdings) describe() map[string]string {
	return map[string]string{"accounts": h.Accounts.String(), "validator_tokens": h.ValToken.String(), "validator_rewards_distributable": h.ValRD.String(),
		"unfinished_withdrawals": h.Unfinished.String(), "role_pools": h.Pools.String(), "residue": h.Residue.String(), "total_without_inflight": h.Total().String()}
}

func (h *Holdings) diff(o *Holdings) string {
	var d []string
	cmp := func(n string, a, b *big.Int) {
		if a.Cmp(b) != 0 {
			d = append(d, fmt.Sprintf("%s %v vs %v", n, a, b))
		}
	}
	cmp("accounts", h.Accounts, o.Accounts)
	cmp("validator_tokens", h.ValToken, o.ValToken)
	cmp("validator_rewards", h.ValRD, o.ValRD)
	cmp("unfinished", h.Unfinished, o.Unfinished)
	cmp("pools", h.Pools, o.Pools)
	cmp("residue", h.Residue, o.Residue)
	if h.NAccounts != o.NAccounts {
		d = append(d, fmt.Sprintf("account count %d vs %d", h.NAccounts, o.NAccounts))
	}
	return strings.Join(d, "; ")
}

var valInfoPrefix = []byte("valinfo-")

func holdingsAt(chain *core.BlockChain, h *types.Header, yp *params.YouParams) (*Holdings, error) {
	st, err := chain.StateAt(h.Root, h.ValRoot, h.StakingRoot)
	if err != nil {
		return nil, err
	}
	db := st.Database()
	out := &Holdings{Accounts: new(big.Int), ValToken: new(big.Int), ValRD: new(big.Int), Unfinished: new(big.Int), Pools: new(big.Int), Residue: new(big.Int),
		Vals: map[common.Address]*state.Validator{}, RolePool: map[params.ValidatorRole]*big.Int{}}
	// every account of the account trie
	tr, err := db.OpenTrie(h.Root)
	if err != nil {
		return nil, err
	}
	it := trie.NewIterator(tr.NodeIterator(nil))
	for it.Next() {
		var acc state.Account
		if err := rlp.DecodeBytes(it.Value, &acc); err != nil {
			return nil, fmt.Errorf("undecodable account %x: %v", it.Key, err)
		}
		out.Accounts.Add(out.Accounts, acc.Balance)
		out.NAccounts++
	}
	if it.Err != nil {
		return nil, it.Err
	}
	// every validator record of the validator trie (not through the index)
	vt, err := db.OpenTrie(h.ValRoot)
	if err != nil {
		return nil, err
	}
	vit := trie.NewIterator(vt.NodeIterator(nil))
	for vit.Next() {
		if !bytes.HasPrefix(vit.Value, valInfoPrefix) {
			continue
		}
		v := new(state.Validator)
		if err := rlp.DecodeBytes(vit.Value[len(valInfoPrefix):], v); err != nil {
			return nil, fmt.Errorf("undecodable validator record: %v", err)
		}
		out.Vals[v.MainAddress()] = v
		out.ValToken.Add(out.ValToken, v.Token)
		out.ValRD.Add(out.ValRD, v.RewardsDistributable)
	}
	if vit.Err != nil {
		return nil, vit.Err
	}
	stat, err := st.GetValidatorsStat()
	if err != nil || stat == nil {
		return nil, fmt.Errorf("validators stat: %v", err)
	}
	for _, role := range []params.ValidatorRole{params.RoleChancellor, params.RoleSenator, params.RoleHouse} {
		s := stat.GetByRole(role)
		out.RolePool[role] = new(big.Int).Set(s.GetRewardsDistributable())
		out.Pools.Add(out.Pools, s.GetRewardsDistributable())
		out.Residue.Add(out.Residue, s.GetRewardsResidue())
	}
	for _, kind := range []params.ValidatorKind{params.KindValidator, params.KindChamber, params.KindHouse} {
		s := stat.GetByKind(kind)
		out.Pools.Add(out.Pools, s.GetRewardsDistributable())
		out.Residue.Add(out.Residue, s.GetRewardsResidue())
	}
	for _, rec := range st.GetWithdrawQueue().Records {
		out.Queue = append(out.Queue, rec.DeepCopy())
		if rec.Finished == 0 {
			out.Unfinished.Add(out.Unfinished, rec.FinalBalance)
		}
	}
	out.Pool = st.GetBalance(yp.RewardsPoolAddress)
	out.Penalty = st.GetBalance(yp.PenaltyTo)
	return out, nil
}

// ---------------------------------------------------------------- monitor

var emptyCodeHash = crypto.Keccak256Hash(nil)

type txObs struct {
	tx         *types.Transaction
	before     *big.Int // Σ balances over the universe before the tx
	after      *big.Int
	err        error
	receipt    *types.Receipt
	gasCharged uint64
	runsCode   bool // contract creation, or the recipient had code when the tx started
}

type Monitor struct {
	r        *chaingen.Run
	yp       *params.YouParams
	genesis  *big.Int
	expected *big.Int // genesis total, rebased after exactly explained known leaks
	inflight *big.Int
	prev     *Holdings
	obs      []txObs
	cur      *txObs
	// validators that are empty (no token, no stake) but still hold undistributed rewards after EndBlock
	emptyWithRD map[common.Address]*big.Int
	periodTx    map[common.Hash]*chaingen.TxInfo // activation txs of the current period
	paid        map[string]bool                  // withdraw records already paid
	feats       map[string]bool
}

func NewMonitor() *Monitor {
	return &Monitor{inflight: new(big.Int), periodTx: map[common.Hash]*chaingen.TxInfo{}, paid: map[string]bool{}, feats: map[string]bool{}, genesis: new(big.Int), expected: new(big.Int)}
}

func (m *Monitor) signature() string {
	var f []string
	for k := range m.feats {
		f = append(f, k)
	}
	sort.Strings(f)
	return strings.Join(f, ",")
}

func (m *Monitor) Start(r *chaingen.Run) bool {
	m.r = r
	m.yp = r.W.YP
	h, err := holdingsAt(r.A.Chain, r.A.Chain.CurrentHeader(), m.yp)
	if err != nil {
		r.Violation("holdings-unreadable", "genesis: "+err.Error(), nil)
		return false
	}
	m.prev = h
	m.genesis = h.Total()
	m.expected = new(big.Int).Set(m.genesis)
	return true
}

func (m *Monitor) universeSum(st *state.StateDB) *big.Int {
	s := new(big.Int)
	for _, a := range m.r.W.U.Addrs {
		s.Add(s, st.GetBalance(a))
	}
	return s
}

func (m *Monitor) Hooks() *build.Hooks {
	return &build.Hooks{
		BeforeTx: func(i int, tx *types.Transaction, st *state.StateDB) {
			m.cur = &txObs{tx: tx, before: m.universeSum(st)}
			// GetCodeHash has no side effect (GetCodeSize on a code-less account records a "not found" database error)
			if to := tx.To(); to == nil {
				m.cur.runsCode = true
			} else if *to != params.StakingModuleAddress {
				ch := st.GetCodeHash(*to)
				m.cur.runsCode = ch != (common.Hash{}) && ch != emptyCodeHash
			}
		},
		AfterTx: func(i int, tx *types.Transaction, st *state.StateDB, rc *types.Receipt, err error, g uint64) {
			m.cur.after = m.universeSum(st)
			m.cur.err, m.cur.receipt, m.cur.gasCharged = err, rc, g
			m.obs = append(m.obs, *m.cur)
		},
		AfterEndBlock: func(st *state.StateDB, h *types.Header) {
			m.emptyWithRD = map[common.Address]*big.Int{}
			for _, a := range m.r.W.U.Vals {
				if v := st.GetValidatorByMainAddr(a); v != nil && v.Token.Sign() == 0 && v.Stake.Sign() == 0 && v.RewardsDistributable.Sign() > 0 {
					m.emptyWithRD[a] = new(big.Int).Set(v.RewardsDistributable)
				}
			}
		},
	}
}

func (m *Monitor) Built(r *chaingen.Run, b *chaingen.BlockCtx) bool { return true }
func (m *Monitor) Finish(r *chaingen.Run)                           {}

func recKey(rec *state.WithdrawRecord) string {
	return fmt.Sprintf("%x/%d/%x/%x/%x", rec.Operator, rec.Nonce, rec.TxHash, rec.Validator, rec.Delegator)
}

func lu(x *big.Int) string { return x.String() + " LU" }

// predictForced computes, from the pre-block holdings and the header only, the amount the
// forced-settlement defect of distributeRewards loses in this block: for every online House
// validator that is force-settled while it has undistributed rewards, the period share `per`
// (added to a copy, then overwritten by the write-back of the stale record). ok=false when the
// model does not cover the situation (then nothing is excused).
func predictForced(pre *Holdings, h *types.Header, yp *params.YouParams, accused map[common.Address]bool, idx func(common.Address) int) (loss *big.Int, who []string, ok bool) {
	loss = new(big.Int)
	n := h.Number.Uint64()
	if (n+1)%yp.StakingTrieFrequency != 0 {
		return loss, nil, true
	}
	if pre.RolePool[params.RoleChancellor].Sign() != 0 || pre.RolePool[params.RoleSenator].Sign() != 0 {
		return loss, nil, false // chamber pools are never fed under V5; their shares would need the slashing model
	}
	online := func(v *state.Validator) bool { return v.Status == params.ValidatorOnline && !accused[v.MainAddress()] }
	count := map[params.ValidatorRole]uint64{}
	for _, v := range pre.Vals {
		if online(v) {
			count[v.Role]++
		}
	}
	// rewardsToPool
	blockRewards := new(big.Int)
	for _, x := range []*big.Int{h.GasRewards, pre.Residue, h.Subsidy} {
		if x != nil && x.Sign() > 0 {
			blockRewards.Add(blockRewards, x)
		}
	}
	housePool := new(big.Int).Set(pre.RolePool[params.RoleHouse])
	proposerReward := new(big.Int)
	if blockRewards.Sign() > 0 {
		var portions uint64
		for _, role := range []params.ValidatorRole{params.RoleChancellor, params.RoleSenator, params.RoleHouse} {
			if count[role] > 0 {
				portions += yp.RewardsDistRatio[role]
			}
		}
		if portions == 0 {
			return loss, nil, false
		}
		per := new(big.Int).Div(blockRewards, new(big.Int).SetUint64(portions))
		for _, role := range []params.ValidatorRole{params.RoleChancellor, params.RoleSenator, params.RoleHouse} {
			if count[role] == 0 {
				continue
			}
			share := new(big.Int).Mul(per, new(big.Int).SetUint64(yp.RewardsDistRatio[role]))
			if role == params.RoleHouse {
				housePool.Add(housePool, share)
			} else {
				proposerReward.Add(proposerReward, share)
			}
		}
	}
	if count[params.RoleHouse] == 0 {
		return loss, nil, true
	}
	per := new(big.Int).Div(housePool, new(big.Int).SetUint64(count[params.RoleHouse]))
	gap := yp.MaxRewardsPeriod * yp.StakingTrieFrequency
	for a, v := range pre.Vals {
		if v.Role != params.RoleHouse || !online(v) {
			continue
		}
		if !(v.RewardsLastSettled < n && v.RewardsLastSettled+gap <= n) {
			continue
		}
		rd := new(big.Int).Set(v.RewardsDistributable)
		if a == h.Coinbase {
			rd.Add(rd, proposerReward)
		}
		// settleValidatorRewards returns without writing when there is nothing to settle
		if rd.Sign() == 0 {
			continue
		}
		who = append(who, fmt.Sprintf("validator #%d (last settled %d, share %v)", idx(a), v.RewardsLastSettled, per))
		loss.Add(loss, per)
	}
	sort.Strings(who)
	return loss, who, true
}

func (m *Monitor) Imported(r *chaingen.Run, b *chaingen.BlockCtx) bool {
	defer func() { m.obs = nil }()
	hd := b.Block.Header()
	c := r.C
	// ---- fees: what senders really paid vs what is credited
	mint := new(big.Int)
	feesPaid, feesCredited := new(big.Int), new(big.Int)
	refundExplains := true
	k := 0
	for _, o := range m.obs {
		d := new(big.Int).Sub(o.before, o.after)
		if o.err != nil {
			if d.Sign() != 0 {
				r.Violation("skipped-tx-moved-balances", fmt.Sprintf("block %d: a transaction the builder skipped (%v) changed the sum of balances by %v", b.N, o.err, d), r.Witness(b, nil))
				return false
			}
			continue
		}
		ti := b.Included[k]
		k++
		ok := o.receipt.Status == types.ReceiptStatusSuccessful
		if ti.Detain != nil && ok {
			d.Sub(d, ti.Detain)
			m.inflight.Add(m.inflight, ti.Detain)
			m.periodTx[o.tx.Hash()] = ti
		}
		credited := new(big.Int).Mul(o.tx.GasPrice(), new(big.Int).SetUint64(o.receipt.GasUsed))
		feesPaid.Add(feesPaid, d)
		feesCredited.Add(feesCredited, credited)
		if diff := new(big.Int).Sub(credited, d); diff.Sign() != 0 {
			mint.Add(mint, diff)
			byRefund := new(big.Int).Mul(o.tx.GasPrice(), new(big.Int).SetUint64(o.receipt.GasUsed-o.gasCharged))
			if o.receipt.GasUsed < o.gasCharged || byRefund.Cmp(diff) != 0 {
				refundExplains = false
			}
			// the refund counter only exists for code run by the EVM (SSTORE clear, SELFDESTRUCT) and the
			// refund is capped at half of the gas used: a staking transaction, a plain transfer, or a
			// larger gap is NOT the listed finding
			if !o.runsCode || o.receipt.GasUsed-o.gasCharged > o.receipt.GasUsed/2 {
				refundExplains = false
			}
			m.feats["gasrefund"] = true
		}
		c.Evals(1)
	}
	if feesCredited.Cmp(hd.GasRewards) != 0 {
		r.Violation("gasrewards-ne-receipts", fmt.Sprintf("block %d: header.GasRewards %v != Σ gasUsed·price of the receipts %v", b.N, hd.GasRewards, feesCredited), r.Witness(b, nil))
		return false
	}
	if mint.Sign() != 0 {
		if !refundExplains {
			r.Violation("fees-ne-gasrewards", fmt.Sprintf("block %d: senders paid %v in fees, header.GasRewards credits %v", b.N, feesPaid, hd.GasRewards), r.Witness(b, nil))
			return false
		}
		// exactly the refunded gas: usedGas is taken BEFORE refundGas() gives gas back to the sender
		r.Known("gas-refund-still-credited-as-fee", fmt.Sprintf("block %d: senders paid %s in fees but header.GasRewards credits %s: the difference %s is exactly Σ (receipt.GasUsed − gas charged to the gas pool)·price of the transactions that earned an SSTORE-clear/SELFDESTRUCT refund — ApplyMessageEntry takes gasUsed before refundGas()", b.N, lu(feesPaid), lu(hd.GasRewards), lu(mint)), r.Witness(b, m.refundWitness()))
		c.Count("known_gas_refund_blocks", 1)
	}

	// ---- holdings after the block
	post, err := holdingsAt(r.A.Chain, hd, m.yp)
	if err != nil {
		r.Violation("holdings-unreadable", fmt.Sprintf("block %d: %v", b.N, err), r.Witness(b, nil))
		return false
	}
	pre := m.prev
	accused := map[common.Address]bool{}
	if len(hd.SlashData) > 0 {
		for _, a := range b.EvidenceVals {
			accused[a] = true
		}
	}
	forced, forcedWho, predictable := predictForced(pre, hd, m.yp, accused, r.W.ValIndex)
	deletedRD := new(big.Int)
	var deletedWho []string
	for a, rd := range m.emptyWithRD {
		if _, still := post.Vals[a]; !still {
			deletedRD.Add(deletedRD, rd)
			deletedWho = append(deletedWho, fmt.Sprintf("validator #%d (undistributed rewards %v)", r.W.ValIndex(a), rd))
		}
	}
	m.emptyWithRD = nil
	sort.Strings(deletedWho)

	// failed activations (refunds) and matured withdrawals, as the module receipt tells them
	var failedVals []*big.Int
	for _, rc := range b.Res.ModuleReceipts {
		for _, l := range rc.Logs {
			if len(l.Topics) == 0 {
				continue
			}
			switch l.Topics[0] {
			case common.StringToHash(staking.LogTopicDepositFailed), common.StringToHash(staking.LogTopicDelegationAddFailed):
				if ti := m.periodTx[l.TxHash]; ti != nil {
					failedVals = append(failedVals, ti.Detain)
					c.Count("refunds_"+ti.Kind, 1)
					m.feats["refund"] = true
				}
			case common.StringToHash(staking.LogTopicSlashing):
				var sd staking.SlashDataV5
				if rlp.DecodeBytes(l.Data, &sd) == nil {
					if sd.Type == staking.EventTypeInactive {
						c.Count("slashings_inactivity", 1)
						m.feats["inactive"] = true
					} else {
						c.Count("slashings_doublesign", 1)
						m.feats["doublesign"] = true
					}
					if len(sd.FromWithdraw) > 0 {
						c.Count("penalties_hitting_withdraw_records", 1)
						m.feats["penalty-from-withdraw"] = true
					}
				}
			case common.StringToHash(staking.LogTopicRecoverFromExpiredExpelling):
				c.Count("expulsions_recovered", 1)
				m.feats["recovered"] = true
			}
		}
	}

	inflightAfter := m.inflight
	if b.PeriodEnd {
		inflightAfter = new(big.Int)
	}
	total := new(big.Int).Add(post.Total(), inflightAfter)
	delta := new(big.Int).Sub(total, m.expected)
	// mint and deletedRD are measured; the forced-settlement loss is a prediction that excuses a
	// deficit of exactly that size — it is not demanded (a repaired tree loses nothing)
	base := new(big.Int).Sub(mint, deletedRD)
	explained := new(big.Int).Sub(base, forced)
	if !predictable {
		forced = new(big.Int)
		explained = base
	}
	c.Evals(1)
	if forced.Sign() > 0 {
		c.Count("forced_settlements", len(forcedWho))
		m.feats["forced"] = true
	}
	if forced.Sign() > 0 && delta.Cmp(base) == 0 {
		// the predicted loss did not happen
		c.Count("forced_settlements_without_loss", len(forcedWho))
		forced = new(big.Int)
		explained = base
	}
	if delta.Cmp(explained) != 0 {
		un := new(big.Int).Sub(delta, explained)
		class, why := m.classify(un, pre, post, failedVals, b)
		dir := "deficit"
		if un.Sign() > 0 {
			dir = "surplus"
		}
		if class == "" {
			class = "conservation-" + dir
		}
		r.Violation(class, fmt.Sprintf("block %d: unexplained %s of %s (total incl. in-flight %v, expected %v; exactly explained known effects in this block: gas-refund mint +%v, forced-settlement loss −%v, deleted-validator rewards −%v)%s", b.N, dir, lu(new(big.Int).Abs(un)), total, m.expected, mint, forced, deletedRD, why),
			r.Witness(b, map[string]interface{}{"before": pre.describe(), "after": post.describe(), "inflight_before": m.inflight.String(), "inflight_after": inflightAfter.String(), "validators": m.valChanges(pre, post)}))
		return false
	}
	if forced.Sign() > 0 && predictable {
		r.Known("c07-forced-settle-overwrites-distributed-reward", fmt.Sprintf("block %d (period end): the total drops by exactly %s = the period share of the force-settled House validators %v: distributeRewards adds the share to a copy and then settles the stale record, whose write-back overwrites the copy", b.N, lu(forced), forcedWho), r.Witness(b, map[string]interface{}{"before": pre.describe(), "after": post.describe(), "predicted_loss": forced.String(), "force_settled": forcedWho}))
		c.Count("forced_settlements_with_loss", len(forcedWho))
	}
	if deletedRD.Sign() > 0 {
		r.Known("deleted-validator-drops-undistributed-rewards", fmt.Sprintf("block %d: %v ended the block without token and stake and were deleted by IntermediateRoot(true) together with their RewardsDistributable (the settlement residue an online validator keeps): %s vanish", b.N, deletedWho, lu(deletedRD)), r.Witness(b, map[string]interface{}{"deleted": deletedWho}))
		c.Count("deleted_validators_with_rewards", len(deletedWho))
		m.feats["deleted-rd"] = true
	}
	m.expected = total
	if b.PeriodEnd {
		m.inflight = new(big.Int)
		m.periodTx = map[common.Hash]*chaingen.TxInfo{}
	}

	// ---- bucket flows
	donPool, donPen := new(big.Int), new(big.Int)
	for i, ti := range b.Included {
		if ti.Kind == "transfer" && ti.To != nil && b.Res.TxReceipts[i].Status == types.ReceiptStatusSuccessful {
			if *ti.To == m.yp.RewardsPoolAddress {
				donPool.Add(donPool, ti.Tx.Value())
			}
			if *ti.To == m.yp.PenaltyTo {
				donPen.Add(donPen, ti.Tx.Value())
			}
		}
	}
	sub := hd.Subsidy
	if sub == nil {
		sub = new(big.Int)
	}
	if sub.Sign() > 0 {
		c.Count("blocks_with_subsidy", 1)
		if post.Pool.Sign() == 0 {
			m.feats["pool-dry"] = true
		}
	} else if pre.Pool.Sign() > 0 {
		m.feats["no-subsidy-needed"] = true
	}
	if want := new(big.Int).Sub(new(big.Int).Add(pre.Pool, donPool), sub); want.Cmp(post.Pool) != 0 {
		r.Violation("rewards-pool-delta-ne-subsidy", fmt.Sprintf("block %d: rewards pool %v -> %v, header.Subsidy %v, donations %v", b.N, pre.Pool, post.Pool, sub, donPool), r.Witness(b, nil))
		return false
	}
	penalties := new(big.Int)
	for _, rc := range b.Res.ModuleReceipts {
		for _, l := range rc.Logs {
			if len(l.Topics) > 0 && l.Topics[0] == common.StringToHash(staking.LogTopicSlashing) {
				var sd staking.SlashDataV5
				if err := rlp.DecodeBytes(l.Data, &sd); err == nil && sd.Total != nil {
					penalties.Add(penalties, sd.Total)
				}
			}
		}
	}
	if got := new(big.Int).Sub(new(big.Int).Sub(post.Penalty, pre.Penalty), donPen); got.Cmp(penalties) != 0 {
		r.Violation("penalty-account-delta-ne-penalties", fmt.Sprintf("block %d: PenaltyTo grew by %v but the slashing logs of the block take %v", b.N, got, penalties), r.Witness(b, nil))
		return false
	}
	if !m.checkQueue(pre, post, b, penalties.Sign() > 0) {
		return false
	}

	// ---- importer
	if b.ImportErr == nil {
		imp, err := holdingsAt(r.B.Chain, hd, m.yp)
		if err != nil {
			r.Violation("importer-holdings-unreadable", fmt.Sprintf("block %d: %v", b.N, err), r.Witness(b, nil))
			return false
		}
		if d := post.diff(imp); d != "" {
			r.Violation("importer-holdings-differ", fmt.Sprintf("block %d: holdings enumerated from the importer's database differ from the builder's: %s", b.N, d), r.Witness(b, nil))
			return false
		}
		if t := new(big.Int).Add(imp.Total(), inflightAfter); t.Cmp(m.expected) != 0 {
			r.Violation("importer-conservation", fmt.Sprintf("block %d: importer total %v != expected %v", b.N, t, m.expected), r.Witness(b, nil))
			return false
		}
		c.Evals(1)
		c.Count("importer_states_checked", 1)
	} else {
		// the divergence itself is C06's subject; conservation cannot be followed on B any further
		class, extra := "import-rejected:"+chaingen.Normalise(b.ImportErr.Error()), map[string]interface{}{}
		if cl := chaingen.EvidenceClass(r, b, extra); cl != "" {
			class = cl
		}
		r.Violation(class, fmt.Sprintf("block %d rejected by the importer: %v", b.N, b.ImportErr), r.Witness(b, extra))
		return false
	}
	c.Count("blocks_balanced", 1)
	m.prev = post
	return true
}

func (m *Monitor) refundWitness() map[string]interface{} {
	var txs []string
	for _, o := range m.obs {
		if o.err == nil && o.receipt.GasUsed != o.gasCharged {
			paid := new(big.Int).Sub(o.before, o.after)
			txs = append(txs, fmt.Sprintf("tx %x: receipt.GasUsed %d, gas charged to sender %d, gas price %v, balances dropped by %v", o.tx.Hash().Bytes()[:4], o.receipt.GasUsed, o.gasCharged, o.tx.GasPrice(), paid))
		}
	}
	return map[string]interface{}{"refunding_txs": txs}
}

// classify names an unexplained discrepancy when its amount matches a specific candidate.
func (m *Monitor) classify(un *big.Int, pre, post *Holdings, failed []*big.Int, b *chaingen.BlockCtx) (string, string) {
	abs := new(big.Int).Abs(un)
	if un.Sign() < 0 {
		sum := new(big.Int)
		for _, f := range failed {
			sum.Add(sum, f)
			if f.Cmp(abs) == 0 {
				return "refund-missing", "; the amount equals the value of an activation that failed to take effect in this block"
			}
		}
		if len(failed) > 0 && sum.Cmp(abs) == 0 {
			return "refund-missing", "; the amount equals the sum of the activations that failed to take effect in this block"
		}
	}
	postByKey := map[string]*state.WithdrawRecord{}
	for _, rec := range post.Queue {
		postByKey[recKey(rec)] = rec
	}
	for _, rec := range pre.Queue {
		if rec.FinalBalance.Cmp(abs) != 0 || abs.Sign() == 0 {
			continue
		}
		p := postByKey[recKey(rec)]
		switch {
		case un.Sign() > 0 && rec.Finished == 1:
			return "withdraw-paid-twice", "; the amount equals the FinalBalance of a withdraw record that was already finished"
		case un.Sign() > 0 && p != nil && p.Finished == 0:
			return "withdraw-paid-but-not-finished", "; the amount equals the FinalBalance of a mature withdraw record that is still unfinished"
		case un.Sign() < 0 && rec.Finished == 0 && (p == nil || p.Finished == 1):
			return "withdraw-finished-but-not-paid", "; the amount equals the FinalBalance of a withdraw record that became finished in this block"
		}
	}
	return "", ""
}

func (m *Monitor) valChanges(pre, post *Holdings) []string {
	var out []string
	for a, v := range pre.Vals {
		p := post.Vals[a]
		if p == nil {
			out = append(out, fmt.Sprintf("validator #%d deleted (token %v, rewards %v)", m.r.W.ValIndex(a), v.Token, v.RewardsDistributable))
			continue
		}
		if v.Token.Cmp(p.Token) != 0 || v.RewardsDistributable.Cmp(p.RewardsDistributable) != 0 || v.Status != p.Status || v.RewardsLastSettled != p.RewardsLastSettled {
			out = append(out, fmt.Sprintf("validator #%d role %d: token %v -> %v, rewards %v -> %v, status %d -> %d, last settled %d -> %d", m.r.W.ValIndex(a), v.Role, v.Token, p.Token, v.RewardsDistributable, p.RewardsDistributable, v.Status, p.Status, v.RewardsLastSettled, p.RewardsLastSettled))
		}
	}
	for a, p := range post.Vals {
		if pre.Vals[a] == nil {
			out = append(out, fmt.Sprintf("validator #%d created (token %v)", m.r.W.ValIndex(a), p.Token))
		}
	}
	sort.Strings(out)
	if len(out) > 30 {
		out = out[:30]
	}
	return out
}

// checkQueue: withdraw records move monotonically and pay exactly once.
func (m *Monitor) checkQueue(pre, post *Holdings, b *chaingen.BlockCtx, slashed bool) bool {
	r := m.r
	postByKey := map[string]*state.WithdrawRecord{}
	for _, rec := range post.Queue {
		k := recKey(rec)
		if postByKey[k] != nil {
			r.Violation("withdraw-record-duplicated", fmt.Sprintf("block %d: two withdraw records with the same (operator, nonce, tx, validator, delegator)", b.N), r.Witness(b, nil))
			return false
		}
		postByKey[k] = rec
	}
	preKeys := map[string]bool{}
	for _, rec := range pre.Queue {
		k := recKey(rec)
		preKeys[k] = true
		p := postByKey[k]
		mature := rec.CompletionHeight < b.N
		switch {
		case p == nil:
			// (a penalty of the same block may have emptied the record: it is then finished and, its
			// completion height lying in the future, discarded at once)
			if rec.Finished == 0 && !(b.PeriodEnd && (mature || rec.FinalBalance.Sign() <= 0 || slashed)) {
				r.Violation("withdraw-record-vanished", fmt.Sprintf("block %d: an unfinished withdraw record (final balance %v, completion %d) disappeared", b.N, rec.FinalBalance, rec.CompletionHeight), r.Witness(b, nil))
				return false
			}
			r.C.Count("withdraw_records_discarded", 1)
		case rec.Finished == 1 && p.Finished == 0:
			r.Violation("withdraw-record-unfinished-again", fmt.Sprintf("block %d: a finished withdraw record is unfinished again", b.N), r.Witness(b, nil))
			return false
		case p.FinalBalance.Cmp(rec.FinalBalance) > 0:
			r.Violation("withdraw-final-balance-grew", fmt.Sprintf("block %d: FinalBalance %v -> %v", b.N, rec.FinalBalance, p.FinalBalance), r.Witness(b, nil))
			return false
		case p.FinalBalance.Cmp(rec.FinalBalance) < 0 && !slashed:
			r.Violation("withdraw-final-balance-shrank-without-penalty", fmt.Sprintf("block %d: FinalBalance %v -> %v in a block without slashing", b.N, rec.FinalBalance, p.FinalBalance), r.Witness(b, nil))
			return false
		case rec.Finished == 0 && p.Finished == 1:
			if !b.PeriodEnd || !(mature || p.FinalBalance.Sign() <= 0) {
				r.Violation("withdraw-paid-early", fmt.Sprintf("block %d: withdraw record with completion height %d finished (period end: %v)", b.N, rec.CompletionHeight, b.PeriodEnd), r.Witness(b, nil))
				return false
			}
			if m.paid[k] {
				r.Violation("withdraw-paid-twice", fmt.Sprintf("block %d: withdraw record finished a second time", b.N), r.Witness(b, nil))
				return false
			}
			m.paid[k] = true
			if p.FinalBalance.Sign() > 0 {
				r.C.Count("withdrawals_matured", 1)
				m.feats["matured"] = true
			} else {
				r.C.Count("withdrawals_emptied_by_penalty_or_zero", 1)
			}
		case rec.Finished == 0 && p.Finished == 0 && b.PeriodEnd && mature && p.FinalBalance.Sign() > 0:
			r.Violation("withdraw-mature-not-paid", fmt.Sprintf("block %d (period end): withdraw record with completion height %d and final balance %v is still unfinished", b.N, rec.CompletionHeight, p.FinalBalance), r.Witness(b, nil))
			return false
		}
	}
	for k, p := range postByKey {
		if !preKeys[k] {
			if !b.PeriodEnd {
				r.Violation("withdraw-record-created-mid-period", fmt.Sprintf("block %d: a withdraw record appeared in a block that does not end a staking period", b.N), r.Witness(b, nil))
				return false
			}
			r.C.Count("withdraw_records_created", 1)
			if p.Delegator != (common.Address{}) {
				m.feats["dlg-withdraw"] = true
			} else {
				m.feats["val-withdraw"] = true
			}
			if tx := findTx(b, p.TxHash); tx == nil {
				// the request was submitted in an earlier block of the period: fine
				_ = tx
			}
		}
	}
	return true
}

func findTx(b *chaingen.BlockCtx, h common.Hash) *types.Transaction {
	for _, tx := range b.Res.Txs {
		if tx.Hash() == h {
			return tx
		}
	}
	return nil
}
