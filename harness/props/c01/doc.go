// Package c01 holds the workloads and monitors of property C01.
package c01
